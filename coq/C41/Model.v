(* C41 — saved configurations load back unchanged (core/config.rs Config::save / Config::load,
   client/config.rs, server/config.rs).

   The derived Serialize / Deserialize impls are the two interpreters of C41/Schema.v applied to the
   schema that tools/translate/c41_schema.py extracts from the source on every run (Gen/C41Schema.v).
   A configuration is a generic value (VR [fields in declaration order]); `save` writes the tree
   [ser], `load` reads it with [de].  serde_yaml's text layer (tree <-> YAML text, quoting of special
   strings, number syntax) is an oracle tied in by the correspondence run.  `is_valid` is modelled
   in C41/Valid.v; the case also carries what the real is_valid said of the original configuration,
   and a disagreement between the two shows as a model / implementation mismatch.

   A case is run as a HISTORY on one file: the file already holds something longer (junk); an older
   version of the configuration (the same but for one bit of one number) is saved and loaded; the
   configuration itself is saved over it, loaded, and loaded a second time.  No proofs here. *)
From Coq Require Import List ZArith Bool String.
From OV Require Export C41.Schema.
From OV Require Import Gen.C41Schema.
From OV Require Export C41.Valid.
Import ListNotations.
Open Scope list_scope.
Open Scope Z_scope.

Definition FUEL : nat := 12.

(* kind 0 = ClientConfig, 1 = ServerConfig; is_valid = what Config::is_valid says of the value *)
Record case := mk_case { c_kind : Z; c_val : val; c_is_valid : bool }.

Definition root (c : case) : ty := TStruct (if c_kind c =? 0 then root_client else root_server).

Definition zlen {A} (l : list A) : Z := Z.of_nat (List.length l).
Fixpoint enc_y (y : ytree) : list Z :=
  match y with
  | YNull => [0]
  | YBool b => [1; if b then 1 else 0]
  | YInt z => [2; z]
  | YFloat b => [3; b]
  | YStr s => 4 :: zlen s :: s
  | YSeq l => 5 :: zlen l :: (fix go (l : list ytree) : list Z :=
                                match l with [] => [] | x :: r => enc_y x ++ go r end) l
  | YMap m => 6 :: zlen m :: (fix go (m : list (str * ytree)) : list Z :=
                                match m with [] => [] | (k, x) :: r => zlen k :: k ++ enc_y x ++ go r end) m
  end.

(* Rust's derived PartialEq: structural, except that a NaN is not equal to itself *)
Fixpoint list_eqb (a b : list Z) : bool :=
  match a, b with
  | [], [] => true
  | x :: a', y :: b' => (x =? y) && list_eqb a' b'
  | _, _ => false
  end.
Fixpoint val_eqb (a b : val) {struct a} : bool :=
  match a, b with
  | VS x, VS y => list_eqb x y
  | VB x, VB y => Bool.eqb x y
  | VZ x, VZ y => x =? y
  | VF x, VF y => x =? y
  | VBadPath, VBadPath => true
  | VDur s n, VDur s' n' => (s =? s') && (n =? n')
  | VO None, VO None => true
  | VO (Some x), VO (Some y) => val_eqb x y
  | VL l, VL l' =>
      (fix go (l l' : list val) : bool :=
         match l, l' with [], [] => true | x :: r, y :: r' => val_eqb x y && go r r' | _, _ => false end) l l'
  | VM m, VM m' =>
      (fix go (m m' : list (str * val)) : bool :=
         match m, m' with
         | [], [] => true
         | (k, x) :: r, (k', y) :: r' => list_eqb k k' && val_eqb x y && go r r'
         | _, _ => false
         end) m m'
  | VR l, VR l' =>
      (fix go (l l' : list val) : bool :=
         match l, l' with [], [] => true | x :: r, y :: r' => val_eqb x y && go r r' | _, _ => false end) l l'
  | _, _ => false
  end.
Definition is_nan64 (b : Z) : bool := 9218868437227405312 <? b mod 2 ^ 63.
Fixpoint has_nan (a : val) : bool :=
  match a with
  | VF b => is_nan64 b
  | VO (Some x) => has_nan x
  | VL l => (fix go (l : list val) : bool := match l with [] => false | x :: r => has_nan x || go r end) l
  | VM m => (fix go (m : list (str * val)) : bool := match m with [] => false | (_, x) :: r => has_nan x || go r end) m
  | VR l => (fix go (l : list val) : bool := match l with [] => false | x :: r => has_nan x || go r end) l
  | _ => false
  end.

(* Case terms are kept small (coqc spends about a millisecond per numeral): a string is written as
   one number, [u z], its scalar values being the base-2^21 digits of z below a leading 1; the tree that
   was written is compared through its length and a checksum. *)
Definition B21 : Z := 2097152.
Fixpoint unpack_aux (fuel : nat) (z : Z) (acc : str) : str :=
  match fuel with
  | O => acc
  | S f => if z <=? 1 then acc else unpack_aux f (z / B21) (z mod B21 :: acc)
  end.
Definition u (z : Z) : str := unpack_aux (Z.to_nat (Z.log2 z / 21 + 1)) z [].
Definition cksum (l : list Z) : Z :=
  fold_left (fun acc x => (acc * 1000003 + x + 7) mod 2305843009213693951) l 0.

(* output:
     [-9]                    the model of is_valid disagrees with what the real is_valid said (never
                             produced by the implementation)
     [0]                     save refused the configuration (it is not valid)
     [-1] / [-2]             the serialiser reported an error: save returned Err / panicked (unwrap)
     [1; n; ck; 0]           the file did not load (n, ck: length and checksum of the written tree)
     [1; n; ck; 1; eq; valid; same_tree; older_eq; eq2]
   eq = `loaded == original`; valid = loaded.is_valid(); same_tree = the loaded configuration
   serialises to the same tree; older_eq = the older version, saved to the same path before, loaded
   back equal to itself; eq2 = a second load of the file == original.  The older version differs
   from the configuration in one number only, so it is equal to its own reload exactly when the
   configuration is. *)
Definition b2z (b : bool) : Z := if b then 1 else 0.
Definition run_with (unwraps : bool) (c : case) : list Z :=
  if negb (Bool.eqb (c_is_valid c) (is_valid_m (c_kind c) (c_val c))) then [-9]
  else if negb (c_is_valid c) then [0]
  else match ser cfg_schema FUEL (root c) (c_val c) with
       | None => [if unwraps then -2 else -1]
       | Some y =>
           let e := enc_y y in
           1 :: zlen e :: cksum e ::
           match de cfg_schema FUEL (root c) y with
           | None => [0]
           | Some v' =>
               let eq := b2z (val_eqb (c_val c) v' && negb (has_nan (c_val c))) in
               [1; eq; b2z (is_valid_m (c_kind c) v'); 1; eq; eq]
           end
       end.
Definition run : case -> list Z := run_with save_unwraps_serializer.

Module Legacy.
  (* before the fix: `serde_yaml::to_string(&self).unwrap()` *)
  Definition run : case -> list Z := run_with true.
End Legacy.

(* the quantifier: a valid configuration, well-formed for its schema (paths valid UTF-8, integers in
   their type's range, maps and sets in key order as BTreeMap / BTreeSet keep them), no NaN limit *)
Definition inscope (c : case) : bool :=
  c_is_valid c && is_valid_m (c_kind c) (c_val c) && ((c_kind c =? 0) || (c_kind c =? 1)) &&
  wt cfg_schema false FUEL (root c) (c_val c) && negb (has_nan (c_val c)).

(* the property: the file loads, the loaded configuration equals the original and is valid — whatever
   the file held before, and every time it is loaded *)
(* ... and saving never panics, whatever the configuration holds *)
Definition oracle (c : case) (out : list Z) : bool :=
  negb (list_eqb out [-2]) &&
  (if negb (inscope c) then true
   else match out with
        | 1 :: _ :: _ :: rest => list_eqb rest [1; 1; 1; 1; 1; 1]
        | _ => false
        end).

(* known finding 1: the thumbprint cache of a server user token is filled.  The class exists only
   while ServerUserToken.thumbprint is the one skipped field of the schema: any other skipped field
   that holds a value is not covered by it. *)
Definition only_thumbprint_skipped : bool :=
  match skipped_fields cfg_schema with
  | [(a, b)] => String.eqb a "S.ServerUserToken" && String.eqb b "thumbprint"
  | _ => false
  end.
Definition known (c : case) : Z :=
  if only_thumbprint_skipped && wt cfg_schema false FUEL (root c) (c_val c) &&
     negb (wt cfg_schema true FUEL (root c) (c_val c)) then 1 else 0.

Definition valid (c : case) : Prop := inscope c = true.
