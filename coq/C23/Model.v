(* C23 — revised subscription and monitored item parameters
   (lib/src/server/services/subscription.rs `revise_subscription_values`,
    lib/src/server/subscriptions/monitored_item.rs `sanitize_sampling_interval`,
    `sanitize_queue_size`).

   Model of the code as committed (after "fix: NaN sampling interval was returned unrevised").
   f64 values are Flocq binary64 floats (NaN, infinities, signed zeros, subnormals included); the
   comparisons are Flocq's IEEE comparison [Bcompare] (unordered with NaN).  u32/usize are Z.
   The only Rust panic site is `revised_max_keep_alive_count * 3` (u32, overflow checks). *)
From Coq Require Import List ZArith Bool Lia.
From Flocq Require Import IEEE754.Binary IEEE754.Bits.
Import ListNotations.
Open Scope Z_scope.

Definition U32MAX : Z := 2 ^ 32 - 1.

Definition f64 := binary64.
Definition of_bits (z : Z) : f64 := b64_of_bits z.
Definition fnan (f : f64) : bool := is_nan 53 1024 f.
Definition fcmp (a b : f64) : option comparison := Bcompare 53 1024 a b.
(* Rust's <, <=, == on f64: false when unordered *)
Definition flt (a b : f64) : bool := match fcmp a b with Some Lt => true | _ => false end.
Definition fle (a b : f64) : bool := match fcmp a b with Some Lt | Some Eq => true | _ => false end.
Definition feq (a b : f64) : bool := match fcmp a b with Some Eq => true | _ => false end.
Definition fzero : f64 := B754_zero 53 1024 false.
Definition BITS_M1 : Z := 0xBFF0000000000000.     (* -1.0 *)
Definition BITS_NAN : Z := 0x7FF8000000000000.
Definition fm1 : f64 := of_bits BITS_M1.

(* canonical observable form of an f64: its bit pattern, with every NaN mapped to one pattern and
   -0.0 to +0.0 (f64::max may return either zero; no bound of the property distinguishes them) *)
Definition canon (f : f64) : Z :=
  match f with
  | B754_nan _ _ _ _ _ => BITS_NAN
  | B754_zero _ _ _ => 0
  | _ => bits_of_b64 f
  end.

(* f64::max: the other argument when one is NaN, otherwise the larger one *)
Definition fmax (a b : f64) : f64 :=
  if fnan a then b else if fnan b then a else if flt a b then b else a.

Inductive outcome (T : Type) := Done (t : T) | Panic.
Arguments Done {T} t.
Arguments Panic {T}.

(* server limits: min publishing interval, min sampling interval (ms), default / max keep-alive
   count, max lifetime count, max monitored item queue size *)
Record limits := mk_limits {
  l_min_pub : f64; l_min_samp : f64; l_def_ka : Z; l_max_ka : Z; l_max_lt : Z; l_max_q : Z }.

(* revise_subscription_values *)
Definition revise_keep_alive (l : limits) (rka : Z) : Z :=
  if l_max_ka l <? rka then l_max_ka l else if rka =? 0 then l_def_ka l else rka.

Definition revise_lifetime (l : limits) (ka rlt : Z) : outcome Z :=
  let min_lt := ka * 3 in
  if U32MAX <? min_lt then Panic
  else Done (if rlt <? min_lt then min_lt else if l_max_lt l <? rlt then l_max_lt l else rlt).

Definition revise_subscription_values (l : limits) (rpub : f64) (rka rlt : Z)
  : outcome (f64 * Z * Z) :=
  let pub := fmax rpub (l_min_pub l) in
  let ka := revise_keep_alive l rka in
  match revise_lifetime l ka rlt with
  | Panic => Panic
  | Done lt => Done (pub, ka, lt)
  end.

(* sanitize_sampling_interval *)
Definition sanitize_sampling_interval (l : limits) (r : f64) : f64 :=
  if flt r fzero then fm1
  else if fnan r || feq r fzero || flt r (l_min_samp l) then l_min_samp l
  else r.

(* sanitize_queue_size (after "fix: a configured maximum queue size of 0 revised queue sizes to 0
   ...": never below 1) *)
Definition sanitize_queue_size (l : limits) (r : Z) : Z :=
  if (r =? 0) || (r =? 1) then 1 else if l_max_q l <? r then Z.max 1 (l_max_q l) else r.

Module Legacy.
  (* before the fix: no is_nan test; NaN fails every comparison and is echoed back *)
  Definition sanitize_sampling_interval (l : limits) (r : f64) : f64 :=
    if flt r fzero then fm1
    else if feq r fzero || flt r (l_min_samp l) then l_min_samp l
    else r.
End Legacy.

(* ---- correspondence interface -------------------------------------------------------------- *)
(* limits (f64 as bit patterns) and one request: publishing interval, keep-alive count, lifetime
   count, sampling interval, queue size *)
Record case := mk_case {
  c_min_pub : Z; c_min_samp : Z; c_def_ka : Z; c_max_ka : Z; c_max_lt : Z; c_max_q : Z;
  c_pub : Z; c_ka : Z; c_lt : Z; c_samp : Z; c_q : Z }.

Definition lim (c : case) : limits :=
  mk_limits (of_bits (c_min_pub c)) (of_bits (c_min_samp c)) (c_def_ka c) (c_max_ka c)
            (c_max_lt c) (c_max_q c).

(* output: [revised publishing interval; keep-alive; lifetime] or [-2] at a panic, then
   [revised sampling interval; revised queue size] *)
(* the revised interval a monitored item HOLDS after MonitoredItem::new and after
   MonitoredItem::modify with the same request, for an item without a filter, with a
   DataChangeFilter and with an EventFilter: the kind of filter plays no part in the revision *)
Definition item_intervals (samp : limits -> f64 -> f64) (c : case) : list Z :=
  repeat (canon (samp (lim c) (of_bits (c_samp c)))) 6.

(* what ModifySubscription answers for the same request on an existing subscription (created with
   other, already revised values): the revised values do not depend on what the subscription had *)
Definition modify_answer (c : case) : list Z :=
  match revise_subscription_values (lim c) (of_bits (c_pub c)) (c_ka c) (c_lt c) with
  | Panic => [-2]
  | Done (p, k, t) => [canon p; k; t]
  end.

Definition run_with (samp : limits -> f64 -> f64) (c : case) : list Z :=
  (match revise_subscription_values (lim c) (of_bits (c_pub c)) (c_ka c) (c_lt c) with
   | Panic => [-2]
   | Done (p, k, t) => [canon p; k; t]
   end) ++ [canon (samp (lim c) (of_bits (c_samp c))); sanitize_queue_size (lim c) (c_q c)]
  ++ item_intervals samp c ++ modify_answer c.

Definition run (c : case) : list Z := run_with sanitize_sampling_interval c.
Definition legacy_run (c : case) : list Z := run_with Legacy.sanitize_sampling_interval c.

(* a valid limit configuration: the minimum intervals are numbers (not NaN), 1 <= default
   keep-alive <= max keep-alive, 3 * max keep-alive <= max lifetime <= u32::MAX, max queue size >= 1
   (the server builds max lifetime as 3 * MAX_KEEP_ALIVE_COUNT; `ServerConfig::is_valid` checks
   none of these) *)
Definition validb (c : case) : bool :=
  negb (fnan (of_bits (c_min_pub c))) && negb (fnan (of_bits (c_min_samp c))) &&
  (1 <=? c_def_ka c) && (c_def_ka c <=? c_max_ka c) &&
  (3 * c_max_ka c <=? c_max_lt c) && (c_max_lt c <=? U32MAX) && (1 <=? c_max_q c) &&
  (0 <=? c_ka c) && (c_ka c <=? U32MAX) && (0 <=? c_lt c) && (c_lt c <=? U32MAX) &&
  (0 <=? c_q c) && (c_q c <=? U32MAX).
Definition valid (c : case) : Prop := validb c = true.

(* the property: the five bounds of the statement, on an observed output *)
Definition samp_ok (c : case) (s : Z) : bool :=
  (s =? BITS_M1) || fle (of_bits (c_min_samp c)) (of_bits s).
Definition bounds (c : case) (out : list Z) : bool :=
  match out with
  | p :: k :: t :: s :: qs :: items =>
      fle (of_bits (c_min_pub c)) (of_bits p) &&
      ((1 <=? k) && (k <=? c_max_ka c)) &&
      (3 * k <=? t) &&
      samp_ok c s &&
      ((1 <=? qs) && (qs <=? c_max_q c)) &&
      (* the same bound on the interval every created / modified item holds, whatever its filter *)
      Nat.eqb (length items) 9 && forallb (samp_ok c) (firstn 6 items) &&
      (* ... and on what ModifySubscription answers *)
      match skipn 6 items with
      | [p2; k2; t2] =>
          fle (of_bits (c_min_pub c)) (of_bits p2) && ((1 <=? k2) && (k2 <=? c_max_ka c)) && (3 * k2 <=? t2)
      | _ => false
      end
  | _ => false
  end.

(* outside valid configurations the property asks nothing *)
Definition oracle (c : case) (out : list Z) : bool := negb (validb c) || bounds c out.

Definition known (c : case) : Z := 0.
