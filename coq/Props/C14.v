(* C14 — Security token renewal never breaks a healthy channel.  Statements only.
   The faithful model REFUTES the property (two schedules); what is proved is
   (1) the refutations, (2) that outside those two schedule classes — in particular for every
   quiescent renewal — no correctly secured message is ever rejected, for any number of
   renewals and any interleaving. *)
From Coq Require Import List ZArith Bool.
Import ListNotations.
From OV Require Import C14.Model C14.Proofs Gen.C14Facts.
Open Scope Z_scope.

Theorem C14_known_1_refuted : exists c, known c = 1 /\ oracle c (run c) = false.
Proof. exact known_1_refuted. Qed.
Print Assumptions C14_known_1_refuted.

Theorem C14_known_2_refuted : exists c, known c = 2 /\ oracle c (run c) = false.
Proof. exact known_2_refuted. Qed.
Print Assumptions C14_known_2_refuted.

Theorem C14_no_reject_outside_known_partial : forall c : case,
  known c = 0 -> ~ In 0 (run c) /\ length (run c) = length c.
Proof. exact no_reject_outside_known. Qed.
Print Assumptions C14_no_reject_outside_known_partial.

Theorem C14_oracle : forall c : case, known c = 0 -> oracle c (run c) = true.
Proof. exact oracle_holds. Qed.
Print Assumptions C14_oracle.

(* facts about the current source the model rests on (regenerated on every run).  The last one
   scopes known class 1: a request that finds the token due waits for the renewal (it performs it
   or awaits the renewal lock, which is held until the response has been applied), so the schedule
   [CRenew; CSend; ..] is open only to a request that passed the due-check before the renewal
   began -- not to every request entering send() while a renewal is in flight. *)
Theorem C14_source_facts : single_key_slot = true /\ server_switches_on_request = true /\
  client_switches_on_response = true /\ no_token_id_check_on_receive = true /\
  due_request_waits_for_renewal = true.
Proof. repeat split; reflexivity. Qed.
Print Assumptions C14_source_facts.
