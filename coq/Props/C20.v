(* C20 — Session activation authenticates the user exactly as configured.  Statements only.
   [authenticate c t bound cur] is the status class ActivateSession answers (0 = Good) for token
   [t], made for nonce number [bound], on a session whose current nonce is [cur];
   [spec_accept] is the specification of "configured". *)
From Coq Require Import List ZArith Bool.
Import ListNotations.
From OV Require Import C20.Model C20.Proofs.
Open Scope Z_scope.

(* accepted <=> configured, for every configuration, channel, token kind, policy id, user name,
   password form and nonce *)
Theorem C20_accept_iff_configured : forall c t bound cur, users_ok (c_users c) ->
  (authenticate c t bound cur = 0 <-> spec_accept c t bound cur = true).
Proof. exact accept_iff_configured. Qed.
Print Assumptions C20_accept_iff_configured.

(* anonymous (or absent) token: only on an endpoint whose user token ids contain ANONYMOUS *)
Theorem C20_anonymous_only_if_allowed : forall c t bound cur,
  (t = TNull \/ exists p, t = TAnon p) -> authenticate c t bound cur = 0 ->
  exists e, the_endpoint c = Some e /\ In 0 (e_ids e).
Proof. exact anonymous_only_if_allowed. Qed.
Print Assumptions C20_anonymous_only_if_allowed.

(* user name token: only if a user/password token of that name is listed by the endpoint and the
   supplied password (plain, or encrypted for the CURRENT nonce) is its password *)
Theorem C20_user_only_if_configured : forall c p name f bound cur,
  users_ok (c_users c) -> authenticate c (TUser p name f) bound cur = 0 ->
  exists e nm pw u, the_endpoint c = Some e /\ name = Some nm /\
    supplied_password f bound cur = Some pw /\
    In u (c_users c) /\ In (u_id u) (e_ids e) /\ u_x509 u = false /\ u_name u = nm /\ password_ok u pw = true.
Proof. exact user_only_if_configured. Qed.
Print Assumptions C20_user_only_if_configured.

(* ... and every configured user is accepted (when no other user/password token of the endpoint
   has the same user name: otherwise the first one in id order decides, see C20_accept_iff_configured) *)
Theorem C20_user_if_configured : forall c e u name pw f bound cur,
  users_ok (c_users c) -> the_endpoint c = Some e ->
  lookup (c_users c) (u_id u) = Some u -> In (u_id u) (e_ids e) -> u_x509 u = false -> u_name u = name ->
  (forall v, In v (ep_users (c_users c) e) -> u_x509 v = false -> u_name v = name -> v = u) ->
  password_ok u pw = true -> supplied_password f bound cur = Some pw ->
  authenticate c (TUser (user_pass_pid e) (Some name) f) bound cur = 0.
Proof. exact user_if_configured. Qed.
Print Assumptions C20_user_if_configured.

(* X.509 token: only if the signature verifies (right key, current nonce) and the thumbprint is
   configured for the endpoint; and every such token is accepted *)
Theorem C20_x509_only_if_configured : forall c p cert s bound cur,
  users_ok (c_users c) -> authenticate c (TX509 p cert s) bound cur = 0 ->
  exists e u, the_endpoint c = Some e /\ sig_ok cert s bound cur = true /\
    In u (c_users c) /\ In (u_id u) (e_ids e) /\ u_thumb u = Some cert.
Proof. exact x509_only_if_configured. Qed.
Print Assumptions C20_x509_only_if_configured.

Theorem C20_x509_if_configured : forall c e u cert s bound cur,
  users_ok (c_users c) -> the_endpoint c = Some e ->
  lookup (c_users c) (u_id u) = Some u -> In (u_id u) (e_ids e) -> u_thumb u = Some cert ->
  sig_ok cert s bound cur = true ->
  authenticate c (TX509 PidX509 cert s) bound cur = 0.
Proof. exact x509_if_configured. Qed.
Print Assumptions C20_x509_if_configured.

(* a password encrypted for (an X.509 signature made over) another nonce than the current one is rejected *)
Theorem C20_stale_password_rejected : forall c p name a pd pw bound cur,
  bound <> cur -> authenticate c (TUser p name (Enc a pd NCur pw)) bound cur <> 0.
Proof. exact stale_password_rejected. Qed.
Print Assumptions C20_stale_password_rejected.

Theorem C20_stale_x509_rejected : forall c p cert key sha1 intact bound cur,
  bound <> cur -> authenticate c (TX509 p cert (Sig key sha1 NCur intact)) bound cur <> 0.
Proof. exact stale_x509_rejected. Qed.
Print Assumptions C20_stale_x509_rejected.

(* histories: for every sequence of activations and replays, each step is accepted iff the
   specification accepts it for the nonce then current, and every acceptance installs a nonce
   larger than (so different from) every nonce any earlier token was made for *)
Theorem C20_oracle : forall c, valid c = true -> known c = 0 -> oracle c (run c) = true.
Proof. intros c Hv _. apply oracle_holds. exact Hv. Qed.
Print Assumptions C20_oracle.

(* "A password token encrypted for an earlier nonce is rejected", over histories: ANY history [pre],
   then a token bound to the nonce of that moment (encrypted password or X.509 signature), ANY
   further steps [mid], then a replay of exactly that token.  If any activation from the original
   one on has succeeded, the replay is rejected.  ([codes] = the status codes of the run.) *)
Theorem C20_replay_rejected : forall c pre t mid,
  nonce_bound t = true ->
  let steps := pre ++ (Fresh t :: mid) ++ [Replay (Z.of_nat (length pre))] in
  let cs := codes (run_steps true c steps 0 1 []) in
  In 0 (firstn (S (length mid)) (skipn (length pre) cs)) ->
  nth (length pre + S (length mid)) cs 1 <> 0.
Proof. exact replay_rejected. Qed.
Print Assumptions C20_replay_rejected.

(* the hypotheses are satisfiable: a configured user logs in with an encrypted password, the
   replay of the token is refused, a newly encrypted one is accepted *)
Example C20_example :
  let c := mk_case [mk_ep 0 PNone 1 (Some PBasic256Sha256) [0; 1]] [mk_user 1 0 (Some 1) false None] 0 PNone 1
             [Fresh (TUser PidOaep (Some 0) (Enc AlgOaep OaepSha1 NCur 1)); Replay 0;
              Fresh (TUser PidOaep (Some 0) (Enc AlgOaep OaepSha1 NCur 1))] in
  valid c = true /\ run c = [0; 0; 1; 5; 1; 0; 2] /\ oracle c (run c) = true.
Proof. vm_compute. repeat split. Qed.

(* the code before the fix: on a SecurityPolicy None channel the same encrypted token is accepted twice *)
Theorem C20_legacy_refuted :
  valid legacy_witness = true /\ oracle legacy_witness (Legacy.run legacy_witness) = false /\
  Legacy.run legacy_witness = [0; 0; 0; 0; 0].
Proof. exact legacy_refuted. Qed.
Print Assumptions C20_legacy_refuted.
