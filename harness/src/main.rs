//! vh <property> --seed S --n N [--tier quick|thorough] [--ids FILE]
//! Runs the real implementation (opcua crate built from /repo's working tree with
//! --cfg locka99_opcua_verif) on generated cases and prints, per case, the Coq term of the
//! case and the implementation's canonical output (a list of integers).
mod util;
mod props;
use util::Args;

fn main() {
    let argv: Vec<String> = std::env::args().collect();
    if argv.len() < 2 { eprintln!("usage: vh Cxx --seed S --n N"); std::process::exit(2); }
    let pid = argv[1].clone();
    let mut a = Args { seed: 1, n: 100, tier: "quick".into(), ids: None };
    let mut i = 2;
    while i < argv.len() {
        match argv[i].as_str() {
            "--seed" => { a.seed = argv[i + 1].parse().unwrap_or(1); i += 2; }
            "--n" => { a.n = argv[i + 1].parse().unwrap_or(100); i += 2; }
            "--tier" => { a.tier = argv[i + 1].clone(); i += 2; }
            "--ids" => {
                let s = std::fs::read_to_string(&argv[i + 1]).unwrap_or_default();
                a.ids = Some(s.lines().map(|l| l.trim().to_string()).filter(|l| !l.is_empty()).collect());
                i += 2;
            }
            _ => { i += 1; }
        }
    }
    // panics are captured by util::guarded; keep stderr quiet
    std::panic::set_hook(Box::new(|_| {}));
    if !props::dispatch(&pid, &a) { eprintln!("unknown property {}", pid); std::process::exit(2); }
}
