#!/usr/bin/env python3
"""Print the status table of DESIGN.md section 11 from props/, evidence/ and known_findings.jsonl."""
import json, glob, os, re
V = os.path.dirname(os.path.dirname(os.path.abspath(__file__)))
kf = [l.strip() for l in open(os.path.join(V, "known_findings.jsonl")) if l.strip()]
seeded = {}
for d in sorted(glob.glob(os.path.join(V, "seeded", "*"))):
    try:
        m = json.load(open(os.path.join(d, "meta.json")))
        seeded.setdefault(m["property"], []).append((os.path.basename(d), m.get("caught_by", "?")))
    except Exception:
        pass
print("| id | level | theorems | quick cases | fixes in /repo | known findings | seeded changes (caught by) |")
print("|----|-------|----------|-------------|----------------|----------------|-----------------------------|")
for f in sorted(glob.glob(os.path.join(V, "props", "C*.json"))):
    m = json.load(open(f)); pid = m["property_id"]
    if not m.get("claimed", True): continue
    try: ev = json.load(open(os.path.join(V, "evidence", pid + ".json")))
    except Exception: ev = {"coverage": {}}
    cov = ev.get("coverage", {})
    fixes = [re.match(r"fixed: property=\S+ (\S+)", l).group(1) for l in kf if l.startswith("fixed: property=%s " % pid)]
    finds = [json.loads(l)["id"] for l in kf if l.startswith("{") and json.loads(l).get("property") == pid]
    sd = "; ".join("%s (%s)" % x for x in seeded.get(pid, [])) or "–"
    print("| %s | %s | %s | %s | %s | %s | %s |" % (pid, m.get("level", "proof"), len(cov.get("theorems", [])), cov.get("correspondence", {}).get("cases_compared", "?"),
          ", ".join(fixes) or "–", ", ".join(finds) or "–", sd))
