(* C22 — proofs: the exact keep-alive schedule when a publish request precedes every tick and the
   ticks are one publishing interval apart. *)
From Coq Require Import List ZArith Bool Lia.
From OV Require Import C22.Model C22.ProofsTable C22.ProofsTrace C22.ProofsExpiry C22.ProofsAlive.
Import ListNotations.
Open Scope Z_scope.

Notation step := (step_gen true true).
Notation trace := (trace_gen true true).

(* the world after interval [i] *)
Inductive Sch (l k ivl : Z) : Z -> world -> Prop :=
| Sch0 : forall q, 1 <= q <= 2 -> Sch l k ivl 0 (W Normal l k false true l k [] 0 q)
| Sch1 : forall q, 0 <= q <= 2 -> Sch l k ivl 1 (W Normal (l - 1) k true true l k [] ivl q)
| SchN : forall i lf kc q, 2 <= i -> 0 <= q <= 2 -> kc = k - (i - 2) mod k -> l - 1 - k <= lf - kc ->
    Sch l k ivl i (W KeepAlive lf kc true true l k [] (i * ivl) q).

Lemma mod_next : forall k a, 1 <= k -> 0 <= a ->
  (a + 1) mod k = if a mod k =? k - 1 then 0 else a mod k + 1.
Proof.
  intros k a Hk Ha.
  pose proof (Z.div_mod a k ltac:(lia)) as Hd. pose proof (Z.mod_pos_bound a k ltac:(lia)) as Hb.
  destruct (Z.eqb_spec (a mod k) (k - 1)) as [E|E].
  - symmetry. apply (Z.mod_unique (a + 1) k (a / k + 1) 0); lia.
  - symmetry. apply (Z.mod_unique (a + 1) k (a / k) (a mod k + 1)); lia.
Qed.

Lemma ka_schedule_2 : forall k, 1 <= k -> ka_schedule k 2 = false.
Proof. intros. unfold ka_schedule. destruct (Z.leb_spec (k + 2) 2); [lia|]. reflexivity. Qed.

(* one interval: a publish request, then a tick one publishing interval later *)
Lemma sch_step : forall l k ivl i w, 1 <= k -> 3 * k <= l -> 1 <= ivl -> Sch l k ivl i w ->
  exists w1 pre1 w2 pre2,
    step ivl (i * ivl) Pub w = Some (w1, pre1) /\ mem 1 pre1 = false /\
    step ivl (i * ivl + ivl) (Timer ivl) w1 = Some (w2, pre2) /\ mem 1 pre2 = ka_schedule k (i + 1) /\
    Sch l k ivl (i + 1) w2.
Proof.
  intros l k ivl i w Hk Hl Hivl HS.
  inversion HS as [q Hq | q Hq | i0 lf kc q Hi Hq Hkc Hlf]; subst; clear HS.
  - destruct (step_pub_noop ivl (0 * ivl) Normal l k false l k 0 q ltac:(auto) ltac:(lia) ltac:(lia))
      as (q' & pre & E & Hq' & M1 & _).
    do 4 eexists. split; [exact E|]. split; [exact M1|].
    unfold step_gen. rewrite subs_tick_row7 by lia. split; [reflexivity|]. split; [reflexivity|].
    replace (0 * ivl + ivl) with ivl by lia. apply Sch1. lia.
  - destruct (step_pub_noop ivl (1 * ivl) Normal (l - 1) k true l k ivl q ltac:(auto) ltac:(lia) ltac:(lia))
      as (q' & pre & E & Hq' & M1 & _).
    do 4 eexists. split; [exact E|]. split; [exact M1|].
    unfold step_gen. rewrite subs_tick_row9 by lia. split; [reflexivity|].
    split; [cbn [mem]; symmetry; apply ka_schedule_2; assumption|].
    replace (1 * ivl + ivl) with (2 * ivl) by lia.
    apply SchN; try lia. replace (2 - 2) with 0 by lia. rewrite Z.mod_0_l by lia. lia.
  - pose proof (Z.mod_pos_bound (i - 2) k ltac:(lia)) as Hb.
    destruct (step_pub_noop ivl (i * ivl) KeepAlive lf (k - (i - 2) mod k) true l k (i * ivl) q
                ltac:(auto) ltac:(lia) ltac:(lia)) as (q' & pre & E & Hq' & M1 & _).
    pose proof (mod_next k (i - 2) Hk ltac:(lia)) as Hn. replace (i - 2 + 1) with (i + 1 - 2) in Hn by lia.
    destruct (Z.eqb_spec ((i - 2) mod k) (k - 1)) as [Em|Em];
      (do 4 eexists; split; [exact E|]; split; [exact M1|]); unfold step_gen.
    + replace (k - (i - 2) mod k) with 1 by lia.
      rewrite subs_tick_row15 by lia. split; [reflexivity|]. split.
      * cbn [mem Z.eqb Pos.eqb orb]. unfold ka_schedule. rewrite Hn.
        pose proof (Z.mod_le (i - 2) k ltac:(lia) ltac:(lia)) as Hle.
        destruct (Z.eqb_spec (i + 1) 1); [lia|]. destruct (Z.leb_spec (k + 2) (i + 1)); [reflexivity | lia].
      * replace (i * ivl + ivl) with ((i + 1) * ivl) by lia.
        apply SchN; try lia; rewrite Hn; lia.
    + rewrite subs_tick_row16 by lia. split; [reflexivity|]. split.
      * cbn [mem]. unfold ka_schedule. rewrite Hn.
        destruct (Z.eqb_spec (i + 1) 1); [lia|]. cbn [orb].
        destruct (Z.eqb_spec ((i - 2) mod k + 1) 0); [lia|]. rewrite andb_false_r. reflexivity.
      * replace (i * ivl + ivl) with ((i + 1) * ivl) by lia.
        apply SchN; try lia; rewrite Hn; lia.
Qed.

Lemma schedule_from : forall l k ivl, 1 <= k -> 3 * k <= l -> 1 <= ivl ->
  forall m i w, 0 <= i -> Sch l k ivl i w -> forall j, (j < m)%nat ->
  let kas := map ka_of (fst (trace ivl (i * ivl) w (concat (repeat [Pub; Timer ivl] m)))) in
  nth (2 * j) kas false = false /\ nth (2 * j + 1) kas false = ka_schedule k (i + Z.of_nat j + 1).
Proof.
  intros l k ivl Hk Hl Hivl. induction m as [|m IH]; intros i w Hi HS j Hj; [lia|].
  destruct (sch_step l k ivl i w Hk Hl Hivl HS) as (w1 & pre1 & w2 & pre2 & E1 & M1 & E2 & M2 & HS').
  cbn [repeat concat app]. cbn zeta.
  rewrite (trace_cons ivl (i * ivl) w Pub _ w1 pre1 E1). cbn [fst op_time].
  rewrite (trace_cons ivl (i * ivl) w1 (Timer ivl) _ w2 pre2 E2). cbn [fst op_time map].
  destruct j as [|j].
  - cbn [Nat.mul Nat.add nth]. unfold ka_of at 1 2. cbn [o_pre]. rewrite M1, M2.
    split; [reflexivity|]. f_equal. lia.
  - replace (2 * S j)%nat with (S (S (2 * j))) by lia. replace (S (S (2 * j)) + 1)%nat with (S (S (2 * j + 1))) by lia.
    cbn [nth].
    replace (i * ivl + ivl) with ((i + 1) * ivl) by lia.
    destruct (IH (i + 1) w2 ltac:(lia) HS' j ltac:(lia)) as [A B]. cbn zeta in A, B.
    split; [exact A|]. rewrite B. f_equal. lia.
Qed.

(* with a publish request before every tick and ticks one interval apart, the response to interval
   i contains a keep-alive exactly when i = 1, i = kac+2, kac+2+kac, ...; publish requests
   themselves are never answered with one *)
Theorem keepalive_schedule : forall k l ivl n j, 1 <= k -> 3 * k <= l -> 1 <= ivl -> (j < n)%nat ->
  let kas := map ka_of (fst (trace ivl 0 (init_world k l true) (requests_history ivl n))) in
  nth (2 * j + 2) kas false = false /\ nth (2 * j + 3) kas false = ka_schedule k (Z.of_nat j + 1).
Proof.
  intros k l ivl n j Hk Hl Hivl Hj. unfold requests_history.
  pose proof (step_create_pub k l ivl (op_time 0 Pub)) as E1.
  cbn zeta. rewrite (trace_cons _ _ _ _ _ _ _ E1). cbn [fst op_time].
  assert (E2 : step ivl (0 + 0) (Timer 0) (W Normal l k false true l k [] 0 1) =
               Some (W Normal l k false true l k [] 0 1, [])).
  { unfold step_gen. apply subs_tick_timer_early; auto; lia. }
  rewrite (trace_cons ivl 0 _ (Timer 0) _ _ [] E2). cbn [fst op_time map].
  replace (2 * j + 2)%nat with (S (S (2 * j))) by lia. replace (2 * j + 3)%nat with (S (S (2 * j + 1))) by lia.
  cbn [nth]. replace (0 + 0) with (0 * ivl) by lia.
  destruct (schedule_from l k ivl Hk Hl Hivl n 0 _ ltac:(lia) (Sch0 l k ivl 1 ltac:(lia)) j Hj) as [A B].
  cbn zeta in A, B. split; [exact A|]. rewrite B. f_equal.
Qed.
