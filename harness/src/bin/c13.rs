//! C13: key derivation.  Real `SecureChannel::derive_keys` on a client-role and a server-role
//! channel with the same pair of nonces; all derived bytes are printed (hook verif_derived_keys).
#[path = "../util.rs"]
mod util;
use util::*;
use opcua::core::comms::secure_channel::{Role, SecureChannel};
use opcua::crypto::CertificateStore;
use opcua::sync::RwLock;
use opcua::types::DecodingOptions;
use std::sync::Arc;
use opcua::crypto::SecurityPolicy;

pub struct Case { policy: SecurityPolicy, client_nonce: Vec<u8>, server_nonce: Vec<u8> }
pub struct P;

const POLICIES: [SecurityPolicy; 5] = [SecurityPolicy::Basic128Rsa15, SecurityPolicy::Basic256, SecurityPolicy::Basic256Sha256,
    SecurityPolicy::Aes128Sha256RsaOaep, SecurityPolicy::Aes256Sha256RsaPss];

fn channel(role: Role) -> SecureChannel {
    let store = Arc::new(RwLock::new(CertificateStore::new(std::path::Path::new("/tmp/verif-c13-pki"))));
    SecureChannel::new(store, role, DecodingOptions::default())
}
fn name(p: SecurityPolicy) -> &'static str {
    match p {
        SecurityPolicy::Basic128Rsa15 => "Basic128Rsa15", SecurityPolicy::Basic256 => "Basic256",
        SecurityPolicy::Basic256Sha256 => "Basic256Sha256", SecurityPolicy::Aes128Sha256RsaOaep => "Aes128Sha256RsaOaep",
        _ => "Aes256Sha256RsaPss",
    }
}
fn nonce(r: &mut Rng, policy: SecurityPolicy) -> Vec<u8> {
    let len = match r.below(8) {
        0 => 0, 1 => 1, 2 => 64, 3 => 63 + r.below(3) as usize % 2, 4 => r.below(65) as usize,
        _ => policy.secure_channel_nonce_length(),
    };
    match r.below(5) {
        0 => vec![0u8; len], 1 => vec![0xffu8; len], 2 => vec![r.next() as u8; len],
        _ => r.bytes(len),
    }
}
fn enc_set(k: &(Vec<u8>, Vec<u8>, Vec<u8>), out: &mut Vec<i128>) {
    out.push(k.0.len() as i128); out.push(k.1.len() as i128); out.push(k.2.len() as i128);
    for b in k.0.iter().chain(k.1.iter()).chain(k.2.iter()) { out.push(*b as i128); }
}

impl Property for P {
    type Case = Case;
    fn fixed(_tier: &str) -> Vec<Case> {
        let mut v = Vec::new();
        for p in POLICIES {
            let n = p.secure_channel_nonce_length();
            v.push(Case { policy: p, client_nonce: (0..n as u8).collect(), server_nonce: (100..100 + n as u8).collect() });
            v.push(Case { policy: p, client_nonce: vec![], server_nonce: vec![] });
            v.push(Case { policy: p, client_nonce: vec![0; n], server_nonce: vec![0; n] });
        }
        // same nonce on both sides; nonce longer than one HMAC block is out of the protocol's range (<= 64 kept)
        v.push(Case { policy: SecurityPolicy::Basic256Sha256, client_nonce: vec![7; 64], server_nonce: vec![7; 64] });
        v
    }
    fn gen(r: &mut Rng) -> Case {
        let policy = *r.pick(&POLICIES);
        Case { policy, client_nonce: nonce(r, policy), server_nonce: nonce(r, policy) }
    }
    fn exec(c: &Case) -> Out {
        let mut out = Vec::new();
        let res = guarded(|| {
            let mut client = channel(Role::Client);
            client.set_security_policy(c.policy);
            client.set_local_nonce(&c.client_nonce);
            client.set_remote_nonce(&c.server_nonce);
            client.derive_keys();
            let mut server = channel(Role::Server);
            server.set_security_policy(c.policy);
            server.set_local_nonce(&c.server_nonce);
            server.set_remote_nonce(&c.client_nonce);
            server.derive_keys();
            (client.verif_derived_keys(), server.verif_derived_keys())
        });
        match res {
            Ok(((Some(cl), Some(cr)), (Some(sl), Some(sr)))) => { enc_set(&cl, &mut out); enc_set(&cr, &mut out); enc_set(&sl, &mut out); enc_set(&sr, &mut out); }
            Ok(_) => out.push(-1),
            Err(_) => out.push(-2),
        }
        let std = c.client_nonce.len() == c.policy.secure_channel_nonce_length() && c.server_nonce.len() == c.client_nonce.len();
        let tag = format!("{}-{}", name(c.policy), if std { "policy-length" } else { "odd-length" });
        let term = format!("(mk_case {} {} {})", name(c.policy), zbytes(&c.client_nonce), zbytes(&c.server_nonce));
        Out { tag, term, out }
    }
}
fn main() { run_main::<P>() }
