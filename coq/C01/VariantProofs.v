(* Round trip / limit law for scalars, DataValue and Variant (nested to any depth the decoder
   allows). *)
From Coq Require Import List ZArith Bool Lia.
Import ListNotations.
From OV Require Import C01.Codec C01.CodecProofs C01.Builtins C01.BuiltinsProofs.
Open Scope Z_scope.

(* ---- scalars -------------------------------------------------------------------------------------- *)
Ltac pick_scalar := unfold dec_scalar; cbn [scalar_ty Z.eqb Pos.eqb].

Lemma in_u_8_pos : (0 < 8)%nat. Proof. lia. Qed.

Lemma scalar_law o d s rest : offset_ns o = 0 -> wf_scalar s ->
  run (dec_scalar o d (scalar_ty s)) (enc_scalar s ++ rest) =
  match chk_scalar o d s with None => Ok (norm_scalar s, rest) | Some e => Err e end.
Proof.
  intros Ho Hw. destruct s; cbn [wf_scalar enc_scalar chk_scalar norm_scalar] in *; pick_scalar.
  - rewrite run_bind, run_read_bool. reflexivity.
  - rewrite run_bind, run_read_i by (try lia; exact Hw). reflexivity.
  - rewrite run_bind, run_read_u by exact Hw. reflexivity.
  - rewrite run_bind, run_read_i by (try lia; exact Hw). reflexivity.
  - rewrite run_bind, run_read_u by exact Hw. reflexivity.
  - rewrite run_bind, run_read_i by (try lia; exact Hw). reflexivity.
  - rewrite run_bind, run_read_u by exact Hw. reflexivity.
  - rewrite run_bind, run_read_i by (try lia; exact Hw). reflexivity.
  - rewrite run_bind, run_read_u by exact Hw. reflexivity.
  - rewrite run_bind, run_read_u by exact Hw. reflexivity.
  - rewrite run_bind, run_read_u by exact Hw. reflexivity.
  - rewrite run_bind, run_dec_str by exact Hw. destruct (chk_ustr (max_str o) s); reflexivity.
  - rewrite Ho, run_bind, run_dec_date by exact Hw. reflexivity.
  - destruct Hw as [_ Hl]. rewrite run_bind, (run_take_n 16) by exact Hl. reflexivity.
  - rewrite run_bind, run_dec_bstr by exact Hw. destruct (chk_ustr (max_bstr o) b); reflexivity.
  - rewrite run_bind, run_dec_str by exact Hw. destruct (chk_ustr (max_str o) s); reflexivity.
  - rewrite run_bind, run_dec_nodeid by exact Hw. destruct (chk_nodeid o n); reflexivity.
  - rewrite run_bind, run_dec_expnid by exact Hw. destruct (chk_expnid o e); reflexivity.
  - rewrite run_bind, run_read_u by exact Hw. reflexivity.
  - destruct Hw as [Hns Hn]. rewrite <- app_assoc, run_bind, run_read_u by exact Hns.
    rewrite run_bind, run_dec_str by exact Hn. destruct (chk_ustr (max_str o) name); reflexivity.
  - destruct Hw as [Hl Ht]. apply run_dec_ltext; assumption.
  - destruct Hw as [Hn Hb]. apply run_dec_ext; assumption.
  - rewrite run_bind, run_dec_diag by exact Hw. destruct (chk_diag o d d0); reflexivity.
Qed.

Lemma scalar_length s : wf_scalar s -> len_scalar s = Z.of_nat (length (enc_scalar s)).
Proof.
  intros Hw. destruct s; cbn [wf_scalar len_scalar enc_scalar] in *;
    rewrite ?enc_i_length, ?enc_u_length, ?enc_date_length; try reflexivity.
  - apply enc_ustr_length.
  - destruct Hw as [_ ->]. reflexivity.
  - apply enc_ustr_length.
  - apply enc_ustr_length.
  - apply enc_nodeid_length, Hw.
  - apply enc_expnid_length, Hw.
  - rewrite app_length, enc_u_length, Nat2Z.inj_add, <- enc_ustr_length. lia.
  - apply enc_ltext_length.
  - apply enc_ext_length, Hw.
  - apply enc_diag_length, Hw.
Qed.
Lemma scalar_bytes s : wf_scalar s -> Forall is_byte (enc_scalar s).
Proof.
  intros Hw. destruct s; cbn [wf_scalar enc_scalar] in *;
    try apply enc_i_bytes; try apply enc_u_bytes.
  - unfold enc_bool. constructor; [|constructor]. unfold is_byte. destruct b; lia.
  - apply enc_ustr_bytes, wf_str_bytes, Hw.
  - apply Hw.
  - apply enc_ustr_bytes, wf_bstr_bytes, Hw.
  - apply enc_ustr_bytes, wf_str_bytes, Hw.
  - apply enc_nodeid_bytes, Hw.
  - apply enc_expnid_bytes, Hw.
  - apply Forall_app. split; [apply enc_u_bytes|]. apply enc_ustr_bytes, wf_str_bytes, Hw.
  - apply enc_ltext_bytes; apply Hw.
  - apply enc_ext_bytes; apply Hw.
  - apply enc_diag_bytes, Hw.
Qed.
Lemma scalar_ty_range s : 1 <= scalar_ty s <= 25 /\ scalar_ty s <> 23 /\ scalar_ty s <> 24.
Proof. destruct s; cbn; lia. Qed.

(* ---- DataValue fields ---------------------------------------------------------------------------------- *)
Lemma six_flag_facts (b0 b1 b2 b3 b4 b5 : bool) :
  let m := bit b0 0 + bit b1 1 + bit b2 2 + bit b3 3 + bit b4 4 + bit b5 5 in
  is_byte m /\ Z.testbit m 0 = b0 /\ Z.testbit m 1 = b1 /\ Z.testbit m 2 = b2 /\ Z.testbit m 3 = b3
  /\ Z.testbit m 4 = b4 /\ Z.testbit m 5 = b5 /\ 0 <= m < 64.
Proof.
  destruct b0, b1, b2, b3, b4, b5; cbn; unfold is_byte; repeat split; lia.
Qed.

Lemma in_i_8_of t : in_i 8 t -> in_i 8 t. Proof. auto. Qed.

Lemma dv_fields_law o (mv : M variant) (enc : variant -> bytes) ov r rest ck nv :
  offset_ns o = 0 -> wf_dvrest r ->
  (forall rest', run (dec_opt (is_some ov) mv) (enc_opt enc ov ++ rest') =
                 match ck with None => Ok (nv, rest') | Some e => Err e end) ->
  run (dec_dv_fields o mv) (([dv_mask (is_some ov) r] ++ enc_opt enc ov ++ enc_dvrest r) ++ rest) =
  match ck with None => Ok ((nv, norm_dvrest r), rest) | Some e => Err e end.
Proof.
  intros Ho Hw Hv. destruct r as [status src srcp srv srvp].
  unfold wf_dvrest in Hw. cbn [dv_status dv_src dv_srcp dv_srv dv_srvp] in Hw.
  destruct Hw as (H1 & H2 & H3 & H4 & H5).
  unfold dec_dv_fields, dv_mask, enc_dvrest, norm_dvrest.
  cbn [dv_status dv_src dv_srcp dv_srv dv_srvp].
  destruct (six_flag_facts (is_some ov) (is_some status) (is_some src) (is_some srv)
              (is_some src && is_some srcp) (is_some srv && is_some srvp))
    as (Hb & T0 & T1 & T2 & T3 & T4 & T5 & _).
  rewrite <- !app_assoc. cbn [app]. rewrite run_bind, run_read_byte by exact Hb.
  rewrite T0, T1, T2, T3, T4, T5.
  rewrite run_bind, Hv. destruct ck; [reflexivity|].
  rewrite run_bind.
  rewrite (run_dec_opt (read_u 4) (enc_u 4) status _ None);
    [|intros a ->; apply run_read_u; exact H1|reflexivity].
  rewrite Ho, run_bind.
  destruct src as [t|]; cbn [is_some dec_opt andb option_map].
  - rewrite <- app_assoc, run_bind, run_dec_date by exact H2. rewrite run_ret, run_bind.
    rewrite <- ?app_assoc.
    rewrite (run_dec_opt (read_u 2) (enc_u 2) srcp _ None);
      [|intros a ->; apply run_read_u; exact H3|reflexivity].
    rewrite run_bind.
    destruct srv as [t2|]; cbn [is_some dec_opt andb option_map].
    + rewrite <- app_assoc, run_bind, run_dec_date by exact H4. rewrite run_ret, run_bind.
      rewrite (run_dec_opt (read_u 2) (enc_u 2) srvp _ None);
        [|intros a ->; apply run_read_u; exact H5|reflexivity].
      rewrite run_ret. reflexivity.
    + subst srvp. cbn [app]. rewrite run_ret, run_bind, run_ret, run_ret. reflexivity.
  - subst srcp. cbn [app]. rewrite run_ret, run_bind, run_ret, run_bind.
    destruct srv as [t2|]; cbn [is_some dec_opt andb option_map].
    + rewrite <- app_assoc, run_bind, run_dec_date by exact H4. rewrite run_ret, run_bind.
      rewrite (run_dec_opt (read_u 2) (enc_u 2) srvp _ None);
        [|intros a ->; apply run_read_u; exact H5|reflexivity].
      rewrite run_ret. reflexivity.
    + subst srvp. cbn [app]. rewrite run_ret, run_bind, run_ret, run_ret. reflexivity.
Qed.

(* ---- Variant ------------------------------------------------------------------------------------------------ *)
Definition dec_value (o : opts) (d : nat) (ty : Z) : M variant :=
  if ty =? 0 then ret VEmpty
  else if ty =? 24 then
    match d with O => fail EDepth
    | S d' => bump (w <- dec_variant o d' ;; ret (VVar w)) end
  else if ty =? 23 then
    match d with O => fail EDepth
    | S d' => bump (x <- dec_dv_fields o (dec_variant o d') ;; ret (VDV (fst x) (snd x))) end
  else if ty <=? 25 then s <- dec_scalar o d ty ;; ret (VS s)
  else ret VEmpty.

Lemma dec_variant_eq o d :
  dec_variant o d =
  (m <- read_u 1 ;;
   let ty := m mod 64 in
   if Z.testbit m 7 then
     len <- read_i 4 ;;
     if len <? -1 then fail ENeg
     else if len <=? 0 then
       (if known_ty ty then ret (VArray ty [] (Some [])) else fail EInvalid)
     else if max_arr o <? len then fail ELimit
     else
       _ <- alloc (len * VARIANT_SIZE) ;;
       vals <- dec_n (Z.to_nat len) (dec_value o d ty) ;;
       if 25 <? ty then fail EInvalid
       else if Z.testbit m 6 then
         dims <- dec_array o 4 (read_u 4) ;;
         match dims with
         | None => fail EInvalid
         | Some ds =>
             if existsb (fun x => x =? 0) ds then fail EInvalid
             else match u32_product ds with
                  | None => fail EInvalid
                  | Some p => if negb (p =? len) then fail EInvalid
                              else if ty =? 0 then fail EInvalid
                              else ret (VArray ty vals (Some ds))
                  end
         end
       else if ty =? 0 then fail EInvalid
       else ret (VArray ty vals None)
   else if Z.testbit m 6 then fail EInvalid
   else dec_value o d ty).
Proof. destruct d; reflexivity. Qed.

Lemma variant_ind' (P : variant -> Prop)
  (HE : P VEmpty) (HS : forall s, P (VS s)) (HV : forall w, P w -> P (VVar w))
  (HD : forall ov r, match ov with Some w => P w | None => True end -> P (VDV ov r))
  (HA : forall ty vals dims, Forall P vals -> P (VArray ty vals dims)) :
  forall v, P v.
Proof.
  fix F 1. intros [|s|w|ov r|ty vals dims].
  - exact HE.
  - apply HS.
  - apply HV, F.
  - apply HD. destruct ov as [w|]; [apply F|exact I].
  - apply HA. induction vals as [|x xs IH]; constructor; [apply F|exact IH].
Qed.

(* the law at the level of decode_variant_value (array elements) and of Variant::decode *)
Definition value_law (o : opts) (v : variant) : Prop :=
  forall ty d rest, elem_ok ty v -> wf_variant v ->
    run (dec_value o d ty) (enc_v false v ++ rest) =
    match chk_variant o d v with None => Ok (norm_variant v, rest) | Some e => Err e end.
Definition full_law (o : opts) (v : variant) : Prop :=
  forall d rest, wf_variant v ->
    run (dec_variant o d) (enc_v true v ++ rest) =
    match chk_variant o d v with None => Ok (norm_variant v, rest) | Some e => Err e end.

Lemma mask_facts ty : 0 <= ty <= 25 ->
  is_byte ty /\ ty mod 64 = ty /\ Z.testbit ty 7 = false /\ Z.testbit ty 6 = false.
Proof.
  intros H. assert (Hc : exists n, (n <= 25)%nat /\ ty = Z.of_nat n) by (exists (Z.to_nat ty); lia).
  destruct Hc as (n & Hn & ->).
  do 26 (destruct n as [|n]; [cbn; unfold is_byte; repeat split; lia|]). lia.
Qed.
Lemma array_mask_facts ty (b : bool) : 1 <= ty <= 25 ->
  let m := ty + 128 + bit b 6 in
  is_byte m /\ m mod 64 = ty /\ Z.testbit m 7 = true /\ Z.testbit m 6 = b.
Proof.
  intros H. assert (Hc : exists n, (n <= 25)%nat /\ ty = Z.of_nat n) by (exists (Z.to_nat ty); lia).
  destruct Hc as (n & Hn & ->).
  do 26 (destruct n as [|n]; [destruct b; cbn; unfold is_byte; repeat split; lia|]). lia.
Qed.

Lemma full_of_value o v : (match v with VArray _ _ _ => False | _ => True end) ->
  (forall d rest, wf_variant v ->
     run (dec_value o d (type_of v)) (enc_v false v ++ rest) =
     match chk_variant o d v with None => Ok (norm_variant v, rest) | Some e => Err e end) ->
  0 <= type_of v <= 25 -> full_law o v.
Proof.
  intros Hna Hv Hty d rest Hw. rewrite dec_variant_eq.
  destruct (mask_facts (type_of v) Hty) as (Hb & Hm & H7 & H6).
  assert (He : enc_v true v = type_of v :: enc_v false v) by (destruct v; try reflexivity; contradiction).
  rewrite He. cbn [app]. rewrite run_bind, run_read_byte by exact Hb. cbv zeta.
  rewrite Hm, H7, H6. apply Hv. exact Hw.
Qed.

Lemma dec_value_scalar o d ty : 1 <= ty <= 25 -> ty <> 23 -> ty <> 24 ->
  dec_value o d ty = (s <- dec_scalar o d ty ;; ret (VS s)).
Proof.
  intros H1 H2 H3. unfold dec_value.
  destruct (Z.eqb_spec ty 0); [lia|]. destruct (Z.eqb_spec ty 24); [lia|].
  destruct (Z.eqb_spec ty 23); [lia|]. destruct (Z.leb_spec ty 25); [reflexivity|lia].
Qed.

Lemma wf_all_forall ty vals :
  (fix all (l : list variant) : Prop :=
     match l with [] => True | x :: r => (elem_ok ty x /\ wf_variant x) /\ all r end) vals <->
  Forall (fun x => elem_ok ty x /\ wf_variant x) vals.
Proof.
  induction vals as [|x xs IH]; split; intros H.
  - constructor.
  - exact I.
  - destruct H as [H1 H2]. constructor; [exact H1|apply IH, H2].
  - inversion H; subst. split; [assumption|apply IH; assumption].
Qed.
Lemma chk_first_list o d vals :
  (fix first (l : list variant) : option err :=
     match l with [] => None
     | x :: r => match chk_variant o d x with Some e => Some e | None => first r end
     end) vals = chk_list (chk_variant o d) vals.
Proof. induction vals as [|x xs IH]; [reflexivity|]. cbn. rewrite IH. reflexivity. Qed.

Lemma read_u4_of_enc_i4 a rest : 0 < a < 2 ^ 32 -> run (read_u 4) (enc_i 4 a ++ rest) = Ok (a, rest).
Proof.
  intros Ha. unfold enc_i. replace (wrap 4 a) with a.
  - apply run_read_u. unfold in_u. cbn. cbn in Ha. lia.
  - unfold wrap. cbn. cbn in Ha. rewrite Z.mod_small; lia.
Qed.

Lemma chk_list_none {A} (xs : list A) : chk_list (fun _ : A => @None err) xs = None.
Proof. induction xs; cbn; auto. Qed.

Lemma dims_law o ds rest : Forall (fun x => 0 < x < 2 ^ 32) ds -> Z.of_nat (length ds) < 2 ^ 31 ->
  run (dec_array o 4 (read_u 4)) ((enc_i 4 (Z.of_nat (length ds)) ++ concat (map (enc_i 4) ds)) ++ rest) =
  if max_arr o <? Z.of_nat (length ds) then Err ELimit else Ok (Some ds, rest).
Proof.
  intros Hd Hl.
  pose proof (run_dec_array (enc_i 4) (read_u 4) (fun x => 0 < x < 2 ^ 32) (fun _ => None) (fun x => x)
                (fun a r Ha => read_u4_of_enc_i4 a r Ha) o 4 (Some ds) rest (conj Hd Hl)) as H.
  cbn [enc_array chk_array] in H. rewrite H.
  destruct (max_arr o <? Z.of_nat (length ds)); [reflexivity|].
  rewrite chk_list_none, map_id. reflexivity.
Qed.

Lemma existsb_zero_false ds : Forall (fun x => 0 < x < 2 ^ 32) ds -> existsb (fun x => x =? 0) ds = false.
Proof.
  induction 1 as [|x xs Hx _ IH]; [reflexivity|]. cbn. rewrite IH.
  destruct (Z.eqb_spec x 0); [lia|reflexivity].
Qed.

Theorem variant_law o : offset_ns o = 0 -> forall v, value_law o v /\ full_law o v.
Proof.
  intros Ho. induction v as [|s|w IHw|ov r IHov|ty vals dims IHvals] using variant_ind'.
  - (* Empty *)
    split; [intros ty d rest []|].
    apply full_of_value; [exact I| |cbn; lia]. intros d rest _. reflexivity.
  - (* scalar *)
    assert (Hv : forall d rest, wf_variant (VS s) ->
      run (dec_value o d (scalar_ty s)) (enc_v false (VS s) ++ rest) =
      match chk_variant o d (VS s) with None => Ok (norm_variant (VS s), rest) | Some e => Err e end).
    { intros d rest Hw. destruct (scalar_ty_range s) as (R1 & R2 & R3).
      rewrite dec_value_scalar by assumption. cbn [enc_v app chk_variant norm_variant].
      rewrite run_bind, scalar_law by assumption. destruct (chk_scalar o d s); reflexivity. }
    split.
    + intros ty d rest He Hw. cbn [elem_ok] in He. subst ty. apply Hv. exact Hw.
    + apply full_of_value; [exact I|exact Hv|]. cbn [type_of]. pose proof (scalar_ty_range s). lia.
  - (* Variant in Variant *)
    destruct IHw as [_ IHf].
    assert (Hv : forall d rest, wf_variant (VVar w) ->
      run (dec_value o d 24) (enc_v false (VVar w) ++ rest) =
      match chk_variant o d (VVar w) with None => Ok (norm_variant (VVar w), rest) | Some e => Err e end).
    { intros d rest Hw. cbn [wf_variant] in Hw. unfold dec_value. cbn [Z.eqb Pos.eqb].
      cbn [enc_v app chk_variant norm_variant]. destruct d as [|d']; [reflexivity|].
      rewrite run_bump, run_bind, IHf by exact Hw. destruct (chk_variant o d' w); reflexivity. }
    split.
    + intros ty d rest He Hw. cbn [elem_ok] in He. subst ty. apply Hv. exact Hw.
    + apply full_of_value; [exact I|exact Hv|cbn; lia].
  - (* DataValue in Variant *)
    assert (Hv : forall d rest, wf_variant (VDV ov r) ->
      run (dec_value o d 23) (enc_v false (VDV ov r) ++ rest) =
      match chk_variant o d (VDV ov r) with None => Ok (norm_variant (VDV ov r), rest) | Some e => Err e end).
    { intros d rest Hw. cbn [wf_variant] in Hw. destruct Hw as [Hov Hr]. unfold dec_value. cbn [Z.eqb Pos.eqb].
      cbn [chk_variant norm_variant]. destruct d as [|d']; [reflexivity|].
      rewrite run_bump, run_bind.
      change (enc_v false (VDV ov r)) with ([dv_mask (is_some ov) r] ++ enc_opt (enc_v true) ov ++ enc_dvrest r).
      rewrite (dv_fields_law o (dec_variant o d') (enc_v true) ov r rest
                 (match ov with Some w => chk_variant o d' w | None => None end)
                 (option_map norm_variant ov) Ho Hr).
      - destruct (match ov with Some w => chk_variant o d' w | None => None end); reflexivity.
      - intros rest'. destruct ov as [w|]; cbn [is_some dec_opt enc_opt option_map].
        + destruct IHov as [_ IHf]. rewrite run_bind, IHf by exact Hov.
          destruct (chk_variant o d' w); reflexivity.
        + reflexivity. }
    split.
    + intros ty d rest He Hw. cbn [elem_ok] in He. subst ty. apply Hv. exact Hw.
    + apply full_of_value; [exact I|exact Hv|cbn; lia].
  - (* arrays *)
    split; [intros ty0 d rest []|].
    intros d rest Hw. cbn [wf_variant] in Hw. destruct Hw as (Hty & Hlen & Hall & Hdims).
    apply wf_all_forall in Hall.
    assert (Hty' : 1 <= ty <= 25) by (unfold known_ty in Hty; lia).
    rewrite dec_variant_eq. cbn [enc_v].
    set (has_dims := is_some dims && negb match vals with [] => true | _ :: _ => false end).
    destruct (array_mask_facts ty has_dims Hty') as (Hb & Hm & H7 & H6).
    rewrite <- !app_assoc. cbn [app]. rewrite run_bind, run_read_byte by exact Hb. cbv zeta.
    rewrite Hm, H7, H6.
    rewrite run_bind, run_read_i by (try lia; apply in_i4_len; exact Hlen).
    destruct vals as [|x xs].
    + (* empty *)
      cbn [length Z.of_nat]. cbn [Z.ltb Z.leb Z.compare]. rewrite Hty.
      subst has_dims. rewrite andb_false_r. cbn [map concat app chk_variant norm_variant]. reflexivity.
    + set (vals := x :: xs) in *.
      assert (Hpos : 0 < Z.of_nat (length vals)) by (subst vals; cbn [length]; lia).
      destruct (Z.ltb_spec (Z.of_nat (length vals)) (-1)); [lia|].
      destruct (Z.leb_spec (Z.of_nat (length vals)) 0); [lia|].
      assert (Hchk : chk_variant o d (VArray ty vals dims) =
                if max_arr o <? Z.of_nat (length vals) then Some ELimit
                else seq_chk (chk_list (chk_variant o d) vals)
                       (match dims with
                        | Some ds => if max_arr o <? Z.of_nat (length ds) then Some ELimit else None
                        | None => None end)).
      { subst vals. cbn [chk_variant]. rewrite <- chk_first_list. reflexivity. }
      rewrite Hchk. destruct (Z.ltb_spec (max_arr o) (Z.of_nat (length vals))); [reflexivity|].
      rewrite run_bind, run_alloc, run_bind, Nat2Z.id.
      rewrite (run_dec_n (fun x => enc_v false x) (dec_value o d ty)
                 (fun x => (elem_ok ty x /\ wf_variant x) /\ value_law o x)
                 (chk_variant o d) norm_variant).
      2:{ intros a r [[He Hwa] Hl]. apply Hl; assumption. }
      2:{ rewrite Forall_forall in *. intros y Hy. split; [apply Hall, Hy|apply IHvals, Hy]. }
      destruct (chk_list (chk_variant o d) vals); [reflexivity|]. cbn [seq_chk].
      destruct (Z.ltb_spec 25 ty); [lia|].
      assert (Hnorm : norm_variant (VArray ty vals dims) = VArray ty (map norm_variant vals) dims)
        by (subst vals; reflexivity).
      rewrite Hnorm.
      assert (Hhd : has_dims = is_some dims) by (subst has_dims vals; rewrite andb_true_r; reflexivity).
      rewrite Hhd. destruct dims as [ds|]; cbn [is_some].
      * destruct Hdims as [Hnil | (Hds & Hdl & Hprod)]; [subst vals; discriminate|].
        rewrite run_bind, dims_law by assumption.
        destruct (max_arr o <? Z.of_nat (length ds)); [reflexivity|].
        rewrite existsb_zero_false by exact Hds. rewrite Hprod, Z.eqb_refl. cbn [negb].
        destruct (Z.eqb_spec ty 0); [lia|]. reflexivity.
      * destruct (Z.eqb_spec ty 0); [lia|]. reflexivity.
Qed.

(* ---- length and byte range ------------------------------------------------------------------------------ *)
Lemma dvrest_length r : wf_dvrest r -> len_dvrest r = Z.of_nat (length (enc_dvrest r)).
Proof.
  destruct r as [status src srcp srv srvp]. unfold wf_dvrest, len_dvrest, enc_dvrest.
  cbn [dv_status dv_src dv_srcp dv_srv dv_srvp]. intros _.
  rewrite !app_length, !Nat2Z.inj_add.
  rewrite <- (olen_enc_opt (enc_u 4) (fun _ => 4)) by (intros; rewrite enc_u_length; reflexivity).
  destruct src, srv; rewrite ?app_length, ?Nat2Z.inj_add, ?enc_date_length;
    rewrite <- ?(olen_enc_opt (enc_u 2) (fun _ => 2)) by (intros; rewrite enc_u_length; reflexivity);
    cbn [length]; lia.
Qed.
Lemma dvrest_bytes r : Forall is_byte (enc_dvrest r).
Proof.
  destruct r as [status src srcp srv srvp]. unfold enc_dvrest.
  cbn [dv_status dv_src dv_srcp dv_srv dv_srvp].
  repeat (apply Forall_app; split).
  - apply enc_opt_bytes. intros; apply enc_u_bytes.
  - destruct src; [|constructor]. apply Forall_app. split; [apply enc_i_bytes|].
    apply enc_opt_bytes. intros; apply enc_u_bytes.
  - destruct srv; [|constructor]. apply Forall_app. split; [apply enc_i_bytes|].
    apply enc_opt_bytes. intros; apply enc_u_bytes.
Qed.
Lemma dv_mask_byte b r : is_byte (dv_mask b r).
Proof.
  unfold dv_mask.
  destruct (six_flag_facts b (is_some (dv_status r)) (is_some (dv_src r)) (is_some (dv_srv r))
              (is_some (dv_src r) && is_some (dv_srcp r)) (is_some (dv_srv r) && is_some (dv_srvp r)))
    as (Hb & _). exact Hb.
Qed.

Lemma variant_length : forall v b, wf_variant v -> len_v b v = Z.of_nat (length (enc_v b v)).
Proof.
  induction v as [|s|w IHw|ov r IHov|ty vals dims IHvals] using variant_ind'; intros b Hw.
  - destruct b; reflexivity.
  - cbn [len_v enc_v]. cbn [wf_variant] in Hw. rewrite app_length, Nat2Z.inj_add, <- scalar_length by exact Hw.
    destruct b; cbn [length]; lia.
  - cbn [len_v enc_v]. cbn [wf_variant] in Hw. rewrite app_length, Nat2Z.inj_add, <- IHw by exact Hw.
    destruct b; cbn [length]; lia.
  - cbn [len_v enc_v]. cbn [wf_variant] in Hw. destruct Hw as [Hov Hr].
    rewrite !app_length, !Nat2Z.inj_add, <- dvrest_length by exact Hr.
    destruct ov as [w|]; [rewrite <- IHov by exact Hov|]; destruct b; cbn [length]; lia.
  - destruct b; [|reflexivity]. cbn [len_v enc_v]. cbn [wf_variant] in Hw.
    destruct Hw as (_ & _ & Hall & _). apply wf_all_forall in Hall.
    cbn [app length]. rewrite !app_length, !Nat2Z.inj_succ, !Nat2Z.inj_add, enc_i_length.
    rewrite (concat_length_sum (fun x => enc_v false x) (fun x => len_v false x)).
    2:{ intros x Hx. rewrite Forall_forall in IHvals, Hall. apply IHvals; [exact Hx|apply Hall, Hx]. }
    destruct (is_some dims && negb match vals with [] => true | _ :: _ => false end).
    + destruct dims as [ds|]; [|cbn [length]; lia].
      rewrite app_length, enc_i_length, Nat2Z.inj_add.
      rewrite <- (concat_length_sum (enc_i 4) (fun _ => 4)) by (intros; rewrite enc_i_length; reflexivity).
      replace (fold_right (fun (_ : Z) (acc : Z) => 4 + acc) 0 ds) with (4 * Z.of_nat (length ds)).
      * lia.
      * clear. induction ds; cbn [fold_right length]; [reflexivity|]. rewrite Nat2Z.inj_succ. lia.
    + cbn [length]. lia.
Qed.

Lemma variant_bytes : forall v b, wf_variant v -> Forall is_byte (enc_v b v).
Proof.
  induction v as [|s|w IHw|ov r IHov|ty vals dims IHvals] using variant_ind'; intros b Hw.
  - destruct b; cbn; repeat constructor; unfold is_byte; lia.
  - cbn [enc_v]. cbn [wf_variant] in Hw. apply Forall_app. split; [|apply scalar_bytes, Hw].
    destruct b; [|constructor]. constructor; [|constructor]. cbn [type_of].
    pose proof (scalar_ty_range s). unfold is_byte. lia.
  - cbn [enc_v]. cbn [wf_variant] in Hw. apply Forall_app. split; [|apply IHw, Hw].
    destruct b; [|constructor]. repeat constructor; unfold is_byte; cbn; lia.
  - cbn [enc_v]. cbn [wf_variant] in Hw. destruct Hw as [Hov Hr]. apply Forall_app. split.
    + destruct b; [|constructor]. repeat constructor; unfold is_byte; cbn; lia.
    + constructor; [apply dv_mask_byte|]. apply Forall_app. split; [|apply dvrest_bytes].
      destruct ov; [apply IHov, Hov|constructor].
  - destruct b; [|constructor]. cbn [enc_v]. cbn [wf_variant] in Hw.
    destruct Hw as (Hty & _ & Hall & _). apply wf_all_forall in Hall.
    assert (Hty' : 1 <= ty <= 25) by (unfold known_ty in Hty; lia).
    destruct (array_mask_facts ty (is_some dims && negb match vals with [] => true | _ :: _ => false end) Hty')
      as (Hb & _).
    cbn [app]. constructor; [exact Hb|]. apply Forall_app. split; [apply enc_i_bytes|].
    apply Forall_app. split.
    + apply concat_bytes. intros x Hx. rewrite Forall_forall in IHvals, Hall.
      apply IHvals; [exact Hx|apply Hall, Hx].
    + destruct (is_some dims && negb match vals with [] => true | _ :: _ => false end); [|constructor].
      destruct dims as [ds|]; [|constructor]. apply Forall_app. split; [apply enc_i_bytes|].
      apply concat_bytes. intros; apply enc_i_bytes.
Qed.

(* ---- the codec records ------------------------------------------------------------------------------------ *)
Theorem scalar_codec_ok ty : codec_ok (scalar_codec ty).
Proof.
  intros s [Hty Hw]. unfold scalar_codec. cbn [enc dec blen wf chk norm].
  split; [apply scalar_length, Hw|]. split; [apply scalar_bytes, Hw|].
  intros o d rest Ho. subst ty. apply scalar_law; assumption.
Qed.

Theorem variant_codec_ok : codec_ok variant_codec.
Proof.
  intros v Hw. unfold variant_codec in *. cbn [enc dec blen wf chk norm] in *.
  split; [apply variant_length, Hw|]. split; [apply variant_bytes, Hw|].
  intros o d rest Ho. apply (proj2 (variant_law o Ho v)). exact Hw.
Qed.

Lemma dv_law o d ov r rest : offset_ns o = 0 -> wf_variant (VDV ov r) ->
  run (dec_dv o d) (enc_v false (VDV ov r) ++ rest) =
  match chk_variant o d (VDV ov r) with
  | None => Ok ((option_map norm_variant ov, norm_dvrest r), rest)
  | Some e => Err e
  end.
Proof.
  intros Ho Hw. cbn [wf_variant] in Hw. destruct Hw as [Hov Hr].
  unfold dec_dv. rewrite run_lock. cbn [chk_variant]. destruct d as [|d']; [reflexivity|].
  change (enc_v false (VDV ov r)) with ([dv_mask (is_some ov) r] ++ enc_opt (enc_v true) ov ++ enc_dvrest r).
  apply dv_fields_law; [exact Ho|exact Hr|].
  intros rest'. destruct ov as [w|]; cbn [is_some dec_opt enc_opt option_map].
  - rewrite run_bind, (proj2 (variant_law o Ho w)) by exact Hov. destruct (chk_variant o d' w); reflexivity.
  - reflexivity.
Qed.

Theorem dv_codec_ok : codec_ok dv_codec.
Proof.
  intros [ov r] Hw. unfold dv_codec in *. cbn [enc dec blen wf chk norm] in *.
  unfold wf_dv in Hw. cbn [fst snd] in *.
  split; [apply (variant_length (VDV ov r) false), Hw|]. split; [apply (variant_bytes (VDV ov r) false), Hw|].
  intros o d rest Ho. unfold enc_dv, chk_dv, norm_dv. cbn [fst snd]. apply dv_law; assumption.
Qed.
