From Coq Require Import List ZArith Bool Lia.
Import ListNotations.
From OV Require Import Gen.C38Edges C38.Model.
Open Scope Z_scope.

(* ============ general theorem: ordered acquisition excludes wait-for cycles ============ *)
Section Deadlock.
  Variables lock task : Type.
  Variable rk : lock -> Z.
  Variable holds : task -> lock -> Prop.      (* a configuration of the system *)
  Variable waits : task -> lock -> Prop.
  (* every task acquires along the order: whatever it waits for ranks above everything it holds *)
  Hypothesis ordered : forall t l w, holds t l -> waits t w -> rk l < rk w.

  (* a wait-for path t -> ... -> t': each task waits for a lock held by the next one;
     lo / hi are the ranks of the first and the last lock on the path *)
  Inductive wpath : task -> task -> Z -> Z -> Prop :=
  | wp1 t t' l : waits t l -> holds t' l -> wpath t t' (rk l) (rk l)
  | wpS t t' t'' l lo hi : waits t l -> holds t' l -> wpath t' t'' lo hi -> wpath t t'' (rk l) hi.

  Lemma wpath_first t t' lo hi : wpath t t' lo hi -> exists w, waits t w /\ rk w = lo.
  Proof. intro H; destruct H; eauto. Qed.
  Lemma wpath_last t t' lo hi : wpath t t' lo hi -> exists l, holds t' l /\ rk l = hi.
  Proof. intro H; induction H; eauto. Qed.
  Lemma wpath_mono t t' lo hi : wpath t t' lo hi -> lo <= hi.
  Proof.
    intro H; induction H as [| t t' t'' l lo hi Hw Hh Hp IH]; [lia|].
    destruct (wpath_first _ _ _ _ Hp) as [w [Hw' Hr]].
    pose proof (ordered t' l w Hh Hw'). lia.
  Qed.

  (* no deadlock: there is no wait-for cycle, of any length, among any number of tasks *)
  Theorem no_wait_cycle t lo hi : ~ wpath t t lo hi.
  Proof.
    intro H. pose proof (wpath_mono _ _ _ _ H) as Hm.
    destruct (wpath_first _ _ _ _ H) as [w [Hw Hr]].
    destruct (wpath_last _ _ _ _ H) as [l [Hl Hr']].
    pose proof (ordered t l w Hl Hw). lia.
  Qed.
End Deadlock.

(* ============ this tree ============ *)
(* every extracted edge is either one of the audited exceptions or strictly rank-increasing *)
Theorem graph_ok_now : graph_ok = true.
Proof. vm_compute. reflexivity. Qed.

Theorem rank_exists :
  exists rk : Z -> Z, forall e, In e edges -> is_excused e = false -> let '(a, b, _) := e in rk a < rk b.
Proof.
  exists rank. intros e Hin Hex. pose proof graph_ok_now as H. unfold graph_ok in H.
  rewrite forallb_forall in H. specialize (H e Hin). unfold edge_ok in H. rewrite Hex in H. cbn [orb] in H.
  destruct e as [[a b] f]. unfold ordered_edge in H. apply andb_true_iff in H as [_ H]. apply Z.ltb_lt in H. exact H.
Qed.

(* the model's outputs satisfy the oracle outside the known class *)
Theorem oracle_holds c : known c = 0 -> oracle c (run c) = true \/ (exists a b, c = Edge a b /\ class_edge a b = false).
Proof.
  destruct c as [a b|k]; cbn [known run oracle].
  - intros _. destruct (class_edge a b) eqn:E; [left; reflexivity | right; eauto].
  - destruct (k =? 1) eqn:E.
    + apply Z.eqb_eq in E. subst. discriminate.
    + intros _. left. reflexivity.
Qed.

(* the recorded inversion is (still) present in the extracted graph *)
Theorem known_1_refuted : known (Demo 1) = 1 /\ oracle (Demo 1) (run (Demo 1)) = false.
Proof. split; vm_compute; reflexivity. Qed.
