(* C04 — DateTime (lib/src/types/date_time.rs).  No proofs here.

   A chrono `DateTime<Utc>` is a pair (unix timestamp in seconds, nanosecond field); the
   nanosecond field is 0..999_999_999, or 1_000_000_000..1_999_999_999 inside a leap second
   (only the chrono parser can produce that).  The proleptic Gregorian calendar is modelled with
   the usual days-from-civil / civil-from-days arithmetic so that the printed text is computed
   inside the model; chrono's PARSER is only modelled on the two output formats of the printer
   ([parse_strict]); on arbitrary strings its verdict is an oracle transcript in the case. *)
From Coq Require Import String List ZArith Bool.
From OV Require Import C04.Text.
Import ListNotations.
Open Scope Z_scope.

Definition NANOS_PER_SECOND : Z := 1000000000.
Definition TICKS_PER_SECOND : Z := 10000000.
Definition UNIX_OPC_SECS : Z := 11644473600.        (* 1970-01-01 minus 1601-01-01, in seconds *)
Definition END_SECS : Z := 253402300799.            (* 9999-12-31T23:59:59Z as a unix timestamp *)
Definition END_TICKS : Z := (END_SECS + UNIX_OPC_SECS) * TICKS_PER_SECOND.
Definition I64MAX : Z := 9223372036854775807.

Definition dt := (Z * Z)%type.

(* ---- calendar ------------------------------------------------------------------------------ *)
Definition days_from_civil (y m d : Z) : Z :=
  let y' := if m <=? 2 then y - 1 else y in
  let era := y' / 400 in
  let yoe := y' - era * 400 in
  let doy := (153 * (if 2 <? m then m - 3 else m + 9) + 2) / 5 + d - 1 in
  let doe := yoe * 365 + yoe / 4 - yoe / 100 + doy in
  era * 146097 + doe - 719468.

Definition civil_from_days (z0 : Z) : Z * Z * Z :=
  let z := z0 + 719468 in
  let era := z / 146097 in
  let doe := z - era * 146097 in
  let yoe := (doe - doe / 1460 + doe / 36524 - doe / 146096) / 365 in
  let doy := doe - (365 * yoe + yoe / 4 - yoe / 100) in
  let mp := (5 * doy + 2) / 153 in
  let d := doy - (153 * mp + 2) / 5 + 1 in
  let m := if mp <? 10 then mp + 3 else mp - 9 in
  let y := yoe + era * 400 in
  (if m <=? 2 then y + 1 else y, m, d).

Definition is_leap (y : Z) : bool := (y mod 4 =? 0) && (negb (y mod 100 =? 0) || (y mod 400 =? 0)).
Definition days_in_month (y m : Z) : Z :=
  if m =? 2 then (if is_leap y then 29 else 28)
  else if (m =? 4) || (m =? 6) || (m =? 9) || (m =? 11) then 30 else 31.

(* ---- DateTime construction ------------------------------------------------------------------ *)
(* From<DateTimeUtc>: the nanosecond field is truncated to a multiple of 100 *)
Definition dt_from_chrono (d : dt) : dt := (fst d, snd d / 100 * 100).

Definition dt_epoch : dt := (- UNIX_OPC_SECS, 0).
Definition dt_endtimes : dt := (END_SECS, 0).

(* From<i64>: i64::MAX is "end times"; otherwise epoch + value/TPS seconds + the rest in
   nanoseconds (Rust `/` truncates towards zero, the remainder then has the sign of value; chrono
   normalises the sum to a floor second and a non-negative nanosecond field) *)
Definition dt_from_ticks (t : Z) : dt :=
  if t =? I64MAX then dt_endtimes else
  let secs := Z.quot t TICKS_PER_SECOND in
  let nanos := (t - secs * TICKS_PER_SECOND) * 100 in
  let total := secs * NANOS_PER_SECOND + nanos in
  dt_from_chrono (total / NANOS_PER_SECOND - UNIX_OPC_SECS, total mod NANOS_PER_SECOND).

Definition dt_ltb (a b : dt) : bool := (fst a <? fst b) || ((fst a =? fst b) && (snd a <? snd b)).
(* parse_from_rfc3339: clip to [epoch, endtimes]; no truncation to ticks there *)
Definition dt_clamp (d : dt) : dt :=
  if dt_ltb d dt_epoch then dt_epoch else if dt_ltb dt_endtimes d then dt_endtimes else d.

(* ---- printing -------------------------------------------------------------------------------- *)
(* date and time of day as chrono prints them for years 0..9999: YYYY-MM-DDTHH:MM:SS *)
Definition print_ymdhms (secs : Z) : str :=
  let days := secs / 86400 in
  let sod := secs mod 86400 in
  let '(y, m, d) := civil_from_days days in
  decw 4 y [] ++ 45 :: decw 2 m [] ++ 45 :: decw 2 d [] ++ 84 ::
  decw 2 (sod / 3600) [] ++ 58 :: decw 2 (sod / 60 mod 60) [] ++ 58 :: decw 2 (sod mod 60) [].

(* SecondsFormat::AutoSi *)
Definition print_frac_auto (nanos : Z) : str :=
  if nanos =? 0 then []
  else if nanos mod 1000000 =? 0 then 46 :: decw 3 (nanos / 1000000) []
  else if nanos mod 1000 =? 0 then 46 :: decw 6 (nanos / 1000) []
  else 46 :: decw 9 nanos [].

(* Display: chrono to_rfc3339() = AutoSi, "+00:00" *)
Definition dt_display (d : dt) : str :=
  print_ymdhms (fst d) ++ print_frac_auto (snd d) ++ lit "+00:00".
(* to_rfc3339(): to_rfc3339_opts(SecondsFormat::Millis, true) *)
Definition dt_to_rfc3339 (d : dt) : str :=
  print_ymdhms (fst d) ++ 46 :: decw 3 (snd d / 1000000) [] ++ [90].

(* ---- parsing the two printed formats ---------------------------------------------------------- *)
Definition take_num (k : nat) (s : str) : option (Z * str) :=
  let d := firstn k s in
  if Nat.eqb (length d) k && forallb is_digit d then
    match val_digits 0 d with Some v => Some (v, skipn k s) | None => None end
  else None.
Definition expect (c : Z) (s : str) : option str :=
  match s with x :: t => if x =? c then Some t else None | [] => None end.

Definition bind {A B} (o : option A) (f : A -> option B) : option B :=
  match o with Some a => f a | None => None end.

Fixpoint pow10 (n : nat) : Z := match n with O => 1 | S k => 10 * pow10 k end.

(* optional `.d{1,9}` *)
Definition take_frac (s : str) : option (Z * str) :=
  match s with
  | 46 :: t => let (d, r) := span_digits t in
               if Nat.leb 1 (length d) && Nat.leb (length d) 9 then
                 match val_digits 0 d with
                 | Some v => Some (v * pow10 (9 - length d), r)
                 | None => None
                 end
               else None
  | _ => Some (0, s)
  end.

(* YYYY-MM-DDTHH:MM:SS with valid fields, as a unix timestamp, and the rest of the string *)
Definition parse_head (s : str) : option (Z * str) :=
  bind (take_num 4 s) (fun '(y, s) => bind (expect 45 s) (fun s =>
  bind (take_num 2 s) (fun '(m, s) => bind (expect 45 s) (fun s =>
  bind (take_num 2 s) (fun '(d, s) => bind (expect 84 s) (fun s =>
  bind (take_num 2 s) (fun '(h, s) => bind (expect 58 s) (fun s =>
  bind (take_num 2 s) (fun '(mi, s) => bind (expect 58 s) (fun s =>
  bind (take_num 2 s) (fun '(sec, s) =>
  if (1 <=? m) && (m <=? 12) && (1 <=? d) && (d <=? days_in_month y m)
     && (h <? 24) && (mi <? 60) && (sec <? 60)
  then Some (days_from_civil y m d * 86400 + h * 3600 + mi * 60 + sec, s) else None))))))))))).

(* then an optional fraction and `Z` or `+00:00` *)
Definition parse_strict (s : str) : option dt :=
  bind (parse_head s) (fun '(secs, s) => bind (take_frac s) (fun '(ns, s) =>
    if str_eqb s [90] || str_eqb s (lit "+00:00") then Some (secs, ns) else None)).

(* DateTime::from_str = chrono parse, then From<DateTimeUtc> *)
Definition dt_from_str_strict (s : str) : option dt := option_map dt_from_chrono (parse_strict s).
(* DateTime::parse_from_rfc3339 = chrono parse, then clip *)
Definition dt_parse_rfc3339_strict (s : str) : option dt := option_map dt_clamp (parse_strict s).
