(* C16 — the UTF-8 recogniser of the model accepts the encoding of every Unicode scalar value:
   the hypothesis [utf8_valid pw = true] of the round-trip theorems covers every Rust `&str`. *)
From Coq Require Import List ZArith Bool Lia.
Import ListNotations.
From OV Require Import C16.Model.
Open Scope Z_scope.

(* Unicode scalar values: 0..0x10FFFF without the surrogates 0xD800..0xDFFF *)
Definition scalar (c : Z) : Prop := 0 <= c <= 1114111 /\ ~ (55296 <= c <= 57343).

(* char::encode_utf8 *)
Definition encode_cp (c : Z) : list Z :=
  if c <? 128 then [c]
  else if c <? 2048 then [192 + c / 64; 128 + c mod 64]
  else if c <? 65536 then [224 + c / 4096; 128 + (c / 64) mod 64; 128 + c mod 64]
  else [240 + c / 262144; 128 + (c / 4096) mod 64; 128 + (c / 64) mod 64; 128 + c mod 64].

Ltac split_tests :=
  repeat (match goal with
          | |- context [?a <=? ?b] => destruct (Z.leb_spec a b)
          | |- context [?a <? ?b] => destruct (Z.ltb_spec a b)
          | |- context [?a =? ?b] => destruct (Z.eqb_spec a b)
          end; cbn [andb orb negb]; try (exfalso; Z.div_mod_to_equations; lia)).

Lemma utf8_valid_encode c rest : scalar c -> utf8_valid (encode_cp c ++ rest) = utf8_valid rest.
Proof.
  intros [Hr Hs]. unfold encode_cp.
  destruct (Z.ltb_spec c 128); [|destruct (Z.ltb_spec c 2048); [|destruct (Z.ltb_spec c 65536)]];
    cbn [app utf8_valid]; unfold cont; split_tests; reflexivity.
Qed.

Theorem utf8_valid_string (cps : list Z) : Forall scalar cps -> utf8_valid (flat_map encode_cp cps) = true.
Proof.
  induction 1 as [|c cps Hc _ IH]; [reflexivity|]. cbn [flat_map]. rewrite utf8_valid_encode by exact Hc. exact IH.
Qed.

Example utf8_example : utf8_valid (flat_map encode_cp [112; 228; 27700; 128273; 0; 1114111; 55295; 57344]) = true /\
  flat_map encode_cp [228; 27700; 128273] = [195; 164; 230; 176; 180; 240; 159; 148; 145] /\
  utf8_valid [237; 160; 128] = false /\ utf8_valid [192; 128] = false /\ utf8_valid [244; 144; 128; 128] = false.
Proof. vm_compute. repeat split. Qed.
