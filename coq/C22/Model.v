(* C22 — keep-alives keep flowing and idle subscriptions expire on time.

   Model of lib/src/server/subscriptions/subscription.rs (`update_state`, `tick`,
   `handle_state_result`, the counters, `test_and_set_publishing_interval_elapsed`) and of the
   part of subscriptions.rs that pairs notifications with publish requests
   (`enqueue_publish_request`, `tick`), for ONE subscription WITHOUT monitored items, as the code
   is after
     fix: keep-alive rows 14/15 of the subscription state table                 (pre-landed)
     fix: subscription with keep-alive count 1 expired although publish requests were queued (row 9)
   Counters are u32 in the code, Z here; `lifetime_counter -= 1` at 0 is the explicit [Panic]
   (the harness is built with overflow checks).  Times are integer milliseconds.
   No proofs in this file. *)
From Coq Require Import List ZArith Bool Lia.
Import ListNotations.
Open Scope Z_scope.

Definition U32MAX : Z := 2 ^ 32 - 1.

(* ---------------------------------------------------------------------------------- *)
(* update_state                                                                        *)
(* ---------------------------------------------------------------------------------- *)
Inductive sstate := Closed | Creating | Normal | Late | KeepAlive.
Definition state_nr (s : sstate) : Z :=
  match s with Closed => 0 | Creating => 1 | Normal => 2 | Late => 3 | KeepAlive => 4 end.
Definition state_of_nr (n : Z) : sstate :=
  if n =? 0 then Closed else if n =? 1 then Creating else if n =? 2 then Normal
  else if n =? 3 then Late else KeepAlive.
Definition sstate_eqb (a b : sstate) : bool := state_nr a =? state_nr b.

(* the fields of `Subscription` that update_state reads or writes *)
Record sub := mk_sub {
  st : sstate; life : Z; kac : Z; first : bool; enabled : bool; maxlife : Z; maxkac : Z }.

(* SubscriptionStateParams + tick reason (recv = ReceivePublishRequest, else TickTimerFired) *)
Record params := mk_params { recv : bool; na : bool; mn : bool; rq : bool; te : bool }.

Inductive action := ANone | AKeepAlive | ANotifications | ACreated | AExpired.
Definition action_nr (a : action) : Z :=
  match a with ANone => 0 | AKeepAlive => 1 | ANotifications => 2 | ACreated => 3 | AExpired => 4 end.

Inductive result := Res (row : Z) (a : action) (s : sub) | Panic.

Definition set_st (s : sub) (x : sstate) : sub :=
  mk_sub x (life s) (kac s) (first s) (enabled s) (maxlife s) (maxkac s).
Definition set_first (s : sub) (b : bool) : sub :=
  mk_sub (st s) (life s) (kac s) b (enabled s) (maxlife s) (maxkac s).
Definition set_life (s : sub) (l : Z) : sub :=
  mk_sub (st s) l (kac s) (first s) (enabled s) (maxlife s) (maxkac s).
Definition set_kac (s : sub) (k : Z) : sub :=
  mk_sub (st s) (life s) k (first s) (enabled s) (maxlife s) (maxkac s).
Definition reset_life (s : sub) : sub := set_life s (maxlife s).
Definition reset_kac (s : sub) : sub := set_kac s (maxkac s).

(* start_publishing_timer: `self.lifetime_counter -= 1` on a u32 *)
Definition with_timer (s : sub) (k : sub -> result) : result :=
  if life s =? 0 then Panic else k (set_life s (life s - 1)).

Definition is_active (x : sstate) : bool :=
  match x with Normal | Late | KeepAlive => true | _ => false end.

(* [f15]: the pre-landed repair of rows 14/15 is present; [f9]: the repair of row 9 is present *)
Definition update_state_gen (f15 f9 : bool) (s : sub) (p : params) : result :=
  if recv p && te p then Panic
  else if is_active (st s) && (life s =? 1) then Res 27 AExpired (set_st s Closed)
  else
  let en := enabled s in
  match st s with
  | Creating => Res 3 ACreated (set_first (set_st s Normal) false)
  | Normal =>
      if recv p && (negb en || (en && negb (mn p))) then Res 4 ANone s
      else if recv p && en && mn p then Res 5 ANotifications (set_first (reset_life s) true)
      else if te p && rq p && en && na p then
        with_timer (reset_life s) (fun s => Res 6 ANotifications (set_first s true))
      else if te p && rq p && negb (first s) && (negb en || (en && negb (na p))) then
        with_timer (reset_life s) (fun s => Res 7 AKeepAlive (set_first s true))
      else if te p && negb (rq p) && (negb (first s) || (en && na p)) then
        with_timer s (fun s => Res 8 ANone (set_st s Late))
      else if te p && first s && (negb en || (en && negb (na p))) then
        with_timer (if f9 && rq p then reset_life s else s)
                   (fun s => Res 9 ANone (set_st (reset_kac s) KeepAlive))
      else Res 0 ANone s
  | Late =>
      if recv p && en && (na p || mn p) then
        Res 10 ANotifications (set_first (set_st (reset_life s) Normal) true)
      else if recv p && (negb en || (en && negb (na p) && negb (mn p))) then
        Res 11 AKeepAlive (set_first (set_st (reset_life s) KeepAlive) true)
      else if te p then with_timer s (fun s => Res 12 ANone s)
      else Res 0 ANone s
  | KeepAlive =>
      if recv p then Res 13 ANone s
      else if te p && en && na p && rq p then
        if f15 then with_timer (reset_life s)
                      (fun s => Res 14 ANotifications (set_st (set_first s true) Normal))
        else Res 14 ANotifications (set_st (set_first s true) Normal)
      else if te p && rq p && (kac s =? 1)
              && (negb en || (en && (if f15 then negb (na p) else na p))) then
        with_timer (if f15 then reset_life s else s)
                   (fun s => Res 15 AKeepAlive (reset_kac s))
      else if te p && (1 <? kac s) && (negb en || (en && negb (na p))) then
        with_timer s (fun s => Res 16 ANone (set_kac s (kac s - 1)))
      else if te p && negb (rq p) && ((kac s =? 1) || ((1 <? kac s) && en && na p)) then
        with_timer s (fun s => Res 17 ANone (set_st s Late))
      else Res 0 ANone s
  | Closed => Res 0 ANone s
  end.

Definition update_state : sub -> params -> result := update_state_gen true true.

(* ---------------------------------------------------------------------------------- *)
(* Subscription::tick + handle_state_result, no monitored items                         *)
(* ---------------------------------------------------------------------------------- *)
(* queued notification messages by kind: 1 keep-alive, 2 status change BadTimeout *)
Record subq := mk_subq { sb : sub; nq : list Z; last : Z }.

Definition is_nil {A} (l : list A) : bool := match l with [] => true | _ => false end.
Definition more_than_one {A} (l : list A) : bool := match l with _ :: _ :: _ => true | _ => false end.

(* test_and_set_publishing_interval_elapsed: elapsed = max 0 (now - last) (to_std() fails on a
   negative duration, unwrap_or_default) *)
Definition interval_test (ivl now lst : Z) : bool * Z :=
  if ivl <=? Z.max 0 (now - lst) then (true, now) else (false, lst).

Definition handle_action (a : action) (q : list Z) : list Z :=
  match a with
  | AKeepAlive => q ++ [1]
  | AExpired => q ++ [2]
  | _ => q
  end.

(* None = panic *)
Definition sub_tick_gen (f15 f9 : bool) (ivl now : Z) (is_recv req : bool) (x : subq) : option subq :=
  let timer :=
    if is_recv then Some (false, last x)
    else if sstate_eqb (st (sb x)) Creating then Some (true, last x)
    else if ivl <=? 0 then None
    else Some (interval_test ivl now (last x)) in
  match timer with
  | None => None
  | Some (el, lst) =>
      let avail := negb (is_nil (nq x)) in
      if avail || el || req then
        match update_state_gen f15 f9 (sb x) (mk_params is_recv avail (more_than_one (nq x)) req el) with
        | Panic => None
        | Res _ a s' => Some (mk_subq s' (handle_action a (nq x)) lst)
        end
      else Some (mk_subq (sb x) (nq x) lst)
  end.

(* ---------------------------------------------------------------------------------- *)
(* Subscriptions: publish request queue (its length), one subscription                  *)
(* ---------------------------------------------------------------------------------- *)
Record world := mk_world { ws : option subq; pq : Z }.

Definition ready_to_remove (x : subq) : bool := sstate_eqb (st (sb x)) Closed && is_nil (nq x).

(* pair queued notifications with queued publish requests, oldest first *)
Fixpoint drain (q : list Z) (n : Z) : list Z * list Z * Z :=
  match q with
  | [] => ([], [], n)
  | k :: q' => if 0 <? n then let '(r, rest, n') := drain q' (n - 1) in (k :: r, rest, n')
               else ([], q, n)
  end.

(* Subscriptions::tick: new world and the publish responses produced; None = panic *)
Definition subs_tick_gen (f15 f9 : bool) (ivl now : Z) (is_recv : bool) (w : world) : option (world * list Z) :=
  match ws w with
  | None => Some (w, [])
  | Some x =>
      match sub_tick_gen f15 f9 ivl now is_recv (0 <? pq w) x with
      | None => None
      | Some x' =>
          let '(resp, rest, n') := drain (nq x') (pq w) in
          let x'' := mk_subq (sb x') rest (last x') in
          Some (mk_world (if ready_to_remove x'' then None else Some x'') n', resp)
      end
  end.

Definition max_publish_requests (w : world) : Z := match ws w with Some _ => 2 | None => 0 end.

Inductive op := Pub | Timer (dt : Z).

(* one operation at time [now] (already advanced): new world, output codes before the snapshot *)
Definition step_gen (f15 f9 : bool) (ivl now : Z) (o : op) (w : world) : option (world * list Z) :=
  match o with
  | Timer _ => subs_tick_gen f15 f9 ivl now false w
  | Pub =>
      let first_tick :=
        if max_publish_requests w <=? pq w then subs_tick_gen f15 f9 ivl now true w else Some (w, []) in
      match first_tick with
      | None => None
      | Some (w1, r1) =>
          (* the limit was computed before the first tick *)
          if max_publish_requests w <=? pq w1 then Some (w1, 5 :: r1)
          else match subs_tick_gen f15 f9 ivl now true (mk_world (ws w1) (pq w1 + 1)) with
               | None => None
               | Some (w2, r2) => Some (w2, r1 ++ r2)
               end
      end
  end.

Definition b2z (b : bool) : Z := if b then 1 else 0.

Definition snapshot (w : world) : list Z :=
  match ws w with
  | Some x => [1; state_nr (st (sb x)); life (sb x); kac (sb x); b2z (first (sb x));
               Z.of_nat (length (nq x)); pq w]
  | None => [0; pq w]
  end.

(* one observation per operation *)
Record obs := mk_obs { o_pre : list Z; o_snap : list Z }.

Definition op_time (now : Z) (o : op) : Z := match o with Timer dt => now + dt | Pub => now end.

(* the trace of a history; [None] at the end = a panic ended it *)
Fixpoint trace_gen (f15 f9 : bool) (ivl now : Z) (w : world) (ops : list op) : list obs * bool :=
  match ops with
  | [] => ([], false)
  | o :: r =>
      let now' := op_time now o in
      match step_gen f15 f9 ivl now' o w with
      | None => ([], true)
      | Some (w', pre) =>
          let '(t, pn) := trace_gen f15 f9 ivl now' w' r in
          (mk_obs pre (snapshot w') :: t, pn)
      end
  end.

Definition encode_obs (o : obs) : list Z := o_pre o ++ 9 :: o_snap o.
Definition encode (t : list obs * bool) : list Z :=
  concat (map encode_obs (fst t)) ++ (if snd t then [-2] else []).

Definition init_world (kac0 life0 : Z) (en : bool) : world :=
  mk_world (Some (mk_subq (mk_sub Creating life0 kac0 false en life0 kac0) [] 0)) 0.

(* ---------------------------------------------------------------------------------- *)
(* correspondence interface                                                             *)
(* ---------------------------------------------------------------------------------- *)
Inductive case :=
| Hist (kac0 life0 : Z) (en : bool) (ivl : Z) (ops : list op)
| Table (stn life1 kac1 : Z) (first1 en : bool) (maxlife1 maxkac1 : Z) (recv1 na1 mn1 rq1 te1 : bool).

Definition table_out (r : result) : list Z :=
  match r with
  | Panic => [-2]
  | Res row a s => [row; action_nr a; state_nr (st s); life s; kac s; b2z (first s)]
  end.

Definition run_gen (f15 f9 : bool) (c : case) : list Z :=
  match c with
  | Hist k l en ivl ops => encode (trace_gen f15 f9 ivl 0 (init_world k l en) ops)
  | Table stn l k f en ml mk r a m q t =>
      table_out (update_state_gen f15 f9 (mk_sub (state_of_nr stn) l k f en ml mk) (mk_params r a m q t))
  end.

Definition run : case -> list Z := run_gen true true.

(* ---------------------------------------------------------------------------------- *)
(* the specification                                                                    *)
(* ---------------------------------------------------------------------------------- *)

(* --- the state table of Part 4 5.13.1.2 as data, with a first-match interpreter ------------ *)
Record rowspec := mk_row {
  rs_nr : Z;
  rs_state : sstate -> bool;
  rs_guard : sub -> params -> bool;       (* the event column *)
  rs_reset_life : params -> bool;         (* ResetLifetimeCounter() *)
  rs_timer : bool;                        (* StartPublishingTimer() *)
  rs_kac : Z;                             (* 0 keep, 1 ResetKeepAliveCounter(), 2 decrement *)
  rs_first : option bool;                 (* MessageSent := *)
  rs_next : option sstate;
  rs_action : action }.

Definition always (_ : params) := true.
Definition never (_ : params) := false.
Definition is_st (x : sstate) (y : sstate) : bool := sstate_eqb x y.
Definition nodata (s : sub) (p : params) : bool := negb (enabled s && na p).
Definition data (s : sub) (p : params) : bool := enabled s && na p.

Definition table : list rowspec := [
  mk_row 27 is_active (fun s _ => life s =? 1) never false 0 None (Some Closed) AExpired;
  mk_row 3 (is_st Creating) (fun _ _ => true) never false 0 (Some false) (Some Normal) ACreated;
  mk_row 4 (is_st Normal) (fun s p => recv p && negb (enabled s && mn p)) never false 0 None None ANone;
  mk_row 5 (is_st Normal) (fun s p => recv p && enabled s && mn p) always false 0 (Some true) None ANotifications;
  mk_row 6 (is_st Normal) (fun s p => te p && rq p && data s p) always true 0 (Some true) None ANotifications;
  mk_row 7 (is_st Normal) (fun s p => te p && rq p && negb (first s) && nodata s p) always true 0 (Some true) None AKeepAlive;
  mk_row 8 (is_st Normal) (fun s p => te p && negb (rq p) && (negb (first s) || data s p)) never true 0 None (Some Late) ANone;
  mk_row 9 (is_st Normal) (fun s p => te p && first s && nodata s p) rq true 1 None (Some KeepAlive) ANone;
  mk_row 10 (is_st Late) (fun s p => recv p && enabled s && (na p || mn p)) always false 0 (Some true) (Some Normal) ANotifications;
  mk_row 11 (is_st Late) (fun s p => recv p && negb (enabled s && (na p || mn p))) always false 0 (Some true) (Some KeepAlive) AKeepAlive;
  mk_row 12 (is_st Late) (fun s p => te p) never true 0 None None ANone;
  mk_row 13 (is_st KeepAlive) (fun s p => recv p) never false 0 None None ANone;
  mk_row 14 (is_st KeepAlive) (fun s p => te p && data s p && rq p) always true 0 (Some true) (Some Normal) ANotifications;
  mk_row 15 (is_st KeepAlive) (fun s p => te p && rq p && (kac s =? 1) && nodata s p) always true 1 None None AKeepAlive;
  mk_row 16 (is_st KeepAlive) (fun s p => te p && (1 <? kac s) && nodata s p) never true 2 None None ANone;
  mk_row 17 (is_st KeepAlive) (fun s p => te p && negb (rq p) && ((kac s =? 1) || ((1 <? kac s) && data s p))) never true 0 None (Some Late) ANone ].

Definition apply_row (r : rowspec) (s : sub) (p : params) : result :=
  let s1 := if rs_reset_life r p then reset_life s else s in
  if rs_timer r && (life s1 =? 0) then Panic
  else
    let s2 := if rs_timer r then set_life s1 (life s1 - 1) else s1 in
    let s3 := if rs_kac r =? 1 then reset_kac s2 else if rs_kac r =? 2 then set_kac s2 (kac s2 - 1) else s2 in
    let s4 := match rs_first r with Some b => set_first s3 b | None => s3 end in
    let s5 := match rs_next r with Some x => set_st s4 x | None => s4 end in
    Res (rs_nr r) (rs_action r) s5.

Fixpoint first_match (rows : list rowspec) (s : sub) (p : params) : result :=
  match rows with
  | [] => Res 0 ANone s
  | r :: rows' => if rs_state r (st s) && rs_guard r s p then apply_row r s p else first_match rows' s p
  end.

Definition table_eval (s : sub) (p : params) : result :=
  if recv p && te p then Panic else first_match table s p.

(* --- the property on an observed history --------------------------------------------------- *)
Fixpoint list_eqb (a b : list Z) : bool :=
  match a, b with
  | [], [] => true
  | x :: a', y :: b' => (x =? y) && list_eqb a' b'
  | _, _ => false
  end.

Fixpoint mem (x : Z) (l : list Z) : bool :=
  match l with [] => false | y :: l' => (x =? y) || mem x l' end.

(* reading the observations back from the flat output *)
Fixpoint split9 (l : list Z) : option (list Z * list Z) :=
  match l with
  | [] => None
  | x :: l' => if x =? 9 then Some ([], l')
               else match split9 l' with Some (a, b) => Some (x :: a, b) | None => None end
  end.

Fixpoint parse (fuel : nat) (l : list Z) : option (list obs) :=
  match fuel with
  | O => None
  | S fuel' =>
      match l with
      | [] => Some []
      | _ =>
        match split9 l with
        | None => None
        | Some (pre, rest) =>
            match rest with
            | 1 :: a :: b :: c :: d :: e :: f :: rest' =>
                match parse fuel' rest' with
                | Some t => Some (mk_obs pre [1; a; b; c; d; e; f] :: t) | None => None end
            | 0 :: a :: rest' =>
                match parse fuel' rest' with
                | Some t => Some (mk_obs pre [0; a] :: t) | None => None end
            | _ => None
            end
        end
      end
  end.

Definition is_pub (o : op) : bool := match o with Pub => true | _ => false end.

(* which operations are timer ticks at which a publishing interval has elapsed (the first
   operation creates the subscription and is not one) *)
Fixpoint elapsed_flags (ivl now lst : Z) (ops : list op) : list bool :=
  match ops with
  | [] => []
  | Pub :: r => false :: elapsed_flags ivl now lst r
  | Timer dt :: r =>
      if ivl <=? Z.max 0 (now + dt - lst) then true :: elapsed_flags ivl (now + dt) (now + dt) r
      else false :: elapsed_flags ivl (now + dt) lst r
  end.

Definition flags (ivl : Z) (ops : list op) : list bool :=
  match ops with
  | [] => []
  | o :: r => false :: elapsed_flags ivl (op_time 0 o) 0 r
  end.

(* "publish requests always available": every timer tick is directly preceded by a publish request *)
Fixpoint avail_from (prev_pub : bool) (ops : list op) : bool :=
  match ops with
  | [] => true
  | Pub :: r => avail_from true r
  | Timer _ :: r => prev_pub && avail_from false r
  end.
Definition avail (ops : list op) : bool := avail_from false ops.

Definition snap_state (o : obs) : option Z :=
  match o_snap o with
  | 1 :: s :: _ => Some s
  | _ => None
  end.

(* first half of the statement: never closed, a keep-alive at the first elapsed interval and no more
   than [k] consecutive elapsed intervals without one.  [cnt]: elapsed intervals since the last
   keep-alive; [seen]: a keep-alive has been sent *)
Fixpoint check_alive (k : Z) (cnt : Z) (seen : bool) (fl : list bool) (t : list obs) : bool :=
  match fl, t with
  | [], [] => true
  | f :: fl', o :: t' =>
      match snap_state o with
      | None => false
      | Some s =>
          negb (s =? 0) && negb (mem 2 (o_pre o)) &&
          (if mem 1 (o_pre o) then check_alive k 0 true fl' t'
           else if f then seen && (cnt + 1 <=? k) && check_alive k (cnt + 1) seen fl' t'
           else check_alive k cnt seen fl' t')
      end
  | _, _ => false
  end.

(* second half: while no publish request has been sent, not closed before interval life-1, closed
   from interval life+1 on, and the first publish request after the closure is answered with the
   BadTimeout status change.  [n]: elapsed intervals so far; [closed]: last observed state was Closed *)
Fixpoint check_expiry (l : Z) (n : Z) (closed : bool) (ops : list op) (fl : list bool) (t : list obs) : bool :=
  match ops, fl, t with
  | [], _, _ => true
  | Pub :: _, _ :: _, o :: _ => if closed then mem 2 (o_pre o) else true
  | Timer _ :: ops', f :: fl', o :: t' =>
      let n' := if f then n + 1 else n in
      match snap_state o with
      | None => false
      | Some s =>
          is_nil (o_pre o) &&
          (if n' <? l - 1 then negb (s =? 0) else true) &&
          (if l + 1 <=? n' then s =? 0 else true) &&
          (if closed then s =? 0 else true) &&
          check_expiry l n' (s =? 0) ops' fl' t'
      end
  | _, _, _ => false
  end.

Definition oracle (c : case) (out : list Z) : bool :=
  match c with
  | Hist k l en ivl ops =>
      match parse (S (length out)) out with
      | None => false
      | Some t =>
          (length t =? length ops)%nat &&
          (if en && avail ops then check_alive k 0 false (flags ivl ops) t else true) &&
          check_expiry l 0 false ops (flags ivl ops) t
      end
  | Table stn l k f en ml mk r a m q t =>
      list_eqb out (table_out (table_eval (mk_sub (state_of_nr stn) l k f en ml mk) (mk_params r a m q t)))
  end.

Definition known (c : case) : Z := 0.

Definition valid (c : case) : Prop :=
  match c with
  | Hist k l en ivl ops => 1 <= k /\ 3 * k <= l /\ 1 <= ivl
  | Table stn l k f en ml mk r a m q t => True
  end.

(* ---------------------------------------------------------------------------------- *)
(* vocabulary of the theorem statements                                                 *)
(* ---------------------------------------------------------------------------------- *)
(* per observed operation: did its responses contain a keep-alive / a BadTimeout status change *)
Definition ka_of (o : obs) : bool := mem 1 (o_pre o).
Definition timeout_of (o : obs) : bool := mem 2 (o_pre o).

Fixpoint count_true (l : list bool) : Z :=
  match l with [] => 0 | b :: l' => (if b then 1 else 0) + count_true l' end.

(* the subscription state after each operation (-1: removed) *)
Fixpoint states_of (t : list obs) : list Z :=
  match t with
  | [] => []
  | o :: t' => (match snap_state o with Some s => s | None => -1 end) :: states_of t'
  end.

(* n timer ticks one publishing interval apart after the creating tick, no publish request *)
Definition idle_history (ivl : Z) (n : nat) : list op := Timer 0 :: repeat (Timer ivl) n.

(* the same with a publish request before every tick *)
Definition requests_history (ivl : Z) (n : nat) : list op :=
  Pub :: Timer 0 :: concat (repeat [Pub; Timer ivl] n).

(* the keep-alive schedule of [requests_history]: at interval 1, at interval kac+2, then every kac *)
Definition ka_schedule (k i : Z) : bool := (i =? 1) || ((k + 2 <=? i) && ((i - 2) mod k =? 0)).

(* the world at the end of a history (None: a panic) *)
Fixpoint final_gen (f15 f9 : bool) (ivl now : Z) (w : world) (ops : list op) : option world :=
  match ops with
  | [] => Some w
  | o :: r => match step_gen f15 f9 ivl (op_time now o) o w with
              | Some (w', _) => final_gen f15 f9 ivl (op_time now o) w' r
              | None => None
              end
  end.

(* ---------------------------------------------------------------------------------- *)
(* the code before the repairs                                                          *)
(* ---------------------------------------------------------------------------------- *)
(* as pinned: row 15 tested notifications_available, rows 14/15 did not reset the lifetime counter *)
Module Legacy.
  Definition update_state := update_state_gen false false.
  Definition run := run_gen false false.
End Legacy.

(* after the pre-landed repair of rows 14/15, before the repair of row 9 *)
Module Legacy9.
  Definition update_state := update_state_gen true false.
  Definition run := run_gen true false.
End Legacy9.
