(* C21 — Publish responses pair with requests and deliver every data change once.
   Statements only.

   Model: C21/Sys.v (the session's subscription machinery), reference evaluator and oracle:
   C21/Model.v.  [valid c]: every OCreateSub has the parameters the service hands to
   Subscription::new (interval >= 1 ms, keep-alive count >= 1, lifetime >= 3 * keep-alive), clock
   steps are not negative, and the history is short enough for u32 sequence numbers not to wrap
   (2 * #ops + 2 < 2^32 - 1). *)
From Coq Require Import List ZArith.
Import ListNotations.
From OV Require Import C21.SysLemmas C21.Model C21.SubTick C21.Round C21.Inv C21.Step C21.Proofs.
Open Scope Z_scope.

(* MAIN.  For every valid history — any interleaving of value writes, timer ticks (publishing
   interval elapsing or not), publish requests (with acknowledgements, with timeout hints), item
   create/delete, subscription create/delete, publishing-mode changes and republish, for any
   number of subscriptions and items — the model of the code runs without panic and the
   reference evaluator accepts its whole trace:
     (1) every response answers a queued, unanswered request; publish responses answer the oldest;
         the observed request queue is exactly the accepted, unanswered requests;
     (2) per subscription the delivered sequence numbers strictly increase;
     (3) every delivered data-change notification of a live subscription is the oldest collected,
         undelivered payload; the number of data notifications waiting in a live subscription is
         the number of collected, undelivered payloads; while a publish request is queued no
         live subscription has an undelivered payload.
   (see C21/Model.v for the exact reading of "collected", "live" and "enabled"). *)
Theorem C21_history : forall c, valid c ->
  exists tr, run_ev c = (tr, false) /\ spec_trace (init_spec c) 0 (c_ops c) tr = true.
Proof. exact run_accepted. Qed.
Print Assumptions C21_history.

Theorem C21_oracle : forall c, valid c -> known c = 0 -> oracle c (run c) = true.
Proof. intros c Hv _. apply oracle_holds. exact Hv. Qed.
Print Assumptions C21_oracle.

Theorem C21_no_panic : forall c, valid c -> snd (run_ev c) = false.
Proof. exact no_panic. Qed.
Print Assumptions C21_no_panic.

(* One Subscription::tick, for EVERY well-formed subscription state, every address space, every
   clock value, both tick reasons and either value of "publish request queued": no panic; the
   notification queue only grows at its end, by at most one message with the next sequence
   number; and, seen through the abstraction [abs_sub] (items, queue of collected payloads),
   the tick does exactly what the reference evaluator's [T] does — in particular a payload
   collected in this cycle is appended to the queue if publishing is enabled and never otherwise
   lost, unless the subscription expires in this very cycle. *)
Theorem C21_subscription_tick : forall lo s vars now timer rq,
  wf lo s -> state_ok s -> s_lastseq s + 2 < U32MAX ->
  exists s' added, sub_tick s vars now timer rq = Some s' /\
    wf lo s' /\ state_ok s' /\ same_static s s' /\ s_notifs s' = s_notifs s ++ added /\
    s_lastseq s <= s_lastseq s' <= s_lastseq s + 1 /\
    (s_state s = 0 -> s_state s' = 0) /\
    exists extra, p_pending (T timer (s_state s) vars now (abs_sub s)) = data_of (s_notifs s') ++ extra /\
      (s_state s' <> 0 -> extra = [] /\ abs_sub s' = T timer (s_state s) vars now (abs_sub s)).
Proof. exact sub_tick_summary. Qed.
Print Assumptions C21_subscription_tick.

(* One scheduling round (Subscriptions::tick), for every system state satisfying the invariant:
   the responses are accepted one by one by the evaluator (oldest request first, every
   subscription's queue from its head, sequence numbers increasing), requests that remain are a
   suffix of the queue, and if any remain no subscription keeps a notification. *)
Theorem C21_round : forall timer B tl y z,
  z_out z = map q_rid (y_reqs y) ++ tl -> subs_ok B y z -> B + 3 < U32MAX ->
  tracked (fun s => T timer (s_state s) (y_vars y) (y_now y) (abs_sub s)) y z ->
  exists y' rs z', sys_tick y timer = Some (y', rs) /\ spec_resps rs z = Some z' /\ zsame z z' /\
    z_out z' = map q_rid (y_reqs y') ++ tl /\ subs_ok (B + 1) y' z' /\ quiet y' /\
    (exists used, y_reqs y = used ++ y_reqs y') /\
    y_now y' = y_now y /\ y_vars y' = y_vars y /\ y_nextsub y' = y_nextsub y /\ y_nextrid y' = y_nextrid y /\
    (z_track z' = true ->
       NoDup (map p_id (z_subs z')) /\
       forall id s, find_sub id (y_subs y') = Some s -> s_state s <> 0 ->
                    find_ssub id (z_subs z') = Some (abs_sub s)).
Proof. exact sys_tick_rel. Qed.
Print Assumptions C21_round.

(* The pinned code (handle_state_result dropped a notification whenever no publish request was
   queued): a valid history on which the evaluator rejects the trace — two values written in
   cycles without a request never reach the client. *)
Theorem C21_legacy_refuted : exists c, valid c /\ oracle c (Legacy.run c) = false.
Proof. exists witness_drop. split; [exact witness_drop_valid | exact legacy_refuted]. Qed.
Print Assumptions C21_legacy_refuted.

(* The tree before "fix: subscription expiry panicked when an item reported in the same cycle":
   a valid history that ends in the panic. *)
Theorem C21_legacy_expiry_refuted : exists c, valid c /\ oracle c (LegacyExpiry.run c) = false.
Proof. exists witness_expiry. split; [exact witness_expiry_valid | exact legacy_expiry_refuted]. Qed.
Print Assumptions C21_legacy_expiry_refuted.
