(* C24 — Monitored item queues keep the right values and survive resizing.  Statements only. *)
From Coq Require Import List ZArith Bool.
Import ListNotations.
From OV Require Import C24.Model C24.Proofs C24.History.
Open Scope Z_scope.

(* For every server maximum (0 included), every requested size/policy and EVERY history of samples, modify
   requests (any u32 size, either policy, accepted or refused filter) and drains, the model of the
   code produces exactly the output of the reference evaluator [spec] (closed forms: newest `size`
   entries / newest slot replaced / most recent entries that fit); no panic marker. *)
Theorem C24_refines_spec : forall c, valid c -> run c = spec c.
Proof. exact run_eq_spec. Qed.
Print Assumptions C24_refines_spec.

Theorem C24_oracle : forall c, valid c -> known c = 0 -> oracle c (run c) = true.
Proof. exact oracle_holds. Qed.
Print Assumptions C24_oracle.

(* Invariant over arbitrary histories, any payload type: from any state satisfying the invariant
   (in particular a freshly created item) no operation sequence panics and the state reached has
   1 <= size <= max(1, server maximum) and |queue| <= size. *)
Theorem C24_bounded_no_panic : forall (A : Type) mx (ops : list (@gop A)) (s : st A),
  Forall gop_ok ops -> inv mx s ->
  exists s', steps mx s ops = Done s' /\ 1 <= size s' <= Z.max 1 mx /\ len (q s') <= size s'.
Proof. intros A mx ops s Ho Hi. exact (steps_inv mx ops Ho s Hi). Qed.
Print Assumptions C24_bounded_no_panic.

Theorem C24_created_item_ok : forall (A : Type) mx r d, 0 <= r -> inv mx (create (A:=A) mx r d).
Proof. intros. apply create_inv; assumption. Qed.
Print Assumptions C24_created_item_ok.

(* Sample order: the queue content is a subsequence (in order) of the previous content followed by
   the samples of the history. *)
Theorem C24_order_preserved : forall (A : Type) mx (ops : list (@gop A)) (s s' : st A),
  Forall gop_ok ops -> inv mx s -> steps mx s ops = Done s' ->
  subseq (vals (q s')) (vals (q s) ++ sampled ops).
Proof. intros A mx ops s s' Ho Hi E. exact (steps_order mx ops Ho s s' Hi E). Qed.
Print Assumptions C24_order_preserved.

(* One sample: discard-oldest keeps the newest `size` entries, otherwise the newest slot is
   replaced; the new entry carries the overflow bit exactly when something was discarded and
   size > 1; the length grows by one exactly when nothing was discarded. *)
Theorem C24_enqueue_law : forall (A : Type) mx (s : st A) (a : A), inv mx s ->
  let discarded := size s <=? len (q s) in
  let bit := discarded && (1 <? size s) in
  q (enqueue s a) = (if disc s then lastn (Z.to_nat (size s)) (q s ++ [(a, bit)])
                     else firstn (Z.to_nat (size s) - 1) (q s) ++ [(a, bit)]) /\
  len (q (enqueue s a)) = (if discarded then len (q s) else len (q s) + 1) /\
  len (q (enqueue s a)) <= size s.
Proof. intros A mx s a Hi. exact (enqueue_law mx s a Hi). Qed.
Print Assumptions C24_enqueue_law.

(* One modify request whose filter decodes: never a panic, the revised size is the clamp of the
   request into [1, max], and the queue keeps the most recent entries that fit. *)
Theorem C24_modify_law : forall (A : Type) mx (s : st A) r d f,
  0 <= r -> inv mx s -> f <> 2 ->
  exists s' res, modify mx s r d f = Done (s', res) /\
    size s' = Z.max 1 (Z.min mx r) /\ disc s' = d /\
    q s' = lastn (Z.to_nat (size s')) (q s) /\
    len (q s') = Z.min (len (q s)) (size s').
Proof. intros A mx s r d f. apply modify_law. Qed.
Print Assumptions C24_modify_law.

(* The code before "fix: shrinking a monitored item queue computed queue_size - len and
   underflowed": a valid history panics. *)
Theorem C24_legacy_refuted :
  exists c, valid c /\ In (-2) (legacy_run c) /\ oracle c (legacy_run c) = false.
Proof. exact legacy_refuted. Qed.
Print Assumptions C24_legacy_refuted.

(* The code before "fix: a configured maximum queue size of 0 revised queue sizes to 0 and the
   queue grew without bound". *)
Theorem C24_legacy_max0_refuted :
  let s := Legacy.create (A:=Z) 0 5 true in
  size s = 0 /\ len (q (enqueue (enqueue (enqueue s 1) 2) 3)) = 3.
Proof. exact legacy_max0_refuted. Qed.
Print Assumptions C24_legacy_max0_refuted.

(* Whole histories of samples (no modify / drain in between), any payload type:
   discard-oldest keeps exactly the newest `size` of everything the queue was given ... *)
Theorem C24_discard_oldest_keeps_newest : forall (A : Type) mx (s : st A) (l : list A),
  inv mx s -> disc s = true ->
  vals (q (feed_samples s l)) = glastn (Z.to_nat (size s)) (vals (q s) ++ l).
Proof. intros A mx s l. apply discard_oldest_keeps_newest. Qed.
Print Assumptions C24_discard_oldest_keeps_newest.

(* ... and otherwise the first size-1 samples stay and the last slot holds the newest sample. *)
Theorem C24_keep_oldest_replaces_newest : forall (A : Type) mx (s : st A) (l : list A),
  inv mx s -> disc s = false -> q s = [] ->
  vals (q (feed_samples s l)) =
    if (length l <=? Z.to_nat (size s))%nat then l
    else firstn (Z.to_nat (size s) - 1) l ++ glastn 1 l.
Proof. intros A mx s l. apply keep_oldest_replaces_newest. Qed.
Print Assumptions C24_keep_oldest_replaces_newest.
