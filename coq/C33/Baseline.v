(* AUDITED BASELINE written by tools/translate/c33_sites.py --baseline; the inventory of explicit panic sites reviewed for C33 *)
From Coq Require Import List ZArith String.
Import ListNotations.
Open Scope Z_scope.
Open Scope string_scope.

Definition baseline : list (string * Z) := [
  ("server/address_space/address_space.rs", 6);
  ("server/address_space/base.rs", 0);
  ("server/address_space/data_type.rs", 0);
  ("server/address_space/method.rs", 0);
  ("server/address_space/method_impls.rs", 2);
  ("server/address_space/mod.rs", 2);
  ("server/address_space/node.rs", 0);
  ("server/address_space/object.rs", 0);
  ("server/address_space/object_type.rs", 0);
  ("server/address_space/reference_type.rs", 0);
  ("server/address_space/references.rs", 1);
  ("server/address_space/relative_path.rs", 2);
  ("server/address_space/variable.rs", 1);
  ("server/address_space/variable_type.rs", 0);
  ("server/address_space/view.rs", 0);
  ("server/events/audit/cancel_event.rs", 0);
  ("server/events/audit/certificate_events.rs", 0);
  ("server/events/audit/event.rs", 1);
  ("server/events/audit/mod.rs", 0);
  ("server/events/audit/node_management_event.rs", 0);
  ("server/events/audit/security_event.rs", 1);
  ("server/events/audit/session_events.rs", 0);
  ("server/events/event.rs", 28);
  ("server/events/event_filter.rs", 11);
  ("server/events/mod.rs", 0);
  ("server/events/operator.rs", 49);
  ("server/services/attribute.rs", 8);
  ("server/services/audit.rs", 0);
  ("server/services/discovery.rs", 0);
  ("server/services/message_handler.rs", 0);
  ("server/services/method.rs", 0);
  ("server/services/mod.rs", 0);
  ("server/services/monitored_item.rs", 4);
  ("server/services/node_management.rs", 0);
  ("server/services/query.rs", 0);
  ("server/services/session.rs", 1);
  ("server/services/subscription.rs", 4);
  ("server/services/verif_asvc.rs", 0);
  ("server/services/view.rs", 6);
  ("server/subscriptions/mod.rs", 0);
  ("server/subscriptions/monitored_item.rs", 2);
  ("server/subscriptions/subscription.rs", 8);
  ("server/subscriptions/subscriptions.rs", 3)
].
