From Coq Require Import List ZArith Bool Lia.
Import ListNotations.
From OV Require Import C20.Model.
Open Scope Z_scope.

(* ---------- lookups ---------- *)
Lemma lookup_some users id u : lookup users id = Some u -> In u users /\ u_id u = id.
Proof.
  unfold lookup. intro H. apply find_some in H as [H1 H2]. apply Z.eqb_eq in H2. auto.
Qed.

Definition users_ok (users : list user) : Prop :=
  (forall u, In u users -> 0 < u_id u) /\ (forall u, In u users -> thumb_only_x509 u = true).

Lemma valid_users_ok c : valid c = true -> users_ok (c_users c).
Proof.
  unfold valid. intro H.
  apply andb_true_iff in H as [H _]. apply andb_true_iff in H as [H Hth]. apply andb_true_iff in H as [_ Hpos].
  split; intros u Hu.
  - rewrite forallb_forall in Hpos. apply Hpos in Hu. apply Z.ltb_lt in Hu. exact Hu.
  - rewrite forallb_forall in Hth. apply Hth in Hu. exact Hu.
Qed.

Lemma in_ep_users users e u :
  In u (ep_users users e) <-> exists id, In id (e_ids e) /\ lookup users id = Some u.
Proof.
  unfold ep_users. rewrite in_flat_map. split.
  - intros [id [Hi Hu]]. exists id. split; [exact Hi|].
    destruct (lookup users id) as [v|]; cbn in Hu; [|contradiction].
    destruct Hu as [->|[]]. reflexivity.
  - intros [id [Hi Hl]]. exists id. split; [exact Hi|]. rewrite Hl. left. reflexivity.
Qed.

(* ---------- the user name loop = "the first token with that name decides" ---------- *)
Lemma user_loop_spec users name pw ids :
  user_loop users name pw ids =
  match find (fun u => negb (u_x509 u) && (u_name u =? name))
             (flat_map (fun id => match lookup users id with Some u => [u] | None => [] end) ids) with
  | Some u => if password_ok u pw then 0 else 3
  | None => 3
  end.
Proof.
  induction ids as [|id rest IH]; cbn [user_loop flat_map]; [reflexivity|].
  destruct (lookup users id) as [u|]; cbn [app find].
  - destruct (negb (u_x509 u) && (u_name u =? name)); [reflexivity | exact IH].
  - exact IH.
Qed.

Lemma user_loop_accept users e name pw :
  user_loop users name pw (e_ids e) = 0 <-> configured_user users e name pw = true.
Proof.
  rewrite user_loop_spec. unfold configured_user, ep_users.
  destruct (find _ _) as [u|]; [|split; discriminate].
  destruct (password_ok u pw); split; intro; try reflexivity; discriminate.
Qed.

Lemma configured_user_supports users e name pw :
  users_ok users -> configured_user users e name pw = true -> supports_user_pass users e = true.
Proof.
  intros [Hpos _]. unfold configured_user.
  destruct (find _ _) as [u|] eqn:F; [|discriminate]. intros _.
  apply find_some in F as [Hin Hp]. apply andb_true_iff in Hp as [Hx _].
  apply in_ep_users in Hin as [id [Hid Hl]].
  unfold supports_user_pass. apply existsb_exists. exists id. split; [exact Hid|].
  rewrite Hl. apply lookup_some in Hl as [Hu Heq]. apply Hpos in Hu.
  apply andb_true_iff. split; [|exact Hx]. apply negb_true_iff. apply Z.eqb_neq. lia.
Qed.

(* ---------- the thumbprint loop ---------- *)
Lemma thumb_loop_accept users e cert :
  thumb_loop users cert (e_ids e) = 0 <-> configured_thumb users e cert = true.
Proof.
  unfold configured_thumb, ep_users. induction (e_ids e) as [|id rest IH]; cbn [thumb_loop flat_map existsb].
  - split; discriminate.
  - destruct (lookup users id) as [u|]; cbn [app existsb]; [|exact IH].
    destruct (u_thumb u) as [t|]; [|cbn [orb]; exact IH].
    destruct (t =? cert); cbn [orb]; [split; reflexivity | exact IH].
Qed.

Lemma thumb_loop_codes users cert ids : thumb_loop users cert ids = 0 \/ thumb_loop users cert ids = 1.
Proof.
  induction ids as [|id rest IH]; cbn [thumb_loop]; [right; reflexivity|].
  destruct (lookup users id) as [u|]; [|exact IH].
  destruct (u_thumb u) as [t|]; [|exact IH]. destruct (t =? cert); [left; reflexivity | exact IH].
Qed.

Lemma configured_thumb_supports users e cert :
  users_ok users -> configured_thumb users e cert = true -> supports_x509 users e = true.
Proof.
  intros [Hpos Hth]. unfold configured_thumb. intro H. apply existsb_exists in H as [u [Hin Ht]].
  apply in_ep_users in Hin as [id [Hid Hl]].
  unfold supports_x509. apply existsb_exists. exists id. split; [exact Hid|].
  rewrite Hl. apply lookup_some in Hl as [Hu Heq].
  apply andb_true_iff. split.
  - apply negb_true_iff. apply Z.eqb_neq. apply Hpos in Hu. lia.
  - apply Hth in Hu. unfold thumb_only_x509 in Hu. destruct (u_thumb u); [exact Hu | discriminate].
Qed.

(* ---------- accepted <-> configured, for every token ---------- *)
Lemma token_password_supplied f bound cur pw :
  token_password f bound cur = inl pw <-> supplied_password f bound cur = Some pw.
Proof.
  destruct f as [p| |p|a p n p0]; cbn [token_password supplied_password]; try (split; intro H; inversion H; reflexivity); try (split; discriminate).
  destruct a, p; cbn [alg_known alg_names negb andb]; try (split; discriminate);
    destruct (nonce_of n bound =? cur); split; intro H; inversion H; reflexivity.
Qed.

Lemma token_password_class f bound cur cls : token_password f bound cur = inr cls -> cls <> 0.
Proof.
  destruct f as [p| |p|a p n p0]; cbn [token_password]; try discriminate.
  - intro H; inversion H; lia.
  - destruct (negb (alg_known a)); [intro H; inversion H; lia|].
    destruct (alg_names a p && _); [discriminate | intro H; inversion H; lia].
Qed.

Theorem accept_iff_configured c t bound cur :
  users_ok (c_users c) -> (authenticate c t bound cur = 0 <-> spec_accept c t bound cur = true).
Proof.
  intro Hok. unfold authenticate, spec_accept, the_endpoint.
  destruct (find_endpoint _ _ _ _) as [e|]; [|split; discriminate].
  destruct t as [|p|p name f|p cert s|p|].
  - unfold auth_anonymous. cbn [pid_eqb negb]. destruct (supports_anonymous e); cbn; split; congruence.
  - unfold auth_anonymous. destruct (pid_eqb p PidAnonymous); cbn [negb andb]; [|split; discriminate].
    destruct (supports_anonymous e); cbn; split; congruence.
  - unfold auth_user. destruct name as [nm|].
    + destruct (pid_eqb p (user_pass_pid e)) eqn:Hp; cbn [negb andb].
      * destruct (token_password f bound cur) as [pw|cls] eqn:Htp.
        -- apply token_password_supplied in Htp. rewrite Htp.
           destruct (supports_user_pass (c_users c) e) eqn:Hs; cbn [negb].
           ++ apply user_loop_accept.
           ++ split; [discriminate|]. intro H. apply configured_user_supports in H; [congruence | exact Hok].
        -- assert (Hn : supplied_password f bound cur = None).
           { destruct (supplied_password f bound cur) as [pw|] eqn:E; [|reflexivity].
             apply token_password_supplied in E. congruence. }
           rewrite Hn. apply token_password_class in Htp.
           destruct (supports_user_pass (c_users c) e); cbn [negb]; split; try discriminate; intro; contradiction.
      * destruct (supports_user_pass (c_users c) e); cbn [negb]; split; discriminate.
    + destruct (supports_user_pass (c_users c) e); cbn [negb]; [|split; discriminate].
      destruct (pid_eqb p (user_pass_pid e)); cbn [negb]; split; discriminate.
  - unfold auth_x509. destruct (pid_eqb p PidX509); cbn [negb andb].
    + destruct (sig_ok cert s bound cur); cbn [andb].
      * destruct (supports_x509 (c_users c) e) eqn:Hs; cbn [negb].
        -- apply thumb_loop_accept.
        -- split; [discriminate|]. intro H. apply configured_thumb_supports in H; [congruence | exact Hok].
      * destruct (supports_x509 (c_users c) e); cbn [negb]; split; discriminate.
    + destruct (supports_x509 (c_users c) e); cbn [negb]; split; discriminate.
  - unfold auth_x509. destruct (supports_x509 (c_users c) e); cbn [negb]; [|split; discriminate].
    destruct (pid_eqb p PidX509); cbn [negb]; split; discriminate.
  - split; discriminate.
Qed.

(* ---------- the three sentences of the property ---------- *)
Theorem anonymous_only_if_allowed c t bound cur :
  (t = TNull \/ exists p, t = TAnon p) -> authenticate c t bound cur = 0 ->
  exists e, the_endpoint c = Some e /\ In 0 (e_ids e).
Proof.
  intros Ht H. unfold authenticate in H. unfold the_endpoint.
  destruct (find_endpoint _ _ _ _) as [e|]; [|discriminate]. exists e. split; [reflexivity|].
  assert (Hs : supports_anonymous e = true).
  { destruct Ht as [->|[p ->]]; unfold auth_anonymous in H.
    - cbn [pid_eqb negb] in H. destruct (supports_anonymous e); [reflexivity | discriminate].
    - destruct (pid_eqb p PidAnonymous); cbn [negb] in H; [|discriminate].
      destruct (supports_anonymous e); [reflexivity | discriminate]. }
  unfold supports_anonymous in Hs. apply existsb_exists in Hs as [x [Hx Hz]]. apply Z.eqb_eq in Hz. subst x. exact Hx.
Qed.

Theorem user_only_if_configured c p name f bound cur :
  users_ok (c_users c) -> authenticate c (TUser p name f) bound cur = 0 ->
  exists e nm pw u, the_endpoint c = Some e /\ name = Some nm /\
    supplied_password f bound cur = Some pw /\
    In u (c_users c) /\ In (u_id u) (e_ids e) /\ u_x509 u = false /\ u_name u = nm /\ password_ok u pw = true.
Proof.
  intros Hok H. apply accept_iff_configured in H; [|exact Hok]. unfold spec_accept in H.
  destruct (the_endpoint c) as [e|]; [|discriminate]. destruct name as [nm|]; [|discriminate].
  apply andb_true_iff in H as [_ H].
  destruct (supplied_password f bound cur) as [pw|]; [|discriminate].
  unfold configured_user in H. destruct (find _ _) as [u|] eqn:F; [|discriminate].
  apply find_some in F as [Hin Hp]. apply andb_true_iff in Hp as [Hx Hn].
  apply in_ep_users in Hin as [id [Hid Hl]]. apply lookup_some in Hl as [Hu Heq].
  exists e, nm, pw, u. repeat split; try assumption.
  - subst id. exact Hid.
  - apply negb_true_iff in Hx. exact Hx.
  - apply Z.eqb_eq in Hn. exact Hn.
Qed.

(* completeness for user names: if the user/password tokens of the endpoint have distinct user
   names, every configured (name, password) is accepted when sent with the right policy id *)
Theorem user_if_configured c e u name pw f bound cur :
  users_ok (c_users c) -> the_endpoint c = Some e ->
  lookup (c_users c) (u_id u) = Some u -> In (u_id u) (e_ids e) -> u_x509 u = false -> u_name u = name ->
  (forall v, In v (ep_users (c_users c) e) -> u_x509 v = false -> u_name v = name -> v = u) ->
  password_ok u pw = true -> supplied_password f bound cur = Some pw ->
  authenticate c (TUser (user_pass_pid e) (Some name) f) bound cur = 0.
Proof.
  intros Hok He Hl Hid Hx Hn Huniq Hpw Hs. apply accept_iff_configured; [exact Hok|].
  unfold spec_accept. rewrite He, Hs.
  assert (Hp : pid_eqb (user_pass_pid e) (user_pass_pid e) = true) by (destruct (user_pass_pid e); reflexivity).
  rewrite Hp. cbn [andb]. unfold configured_user.
  destruct (find _ _) as [v|] eqn:F.
  - apply find_some in F as [Hin Hv]. apply andb_true_iff in Hv as [Hvx Hvn].
    apply negb_true_iff in Hvx. apply Z.eqb_eq in Hvn.
    rewrite (Huniq v Hin Hvx Hvn). exact Hpw.
  - exfalso. assert (Hin : In u (ep_users (c_users c) e)) by (apply in_ep_users; exists (u_id u); auto).
    apply (find_none _ _ F) in Hin. rewrite Hx, Hn, Z.eqb_refl in Hin. discriminate.
Qed.

Theorem x509_only_if_configured c p cert s bound cur :
  users_ok (c_users c) -> authenticate c (TX509 p cert s) bound cur = 0 ->
  exists e u, the_endpoint c = Some e /\ sig_ok cert s bound cur = true /\
    In u (c_users c) /\ In (u_id u) (e_ids e) /\ u_thumb u = Some cert.
Proof.
  intros Hok H. apply accept_iff_configured in H; [|exact Hok]. unfold spec_accept in H.
  destruct (the_endpoint c) as [e|]; [|discriminate].
  apply andb_true_iff in H as [H Ht]. apply andb_true_iff in H as [_ Hs].
  unfold configured_thumb in Ht. apply existsb_exists in Ht as [u [Hin Hu]].
  apply in_ep_users in Hin as [id [Hid Hl]]. apply lookup_some in Hl as [Hu' Heq].
  exists e, u. repeat split; try assumption.
  - subst id. exact Hid.
  - destruct (u_thumb u) as [t|]; [|discriminate]. apply Z.eqb_eq in Hu. congruence.
Qed.

Theorem x509_if_configured c e u cert s bound cur :
  users_ok (c_users c) -> the_endpoint c = Some e ->
  lookup (c_users c) (u_id u) = Some u -> In (u_id u) (e_ids e) -> u_thumb u = Some cert ->
  sig_ok cert s bound cur = true ->
  authenticate c (TX509 PidX509 cert s) bound cur = 0.
Proof.
  intros Hok He Hl Hid Ht Hs. apply accept_iff_configured; [exact Hok|].
  unfold spec_accept. rewrite He, Hs. cbn [pid_eqb andb].
  unfold configured_thumb. apply existsb_exists. exists u. split.
  - apply in_ep_users. exists (u_id u). auto.
  - rewrite Ht. apply Z.eqb_refl.
Qed.

(* a password encrypted for another nonce than the session's current one is rejected; so is an
   X.509 token whose signature covers another nonce *)
Theorem stale_password_rejected c p name a pd pw bound cur :
  bound <> cur -> authenticate c (TUser p name (Enc a pd NCur pw)) bound cur <> 0.
Proof.
  intros Hne H. unfold authenticate in H. destruct (find_endpoint _ _ _ _) as [e|]; [|discriminate].
  unfold auth_user in H. destruct (negb (supports_user_pass _ _)); [discriminate|].
  destruct (negb (pid_eqb _ _)); [discriminate|]. destruct name; [|discriminate].
  cbn [token_password nonce_of] in H. destruct (negb (alg_known a)); [discriminate|].
  assert (E : (bound =? cur) = false) by (apply Z.eqb_neq; exact Hne).
  rewrite E, andb_false_r in H. discriminate.
Qed.

Theorem stale_x509_rejected c p cert key sha1 intact bound cur :
  bound <> cur -> authenticate c (TX509 p cert (Sig key sha1 NCur intact)) bound cur <> 0.
Proof.
  intros Hne H. unfold authenticate in H. destruct (find_endpoint _ _ _ _) as [e|]; [|discriminate].
  unfold auth_x509 in H. destruct (negb (supports_x509 _ _)); [discriminate|].
  destruct (negb (pid_eqb _ _)); [discriminate|].
  cbn [sig_ok nonce_of] in H.
  assert (E : (bound =? cur) = false) by (apply Z.eqb_neq; exact Hne).
  rewrite E, andb_false_r, andb_false_l in H. discriminate.
Qed.

(* ---------- histories ---------- *)
Definition resolve (s : step) (cur : Z) (sent : list (token * Z)) : token * Z :=
  match s with
  | Fresh t => (t, cur)
  | Replay j => match nth_sent sent (Z.to_nat j) with Some x => x | None => (TOther, -1) end
  end.

Lemma spec_steps_run c : users_ok (c_users c) ->
  forall steps cur next maxn sent, maxn < next -> cur < next ->
  spec_steps c steps (run_steps true c steps cur next sent) cur maxn sent = true.
Proof.
  intros Hok. induction steps as [|s rest IH]; intros cur next maxn sent Hm Hc; [reflexivity|].
  cbn [run_steps spec_steps].
  change (match s with
          | Fresh t => (t, cur)
          | Replay j => match nth_sent sent (Z.to_nat j) with Some x => x | None => (TOther, -1) end
          end) with (resolve s cur sent).
  destruct (resolve s cur sent) as [t bound].
  cbv zeta. cbn [orb].
  destruct (authenticate c t bound cur =? 0) eqn:Hr; cbn [spec_steps]; rewrite ?Hr.
  - apply Z.eqb_eq in Hr.
    assert (Hs : spec_accept c t bound cur = true) by (apply accept_iff_configured; assumption).
    rewrite Hs. cbn [Bool.eqb andb].
    assert (Hlt : (maxn <? next) = true) by (apply Z.ltb_lt; exact Hm). rewrite Hlt. cbn [andb].
    apply IH; lia.
  - assert (Hs : spec_accept c t bound cur = false).
    { destruct (spec_accept c t bound cur) eqn:E; [|reflexivity].
      apply accept_iff_configured in E; [|exact Hok]. apply Z.eqb_neq in Hr. contradiction. }
    rewrite Hs. cbn [Bool.eqb andb]. rewrite Z.eqb_refl. cbn [andb].
    apply IH; lia.
Qed.

Theorem oracle_holds c : valid c = true -> oracle c (run c) = true.
Proof.
  intro Hv. unfold oracle, run, run_with.
  destruct (existsb _ _); [|reflexivity].
  rewrite Z.eqb_refl. cbn [andb]. apply spec_steps_run; [apply valid_users_ok; exact Hv | lia | lia].
Qed.

(* before the fix: on a SecurityPolicy None channel a password encrypted once was accepted again *)
Definition legacy_witness : case :=
  mk_case [mk_ep 0 PNone 1 (Some PBasic256Sha256) [1]] [mk_user 1 0 (Some 1) false None] 0 PNone 1
          [Fresh (TUser PidOaep (Some 0) (Enc AlgOaep OaepSha1 NCur 1)); Replay 0].
Theorem legacy_refuted :
  valid legacy_witness = true /\ oracle legacy_witness (Legacy.run legacy_witness) = false /\
  Legacy.run legacy_witness = [0; 0; 0; 0; 0].
Proof. vm_compute. repeat split. Qed.
