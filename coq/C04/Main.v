(* C04 — the oracle theorem, totality of the parsers, refutations of the legacy code and of the
   known class *)
From Coq Require Import String List ZArith Bool Lia.
From OV Require Import C04.Text C04.TextProofs C04.Date C04.Calendar C04.DateProofs C04.Model C04.Proofs.
Import ListNotations.
Open Scope Z_scope.

(* ---- no parser panics ---------------------------------------------------------------------------- *)
Lemma ident_body_no_panic : forall c0 c1 v, ident_body c0 c1 v <> Panic.
Proof.
  intros c0 c1 v. unfold ident_body.
  destruct (c1 =? 61); [|discriminate].
  destruct (c0 =? 105); [destruct (parse_uint U32MAX v); discriminate|].
  destruct (c0 =? 115); [discriminate|].
  destruct (c0 =? 103); [destruct (parse_guid v); discriminate|].
  destruct (c0 =? 98); [destruct (b64_decode v); discriminate|]. discriminate.
Qed.

Theorem ident_from_str_total : forall s, ident_from_str s <> Panic.
Proof.
  intro s. unfold ident_from_str, ident_from_str_gen.
  destruct (utf8len s <? 2); [discriminate|].
  destruct s as [|c0 t]; [discriminate|].
  destruct (u8len1 c0 =? 2); [discriminate|].
  destruct (2 <? u8len1 c0); [discriminate|].
  destruct t as [|c1 v]; [discriminate|].
  destruct (1 <? u8len1 c1); [discriminate|]. apply ident_body_no_panic.
Qed.

Theorem node_from_str_total : forall s, node_from_str s <> Panic.
Proof.
  intro s. unfold node_from_str, node_from_str_gen.
  destruct (re_node true s) as [[ons t]|]; [|discriminate].
  destruct (match ons with Some d => parse_uint U16MAX d | None => Some 0 end); [|discriminate].
  pose proof (ident_from_str_total t) as T. unfold ident_from_str in T.
  destruct (ident_from_str_gen true t); [discriminate | discriminate | congruence].
Qed.

Theorem enode_from_str_total : forall s, enode_from_str s <> Panic.
Proof.
  intro s. unfold enode_from_str, enode_from_str_gen.
  destruct (re_enode true true s) as [[[[svr ons] onsu] t]|]; [|discriminate].
  destruct (parse_uint U32MAX svr); [|discriminate].
  destruct (match ons with Some d => parse_uint U16MAX d | None => Some 0 end); [|discriminate].
  pose proof (ident_from_str_total t) as T. unfold ident_from_str in T.
  destruct (ident_from_str_gen true t); [discriminate | discriminate | congruence].
Qed.

(* ---- the oracle holds on the model's output -------------------------------------------------------- *)
Lemma after_str_enc : forall s r, after_str (enc_str s ++ r) = r.
Proof. intros s r. unfold after_str, enc_str. cbn [app]. apply after_enc_str. Qed.

Lemma andb_split : forall a b, a && b = true -> a = true /\ b = true.
Proof. intros a b H. apply andb_true_iff. exact H. Qed.

Lemma u16b_range : forall v, u16b v = true -> 0 <= v <= 65535.
Proof. intros v H. unfold u16b, U16MAX in H. apply andb_true_iff in H as [A B]. lia. Qed.
Lemma u32b_range : forall v, u32b v = true -> 0 <= v <= 4294967295.
Proof. intros v H. unfold u32b, U32MAX in H. apply andb_true_iff in H as [A B]. lia. Qed.

Theorem oracle_holds : forall c, valid c -> known c = 0 -> oracle c (run c) = true.
Proof.
  intros c V K. unfold valid in V. destruct c as [ns id | svr uri ns id | b | r | t | w s aux].
  - (* NodeId *)
    unfold oracle. rewrite V. cbn [validb] in V. apply andb_split in V as [V1 V2].
    cbn [run]. rewrite after_str_enc. rewrite node_roundtrip by (apply u16b_range; exact V1) || exact V2.
    apply str_eqb_refl.
  - (* ExpandedNodeId *)
    unfold oracle. rewrite V. cbn [validb] in V.
    apply andb_split in V as [V V4]. apply andb_split in V as [V V3]. apply andb_split in V as [V1 V2].
    cbn [run]. rewrite after_str_enc. rewrite enode_roundtrip.
    + apply str_eqb_refl.
    + apply u32b_range; exact V1.
    + apply u16b_range; exact V2.
    + exact V3.
    + destruct uri as [[|u0 u]|]; [discriminate | apply Z.eqb_eq; exact V4 | exact I].
  - (* Guid *)
    unfold oracle. rewrite V. cbn [validb] in V. apply andb_split in V as [V1 V2].
    cbn [run]. rewrite after_str_enc. rewrite guid_roundtrip by (apply Nat.eqb_eq; exact V1) || exact V2.
    apply str_eqb_refl.
  - (* NumericRange *)
    unfold oracle. rewrite V. cbn [run]. rewrite after_str_enc.
    assert (RT : nrange_from_str (print_nrange r) = Some r /\ nrange_is_valid r = true).
    { destruct r as [|x|l]; cbn [validb] in V.
      - split; reflexivity.
      - split; [apply nrange_roundtrip; exact V|]. cbn [nrange_is_valid].
        destruct x as [i|a b0]; [reflexivity|]. cbn [nr1_wf] in V. apply andb_split in V as [_ V]. exact V.
      - cbn [known] in K.
        destruct (Nat.ltb (length l) 2 || Nat.ltb 10 (length l)) eqn:E; [discriminate|].
        apply orb_false_iff in E as [E1 E2]. apply Nat.ltb_ge in E1, E2.
        split; [apply nrange_roundtrip; split; [exact V | lia]|].
        cbn [nrange_is_valid]. clear -V. induction l as [|x l IH]; [reflexivity|].
        cbn [forallb] in *. apply andb_split in V as [V1 V2]. rewrite (IH V2), andb_true_r.
        destruct x as [i|a b0]; [reflexivity|]. cbn [nr1_wf] in V1. apply andb_split in V1 as [_ V1]. exact V1. }
    destruct RT as [RT1 RT2]. rewrite RT1, RT2. cbn [of_opt enc_res]. cbn [app]. apply str_eqb_refl.
  - (* DateTime *)
    unfold oracle. rewrite V. cbn [validb] in V. apply andb_split in V as [V1 V2].
    apply Z.leb_le in V1, V2. assert (H : 0 <= t <= END_TICKS) by lia.
    cbn [run]. rewrite after_str_enc.
    rewrite date_display_roundtrip, date_rfc3339_roundtrip by exact H.
    rewrite dt_from_ticks_inrange by exact H. cbn [of_opt enc_res enc_dt fst snd app firstn skipn].
    apply andb_true_iff. split.
    + apply str_eqb_refl.
    + rewrite after_str_enc.
      replace (t mod 10000000 * 100 / 1000000 * 1000000) with (t mod 10000000 / 10000 * 1000000) by zdm.
      apply str_eqb_refl.
  - (* arbitrary strings: no panic *)
    unfold oracle. cbn [run].
    repeat match goal with |- context [if ?b then _ else _] => destruct b end;
      try (match goal with |- context [of_opt ?o] => destruct o; reflexivity end).
    + pose proof (node_from_str_total s) as T. destruct (node_from_str s); [reflexivity | reflexivity | congruence].
    + pose proof (enode_from_str_total s) as T. destruct (enode_from_str s); [reflexivity | reflexivity | congruence].
    + pose proof (ident_from_str_total s) as T. destruct (ident_from_str s); [reflexivity | reflexivity | congruence].
Qed.

(* ---- the known class and the code before the fixes are refuted -------------------------------------- *)
Theorem known_1_refuted : exists c, valid c /\ known c = 1 /\ oracle c (run c) = false.
Proof. exists (CRange (NRMulti [Idx 1])). split; [reflexivity|]. split; vm_compute; reflexivity. Qed.

Theorem known_1_refuted_many : exists c, valid c /\ known c = 1 /\ oracle c (run c) = false.
Proof.
  exists (CRange (NRMulti [Idx 0; Idx 1; Idx 2; Idx 3; Idx 4; Idx 5; Idx 6; Idx 7; Idx 8; Idx 9; Idx 10])).
  split; [reflexivity|]. split; vm_compute; reflexivity.
Qed.

(* ExpandedNodeId { svr 0, no URI, i=5 }: printed `svr=0;i=5`, rejected by the old regex *)
Theorem legacy_enode_refuted :
  Legacy.enode_from_str (print_enode (mk_enode 0 None (mk_node 0 (INum 5)))) = Err.
Proof. vm_compute. reflexivity. Qed.

(* NodeId ns=2;s="a\nb" *)
Theorem legacy_node_refuted :
  Legacy.node_from_str (print_node (mk_node 2 (IStr (Some [97; 10; 98])))) = Err.
Proof. vm_compute. reflexivity. Qed.

(* Identifier::from_str("aé") *)
Theorem legacy_ident_refuted : Legacy.ident_from_str [97; 233] = Panic.
Proof. vm_compute. reflexivity. Qed.
