From Coq Require Import List ZArith Bool Lia.
Import ListNotations.
From OV Require Import C20.Model.
Open Scope Z_scope.

(* ---------- lookups ---------- *)
Lemma lookup_some users id u : lookup users id = Some u -> In u users /\ u_id u = id.
Proof.
  unfold lookup. intro H. apply find_some in H as [H1 H2]. apply Z.eqb_eq in H2. auto.
Qed.

Definition users_ok (users : list user) : Prop :=
  (forall u, In u users -> 0 < u_id u) /\ (forall u, In u users -> thumb_only_x509 u = true).

Lemma valid_users_ok c : valid c = true -> users_ok (c_users c).
Proof.
  unfold valid. intro H.
  apply andb_true_iff in H as [H _]. apply andb_true_iff in H as [H Hth]. apply andb_true_iff in H as [_ Hpos].
  split; intros u Hu.
  - rewrite forallb_forall in Hpos. apply Hpos in Hu. apply Z.ltb_lt in Hu. exact Hu.
  - rewrite forallb_forall in Hth. apply Hth in Hu. exact Hu.
Qed.

Lemma in_ep_users users e u :
  In u (ep_users users e) <-> exists id, In id (e_ids e) /\ lookup users id = Some u.
Proof.
  unfold ep_users. rewrite in_flat_map. split.
  - intros [id [Hi Hu]]. exists id. split; [exact Hi|].
    destruct (lookup users id) as [v|]; cbn in Hu; [|contradiction].
    destruct Hu as [->|[]]. reflexivity.
  - intros [id [Hi Hl]]. exists id. split; [exact Hi|]. rewrite Hl. left. reflexivity.
Qed.

(* ---------- the user name loop = "the first token with that name decides" ---------- *)
Lemma user_loop_spec users name pw ids :
  user_loop users name pw ids =
  match find (fun u => negb (u_x509 u) && (u_name u =? name))
             (flat_map (fun id => match lookup users id with Some u => [u] | None => [] end) ids) with
  | Some u => if password_ok u pw then 0 else 3
  | None => 3
  end.
Proof.
  induction ids as [|id rest IH]; cbn [user_loop flat_map]; [reflexivity|].
  destruct (lookup users id) as [u|]; cbn [app find].
  - destruct (negb (u_x509 u) && (u_name u =? name)); [reflexivity | exact IH].
  - exact IH.
Qed.

Lemma user_loop_accept users e name pw :
  user_loop users name pw (e_ids e) = 0 <-> configured_user users e name pw = true.
Proof.
  rewrite user_loop_spec. unfold configured_user, ep_users.
  destruct (find _ _) as [u|]; [|split; discriminate].
  destruct (password_ok u pw); split; intro; try reflexivity; discriminate.
Qed.

Lemma configured_user_supports users e name pw :
  users_ok users -> configured_user users e name pw = true -> supports_user_pass users e = true.
Proof.
  intros [Hpos _]. unfold configured_user.
  destruct (find _ _) as [u|] eqn:F; [|discriminate]. intros _.
  apply find_some in F as [Hin Hp]. apply andb_true_iff in Hp as [Hx _].
  apply in_ep_users in Hin as [id [Hid Hl]].
  unfold supports_user_pass. apply existsb_exists. exists id. split; [exact Hid|].
  rewrite Hl. apply lookup_some in Hl as [Hu Heq]. apply Hpos in Hu.
  apply andb_true_iff. split; [|exact Hx]. apply negb_true_iff. apply Z.eqb_neq. lia.
Qed.

(* ---------- the thumbprint loop ---------- *)
Lemma thumb_loop_accept users e cert :
  thumb_loop users cert (e_ids e) = 0 <-> configured_thumb users e cert = true.
Proof.
  unfold configured_thumb, ep_users. induction (e_ids e) as [|id rest IH]; cbn [thumb_loop flat_map existsb].
  - split; discriminate.
  - destruct (lookup users id) as [u|]; cbn [app existsb]; [|exact IH].
    destruct (u_thumb u) as [t|]; [|cbn [orb]; exact IH].
    destruct (t =? cert); cbn [orb]; [split; reflexivity | exact IH].
Qed.

Lemma thumb_loop_codes users cert ids : thumb_loop users cert ids = 0 \/ thumb_loop users cert ids = 1.
Proof.
  induction ids as [|id rest IH]; cbn [thumb_loop]; [right; reflexivity|].
  destruct (lookup users id) as [u|]; [|exact IH].
  destruct (u_thumb u) as [t|]; [|exact IH]. destruct (t =? cert); [left; reflexivity | exact IH].
Qed.

Lemma configured_thumb_supports users e cert :
  users_ok users -> configured_thumb users e cert = true -> supports_x509 users e = true.
Proof.
  intros [Hpos Hth]. unfold configured_thumb. intro H. apply existsb_exists in H as [u [Hin Ht]].
  apply in_ep_users in Hin as [id [Hid Hl]].
  unfold supports_x509. apply existsb_exists. exists id. split; [exact Hid|].
  rewrite Hl. apply lookup_some in Hl as [Hu Heq].
  apply andb_true_iff. split.
  - apply negb_true_iff. apply Z.eqb_neq. apply Hpos in Hu. lia.
  - apply Hth in Hu. unfold thumb_only_x509 in Hu. destruct (u_thumb u); [exact Hu | discriminate].
Qed.

(* ---------- accepted <-> configured, for every token ---------- *)
Lemma token_password_supplied f bound cur pw :
  token_password f bound cur = inl pw <-> supplied_password f bound cur = Some pw.
Proof.
  destruct f as [p| |p|a p n p0]; cbn [token_password supplied_password]; try (split; intro H; inversion H; reflexivity); try (split; discriminate).
  destruct a, p; cbn [alg_known alg_names negb andb]; try (split; discriminate);
    destruct (nonce_of n bound =? cur); split; intro H; inversion H; reflexivity.
Qed.

Lemma token_password_class f bound cur cls : token_password f bound cur = inr cls -> cls <> 0.
Proof.
  destruct f as [p| |p|a p n p0]; cbn [token_password]; try discriminate.
  - intro H; inversion H; lia.
  - destruct (negb (alg_known a)); [intro H; inversion H; lia|].
    destruct (alg_names a p && _); [discriminate | intro H; inversion H; lia].
Qed.

Theorem accept_iff_configured c t bound cur :
  users_ok (c_users c) -> (authenticate c t bound cur = 0 <-> spec_accept c t bound cur = true).
Proof.
  intro Hok. unfold authenticate, spec_accept, the_endpoint.
  destruct (find_endpoint _ _ _ _) as [e|]; [|split; discriminate].
  destruct t as [|p|p name f|p cert s|p|].
  - unfold auth_anonymous. cbn [pid_eqb negb]. destruct (supports_anonymous e); cbn; split; congruence.
  - unfold auth_anonymous. destruct (pid_eqb p PidAnonymous); cbn [negb andb]; [|split; discriminate].
    destruct (supports_anonymous e); cbn; split; congruence.
  - unfold auth_user. destruct name as [nm|].
    + destruct (pid_eqb p (user_pass_pid e)) eqn:Hp; cbn [negb andb].
      * destruct (token_password f bound cur) as [pw|cls] eqn:Htp.
        -- apply token_password_supplied in Htp. rewrite Htp.
           destruct (supports_user_pass (c_users c) e) eqn:Hs; cbn [negb].
           ++ apply user_loop_accept.
           ++ split; [discriminate|]. intro H. apply configured_user_supports in H; [congruence | exact Hok].
        -- assert (Hn : supplied_password f bound cur = None).
           { destruct (supplied_password f bound cur) as [pw|] eqn:E; [|reflexivity].
             apply token_password_supplied in E. congruence. }
           rewrite Hn. apply token_password_class in Htp.
           destruct (supports_user_pass (c_users c) e); cbn [negb]; split; try discriminate; intro; contradiction.
      * destruct (supports_user_pass (c_users c) e); cbn [negb]; split; discriminate.
    + destruct (supports_user_pass (c_users c) e); cbn [negb]; [|split; discriminate].
      destruct (pid_eqb p (user_pass_pid e)); cbn [negb]; split; discriminate.
  - unfold auth_x509. destruct (pid_eqb p PidX509); cbn [negb andb].
    + destruct (sig_ok cert s bound cur); cbn [andb].
      * destruct (supports_x509 (c_users c) e) eqn:Hs; cbn [negb].
        -- apply thumb_loop_accept.
        -- split; [discriminate|]. intro H. apply configured_thumb_supports in H; [congruence | exact Hok].
      * destruct (supports_x509 (c_users c) e); cbn [negb]; split; discriminate.
    + destruct (supports_x509 (c_users c) e); cbn [negb]; split; discriminate.
  - unfold auth_x509. destruct (supports_x509 (c_users c) e); cbn [negb]; [|split; discriminate].
    destruct (pid_eqb p PidX509); cbn [negb]; split; discriminate.
  - split; discriminate.
Qed.

(* ---------- the three sentences of the property ---------- *)
Theorem anonymous_only_if_allowed c t bound cur :
  (t = TNull \/ exists p, t = TAnon p) -> authenticate c t bound cur = 0 ->
  exists e, the_endpoint c = Some e /\ In 0 (e_ids e).
Proof.
  intros Ht H. unfold authenticate in H. unfold the_endpoint.
  destruct (find_endpoint _ _ _ _) as [e|]; [|discriminate]. exists e. split; [reflexivity|].
  assert (Hs : supports_anonymous e = true).
  { destruct Ht as [->|[p ->]]; unfold auth_anonymous in H.
    - cbn [pid_eqb negb] in H. destruct (supports_anonymous e); [reflexivity | discriminate].
    - destruct (pid_eqb p PidAnonymous); cbn [negb] in H; [|discriminate].
      destruct (supports_anonymous e); [reflexivity | discriminate]. }
  unfold supports_anonymous in Hs. apply existsb_exists in Hs as [x [Hx Hz]]. apply Z.eqb_eq in Hz. subst x. exact Hx.
Qed.

Theorem user_only_if_configured c p name f bound cur :
  users_ok (c_users c) -> authenticate c (TUser p name f) bound cur = 0 ->
  exists e nm pw u, the_endpoint c = Some e /\ name = Some nm /\
    supplied_password f bound cur = Some pw /\
    In u (c_users c) /\ In (u_id u) (e_ids e) /\ u_x509 u = false /\ u_name u = nm /\ password_ok u pw = true.
Proof.
  intros Hok H. apply accept_iff_configured in H; [|exact Hok]. unfold spec_accept in H.
  destruct (the_endpoint c) as [e|]; [|discriminate]. destruct name as [nm|]; [|discriminate].
  apply andb_true_iff in H as [_ H].
  destruct (supplied_password f bound cur) as [pw|]; [|discriminate].
  unfold configured_user in H. destruct (find _ _) as [u|] eqn:F; [|discriminate].
  apply find_some in F as [Hin Hp]. apply andb_true_iff in Hp as [Hx Hn].
  apply in_ep_users in Hin as [id [Hid Hl]]. apply lookup_some in Hl as [Hu Heq].
  exists e, nm, pw, u. repeat split; try assumption.
  - subst id. exact Hid.
  - apply negb_true_iff in Hx. exact Hx.
  - apply Z.eqb_eq in Hn. exact Hn.
Qed.

(* completeness for user names: if the user/password tokens of the endpoint have distinct user
   names, every configured (name, password) is accepted when sent with the right policy id *)
Theorem user_if_configured c e u name pw f bound cur :
  users_ok (c_users c) -> the_endpoint c = Some e ->
  lookup (c_users c) (u_id u) = Some u -> In (u_id u) (e_ids e) -> u_x509 u = false -> u_name u = name ->
  (forall v, In v (ep_users (c_users c) e) -> u_x509 v = false -> u_name v = name -> v = u) ->
  password_ok u pw = true -> supplied_password f bound cur = Some pw ->
  authenticate c (TUser (user_pass_pid e) (Some name) f) bound cur = 0.
Proof.
  intros Hok He Hl Hid Hx Hn Huniq Hpw Hs. apply accept_iff_configured; [exact Hok|].
  unfold spec_accept. rewrite He, Hs.
  assert (Hp : pid_eqb (user_pass_pid e) (user_pass_pid e) = true) by (destruct (user_pass_pid e); reflexivity).
  rewrite Hp. cbn [andb]. unfold configured_user.
  destruct (find _ _) as [v|] eqn:F.
  - apply find_some in F as [Hin Hv]. apply andb_true_iff in Hv as [Hvx Hvn].
    apply negb_true_iff in Hvx. apply Z.eqb_eq in Hvn.
    rewrite (Huniq v Hin Hvx Hvn). exact Hpw.
  - exfalso. assert (Hin : In u (ep_users (c_users c) e)) by (apply in_ep_users; exists (u_id u); auto).
    apply (find_none _ _ F) in Hin. rewrite Hx, Hn, Z.eqb_refl in Hin. discriminate.
Qed.

Theorem x509_only_if_configured c p cert s bound cur :
  users_ok (c_users c) -> authenticate c (TX509 p cert s) bound cur = 0 ->
  exists e u, the_endpoint c = Some e /\ sig_ok cert s bound cur = true /\
    In u (c_users c) /\ In (u_id u) (e_ids e) /\ u_thumb u = Some cert.
Proof.
  intros Hok H. apply accept_iff_configured in H; [|exact Hok]. unfold spec_accept in H.
  destruct (the_endpoint c) as [e|]; [|discriminate].
  apply andb_true_iff in H as [H Ht]. apply andb_true_iff in H as [_ Hs].
  unfold configured_thumb in Ht. apply existsb_exists in Ht as [u [Hin Hu]].
  apply in_ep_users in Hin as [id [Hid Hl]]. apply lookup_some in Hl as [Hu' Heq].
  exists e, u. repeat split; try assumption.
  - subst id. exact Hid.
  - destruct (u_thumb u) as [t|]; [|discriminate]. apply Z.eqb_eq in Hu. congruence.
Qed.

Theorem x509_if_configured c e u cert s bound cur :
  users_ok (c_users c) -> the_endpoint c = Some e ->
  lookup (c_users c) (u_id u) = Some u -> In (u_id u) (e_ids e) -> u_thumb u = Some cert ->
  sig_ok cert s bound cur = true ->
  authenticate c (TX509 PidX509 cert s) bound cur = 0.
Proof.
  intros Hok He Hl Hid Ht Hs. apply accept_iff_configured; [exact Hok|].
  unfold spec_accept. rewrite He, Hs. cbn [pid_eqb andb].
  unfold configured_thumb. apply existsb_exists. exists u. split.
  - apply in_ep_users. exists (u_id u). auto.
  - rewrite Ht. apply Z.eqb_refl.
Qed.

(* a password encrypted for another nonce than the session's current one is rejected; so is an
   X.509 token whose signature covers another nonce *)
Theorem stale_password_rejected c p name a pd pw bound cur :
  bound <> cur -> authenticate c (TUser p name (Enc a pd NCur pw)) bound cur <> 0.
Proof.
  intros Hne H. unfold authenticate in H. destruct (find_endpoint _ _ _ _) as [e|]; [|discriminate].
  unfold auth_user in H. destruct (negb (supports_user_pass _ _)); [discriminate|].
  destruct (negb (pid_eqb _ _)); [discriminate|]. destruct name; [|discriminate].
  cbn [token_password nonce_of] in H. destruct (negb (alg_known a)); [discriminate|].
  assert (E : (bound =? cur) = false) by (apply Z.eqb_neq; exact Hne).
  rewrite E, andb_false_r in H. discriminate.
Qed.

Theorem stale_x509_rejected c p cert key sha1 intact bound cur :
  bound <> cur -> authenticate c (TX509 p cert (Sig key sha1 NCur intact)) bound cur <> 0.
Proof.
  intros Hne H. unfold authenticate in H. destruct (find_endpoint _ _ _ _) as [e|]; [|discriminate].
  unfold auth_x509 in H. destruct (negb (supports_x509 _ _)); [discriminate|].
  destruct (negb (pid_eqb _ _)); [discriminate|].
  cbn [sig_ok nonce_of] in H.
  assert (E : (bound =? cur) = false) by (apply Z.eqb_neq; exact Hne).
  rewrite E, andb_false_r, andb_false_l in H. discriminate.
Qed.

(* ---------- histories ---------- *)
Definition resolve (s : step) (cur : Z) (sent : list (token * Z)) : token * Z :=
  match s with
  | Fresh t => (t, cur)
  | Replay j => match nth_sent sent (Z.to_nat j) with Some x => x | None => (TOther, -1) end
  end.

Lemma spec_steps_run c : users_ok (c_users c) ->
  forall steps cur next maxn sent, maxn < next -> cur < next ->
  spec_steps c steps (run_steps true c steps cur next sent) cur maxn sent = true.
Proof.
  intros Hok. induction steps as [|s rest IH]; intros cur next maxn sent Hm Hc; [reflexivity|].
  cbn [run_steps spec_steps].
  change (match s with
          | Fresh t => (t, cur)
          | Replay j => match nth_sent sent (Z.to_nat j) with Some x => x | None => (TOther, -1) end
          end) with (resolve s cur sent).
  destruct (resolve s cur sent) as [t bound].
  cbv zeta. cbn [orb].
  destruct (authenticate c t bound cur =? 0) eqn:Hr; cbn [spec_steps]; rewrite ?Hr.
  - apply Z.eqb_eq in Hr.
    assert (Hs : spec_accept c t bound cur = true) by (apply accept_iff_configured; assumption).
    rewrite Hs. cbn [Bool.eqb andb].
    assert (Hlt : (maxn <? next) = true) by (apply Z.ltb_lt; exact Hm). rewrite Hlt. cbn [andb].
    apply IH; lia.
  - assert (Hs : spec_accept c t bound cur = false).
    { destruct (spec_accept c t bound cur) eqn:E; [|reflexivity].
      apply accept_iff_configured in E; [|exact Hok]. apply Z.eqb_neq in Hr. contradiction. }
    rewrite Hs. cbn [Bool.eqb andb]. rewrite Z.eqb_refl. cbn [andb].
    apply IH; lia.
Qed.

Theorem oracle_holds c : valid c = true -> oracle c (run c) = true.
Proof.
  intro Hv. unfold oracle, run, run_with.
  destruct (existsb _ _); [|reflexivity].
  rewrite Z.eqb_refl. cbn [andb]. apply spec_steps_run; [apply valid_users_ok; exact Hv | lia | lia].
Qed.

(* before the fix: on a SecurityPolicy None channel a password encrypted once was accepted again *)
Definition legacy_witness : case :=
  mk_case [mk_ep 0 PNone 1 (Some PBasic256Sha256) [1]] [mk_user 1 0 (Some 1) false None] 0 PNone 1
          [Fresh (TUser PidOaep (Some 0) (Enc AlgOaep OaepSha1 NCur 1)); Replay 0].
Theorem legacy_refuted :
  valid legacy_witness = true /\ oracle legacy_witness (Legacy.run legacy_witness) = false /\
  Legacy.run legacy_witness = [0; 0; 0; 0; 0].
Proof. vm_compute. repeat split. Qed.

(* ---------- replayed tokens ---------- *)
(* the status codes of a run (every second entry; the others are the nonce numbers) *)
Fixpoint codes (out : list Z) : list Z :=
  match out with r :: _ :: rest => r :: codes rest | _ => [] end.

(* tokens that are bound to the session nonce they were made for *)
Definition nonce_bound (t : token) : bool :=
  match t with
  | TUser _ _ (Enc _ _ NCur _) => true
  | TX509 _ _ (Sig _ _ NCur _) => true
  | _ => false
  end.

Fixpoint end_state (c : case) (steps : list step) (cur next : Z) (sent : list (token * Z)) : Z * Z * list (token * Z) :=
  match steps with
  | [] => (cur, next, sent)
  | s :: rest =>
    let r := authenticate c (fst (resolve s cur sent)) (snd (resolve s cur sent)) cur in
    end_state c rest (if r =? 0 then next else cur) (if r =? 0 then next + 1 else next) (sent ++ [resolve s cur sent])
  end.

Lemma run_steps_cons c s rest cur next sent :
  run_steps true c (s :: rest) cur next sent =
  let r := authenticate c (fst (resolve s cur sent)) (snd (resolve s cur sent)) cur in
  r :: (if r =? 0 then next else cur) ::
  run_steps true c rest (if r =? 0 then next else cur) (if r =? 0 then next + 1 else next) (sent ++ [resolve s cur sent]).
Proof.
  cbn [run_steps].
  change (match s with
          | Fresh t => (t, cur)
          | Replay j => match nth_sent sent (Z.to_nat j) with Some x => x | None => (TOther, -1) end
          end) with (resolve s cur sent).
  destruct (resolve s cur sent) as [t bound]. cbn [fst snd orb]. cbv zeta.
  destruct (authenticate c t bound cur =? 0); reflexivity.
Qed.

Lemma run_steps_app c s1 : forall s2 cur next sent,
  run_steps true c (s1 ++ s2) cur next sent =
  run_steps true c s1 cur next sent ++
  run_steps true c s2 (fst (fst (end_state c s1 cur next sent))) (snd (fst (end_state c s1 cur next sent)))
            (snd (end_state c s1 cur next sent)).
Proof.
  induction s1 as [|s rest IH]; intros s2 cur next sent; [reflexivity|].
  rewrite <- app_comm_cons, !run_steps_cons. cbv zeta. cbn [end_state app]. cbv zeta.
  rewrite IH. reflexivity.
Qed.

Lemma codes_run_app c s1 : forall cur next sent X,
  codes (run_steps true c s1 cur next sent ++ X) = codes (run_steps true c s1 cur next sent) ++ codes X.
Proof.
  induction s1 as [|s rest IH]; intros cur next sent X; [reflexivity|].
  rewrite run_steps_cons. cbv zeta. cbn [app codes]. rewrite IH. reflexivity.
Qed.

Lemma codes_run_length c s1 : forall cur next sent, length (codes (run_steps true c s1 cur next sent)) = length s1.
Proof.
  induction s1 as [|s rest IH]; intros cur next sent; [reflexivity|].
  rewrite run_steps_cons. cbv zeta. cbn [codes length]. rewrite IH. reflexivity.
Qed.

(* nonces only move forward; an accepted step moves past every nonce issued before *)
Lemma end_state_mono c s1 : forall cur next sent, cur < next ->
  let st := end_state c s1 cur next sent in
  cur <= fst (fst st) /\ fst (fst st) < snd (fst st) /\ next <= snd (fst st) /\
  (In 0 (codes (run_steps true c s1 cur next sent)) -> next <= fst (fst st)) /\
  exists ext, snd st = sent ++ ext /\ length ext = length s1.
Proof.
  induction s1 as [|s rest IH]; intros cur next sent Hlt; cbn [end_state]; cbv zeta.
  - cbn [fst snd run_steps codes In]. split; [lia|]. split; [lia|]. split; [lia|]. split; [intros []|].
    exists []. rewrite app_nil_r. auto.
  - rewrite run_steps_cons. cbv zeta. cbn [codes In].
    set (r := authenticate c (fst (resolve s cur sent)) (snd (resolve s cur sent)) cur).
    destruct (r =? 0) eqn:Hr.
    + destruct (IH next (next + 1) (sent ++ [resolve s cur sent]) ltac:(lia)) as [H1 [H2 [H3 [H4 [ext [He Hl]]]]]].
      split; [lia|]. split; [lia|]. split; [lia|]. split; [intros _; lia|].
      exists (resolve s cur sent :: ext). rewrite He, <- app_assoc. cbn [app length]. auto.
    + destruct (IH cur next (sent ++ [resolve s cur sent]) Hlt) as [H1 [H2 [H3 [H4 [ext [He Hl]]]]]].
      split; [lia|]. split; [lia|]. split; [lia|]. split.
      * intros [H0|H0]; [apply Z.eqb_neq in Hr; congruence | apply H4; exact H0].
      * exists (resolve s cur sent :: ext). rewrite He, <- app_assoc. cbn [app length]. auto.
Qed.

Lemma firstn_app_exact {A} (l1 l2 : list A) : firstn (length l1) (l1 ++ l2) = l1.
Proof. rewrite firstn_app, Nat.sub_diag, firstn_O, app_nil_r. apply firstn_all. Qed.

Lemma nth_sent_app (sent : list (token * Z)) x ext : nth_sent (sent ++ x :: ext) (length sent) = Some x.
Proof. induction sent as [|y sent IH]; cbn [app length nth_sent]; [reflexivity | exact IH]. Qed.

Lemma nonce_bound_stale c t bound cur : nonce_bound t = true -> bound <> cur -> authenticate c t bound cur <> 0.
Proof.
  intros Hb Hne. destruct t as [|p|p name f|p cert s|p|]; try discriminate.
  - destruct f as [| | |a pd n pw]; try discriminate. destruct n; [|discriminate]. apply stale_password_rejected. exact Hne.
  - destruct s as [key sha1 n intact]. destruct n; [|discriminate]. apply stale_x509_rejected. exact Hne.
Qed.

(* The last sentence of the property, over histories: take ANY history [pre], then a token bound to
   the nonce of that moment, then ANY further steps [mid], then a replay of that token.  If any
   activation from the original one on has succeeded, the replay is rejected. *)
Theorem replay_rejected c pre t mid :
  nonce_bound t = true ->
  let steps := pre ++ (Fresh t :: mid) ++ [Replay (Z.of_nat (length pre))] in
  let cs := codes (run_steps true c steps 0 1 []) in
  In 0 (firstn (S (length mid)) (skipn (length pre) cs)) ->
  nth (length pre + S (length mid)) cs 1 <> 0.
Proof.
  intros Hb steps cs. subst cs steps.
  rewrite run_steps_app, codes_run_app.
  set (st1 := end_state c pre 0 1 []).
  destruct (end_state_mono c pre 0 1 [] ltac:(lia)) as [_ [Hlt1 [_ [_ [ext1 [He1 Hl1]]]]]]. fold st1 in Hlt1, He1.
  cbn [app] in He1.
  rewrite run_steps_app, codes_run_app.
  set (C1 := codes (run_steps true c pre 0 1 [])).
  set (C2 := codes (run_steps true c (Fresh t :: mid) (fst (fst st1)) (snd (fst st1)) (snd st1))).
  assert (HC1 : length C1 = length pre) by apply codes_run_length.
  assert (HC2 : length C2 = S (length mid)) by (unfold C2; rewrite codes_run_length; reflexivity).
  rewrite skipn_app, skipn_all2 by lia. rewrite HC1, Nat.sub_diag. cbn [skipn app].
  match goal with |- In 0 (firstn _ (C2 ++ ?X)) -> _ =>
    replace (firstn (S (length mid)) (C2 ++ X)) with C2 by (rewrite <- HC2; symmetry; apply firstn_app_exact) end.
  intro Hacc.
  rewrite app_nth2 by lia. rewrite HC1. replace (length pre + S (length mid) - length pre)%nat with (S (length mid)) by lia.
  rewrite app_nth2 by lia. rewrite HC2, Nat.sub_diag.
  set (st2 := end_state c (Fresh t :: mid) (fst (fst st1)) (snd (fst st1)) (snd st1)).
  destruct (end_state_mono c (Fresh t :: mid) (fst (fst st1)) (snd (fst st1)) (snd st1) Hlt1) as [_ [_ [_ [Hjump _]]]].
  fold st2 in Hjump. fold C2 in Hjump. specialize (Hjump Hacc).
  (* what the replay resolves to: the token with the nonce it was made for *)
  assert (Hsent : exists ext2, snd st2 = snd st1 ++ (t, fst (fst st1)) :: ext2).
  { unfold st2. cbn [end_state resolve fst snd]. cbv zeta.
    match goal with |- context [end_state c mid ?a ?b ?s] =>
      destruct (a <? b) eqn:Hab;
      [ destruct (end_state_mono c mid a b s ltac:(apply Z.ltb_lt; exact Hab)) as [_ [_ [_ [_ [ext [He _]]]]]]
      | exfalso; apply Z.ltb_ge in Hab; revert Hab;
        destruct (authenticate c t (fst (fst st1)) (fst (fst st1)) =? 0); lia ] end.
    exists ext. rewrite He, <- app_assoc. reflexivity. }
  destruct Hsent as [ext2 Hs2].
  rewrite run_steps_cons. cbv zeta. cbn [codes nth].
  unfold resolve. rewrite Nat2Z.id, Hs2.
  replace (length pre) with (length (snd st1)) by (rewrite He1; exact Hl1).
  rewrite nth_sent_app. cbn [fst snd].
  apply nonce_bound_stale; [exact Hb | lia].
Qed.
