(* Shared verdict machinery for the correspondence check.

   Every property's Model.v exports
     case   : Type                       (inputs / operation lists / histories)
     run    : case -> list Z             (the model's canonical observable output)
     oracle : case -> list Z -> bool     (the property, as a decidable predicate on an output)
     known  : case -> Z                  (0, or the number of the known-finding class the case is in)
   The harness runs the implementation on each case and prints its canonical
   output; [verdicts] compares and applies the oracle to the IMPLEMENTATION's
   output, inside the kernel (vm_compute). *)
From Coq Require Import List ZArith Bool.
Import ListNotations.
Open Scope Z_scope.

Fixpoint list_Z_eqb (a b : list Z) : bool :=
  match a, b with
  | [], [] => true
  | x :: a', y :: b' => Z.eqb x y && list_Z_eqb a' b'
  | _, _ => false
  end.

Lemma list_Z_eqb_eq : forall a b, list_Z_eqb a b = true <-> a = b.
Proof.
  induction a as [|x a IH]; intros [|y b]; cbn; split; intro H; try congruence; try reflexivity.
  - apply andb_true_iff in H as [H1 H2]. apply Z.eqb_eq in H1. apply IH in H2. congruence.
  - inversion H; subst. rewrite Z.eqb_refl. cbn. apply IH. reflexivity.
Qed.

(* codes: 0 agree, property holds on impl output
          1 model and implementation disagree (oracle holds on impl output)
          2 oracle fails on the implementation's output, case outside every known class
          3 oracle fails on the implementation's output, case inside a known class (model agrees)
          4 as 3 but model and implementation also disagree *)
Definition verdict {C : Type} (run : C -> list Z) (oracle : C -> list Z -> bool)
           (known : C -> Z) (c : C) (impl : list Z) : Z * Z :=
  let agree := list_Z_eqb (run c) impl in
  if oracle c impl then (if agree then (0, 0) else (1, 0))
  else if Z.eqb (known c) 0 then (2, 0)
  else if agree then (3, known c) else (4, known c).

(* result rows: (case index, (code, known class), model output) for every case whose code is not 0 *)
Fixpoint verdicts_from {C : Type} (run : C -> list Z) (oracle : C -> list Z -> bool)
         (known : C -> Z) (i : Z) (cs : list (C * list Z)) : list (Z * (Z * Z) * list Z) :=
  match cs with
  | [] => []
  | (c, impl) :: cs' =>
      let v := verdict run oracle known c impl in
      let rest := verdicts_from run oracle known (i + 1) cs' in
      if Z.eqb (fst v) 0 then rest else (i, v, run c) :: rest
  end.

Definition verdicts {C : Type} run oracle known (cs : list (C * list Z)) :=
  @verdicts_from C run oracle known 0 cs.

Lemma verdict_ok_sound {C} run oracle known (c : C) impl :
  fst (verdict run oracle known c impl) = 0 -> oracle c impl = true /\ run c = impl.
Proof.
  unfold verdict. destruct (oracle c impl) eqn:Ho.
  - destruct (list_Z_eqb (run c) impl) eqn:He; cbn; intro H; try discriminate.
    split; [reflexivity | apply list_Z_eqb_eq; exact He].
  - destruct (Z.eqb (known c) 0); cbn; [discriminate|].
    destruct (list_Z_eqb (run c) impl); cbn; discriminate.
Qed.
