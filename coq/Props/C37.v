(* C37 — Reconnect back-off follows its policy and never overflows.  Statements only. *)
From Coq Require Import List ZArith.
From OV Require Import C37.Model C37.Proofs.
Open Scope Z_scope.

(* For every policy (any durations up to Duration::MAX, any limit) and any number of observed
   calls, the iterator model yields exactly: delay_0 = initial, delay_(k+1) = min(max, 2*delay_k),
   for the first `limit` calls, then None; never a panic. *)
Theorem C37_sequence : forall c, valid c -> run c = spec c.
Proof. exact run_eq_spec. Qed.
Print Assumptions C37_sequence.

Theorem C37_oracle : forall c, valid c -> oracle c (run c) = true.
Proof. exact oracle_holds. Qed.
Print Assumptions C37_oracle.

Theorem C37_limit : forall c k, valid c -> c_count0 c = 0 -> (k < Z.to_nat (c_n c))%nat ->
  (nth k (run c) 0 <> -1 <-> match c_limit c with Some m => Z.of_nat k < m | None => True end).
Proof. exact yields_iff_within_limit. Qed.
Print Assumptions C37_limit.

Theorem C37_doubling : forall mx d0 k,
  delay mx d0 0 = d0 /\ delay mx d0 (S k) = Z.min mx (2 * delay mx d0 k).
Proof. intros; split; [apply first_is_initial | apply later_doubles_capped]. Qed.
Print Assumptions C37_doubling.

Theorem C37_no_panic : forall c, valid c -> ~ In (-2) (run c).
Proof. exact no_panic. Qed.
Print Assumptions C37_no_panic.

Theorem C37_legacy_refuted :
  exists c, valid c /\ In (-2) (Legacy.take (Z.to_nat (c_n c)) (init_state c)).
Proof. exact legacy_refuted_mul. Qed.
Print Assumptions C37_legacy_refuted.
