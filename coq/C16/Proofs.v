From Coq Require Import List ZArith Bool Arith Lia.
Import ListNotations.
From OV Require Import C16.Model.
Open Scope Z_scope.
