//! C23: revised subscription and monitored item parameters: the real
//! `SubscriptionService::revise_subscription_values` (hook `verif_revise_subscription_values`),
//! `MonitoredItem::sanitize_sampling_interval` / `sanitize_queue_size` (hook `VerifMonitoredItem`)
//! under varying `ServerState` limits.
#[path = "../util.rs"]
mod util;
#[path = "../subs2.rs"]
mod subs2;
use util::*;
use opcua::server::prelude::*;
use opcua::server::services::subscription::verif_revise_subscription_values;
use opcua::server::state::ServerState;
use opcua::server::subscriptions::monitored_item::VerifMonitoredItem;
use opcua::sync::RwLock;
use std::sync::{Arc, OnceLock};

#[derive(Clone, Copy)]
pub struct Case {
    min_pub: f64, min_samp: f64, def_ka: u32, max_ka: u32, max_lt: u32, max_q: usize,
    r_pub: f64, r_ka: u32, r_lt: u32, r_samp: f64, r_q: u32,
}
pub struct P;

fn state() -> &'static Arc<RwLock<ServerState>> {
    static W: OnceLock<Arc<RwLock<ServerState>>> = OnceLock::new();
    W.get_or_init(|| {
        let dir = std::env::temp_dir().join(format!("verif-c23-{}", std::process::id()));
        ServerBuilder::new_anonymous("verif").pki_dir(dir).create_sample_keypair(false).server().unwrap().server_state()
    })
}

const NAN_BITS: u64 = 0x7FF8_0000_0000_0000;
/// canonical observable form: bit pattern, every NaN as one pattern, -0.0 as +0.0
fn canon(f: f64) -> i128 { if f.is_nan() { NAN_BITS as i128 } else if f == 0.0 { 0 } else { f.to_bits() as i128 } }
fn bits(f: f64) -> String { z(f.to_bits() as i128) }

fn special(r: &mut Rng) -> f64 {
    *r.pick(&[f64::NAN, -f64::NAN, f64::from_bits(0x7FF0_0000_0000_0001), f64::INFINITY, f64::NEG_INFINITY, 0.0, -0.0,
        f64::MIN_POSITIVE, -f64::MIN_POSITIVE, f64::from_bits(1), f64::from_bits(0x8000_0000_0000_0001), f64::MAX, f64::MIN,
        -1.0, 1.0, -0.5, f64::EPSILON, 1e300, -1e300, 4294967296.0, 1.8446744073709552e19])
}
fn req_f(r: &mut Rng, min: f64) -> f64 {
    match r.below(8) {
        0 | 1 => special(r),
        2 => f64::from_bits(r.next()),
        3 => f64::from_bits(min.to_bits().wrapping_add(r.below(5)).wrapping_sub(2)), // the neighbours of the minimum
        4 => -(r.below(100000) as f64) / 8.0,
        5 => min * (r.below(4000) as f64 / 1000.0),
        _ => r.below(100000) as f64 / 4.0,
    }
}
fn min_f(r: &mut Rng) -> f64 {
    match r.below(8) {
        0 => 0.0, 1 => 100.0, 2 => f64::MIN_POSITIVE, 3 => r.below(100000) as f64 / 16.0, 4 => 1e300,
        5 => *r.pick(&[-0.0, -5.0, f64::INFINITY, f64::NEG_INFINITY, f64::MAX]),
        _ => 1.0 + r.below(5000) as f64,
    }
}
fn req_u(r: &mut Rng, around: &[u32]) -> u32 {
    match r.below(6) {
        0 => 0, 1 => 1, 2 => u32::MAX - r.below(3) as u32,
        3 | 4 => { let a = *r.pick(around); a.wrapping_add(r.below(5) as u32).wrapping_sub(2) }
        _ => r.next() as u32 >> r.below(32),
    }
}

impl Property for P {
    type Case = Case;
    fn fixed(tier: &str) -> Vec<Case> {
        // the server's own limits: 100 ms, 100 ms, 10, 30000, 90000, 10
        let d = Case { min_pub: 100.0, min_samp: 100.0, def_ka: 10, max_ka: 30000, max_lt: 90000, max_q: 10,
                       r_pub: 1000.0, r_ka: 20, r_lt: 100, r_samp: 500.0, r_q: 5 };
        let mut v = vec![
            d,
            // NaN sampling interval: echoed back before the fix
            Case { r_samp: f64::NAN, ..d },
            Case { r_samp: -f64::NAN, r_pub: f64::NAN, ..d },
            Case { r_samp: f64::from_bits(0x7FF0_0000_0000_0001), ..d },
            Case { r_samp: f64::INFINITY, r_pub: f64::INFINITY, ..d },
            Case { r_samp: f64::NEG_INFINITY, r_pub: f64::NEG_INFINITY, ..d },
            Case { r_samp: -0.0, r_pub: -0.0, ..d },
            Case { r_samp: 0.0, r_pub: 0.0, r_ka: 0, r_lt: 0, r_q: 0, ..d },
            Case { r_samp: -f64::MIN_POSITIVE, r_pub: -1.0, ..d },
            Case { r_samp: 99.99999999999999, r_pub: 99.99999999999999, ..d },
            Case { r_samp: 100.0, r_pub: 100.0, r_ka: 30000, r_lt: 90000, r_q: 10, ..d },
            Case { r_ka: 30001, r_lt: 90001, r_q: 11, ..d },
            Case { r_ka: u32::MAX, r_lt: u32::MAX, r_q: u32::MAX, ..d },
            Case { r_ka: 1, r_lt: 2, r_q: 1, ..d },
            Case { r_ka: 29999, r_lt: 89996, ..d },
            // extreme valid configurations
            Case { def_ka: 1, max_ka: 1, max_lt: 3, max_q: 1, r_ka: 7, r_lt: 9, r_q: 7, ..d },
            Case { def_ka: 1431655765, max_ka: 1431655765, max_lt: u32::MAX, r_ka: 0, r_lt: 0, ..d },
            Case { min_pub: 0.0, min_samp: 0.0, r_samp: 0.0, r_pub: -3.0, ..d },
            Case { min_pub: f64::INFINITY, min_samp: f64::INFINITY, r_samp: 1e308, r_pub: f64::NAN, ..d },
            Case { min_pub: -5.0, min_samp: -5.0, r_samp: 0.0, r_pub: -7.0, ..d },
            // invalid configurations (outside the property; model agreement only)
            Case { def_ka: 1431655766, max_ka: 1431655766, max_lt: u32::MAX, r_ka: 0, r_lt: 0, ..d },
            Case { min_pub: f64::NAN, min_samp: f64::NAN, ..d },
            Case { max_q: 0, r_q: 5, ..d },
        ];
        if tier == "thorough" {
            let fs = [f64::NAN, f64::INFINITY, f64::NEG_INFINITY, 0.0, -0.0, -1.0, f64::MIN_POSITIVE, 50.0, 100.0, 100.00000000000001, 1e300];
            for a in fs { for b in fs { v.push(Case { r_samp: a, r_pub: b, ..d }); v.push(Case { min_samp: 0.0, min_pub: 0.0, r_samp: a, r_pub: b, ..d }); } }
            for ka in [0u32, 1, 2, 9, 10, 29999, 30000, 30001, u32::MAX] { for lt in [0u32, 1, 2, 3, 29, 30, 31, 89999, 90000, 90001, u32::MAX] {
                v.push(Case { r_ka: ka, r_lt: lt, ..d });
            }}
        }
        v
    }
    fn gen(r: &mut Rng) -> Case {
        let invalid = r.chance(1, 12);
        let max_ka = match r.below(5) { 0 => 1, 1 => 30000, 2 => 1431655765 - r.below(3) as u32, _ => 1 + (r.next() as u32 >> (2 + r.below(30))) };
        let max_ka = max_ka.min(1431655765).max(1);
        let def_ka = match r.below(3) { 0 => 1, 1 => max_ka, _ => 1 + r.below(max_ka as u64) as u32 };
        let max_lt = match r.below(3) { 0 => 3 * max_ka, 1 => u32::MAX, _ => 3 * max_ka + r.below((u32::MAX - 3 * max_ka) as u64 + 1) as u32 };
        let max_q = match r.below(4) { 0 => 1, 1 => 10, 2 => usize::MAX >> r.below(40), _ => 1 + r.below(1000) as usize };
        let (min_pub, min_samp) = (min_f(r), min_f(r));
        let mut c = Case { min_pub, min_samp, def_ka, max_ka, max_lt, max_q,
            r_pub: req_f(r, min_pub), r_ka: req_u(r, &[def_ka, max_ka]), r_lt: req_u(r, &[3 * def_ka, 3 * max_ka, max_lt]),
            r_samp: req_f(r, min_samp), r_q: req_u(r, &[max_q.min(u32::MAX as usize) as u32]) };
        if invalid {
            match r.below(5) {
                0 => c.min_samp = f64::NAN,
                1 => c.min_pub = f64::NAN,
                2 => { c.def_ka = c.max_ka.saturating_add(1 + r.below(5) as u32); }
                3 => { c.max_ka = u32::MAX - r.below(1000) as u32; c.def_ka = c.max_ka; c.max_lt = u32::MAX; }
                _ => c.max_q = 0,
            }
        }
        c
    }
    fn exec(c: &Case) -> Out {
        let mut st = state().write();
        st.min_publishing_interval_ms = c.min_pub;
        st.min_sampling_interval_ms = c.min_samp;
        st.default_keep_alive_count = c.def_ka;
        st.max_keep_alive_count = c.max_ka;
        st.max_lifetime_count = c.max_lt;
        st.max_monitored_item_queue_size = c.max_q;
        let st = &*st;
        let mut out: Vec<i128> = Vec::new();
        match guarded(|| verif_revise_subscription_values(st, c.r_pub, c.r_ka, c.r_lt)) {
            Ok((p, k, t)) => { out.push(canon(p)); out.push(k as i128); out.push(t as i128); }
            Err(_) => out.push(-2),
        }
        match guarded(|| VerifMonitoredItem::sanitize_sampling_interval(st, c.r_samp)) { Ok(s) => out.push(canon(s)), Err(_) => out.push(-2) }
        match guarded(|| VerifMonitoredItem::sanitize_queue_size(st, c.r_q as usize)) { Ok(q) => out.push(q as i128), Err(_) => out.push(-2) }
        // the interval a monitored item holds after MonitoredItem::new and after MonitoredItem::modify with the same
        // request: no filter, a DataChangeFilter, an EventFilter
        {
            use opcua::server::address_space::AddressSpace;
            static AS: OnceLock<AddressSpace> = OnceLock::new();
            let space = AS.get_or_init(AddressSpace::new);
            let now = chrono::Utc::now();
            let filters = [ExtensionObject::null(),
                ExtensionObject::from_encodable(ObjectId::DataChangeFilter_Encoding_DefaultBinary,
                    &DataChangeFilter { trigger: DataChangeTrigger::StatusValue, deadband_type: 0, deadband_value: 0.0 }),
                ExtensionObject::from_encodable(ObjectId::EventFilter_Encoding_DefaultBinary,
                    &EventFilter { select_clauses: None, where_clause: ContentFilter { elements: None } })];
            for f in filters.iter() {
                let params = MonitoringParameters { client_handle: 1, sampling_interval: c.r_samp, filter: f.clone(), queue_size: 1, discard_oldest: true };
                let item_to_monitor = ReadValueId { node_id: NodeId::new(2, 77u32), attribute_id: AttributeId::Value as u32, index_range: UAString::null(), data_encoding: QualifiedName::null() };
                let create = MonitoredItemCreateRequest { item_to_monitor, monitoring_mode: MonitoringMode::Reporting, requested_parameters: params.clone() };
                match guarded(|| VerifMonitoredItem::new(&now, 1, TimestampsToReturn::Both, st, &create)) {
                    Ok(Ok(mut item)) => {
                        out.push(canon(item.sampling_interval()));
                        // created with an ordinary interval first, then modified to the requested one
                        let plain = MonitoringParameters { sampling_interval: 500.0, ..params.clone() };
                        let create2 = MonitoredItemCreateRequest { requested_parameters: plain, ..create.clone() };
                        if let Ok(Ok(i2)) = guarded(|| VerifMonitoredItem::new(&now, 2, TimestampsToReturn::Both, st, &create2)) { item = i2; }
                        let modify = MonitoredItemModifyRequest { monitored_item_id: 2, requested_parameters: params.clone() };
                        match guarded(|| { let _ = item.modify(st, space, TimestampsToReturn::Both, &modify); item.sampling_interval() }) {
                            Ok(v) => out.push(canon(v)), Err(_) => out.push(-2),
                        }
                    }
                    Ok(Err(_)) => { out.push(-3); out.push(-3); }
                    Err(_) => { out.push(-2); out.push(-2); }
                }
            }
        }
        drop(st);
        // what the ModifySubscription service answers for the same request on an existing subscription (created with
        // other values): the real service on a real session, under the same limits
        {
            use opcua::core::supported_message::SupportedMessage;
            use opcua::server::services::subscription::verif as svc;
            let wst = subs2::World::server_state_handle();
            {
                let mut s = wst.write();
                s.min_publishing_interval_ms = c.min_pub; s.min_sampling_interval_ms = c.min_samp; s.default_keep_alive_count = c.def_ka;
                s.max_keep_alive_count = c.max_ka; s.max_lifetime_count = c.max_lt; s.max_monitored_item_queue_size = c.max_q;
            }
            let r = guarded(|| {
                let mut w = subs2::World::new(1);
                w.apply(0, &subs2::Op::CreateSub { prio: 0, interval: 500, kac: 7, life: 21, enabled: true });
                let id = *w.live_subs().first().unwrap_or(&1);
                let request = ModifySubscriptionRequest { request_header: RequestHeader::dummy(), subscription_id: id as u32,
                    requested_publishing_interval: c.r_pub, requested_lifetime_count: c.r_lt, requested_max_keep_alive_count: c.r_ka,
                    max_notifications_per_publish: 0, priority: 0 };
                svc::modify_subscription(wst.clone(), w.session_handle(), &request)
            });
            match r {
                Ok(SupportedMessage::ModifySubscriptionResponse(m)) => { out.push(canon(m.revised_publishing_interval)); out.push(m.revised_max_keep_alive_count as i128); out.push(m.revised_lifetime_count as i128); }
                Ok(_) => out.push(-3),
                Err(_) => out.push(-2),
            }
        }
        let valid = !c.min_pub.is_nan() && !c.min_samp.is_nan() && 1 <= c.def_ka && c.def_ka <= c.max_ka
            && 3 * (c.max_ka as u64) <= c.max_lt as u64 && c.max_q >= 1;
        let fclass = |f: f64| if f.is_nan() { "nan" } else if f.is_infinite() { "inf" } else if f < 0.0 { "neg" } else if f == 0.0 { "zero" } else { "pos" };
        let tag = if !valid { "trivial-invalid-config".to_string() } else {
            format!("samp-{}/pub-{}{}", fclass(c.r_samp), fclass(c.r_pub),
                if c.r_ka == 0 { "/ka0" } else if c.r_ka > c.max_ka { "/ka>max" } else { "" })
        };
        let term = format!("(mk_case {} {} {} {} {} {} {} {} {} {} {})", bits(c.min_pub), bits(c.min_samp), c.def_ka, c.max_ka, c.max_lt, c.max_q,
            bits(c.r_pub), c.r_ka, c.r_lt, bits(c.r_samp), c.r_q);
        Out { tag, term, out }
    }
}
fn main() { run_main::<P>() }
