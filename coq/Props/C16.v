(* C16 — Encrypted user passwords round-trip, bind to the nonce, and never crash.  Statements only.

   [password_encrypt R k enc p rs pw nonce] / [password_decrypt k dec p secret nonce] are the models
   of legacy_password_encrypt / legacy_password_decrypt (with PublicKey::public_encrypt and
   PrivateKey::private_decrypt inside) for a key of k bytes; [enc] / [dec] is the RSA operation on
   one block, of which only [enc_dec_law] (a non-empty block of at most k - overhead bytes encrypts
   to k bytes that decrypt to it, for any randomness) and [dec_len_law] (a decrypted block is not
   longer than the key) are assumed.  Passwords, nonces, cipher texts are arbitrary byte lists. *)
From Coq Require Import List ZArith Bool.
Import ListNotations.
From OV Require Import C16.Model C16.Proofs C16.Utf8.
Open Scope Z_scope.

(* Encrypting never panics or fails, the cipher text is a whole number of key-size blocks, and
   decrypting it with ANY nonce gives exactly [expected]: the bytes in front of the nonce if the
   nonce is a suffix of  password ++ nonce  and they are UTF-8, an error otherwise.
   For every key size, padding, randomness, password and nonce. *)
Theorem C16_decrypt_encrypt : forall (R : Type) (k : nat) enc dec p (rs : nat -> R) pw nonce nonce',
  enc_dec_law R k enc dec -> dec_len_law k dec -> (overhead p < k)%nat ->
  Z.of_nat (length (pw ++ nonce)) < 2 ^ 32 ->
  exists ct, password_encrypt R k enc p rs pw nonce = Ok ct /\
    length ct = (block_count (4 + length pw + length nonce) (k - overhead p) * k)%nat /\
    password_decrypt k dec p (Some ct) nonce' = expected pw nonce nonce'.
Proof. exact decrypt_encrypt. Qed.
Print Assumptions C16_decrypt_encrypt.

(* same nonce: the original password, for every UTF-8 password (including the empty one) *)
Theorem C16_roundtrip : forall (R : Type) (k : nat) enc dec p (rs : nat -> R) pw nonce,
  enc_dec_law R k enc dec -> dec_len_law k dec -> (overhead p < k)%nat ->
  Z.of_nat (length (pw ++ nonce)) < 2 ^ 32 -> utf8_valid pw = true ->
  exists ct, password_encrypt R k enc p rs pw nonce = Ok ct /\
    password_decrypt k dec p (Some ct) nonce = Ok pw.
Proof.
  intros R k enc dec p rs pw nonce He Hd Hk Hs Hu.
  destruct (decrypt_encrypt R k enc dec p rs pw nonce nonce He Hd Hk Hs) as [ct [E [_ D]]].
  exists ct. split; [exact E|]. rewrite D. apply expected_same. exact Hu.
Qed.
Print Assumptions C16_roundtrip.

(* ... in particular for every string of Unicode scalar values (every Rust &str), encoded as
   char::encode_utf8 does *)
Theorem C16_roundtrip_unicode : forall (R : Type) (k : nat) enc dec p (rs : nat -> R) cps nonce,
  enc_dec_law R k enc dec -> dec_len_law k dec -> (overhead p < k)%nat ->
  Forall scalar cps -> Z.of_nat (length (flat_map encode_cp cps ++ nonce)) < 2 ^ 32 ->
  exists ct, password_encrypt R k enc p rs (flat_map encode_cp cps) nonce = Ok ct /\
    password_decrypt k dec p (Some ct) nonce = Ok (flat_map encode_cp cps).
Proof.
  intros R k enc dec p rs cps nonce He Hd Hk Hc Hs.
  apply C16_roundtrip; try assumption. apply utf8_valid_string. exact Hc.
Qed.
Print Assumptions C16_roundtrip_unicode.

(* the token level: the algorithm URI that make_user_name_identity_token writes for a policy
   selects, in decrypt_user_identity_token_password, the padding the password was encrypted with *)
Theorem C16_token_algorithm : forall pol, padding_of_alg (alg_of pol) = Some (padding_of pol).
Proof. exact padding_of_alg_of. Qed.
Print Assumptions C16_token_algorithm.

(* a different nonce of the same length: decryption fails *)
Theorem C16_other_nonce_same_length : forall (R : Type) (k : nat) enc dec p (rs : nat -> R) pw nonce nonce',
  enc_dec_law R k enc dec -> dec_len_law k dec -> (overhead p < k)%nat ->
  Z.of_nat (length (pw ++ nonce)) < 2 ^ 32 ->
  length nonce' = length nonce -> nonce' <> nonce ->
  exists ct, password_encrypt R k enc p rs pw nonce = Ok ct /\
    password_decrypt k dec p (Some ct) nonce' = Err.
Proof.
  intros R k enc dec p rs pw nonce nonce' He Hd Hk Hs Hl Hn.
  destruct (decrypt_encrypt R k enc dec p rs pw nonce nonce' He Hd Hk Hs) as [ct [E [_ D]]].
  exists ct. split; [exact E|]. rewrite D. apply expected_other_same_length; assumption.
Qed.
Print Assumptions C16_other_nonce_same_length.

(* a different nonce of any length: decryption "succeeds" exactly on the known class
   (the nonce is another suffix of password ++ nonce and what precedes it is UTF-8) *)
Theorem C16_other_nonce : forall (R : Type) (k : nat) enc dec p (rs : nat -> R) pw nonce nonce',
  enc_dec_law R k enc dec -> dec_len_law k dec -> (overhead p < k)%nat ->
  Z.of_nat (length (pw ++ nonce)) < 2 ^ 32 -> nonce' <> nonce ->
  exists ct, password_encrypt R k enc p rs pw nonce = Ok ct /\
    ((exists pw', password_decrypt k dec p (Some ct) nonce' = Ok pw') <-> suffix_class pw nonce nonce' = true).
Proof.
  intros R k enc dec p rs pw nonce nonce' He Hd Hk Hs Hn.
  destruct (decrypt_encrypt R k enc dec p rs pw nonce nonce' He Hd Hk Hs) as [ct [E [_ D]]].
  exists ct. split; [exact E|]. rewrite D. apply expected_other. apply list_eqb_neq. congruence.
Qed.
Print Assumptions C16_other_nonce.

(* any byte string (also the null one) as secret, any nonce, any padding / algorithm, any key size,
   ANY behaviour of the RSA primitive on it: Ok or Err, never a panic *)
Theorem C16_total : forall (k : nat) dec a secret nonce,
  dec_len_law k dec -> decrypt_token k dec a secret nonce <> Panic.
Proof. exact decrypt_token_total. Qed.
Print Assumptions C16_total.

(* the remaining algorithm strings of decrypt_user_identity_token_password (null or empty: the
   plain text branch; any other URI: refused) never panic either, for any password bytes *)
Theorem C16_total_other_algorithms : forall uri secret, decrypt_token_other uri secret <> Panic.
Proof. exact decrypt_token_other_total. Qed.
Print Assumptions C16_total_other_algorithms.

(* ... and it is Ok exactly when the decrypted bytes have the layout  length ++ password ++ nonce *)
Theorem C16_decrypt_reference : forall plain dst_len nonce, (length plain <= dst_len)%nat ->
  parse_plain true plain dst_len nonce = match ref_parse plain nonce with Some pw => Ok pw | None => Err end.
Proof. exact parse_plain_ref. Qed.
Print Assumptions C16_decrypt_reference.

(* The server (ServerState::authenticate_username_identity_token, the decryption and password
   comparison of ActivateSession).  [stored] is the password configured for the user named in the
   token, None if there is no such user.  With the session's own nonce the session is activated
   exactly when the user exists and the password is the configured one ... *)
Theorem C16_authenticate_same_nonce : forall (R : Type) (k : nat) enc dec pol (rs : nat -> R) pw nonce stored,
  enc_dec_law R k enc dec -> dec_len_law k dec -> (overhead (padding_of pol) < k)%nat ->
  Z.of_nat (length (pw ++ nonce)) < 2 ^ 32 -> utf8_valid pw = true ->
  exists ct, password_encrypt R k enc (padding_of pol) rs pw nonce = Ok ct /\
    (authenticate k dec (alg_of pol) (Some ct) nonce stored = Ok tt <-> stored = Some pw) /\
    authenticate k dec (alg_of pol) (Some ct) nonce stored <> Panic.
Proof. exact authenticate_same_nonce. Qed.
Print Assumptions C16_authenticate_same_nonce.

(* ... with any other nonce of the same length it is refused, whoever the user is and whatever
   password is configured (an empty one included: a failed decryption is never an empty password) *)
Theorem C16_authenticate_other_nonce : forall (R : Type) (k : nat) enc dec pol (rs : nat -> R) pw nonce nonce' stored,
  enc_dec_law R k enc dec -> dec_len_law k dec -> (overhead (padding_of pol) < k)%nat ->
  Z.of_nat (length (pw ++ nonce)) < 2 ^ 32 -> length nonce' = length nonce -> nonce' <> nonce ->
  exists ct, password_encrypt R k enc (padding_of pol) rs pw nonce = Ok ct /\
    authenticate k dec (alg_of pol) (Some ct) nonce' stored = Err.
Proof. exact authenticate_other_nonce. Qed.
Print Assumptions C16_authenticate_other_nonce.

(* ... and whatever bytes the token carries as password, the server answers Ok or Err *)
Theorem C16_authenticate_total : forall (k : nat) dec a secret nonce stored,
  dec_len_law k dec -> authenticate k dec a secret nonce stored <> Panic.
Proof. exact authenticate_total. Qed.
Print Assumptions C16_authenticate_total.

(* the cipher the correspondence model runs with satisfies the two laws, so all of the above
   applies to [run] *)
Theorem C16_toy_cipher_lawful : forall k, enc_dec_law unit k (toy_enc k) (toy_dec k) /\ dec_len_law k (toy_dec k).
Proof. intro k. split; [apply toy_enc_dec_law | apply toy_dec_len_law]. Qed.
Print Assumptions C16_toy_cipher_lawful.

Theorem C16_oracle : forall c, valid c = true -> known c = 0 -> oracle c (run c) = true.
Proof. exact oracle_holds. Qed.
Print Assumptions C16_oracle.

(* known finding C16-suffix-nonce *)
Theorem C16_known_1_refuted : exists c, known c = 1 /\ oracle c (run c) = false.
Proof. exists known_witness. destruct known_1_refuted as [_ [H1 [H2 _]]]. split; assumption. Qed.
Print Assumptions C16_known_1_refuted.

(* the code before the three fixes *)
Theorem C16_legacy_block_loop_refuted :
  Legacy.password_decrypt 128 (toy_dec 128) false Pkcs1 (Some (repeat 7 100)) [] = Panic /\
  password_decrypt 128 (toy_dec 128) Pkcs1 (Some (repeat 7 100)) [] = Err.
Proof. exact legacy_block_loop_refuted. Qed.
Print Assumptions C16_legacy_block_loop_refuted.

Theorem C16_legacy_short_plain_refuted :
  let secret := Some (toy_block 128 Pkcs1 (le32 3 ++ [97; 98; 99])) in
  let nonce := repeat 5 32 in
  Legacy.password_decrypt 128 (toy_dec 128) true Pkcs1 secret nonce = Panic /\
  password_decrypt 128 (toy_dec 128) Pkcs1 secret nonce = Err.
Proof. exact legacy_short_plain_refuted. Qed.
Print Assumptions C16_legacy_short_plain_refuted.

Theorem C16_legacy_algorithm_refuted :
  padding_of_alg (Legacy.alg_of Aes128Sha256RsaOaep) <> Some (padding_of Aes128Sha256RsaOaep) /\
  padding_of_alg (Legacy.alg_of Aes256Sha256RsaPss) <> Some (padding_of Aes256Sha256RsaPss) /\
  (forall pol, padding_of_alg (alg_of pol) = Some (padding_of pol)) /\
  exists ct, password_encrypt unit 128 (toy_enc 128) (padding_of Aes256Sha256RsaPss) (fun _ => tt) [112; 119] [1; 2; 3] = Ok ct /\
             decrypt_token 128 (toy_dec 128) (Legacy.alg_of Aes256Sha256RsaPss) (Some ct) [1; 2; 3] = Err.
Proof. exact legacy_algorithm_refuted. Qed.
Print Assumptions C16_legacy_algorithm_refuted.

(* the hypotheses are satisfiable by non-trivial instances *)
Example C16_example_roundtrip :
  exists ct, password_encrypt unit 128 (toy_enc 128) OaepSha256 (fun _ => tt) [112; 195; 164; 115; 115] (repeat 9 32) = Ok ct /\
             length ct = 128%nat /\
             password_decrypt 128 (toy_dec 128) OaepSha256 (Some ct) (repeat 9 32) = Ok [112; 195; 164; 115; 115].
Proof. eexists. repeat split; vm_compute; reflexivity. Qed.
