(* C05 -- escape_browse_name / unescape_browse_name as sequential String::replace passes.

   escape   = one pass per reserved character c (in the order & / . < > : # !) replacing c by &c
   unescape = one pass per reserved character c (same order) replacing the two characters &c by c,
              leftmost non-overlapping occurrences.
   Shown here: the eight escape passes amount to the per-character map [esc1]; the eight unescape
   passes undo it on every string; sizes. *)
From Coq Require Import String Ascii List ZArith Bool Lia ZifyBool.
From OV Require Import C05.Model.
Import ListNotations.
Open Scope Z_scope.

Definition memb (x : Z) (P : list Z) : bool := existsb (Z.eqb x) P.
(* the string after the passes for the characters in P: those are escaped, the others are not *)
Definition gp (P : list Z) (x : Z) : str := if memb x P then [38; x] else [x].
Definition esc1 (x : Z) : str := if is_reserved x then [38; x] else [x].

Lemma memb_In : forall x P, memb x P = true <-> In x P.
Proof.
  intros x P. unfold memb. rewrite existsb_exists. split.
  - intros [y [Hy He]]. apply Z.eqb_eq in He. subst. exact Hy.
  - intro H. exists x. split; [exact H | apply Z.eqb_refl].
Qed.

Lemma memb_app : forall x P Q, memb x (P ++ Q) = memb x P || memb x Q.
Proof. intros. unfold memb. apply existsb_app. Qed.

Lemma flat_map_gp_nil : forall s, flat_map (gp []) s = s.
Proof. induction s as [|x s IH]; cbn; [reflexivity | rewrite IH; reflexivity]. Qed.

Lemma gp_reserved : forall x, gp reserved x = esc1 x.
Proof. reflexivity. Qed.

(* ---- escape ---------------------------------------------------------------------------------- *)
Lemma replace_char_app : forall c a b, replace_char c (a ++ b) = replace_char c a ++ replace_char c b.
Proof. intros. unfold replace_char. apply flat_map_app. Qed.

Lemma replace_char_flat : forall c (f : Z -> str) (s : str),
  replace_char c (flat_map f s) = flat_map (fun x => replace_char c (f x)) s.
Proof.
  intros c f s. induction s as [|x s IH]; cbn [flat_map]; [reflexivity|].
  rewrite replace_char_app, IH. reflexivity.
Qed.

Lemma esc_step : forall done c s,
  ~ In c done -> (done = [] \/ c <> 38) ->
  replace_char c (flat_map (gp done) s) = flat_map (gp (done ++ [c])) s.
Proof.
  intros done c s Hc H38. rewrite replace_char_flat.
  apply flat_map_ext. intro x. unfold gp. rewrite memb_app.
  destruct (memb x done) eqn:Hm.
  - apply memb_In in Hm. cbn [orb].
    assert (Hx : x <> c) by (intro; subst; contradiction).
    assert (H38' : c <> 38) by (destruct H38 as [H|H]; [subst; contradiction | exact H]).
    unfold replace_char. cbn [flat_map app].
    destruct (38 =? c) eqn:E1; [lia|]. destruct (x =? c) eqn:E2; [lia|]. reflexivity.
  - cbn [orb]. unfold memb at 1. cbn [existsb]. rewrite orb_false_r.
    unfold replace_char. cbn [flat_map app].
    destruct (x =? c) eqn:E; [|reflexivity].
    apply Z.eqb_eq in E. subst. reflexivity.
Qed.

Theorem escape_flat : forall s, escape s = flat_map esc1 s.
Proof.
  intro s. unfold escape, reserved. cbn [fold_left].
  rewrite <- (flat_map_gp_nil s) at 1.
  rewrite (esc_step [] 38) by (cbn; intuition lia).
  rewrite (esc_step [38] 47) by (cbn; intuition lia).
  rewrite (esc_step [38; 47] 46) by (cbn; intuition lia).
  rewrite (esc_step [38; 47; 46] 60) by (cbn; intuition lia).
  rewrite (esc_step [38; 47; 46; 60] 62) by (cbn; intuition lia).
  rewrite (esc_step [38; 47; 46; 60; 62] 58) by (cbn; intuition lia).
  rewrite (esc_step [38; 47; 46; 60; 62; 58] 35) by (cbn; intuition lia).
  rewrite (esc_step [38; 47; 46; 60; 62; 58; 35] 33) by (cbn; intuition lia).
  cbn [app]. apply flat_map_ext. intro x. apply gp_reserved.
Qed.

(* ---- unescape -------------------------------------------------------------------------------- *)
Definition hd_ne (c : Z) (s : str) : Prop := match s with [] => True | b :: _ => b <> c end.

Lemma unrep_cons_nomatch : forall c x rest,
  (x <> 38 \/ hd_ne c rest) -> unrep c (x :: rest) = x :: unrep c rest.
Proof.
  intros c x rest H. destruct rest as [|b t]; [reflexivity|].
  cbn [unrep]. destruct ((x =? 38) && (b =? c)) eqn:E; [|reflexivity].
  cbn [hd_ne] in H. lia.
Qed.

Lemma hd_gp : forall c P s, In c P -> c <> 38 -> hd_ne c (flat_map (gp P) s).
Proof.
  intros c P s Hin H38. destruct s as [|y s]; cbn [flat_map]; [exact I|].
  unfold gp. destruct (memb y P) eqn:Hm; cbn [app hd_ne].
  - lia.
  - intro; subst. apply memb_In in Hin. congruence.
Qed.

Lemma gp_cons_same : forall c P, gp (c :: P) c = [38; c].
Proof. intros. unfold gp, memb. cbn [existsb]. rewrite Z.eqb_refl. reflexivity. Qed.

Lemma gp_cons_other : forall c P x, x <> c -> gp (c :: P) x = gp P x.
Proof.
  intros c P x H. unfold gp, memb. cbn [existsb].
  destruct (x =? c) eqn:E; [lia|]. reflexivity.
Qed.

Lemma gp_notin : forall P x, ~ In x P -> gp P x = [x].
Proof.
  intros P x H. unfold gp. destruct (memb x P) eqn:E; [apply memb_In in E; contradiction | reflexivity].
Qed.

Lemma unrep_pair : forall c rest, unrep c (38 :: c :: rest) = c :: unrep c rest.
Proof. intros. cbn [unrep]. rewrite !Z.eqb_refl. reflexivity. Qed.

Lemma unrep_step : forall c pending s,
  ~ In c pending -> ~ In 38 pending ->
  unrep c (flat_map (gp (c :: pending)) s) = flat_map (gp pending) s.
Proof.
  intros c pending s Hc H38. induction s as [|x s IH]; [reflexivity|].
  cbn [flat_map]. destruct (Z.eq_dec x c) as [Exc|Exc].
  - (* the pass's own character: the pair &c becomes c *)
    subst x. rewrite gp_cons_same, (gp_notin pending c Hc). cbn [app].
    rewrite unrep_pair, IH. reflexivity.
  - rewrite (gp_cons_other c pending x Exc). unfold gp at 1 3.
    destruct (memb x pending) eqn:Hm; cbn [app].
    + (* a character whose pass is still to come: its pair stays *)
      assert (Hx38 : x <> 38) by (intro; subst; apply memb_In in Hm; contradiction).
      rewrite unrep_cons_nomatch.
      2:{ right. cbn [hd_ne]. exact Exc. }
      rewrite unrep_cons_nomatch by (left; exact Hx38).
      rewrite IH. reflexivity.
    + (* an unescaped character *)
      rewrite unrep_cons_nomatch.
      * rewrite IH. reflexivity.
      * destruct (Z.eq_dec x 38) as [E|E]; [|left; exact E]. right.
        apply hd_gp; [left; reflexivity|]. subst x. lia.
Qed.

Theorem unescape_flat : forall s, unescape (flat_map esc1 s) = s.
Proof.
  intro s. unfold unescape, reserved. cbn [fold_left].
  rewrite (flat_map_ext esc1 (gp [38; 47; 46; 60; 62; 58; 35; 33])) by (intro; reflexivity).
  rewrite unrep_step by (cbn; intuition lia).
  rewrite unrep_step by (cbn; intuition lia).
  rewrite unrep_step by (cbn; intuition lia).
  rewrite unrep_step by (cbn; intuition lia).
  rewrite unrep_step by (cbn; intuition lia).
  rewrite unrep_step by (cbn; intuition lia).
  rewrite unrep_step by (cbn; intuition lia).
  rewrite unrep_step by (cbn; intuition lia).
  apply flat_map_gp_nil.
Qed.

(* escape then unescape is the identity on every string *)
Theorem unescape_escape : forall s, unescape (escape s) = s.
Proof. intro s. rewrite escape_flat. apply unescape_flat. Qed.

(* ---- facts about the escaped text ------------------------------------------------------------ *)
Lemma not_reserved : forall x, is_reserved x = false ->
  x <> 38 /\ x <> 47 /\ x <> 46 /\ x <> 60 /\ x <> 62 /\ x <> 58 /\ x <> 35 /\ x <> 33.
Proof.
  intros x H. unfold is_reserved, reserved in H. cbn [existsb] in H.
  repeat (apply orb_false_elim in H; destruct H as [?H H]). lia.
Qed.

Lemma ulen_app : forall a b, ulen (a ++ b) = ulen a + ulen b.
Proof. unfold ulen. induction a as [|x a IH]; intro b; cbn [app fold_right]; [reflexivity | rewrite IH; lia]. Qed.

Lemma utf8_len_pos : forall c, 1 <= utf8_len c <= 4.
Proof. intro c. unfold utf8_len. destruct (c <? 128), (c <? 2048), (c <? 65536); lia. Qed.

Lemma ulen_nonneg : forall s, 0 <= ulen s.
Proof. unfold ulen. induction s as [|x s IH]; cbn [fold_right]; [lia|]. pose proof (utf8_len_pos x). lia. Qed.

Lemma ulen_escape : forall s, ulen (escape s) = esc_size s.
Proof.
  intro s. rewrite escape_flat. induction s as [|x s IH]; [reflexivity|].
  cbn [flat_map esc_size fold_right]. fold (esc_size s). rewrite ulen_app, IH.
  unfold esc1. destruct (is_reserved x); cbn [ulen fold_right]; [|lia].
  change (utf8_len 38) with 1. lia.
Qed.

Lemma escape_nil_iff : forall s, escape s = [] <-> s = [].
Proof.
  intro s. rewrite escape_flat. split; [|intro; subst; reflexivity].
  destruct s as [|x s]; [reflexivity|]. cbn [flat_map]. unfold esc1.
  destruct (is_reserved x); discriminate.
Qed.
