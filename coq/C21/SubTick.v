(* C21 — one subscription tick (Subscription::tick = sub_tick) against the reference evaluator:
   no panic, sequence numbers, and what becomes of the collected payload. *)
From Coq Require Import List ZArith Bool Lia.
Import ListNotations.
From OV Require Import C21.SysLemmas C21.Model.
Open Scope Z_scope.

Definition data_of (ns : list msg) : list (list datum) :=
  map m_data (filter (fun m => m_kind m =? 1) ns).

Lemma data_of_app a b : data_of (a ++ b) = data_of a ++ data_of b.
Proof. unfold data_of. rewrite filter_app, map_app. reflexivity. Qed.

(* strictly increasing sequence numbers above lo, up to hi *)
Fixpoint chain (lo : Z) (l : list Z) (hi : Z) : Prop :=
  match l with
  | [] => lo <= hi
  | x :: r => lo < x /\ chain x r hi
  end.

Lemma chain_app_next lo l hi : chain lo l hi -> chain lo (l ++ [hi + 1]) (hi + 1).
Proof.
  revert lo. induction l as [|x r IH]; intros lo H; cbn [chain app] in *.
  - split; lia.
  - destruct H as [H1 H2]. split; [exact H1 | apply IH; exact H2].
Qed.
Lemma chain_le lo l hi : chain lo l hi -> lo <= hi.
Proof.
  revert lo. induction l as [|x r IH]; intros lo H; cbn [chain] in H; [exact H|].
  destruct H as [H1 H2]. apply IH in H2. lia.
Qed.
Lemma chain_weaken lo l hi hi' : chain lo l hi -> hi <= hi' -> chain lo l hi'.
Proof.
  revert lo. induction l as [|x r IH]; intros lo H Hle; cbn [chain] in *; [lia|].
  destruct H as [H1 H2]. split; [exact H1 | apply IH; assumption].
Qed.

(* well-formed subscription: parameters as revised by the service, counters in range, the next
   sequence number follows the last enqueued one, queued sequence numbers increase *)
Definition wf (lo : Z) (s : sub) : Prop :=
  1 <= s_interval s /\ 2 <= s_maxlife s /\ 1 <= s_life s /\
  s_seqnext s = s_lastseq s + 1 /\ 0 <= s_lastseq s /\
  chain lo (map m_seq (s_notifs s)) (s_lastseq s).

(* everything update_state cannot touch *)
Definition same_but_sm (s s' : sub) : Prop :=
  same_static s s' /\ s_items s' = s_items s /\ s_seqnext s' = s_seqnext s /\
  s_lastseq s' = s_lastseq s /\ s_nextitem s' = s_nextitem s /\ s_lasttime s' = s_lasttime s /\
  s_notifs s' = s_notifs s.

Lemma same_but_sm_refl s : same_but_sm s s.
Proof. unfold same_but_sm. repeat split. Qed.
Lemma same_but_sm_trans a b c : same_but_sm a b -> same_but_sm b c -> same_but_sm a c.
Proof.
  unfold same_but_sm. intros (A0 & A1 & A2 & A3 & A4 & A5 & A6) (B0 & B1 & B2 & B3 & B4 & B5 & B6).
  split; [eapply same_static_trans; eassumption|]. repeat split; congruence.
Qed.

Ltac sm_setter := unfold same_but_sm, same_static; cbn; repeat split; reflexivity.

Lemma start_timer_sm s s' : start_timer s = Some s' -> same_but_sm s s' /\ s_life s' = s_life s - 1 /\
  s_state s' = s_state s /\ s_ka s' = s_ka s /\ s_fms s' = s_fms s.
Proof.
  unfold start_timer. destruct (s_life s <=? 0); [discriminate|]. intros H; inversion H.
  split; [sm_setter|]. cbn. repeat split.
Qed.

Lemma start_timer_some s : 1 <= s_life s -> exists s', start_timer s = Some s'.
Proof. intros H. unfold start_timer. destruct (Z.leb_spec (s_life s) 0); [lia|]. eauto. Qed.

(* the outcome of update_state, state by state *)
Definition live_state (st : Z) : Prop := st = 2 \/ st = 3 \/ st = 4.

Lemma us_closed s timer na more rq pie : s_state s = 0 ->
  update_state s timer na more rq pie = Some (ANone, s).
Proof. intros E. unfold update_state. rewrite E. reflexivity. Qed.

Lemma us_creating s timer na more rq pie : s_state s = 1 ->
  update_state s timer na more rq pie = Some (ACreated, set_fms (set_state s 2) false).
Proof. intros E. unfold update_state. rewrite E. reflexivity. Qed.

Lemma us_expired s timer na more rq pie : live_state (s_state s) -> s_life s = 1 ->
  update_state s timer na more rq pie = Some (AExpired, set_state s 0).
Proof. intros [E|[E|E]] L; unfold update_state; rewrite E, L; reflexivity. Qed.

(* live state, lifetime counter above 1: never a panic, never Created / Expired, the counter
   stays >= 1, nothing but the state-machine fields changes, and a payload collected in this
   cycle (na = pie = timer = true) is kept exactly when publishing is enabled *)
Lemma us_live s timer na more rq pie :
  live_state (s_state s) -> 2 <= s_maxlife s -> 2 <= s_life s ->
  exists a s', update_state s timer na more rq pie = Some (a, s') /\
    same_but_sm s s' /\ live_state (s_state s') /\ 1 <= s_life s' /\
    (a = ANone \/ a = AKeepAlive \/ a = ANotifs) /\
    (timer = true -> na = true -> pie = true ->
       if s_enabled s then a = ANone \/ a = ANotifs else a = ANone \/ a = AKeepAlive).
Proof.
  intros Hst Hml Hl.
  assert (Hne : (s_life s =? 1) = false) by (apply Z.eqb_neq; lia).
  assert (T1 : exists t, start_timer s = Some t) by (apply start_timer_some; lia).
  assert (T2 : exists t, start_timer (reset_life s) = Some t) by (apply start_timer_some; cbn; lia).
  destruct T1 as (t1 & Ht1). destruct T2 as (t2 & Ht2).
  destruct (start_timer_sm _ _ Ht1) as (F1 & L1 & S1 & K1 & M1).
  destruct (start_timer_sm _ _ Ht2) as (F2 & L2 & S2 & K2 & M2).
  cbn [reset_life s_life set_life] in L2.
  assert (F2' : same_but_sm s t2) by (eapply same_but_sm_trans; [|exact F2]; sm_setter).
  unfold update_state. rewrite Hne, Ht1, Ht2. cbn [bind].
  destruct Hst as [E|[E|E]]; rewrite E; cbn [Z.eqb Pos.eqb orb andb];
  destruct timer, na, more, rq, pie, (s_enabled s) eqn:Een, (s_fms s) eqn:Efm;
  cbn [negb andb orb];
  try (destruct (s_ka s =? 1) eqn:Ek1); try (destruct (1 <? s_ka s) eqn:Ek2); cbn [negb andb orb];
  rewrite ?Ht1, ?Ht2; cbn [bind];
  (eexists; eexists; split; [reflexivity|]);
  (split; [first [ apply same_but_sm_refl | exact F1 | exact F2'
                 | (eapply same_but_sm_trans; [exact F1|]; sm_setter)
                 | (eapply same_but_sm_trans; [exact F2'|]; sm_setter)
                 | sm_setter ]|]);
  (split; [unfold live_state; cbn; rewrite ?S1, ?S2, ?E; cbn; auto|]);
  (split; [cbn; rewrite ?L1, ?L2; cbn; lia|]);
  (split; [auto|]); intros; try discriminate; auto.
Qed.

(* ------------------------------------------------------------------ tick_items *)
Lemma tick_items_loop_no_pie : forall its vars now, snd (tick_items_loop its vars now false) = [].
Proof.
  induction its as [|it r IH]; intros vars now; [reflexivity|].
  cbn [tick_items_loop]. destruct (item_tick it vars now false) as [res it1].
  rewrite andb_false_r. specialize (IH vars now).
  destruct (tick_items_loop r vars now false) as [r' d']. cbn [snd] in *. subst. reflexivity.
Qed.

Lemma tick_items_spec s vars now pie :
  let '(its, d) := tick_items_loop (s_items s) vars now pie in
  tick_items s vars now pie =
    match d with
    | [] => (None, set_items s its)
    | _ => (Some (mk_msg (s_seqnext s) now 1 d), set_seqnext (set_items s its) (handle_next (s_seqnext s)))
    end.
Proof. unfold tick_items. destruct (tick_items_loop _ _ _ _) as [its d]. destruct d; reflexivity. Qed.

(* ------------------------------------------------------------------ handle_result *)
Lemma enqueue_ok lo s m :
  s_lastseq s + 1 < U32MAX -> 0 <= s_lastseq s -> m_seq m = s_lastseq s + 1 ->
  chain lo (map m_seq (s_notifs s)) (s_lastseq s) ->
  exists s', enqueue s m = Some s' /\ s_notifs s' = s_notifs s ++ [m] /\ s_lastseq s' = s_lastseq s + 1 /\
    chain lo (map m_seq (s_notifs s')) (s_lastseq s') /\
    s_seqnext s' = s_seqnext s /\ s_items s' = s_items s /\ s_state s' = s_state s /\
    s_life s' = s_life s /\ s_lasttime s' = s_lasttime s /\ s_nextitem s' = s_nextitem s /\ same_static s s'.
Proof.
  intros Hb H0 Hm Hc. unfold enqueue.
  destruct (Z.eqb_spec (s_lastseq s) U32MAX) as [E|E]; [lia|].
  replace (m_seq m =? s_lastseq s + 1) with true by (symmetry; apply Z.eqb_eq; exact Hm).
  eexists. split; [reflexivity|]. cbn.
  split; [reflexivity|]. split; [exact Hm|]. split.
  - rewrite map_app. cbn [map]. rewrite Hm. apply chain_app_next. exact Hc.
  - repeat split; reflexivity.
Qed.

(* what handle_state_result does to a subscription: appends [added] to the notification queue *)
Definition hr_post (lo : Z) (s3 s' : sub) (added : list msg) (keeps_items : bool) : Prop :=
  s_notifs s' = s_notifs s3 ++ added /\
  s_lastseq s3 <= s_lastseq s' <= s_lastseq s3 + 1 /\
  s_seqnext s' = s_lastseq s' + 1 /\
  chain lo (map m_seq (s_notifs s')) (s_lastseq s') /\
  s_state s' = s_state s3 /\ s_life s' = s_life s3 /\ s_lasttime s' = s_lasttime s3 /\
  s_nextitem s' = s_nextitem s3 /\ same_static s3 s' /\
  (keeps_items = true -> s_items s' = s_items s3).

Lemma enqueue_fresh_post lo s now kind :
  s_lastseq s + 2 < U32MAX -> 0 <= s_lastseq s -> s_seqnext s = s_lastseq s + 1 ->
  chain lo (map m_seq (s_notifs s)) (s_lastseq s) ->
  exists s', enqueue_fresh s now kind = Some s' /\
             hr_post lo s s' [mk_msg (s_lastseq s + 1) now kind []] true.
Proof.
  intros Hb H0 Hn Hc. unfold enqueue_fresh.
  destruct (enqueue_ok lo (set_seqnext s (handle_next (s_seqnext s))) (mk_msg (s_seqnext s) now kind []))
    as (s' & E & N & L & C & Q & I & St & Li & Lt & Ni & SS); cbn [s_lastseq set_seqnext s_notifs m_seq]; try lia; try assumption.
  exists s'. split; [exact E|]. cbn [s_lastseq set_seqnext s_notifs s_seqnext s_items s_state s_life s_lasttime s_nextitem] in *.
  assert (Hh : handle_next (s_lastseq s + 1) = s_lastseq s + 2).
  { unfold handle_next. destruct (Z.eqb_spec (s_lastseq s + 1) U32MAX); lia. }
  rewrite Hn in N, Q. rewrite Hh in Q.
  assert (SS' : same_static s s').
  { eapply same_static_trans; [|exact SS]. unfold same_static; cbn; repeat split. }
  unfold hr_post. split; [exact N|]. split; [lia|]. split; [lia|]. split; [exact C|].
  split; [exact St|]. split; [exact Li|]. split; [exact Lt|]. split; [exact Ni|]. split; [exact SS'|].
  intros _. exact I.
Qed.

Lemma hr_post_set_seqnext lo s3 x s' added k :
  hr_post lo (set_seqnext s3 x) s' added k -> hr_post lo s3 s' added k.
Proof.
  unfold hr_post. cbn [s_notifs s_lastseq s_state s_life s_lasttime s_nextitem s_items set_seqnext].
  intros (P1 & P2 & P3 & P4 & P5 & P6 & P7 & P8 & P9 & P10).
  split; [exact P1|]. split; [exact P2|]. split; [exact P3|]. split; [exact P4|]. split; [exact P5|].
  split; [exact P6|]. split; [exact P7|]. split; [exact P8|]. split; [|exact P10].
  eapply same_static_trans; [|exact P9]. unfold same_static; cbn; repeat split.
Qed.
Lemma hr_post_set_items lo s3 its s' added k :
  hr_post lo (set_items s3 its) s' added k -> hr_post lo s3 s' added false.
Proof.
  unfold hr_post. cbn [s_notifs s_lastseq s_state s_life s_lasttime s_nextitem s_items set_items].
  intros (P1 & P2 & P3 & P4 & P5 & P6 & P7 & P8 & P9 & P10).
  split; [exact P1|]. split; [exact P2|]. split; [exact P3|]. split; [exact P4|]. split; [exact P5|].
  split; [exact P6|]. split; [exact P7|]. split; [exact P8|]. split; [|discriminate].
  eapply same_static_trans; [|exact P9]. unfold same_static; cbn; repeat split.
Qed.
Lemma hr_post_refl lo s3 :
  s_seqnext s3 = s_lastseq s3 + 1 -> chain lo (map m_seq (s_notifs s3)) (s_lastseq s3) -> hr_post lo s3 s3 [] true.
Proof.
  intros Hn Hc. unfold hr_post. rewrite app_nil_r.
  split; [reflexivity|]. split; [lia|]. split; [exact Hn|]. split; [exact Hc|].
  repeat split.
Qed.
Lemma hr_post_enqueue lo s3 n :
  s_lastseq s3 + 2 < U32MAX -> 0 <= s_lastseq s3 -> s_seqnext s3 = s_lastseq s3 + 2 ->
  m_seq n = s_lastseq s3 + 1 -> chain lo (map m_seq (s_notifs s3)) (s_lastseq s3) ->
  exists s', enqueue s3 n = Some s' /\ hr_post lo s3 s' [n] true.
Proof.
  intros Hb H0 Hn Hm Hc.
  destruct (enqueue_ok lo s3 n) as (s' & E & N & L & C & Q & I & St & Li & Lt & Ni & SS); try lia; try assumption.
  exists s'. split; [exact E|]. unfold hr_post.
  split; [exact N|]. split; [lia|]. split; [lia|]. split; [exact C|].
  split; [exact St|]. split; [exact Li|]. split; [exact Lt|]. split; [exact Ni|]. split; [exact SS|].
  intros _. exact I.
Qed.

(* no payload was collected in this cycle *)
Lemma hr_none lo s3 now a :
  s_lastseq s3 + 2 < U32MAX -> 0 <= s_lastseq s3 -> s_seqnext s3 = s_lastseq s3 + 1 ->
  chain lo (map m_seq (s_notifs s3)) (s_lastseq s3) ->
  exists s' added, handle_result s3 now a None = Some s' /\
    hr_post lo s3 s' added (match a with AExpired => false | _ => true end) /\ data_of added = [].
Proof.
  intros Hb H0 Hn Hc.
  pose proof (hr_post_refl lo s3 Hn Hc) as Hrefl.
  destruct a; cbn [handle_result].
  - exists s3, []. auto.
  - destruct (enqueue_fresh_post lo s3 now 0 Hb H0 Hn Hc) as (s' & E & P). exists s', [mk_msg (s_lastseq s3 + 1) now 0 []]. auto.
  - exists s3, []. auto.
  - exists s3, []. auto.
  - destruct (enqueue_fresh_post lo (set_items s3 []) now 2) as (s' & E & P); cbn [s_lastseq s_seqnext s_notifs set_items]; try assumption.
    exists s', [mk_msg (s_lastseq s3 + 1) now 2 []]. split; [exact E|]. split; [|reflexivity].
    eapply hr_post_set_items. exact P.
Qed.

(* a payload n was collected: it took sequence number lastseq + 1 *)
Lemma hr_some lo s3 now a n :
  s_lastseq s3 + 2 < U32MAX -> 0 <= s_lastseq s3 -> s_seqnext s3 = s_lastseq s3 + 2 ->
  m_seq n = s_lastseq s3 + 1 ->
  chain lo (map m_seq (s_notifs s3)) (s_lastseq s3) ->
  a <> ACreated ->
  exists s' added, handle_result s3 now a (Some n) = Some s' /\
    hr_post lo s3 s' added (match a with AExpired => false | _ => true end) /\
    data_of added = (match a with
                     | ANone => if s_enabled s3 then data_of [n] else []
                     | ANotifs => data_of [n]
                     | _ => []
                     end).
Proof.
  intros Hb H0 Hn Hm Hc Hna.
  destruct a; cbn [handle_result]; try congruence.
  - (* None *)
    destruct (s_enabled s3).
    + destruct (hr_post_enqueue lo s3 n Hb H0 Hn Hm Hc) as (s' & E & P). exists s', [n]. auto.
    + exists (set_seqnext s3 (m_seq n)), []. split; [reflexivity|]. split; [|reflexivity].
      apply (hr_post_set_seqnext lo s3 (m_seq n)). apply hr_post_refl; cbn; [lia | exact Hc].
  - (* KeepAlive *)
    destruct (enqueue_fresh_post lo (set_seqnext s3 (m_seq n)) now 0) as (s' & E & P); cbn [s_lastseq s_seqnext s_notifs set_seqnext]; try assumption; try lia.
    exists s', [mk_msg (s_lastseq s3 + 1) now 0 []]. split; [exact E|]. split; [|reflexivity].
    eapply hr_post_set_seqnext. exact P.
  - (* Notifs *)
    destruct (hr_post_enqueue lo s3 n Hb H0 Hn Hm Hc) as (s' & E & P). exists s', [n]. auto.
  - (* Expired *)
    destruct (enqueue_fresh_post lo (set_items (set_seqnext s3 (m_seq n)) []) now 2) as (s' & E & P);
      cbn [s_lastseq s_seqnext s_notifs set_seqnext set_items]; try assumption; try lia.
    exists s', [mk_msg (s_lastseq s3 + 1) now 2 []]. split; [exact E|]. split; [|reflexivity].
    eapply hr_post_set_seqnext. eapply hr_post_set_items. exact P.
Qed.

(* ------------------------------------------------- update_state + handle_state_result *)
Definition notif_ok (s2 : sub) (timer na pie : bool) (notif : option msg) : Prop :=
  match notif with
  | None => s_seqnext s2 = s_lastseq s2 + 1
  | Some n => s_seqnext s2 = s_lastseq s2 + 2 /\ m_seq n = s_lastseq s2 + 1 /\ m_kind n = 1 /\
              timer = true /\ na = true /\ pie = true
  end.

Lemma post_phase lo s2 now timer na more rq pie notif :
  live_state (s_state s2) -> 2 <= s_maxlife s2 -> 1 <= s_life s2 -> 0 <= s_lastseq s2 ->
  s_lastseq s2 + 2 < U32MAX -> chain lo (map m_seq (s_notifs s2)) (s_lastseq s2) ->
  notif_ok s2 timer na pie notif ->
  exists a s3 s' added,
    update_state s2 timer na more rq pie = Some (a, s3) /\ handle_result s3 now a notif = Some s' /\
    s_notifs s' = s_notifs s2 ++ added /\
    s_lastseq s2 <= s_lastseq s' <= s_lastseq s2 + 1 /\ s_seqnext s' = s_lastseq s' + 1 /\
    chain lo (map m_seq (s_notifs s')) (s_lastseq s') /\ 1 <= s_life s' /\ same_static s2 s' /\
    s_lasttime s' = s_lasttime s2 /\ s_nextitem s' = s_nextitem s2 /\
    (s_state s' = 0 \/ live_state (s_state s')) /\
    (s_state s' = 0 -> data_of added = []) /\
    (s_state s' <> 0 -> s_items s' = s_items s2 /\
       data_of added = match notif with
                       | Some n => if s_enabled s2 then [m_data n] else []
                       | None => []
                       end).
Proof.
  intros Hst Hml Hl H0 Hb Hc Hn.
  destruct (Z.eq_dec (s_life s2) 1) as [L1|L1].
  - (* the lifetime counter ran out *)
    rewrite (us_expired s2 timer na more rq pie Hst L1).
    set (s3 := set_state s2 0).
    assert (P : exists s' added, handle_result s3 now AExpired notif = Some s' /\ hr_post lo s3 s' added false /\ data_of added = []).
    { destruct notif as [n|].
      - destruct Hn as (N1 & N2 & _). apply (hr_some lo s3 now AExpired n); cbn; try assumption; discriminate.
      - apply (hr_none lo s3 now AExpired); cbn; assumption. }
    destruct P as (s' & added & E & (P1 & P2 & P3 & P4 & P5 & P6 & P7 & P8 & P9 & _) & D).
    cbn [s3 s_notifs s_lastseq s_state s_life s_lasttime s_nextitem set_state] in *.
    exists AExpired, s3, s', added. split; [reflexivity|]. split; [exact E|].
    split; [exact P1|]. split; [exact P2|]. split; [exact P3|]. split; [exact P4|]. split; [lia|].
    split; [eapply same_static_trans; [|exact P9]; unfold same_static; cbn; repeat split|].
    split; [exact P7|]. split; [exact P8|]. split; [left; exact P5|]. split; [intros _; exact D|].
    intros Hne. congruence.
  - destruct (us_live s2 timer na more rq pie Hst Hml ltac:(lia)) as (a & s3 & E & F & Hst3 & Hl3 & Ha & Hdata).
    destruct F as (F0 & F1 & F2 & F3 & F4 & F5 & F6).
    assert (Hnc : a <> ACreated) by (destruct Ha as [->|[->| ->]]; discriminate).
    assert (Hki : (match a with AExpired => false | _ => true end) = true) by (destruct Ha as [->|[->| ->]]; reflexivity).
    assert (Hen : s_enabled s3 = s_enabled s2) by apply F0.
    assert (P : exists s' added, handle_result s3 now a notif = Some s' /\ hr_post lo s3 s' added true /\
              data_of added = match notif with Some n => if s_enabled s2 then [m_data n] else [] | None => [] end).
    { destruct notif as [n|].
      - destruct Hn as (N1 & N2 & N3 & -> & -> & ->). specialize (Hdata eq_refl eq_refl eq_refl).
        destruct (hr_some lo s3 now a n) as (s' & added & E' & P' & D'); rewrite ?F2, ?F3, ?F6; try assumption.
        rewrite Hki in P'. exists s', added. split; [exact E'|]. split; [exact P'|]. rewrite D', Hen.
        assert (Hd1 : data_of [n] = [m_data n]) by (unfold data_of; cbn; rewrite N3; reflexivity).
        destruct (s_enabled s2); destruct Hdata as [->| ->]; rewrite ?Hd1; reflexivity.
      - destruct (hr_none lo s3 now a) as (s' & added & E' & P' & D'); rewrite ?F2, ?F3, ?F6; try assumption.
        rewrite Hki in P'. exists s', added. auto. }
    destruct P as (s' & added & E' & (P1 & P2 & P3 & P4 & P5 & P6 & P7 & P8 & P9 & P10) & D).
    exists a, s3, s', added. split; [exact E|]. split; [exact E'|].
    rewrite F6 in P1. rewrite F3 in P2.
    split; [exact P1|]. split; [exact P2|]. split; [exact P3|]. split; [exact P4|]. split; [lia|].
    split; [eapply same_static_trans; eassumption|].
    split; [congruence|]. split; [congruence|]. split; [right; rewrite P5; exact Hst3|].
    split; [intros Hz; exfalso; rewrite P5 in Hz; destruct Hst3 as [?|[?|?]]; lia|].
    intros _. split; [rewrite (P10 eq_refl); exact F1 | exact D].
Qed.

(* ------------------------------------------------------ Subscription::tick as a whole *)
Definition abs_sub (s : sub) : ssub :=
  mk_ssub (s_id s) (s_interval s) (s_enabled s) (s_lasttime s) (s_items s) (s_nextitem s)
          (data_of (s_notifs s)).

(* what the reference evaluator does to a subscription in a tick, given its state before *)
Definition T (timer : bool) (st : Z) (vars : list Z) (now : Z) (p : ssub) : ssub :=
  if (st =? 0) || (st =? 1) then p
  else if timer then
    let pie := p_interval p <=? elapsed now (p_lasttime p) in
    let lt := if pie then now else p_lasttime p in
    let '(its, d) := tick_items_loop (p_items p) vars now pie in
    mk_ssub (p_id p) (p_interval p) (p_enabled p) lt its (p_nextitem p)
            (match d with
             | [] => p_pending p
             | _ => if p_enabled p then p_pending p ++ [d] else p_pending p
             end)
  else set_p_items p (fst (tick_items_loop (p_items p) vars now false)) (p_nextitem p).

Lemma state_cases st : st = 0 \/ st = 1 \/ live_state st \/ (st <> 0 /\ st <> 1 /\ ~ live_state st).
Proof. unfold live_state. lia. Qed.

(* the states that exist *)
Definition state_ok (s : sub) : Prop := s_state s = 0 \/ s_state s = 1 \/ live_state (s_state s).

Lemma sub_tick_summary lo s vars now timer rq :
  wf lo s -> state_ok s -> s_lastseq s + 2 < U32MAX ->
  exists s' added, sub_tick s vars now timer rq = Some s' /\
    wf lo s' /\ state_ok s' /\ same_static s s' /\ s_notifs s' = s_notifs s ++ added /\
    s_lastseq s <= s_lastseq s' <= s_lastseq s + 1 /\
    (s_state s = 0 -> s_state s' = 0) /\
    exists extra, p_pending (T timer (s_state s) vars now (abs_sub s)) = data_of (s_notifs s') ++ extra /\
      (s_state s' <> 0 -> extra = [] /\ abs_sub s' = T timer (s_state s) vars now (abs_sub s)).
Proof.
  intros (W1 & W2 & W3 & W4 & W5 & W6) Hso Hb.
  unfold sub_tick, sub_tick_g.
  (* the publishing interval *)
  set (pre := if timer then _ else _).
  assert (Hpre : exists pie s1, pre = Some (pie, s1) /\
            (s1 = s \/ s1 = set_lasttime s now) /\
            (timer = false -> pie = false /\ s1 = s) /\
            (timer = true -> s_state s = 1 -> pie = true /\ s1 = s) /\
            (timer = true -> s_state s <> 1 ->
               pie = (s_interval s <=? elapsed now (s_lasttime s)) /\
               s1 = if pie then set_lasttime s now else s)).
  { subst pre. destruct timer.
    - destruct (Z.eqb_spec (s_state s) 1) as [E|E].
      + exists true, s. repeat split; auto; congruence.
      + destruct (Z.leb_spec (s_interval s) 0); [lia|].
        destruct (s_interval s <=? elapsed now (s_lasttime s)) eqn:Ep.
        * exists true, (set_lasttime s now). repeat split; auto; try congruence.
        * exists false, s. repeat split; auto; try congruence.
    - exists false, s. repeat split; auto; discriminate. }
  destruct Hpre as (pie & s1 & -> & Hs1 & Hrecv & Hcr & Hlive). cbn [bind].
  assert (S1 : s_state s1 = s_state s /\ s_notifs s1 = s_notifs s /\ s_items s1 = s_items s /\
               s_lastseq s1 = s_lastseq s /\ s_seqnext s1 = s_seqnext s /\ s_life s1 = s_life s /\
               s_maxlife s1 = s_maxlife s /\ s_nextitem s1 = s_nextitem s /\ same_static s s1 /\
               s_enabled s1 = s_enabled s).
  { destruct Hs1 as [-> | ->]; cbn; repeat split. }
  destruct S1 as (A1 & A2 & A3 & A4 & A5 & A6 & A7 & A8 & A9 & A10).
  destruct Hso as [E0|[E1|HL]].
  - (* Closed: nothing happens any more *)
    rewrite A1, E0. cbn [Z.eqb orb].
    assert (Hres : (if negb (is_nil (s_notifs s1)) || is_some (@None msg) || pie || rq
                    then bind (update_state s1 timer (negb (is_nil (s_notifs s1)) || is_some (@None msg))
                                            (1 <? len (s_notifs s1)) rq pie)
                              (fun r => handle_result (snd r) now (fst r) None)
                    else Some s1) = Some s1).
    { destruct (_ || _ || _ || _); [|reflexivity]. rewrite us_closed by congruence. reflexivity. }
    rewrite Hres. exists s1, []. split; [reflexivity|].
    split; [unfold wf; rewrite A2, A4, A5, A6, A7; destruct A9 as (_ & _ & -> & _); repeat split; assumption|].
    split; [left; congruence|]. split; [exact A9|]. split; [rewrite app_nil_r; exact A2|].
    split; [lia|]. split; [intros _; congruence|].
    exists []. unfold T. cbn [Z.eqb orb]. rewrite app_nil_r. cbn [abs_sub p_pending]. rewrite A2.
    split; [reflexivity|]. intros Hne. congruence.
  - (* Creating *)
    rewrite A1, E1. cbn [Z.eqb orb Pos.eqb].
    assert (Hs1s : s1 = s).
    { destruct timer; [apply (Hcr eq_refl E1) | apply (Hrecv eq_refl)]. }
    subst s1. cbn [is_some orb].
    exists (if negb (is_nil (s_notifs s)) || false || pie || rq then set_fms (set_state s 2) false else s), [].
    split.
    { destruct (_ || _ || _ || _); [|reflexivity]. rewrite us_creating by exact E1. reflexivity. }
    assert (Hw : forall x, x = set_fms (set_state s 2) false \/ x = s ->
                 wf lo x /\ state_ok x /\ same_static s x /\ s_notifs x = s_notifs s ++ [] /\
                 s_lastseq s <= s_lastseq x <= s_lastseq s + 1 /\ abs_sub x = abs_sub s /\ s_state x <> 0).
    { intros x [-> | ->]; rewrite app_nil_r; unfold wf, state_ok, live_state, same_static, abs_sub; cbn;
      repeat split; try assumption; try lia; auto. }
    destruct (Hw (if negb (is_nil (s_notifs s)) || false || pie || rq then set_fms (set_state s 2) false else s))
      as (X1 & X2 & X3 & X4 & X5 & X6 & X7); [destruct (_ || _ || _ || _); auto|].
    split; [exact X1|]. split; [exact X2|]. split; [exact X3|]. split; [exact X4|]. split; [exact X5|].
    split; [intros Hz; discriminate|].
    exists []. unfold T. cbn [Z.eqb Pos.eqb orb]. rewrite app_nil_r.
    split; [cbn [abs_sub p_pending]; rewrite X4, app_nil_r; reflexivity | intros _; split; [reflexivity | exact X6]].
  - (* Normal / Late / KeepAlive: the items are ticked *)
    assert (Hnz : ((s_state s =? 0) || (s_state s =? 1)) = false).
    { destruct HL as [E|[E|E]]; rewrite E; reflexivity. }
    rewrite A1, Hnz.
    assert (Hne1 : s_state s <> 1) by (destruct HL as [E|[E|E]]; lia).
    pose proof (tick_items_spec s1 vars now pie) as Hti. rewrite A3 in Hti.
    destruct (tick_items_loop (s_items s) vars now pie) as [its d] eqn:Eloop.
    assert (Hd : pie = false -> d = []).
    { intros ->. pose proof (tick_items_loop_no_pie (s_items s) vars now) as H. rewrite Eloop in H. exact H. }
    assert (Htimer : pie = true -> timer = true).
    { destruct timer; [reflexivity|]. destruct (Hrecv eq_refl) as [-> _]. discriminate. }
    (* what the reference evaluator computes *)
    assert (HT : T timer (s_state s) vars now (abs_sub s) =
                 mk_ssub (s_id s) (s_interval s) (s_enabled s) (s_lasttime s1) its (s_nextitem s)
                         (match d with
                          | [] => data_of (s_notifs s)
                          | _ => if s_enabled s then data_of (s_notifs s) ++ [d] else data_of (s_notifs s)
                          end)).
    { unfold T. rewrite Hnz. cbn [abs_sub p_interval p_lasttime p_items p_id p_enabled p_nextitem p_pending].
      destruct timer.
      - destruct (Hlive eq_refl Hne1) as [Hp Hs1']. rewrite <- Hp, Eloop.
        f_equal. rewrite Hs1'. destruct pie; reflexivity.
      - destruct (Hrecv eq_refl) as [-> ->]. rewrite Eloop. rewrite (Hd eq_refl). reflexivity. }
    rewrite HT. cbn [p_pending].
    set (s2 := snd (tick_items s1 vars now pie)).
    set (notif := fst (tick_items s1 vars now pie)).
    assert (Hs2 : tick_items s1 vars now pie = (notif, s2)) by (subst s2 notif; destruct (tick_items _ _ _ _); reflexivity).
    rewrite Hs2.
    assert (Hn : handle_next (s_seqnext s1) = s_lastseq s + 2).
    { rewrite A5, W4. unfold handle_next. destruct (Z.eqb_spec (s_lastseq s + 1) U32MAX); lia. }
    assert (S2 : s_state s2 = s_state s /\ s_notifs s2 = s_notifs s /\ s_items s2 = its /\
                 s_lastseq s2 = s_lastseq s /\ s_life s2 = s_life s /\ s_maxlife s2 = s_maxlife s /\
                 s_nextitem s2 = s_nextitem s /\ same_static s s2 /\ s_lasttime s2 = s_lasttime s1 /\
                 s_enabled s2 = s_enabled s /\
                 match d with
                 | [] => notif = None /\ s_seqnext s2 = s_lastseq s + 1
                 | _ => notif = Some (mk_msg (s_lastseq s + 1) now 1 d) /\ s_seqnext s2 = s_lastseq s + 2
                 end).
    { subst s2 notif. rewrite Hti. destruct d; cbn [fst snd];
      cbn [s_state s_notifs s_items s_lastseq s_life s_maxlife s_nextitem s_lasttime s_seqnext s_enabled set_items set_seqnext];
      rewrite ?Hn, ?A5, ?W4; (repeat split; try assumption);
      (eapply same_static_trans; [exact A9|]; unfold same_static; cbn; repeat split). }
    destruct S2 as (B1 & B2 & B3 & B4 & B5 & B6 & B7 & B8 & B9 & B10 & B11).
    set (na := negb (is_nil (s_notifs s2)) || is_some notif).
    destruct (na || pie || rq) eqn:Econd.
    + (* the state machine runs *)
      assert (Hnok : notif_ok s2 timer na pie notif).
      { unfold notif_ok. destruct d as [|d0 dr].
        - destruct B11 as [-> Hq]. rewrite B4. exact Hq.
        - destruct B11 as [-> Hq]. rewrite B4. cbn [m_seq m_kind].
          assert (Hp : pie = true) by (destruct pie; [reflexivity | specialize (Hd eq_refl); discriminate]).
          repeat split; auto. subst na. cbn [is_some]. apply orb_true_r. }
      assert (Q1 : live_state (s_state s2)) by (rewrite B1; exact HL).
      assert (Q2 : 2 <= s_maxlife s2) by (rewrite B6; exact W2).
      assert (Q3 : 1 <= s_life s2) by (rewrite B5; exact W3).
      assert (Q4 : 0 <= s_lastseq s2) by (rewrite B4; exact W5).
      assert (Q5 : s_lastseq s2 + 2 < U32MAX) by (rewrite B4; exact Hb).
      assert (Q6 : chain lo (map m_seq (s_notifs s2)) (s_lastseq s2)) by (rewrite B2, B4; exact W6).
      destruct (post_phase lo s2 now timer na (1 <? len (s_notifs s2)) rq pie notif Q1 Q2 Q3 Q4 Q5 Q6 Hnok) as
        (a & s3 & s' & added & E & E' & P1 & P2 & P3 & P4 & P5 & P6 & P7 & P8 & P9 & P10 & P11).
      unfold bind. rewrite E. cbn [fst snd]. rewrite E'.
      rewrite B2 in P1. rewrite B4 in P2.
      exists s', added. split; [reflexivity|].
      assert (SS : same_static s s') by (eapply same_static_trans; eassumption).
      split.
      { unfold wf. destruct SS as (_ & _ & Ei & Em & _). rewrite Ei, Em. repeat split; try assumption; lia. }
      split; [destruct P9 as [Z0|ZL]; [left; exact Z0 | right; right; exact ZL]|].
      split; [exact SS|]. split; [exact P1|]. split; [exact P2|].
      split; [intros Hz; destruct HL as [?|[?|?]]; lia|].
      rewrite P1, data_of_app.
      destruct (Z.eq_dec (s_state s') 0) as [Z0|Z0].
      * rewrite (P10 Z0), app_nil_r.
        exists (match d with [] => [] | _ => if s_enabled s then [d] else [] end).
        split; [destruct d; [rewrite app_nil_r; reflexivity | destruct (s_enabled s); [reflexivity | rewrite app_nil_r; reflexivity]]|].
        intros Hne. contradiction.
      * destruct (P11 Z0) as [Hit Hda]. rewrite Hda, B10.
        exists []. rewrite app_nil_r.
        assert (Hpend : (match d with [] => data_of (s_notifs s) | _ => if s_enabled s then data_of (s_notifs s) ++ [d] else data_of (s_notifs s) end)
                        = data_of (s_notifs s) ++ match notif with Some n => if s_enabled s then [m_data n] else [] | None => [] end).
        { destruct d; destruct B11 as [-> _]; [rewrite app_nil_r; reflexivity|].
          cbn [m_data]. destruct (s_enabled s); [reflexivity | rewrite app_nil_r; reflexivity]. }
        split; [exact Hpend|]. intros _. split; [reflexivity|].
        unfold abs_sub. rewrite P1, data_of_app, Hda, B10, Hit, B3, P7, B9, P8, B7.
        destruct SS as (Eid & _ & Ei & _ & _ & Een). rewrite Eid, Ei, Een, <- Hpend. reflexivity.
    + (* nothing to do: no notification, interval not elapsed, no request *)
      assert (Hnone : notif = None /\ d = []).
      { destruct d; [destruct B11; auto|]. destruct B11 as [Hn' _]. subst na. rewrite Hn' in Econd. cbn in Econd.
        rewrite orb_true_r in Econd. discriminate. }
      destruct Hnone as [Hn' ->]. destruct B11 as [_ Hq].
      exists s2, []. split; [reflexivity|]. rewrite app_nil_r.
      split.
      { unfold wf. destruct B8 as (_ & _ & Ei & Em & _). rewrite Ei, Em, B2, B4, B5. repeat split; try assumption; lia. }
      split; [right; right; rewrite B1; exact HL|].
      split; [exact B8|]. split; [exact B2|]. split; [lia|].
      split; [intros Hz; destruct HL as [?|[?|?]]; lia|].
      exists []. rewrite app_nil_r, B2. split; [reflexivity|]. intros _. split; [reflexivity|].
      unfold abs_sub. rewrite B2, B3, B9, B7. destruct B8 as (Eid & _ & Ei & _ & _ & Een). rewrite Eid, Ei, Een. reflexivity.
Qed.
