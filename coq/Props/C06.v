(* C06 — Implicit Variant conversion never changes a numeric value.  Statements only.

   [gen_cfg] is the configuration TRANSLATED from lib/src/types/variant.rs (Gen/C06Table.v): the
   (source, target, rule) arms of Variant::convert, the explicit arms of Variant::cast and the
   comparators of the cast macros.  [convert] / [cast] interpret it with Rust's semantics of `as`,
   try_from, f64::round and IEEE comparison (C06/Model.v).  Floats are Flocq binary_float; [valR] is
   the real number a value denotes, ZnearestA is rounding to the nearest integer with ties away
   from zero, `round radix2 (FLT_exp emin prec) ZnearestE` is IEEE round-to-nearest-even. *)
From Coq Require Import List ZArith Bool Reals.
From Flocq Require Import Core IEEE754.BinarySingleNaN.
From OV Require Import C06.Model C06.Spec C06.Proofs C06.OracleProofs C06.Examples.
Import ListNotations.
Open Scope Z_scope.

(* The translated tables have the shape the generic theorems need: every implicit integer arm is a
   widening `as`, a try_from or a `v < 0` guard into an unsigned type at least as wide; integer ->
   float and Float -> Double are `as`; no implicit float -> integer or Double -> Float arm; every
   remaining numeric pair has a cast_to_integer! / cast_float_to_integer!(round(v)) / `as f32` arm;
   the macros compare with <, >=, <= / >=, < (MAX + 1.0); and both float bounds are exact. *)
Theorem C06_table_ok : cfg_ok gen_cfg = true.
Proof. exact gen_cfg_ok. Qed.
Print Assumptions C06_table_ok.

(* Key lemma of the repaired cast: for every integer type, in both float formats, `MIN as f` is MIN
   and `(MAX as f) + 1.0` is exactly 2^k (k = bits, or bits - 1 for a signed type), so that
   MIN <= v < MAX + 1 compared as floats is the exact range test. *)
Theorem C06_range_bounds : forall s b, In (s, b) int_types ->
  (B2R (f_of_Z 24 128 (pmin s b)) = IZR (pmin s b) /\
   B2R (f_upper 24 128 true (pmax s b)) = IZR (2 ^ (if s then b - 1 else b)) /\
   B2R (f_of_Z 53 1024 (pmin s b)) = IZR (pmin s b) /\
   B2R (f_upper 53 1024 true (pmax s b)) = IZR (2 ^ (if s then b - 1 else b)))%R.
Proof. exact range_bounds_real. Qed.
Print Assumptions C06_range_bounds.

(* Implicit conversion, every numeric source / target pair, every source value: a result has the
   target type, the class (finite / +inf / -inf / NaN) of the source and, for a finite source, denotes
   the same number — exactly for an integer target, the nearest representable value (ties to even)
   for a float target, the source being inside the float target's range; conversion to Double never
   fails, to Float it fails only from Double (not an implicit conversion). *)
Theorem C06_implicit : forall src tgt ks kt v,
  num_of src = Some ks -> num_of tgt = Some kt -> well_typed src v ->
  match convert gen_cfg src tgt v with
  | Res t w => t = tgt /\ well_typed tgt w /\ val_class w = val_class v /\
               (finite_val v = true ->
                match kt with
                | NInt _ _ => valR w = valR v
                | NF32 => valR w = round radix2 (FLT_exp (-149) 24) ZnearestE (valR v) /\
                          (Rabs (valR v) <= IZR (2 ^ 24 - 1) * bpow radix2 104)%R
                | NF64 => valR w = round radix2 (FLT_exp (-1074) 53) ZnearestE (valR v) /\
                          (Rabs (valR v) <= IZR (2 ^ 53 - 1) * bpow radix2 971)%R
                end)
  | Empty => match kt with NInt _ _ => True | NF32 => ks = NF64 | NF64 => False end
  | Unmodelled => False
  end.
Proof.
  intros src tgt ks kt v Hs Ht Hv.
  pose proof (convert_correct gen_cfg src tgt ks kt v gen_cfg_ok Hs Ht Hv) as H.
  destruct (convert gen_cfg src tgt v); [|exact H|exact H].
  destruct H as (H1 & H2 & H3 & H4). repeat split; try assumption.
  intros Hf. destruct (H4 Hf) as [Hd Hr]. destruct kt; [exact Hd | split; assumption | split; assumption].
Qed.
Print Assumptions C06_implicit.

(* A value outside the range of an integer target yields no result. *)
Theorem C06_implicit_none : forall src tgt ks ts tb v,
  num_of src = Some ks -> num_of tgt = Some (NInt ts tb) -> well_typed src v -> finite_val v = true ->
  (valR v < IZR (pmin ts tb) \/ IZR (pmax ts tb) < valR v)%R ->
  convert gen_cfg src tgt v = Empty.
Proof. intros src tgt ks ts tb v. apply convert_out_of_range. exact gen_cfg_ok. Qed.
Print Assumptions C06_implicit_none.

(* Explicit cast to an integer type, every numeric source type and value: the result is the source
   rounded to the nearest integer (ties away from zero; an integer source is unchanged), and there
   is no result exactly when the source is NaN / infinite or the rounded value is out of range. *)
Theorem C06_cast : forall src tgt ks ts tb v,
  num_of src = Some ks -> num_of tgt = Some (NInt ts tb) -> well_typed src v ->
  cast gen_cfg src tgt v =
  if finite_val v && in_range ts tb (ZnearestA (valR v))
  then Res tgt (VInt (ZnearestA (valR v))) else Empty.
Proof. intros src tgt ks ts tb v. apply cast_to_int_correct. exact gen_cfg_ok. Qed.
Print Assumptions C06_cast.

(* Explicit cast to a float type always yields a value of that type: the class of a non-finite
   source is kept, a finite source inside the target's range gives the nearest representable value
   (outside: Double -> Float rounds like `as f32`). *)
Theorem C06_cast_float : forall src tgt ks kt v,
  num_of src = Some ks -> num_of tgt = Some kt -> kt = NF32 \/ kt = NF64 -> well_typed src v ->
  exists w, cast gen_cfg src tgt v = Res tgt w /\ well_typed tgt w /\
    (finite_val v = false -> val_class w = val_class v) /\
    (finite_val v = true -> in_float_range kt v -> val_class w = CFinite /\ denotes kt w v).
Proof. intros src tgt ks kt v. apply cast_to_float_correct. exact gen_cfg_ok. Qed.
Print Assumptions C06_cast_float.

(* The decidable oracle used by the correspondence run (exact dyadic arithmetic on Z, no float
   operation) holds of the model's output on every valid case. *)
Theorem C06_oracle : forall c, valid c -> known c = 0 -> oracle c (run c) = true.
Proof. exact oracle_holds. Qed.
Print Assumptions C06_oracle.

(* The pinned code before the fixes violates the property: implicit unsigned -> signed wrapped, the
   float casts did not round to nearest and accepted NaN, UInt64 -> Int32 had no cast arm. *)
Theorem C06_legacy_refuted_convert :
  exists c, valid c /\ c_op c = Convert /\ oracle c (run_with Legacy.cfg c) = false.
Proof. exact legacy_refuted_convert. Qed.
Print Assumptions C06_legacy_refuted_convert.

Theorem C06_legacy_refuted_cast :
  exists c, valid c /\ c_op c = Cast /\ oracle c (run_with Legacy.cfg c) = false.
Proof. exact legacy_refuted_cast_round. Qed.
Print Assumptions C06_legacy_refuted_cast.

Theorem C06_legacy_refuted_cast_missing_arm :
  exists c, valid c /\ c_op c = Cast /\
            run1 Legacy.cfg Cast (c_src c) (c_tgt c) 5 = [-1; 0] /\ run1 gen_cfg Cast (c_src c) (c_tgt c) 5 = [6; 5] /\
            payloads c = [5] /\ oracle c (run_with Legacy.cfg c) = false.
Proof. exact legacy_refuted_cast_missing. Qed.
Print Assumptions C06_legacy_refuted_cast_missing_arm.
