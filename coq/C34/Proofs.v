From Coq Require Import List ZArith Znumtheory Bool Lia.
From OV Require Import Gen.C34RefTypes C34.Model.
Import ListNotations.
Open Scope Z_scope.

Lemma U32_pos : 0 < U32. Proof. reflexivity. Qed.
Lemma U64_U32 : U64 = U32 * U32. Proof. reflexivity. Qed.

Lemma node_exists_In : forall ns id, node_exists ns id = true <-> In id (map n_id ns).
Proof.
  intros ns id. unfold node_exists. rewrite existsb_exists. split.
  - intros [n [Hin He]]. apply Z.eqb_eq in He. subst. apply in_map. exact Hin.
  - intros Hin. apply in_map_iff in Hin as [n [He Hin]]. exists n. split; [exact Hin | apply Z.eqb_eq; exact He].
Qed.

Lemma NoDup_map_inj_on {A B} (f : A -> B) (l : list A) :
  NoDup l -> (forall x y, In x l -> In y l -> f x = f y -> x = y) -> NoDup (map f l).
Proof.
  induction 1 as [|a l Hna Hnd IH]; intros Hinj; cbn; constructor.
  - intro Hin. apply in_map_iff in Hin as [y [He Hy]].
    assert (y = a) by (apply Hinj; [right; exact Hy | left; reflexivity | exact He]). subst. contradiction.
  - apply IH. intros x y Hx Hy. apply Hinj; right; assumption.
Qed.

Definition id_at (c0 : Z) (j : nat) : Z := U32 + (c0 + Z.of_nat j) mod U32.

Lemma id_at_inj : forall c0 i j, Z.of_nat i < U32 -> Z.of_nat j < U32 -> id_at c0 i = id_at c0 j -> i = j.
Proof.
  intros c0 i j Hi Hj H. unfold id_at in H.
  assert (E : (c0 + Z.of_nat i) mod U32 = (c0 + Z.of_nat j) mod U32) by lia.
  pose proof U32_pos.
  assert (D : (Z.of_nat i - Z.of_nat j) mod U32 = 0).
  { replace (Z.of_nat i - Z.of_nat j) with ((c0 + Z.of_nat i) - (c0 + Z.of_nat j)) by lia.
    rewrite Zminus_mod, E, Z.sub_diag. apply Z.mod_0_l. lia. }
  apply Z.mod_divide in D; [|lia]. destruct D as [q Hq].
  assert (q = 0) by nia. lia.
Qed.

Lemma pigeon : forall ns l, NoDup l -> (forall x, In x l -> node_exists ns x = true) -> (length l <= length ns)%nat.
Proof.
  intros ns l Hnd Hall. rewrite <- (map_length n_id ns). apply NoDup_incl_length; [exact Hnd|].
  intros x Hx. apply node_exists_In. apply Hall. exact Hx.
Qed.

Lemma next_ctr_mod : forall c, next_ctr c mod U32 = (c + 1) mod U32.
Proof.
  intros c. unfold next_ctr. symmetry. apply Zmod_div_mod; [reflexivity | reflexivity |].
  exists U32. reflexivity.
Qed.

Lemma alloc_aux : forall fuel k c0 c ns,
  (k + fuel = length ns)%nat -> Z.of_nat (length ns) < U32 ->
  c mod U32 = (c0 + Z.of_nat k) mod U32 ->
  (forall j, (j < k)%nat -> node_exists ns (id_at c0 j) = true) ->
  node_exists ns (fst (alloc fuel ns c)) = false.
Proof.
  induction fuel as [|f IH]; intros k c0 c ns Hlen Hsz Hc Hprev; cbn [alloc].
  - cbn [fst]. destruct (node_exists ns (id_of_ctr c)) eqn:He; [|reflexivity]. exfalso.
    assert (Hid : id_of_ctr c = id_at c0 k) by (unfold id_of_ctr, id_at; rewrite Hc; reflexivity).
    assert (Hall : forall x, In x (map (id_at c0) (seq 0 (S k))) -> node_exists ns x = true).
    { intros x Hx. apply in_map_iff in Hx as [j [Hj Hin]]. apply in_seq in Hin. subst x.
      destruct (Nat.eq_dec j k) as [->|Hne]; [rewrite <- Hid; exact He | apply Hprev; lia]. }
    assert (Hnd : NoDup (map (id_at c0) (seq 0 (S k)))).
    { apply NoDup_map_inj_on; [apply seq_NoDup|]. intros x y Hx Hy. apply in_seq in Hx, Hy. apply id_at_inj; lia. }
    pose proof (pigeon ns _ Hnd Hall) as Hp. rewrite map_length, seq_length in Hp. lia.
  - destruct (node_exists ns (id_of_ctr c)) eqn:He; [|cbn [fst]; exact He].
    apply (IH (S k) c0); [lia | exact Hsz | |].
    + rewrite next_ctr_mod. rewrite <- Zplus_mod_idemp_l, Hc, Zplus_mod_idemp_l. f_equal. lia.
    + intros j Hj. destruct (Nat.eq_dec j k) as [->|Hne]; [|apply Hprev; lia].
      replace (id_at c0 k) with (id_of_ctr c); [exact He|]. unfold id_of_ctr, id_at. rewrite Hc. reflexivity.
Qed.

Lemma alloc_fresh : forall ns c, Z.of_nat (length ns) < U32 ->
  node_exists ns (fst (alloc (length ns) ns c)) = false.
Proof.
  intros ns c Hsz. apply (alloc_aux (length ns) 0 c c ns); [lia | exact Hsz | f_equal; lia |].
  intros j Hj. lia.
Qed.

(* ---- references ---- *)
Lemma ref_eqb_refl : forall r, ref_eqb r r = true.
Proof. intros [[s t] d]. cbn. rewrite !Z.eqb_refl. reflexivity. Qed.
Lemma ref_eqb_eq : forall a b, ref_eqb a b = true <-> a = b.
Proof.
  intros [[s1 t1] d1] [[s2 t2] d2]. cbn. rewrite !andb_true_iff, !Z.eqb_eq. split.
  - intros [[-> ->] ->]. reflexivity.
  - intros H. inversion H. auto.
Qed.
Lemma has_ref_In : forall rs r, has_ref rs r = true <-> In r rs.
Proof.
  intros rs r. unfold has_ref. rewrite existsb_exists. split.
  - intros [x [Hin He]]. apply ref_eqb_eq in He. subst. exact Hin.
  - intros Hin. exists r. split; [exact Hin | apply ref_eqb_refl].
Qed.
Lemma has_ref_insert_same : forall rs r, has_ref (insert_ref rs r) r = true.
Proof.
  intros rs r. unfold insert_ref. destruct (has_ref rs r) eqn:H; [exact H|].
  apply has_ref_In. apply in_or_app. right. left. reflexivity.
Qed.
Lemma has_ref_insert_mono : forall rs r x, has_ref rs x = true -> has_ref (insert_ref rs r) x = true.
Proof.
  intros rs r x H. unfold insert_ref. destruct (has_ref rs r); [exact H|].
  apply has_ref_In. apply in_or_app. left. apply has_ref_In. exact H.
Qed.
Lemma find_node_exists : forall ns id n, find_node ns id = Some n -> node_exists ns id = true.
Proof.
  intros ns id n H. unfold find_node in H. apply find_some in H as [Hin He].
  unfold node_exists. apply existsb_exists. exists n. split; assumption.
Qed.
Lemma node_exists_app : forall ns ms id, node_exists (ns ++ ms) id = node_exists ns id || node_exists ms id.
Proof. intros. unfold node_exists. apply existsb_app. Qed.

Lemma alloc_form : forall fuel ns c, exists c2, fst (alloc fuel ns c) = id_of_ctr c2.
Proof.
  induction fuel as [|f IH]; intros ns c; cbn [alloc].
  - exists c. reflexivity.
  - destruct (node_exists ns (id_of_ctr c)); [apply IH | exists c; reflexivity].
Qed.
Lemma ns_of_id_of_ctr : forall c, ns_of (id_of_ctr c) = 1.
Proof.
  intros c. unfold ns_of, id_of_ctr. pose proof U32_pos. pose proof (Z.mod_pos_bound c U32 H).
  replace (U32 + c mod U32) with (1 * U32 + c mod U32) by lia.
  rewrite Z.div_add_l by lia. rewrite Z.div_small by lia. reflexivity.
Qed.
Lemma id_of_ctr_pos : forall c, 0 < id_of_ctr c.
Proof. intros c. unfold id_of_ctr. pose proof U32_pos. pose proof (Z.mod_pos_bound c U32 H). lia. Qed.

Lemma valid_typedef_exists : forall ns class td, (class = 1 \/ class = 2) -> valid_typedef ns class td = true -> node_exists ns td = true.
Proof.
  intros ns class td [-> | ->]; cbn; intros H; apply andb_true_iff in H as [_ H];
    destruct (find_node ns td) eqn:F; try discriminate; eapply find_node_exists; exact F.
Qed.

(* what a Good AddNodes item establishes, and what every other outcome leaves alone *)
Record add_good (s : st) (i : an_item) (r : res) : Prop := {
  ag_psrv : a_parent_srv i = 0;
  ag_id : r_id r <> 0;
  ag_req : a_req i <> 0 -> r_id r = a_req i;
  ag_auto : a_req i = 0 -> ns_of (r_id r) = 1;
  ag_new : node_exists (nodes s) (r_id r) = false;
  ag_parent : node_exists (nodes s) (a_parent i) = true;
  ag_nodes : nodes (r_st r) = nodes s ++ [mk_node (r_id r) (a_class i) (a_bns i) (a_bname i)];
  ag_ref : has_ref (refs (r_st r)) (a_parent i, a_reftype i, r_id r) = true;
  ag_refs_kept : forall x, has_ref (refs s) x = true -> has_ref (refs (r_st r)) x = true
}.
Definition unchanged (s : st) (r : res) : Prop := nodes (r_st r) = nodes s /\ refs (r_st r) = refs s.

Ltac dif := match goal with |- context [if ?b then _ else _] => destruct b eqn:? end.

Lemma add_node_spec : forall nslen can s i,
  1 <= nslen -> Z.of_nat (length (nodes s)) < U32 ->
  let r := add_node fixed_cfg nslen can s i in
  0 <= r_status r /\
  (r_status r <> 0 -> unchanged s r /\ r_id r = 0 /\ (r_status r = 5 -> a_bname i < 2)) /\
  (r_status r = 0 -> add_good s i r).
Proof.
  intros nslen can s i Hns Hsz. unfold add_node. cbn [fixed_cfg f_bname f_alloc f_dir f_psrv f_delchild f_nsguard f_selfref f_dims f_nsname].
  cbn [negb andb].
  assert (B : forall c s', nodes s' = nodes s -> refs s' = refs s -> 0 <= c -> c <> 0 -> (c = 5 -> a_bname i < 2) ->
            let r := mk_res c 0 s' in 0 <= r_status r /\ (r_status r <> 0 -> unchanged s r /\ r_id r = 0 /\ (r_status r = 5 -> a_bname i < 2)) /\ (r_status r = 0 -> add_good s i r)).
  { intros c s' Hn Hr Hc Hc0 H5. cbn. repeat split; try assumption; try lia. }
  repeat (dif; [apply B; first [reflexivity | lia | (intros _; apply Z.ltb_lt; assumption)]|]).
  rewrite ?andb_false_l, ?andb_true_l in *.
  (* allocation *)
  set (pr := if a_req i =? 0 then alloc (length (nodes s)) (nodes s) (ctr s) else (a_req i, ctr s)).
  assert (Hpr : node_exists (nodes s) (fst pr) = false /\ ns_of (fst pr) <= nslen /\ fst pr <> 0 /\ (a_req i <> 0 -> fst pr = a_req i) /\ (a_req i = 0 -> ns_of (fst pr) = 1)).
  { subst pr. destruct (a_req i =? 0) eqn:Hq.
    - split; [apply alloc_fresh; exact Hsz|]. destruct (alloc_form (length (nodes s)) (nodes s) (ctr s)) as [c2 ->].
      rewrite ns_of_id_of_ctr. pose proof (id_of_ctr_pos c2). apply Z.eqb_eq in Hq. repeat split; lia.
    - cbn [fst]. apply Z.eqb_neq in Hq. split; [|split; [|split; [|split; [|intro; contradiction]]]].
      + match goal with H : negb _ && node_exists _ _ = false |- _ => cbn in H; exact H end.
      + match goal with H : (_ <? ns_of (a_req i)) = false |- _ => apply Z.ltb_ge in H; exact H end.
      + exact Hq.
      + intros _. reflexivity. }
  destruct pr as [nid c'] eqn:Epr. cbn [fst] in Hpr. destruct Hpr as [Hfree [Hnsid [Hnz [Hreq Hauto]]]].
  repeat (dif; [apply B; first [reflexivity | lia]|]).
  cbn [negb andb] in *.
  destruct (nslen <? ns_of nid) eqn:Hlt; [apply Z.ltb_lt in Hlt; lia|].
  rewrite Hfree. cbn [negb andb].
  match goal with H : _ || negb (node_exists (nodes s) (a_parent i)) = false |- _ => apply orb_false_iff in H as [Hps Hpe] end.
  apply negb_false_iff in Hps, Hpe. apply Z.eqb_eq in Hps.
  assert (Hpn : a_parent i <> nid) by (intro; subst; congruence).
  rewrite (proj2 (Z.eqb_neq _ _) Hpn).
  assert (G : forall rs', has_ref rs' (a_parent i, a_reftype i, nid) = true ->
              (forall x, has_ref (refs s) x = true -> has_ref rs' x = true) ->
              let r := mk_res 0 nid (mk_st (nodes s ++ [mk_node nid (a_class i) (a_bns i) (a_bname i)]) rs' c') in
              0 <= r_status r /\ (r_status r <> 0 -> unchanged s r /\ r_id r = 0 /\ (r_status r = 5 -> a_bname i < 2)) /\ (r_status r = 0 -> add_good s i r)).
  { intros rs' H1 H2. cbn. split; [lia|]. split; [intro; lia|]. intros _. constructor; cbn; auto. }
  destruct ((a_class i =? 1) || (a_class i =? 2)) eqn:Hcl.
  - assert (Htd : node_exists (nodes s) (a_typedef i) = true).
    { apply (valid_typedef_exists _ (a_class i)); [apply orb_true_iff in Hcl as [E|E]; apply Z.eqb_eq in E; auto|].
      match goal with H : negb (valid_typedef _ _ _) = false |- _ => apply negb_false_iff in H; exact H end. }
    assert (Hne : nid <> a_typedef i) by (intro; subst; congruence).
    rewrite (proj2 (Z.eqb_neq _ _) Hne). apply G.
    + apply has_ref_insert_mono. apply has_ref_insert_same.
    + intros x Hx. apply has_ref_insert_mono. apply has_ref_insert_mono. exact Hx.
  - apply G; [apply has_ref_insert_same | intros x Hx; apply has_ref_insert_mono; exact Hx].
Qed.

Lemma filter_all {A} (f : A -> bool) (l : list A) : (forall x, In x l -> f x = true) -> filter f l = l.
Proof.
  induction l as [|a l IH]; intros H; cbn; [reflexivity|].
  rewrite (H a (or_introl eq_refl)). f_equal. apply IH. intros x Hx. apply H. right. exact Hx.
Qed.
Lemma existsb_false_forall {A} (f : A -> bool) (l : list A) : existsb f l = false -> forall x, In x l -> f x = false.
Proof.
  intros H x Hx. destruct (f x) eqn:E; [|reflexivity].
  assert (existsb f l = true) by (apply existsb_exists; exists x; auto). congruence.
Qed.
Lemma filter_length_le {A} (f : A -> bool) (l : list A) : (length (filter f l) <= length l)%nat.
Proof. induction l as [|a l IH]; cbn; [lia|]. destruct (f a); cbn; lia. Qed.

(* the other three operations: no id, a Bad status changes nothing, the node list never grows *)
Definition other_spec (s : st) (r : res) : Prop :=
  0 <= r_status r /\ r_id r = 0 /\ (r_status r <> 0 -> unchanged s r) /\
  (length (nodes (r_st r)) <= length (nodes s))%nat.

Lemma add_reference_spec : forall can s i, other_spec s (add_reference fixed_cfg can s i).
Proof.
  intros can s i. unfold add_reference, other_spec. cbn [fixed_cfg f_selfref].
  assert (B : forall c, 0 <= c -> let r := mk_res c 0 s in
            0 <= r_status r /\ r_id r = 0 /\ (r_status r <> 0 -> unchanged s r) /\ (length (nodes (r_st r)) <= length (nodes s))%nat).
  { intros c Hc. cbn. unfold unchanged. cbn. repeat split; auto. }
  repeat (dif; [apply B; lia|]).
  match goal with H : true && (r_src i =? r_tgt i) = false |- _ => cbn in H; rename H into Hne end.
  destruct (r_fwd i); [rewrite Hne | rewrite Z.eqb_sym, Hne]; cbn; unfold unchanged; cbn; repeat split; auto; lia.
Qed.

Lemma delete_reference_spec : forall can s i, other_spec s (delete_reference can s i).
Proof.
  intros can s i. unfold delete_reference, other_spec.
  assert (B : forall c, 0 <= c -> let r := mk_res c 0 s in
            0 <= r_status r /\ r_id r = 0 /\ (r_status r <> 0 -> unchanged s r) /\ (length (nodes (r_st r)) <= length (nodes s))%nat).
  { intros c Hc. cbn. unfold unchanged. cbn. repeat split; auto. }
  repeat (dif; [apply B; lia|]).
  cbn. unfold unchanged. cbn. repeat split; auto; lia.
Qed.

Lemma delete_len : forall f fuel ns rs id dtr,
  (length (fst (snd (delete f fuel ns rs id dtr))) <= length ns)%nat.
Proof.
  intros f fuel. induction fuel as [|fu IH]; intros ns rs id dtr; cbn [delete]; [cbn; lia|].
  destruct (if dtr then delete_node_refs rs id else (rs, false)) as [rs1 rr]. cbn [snd fst].
  set (F := fun (acc : list node * list ref) ch =>
              if node_exists (fst acc) ch then snd (delete f fu (fst acc) (snd acc) ch dtr) else acc).
  assert (H : forall chs acc, (length (fst acc) <= length ns)%nat -> (length (fst (fold_left F chs acc)) <= length ns)%nat).
  { induction chs as [|ch chs IHc]; intros acc Ha; cbn [fold_left]; [exact Ha|].
    apply IHc. unfold F. destruct (node_exists (fst acc) ch); [|exact Ha].
    pose proof (IH (fst acc) (snd acc) ch dtr). lia. }
  apply H. cbn [fst]. unfold remove_node. apply filter_length_le.
Qed.

Lemma delete_false_unchanged : forall fuel ns rs id dtr,
  fst (delete fixed_cfg (S fuel) ns rs id dtr) = false -> snd (delete fixed_cfg (S fuel) ns rs id dtr) = (ns, rs).
Proof.
  intros fuel ns rs id dtr. cbn [delete fixed_cfg f_delchild negb orb].
  destruct (if dtr then delete_node_refs rs id else (rs, false)) as [rs1 rr] eqn:E. cbn [fst snd].
  intros H. apply orb_false_iff in H as [Hex Hrr]. rewrite Hex. cbn [orb fold_left].
  f_equal.
  - unfold remove_node. apply filter_all. intros x Hx. apply negb_true_iff.
    unfold node_exists in Hex. apply (existsb_false_forall _ _ Hex x Hx).
  - destruct dtr; [|inversion E; reflexivity]. unfold delete_node_refs in E. inversion E; subst.
    apply filter_all. intros x Hx. apply negb_true_iff. apply (existsb_false_forall _ _ H1 x Hx).
Qed.

Lemma delete_node_spec : forall can s i, other_spec s (delete_node fixed_cfg can s i).
Proof.
  intros can s i. unfold delete_node, other_spec.
  destruct (negb can); [cbn; unfold unchanged; cbn; repeat split; auto; lia|].
  pose proof (delete_len fixed_cfg (S (length (nodes s))) (nodes s) (refs s) (d_id i) (d_dtr i)) as Hl.
  pose proof (delete_false_unchanged (length (nodes s)) (nodes s) (refs s) (d_id i) (d_dtr i)) as Hf.
  destruct (delete fixed_cfg (S (length (nodes s))) (nodes s) (refs s) (d_id i) (d_dtr i)) as [ok [ns' rs']].
  cbn [fst snd] in *. destruct ok; cbn; unfold unchanged; cbn.
  - repeat split; auto; lia.
  - specialize (Hf eq_refl). inversion Hf; subst. repeat split; auto; lia.
Qed.

(* ---- digests ---- *)
Lemma bool_eq_iff : forall a b : bool, (a = true <-> b = true) -> a = b.
Proof. intros [|] [|] H; try reflexivity; [symmetry; apply H; reflexivity | apply H; reflexivity]. Qed.

Lemma list_eqb_eq : forall a b, list_eqb a b = true <-> a = b.
Proof.
  induction a as [|x a IH]; intros [|y b]; cbn; split; intro H; try congruence; try reflexivity.
  - apply andb_true_iff in H as [H1 H2]. apply Z.eqb_eq in H1. apply IH in H2. congruence.
  - inversion H; subst. rewrite Z.eqb_refl. cbn. apply IH. reflexivity.
Qed.

Lemma insert_by_In {A} (le : A -> A -> bool) (x y : A) (l : list A) : In y (insert_by le x l) <-> y = x \/ In y l.
Proof.
  induction l as [|a l IH]; cbn; [intuition|].
  destruct (le x a); cbn; [intuition|]. rewrite IH. intuition.
Qed.
Lemma isort_In {A} (le : A -> A -> bool) (y : A) (l : list A) : In y (isort le l) <-> In y l.
Proof.
  induction l as [|a l IH]; cbn; [reflexivity|].
  unfold isort in *. cbn. rewrite insert_by_In, IH. intuition.
Qed.

Lemma take_nodes_app : forall ns tail, take_nodes (length ns) (flat_map node4 ns ++ tail) = Some (map n_id ns, tail).
Proof. induction ns as [|n ns IH]; intros tail; cbn; [reflexivity|]. rewrite IH. reflexivity. Qed.
Lemma take_refs_app : forall rs tail, take_refs (length rs) (flat_map ref3 rs ++ tail) = Some (rs, tail).
Proof. induction rs as [|[[s t] d] rs IH]; intros tail; cbn; [reflexivity|]. rewrite IH. reflexivity. Qed.

Definition parsed (s : st) : dg := mk_dg (map n_id (isort node_le (nodes s))) (isort ref_le (refs s)).

Lemma parse_digest_ok : forall s rest, parse_digest (digest s ++ rest) = Some (parsed s, rest).
Proof.
  intros s rest. unfold digest, digest_of, parse_digest. cbn [app].
  assert (L : forall n : nat, (Z.of_nat n <? 0) = false) by (intro; apply Z.ltb_ge; lia).
  rewrite L, Nat2Z.id. rewrite <- app_assoc. rewrite take_nodes_app. cbn [app].
  rewrite L, Nat2Z.id. rewrite take_refs_app. reflexivity.
Qed.

(* a digest value represents a state: same node ids, same references *)
Definition rep (d : dg) (s : st) : Prop :=
  (forall id, mem id (g_nodes d) = node_exists (nodes s) id) /\
  (forall r, has_ref (g_refs d) r = has_ref (refs s) r).

Lemma mem_In : forall x l, mem x l = true <-> In x l.
Proof.
  intros x l. unfold mem. rewrite existsb_exists. split.
  - intros [y [Hin He]]. apply Z.eqb_eq in He. subst. exact Hin.
  - intros Hin. exists x. split; [exact Hin | apply Z.eqb_refl].
Qed.

Lemma rep_dg_of : forall s, rep (dg_of s) s.
Proof.
  intros s. split; [|reflexivity]. intros id. cbn [dg_of g_nodes]. apply bool_eq_iff. rewrite mem_In, node_exists_In. reflexivity.
Qed.
Lemma rep_parsed : forall s, rep (parsed s) s.
Proof.
  intros s. split; cbn [parsed g_nodes g_refs].
  - intros id. apply bool_eq_iff. rewrite mem_In, node_exists_In, !in_map_iff.
    split; intros [n [He Hin]]; exists n; (split; [exact He|]); apply (isort_In node_le); exact Hin.
  - intros r. apply bool_eq_iff. rewrite !has_ref_In. apply isort_In.
Qed.
Lemma digest_eq_parsed : forall s1 s2, digest s1 = digest s2 -> parsed s1 = parsed s2.
Proof.
  intros s1 s2 H. pose proof (parse_digest_ok s1 []) as P1. pose proof (parse_digest_ok s2 []) as P2.
  rewrite H in P1. rewrite P1 in P2. congruence.
Qed.
Lemma rep_transfer : forall d s1 s2, digest s1 = digest s2 -> rep d s1 -> rep d s2.
Proof.
  intros d s1 s2 H [R1 R2]. apply digest_eq_parsed in H.
  destruct (rep_parsed s1) as [A1 A2]. destruct (rep_parsed s2) as [B1 B2]. rewrite H in A1, A2.
  split; [intros id; rewrite R1, <- A1, B1; reflexivity | intros r; rewrite R2, <- A2, B2; reflexivity].
Qed.
Lemma digest_unchanged : forall s s', nodes s' = nodes s -> refs s' = refs s -> digest s' = digest s.
Proof. intros s s' Hn Hr. unfold digest. rewrite Hn, Hr. reflexivity. Qed.

(* ---- events: what each item did ---- *)
Inductive ev := Ev (v : view) (status id : Z) (before after : st).

Definition ev_ok (e : ev) : Prop :=
  let '(Ev v status id b a) := e in
  0 <= status /\
  (status <> 0 -> nodes a = nodes b /\ refs a = refs b /\ match v with VAdd _ _ _ _ bname => id = 0 /\ (status = 5 -> bname < 2) | VOther => True end) /\
  (status = 0 -> match v with
                 | VAdd parent psrv reftype req _ =>
                     psrv = 0 /\ id <> 0 /\ (req <> 0 -> id = req) /\
                     node_exists (nodes b) id = false /\ node_exists (nodes a) id = true /\
                     node_exists (nodes b) parent = true /\
                     has_ref (refs a) (parent, reftype, id) = true
                 | VOther => True
                 end).

Definition small (s : st) (k : nat) : Prop := Z.of_nat (length (nodes s) + k) < U32.

Definition sound {I} (step : st -> I -> res) (view : I -> view) : Prop :=
  forall s i, small s 0 ->
    ev_ok (Ev (view i) (r_status (step s i)) (r_id (step s i)) s (r_st (step s i))) /\
    (length (nodes (r_st (step s i))) <= S (length (nodes s)))%nat.

Definition an_view (i : an_item) : view := VAdd (a_parent i) (a_parent_srv i) (a_reftype i) (a_req i) (a_bname i).
Definition other_view {I} (i : I) : view := VOther.

Lemma sound_add_node : forall nslen can, 1 <= nslen -> sound (add_node fixed_cfg nslen can) an_view.
Proof.
  intros nslen can Hns s i Hs. unfold small in Hs. rewrite Nat.add_0_r in Hs.
  destruct (add_node_spec nslen can s i Hns Hs) as [H0 [Hb Hg]].
  split.
  - cbn. split; [exact H0|]. split.
    + intros Hne. destruct (Hb Hne) as [[Hn Hr] [Hid H5]]. auto.
    + intros He. destruct (Hg He) as [A1 A2 A3 A9 A4 A5 A6 A7 A8]. repeat split; auto.
      rewrite A6, node_exists_app. cbn. rewrite Z.eqb_refl. apply orb_true_r.
  - destruct (Z.eq_dec (r_status (add_node fixed_cfg nslen can s i)) 0) as [He|Hne].
    + destruct (Hg He) as [_ _ _ _ _ _ A6 _ _]. rewrite A6, app_length. cbn. lia.
    + destruct (Hb Hne) as [[Hn _] _]. rewrite Hn. lia.
Qed.

Lemma sound_other : forall {I} (step : st -> I -> res), (forall s i, other_spec s (step s i)) -> sound step other_view.
Proof.
  intros I step H s i _. destruct (H s i) as [H0 [Hid [Hb Hl]]]. split; [|lia].
  cbn. split; [exact H0|]. split; [|auto]. intros Hne. destruct (Hb Hne) as [Hn Hr]. auto.
Qed.

(* ---- the items of one request ---- *)
Fixpoint body {I} (step : st -> I -> res) (s : st) (items : list I) : list Z :=
  match items with
  | [] => []
  | i :: rest => let r := step s i in
                 r_status r :: r_id r :: (match rest with [] => [] | _ => [2] end) ++ body step (r_st r) rest
  end.
Fixpoint final {I} (step : st -> I -> res) (s : st) (items : list I) : st :=
  match items with [] => s | i :: rest => final step (r_st (step s i)) rest end.
Fixpoint events {I} (step : st -> I -> res) (view : I -> view) (s : st) (items : list I) : list ev :=
  match items with
  | [] => []
  | i :: rest => let r := step s i in Ev (view i) (r_status r) (r_id r) s (r_st r) :: events step view (r_st r) rest
  end.

Lemma small_step : forall {I} (step : st -> I -> res) view s i k, sound step view -> small s (S k) -> small (r_st (step s i)) k.
Proof.
  intros I step view s i k Hs Hk. unfold small in *. assert (H0 : small s 0) by (unfold small; lia).
  destruct (Hs s i H0) as [_ Hl]. lia.
Qed.
Lemma small_0 : forall s k, small s k -> small s 0.
Proof. unfold small. intros. lia. Qed.

Section Items.
  Context {I : Type} (step : st -> I -> res) (view : I -> view) (Hsound : sound step view).

  Lemma items_loop_body : forall items s acc, small s (length items) ->
    items_loop step s items acc = (Some (acc ++ body step s items), final step s items).
  Proof.
    induction items as [|i rest IH]; intros s acc Hs; cbn [items_loop body final].
    - rewrite app_nil_r. reflexivity.
    - destruct (Hsound s i (small_0 _ _ Hs)) as [[H0 _] _].
      assert (E : (r_status (step s i) =? PANIC) = false) by (apply Z.eqb_neq; unfold PANIC; lia).
      rewrite E. rewrite IH by (eapply small_step; [exact Hsound | exact Hs]).
      f_equal. f_equal. rewrite <- !app_assoc. reflexivity.
  Qed.

  Lemma events_ok : forall items s, small s (length items) -> Forall ev_ok (events step view s items).
  Proof.
    induction items as [|i rest IH]; intros s Hs; cbn [events]; constructor.
    - apply Hsound. eapply small_0. exact Hs.
    - apply IH. eapply small_step; [exact Hsound | exact Hs].
  Qed.

  Lemma final_len : forall items s, small s (length items) ->
    (length (nodes (final step s items)) <= length (nodes s) + length items)%nat.
  Proof.
    induction items as [|i rest IH]; intros s Hs; cbn [final length]; [lia|].
    destruct (Hsound s i (small_0 _ _ Hs)) as [_ Hl].
    pose proof (IH (r_st (step s i)) (small_step step view s i _ Hsound Hs)). lia.
  Qed.

  Lemma item_ok_true : forall v st id flag b a prev cur,
    ev_ok (Ev v st id b a) ->
    (forall dp, prev = Some dp -> rep dp b /\ (st <> 0 -> flag <> 1)) ->
    (forall dc, cur = Some dc -> rep dc a) ->
    item_ok v st id flag prev cur = true.
  Proof.
    intros v st id flag b a prev cur [H0 [Hb Hg]] Hp Hc. unfold item_ok.
    destruct (st =? 0) eqn:E.
    - apply Z.eqb_eq in E. specialize (Hg E). destruct v as [parent psrv reftype req|]; [|reflexivity].
      destruct Hg as [G1 [G2 [G3 [G4 [G5 [G6 G7]]]]]].
      rewrite (proj2 (Z.eqb_eq _ _) G1), (proj2 (Z.eqb_neq _ _) G2). cbn [negb andb].
      assert (R : (req =? 0) || (id =? req) = true).
      { destruct (req =? 0) eqn:Q; [reflexivity|]. apply Z.eqb_neq in Q. cbn. apply Z.eqb_eq. auto. }
      rewrite R. cbn [andb]. destruct prev as [p|]; [|reflexivity]. destruct cur as [q|]; [|reflexivity].
      destruct (Hp p eq_refl) as [[P1 _] _]. destruct (Hc q eq_refl) as [Q1 Q2].
      rewrite P1, G4, Q1, G5, Q2, G7. reflexivity.
    - apply Z.eqb_neq in E. destruct (Hb E) as [_ [_ Hid]]. apply andb_true_iff. split.
      + destruct prev as [p|]; [|reflexivity]. destruct (Hp p eq_refl) as [_ Hf]. apply negb_true_iff, Z.eqb_neq. auto.
      + destruct v as [? ? ? ? bname|]; [|reflexivity]. destruct Hid as [Hid H5].
        rewrite (proj2 (Z.eqb_eq _ _) Hid). cbn [andb].
        destruct (st =? 5) eqn:E5; [|reflexivity]. apply Z.eqb_eq in E5. cbn [negb orb].
        apply Z.ltb_lt. auto.
  Qed.

  Lemma oracle_items_run : forall items s prev dl s0,
    items <> [] -> small s (length items) -> rep dl s0 ->
    (prev = None \/ (prev = Some dl /\ s = s0)) ->
    let sk := final step s items in
    exists cur dl',
      (forall rest, oracle_items (map view items) prev dl (body step s items ++ fst (emit (digest s0) (digest sk)) ++ rest)
        = Some (cur, dl', rest)) /\ rep dl' sk.
  Proof.
    induction items as [|i items IH]; intros s prev dl s0 Hne Hs Hrep Hprev; [congruence|].
    cbn [map body final]. cbn zeta.
    destruct (Hsound s i (small_0 _ _ Hs)) as [Hev _].
    pose proof Hev as [H0 [Hb _]].
    set (r := step s i) in *.
    assert (Hneg : (r_status r <? 0) = false) by (apply Z.ltb_ge; exact H0).
    destruct items as [|j items].
    - (* last item *)
      cbn [app body final map]. unfold emit.
      destruct (list_eqb (digest (r_st r)) (digest s0)) eqn:Ed; cbn [fst app].
      + apply list_eqb_eq in Ed.
        assert (Hr' : rep dl (r_st r)) by (eapply rep_transfer; [symmetry; exact Ed | exact Hrep]).
        exists (Some dl), dl. split; [|exact Hr']. intros rest.
        cbn [oracle_items]. rewrite Hneg. cbn [Z.eqb].
        rewrite (item_ok_true _ _ _ 0 s (r_st r) prev (Some dl) Hev); [reflexivity| |].
        * intros dp Hdp. destruct Hprev as [->|[-> ->]]; [discriminate|]. inversion Hdp; subst. split; [exact Hrep | intros _; lia].
        * intros dc Hdc. inversion Hdc; subst. exact Hr'.
      + exists (Some (parsed (r_st r))), (parsed (r_st r)). split; [|apply rep_parsed]. intros rest.
        cbn [oracle_items]. rewrite Hneg. cbn [Z.eqb Pos.eqb].
        rewrite parse_digest_ok.
        rewrite (item_ok_true _ _ _ 1 s (r_st r) prev (Some (parsed (r_st r))) Hev); [reflexivity| |].
        * intros dp Hdp. destruct Hprev as [->|[-> ->]]; [discriminate|]. inversion Hdp; subst. split; [exact Hrep|].
          intros Hbad. exfalso. destruct (Hb Hbad) as [Hn [Hr _]].
          assert (digest (r_st r) = digest s0) by (apply digest_unchanged; assumption).
          rewrite H in Ed. assert (list_eqb (digest s0) (digest s0) = true) by (apply list_eqb_eq; reflexivity). congruence.
        * intros dc Hdc. inversion Hdc; subst. apply rep_parsed.
    - (* more items follow *)
      assert (Hs' : small (r_st r) (length (j :: items))) by (eapply small_step; [exact Hsound | exact Hs]).
      destruct (IH (r_st r) None dl s0 ltac:(discriminate) Hs' Hrep (or_introl eq_refl)) as [cur [dl' [Ho Hr']]].
      exists cur, dl'. split; [|exact Hr']. intros rest. specialize (Ho rest).
      cbn [oracle_items app]. rewrite Hneg. cbn [Z.eqb].
      rewrite (item_ok_true _ _ _ 2 s (r_st r) prev None Hev).
      + cbn [map] in Ho. cbn [Z.eqb Pos.eqb]. exact Ho.
      + intros dp Hdp. destruct Hprev as [->|[-> ->]]; [discriminate|]. inversion Hdp; subst. split; [exact Hrep | intros _; lia].
      + intros dc Hdc. discriminate.
  Qed.
End Items.

(* ---- one request, a list of requests ---- *)
Lemma emit_snd : forall last d, snd (emit last d) = d \/ (snd (emit last d) = last /\ d = last).
Proof.
  intros last d. unfold emit. destruct (list_eqb d last) eqn:E; cbn; [right | left; reflexivity].
  apply list_eqb_eq in E. auto.
Qed.

(* the state after a request *)
Definition req_final {I} (step : st -> I -> res) (s : st) (items : list I) : st :=
  if MAX_ITEMS <? Z.of_nat (length items) then s else final step s items.

Lemma run_items_oracle : forall {I} (step : st -> I -> res) (view : I -> view) items s dl,
  sound step view -> small s (length items) -> rep dl s ->
  exists dl',
    let '(o, s', last') := run_items step s (digest s) items in
    last' = digest s' /\ rep dl' s' /\ s' = req_final step s items /\
    forall q qs tail, views q = map view items -> oracle_reqs (q :: qs) dl (o ++ tail) = oracle_reqs qs dl' tail.
Proof.
  intros I step view items s dl Hsound Hs Hrep. unfold run_items, req_final.
  destruct items as [|i items].
  - exists dl. cbn [length]. split; [reflexivity|]. split; [exact Hrep|]. split; [reflexivity|].
    intros q qs tail Hv. cbn [oracle_reqs]. rewrite Hv. cbn [map app]. reflexivity.
  - destruct (MAX_ITEMS <? Z.of_nat (length (i :: items))) eqn:Hmax.
    + exists dl. split; [reflexivity|]. split; [exact Hrep|]. split; [reflexivity|].
      intros q qs tail Hv. cbn [oracle_reqs]. rewrite Hv. rewrite <- (map_length view (i :: items)) in Hmax. cbn [map] in *.
      rewrite Hmax. cbn [app]. reflexivity.
    + rewrite (items_loop_body step view Hsound (i :: items) s [] Hs). cbn [app].
      destruct (oracle_items_run step view Hsound (i :: items) s (Some dl) dl s ltac:(discriminate) Hs Hrep (or_intror (conj eq_refl eq_refl)))
        as [cur [dl' [Ho Hr]]].
      set (sk := final step s (i :: items)) in *.
      destruct (emit (digest s) (digest sk)) as [e last'] eqn:Ee.
      exists dl'. split.
      { pose proof (emit_snd (digest s) (digest sk)) as Hsn. rewrite Ee in Hsn. cbn [snd] in Hsn.
        destruct Hsn as [->|[-> ->]]; reflexivity. }
      split; [exact Hr|]. split; [reflexivity|].
      intros q qs tail Hv. specialize (Ho tail). cbn [fst] in Ho.
      cbn [oracle_reqs]. rewrite Hv. rewrite <- (map_length view (i :: items)) in Hmax. cbn [map] in *.
      rewrite Hmax. rewrite <- app_assoc. rewrite Ho. reflexivity.
Qed.

Definition step_of (nslen : Z) (can : bool) (q : request) : Prop := True.

Lemma views_add : forall l, views (RAddNodes l) = map an_view l. Proof. reflexivity. Qed.
Lemma views_refs : forall l, views (RAddRefs l) = map (@other_view ar_item) l. Proof. reflexivity. Qed.
Lemma views_deln : forall l, views (RDelNodes l) = map (@other_view dn_item) l. Proof. reflexivity. Qed.
Lemma views_delr : forall l, views (RDelRefs l) = map (@other_view dr_item) l. Proof. reflexivity. Qed.

(* state after one request of the model *)
Definition req_state (nslen : Z) (can : bool) (s : st) (q : request) : st :=
  match q with
  | RAddNodes l => req_final (add_node fixed_cfg nslen can) s l
  | RAddRefs l => req_final (add_reference fixed_cfg can) s l
  | RDelNodes l => req_final (delete_node fixed_cfg can) s l
  | RDelRefs l => req_final (delete_reference can) s l
  end.

Lemma req_final_len : forall {I} (step : st -> I -> res) view s items, sound step view -> small s (length items) ->
  (length (nodes (req_final step s items)) <= length (nodes s) + length items)%nat.
Proof.
  intros I step view s items Hsound Hs. unfold req_final. destruct (MAX_ITEMS <? _); [lia|].
  eapply final_len; eassumption.
Qed.

Lemma run_req_oracle : forall nslen can q s dl, 1 <= nslen -> small s (length (views q)) -> rep dl s ->
  exists dl',
    let '(o, s', last') := run_req fixed_cfg nslen can s (digest s) q in
    last' = digest s' /\ rep dl' s' /\ s' = req_state nslen can s q /\
    (length (nodes s') <= length (nodes s) + length (views q))%nat /\
    forall qs tail, oracle_reqs (q :: qs) dl (o ++ tail) = oracle_reqs qs dl' tail.
Proof.
  intros nslen can q s dl Hns Hs Hrep.
  assert (G : forall {I} (step : st -> I -> res) (view : I -> view) items, sound step view -> views q = map view items ->
            exists dl', let '(o, s', last') := run_items step s (digest s) items in
              last' = digest s' /\ rep dl' s' /\ s' = req_final step s items /\
              (length (nodes s') <= length (nodes s) + length (views q))%nat /\
              forall qs tail, oracle_reqs (q :: qs) dl (o ++ tail) = oracle_reqs qs dl' tail).
  { intros I step view items Hsound Hv. rewrite Hv, map_length in Hs.
    destruct (run_items_oracle step view items s dl Hsound Hs Hrep) as [dl' H].
    exists dl'. destruct (run_items step s (digest s) items) as [[o s'] last']. destruct H as [H1 [H2 [H3 H4]]].
    split; [exact H1|]. split; [exact H2|]. split; [exact H3|]. split.
    - rewrite H3, Hv, map_length. eapply req_final_len; eassumption.
    - intros qs tail. apply H4. exact Hv. }
  destruct q as [l|l|l|l]; cbn [run_req req_state].
  - apply (G _ _ an_view l (sound_add_node nslen can Hns) (views_add l)).
  - apply (G _ _ other_view l (sound_other _ (add_reference_spec can)) (views_refs l)).
  - apply (G _ _ other_view l (sound_other _ (delete_node_spec can)) (views_deln l)).
  - apply (G _ _ other_view l (sound_other _ (delete_reference_spec can)) (views_delr l)).
Qed.

Lemma run_reqs_oracle : forall qs nslen can s dl, 1 <= nslen -> small s (count_items qs) -> rep dl s ->
  oracle_reqs qs dl (run_reqs fixed_cfg nslen can s (digest s) qs) = true.
Proof.
  induction qs as [|q qs IH]; intros nslen can s dl Hns Hs Hrep; [reflexivity|].
  cbn [run_reqs count_items] in *.
  assert (Hs1 : small s (length (views q))) by (unfold small in *; lia).
  destruct (run_req_oracle nslen can q s dl Hns Hs1 Hrep) as [dl' H].
  destruct (run_req fixed_cfg nslen can s (digest s) q) as [[o s'] last'].
  destruct H as [H1 [H2 [_ [H4 H5]]]]. subst last'.
  rewrite H5. apply IH; [exact Hns | | exact H2]. unfold small in *. lia.
Qed.

Theorem oracle_holds : forall c, valid c -> known c = 0 -> oracle c (run c) = true.
Proof.
  intros c [Hns [_ Hsz]] _. unfold oracle, run, run_with.
  apply run_reqs_oracle; [exact Hns | exact Hsz | apply rep_dg_of].
Qed.

(* ---- the history of a request sequence ---- *)
Definition gated {I} (l : list I) : bool := MAX_ITEMS <? Z.of_nat (length l).
Definition req_events (nslen : Z) (can : bool) (s : st) (q : request) : list ev :=
  match q with
  | RAddNodes l => if gated l then [] else events (add_node fixed_cfg nslen can) an_view s l
  | RAddRefs l => if gated l then [] else events (add_reference fixed_cfg can) other_view s l
  | RDelNodes l => if gated l then [] else events (delete_node fixed_cfg can) other_view s l
  | RDelRefs l => if gated l then [] else events (delete_reference can) other_view s l
  end.
Fixpoint history (nslen : Z) (can : bool) (s : st) (qs : list request) : list ev :=
  match qs with
  | [] => []
  | q :: qs' => req_events nslen can s q ++ history nslen can (req_state nslen can s q) qs'
  end.

Lemma req_events_ok : forall nslen can s q, 1 <= nslen -> small s (length (views q)) ->
  Forall ev_ok (req_events nslen can s q) /\
  (length (nodes (req_state nslen can s q)) <= length (nodes s) + length (views q))%nat.
Proof.
  intros nslen can s q Hns Hs.
  assert (G : forall {I} (step : st -> I -> res) (view : I -> view) l, sound step view -> length (views q) = length l ->
            Forall ev_ok (if gated l then [] else events step view s l) /\
            (length (nodes (req_final step s l)) <= length (nodes s) + length (views q))%nat).
  { intros I step view l Hsound Hl. rewrite Hl in *. split.
    - destruct (gated l); [constructor | apply events_ok; assumption].
    - eapply req_final_len; eassumption. }
  destruct q as [l|l|l|l]; cbn [req_events req_state].
  - apply G; [apply sound_add_node; exact Hns | cbn; apply map_length].
  - apply G; [apply sound_other, add_reference_spec | cbn; apply map_length].
  - apply G; [apply sound_other, delete_node_spec | cbn; apply map_length].
  - apply G; [apply sound_other, delete_reference_spec | cbn; apply map_length].
Qed.

Lemma history_ok_from : forall qs nslen can s, 1 <= nslen -> small s (count_items qs) -> Forall ev_ok (history nslen can s qs).
Proof.
  induction qs as [|q qs IH]; intros nslen can s Hns Hs; cbn [history]; [constructor|].
  cbn [count_items] in Hs.
  assert (Hs1 : small s (length (views q))) by (unfold small in *; lia).
  destruct (req_events_ok nslen can s q Hns Hs1) as [He Hl].
  apply Forall_app. split; [exact He|]. apply IH; [exact Hns|]. unfold small in *. lia.
Qed.

Theorem history_ok : forall c, valid c ->
  Forall ev_ok (history (c_nslen c) (c_can c) (init_state c) (c_reqs c)).
Proof. intros c [Hns [_ Hsz]]. apply history_ok_from; assumption. Qed.

(* the model's state after the requests is the state the history speaks about *)
Fixpoint states_after (nslen : Z) (can : bool) (s : st) (qs : list request) : st :=
  match qs with [] => s | q :: qs' => states_after nslen can (req_state nslen can s q) qs' end.

(* ---- per item statements ---- *)
Theorem add_nodes_good : forall nslen can s i,
  1 <= nslen -> Z.of_nat (length (nodes s)) < U32 ->
  let r := add_node fixed_cfg nslen can s i in
  r_status r = 0 ->
  a_parent_srv i = 0 /\ r_id r <> 0 /\
  node_exists (nodes s) (r_id r) = false /\
  node_exists (nodes (r_st r)) (r_id r) = true /\
  node_exists (nodes s) (a_parent i) = true /\
  has_ref (refs (r_st r)) (a_parent i, a_reftype i, r_id r) = true.
Proof.
  intros nslen can s i Hns Hsz r He. subst r. destruct (add_node_spec nslen can s i Hns Hsz) as [_ [_ Hg]].
  destruct (Hg He) as [A1 A2 A3 A9 A4 A5 A6 A7 A8]. repeat split; auto.
  rewrite A6, node_exists_app. cbn. rewrite Z.eqb_refl. apply orb_true_r.
Qed.

Theorem bad_changes_nothing : forall nslen can s,
  1 <= nslen -> Z.of_nat (length (nodes s)) < U32 ->
  (forall i, let r := add_node fixed_cfg nslen can s i in r_status r <> 0 -> nodes (r_st r) = nodes s /\ refs (r_st r) = refs s) /\
  (forall i, let r := add_reference fixed_cfg can s i in r_status r <> 0 -> nodes (r_st r) = nodes s /\ refs (r_st r) = refs s) /\
  (forall i, let r := delete_node fixed_cfg can s i in r_status r <> 0 -> nodes (r_st r) = nodes s /\ refs (r_st r) = refs s) /\
  (forall i, let r := delete_reference can s i in r_status r <> 0 -> nodes (r_st r) = nodes s /\ refs (r_st r) = refs s).
Proof.
  intros nslen can s Hns Hsz. repeat split.
  - destruct (add_node_spec nslen can s i Hns Hsz) as [_ [Hb _]]. apply Hb; assumption.
  - destruct (add_node_spec nslen can s i Hns Hsz) as [_ [Hb _]]. apply Hb; assumption.
  - destruct (add_reference_spec can s i) as [_ [_ [Hb _]]]. apply Hb; assumption.
  - destruct (add_reference_spec can s i) as [_ [_ [Hb _]]]. apply Hb; assumption.
  - destruct (delete_node_spec can s i) as [_ [_ [Hb _]]]. apply Hb; assumption.
  - destruct (delete_node_spec can s i) as [_ [_ [Hb _]]]. apply Hb; assumption.
  - destruct (delete_reference_spec can s i) as [_ [_ [Hb _]]]. apply Hb; assumption.
  - destruct (delete_reference_spec can s i) as [_ [_ [Hb _]]]. apply Hb; assumption.
Qed.

Theorem assigned_ids_fresh : forall nslen can s i,
  1 <= nslen -> Z.of_nat (length (nodes s)) < U32 -> a_req i = 0 ->
  let r := add_node fixed_cfg nslen can s i in
  r_status r = 0 -> node_exists (nodes s) (r_id r) = false /\ ns_of (r_id r) = 1.
Proof.
  intros nslen can s i Hns Hsz Hq r He. subst r. destruct (add_node_spec nslen can s i Hns Hsz) as [_ [_ Hg]].
  destruct (Hg He) as [A1 A2 A3 A9 A4 A5 A6 A7 A8]. split; auto.
Qed.

Theorem no_panic : forall nslen can s,
  1 <= nslen -> Z.of_nat (length (nodes s)) < U32 ->
  (forall i, r_status (add_node fixed_cfg nslen can s i) <> PANIC) /\
  (forall i, r_status (add_reference fixed_cfg can s i) <> PANIC) /\
  (forall i, r_status (delete_node fixed_cfg can s i) <> PANIC) /\
  (forall i, r_status (delete_reference can s i) <> PANIC).
Proof.
  intros nslen can s Hns Hsz. unfold PANIC. repeat split; intros i.
  - destruct (add_node_spec nslen can s i Hns Hsz) as [H _]. lia.
  - destruct (add_reference_spec can s i) as [H _]. lia.
  - destruct (delete_node_spec can s i) as [H _]. lia.
  - destruct (delete_reference_spec can s i) as [H _]. lia.
Qed.

(* ---- fuel of [delete] ---- *)
(* fuel that [delete] needs: every nested call is on an existing node and removes it first *)
Definition need (ns : list node) (id : Z) : nat :=
  if node_exists ns id then length ns else S (length ns).

Lemma remove_node_len_exists : forall ns id, node_exists ns id = true -> (length (remove_node ns id) < length ns)%nat.
Proof.
  induction ns as [|n ns IH]; intros id H; cbn in *; [discriminate|].
  destruct (n_id n =? id) eqn:E; cbn.
  - pose proof (filter_length_le (fun n0 => negb (n_id n0 =? id)) ns). unfold remove_node in *. lia.
  - specialize (IH id H). unfold remove_node in *. lia.
Qed.
Lemma node_exists_len : forall ns id, node_exists ns id = true -> (1 <= length ns)%nat.
Proof. intros [|n ns] id H; cbn in *; [discriminate | lia]. Qed.

Lemma delete_fuel : forall f f1 f2 ns rs id dtr,
  (need ns id <= f1)%nat -> (need ns id <= f2)%nat ->
  delete f f1 ns rs id dtr = delete f f2 ns rs id dtr.
Proof.
  intros f f1. induction f1 as [|f1 IH]; intros f2 ns rs id dtr H1 H2.
  - exfalso. unfold need in H1. destruct (node_exists ns id) eqn:E; [apply node_exists_len in E|]; lia.
  - destruct f2 as [|f2]; [exfalso; unfold need in H2; destruct (node_exists ns id) eqn:E; [apply node_exists_len in E|]; lia|].
    cbn [delete].
    destruct (if dtr then delete_node_refs rs id else (rs, false)) as [rs1 rr]. f_equal.
    set (ns1 := remove_node ns id).
    assert (Hb : (length ns1 <= f1)%nat /\ (length ns1 <= f2)%nat).
    { unfold need in H1, H2. destruct (node_exists ns id) eqn:E.
      - pose proof (remove_node_len_exists ns id E). unfold ns1. lia.
      - pose proof (filter_length_le (fun n0 => negb (n_id n0 =? id)) ns). unfold ns1, remove_node. lia. }
    destruct Hb as [Hb1 Hb2].
    generalize (if node_exists ns id || negb (f_delchild f) then targets_of rs id Aggregates else []). intros children.
    assert (G : forall chs acc, (length (fst acc) <= length ns1)%nat ->
      fold_left (fun (acc : list node * list ref) ch =>
                   if node_exists (fst acc) ch then snd (delete f f1 (fst acc) (snd acc) ch dtr) else acc) chs acc =
      fold_left (fun (acc : list node * list ref) ch =>
                   if node_exists (fst acc) ch then snd (delete f f2 (fst acc) (snd acc) ch dtr) else acc) chs acc).
    { induction chs as [|ch chs IHc]; intros acc Ha; cbn [fold_left]; [reflexivity|].
      destruct (node_exists (fst acc) ch) eqn:E.
      - assert (Hn : need (fst acc) ch = length (fst acc)) by (unfold need; rewrite E; reflexivity).
        rewrite (IH f2 (fst acc) (snd acc) ch dtr) by lia.
        apply IHc. pose proof (delete_len f f2 (fst acc) (snd acc) ch dtr). lia.
      - apply IHc. exact Ha. }
    apply G. cbn [fst]. lia.
Qed.

(* the fuel given by delete_node is enough: more fuel never changes the result *)
Theorem delete_fuel_adequate : forall f ns rs id dtr k,
  delete f (S (length ns) + k) ns rs id dtr = delete f (S (length ns)) ns rs id dtr.
Proof.
  intros. apply delete_fuel; unfold need; destruct (node_exists ns id); lia.
Qed.

(* ---- the code before each repair violates the property (witnesses from the harness corpus) ---- *)
Definition w_nodes : list node := [mk_node 85 1 0 2; mk_node 58 8 0 3; mk_node 62 16 0 4].
Definition w_refs : list ref :=
  [(33, 45, 34); (33, 45, 35); (33, 45, 36); (34, 45, 44); (34, 45, 45); (44, 45, 46); (44, 45, 47); (47, 45, 49); (36, 45, 48)].
Definition w_obj (req bname : Z) : request := RAddNodes [AN 85 0 35 req 0 0 bname 1 1 true false 58].
Definition N1 (v : Z) : Z := 4294967296 + v.

(* browse name in namespace 2: `.unwrap()` of the failed relative path parse *)
Definition w_bname : case := mk_case 2 true 0 w_nodes w_refs [RAddNodes [AN 85 0 35 0 0 2 10 1 1 true false 58]].
(* counter at 5, node 1:5 exists: Good although nothing was inserted *)
Definition w_alloc : case := mk_case 2 true 5 (w_nodes ++ [mk_node (N1 5) 1 0 7]) w_refs [w_obj 0 10].
(* the reference went from the new node to the parent *)
Definition w_dir : case := mk_case 2 true 1000 w_nodes w_refs [w_obj 0 10].
(* parent on server 5 accepted *)
Definition w_psrv : case := mk_case 2 true 0 w_nodes w_refs [RAddNodes [AN 85 5 35 0 0 0 10 1 1 true false 58]].
(* node 1:100 deleted keeping its references, child 1:101 re-created, 1:100 deleted again:
   BadNodeIdUnknown, yet 1:101 is gone *)
Definition w_delchild : case := mk_case 2 true 0 w_nodes w_refs
  [w_obj (N1 100) 10; RAddNodes [AN (N1 100) 0 47 (N1 101) 0 0 11 1 1 true false 58];
   RDelNodes [DN (N1 100) false]; w_obj (N1 101) 12; RDelNodes [DN (N1 100) false]].
(* requested id in namespace 3 of 2: assert_namespace *)
Definition w_nsguard : case := mk_case 2 true 0 w_nodes w_refs [w_obj (3 * 4294967296 + 7) 10].
(* self reference *)
Definition w_selfref : case := mk_case 2 true 0 w_nodes w_refs [RAddRefs [AR 85 47 true true 85 0 1]].
(* variable attributes with ArrayDimensions = null *)
Definition w_dims : case := mk_case 2 true 0 w_nodes w_refs [RAddNodes [AN 85 0 47 0 0 0 10 2 2 true true 62]].

(* a browse name in namespace 2 under a valid parent, then the same name again *)
Definition w_nsname : case := mk_case 3 true 0 w_nodes w_refs
  [RAddNodes [AN 85 0 35 0 0 2 10 1 1 true false 58]; RAddNodes [AN 85 0 35 0 0 2 10 1 1 true false 58];
   RAddNodes [AN 85 0 35 0 0 0 10 1 1 true false 58]].

Ltac valid_case := unfold valid; cbn; repeat split; try lia; vm_compute; reflexivity.
Ltac refute w := exists w; split; [valid_case | vm_compute; reflexivity].

Theorem legacy_refuted_bname : exists c, valid c /\ oracle c (run_with Legacy.no_bname c) = false. Proof. refute w_bname. Qed.
Theorem legacy_refuted_alloc : exists c, valid c /\ oracle c (run_with Legacy.no_alloc c) = false. Proof. refute w_alloc. Qed.
Theorem legacy_refuted_dir : exists c, valid c /\ oracle c (run_with Legacy.no_dir c) = false. Proof. refute w_dir. Qed.
Theorem legacy_refuted_psrv : exists c, valid c /\ oracle c (run_with Legacy.no_psrv c) = false. Proof. refute w_psrv. Qed.
Theorem legacy_refuted_delchild : exists c, valid c /\ oracle c (run_with Legacy.no_delchild c) = false. Proof. refute w_delchild. Qed.
Theorem legacy_refuted_nsguard : exists c, valid c /\ oracle c (run_with Legacy.no_nsguard c) = false. Proof. refute w_nsguard. Qed.
Theorem legacy_refuted_selfref : exists c, valid c /\ oracle c (run_with Legacy.no_selfref c) = false. Proof. refute w_selfref. Qed.
Theorem legacy_refuted_dims : exists c, valid c /\ oracle c (run_with Legacy.no_dims c) = false. Proof. refute w_dims. Qed.

Theorem legacy_refuted_nsname : exists c, valid c /\ oracle c (run_with Legacy.no_nsname c) = false.
Proof. refute w_nsname. Qed.
(* repaired: Good, then BadBrowseNameDuplicated for the same qualified name, then Good for the same
   name in namespace 0; before: BadBrowseNameInvalid twice *)
Example w_nsname_fixed :
  oracle w_nsname (run w_nsname) = true /\
  firstn 3 (run w_nsname) = [0; N1 0; 1] /\ firstn 6 (skipn 54 (run w_nsname)) = [6; 0; 0; 0; N1 1; 1] /\
  run_with Legacy.no_nsname w_nsname = 5 :: 0 :: 0 :: 5 :: 0 :: 0 :: skipn 6 (run_with Legacy.no_nsname w_nsname).
Proof. repeat split; vm_compute; reflexivity. Qed.

Theorem browse_name_invalid_only_if_empty : forall nslen can s i,
  1 <= nslen -> Z.of_nat (length (nodes s)) < U32 ->
  r_status (add_node fixed_cfg nslen can s i) = 5 -> a_bname i < 2.
Proof.
  intros nslen can s i Hns Hsz H5. destruct (add_node_spec nslen can s i Hns Hsz) as [_ [Hb _]].
  apply Hb; [lia | exact H5].
Qed.

(* the hypotheses are satisfiable by non-trivial cases, and on them the repaired model behaves *)
Example w_delchild_valid : valid w_delchild /\ oracle w_delchild (run w_delchild) = true.
Proof. split; [valid_case | vm_compute; reflexivity]. Qed.
Example w_alloc_fixed : valid w_alloc /\ run w_alloc = 0 :: N1 6 :: 1 :: skipn 3 (run w_alloc).
Proof. split; [valid_case | vm_compute; reflexivity]. Qed.

(* the hypotheses of the per-item theorems are satisfiable: a Good AddNodes item, a Bad one, a
   server-assigned id drawn across the u32 wrap-around *)
Example ex_add_good :
  let s := init_state w_dir in
  let r := add_node fixed_cfg 2 true s (AN 85 0 35 0 0 0 10 1 1 true false 58) in
  1 <= 2 /\ Z.of_nat (length (nodes s)) < U32 /\ r_status r = 0 /\ r_id r = N1 1000.
Proof. cbv zeta. repeat split; try lia; vm_compute; reflexivity. Qed.
Example ex_add_bad :
  let s := init_state w_dir in
  r_status (add_node fixed_cfg 2 true s (AN 77 0 35 0 0 0 10 1 1 true false 58)) = 9.
Proof. vm_compute. reflexivity. Qed.
Example ex_alloc_wrap :
  let ns := w_nodes ++ [mk_node (N1 4294967295) 1 0 7; mk_node (N1 0) 1 0 8] in
  alloc (length ns) ns 4294967295 = (N1 1, 4294967298).
Proof. vm_compute. reflexivity. Qed.
Example ex_history_nontrivial : length (history 2 true (init_state w_delchild) (c_reqs w_delchild)) = 5%nat.
Proof. vm_compute. reflexivity. Qed.
