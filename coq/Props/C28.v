(* C28 — The reference index always matches the set of references.  Statements only.

   [refs] is the model of `References` (two maps), [step]/[exec] the model of a history of
   insert_reference / delete_reference / delete_node_references calls, [spec_step]/[spec_exec]
   the same history on a plain SET of (source, type, target) triples.  [abs_rel st X] says that
   X is the set of triples held by the forward map of st; [Inv] is the index invariant (no empty
   bucket, no duplicate, no self reference, referenced-by map = converse of the forward map). *)
From Coq Require Import List ZArith.
Import ListNotations.
From OV Require Import C28.Refs C28.RefsFacts C28.RefsProofs C28.Model C28.Proofs.
Open Scope Z_scope.

(* Refinement, one operation: from any state satisfying the invariant, every operation returns
   what the set operation returns, re-establishes the invariant, and commutes with abstraction. *)
Theorem C28_refines : forall st X o, Inv st -> abs_rel st X ->
  fst (step st o) = fst (spec_step X o) /\
  Inv (snd (step st o)) /\
  abs_rel (snd (step st o)) (snd (spec_step X o)).
Proof. exact step_refines. Qed.
Print Assumptions C28_refines.

(* Arbitrary histories (induction over the operation list), from the empty index. *)
Theorem C28_history : forall ops,
  fst (exec empty_refs ops) = fst (spec_exec [] ops) /\
  Inv (snd (exec empty_refs ops)) /\
  abs_rel (snd (exec empty_refs ops)) (snd (spec_exec [] ops)).
Proof. intros ops. exact (exec_refines ops empty_refs [] Inv_empty abs_empty). Qed.
Print Assumptions C28_history.

(* Every query is a function of the set: existence checks, forward references and inverse
   references report exactly the triples of the set, without duplicates. *)
Theorem C28_queries : forall st X, Inv st -> abs_rel st X -> forall n ty t,
  (has_reference st n t ty = true <-> In (n, ty, t) X) /\
  (In (ty, t) (opt_list (find_references st n)) <-> In (n, ty, t) X) /\
  (In (ty, t) (opt_list (find_inverse_references st n)) <-> In (t, ty, n) X) /\
  NoDup (opt_list (find_references st n)) /\
  NoDup (opt_list (find_inverse_references st n)).
Proof. exact queries_sound. Qed.
Print Assumptions C28_queries.

(* Deleting one reference never removes or hides a different one. *)
Theorem C28_delete_isolated : forall st s t ty s' t' ty', Inv st -> (s', ty', t') <> (s, ty, t) ->
  has_reference (snd (delete_reference st s t ty)) s' t' ty' = has_reference st s' t' ty'.
Proof. exact delete_isolated. Qed.
Print Assumptions C28_delete_isolated.

(* The inverse index is the converse of the forward index. *)
Theorem C28_inverse_index : forall st, Inv st ->
  forall s t, In s (bucket t (rb st)) <-> exists ty, has_reference st s t ty = true.
Proof. exact inverse_index_converse. Qed.
Print Assumptions C28_inverse_index.

(* The check oracle (results and all query answers over the case's universe equal those computed
   from the set) holds of the model on every case. *)
Theorem C28_oracle : forall c, valid c -> known c = 0 -> oracle c (run c) = true.
Proof. intros c _ _. apply oracle_holds. Qed.
Print Assumptions C28_oracle.

(* The code before "fix: deleting one reference also removed the opposite-direction reference":
   a->b, b->a, a->c, delete a->b  loses b->a. *)
Theorem C28_legacy_refuted : exists c, valid c /\ oracle c (Legacy.run c) = false.
Proof. destruct legacy_refuted as (c & H). exists c. split; [exact I|exact H]. Qed.
Print Assumptions C28_legacy_refuted.
