(* C01/C02/C03 — type descriptors for everything built from the built-ins (arrays, generated
   structures, enumerations), a universal value type for them, the canonical list-Z print [ser]
   used to compare decoded values with the implementation, and the transport headers.
   Definitions only (no proofs). *)
From Coq Require Import List ZArith Bool Lia.
Import ListNotations.
From OV Require Import C01.Codec C01.Builtins.
Open Scope Z_scope.

(* TS k: the built-in with encoding mask k (k <> 23, 24); TArr: Option<Vec<T>> via read_array;
   TStruct: fields in order (generated structs); TEnum w vals: w-byte enumeration with the listed
   values (others are decode errors); TFlags w bits: bitflags decoded with from_bits_truncate *)
Inductive ty :=
| TS (k : Z) | TVar | TDV | TArr (t : ty) | TStruct (fs : list ty)
| TEnum (w : nat) (vals : list Z) | TFlags (w : nat) (allbits : Z)
| TEnumD (w : nat) (vals : list Z) (dflt : Z).   (* unknown values decode to the member dflt *)

Inductive uval :=
| US (s : scalar) | UV (v : variant) | UD (v : option variant) (r : dvrest)
| UA (xs : option (list uval)) | UT (fs : list uval) | UE (z : Z).

(* size_of::<T>() of the built-ins (allocation accounting of Vec::with_capacity in read_array);
   checked against the implementation by a fixed harness case *)
Definition esize_scalar (k : Z) : Z :=
  nth (Z.to_nat k)
      [0; 1; 1; 1; 2; 2; 4; 4; 8; 8; 4; 8; 24; 12; 16; 24; 24; 40; 72; 4; 32; 48; 72; 0; 0; 72] 1.
Definition DATAVALUE_SIZE : Z := 72.
Definition esize (t : ty) : Z :=
  match t with
  | TS k => esize_scalar k
  | TVar => VARIANT_SIZE
  | TDV => DATAVALUE_SIZE
  | TArr _ => 24
  | TStruct _ => 1           (* not tracked *)
  | TEnum w _ => Z.of_nat w
  | TFlags w _ => Z.of_nat w
  | TEnumD w _ _ => Z.of_nat w
  end.

Definition enc_enum (w : nat) (z : Z) : bytes := enc_i w z.
Definition read_enum (w : nat) : M Z := match w with 1%nat => read_u 1 | _ => read_i w end.

Fixpoint enc_ty (t : ty) (v : uval) {struct t} : bytes :=
  match t, v with
  | TS _, US s => enc_scalar s
  | TVar, UV x => enc_variant x
  | TDV, UD ov r => enc_dv (ov, r)
  | TArr t', UA xs => enc_array (enc_ty t') xs
  | TStruct fs, UT vs =>
      (fix go (fs : list ty) (vs : list uval) : bytes :=
         match fs, vs with
         | f :: fs', x :: vs' => enc_ty f x ++ go fs' vs'
         | _, _ => []
         end) fs vs
  | TEnum w _, UE z => enc_enum w z
  | TFlags w _, UE z => enc_enum w z
  | TEnumD w _ _, UE z => enc_enum w z
  | _, _ => []
  end.

Fixpoint len_ty (t : ty) (v : uval) {struct t} : Z :=
  match t, v with
  | TS _, US s => len_scalar s
  | TVar, UV x => len_v true x
  | TDV, UD ov r => len_v false (VDV ov r)
  | TArr t', UA xs => len_array (len_ty t') xs
  | TStruct fs, UT vs =>
      (fix go (fs : list ty) (vs : list uval) : Z :=
         match fs, vs with
         | f :: fs', x :: vs' => len_ty f x + go fs' vs'
         | _, _ => 0
         end) fs vs
  | TEnum w _, UE _ => Z.of_nat w
  | TFlags w _, UE _ => Z.of_nat w
  | TEnumD w _ _, UE _ => Z.of_nat w
  | _, _ => 0
  end.

Fixpoint dec_ty (t : ty) (o : opts) (d : nat) {struct t} : M uval :=
  match t with
  | TS k => s <- dec_scalar o d k ;; ret (US s)
  | TVar => v <- dec_variant o d ;; ret (UV v)
  | TDV => x <- dec_dv o d ;; ret (UD (fst x) (snd x))
  | TArr t' => xs <- dec_array o (esize t') (dec_ty t' o d) ;; ret (UA xs)
  | TStruct fs =>
      vs <- (fix go (fs : list ty) : M (list uval) :=
               match fs with
               | [] => ret []
               | f :: fs' => x <- dec_ty f o d ;; xs <- go fs' ;; ret (x :: xs)
               end) fs ;;
      ret (UT vs)
  | TEnum w vals =>
      z <- read_enum w ;;
      if existsb (Z.eqb z) vals then ret (UE z) else fail EInvalid
  | TFlags w allbits =>
      z <- read_i w ;; ret (UE (signed w (Z.land (wrap w z) allbits)))
  | TEnumD w vals dflt =>
      z <- read_enum w ;; ret (UE (if existsb (Z.eqb z) vals then z else dflt))
  end.

Fixpoint wf_ty (t : ty) (v : uval) {struct t} : Prop :=
  match t, v with
  | TS k, US s => scalar_ty s = k /\ wf_scalar s
  | TVar, UV x => wf_variant x
  | TDV, UD ov r => wf_dv (ov, r)
  | TArr t', UA xs =>
      match xs with
      | None => True
      | Some l => Forall (wf_ty t') l /\ Z.of_nat (length l) < 2 ^ 31
      end
  | TStruct fs, UT vs =>
      (fix go (fs : list ty) (vs : list uval) : Prop :=
         match fs, vs with
         | [], [] => True
         | f :: fs', x :: vs' => wf_ty f x /\ go fs' vs'
         | _, _ => False
         end) fs vs
  | TEnum w vals, UE z => In z vals /\ (0 < w)%nat /\ (w = 1%nat -> in_u 1 z) /\ (w <> 1%nat -> in_i w z)
  | TFlags w allbits, UE z => (0 < w)%nat /\ in_i w z /\ signed w (Z.land (wrap w z) allbits) = z
  | TEnumD w vals _, UE z => In z vals /\ (0 < w)%nat /\ (w = 1%nat -> in_u 1 z) /\ (w <> 1%nat -> in_i w z)
  | _, _ => False
  end.

Fixpoint chk_ty (t : ty) (o : opts) (d : nat) (v : uval) {struct t} : option err :=
  match t, v with
  | TS _, US s => chk_scalar o d s
  | TVar, UV x => chk_variant o d x
  | TDV, UD ov r => chk_dv o d (ov, r)
  | TArr t', UA xs => chk_array o (chk_ty t' o d) xs
  | TStruct fs, UT vs =>
      (fix go (fs : list ty) (vs : list uval) : option err :=
         match fs, vs with
         | f :: fs', x :: vs' => seq_chk (chk_ty f o d x) (go fs' vs')
         | _, _ => None
         end) fs vs
  | _, _ => None
  end.

Fixpoint norm_ty (t : ty) (v : uval) {struct t} : uval :=
  match t, v with
  | TS _, US s => US (norm_scalar s)
  | TVar, UV x => UV (norm_variant x)
  | TDV, UD ov r => UD (option_map norm_variant ov) (norm_dvrest r)
  | TArr t', UA xs => UA (match xs with None => None | Some l => Some (map (norm_ty t') l) end)
  | TStruct fs, UT vs =>
      UT ((fix go (fs : list ty) (vs : list uval) : list uval :=
             match fs, vs with
             | f :: fs', x :: vs' => norm_ty f x :: go fs' vs'
             | _, _ => []
             end) fs vs)
  | _, _ => v
  end.

Definition ty_codec (t : ty) : codec uval :=
  {| enc := enc_ty t; dec := dec_ty t; blen := len_ty t; wf := wf_ty t; chk := chk_ty t;
     norm := norm_ty t |}.

(* ---- canonical print of values as list Z (mirrored by the harness) ------------------------------ *)
Definition ser_opt {A} (f : A -> list Z) (x : option A) : list Z :=
  match x with None => [0] | Some a => 1 :: f a end.
Definition ser_list {A} (f : A -> list Z) (xs : list A) : list Z :=
  Z.of_nat (length xs) :: concat (map f xs).
Definition ser_z (z : Z) : list Z := [z].
Definition ser_bytes (bs : bytes) : list Z := Z.of_nat (length bs) :: bs.
Definition ser_ustr : ustr -> list Z := ser_opt ser_bytes.
Definition ser_nodeid (n : nodeid) : list Z :=
  match n with
  | NId ns (INum v) => [ns; 0; v]
  | NId ns (IStr s) => [ns; 1] ++ ser_ustr s
  | NId ns (IGuid g) => [ns; 2] ++ ser_bytes g
  | NId ns (IBStr b) => [ns; 3] ++ ser_ustr b
  end.
Fixpoint ser_diag (x : diag) : list Z :=
  match x with Diag sym ns loc ltxt info status inner =>
    ser_opt ser_z sym ++ ser_opt ser_z ns ++ ser_opt ser_z loc ++ ser_opt ser_z ltxt
    ++ ser_opt ser_ustr info ++ ser_opt ser_z status
    ++ match inner with None => [0] | Some y => 1 :: ser_diag y end
  end.
Definition ser_scalar (s : scalar) : list Z :=
  scalar_ty s ::
  match s with
  | SBool b => [if b then 1 else 0]
  | SSByte z | SByte z | SI16 z | SU16 z | SI32 z | SU32 z | SI64 z | SU64 z
  | SF32 z | SF64 z | SDate z | SStatus z => [z]
  | SStr s | SBStr s | SXml s => ser_ustr s
  | SGuid g => ser_bytes g
  | SNode n => ser_nodeid n
  | SENode (ENId n uri srv) => ser_nodeid n ++ ser_ustr uri ++ [srv]
  | SQName ns name => ns :: ser_ustr name
  | SLText loc txt => ser_ustr loc ++ ser_ustr txt
  | SExt n b => ser_nodeid n ++ match b with
                                | EONone => [0]
                                | EOBytes x => 1 :: ser_ustr x
                                | EOXml x => 2 :: ser_ustr x
                                end
  | SDiag x => ser_diag x
  end.
Definition ser_dvrest (r : dvrest) : list Z :=
  ser_opt ser_z (dv_status r) ++ ser_opt ser_z (dv_src r) ++ ser_opt ser_z (dv_srcp r)
  ++ ser_opt ser_z (dv_srv r) ++ ser_opt ser_z (dv_srvp r).
Fixpoint ser_variant (v : variant) : list Z :=
  match v with
  | VEmpty => [0]
  | VS s => ser_scalar s
  | VVar w => 24 :: ser_variant w
  | VDV ov r => 23 :: match ov with None => [0] | Some w => 1 :: ser_variant w end ++ ser_dvrest r
  | VArray ty vals dims =>
      26 :: ty :: Z.of_nat (length vals) :: concat (map (fun x => ser_variant x) vals)
      ++ ser_opt (ser_list ser_z) dims
  end.
Fixpoint ser_uval (v : uval) : list Z :=
  match v with
  | US s => ser_scalar s
  | UV x => ser_variant x
  | UD ov r => ser_variant (VDV ov r)
  | UA xs => match xs with
             | None => [0]
             | Some l => 1 :: Z.of_nat (length l) :: concat (map (fun x => ser_uval x) l)
             end
  | UT fs => concat (map (fun x => ser_uval x) fs)
  | UE z => [z]
  end.

(* ---- transport headers (core/comms/tcp_types.rs, message_chunk.rs) ------------------------------- *)
(* MessageHeader::message_type of the 4 type bytes: 0 Invalid 1 Hello 2 Acknowledge 3 Chunk 4 Error *)
Definition msg_type (t : bytes) : Z :=
  match t with
  | [a; b; c; f] =>
      let base :=
        if (a =? 72) && (b =? 69) && (c =? 76) then 1          (* HEL *)
        else if (a =? 65) && (b =? 67) && (c =? 75) then 2     (* ACK *)
        else if (a =? 69) && (b =? 82) && (c =? 82) then 4     (* ERR *)
        else if ((a =? 77) && (b =? 83) && (c =? 71))          (* MSG *)
                || ((a =? 79) && (b =? 80) && (c =? 78))       (* OPN *)
                || ((a =? 67) && (b =? 76) && (c =? 79)) then 3 (* CLO *)
        else 0 in
      if f =? 70 then base                                      (* F *)
      else if (f =? 67) || (f =? 65) then (if base =? 3 then 3 else 0)   (* C, A *)
      else 0
  | _ => 0
  end.
(* MessageHeader::decode *)
Definition dec_msg_header : M (list Z) :=
  t <- take 4 ;; size <- read_u 4 ;; ret [msg_type t; size].
Definition dec_hello (o : opts) : M (list Z) :=
  h <- dec_msg_header ;; a <- read_u 4 ;; b <- read_u 4 ;; c <- read_u 4 ;; e <- read_u 4 ;;
  f <- read_u 4 ;; url <- dec_str o ;; ret (h ++ [a; b; c; e; f] ++ ser_ustr url).
Definition dec_ack : M (list Z) :=
  h <- dec_msg_header ;; a <- read_u 4 ;; b <- read_u 4 ;; c <- read_u 4 ;; e <- read_u 4 ;;
  f <- read_u 4 ;; ret (h ++ [a; b; c; e; f]).
Definition dec_errmsg (o : opts) : M (list Z) :=
  h <- dec_msg_header ;; e <- read_u 4 ;; reason <- dec_str o ;; ret (h ++ [e] ++ ser_ustr reason).

(* MessageChunkHeader::decode: type 0 MSG 1 OPN 2 CLO; is_final 0 C 1 F 2 A *)
Definition dec_chunk_header : M (list Z) :=
  t <- take 3 ;;
  match t with
  | [a; b; c] =>
      let mt := if (a =? 77) && (b =? 83) && (c =? 71) then 0
                else if (a =? 79) && (b =? 80) && (c =? 78) then 1
                else if (a =? 67) && (b =? 76) && (c =? 79) then 2 else -1 in
      if mt =? -1 then fail EInvalid
      else f <- read_u 1 ;;
           let fin := if f =? 70 then 1 else if f =? 67 then 0 else if f =? 65 then 2 else -1 in
           if fin =? -1 then fail EInvalid
           else size <- read_u 4 ;; ch <- read_u 4 ;; ret [mt; fin; size; ch]
  | _ => fail EInvalid
  end.
Definition enc_chunk_header (h : list Z) : bytes :=
  match h with
  | [mt; fin; size; ch] =>
      (if mt =? 0 then [77; 83; 71] else if mt =? 1 then [79; 80; 78] else [67; 76; 79])
      ++ [if fin =? 1 then 70 else if fin =? 0 then 67 else 65] ++ enc_u 4 size ++ enc_u 4 ch
  | _ => []
  end.
(* MessageChunk::decode: the size check comes before the buffer is allocated and before the body
   is read; a short body is zero-filled and the input cursor ends up at the end of the input (the
   failed read_exact of a Cursor copies nothing and its result is ignored); a declared size below
   the header size leaves a 12-byte chunk (the cursor grows the buffer) *)
Definition dec_chunk (o : opts) : M bytes :=
  h <- dec_chunk_header ;;
  let size := nth 2 h 0 in
  if (0 <? max_msg o) && (max_msg o <? size) then fail ELimit
  else
    _ <- alloc size ;;
    let hdr := enc_chunk_header h in
    let data_len := Z.max size 12 in
    if data_len <? 12 then panic 2       (* data[chunk_header_size..] *)
    else fun bs =>
      let n := Z.to_nat (data_len - 12) in
      if Nat.ltb (length bs) n then (Ok (hdr ++ repeat 0 n, []), st0)
      else (Ok (hdr ++ firstn n bs, skipn n bs), st0).
