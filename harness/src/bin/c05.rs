//! C05: relative path text form (types/relative_path.rs): print -> parse on the real code, and the
//! parser on arbitrary / mutated strings.  Output encodings must match coq/C05/Model.v.
#[path = "../util.rs"]
mod util;
use util::*;
use opcua::types::node_id::Identifier;
use opcua::types::{ByteString, Guid, NodeId, QualifiedName, RelativePath, RelativePathElement, UAString};

#[derive(Clone, Debug)]
pub enum Id { Num(u32), Str(Option<String>), Guid, Bytes }
#[derive(Clone, Debug)]
pub struct El { ns: u16, id: Id, inv: bool, sub: bool, tns: u16, tname: Option<String> }
#[derive(Clone, Debug)]
pub enum Case { Path(Vec<El>), Str(String) }
pub struct P;

// ---- canonical encodings -------------------------------------------------------------------
fn cps(s: &str) -> Vec<i128> { s.chars().map(|c| c as u32 as i128).collect() }
fn enc_uastr(s: &UAString, out: &mut Vec<i128>) {
    match s.value() { None => out.push(-1), Some(v) => { let c = cps(v); out.push(c.len() as i128); out.extend(c); } }
}
fn enc_elem(e: &RelativePathElement, out: &mut Vec<i128>) {
    out.push(e.reference_type_id.namespace as i128);
    match &e.reference_type_id.identifier {
        Identifier::Numeric(v) => { out.push(0); out.push(*v as i128); }
        Identifier::String(s) => { out.push(1); enc_uastr(s, out); }
        Identifier::Guid(_) => { out.push(2); out.push(0); }
        Identifier::ByteString(_) => { out.push(2); out.push(1); }
    }
    out.push(e.is_inverse as i128);
    out.push(e.include_subtypes as i128);
    out.push(e.target_name.namespace_index as i128);
    enc_uastr(&e.target_name.name, out);
}
fn enc_result(r: Result<Result<RelativePath, ()>, String>, out: &mut Vec<i128>) {
    match r {
        Err(_) => out.push(-2),
        Ok(Err(())) => out.push(-1),
        Ok(Ok(p)) => match p.elements {
            None => out.push(-3), // never produced by from_str
            Some(es) => { out.push(0); out.push(es.len() as i128); for e in &es { enc_elem(e, out); } }
        },
    }
}
fn parse(s: &str) -> Result<Result<RelativePath, ()>, String> {
    guarded(|| RelativePath::from_str(s, &RelativePathElement::default_node_resolver))
}

// ---- case -> real values / Coq terms -------------------------------------------------------
fn to_elem(e: &El) -> RelativePathElement {
    let id: Identifier = match &e.id {
        Id::Num(n) => Identifier::Numeric(*n),
        Id::Str(None) => Identifier::String(UAString::null()),
        Id::Str(Some(s)) => Identifier::String(UAString::from(s.as_str())),
        Id::Guid => Identifier::Guid(Guid::null()),
        Id::Bytes => Identifier::ByteString(ByteString::from(vec![1u8, 2, 3])),
    };
    RelativePathElement {
        reference_type_id: NodeId { namespace: e.ns, identifier: id },
        is_inverse: e.inv,
        include_subtypes: e.sub,
        target_name: QualifiedName::new(e.tns, match &e.tname { None => UAString::null(), Some(s) => UAString::from(s.as_str()) }),
    }
}
fn t_str(s: &str) -> String { zlist(cps(s)) }
fn t_ostr(s: &Option<String>) -> String { coq_opt(s, |v| t_str(v)) }
fn t_elem(e: &El) -> String {
    let id = match &e.id {
        Id::Num(n) => format!("(INum {})", n),
        Id::Str(s) => format!("(IStr {})", t_ostr(s)),
        Id::Guid => "(IOpaque 0)".to_string(),
        Id::Bytes => "(IOpaque 1)".to_string(),
    };
    format!("(mk_el (mk_nid {} {}) {} {} (mk_qn {} {}))", e.ns, id, coq_bool(e.inv), coq_bool(e.sub), e.tns, t_ostr(&e.tname))
}

// ---- generators ----------------------------------------------------------------------------
const TABLE_IDS: [u32; 27] = [31, 32, 33, 34, 35, 36, 37, 38, 39, 40, 41, 44, 45, 46, 47, 48, 49, 51, 52, 53, 54, 56, 117, 3065, 9004, 9005, 9006];
const TABLE_NAMES: [&str; 27] = ["References", "NonHierarchicalReferences", "HierarchicalReferences", "HasChild", "Organizes",
    "HasEventSource", "HasModellingRule", "HasEncoding", "HasDescription", "HasTypeDefinition", "GeneratesEvent", "Aggregates",
    "HasSubtype", "HasProperty", "HasComponent", "HasNotifier", "HasOrderedComponent", "FromState", "ToState", "HasCause",
    "HasEffect", "HasHistoricalConfiguration", "HasSubStateMachine", "AlwaysGeneratesEvent", "HasTrueSubState", "HasFalseSubState",
    "HasCondition"];
const NSS: [u16; 7] = [0, 1, 9, 10, 255, 256, 65535];
const RESERVED: [char; 8] = ['&', '/', '.', '<', '>', ':', '#', '!'];
const PLAIN: [char; 12] = ['a', 'b', 'Z', '0', '1', '9', ' ', '\n', '\u{e9}', '\u{20ac}', '\u{1F600}', '_'];

fn gch(r: &mut Rng) -> char {
    match r.below(10) { 0..=3 => *r.pick(&RESERVED), 4..=8 => *r.pick(&PLAIN), _ => char::from_u32(33 + r.below(94) as u32).unwrap() }
}
fn gname(r: &mut Rng) -> String {
    match r.below(12) {
        0 => format!("{}:{}", r.below(70000), gch(r)),          // looks like nsidx:name
        1 => format!("{}", r.below(1000)),                      // digits only
        2 => format!("{}>{}", gch(r), gch(r)),                  // contains '>'
        3 => format!("{}{}", r.pick(&['#', '!', '&', '>']), gch(r)), // starts with a flag / reserved char
        4 => format!("a\n{}", gch(r)),                          // newline
        5 => r.pick(&TABLE_NAMES).to_string(),
        _ => { let n = 1 + r.below(6); (0..n).map(|_| gch(r)).collect() }
    }
}
fn gns(r: &mut Rng) -> u16 { if r.chance(1, 6) { r.below(65536) as u16 } else { *r.pick(&NSS) } }
/// reference types the printer can print and the parser can read back
fn greftype_ok(r: &mut Rng) -> (u16, Id) {
    match r.below(10) {
        0 | 1 => (0, Id::Num(33)),
        2 => (0, Id::Num(44)),
        3..=5 => (0, Id::Num(*r.pick(&TABLE_IDS))),
        6 => { // string id in namespace 0 (not a table name)
            let mut n = gname(r); if TABLE_NAMES.contains(&n.as_str()) { n.push('x'); } (0, Id::Str(Some(n))) }
        _ => { let mut ns = gns(r); if ns == 0 { ns = 1; } (ns, Id::Str(Some(gname(r)))) }
    }
}
/// known classes: 1 = not printable (panic), 2 = string id aliasing a table name
fn greftype_known(r: &mut Rng) -> (u16, Id) {
    match r.below(6) {
        0 => (0, Id::Num(*r.pick(&[0u32, 30, 42, 43, 50, 55, 129, 131, 14476, 23469, u32::MAX]))),
        1 => (1 + r.below(3) as u16, Id::Num(*r.pick(&TABLE_IDS))),
        2 => (gns(r), Id::Guid),
        3 => (gns(r), Id::Bytes),
        _ => (0, Id::Str(Some(r.pick(&TABLE_NAMES).to_string()))),
    }
}
fn gtarget(r: &mut Rng) -> (u16, Option<String>) {
    if r.chance(1, 8) { (0, None) } else { (gns(r), Some(gname(r))) }
}
fn gelem(r: &mut Rng, known: bool) -> El {
    let (ns, id) = if known { greftype_known(r) } else { greftype_ok(r) };
    let (tns, tname) = gtarget(r);
    El { ns, id, inv: r.chance(1, 3), sub: r.chance(2, 3), tns, tname }
}
fn printed(es: &[El]) -> Option<String> {
    let p = RelativePath { elements: Some(es.iter().map(to_elem).collect()) };
    guarded(|| String::from(&p)).ok()
}
/// a target name that makes the printed element exactly `total` utf-8 bytes long (best effort)
fn pad_elem(r: &mut Rng, total: usize) -> El {
    let mut e = gelem(r, false);
    e.tname = Some(String::new()); // prints "<ns>:"
    let base = printed(&[e.clone()]).map(|s| s.len()).unwrap_or(10);
    let mut name = String::new();
    let mut len = base;
    while len < total {
        let c = if total - len >= 4 && r.chance(1, 5) { '\u{1F600}' } else if total - len >= 2 && r.chance(1, 5) { '.' } else if total - len >= 2 && r.chance(1, 6) { '\u{e9}' } else { 'a' };
        len += c.len_utf8() + if RESERVED.contains(&c) { 1 } else { 0 };
        name.push(c);
    }
    if name.is_empty() { name.push('a'); }
    e.tname = Some(name);
    e
}
fn gpath(r: &mut Rng) -> Vec<El> {
    match r.below(20) {
        0 => { // around the 32 element limit
            let n = 30 + r.below(4); (0..n).map(|_| { let mut e = gelem(r, false); if let Some(t) = &mut e.tname { *t = t.chars().take(2).collect(); if t.is_empty() { t.push('a'); } } e }).collect() }
        1 | 2 => { // a token around the 256 byte limit
            let total = 250 + r.below(10) as usize;
            let mut v: Vec<El> = (0..r.below(2)).map(|_| gelem(r, false)).collect();
            v.push(pad_elem(r, total));
            if r.chance(1, 2) { v.push(gelem(r, false)); }
            v }
        3 | 4 => { // contains an element of a known class
            let n = 1 + r.below(3); let k = r.below(n);
            (0..n).map(|i| gelem(r, i == k)).collect() }
        _ => { let n = if r.chance(1, 40) { 0 } else { 1 + r.below(4) }; (0..n).map(|_| gelem(r, false)).collect() }
    }
}
fn mutate(r: &mut Rng, s: &str) -> String {
    let mut v: Vec<char> = s.chars().collect();
    let k = 1 + r.below(3);
    for _ in 0..k {
        let ins = ['&', '>', '<', ':', '#', '!', '/', '.', '0', '7', '\n', 'x', '\u{e9}'];
        if v.is_empty() || r.chance(1, 2) {
            let p = r.below(v.len() as u64 + 1) as usize;
            v.insert(p, *r.pick(&ins));
        } else if r.chance(1, 2) {
            let p = r.below(v.len() as u64) as usize;
            v.remove(p);
        } else {
            let p = r.below(v.len() as u64) as usize;
            v[p] = *r.pick(&ins);
        }
    }
    v.into_iter().collect()
}
fn gstring(r: &mut Rng) -> String {
    match r.below(10) {
        0..=4 => { // a printed path, mutated
            let p: Vec<El> = (0..1 + r.below(3)).map(|_| gelem(r, false)).collect();
            let s = printed(&p).unwrap_or_default();
            mutate(r, &s) }
        5 | 6 => { // dense in special characters
            let al = ['&', '/', '.', '<', '>', ':', '#', '!', '0', '1', '6', 'a', 'H', '\n', '\u{20ac}'];
            let n = r.below(14); (0..n).map(|_| *r.pick(&al)).collect() }
        7 => { // bracket forms with odd flags / namespaces
            let fl = *r.pick(&["", "#", "!", "#!", "!#", "##", "#!!"]);
            let ns = *r.pick(&["", "0:", "00:", "1:", "12:", "65535:", "65536:", "99999999999999999999:", ":", "1a:", "\u{663}:"]);
            let nm = *r.pick(&["", "a", "HasChild", "a&>b", "a>b", "&", "a&", "#a", "12", "Has&Child", "a\nb"]);
            let tg = *r.pick(&["", "a", "1:a", "65536:a", "070:x", "a>b", ":", "5:", "&&&", "+1:a"]);
            let close = if r.chance(1, 8) { "" } else { ">" };
            let pre = *r.pick(&["", "", "", "x", "a&/", "&<"]);
            format!("{}<{}{}{}{}{}", pre, fl, ns, nm, close, tg) }
        8 => { // long tokens
            let n = 250 + r.below(10) as usize;
            let c = *r.pick(&['a', '&', '\u{e9}', '\u{1F600}']);
            let mut s = String::from(*r.pick(&["/", ".", "<a>", "x"]));
            while s.len() < n { s.push(c); }
            if r.chance(1, 2) { s.push_str("/b"); }
            s }
        _ => { // many elements
            let n = 30 + r.below(5); let sep = *r.pick(&["/", ".", "/a", "<HasChild>", ".1:b"]);
            let mut s = String::new(); for _ in 0..n { s.push_str(sep); }
            if r.chance(1, 3) { s.insert(0, 'x'); }
            s }
    }
}

fn el(ns: u16, id: Id, inv: bool, sub: bool, tns: u16, t: Option<&str>) -> El { El { ns, id, inv, sub, tns, tname: t.map(|s| s.to_string()) } }
fn sid(s: &str) -> Id { Id::Str(Some(s.to_string())) }

// ---- history: printer and parser are meant to be pure, but sit on process-wide state (lazy_static
// regexes today; a cache or a reused buffer tomorrow).  Every case first runs printer and parser on
// NEIGHBOURS of the observed path / string (the same names under other namespace indices, the same
// namespaces with other names, flags flipped, an element more or less, the empty path, a string with a
// changed digit ...), then the observed operation, then the observed operation a second time; the
// output is that of the first observed run, with the marker -4 appended if the second differs.  The
// neighbours are derived from the case alone, so the replay of one case reproduces the history.
fn nb_elem(e: &El) -> Vec<El> {
    let mut v = Vec::new();
    for ns in [e.ns ^ 1, e.ns.wrapping_add(10), if e.ns == 0 { 65535 } else { 0 }] { let mut x = e.clone(); x.ns = ns; v.push(x); }
    for tns in [e.tns ^ 1, e.tns.wrapping_add(10), if e.tns == 0 { 65535 } else { 0 }] { let mut x = e.clone(); x.tns = tns; if x.tname.is_none() { x.tname = Some("a".into()); } v.push(x); }
    { let mut x = e.clone(); x.inv = !x.inv; v.push(x); }
    { let mut x = e.clone(); x.sub = !x.sub; v.push(x); }
    { let mut x = e.clone(); x.tname = match &e.tname { None => Some("a".into()), Some(t) => { let mut t = t.clone(); t.push('&'); Some(t) } }; v.push(x); }
    { let mut x = e.clone(); x.tname = match &e.tname { None => Some("/".into()), Some(t) => { let c: Vec<char> = t.chars().collect(); Some(c[..c.len().saturating_sub(1)].iter().collect()) } }; v.push(x); }
    if let Id::Str(Some(n)) = &e.id {
        { let mut x = e.clone(); let mut m = n.clone(); m.push('x'); x.id = Id::Str(Some(m)); v.push(x); }
        { let mut x = e.clone(); x.id = Id::Str(Some(e.tname.clone().unwrap_or_else(|| "a".into()))); x.tname = Some(n.clone()); v.push(x); }
    }
    if let Id::Num(n) = &e.id {
        let k = TABLE_IDS.iter().position(|t| t == n).unwrap_or(0);
        { let mut x = e.clone(); x.id = Id::Num(TABLE_IDS[(k + 1) % TABLE_IDS.len()]); v.push(x); }
        { let mut x = e.clone(); x.ns = 1; x.id = Id::Str(Some(TABLE_NAMES[k].to_string())); v.push(x); }
    }
    v
}
fn nb_paths(es: &[El]) -> Vec<Vec<El>> {
    let mut v: Vec<Vec<El>> = Vec::new();
    let a = El { ns: 0, id: Id::Num(33), inv: false, sub: true, tns: 1, tname: Some("a".into()) };
    if es.is_empty() { v.push(vec![a.clone()]); v.push(vec![a.clone(), a.clone()]); return v; }
    // neighbours of the first, the last and one middle element, each inside the whole path (short paths)
    // or alone (long ones)
    let idx: Vec<usize> = { let mut i = vec![0, es.len() - 1, es.len() / 2]; i.dedup(); i };
    for &i in &idx {
        for n in nb_elem(&es[i]) {
            if es.len() <= 4 { let mut p = es.to_vec(); p[i] = n; v.push(p); } else { v.push(vec![n]); }
        }
    }
    if es.len() <= 40 {
        let mut p = es.to_vec(); p.push(a.clone()); v.push(p);
        let mut p = es.to_vec(); p.pop(); v.push(p);
        let mut p = es.to_vec(); p.reverse(); v.push(p);
    }
    v.push(vec![]);
    v.push(vec![a]);
    v
}
fn nb_strings(s: &str) -> Vec<String> {
    let c: Vec<char> = s.chars().collect();
    let mut v: Vec<String> = Vec::new();
    if c.len() > 600 { return vec![c[..300].iter().collect(), String::new()]; }
    // every digit changed in turn (at most 6), so that the same names are seen under other namespaces
    let mut k = 0;
    for i in 0..c.len() {
        if c[i].is_ascii_digit() && k < 6 { let mut d = c.clone(); d[i] = if c[i] == '9' { '1' } else { ((c[i] as u8) + 1) as char }; v.push(d.into_iter().collect()); k += 1; }
    }
    v.push(format!("{}0", s));
    v.push(format!("<7:x>{}", s));
    v.push(format!("/1:{}", s));
    if !c.is_empty() {
        v.push(c[..c.len() - 1].iter().collect());
        v.push(c[1..].iter().collect());
        v.push(c.iter().filter(|x| **x != '&').collect());
        v.push(c.iter().map(|x| if *x == '#' { '!' } else if *x == '!' { '#' } else { *x }).collect());
    }
    v.push(String::new());
    v
}
fn run_path(es: &[El]) { let p = RelativePath { elements: Some(es.iter().map(to_elem).collect()) }; if let Ok(s) = guarded(|| String::from(&p)) { let _ = parse(&s); } }

impl Property for P {
    type Case = Case;
    fn fixed(tier: &str) -> Vec<Case> {
        let h = |tns: u16, t: &str| el(0, Id::Num(33), false, true, tns, Some(t));
        let mut v = vec![
            Case::Path(vec![]),
            // the unit test samples (OPC UA Part 4 Appendix A)
            Case::Path(vec![h(2, "Block.Output")]),
            Case::Path(vec![h(3, "Truck"), el(0, Id::Num(44), false, true, 0, Some("NodeVersion"))]),
            Case::Path(vec![el(1, sid("ConnectedTo"), false, true, 1, Some("Boiler")), h(1, "HeatSensor")]),
            Case::Path(vec![el(1, sid("ConnectedTo"), false, true, 1, Some("Boiler")), el(0, Id::Num(33), false, true, 0, None)]),
            Case::Path(vec![el(0, Id::Num(34), false, true, 2, Some("Wheel"))]),
            Case::Path(vec![el(0, Id::Num(34), true, true, 0, Some("Truck"))]),
            Case::Path(vec![el(0, Id::Num(34), false, true, 0, None)]),
            Case::Path(vec![el(0, Id::Num(33), true, false, 0, Some("foo4"))]),
            // fixed 62741126: target namespace indices with more than one digit (/9:foo worked, /10:foo did not)
            Case::Path(vec![h(9, "foo")]),
            Case::Path(vec![h(10, "foo")]),
            Case::Path(vec![h(65535, "foo")]),
            // newline in a target name / in a reference type name ('.' does not match '\n' without (?s))
            Case::Path(vec![h(2, "a\nb")]),
            Case::Path(vec![el(1, sid("a\nb"), false, true, 1, Some("c"))]),
            // '>' in a target name after a <..> reference type (greedy name pattern)
            Case::Path(vec![el(0, Id::Num(34), false, true, 2, Some("a>b"))]),
            Case::Path(vec![el(1, sid("x>y"), true, false, 2, Some("a>b>"))]),
            // reserved characters in a reference type name (was not unescaped on parse)
            Case::Path(vec![el(1, sid("Connected.To"), false, true, 1, Some("Boiler"))]),
            Case::Path(vec![el(0, sid("#a&b!"), false, false, 0, Some("&"))]),
            Case::Path(vec![el(0, sid("12:x"), false, true, 0, Some("34:y"))]),
            Case::Path(vec![el(7, sid("12"), true, true, 0, Some("34"))]),
            // all reserved characters, non-ASCII
            Case::Path(vec![h(1, "&/.<>:#!"), el(2, sid("&/.<>:#!"), true, true, 3, Some("!#:><./&"))]),
            Case::Path(vec![h(1, "\u{e9}\u{20ac}\u{1F600}"), el(2, sid("\u{1F600}"), false, true, 3, Some("\u{e9}"))]),
            // known class 1: reference types the browse name resolver does not know (printer panics)
            Case::Path(vec![el(3, Id::Num(77), false, true, 0, Some("a"))]),
            Case::Path(vec![el(0, Id::Num(129), false, true, 0, Some("a"))]),
            Case::Path(vec![el(0, Id::Guid, false, true, 0, Some("a"))]),
            Case::Path(vec![h(1, "x"), el(2, Id::Bytes, false, true, 0, Some("a"))]),
            // known class 2: string id in namespace 0 equal to a table name
            Case::Path(vec![el(0, sid("HasChild"), false, true, 0, Some("a"))]),
            Case::Path(vec![el(0, sid("HierarchicalReferences"), false, true, 0, Some("a"))]),
            // strings
            Case::Str(String::new()),
            Case::Str("/".into()), Case::Str("abc".into()), Case::Str("abc/def".into()), Case::Str("a&/b".into()),
            Case::Str("/10:foo".into()), Case::Str("/65536:foo".into()), Case::Str("<HasChild>2:a&>b".into()),
            Case::Str("<12:>".into()), Case::Str("<>".into()), Case::Str("<#!>".into()), Case::Str("<#!a>".into()), Case::Str("<!#a>".into()),
            Case::Str("<0:HasChild>x".into()), Case::Str("<00:HasChild>x".into()), Case::Str("<65536:a>x".into()),
            Case::Str("<1:Connected&.To>".into()), Case::Str("/a&".into()), Case::Str("/a&&&".into()), Case::Str("/&&&/".into()),
            Case::Str("/a\nb".into()), Case::Str("<a\nb>c".into()), Case::Str("<a>b>c".into()), Case::Str("<a&>".into()),
            Case::Str("&<a>b".into()), Case::Str("x&<a>b".into()), Case::Str("<<a>".into()),
        ];
        // element count limit: 31, 32, 33, 34 elements
        for n in [31usize, 32, 33, 34] {
            v.push(Case::Path((0..n).map(|i| h((i % 3) as u16, "a")).collect()));
            v.push(Case::Str("/a".repeat(n)));
            v.push(Case::Str("/".repeat(n)));
        }
        // token length limit: printed element of 255, 256, 257 bytes
        for n in [255usize, 256, 257] {
            v.push(Case::Path(vec![h(1, &"a".repeat(n - 3))]));
            v.push(Case::Path(vec![h(1, &".".repeat((n - 3) / 2)), h(0, "b")]));
            v.push(Case::Path(vec![el(1, sid(&"\u{e9}".repeat((n - 4) / 2)), false, true, 0, None), h(0, "b")]));
            v.push(Case::Str(format!("/{}", "a".repeat(n - 1))));
            v.push(Case::Str(format!("x{}", "\u{1F600}".repeat(n / 4))));
        }
        if tier == "thorough" {
            // exhaustive: every string of length <= 4 over { < > # ! & : 0 a }, alone and after '<'
            // (the bracket alternative of the element pattern against the regex crate), and every
            // string of length <= 3 over { / . < & : 1 b } after '/'
            let al = ['<', '>', '#', '!', '&', ':', '0', 'a'];
            let mut words: Vec<String> = vec![String::new()];
            let mut frontier: Vec<String> = vec![String::new()];
            for _ in 0..4 {
                let mut next = Vec::new();
                for w in &frontier { for c in al { let mut x = w.clone(); x.push(c); next.push(x); } }
                words.extend(next.iter().cloned());
                frontier = next;
            }
            for w in &words { v.push(Case::Str(w.clone())); v.push(Case::Str(format!("<{}", w))); }
            let al2 = ['/', '.', '<', '&', ':', '1', 'b'];
            let mut frontier: Vec<String> = vec![String::new()];
            for _ in 0..3 {
                let mut next = Vec::new();
                for w in &frontier { for c in al2 { let mut x = w.clone(); x.push(c); next.push(x); } }
                for w in &next { v.push(Case::Str(format!("/{}", w))); }
                frontier = next;
            }
        }
        v
    }
    fn gen(r: &mut Rng) -> Case {
        if r.chance(2, 5) { Case::Str(gstring(r)) } else { Case::Path(gpath(r)) }
    }
    fn exec(c: &Case) -> Out {
        match c {
            Case::Path(es) => {
                let path = RelativePath { elements: Some(es.iter().map(to_elem).collect()) };
                let term = format!("(CPath {})", coq_list(es, t_elem));
                for n in nb_paths(es) { run_path(&n); }
                if let Ok(s) = guarded(|| String::from(&path)) { for x in nb_strings(&s) { let _ = parse(&x); } }
                let observe = |out: &mut Vec<i128>| -> String {
                    match guarded(|| String::from(&path)) {
                        Err(_) => { out.push(-2); "path-print-panic".to_string() }
                        Ok(s) => {
                            let c = cps(&s);
                            out.push(c.len() as i128);
                            out.extend(c);
                            let res = parse(&s);
                            let same = matches!(&res, Ok(Ok(p)) if *p == path);
                            let maxtok = es.iter().map(|e| printed(&[e.clone()]).map(|s| s.len()).unwrap_or(0)).max().unwrap_or(0);
                            let tag = format!("path-{}{}{}",
                                if es.is_empty() { "empty" } else if es.len() > 32 { "over32" } else if es.len() >= 30 { "30to32" } else { "small" },
                                if maxtok > 256 { "-longtoken" } else if maxtok >= 250 { "-token250to256" } else { "" },
                                if same { "-roundtrip" } else if matches!(res, Ok(Ok(_))) { "-different" } else { "-rejected" });
                            enc_result(res, out);
                            tag
                        }
                    }
                };
                let mut out = Vec::new();
                let tag = observe(&mut out);
                let mut again = Vec::new();
                let _ = observe(&mut again);
                if again != out { out.push(-4); }
                Out { tag, term, out }
            }
            Case::Str(s) => {
                let term = format!("(CStr {})", t_str(s));
                let mut out = Vec::new();
                for x in nb_strings(s) { let _ = parse(&x); }
                let res = parse(s);
                let tag = match &res {
                    Err(_) => "string-panic".to_string(),
                    Ok(Err(())) => if s.is_empty() { "trivial-string-err".to_string() } else { "string-err".to_string() },
                    Ok(Ok(p)) => { let n = p.elements.as_ref().map(|e| e.len()).unwrap_or(0);
                        if n == 0 { "trivial-string-ok-empty".to_string() } else if n >= 30 { "string-ok-30to32".to_string() } else { "string-ok".to_string() } }
                };
                enc_result(res, &mut out);
                let mut again = Vec::new();
                enc_result(parse(s), &mut again);
                if again != out { out.push(-4); }
                Out { tag, term, out }
            }
        }
    }
}
fn main() { run_main::<P>() }
