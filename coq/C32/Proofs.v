From Coq Require Import List ZArith Bool Lia.
From OV Require Import C32.Model.
Import ListNotations.
Open Scope Z_scope.
