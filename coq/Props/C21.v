(* C21 — statements only. *)
From Coq Require Import List ZArith.
From OV Require Import C21.SysLemmas C21.Model C21.Proofs.
Open Scope Z_scope.

Theorem C21_legacy_refuted : exists c, valid c /\ oracle c (Legacy.run c) = false.
Proof. exists witness_drop. split; [split; [reflexivity | vm_compute; reflexivity] | exact legacy_refuted]. Qed.
Print Assumptions C21_legacy_refuted.
