//! C31: TranslateBrowsePathsToNodeIds through the real `ViewService` (hook
//! `server::services::verif_asvc::translate_browse_paths_to_node_ids`) against a real
//! `AddressSpace` built from the case: nodes (numeric ids `ns * 2^32 + value`, browse names
//! `(namespace, code)`: code 0 = null string, 1 = "", k >= 2 = "n<k>") and reference triples.
//! Output: `status, #targets, sorted distinct target ids, #targets returned (with repetitions)`.
//! One case in thirty is a neighbourhood of the standard node set (`gen_std`), run against the server's
//! real address space.
#[path = "../util.rs"]
mod util;
use util::*;

use opcua::core::supported_message::SupportedMessage;
use opcua::server::address_space::types::*;
use opcua::server::address_space::{AddressSpace, EventNotifier};
use opcua::server::prelude::{ReferenceDirection, ServerBuilder};
use opcua::server::services::verif_asvc;
use opcua::server::state::ServerState;
use opcua::sync::RwLock;
use opcua::types::*;
use std::collections::BTreeSet;
use std::sync::{Arc, OnceLock};

const NS: i128 = 1 << 32;

#[derive(Clone, Debug)]
pub struct Node { id: i128, bns: i128, bname: i128 }
#[derive(Clone, Debug)]
pub struct Elem { reftype: i128, inv: bool, sub: bool, tns: i128, tname: i128 }
#[derive(Clone, Debug)]
/// `std`: Some(dictionary of browse names, code k = dict[k - 2]) = the case is a neighbourhood of the standard
/// node set and the service runs against the server's real address space
pub struct Case { nodes: Vec<Node>, refs: Vec<(i128, i128, i128)>, start: i128, path: Option<Vec<Elem>>, std: Option<Vec<String>> }
pub struct P;

fn nid(z: i128) -> NodeId { NodeId::new((z >> 32) as u16, (z & 0xffff_ffff) as u32) }
fn zid(n: &NodeId) -> i128 {
    match n.identifier { Identifier::Numeric(v) => (n.namespace as i128) * NS + v as i128, _ => -1 }
}
fn name_of(code: i128) -> UAString {
    match code { 0 => UAString::null(), 1 => UAString::from(""), k => UAString::from(format!("n{}", k)) }
}
fn qn(bns: i128, code: i128) -> QualifiedName { QualifiedName { namespace_index: bns as u16, name: name_of(code) } }
fn qn_dict(bns: i128, code: i128, dict: &Option<Vec<String>>) -> QualifiedName {
    match dict {
        Some(d) if code >= 2 && ((code - 2) as usize) < d.len() => QualifiedName { namespace_index: bns as u16, name: UAString::from(d[(code - 2) as usize].as_str()) },
        _ => qn(bns, code),
    }
}
fn status(s: StatusCode) -> i128 {
    let t: &[StatusCode] = &[StatusCode::Good, StatusCode::BadNodeIdUnknown, StatusCode::BadNothingToDo, StatusCode::BadBrowseNameInvalid, StatusCode::BadNoMatch];
    for (i, c) in t.iter().enumerate() { if s == *c { return i as i128; } }
    if s.is_good() { 98 } else { 99 }
}
fn server() -> &'static (Arc<RwLock<ServerState>>, Arc<RwLock<AddressSpace>>) {
    static S: OnceLock<(Arc<RwLock<ServerState>>, Arc<RwLock<AddressSpace>>)> = OnceLock::new();
    S.get_or_init(|| {
        let a = ServerBuilder::new_sample().pki_dir("/tmp/verif-asvc-pki").server().unwrap();
        let r = (a.server_state(), a.address_space());
        std::mem::forget(a);
        r
    })
}
fn state() -> Arc<RwLock<ServerState>> { server().0.clone() }
/// the server's own address space: the standard node set
fn std_space() -> Arc<RwLock<AddressSpace>> { server().1.clone() }

impl Property for P {
    type Case = Case;
    fn fixed(tier: &str) -> Vec<Case> { fixed_cases(tier) }
    fn gen(r: &mut Rng) -> Case { gen_case(r) }

    fn exec(c: &Case) -> Out {
        let server_state = state();
        let space = if c.std.is_some() { std_space() } else {
            let mut space = AddressSpace::default();
            for k in 1..4 { let _ = space.register_namespace(&format!("urn:verif:{}", k)); }
            for n in &c.nodes {
                let _ = space.insert(Object::new(&nid(n.id), qn(n.bns, n.bname), "d", EventNotifier::empty()), None::<&[(&NodeId, &NodeId, ReferenceDirection)]>);
            }
            for (s, t, d) in &c.refs { space.insert_reference(&nid(*s), &nid(*d), nid(*t)); }
            Arc::new(RwLock::new(space))
        };
        let request = TranslateBrowsePathsToNodeIdsRequest {
            request_header: RequestHeader::dummy(),
            browse_paths: Some(vec![BrowsePath {
                starting_node: nid(c.start),
                relative_path: RelativePath { elements: c.path.as_ref().map(|p| p.iter().map(|e| RelativePathElement {
                    reference_type_id: nid(e.reftype), is_inverse: e.inv, include_subtypes: e.sub, target_name: qn_dict(e.tns, e.tname, &c.std) }).collect()) },
            }]),
        };
        let res = guarded(|| verif_asvc::translate_browse_paths_to_node_ids(server_state.clone(), space.clone(), &request));
        let mut out: Vec<i128> = Vec::new();
        let mut n_targets = 0;
        match res {
            Ok(SupportedMessage::TranslateBrowsePathsToNodeIdsResponse(r)) => {
                let x = &r.results.as_ref().unwrap()[0];
                out.push(status(x.status_code));
                let targets: Vec<i128> = x.targets.as_ref().map(|t| t.iter().map(|b| {
                    if b.target_id.server_index != 0 || !b.target_id.namespace_uri.is_null() || b.remaining_path_index != u32::MAX { -7 } else { zid(&b.target_id.node_id) }
                }).collect()).unwrap_or_default();
                let set: BTreeSet<i128> = targets.iter().cloned().collect();
                n_targets = set.len();
                out.push(set.len() as i128);
                out.extend(set.iter().cloned());
                out.push(targets.len() as i128);
            }
            Ok(_) => out.push(-3),
            Err(m) => { if std::env::var("VERIF_DEBUG").is_ok() { eprintln!("panic: {}", m); } out.push(-2) }
        }
        let plen = c.path.as_ref().map(|p| p.len()).unwrap_or(0);
        let malformed = plen == 0 || !c.nodes.iter().any(|n| n.id == c.start) || c.path.iter().flatten().any(|e| e.tns == 0 && e.tname == 0);
        let tag = format!("{}{}{}-len{}{}{}", if c.std.is_some() { "std-" } else { "" }, if malformed { "trivial-malformed-" } else { "" }, if n_targets > 1 { "many" } else if n_targets == 1 { "one" } else { "none" }, plen.min(4),
            if c.path.iter().flatten().any(|e| e.inv) { "-inv" } else { "" },
            if c.path.iter().flatten().any(|e| e.reftype != 0 && !STD_TYPES.contains(&e.reftype)) { "-custom" } else { "" });
        let term = format!("(mk_case {} {} {} {})",
            coq_list(&c.nodes, |n| format!("(mk_gnode {} {} {})", z(n.id), z(n.bns), z(n.bname))),
            coq_list(&c.refs, |r| format!("({}, {}, {})", z(r.0), z(r.1), z(r.2))), z(c.start),
            coq_opt(&c.path, |p| coq_list(p, |e| format!("(mk_elem {} {} {} {} {})", z(e.reftype), coq_bool(e.inv), coq_bool(e.sub), z(e.tns), z(e.tname)))));
        Out { tag, term, out }
    }
}

// ---- cases ---------------------------------------------------------------------------------
/// standard reference type ids used in generated references
const STD_TYPES: &[i128] = &[31, 32, 33, 34, 35, 36, 37, 40, 44, 45, 46, 47, 48, 49];
/// the standard HasSubtype edges between them (smaller id -> larger id)
const SUBTYPES: &[(i128, i128)] = &[(31, 32), (31, 33), (33, 34), (33, 35), (33, 36), (34, 44), (34, 45), (44, 46), (44, 47), (47, 49), (36, 48), (32, 37), (32, 40)];
/// custom reference types (namespace 2) placed under Organizes / HasComponent
const CUSTOM: &[i128] = &[2 * NS + 500, 2 * NS + 501];

fn n1(v: i128) -> i128 { NS + v }
fn el(reftype: i128, inv: bool, sub: bool, tname: i128) -> Elem { Elem { reftype, inv, sub, tns: 0, tname } }
fn subtype_refs() -> Vec<(i128, i128, i128)> {
    let mut v: Vec<(i128, i128, i128)> = SUBTYPES.iter().map(|(a, b)| (*a, 45, *b)).collect();
    v.push((35, 45, CUSTOM[0]));
    v.push((47, 45, CUSTOM[1]));
    v
}

fn fixed_cases(_tier: &str) -> Vec<Case> {
    // 1 -Organizes-> 2(n2), 1 -HasComponent-> 3(n3), 2 -HasComponent-> 4(n4), 3 -HasProperty-> 4, 1 -custom0-> 5(n2), 1 -HasTypeDefinition-> 6(n2)
    let nodes: Vec<Node> = vec![(1, 9), (2, 2), (3, 3), (4, 4), (5, 2), (6, 2)].into_iter().map(|(i, b)| Node { id: n1(i), bns: 0, bname: b }).collect();
    let mut refs = subtype_refs();
    refs.extend([(n1(1), 35, n1(2)), (n1(1), 47, n1(3)), (n1(2), 47, n1(4)), (n1(3), 46, n1(4)), (n1(1), CUSTOM[0], n1(5)), (n1(1), 40, n1(6))]);
    let c = |start: i128, path: Option<Vec<Elem>>| Case { nodes: nodes.clone(), refs: refs.clone(), start: n1(start), path, std: None };
    vec![
        c(1, Some(vec![el(33, false, true, 2)])),                       // hierarchical with subtypes: 2 and 5 (custom subtype of Organizes)
        c(1, Some(vec![el(33, false, false, 2)])),                      // exact type only: nothing
        c(1, Some(vec![el(35, false, false, 2)])),                      // Organizes exactly: 2
        c(1, Some(vec![el(35, false, true, 2)])),                       // Organizes and subtypes: 2, 5
        c(1, Some(vec![el(CUSTOM[0], false, false, 2)])),               // the custom type exactly: 5 only (the filter was dropped: 2, 5, 6)
        c(1, Some(vec![el(CUSTOM[1], false, true, 2)])),                // another custom type: nothing (the filter was dropped: 2, 5, 6)
        c(1, Some(vec![el(0, false, true, 2)])),                        // null reference type: every reference
        c(1, Some(vec![el(33, false, true, 2), el(44, false, true, 4)])),
        c(1, Some(vec![el(33, false, true, 3), el(44, false, true, 4)])),
        c(4, Some(vec![el(44, true, true, 3), el(33, true, true, 9)])), // inverse
        c(4, Some(vec![el(44, true, true, 2)])),
        c(1, Some(vec![el(33, false, true, 7)])),                       // no such name
        c(1, Some(vec![el(33, false, true, 2), el(33, false, true, 7), el(33, false, true, 2)])),
        c(1, Some(vec![el(33, false, true, 0)])),                       // null target name
        c(1, Some(vec![])),
        c(1, None),
        c(77, Some(vec![el(33, false, true, 2)])),                      // unknown start
        c(1, Some(vec![Elem { reftype: 33, inv: false, sub: true, tns: 1, tname: 2 }])), // same name, other namespace
    ]
}

/// A case over the standard node set: every forward reference of every node within `hops` forward
/// hops of the start node, the whole HasSubtype hierarchy of the reference types, the browse names of
/// all those nodes, and a forward-only path of `hops` elements guided along real references.  On
/// such a path the service only ever looks at those references, so the model on this neighbourhood
/// and the service on the full address space must agree.
fn gen_std(r: &mut Rng) -> Option<Case> {
    let space = std_space();
    let sp = space.read();
    let all = |n: i128| -> Vec<(i128, i128)> {
        sp.find_references(&nid(n), None::<(NodeId, bool)>).unwrap_or_default().iter().map(|x| (zid(&x.reference_type), zid(&x.target_node))).collect()
    };
    let start = *r.pick(&[84i128, 85, 86, 87, 2253, 2268, 2274, 2295, 2296, 2256, 2260, 2004, 2013, 2020, 58, 61, 62, 63, 68, 31, 33, 24, 26, 2041, 3048, 11192]);
    let want = 1 + r.below(3) as usize;
    let mut refs: Vec<(i128, i128, i128)> = Vec::new();
    let mut seen: BTreeSet<i128> = [start].into_iter().collect();
    let mut frontier = vec![start];
    let mut hops = 0;
    for _ in 0..want {
        let mut next = Vec::new();
        let mut add: Vec<(i128, i128, i128)> = Vec::new();
        for n in &frontier { for (t, d) in all(*n) { if t < 0 || d < 0 { return None; } add.push((*n, t, d)); if seen.insert(d) { next.push(d); } } }
        if refs.len() + add.len() > 120 { break; }
        refs.extend(add);
        frontier = next;
        hops += 1;
    }
    if hops == 0 { return None; }
    // the reference type hierarchy
    let mut types = vec![31i128];
    let mut i = 0;
    let mut parent: Vec<(i128, i128)> = Vec::new(); // (child, parent)
    while i < types.len() {
        let n = types[i]; i += 1;
        for (t, d) in all(n) { if t == 45 { if !refs.contains(&(n, 45, d)) { refs.push((n, 45, d)); } parent.push((d, n)); if !types.contains(&d) { types.push(d); } } }
    }
    // browse names
    let mut dict: Vec<String> = Vec::new();
    let mut nodes: Vec<Node> = Vec::new();
    let mut ids: BTreeSet<i128> = seen.clone();
    for (a, _, d) in &refs { ids.insert(*a); ids.insert(*d); }
    for id in &ids {
        if let Some(n) = sp.find_node(&nid(*id)) {
            let bn = n.as_node().browse_name();
            let name = bn.name.as_ref().to_string();
            let code = match dict.iter().position(|x| *x == name) { Some(k) => k, None => { dict.push(name); dict.len() - 1 } } as i128 + 2;
            nodes.push(Node { id: *id, bns: bn.namespace_index as i128, bname: code });
        }
    }
    let name_of_node = |id: i128| nodes.iter().find(|n| n.id == id).map(|n| (n.bns, n.bname));
    let parent_of = |t: i128| parent.iter().find(|e| e.0 == t).map(|e| e.1);
    let mut cur = start;
    let mut path = Vec::new();
    for _ in 0..hops {
        let cands: Vec<(i128, i128)> = refs.iter().filter(|e| e.0 == cur).map(|e| (e.1, e.2)).collect();
        if cands.is_empty() { break; }
        let (t, next) = *r.pick(&cands);
        let (tns, tname) = if r.chance(1, 8) { (0, 2 + r.below(dict.len() as u64) as i128) } else { name_of_node(next).unwrap_or((0, 2)) };
        let (reftype, sub) = match r.below(8) {
            0 => (0, r.chance(1, 2)),
            1..=3 => (t, r.chance(1, 2)),
            4 => (33, true),
            5 => (parent_of(t).unwrap_or(t), true),
            6 => (parent_of(t).and_then(parent_of).unwrap_or(31), true),
            _ => (parent_of(t).unwrap_or(31), false),
        };
        path.push(Elem { reftype, inv: false, sub, tns, tname });
        cur = next;
    }
    if path.is_empty() { return None; }
    Some(Case { nodes, refs, start, path: Some(path), std: Some(dict) })
}

fn gen_case(r: &mut Rng) -> Case {
    if r.chance(1, 30) { if let Some(c) = gen_std(r) { return c; } }
    let n = 3 + r.below(6) as i128;
    let ids: Vec<i128> = (1..=n).map(n1).collect();
    let mut nodes: Vec<Node> = Vec::new();
    for id in &ids {
        if r.chance(1, 12) { continue; }
        nodes.push(Node { id: *id, bns: if r.chance(1, 10) { 1 } else { 0 }, bname: if r.chance(1, 20) { r.below(2) as i128 } else { 2 + r.below(3) as i128 } });
    }
    let mut refs: Vec<(i128, i128, i128)> = subtype_refs().into_iter().filter(|_| r.chance(9, 10)).collect();
    let types: Vec<i128> = STD_TYPES.iter().cloned().chain(CUSTOM.iter().cloned()).collect();
    for _ in 0..(n as u64 + r.below(2 * n as u64)) {
        let s = *r.pick(&ids); let d = *r.pick(&ids);
        let t = if r.chance(2, 3) { *r.pick(&[35i128, 47, 46, 44, 33]) } else { *r.pick(&types) };
        if s != d && t != 45 && !refs.contains(&(s, t, d)) { refs.push((s, t, d)); }
    }
    let plen = match r.below(12) { 0 => 0, 1..=4 => 1, 5..=8 => 2, 9..=10 => 3, _ => 4 };
    let name_of_node = |id: i128| nodes.iter().find(|n| n.id == id).map(|n| (n.bns, n.bname));
    // supertypes in the standard hierarchy (child -> parent)
    let parent_of = |t: i128| -> Option<i128> { subtype_refs().iter().find(|e| e.2 == t).map(|e| e.0) };
    let mut start = *r.pick(&ids);
    let path = if r.chance(1, 30) { None } else if r.chance(2, 3) {
        // guided: walk along existing references so that most elements match something
        let mut cur = start;
        let mut v = Vec::new();
        for _ in 0..plen {
            let inv = r.chance(1, 4);
            let cands: Vec<(i128, i128)> = refs.iter().filter(|e| e.1 != 45 && if inv { e.2 == cur } else { e.0 == cur })
                .map(|e| (e.1, if inv { e.0 } else { e.2 })).collect();
            if cands.is_empty() { v.push(el(33, inv, true, 2 + r.below(3) as i128)); continue; }
            let (t, next) = *r.pick(&cands);
            let (tns, tname) = name_of_node(next).unwrap_or((0, 2));
            // the type itself, a supertype (with or without subtypes), or null
            let (reftype, sub) = match r.below(8) {
                0 => (0, r.chance(1, 2)),
                1..=3 => (t, r.chance(1, 2)),
                4 => (33, true),
                5 => (parent_of(t).unwrap_or(t), true),
                6 => (parent_of(t).and_then(parent_of).unwrap_or(33), true),
                _ => (parent_of(t).unwrap_or(33), false),
            };
            v.push(Elem { reftype, inv, sub, tns, tname });
            cur = next;
        }
        Some(v)
    } else {
        Some((0..plen).map(|_| Elem {
            reftype: match r.below(10) { 0 => 0, 1 => *r.pick(CUSTOM), 2 => *r.pick(&[1000i128, NS + 35, 2 * NS + 502, 24]), 3..=5 => 33, _ => *r.pick(STD_TYPES) },
            inv: r.chance(1, 4), sub: r.chance(2, 3), tns: if r.chance(1, 10) { 1 } else { 0 },
            tname: if r.chance(1, 25) { r.below(2) as i128 } else { 2 + r.below(3) as i128 } }).collect())
    };
    if r.chance(1, 20) { start = n1(77); }
    Case { nodes, refs, start, path, std: None }
}

fn main() { run_main::<P>() }
