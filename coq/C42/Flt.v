(* C42 — IEEE-754 binary32 / binary64 values as bit patterns (Z), with the few operations the JSON
   code performs on them: classification, `==` with the infinities, the ordered comparison used by
   the range tests, `f64 as f32` (round to nearest even, overflow to infinity) and the f64 nearest to
   an integer (what `str::parse::<f64>` yields for an integer JSON number).  No proofs here. *)
From Coq Require Import ZArith Bool.
Open Scope Z_scope.

(* ---- binary64 ---- *)
Definition mag64 (b : Z) : Z := b mod 2 ^ 63.
Definition neg64 (b : Z) : bool := 2 ^ 63 <=? b.
Definition INF64_MAG := 9218868437227405312.          (* 0x7ff0_0000_0000_0000 *)
Definition INF64 := INF64_MAG.
Definition NEG_INF64 := 2 ^ 63 + INF64_MAG.
Definition NAN64 := 9221120237041090560.              (* f64::NAN = 0x7ff8_0000_0000_0000 *)
Definition is_nan64 (b : Z) : bool := INF64_MAG <? mag64 b.
Definition is_inf64 (b : Z) : bool := mag64 b =? INF64_MAG.
Definition finite64 (b : Z) : bool := mag64 b <? INF64_MAG.
(* order-preserving key of a non-NaN value (-0.0 and 0.0 both 0) *)
Definition key64 (b : Z) : Z := if neg64 b then - mag64 b else mag64 b.
Definition F64_MAX := 9218868437227405311.            (* 0x7fef_ffff_ffff_ffff *)
Definition F64_MIN := 2 ^ 63 + F64_MAX.
Definition F32_MAX_AS_F64 := 5183643170566569984.     (* 0x47ef_ffff_e000_0000 *)
Definition F32_MIN_AS_F64 := 2 ^ 63 + F32_MAX_AS_F64.

(* ---- binary32 ---- *)
Definition mag32 (b : Z) : Z := b mod 2 ^ 31.
Definition INF32_MAG := 2139095040.                   (* 0x7f80_0000 *)
Definition INF32 := INF32_MAG.
Definition NEG_INF32 := 2 ^ 31 + INF32_MAG.
Definition NAN32 := 2143289344.                       (* f32::NAN = 0x7fc0_0000 *)
Definition is_nan32 (b : Z) : bool := INF32_MAG <? mag32 b.
Definition is_inf32 (b : Z) : bool := mag32 b =? INF32_MAG.

(* ---- rounding ---- *)
(* m * 2^e (m >= 0) rounded to nearest-even with p significant bits and least exponent emin:
   result (m', q), m' < 2^p, q >= emin, m' >= 2^(p-1) unless q = emin *)
Definition fround (p emin m e : Z) : Z * Z :=
  if m =? 0 then (0, emin) else
  let l := Z.log2 m + 1 in
  let q := Z.max (e + l - p) emin in
  if q <=? e then (m * 2 ^ (e - q), q)
  else
    let sh := q - e in
    let quo := m / 2 ^ sh in
    let rem := m mod 2 ^ sh in
    let half := 2 ^ (sh - 1) in
    let up := (half <? rem) || ((rem =? half) && Z.odd quo) in
    let m' := if up then quo + 1 else quo in
    if m' =? 2 ^ p then (2 ^ (p - 1), q + 1) else (m', q).

(* magnitude bits of (m', q) in a format with p significant bits, least exponent emin and
   infinity magnitude inf_mag *)
Definition pack (p emin inf_mag : Z) (mq : Z * Z) : Z :=
  let '(m, q) := mq in
  if m <? 2 ^ (p - 1) then m
  else
    let r := (q - emin + 1) * 2 ^ (p - 1) + (m - 2 ^ (p - 1)) in
    if inf_mag <=? r then inf_mag else r.

(* finite binary64 magnitude -> (m, e) with value m * 2^e *)
Definition decomp64 (mag : Z) : Z * Z :=
  let e := mag / 2 ^ 52 in
  let m := mag mod 2 ^ 52 in
  if e =? 0 then (m, -1074) else (m + 2 ^ 52, e - 1075).

(* `v as f32` *)
Definition f64_to_f32 (b : Z) : Z :=
  if is_nan64 b then NAN32
  else
    let s := if neg64 b then 2 ^ 31 else 0 in
    if is_inf64 b then s + INF32_MAG
    else let '(m, e) := decomp64 (mag64 b) in s + pack 24 (-149) INF32_MAG (fround 24 (-149) m e).

(* the binary64 nearest to the integer z (overflow gives an infinity) *)
Definition f64_of_Z (z : Z) : Z :=
  (if z <? 0 then 2 ^ 63 else 0) + pack 53 (-1074) INF64_MAG (fround 53 (-1074) (Z.abs z) 0).
