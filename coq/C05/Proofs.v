(* C05 -- proofs: the printed text of a path parses back to the path; the parser is total. *)
From Coq Require Import String Ascii List ZArith Bool Lia ZifyBool.
From OV Require Import Gen.C05Tables C05.Model C05.Escape.
Import ListNotations.
Open Scope Z_scope.

(* ---- small facts ----------------------------------------------------------------------------- *)
Lemma str_eqb_refl : forall a, str_eqb a a = true.
Proof. induction a as [|x a IH]; cbn; [reflexivity | rewrite Z.eqb_refl, IH; reflexivity]. Qed.

Lemma str_eqb_eq : forall a b, str_eqb a b = true <-> a = b.
Proof.
  induction a as [|x a IH]; intros [|y b]; cbn; split; intro H; try congruence; try reflexivity.
  - apply andb_true_iff in H as [H1 H2]. apply Z.eqb_eq in H1. apply IH in H2. congruence.
  - inversion H; subst. rewrite Z.eqb_refl. cbn. apply IH. reflexivity.
Qed.

Lemma skipn_length_app : forall (A : Type) (a b : list A), skipn (length a) (a ++ b) = b.
Proof. induction a as [|x a IH]; intro b; cbn; [reflexivity | apply IH]. Qed.

(* ---- numbers --------------------------------------------------------------------------------- *)
Lemma dg_digit : forall x, is_digit (dg x) = true.
Proof. intro x. unfold is_digit, dg. pose proof (Z.mod_pos_bound x 10). lia. Qed.

Lemma dg_range : forall x, 48 <= dg x <= 57.
Proof. intro x. unfold dg. pose proof (Z.mod_pos_bound x 10). lia. Qed.

Lemma show_num_digits : forall n, forallb is_digit (show_num n) = true /\ show_num n <> [].
Proof.
  intro n. unfold show_num.
  destruct (n <? 10); [|destruct (n <? 100); [|destruct (n <? 1000); [|destruct (n <? 10000)]]];
    cbn [forallb]; rewrite ?dg_digit; split; try reflexivity; discriminate.
Qed.

Lemma parse_u16_show : forall n, 0 <= n <= 65535 -> parse_u16 (show_num n) = Some n.
Proof.
  intros n Hn. unfold show_num, parse_u16.
  destruct (n <? 10) eqn:E1; [|destruct (n <? 100) eqn:E2; [|destruct (n <? 1000) eqn:E3; [|destruct (n <? 10000) eqn:E4]]];
    cbn [fold_left]; unfold dg.
  - replace (10 * 0 + (48 + n mod 10 - 48)) with n by (rewrite Z.mod_small; lia).
    destruct (n <=? 65535) eqn:E; [reflexivity | lia].
  - match goal with |- (if ?v <=? _ then _ else _) = _ => replace v with n end.
    + destruct (n <=? 65535) eqn:E; [reflexivity | lia].
    + Z.div_mod_to_equations. lia.
  - match goal with |- (if ?v <=? _ then _ else _) = _ => replace v with n end.
    + destruct (n <=? 65535) eqn:E; [reflexivity | lia].
    + Z.div_mod_to_equations. lia.
  - match goal with |- (if ?v <=? _ then _ else _) = _ => replace v with n end.
    + destruct (n <=? 65535) eqn:E; [reflexivity | lia].
    + Z.div_mod_to_equations. lia.
  - match goal with |- (if ?v <=? _ then _ else _) = _ => replace v with n end.
    + destruct (n <=? 65535) eqn:E; [reflexivity | lia].
    + Z.div_mod_to_equations. lia.
Qed.

Lemma utf8_len_ascii : forall c, c < 128 -> utf8_len c = 1.
Proof. intros c H. unfold utf8_len. destruct (c <? 128) eqn:E; [reflexivity | lia]. Qed.

Lemma ulen_show_num : forall n, ulen (show_num n) = num_size n.
Proof.
  intro n. unfold show_num, num_size.
  destruct (n <? 10); [|destruct (n <? 100); [|destruct (n <? 1000); [|destruct (n <? 10000)]]];
    cbn [ulen fold_right];
    repeat match goal with |- context [utf8_len (dg ?x)] =>
      rewrite (utf8_len_ascii (dg x)) by (pose proof (dg_range x); lia) end; reflexivity.
Qed.

Lemma span_digits_app : forall d c r,
  forallb is_digit d = true -> is_digit c = false -> span_digits (d ++ c :: r) = (d, c :: r).
Proof.
  induction d as [|x d IH]; intros c r Hd Hc; cbn [app span_digits].
  - rewrite Hc. reflexivity.
  - cbn [forallb] in Hd. apply andb_true_iff in Hd as [Hx Hd]. rewrite Hx, (IH c r Hd Hc). reflexivity.
Qed.

Lemma take_nsidx_show : forall n r, take_nsidx (show_num n ++ 58 :: r) = Some (show_num n, r).
Proof.
  intros n r. unfold take_nsidx. destruct (show_num_digits n) as [Hd Hne].
  rewrite span_digits_app by (exact Hd || reflexivity).
  destruct (show_num n); [contradiction | reflexivity].
Qed.

(* ---- the resolver tables ---------------------------------------------------------------------- *)
(* every row of the browse-name table is non-empty and the node resolver maps it back to its id;
   every row of the node resolver table is mapped back to its name (decided by computation) *)
Definition id_row_ok (p : Z * str) : bool :=
  negb (is_nil (snd p)) && forallb (fun c => negb (is_reserved c)) (snd p) &&
  match lookup_name (snd p) with Some k => k =? fst p | None => false end.
Definition name_row_ok (p : str * Z) : bool :=
  match lookup_id (snd p) with Some n => str_eqb n (fst p) | None => false end.

Lemma tables_inverse : forallb id_row_ok id_table = true /\ forallb name_row_ok name_table = true.
Proof. split; vm_compute; reflexivity. Qed.

Lemma lookup_id_in_In : forall t k n, lookup_id_in t k = Some n -> In (k, n) t.
Proof.
  induction t as [|[i m] t IH]; intros k n H; cbn in H; [discriminate|].
  destruct (i =? k) eqn:E.
  - apply Z.eqb_eq in E. inversion H; subst. left; reflexivity.
  - right. apply IH. exact H.
Qed.

Lemma lookup_id_in_none : forall t k,
  lookup_id_in t k = None <-> existsb (fun p => fst p =? k) t = false.
Proof.
  induction t as [|[i m] t IH]; intro k; cbn; [split; reflexivity|].
  destruct (i =? k); cbn; [split; discriminate | apply IH].
Qed.

Lemma lookup_name_in_none : forall t s,
  existsb (fun p => str_eqb (fst p) s) t = false -> lookup_name_in t s = None.
Proof.
  induction t as [|[n k] t IH]; intros s H; cbn in *; [reflexivity|].
  destruct (str_eqb n s); cbn in H; [discriminate | apply IH; exact H].
Qed.

Lemma lookup_id_ok : forall k n, lookup_id k = Some n -> n <> [] /\ lookup_name n = Some k.
Proof.
  intros k n H. apply lookup_id_in_In in H.
  destruct tables_inverse as [Hid _]. rewrite forallb_forall in Hid. specialize (Hid _ H).
  unfold id_row_ok in Hid. cbn [fst snd] in Hid.
  apply andb_true_iff in Hid as [Hid H3]. apply andb_true_iff in Hid as [H1 _].
  split.
  - intro; subst. discriminate.
  - destruct (lookup_name n) as [k'|]; [|discriminate]. apply Z.eqb_eq in H3. subst. reflexivity.
Qed.

(* ---- the escaped text and the name recogniser -------------------------------------------------- *)
Lemma span_units_esc : forall s r,
  span_units (flat_map esc1 s ++ 62 :: r) = (flat_map esc1 s, 62 :: r).
Proof.
  induction s as [|x s IH]; intro r; cbn [flat_map app].
  - reflexivity.
  - unfold esc1 at 1 3. destruct (is_reserved x) eqn:Hr; cbn [app span_units].
    + rewrite IH. reflexivity.
    + apply not_reserved in Hr.
      destruct (x =? 62) eqn:E1; [lia|]. destruct (x =? 38) eqn:E2; [lia|].
      rewrite IH. reflexivity.
Qed.

Lemma take_name_esc : forall s r, s <> [] ->
  take_name (escape s ++ 62 :: r) = Some (escape s, r).
Proof.
  intros s r Hs. rewrite escape_flat. destruct s as [|x s]; [contradiction|].
  cbn [flat_map]. unfold esc1 at 1 3. destruct (is_reserved x) eqn:Hr; cbn [app take_name].
  - cbn [Z.eqb orb]. unfold name_rest. rewrite span_units_esc. reflexivity.
  - apply not_reserved in Hr.
    destruct ((x =? 35) || (x =? 33) || (x =? 62)) eqn:E1; [lia|].
    destruct (x =? 38) eqn:E2; [lia|].
    unfold name_rest. rewrite span_units_esc. reflexivity.
Qed.

(* the escaped text never starts with digits followed by a raw colon *)
Lemma take_nsidx_esc : forall s r, take_nsidx (escape s ++ 62 :: r) = None.
Proof.
  intros s r. rewrite escape_flat. unfold take_nsidx.
  assert (H : forall s, exists d t, span_digits (flat_map esc1 s ++ 62 :: r) = (d, t) /\ hd_ne 58 t).
  { clear s. induction s as [|x s [d [t [IH1 IH2]]]]; cbn [flat_map app].
    - exists [], (62 :: r). split; [reflexivity | cbn; lia].
    - unfold esc1 at 1. destruct (is_reserved x) eqn:Hr; cbn [app span_digits].
      + exists [], (38 :: x :: flat_map esc1 s ++ 62 :: r). split; [reflexivity | cbn; lia].
      + destruct (is_digit x) eqn:Hd.
        * exists (x :: d), t. rewrite IH1. split; [reflexivity | exact IH2].
        * exists [], (x :: flat_map esc1 s ++ 62 :: r). split; [reflexivity|].
          apply not_reserved in Hr. cbn. lia. }
  destruct (H s) as [d [t [H1 H2]]]. rewrite H1.
  destruct d; [reflexivity|]. destruct t as [|c t]; [reflexivity|].
  cbn in H2. destruct (c =? 58) eqn:E; [lia | reflexivity].
Qed.

(* ---- one element: the element pattern on the printed text ------------------------------------- *)
Definition flagtxt (sub inv : bool) : str := (if sub then [] else [35]) ++ (if inv then [33] else []).
Definition flagopt (sub inv : bool) : option str :=
  match sub, inv with
  | true, false => None
  | false, false => Some [35]
  | true, true => Some [33]
  | false, true => Some [35; 33]
  end.
Definition hdnf (s : str) : Prop := match s with c :: _ => c <> 35 /\ c <> 33 | [] => False end.

Lemma maf_bang : forall fl w t, match_after_flags fl w (33 :: t) = None.
Proof. intros fl [|] t; reflexivity. Qed.
Lemma maf_hash : forall fl w t, match_after_flags fl w (35 :: t) = None.
Proof. intros fl [|] t; reflexivity. Qed.

Lemma alts_flags : forall sub inv body, hdnf body ->
  first_some (fun a => match_bracket a (flagtxt sub inv ++ body)) bracket_alts =
  first_some (fun w => match_after_flags (flagopt sub inv) w body) [true; false].
Proof.
  intros sub inv body H. destruct body as [|c b]; [contradiction|]. destruct H as [H35 H33].
  assert (E35 : (35 =? c) = false) by lia. assert (E33 : (33 =? c) = false) by lia.
  destruct sub, inv; unfold bracket_alts, flagtxt, flagopt;
    cbn [app first_some match_bracket strip_prefix];
    change (35 =? 35) with true; change (33 =? 33) with true;
    change (35 =? 33) with false; change (33 =? 35) with false;
    cbn [app first_some match_bracket strip_prefix];
    rewrite ?E35, ?E33, ?maf_bang, ?maf_hash; unfold str in *.
  all: repeat match goal with |- context [match_after_flags ?f ?w ?t] =>
         let E := fresh "E" in destruct (match_after_flags f w t) eqn:E end; try reflexivity.
  all: try congruence.

Qed.

Definition nsp (ns : Z) : str := if ns =? 0 then [] else show_num ns ++ [58].

Lemma body_hdnf : forall ns bn r, bn <> [] -> hdnf (nsp ns ++ escape bn ++ r).
Proof.
  intros ns bn r Hbn. unfold nsp. destruct (ns =? 0).
  - cbn [app]. rewrite escape_flat. destruct bn as [|x bn]; [contradiction|].
    cbn [flat_map]. unfold esc1 at 1. destruct (is_reserved x) eqn:Hr; cbn [app hdnf]; [lia|].
    apply not_reserved in Hr. lia.
  - destruct (show_num_digits ns) as [Hd Hne]. destruct (show_num ns) as [|d ds]; [contradiction|].
    cbn [app hdnf]. cbn [forallb] in Hd. unfold is_digit in Hd. lia.
Qed.

Lemma body_match : forall fl ns bn tgt, bn <> [] ->
  first_some (fun w => match_after_flags fl w (nsp ns ++ escape bn ++ 62 :: tgt)) [true; false]
  = Some (mk_caps 60 fl (if ns =? 0 then None else Some (show_num ns)) (Some (escape bn)) tgt).
Proof.
  intros fl ns bn tgt Hbn. unfold nsp. cbn [first_some]. destruct (ns =? 0).
  - cbn [app]. unfold match_after_flags. rewrite take_nsidx_esc, take_name_esc by assumption. reflexivity.
  - unfold match_after_flags. rewrite <- app_assoc. cbn [app].
    rewrite take_nsidx_show, take_name_esc by assumption. reflexivity.
Qed.

Lemma find_match_here : forall s c, match_here s = Some c -> find_match s = Some c.
Proof. intros s c H. destruct s; cbn [find_match]; rewrite H; reflexivity. Qed.

(* what the default node resolver makes of the text of a reference type: a String identifier in
   namespace 0 that spells a standard name comes back as the numeric id (known class 2) *)
Definition canon_ref (r : nodeid) : nodeid :=
  match nid_id r with
  | IStr (Some s) =>
      if nid_ns r =? 0 then
        match lookup_name s with Some k => mk_nid 0 (INum k) | None => r end
      else r
  | _ => r
  end.
Definition canon (e : elem) : elem := mk_el (canon_ref (el_ref e)) (el_inv e) (el_sub e) (el_tgt e).

Definition printable (e : elem) : Prop := wf_elem e /\ unprintable e = false.
Definition good (e : elem) : Prop := wf_elem e /\ unprintable e = false /\ aliasing e = false.

Lemma good_printable : forall e, good e -> printable e.
Proof. intros e [H1 [H2 _]]. split; assumption. Qed.

Lemma canon_good : forall e, good e -> canon e = e.
Proof.
  intros [[ns id] inv sub tq] [_ [_ Ha]]. unfold canon, canon_ref, aliasing in *.
  cbn [el_ref el_inv el_sub el_tgt nid_ns nid_id] in *.
  destruct id as [k|[s|]|k]; try reflexivity.
  destruct (ns =? 0) eqn:E; [|reflexivity]. cbn [andb] in Ha.
  unfold lookup_name. rewrite (lookup_name_in_none _ _ Ha). reflexivity.
Qed.

Lemma good_name : forall e, printable e ->
  exists bn, browse_name_of (el_ref e) = Some bn /\ bn <> [] /\
             node_resolver (nid_ns (el_ref e)) bn = Some (canon_ref (el_ref e)).
Proof.
  intros [[ns id] inv sub [tns tn]] [Hwf Hu].
  unfold wf_elem, unprintable in *. cbn [el_ref el_tgt nid_ns nid_id qn_ns qn_name] in *.
  destruct Hwf as [Hns [Htns [Htn Hid]]].
  unfold browse_name_of, node_resolver, canon_ref. cbn [nid_ns nid_id].
  destruct id as [k|[s|]|k].
  - apply orb_false_iff in Hu as [Hu1 Hu2]. apply negb_false_iff in Hu1, Hu2.
    rewrite Hu1. destruct (lookup_id k) as [nm|] eqn:Hl.
    + destruct (lookup_id_ok k nm Hl) as [Hne Hln]. exists nm. rewrite Hln.
      apply Z.eqb_eq in Hu1. subst. repeat split; assumption.
    + apply lookup_id_in_none in Hl. unfold lookup_id in Hl. congruence.
  - exists s. split; [reflexivity|]. split; [exact Hid|].
    destruct (ns =? 0) eqn:E; [|reflexivity].
    apply Z.eqb_eq in E. subst. destruct (lookup_name s); reflexivity.
  - contradiction.
  - discriminate.
Qed.

Lemma target_roundtrip : forall q,
  0 <= qn_ns q <= 65535 ->
  match qn_name q with None => qn_ns q = 0 | Some s => s <> [] end ->
  target_name (print_target q) = Ok q.
Proof.
  intros [ns [s|]] Hns Hn; unfold print_target; cbn [qn_ns qn_name] in *.
  - unfold target_name. cbn [app]. rewrite take_nsidx_show, parse_u16_show by exact Hns.
    destruct (escape s) eqn:E; [apply (proj1 (escape_nil_iff s)) in E; exfalso; exact (Hn E)|].
    cbn [is_nil]. rewrite <- E, unescape_escape. reflexivity.
  - subst. reflexivity.
Qed.

Lemma elem_of_caps_bracket : forall sub inv nsopt nm T ref tq,
  target_name T = Ok tq ->
  match nsopt with
  | Some d => if str_eqb d [48] || is_nil d then Ok (node_resolver 0 (unescape nm))
              else match parse_u16 d with
                   | Some n => Ok (node_resolver n (unescape nm))
                   | None => Err
                   end
  | None => Ok (node_resolver 0 (unescape nm))
  end = Ok (Some ref) ->
  elem_of_caps (mk_caps 60 (flagopt sub inv) nsopt (Some nm) T) = Ok (mk_el ref inv sub tq).
Proof.
  intros sub inv nsopt nm T ref tq Ht Hr. unfold elem_of_caps.
  cbn [cp_target cp_kind cp_flags cp_name cp_nsidx]. rewrite Ht.
  change (60 =? 47) with false. change (60 =? 46) with false. cbv iota.
  destruct sub, inv; cbn [flagopt]; try (change (str_eqb [35] [35]) with true);
    try (change (str_eqb [33] [35]) with false); try (change (str_eqb [33] [33]) with true);
    try (change (str_eqb [35; 33] [35]) with false); try (change (str_eqb [35; 33] [33]) with false);
    try (change (str_eqb [35; 33] [35; 33]) with true); cbv iota; rewrite Hr; reflexivity.
Qed.

Lemma ns_resolve : forall ns bn ref, 0 <= ns <= 65535 ->
  node_resolver ns bn = Some ref ->
  match (if ns =? 0 then None else Some (show_num ns)) with
  | Some d => if str_eqb d [48] || is_nil d then Ok (node_resolver 0 (unescape (escape bn)))
              else match parse_u16 d with
                   | Some n => Ok (node_resolver n (unescape (escape bn)))
                   | None => @Err (option nodeid)
                   end
  | None => Ok (node_resolver 0 (unescape (escape bn)))
  end = Ok (Some ref).
Proof.
  intros ns bn ref Hns Hr. rewrite unescape_escape. destruct (ns =? 0) eqn:E.
  - apply Z.eqb_eq in E. subst. rewrite Hr. reflexivity.
  - pose proof (parse_u16_show ns Hns) as Hp. destruct (show_num_digits ns) as [_ Hne].
    destruct (str_eqb (show_num ns) [48]) eqn:E48.
    + apply str_eqb_eq in E48. rewrite E48 in Hp. vm_compute in Hp. inversion Hp. lia.
    + destruct (show_num ns); [contradiction|]. cbn [is_nil orb]. rewrite Hp, Hr. reflexivity.
Qed.

Lemma bracket_text : forall (sub inv : bool) (ns : Z) (E T : str),
  ([60] ++ (if sub then [] else [35]) ++ (if inv then [33] else [])
     ++ (if ns =? 0 then E else show_num ns ++ [58] ++ E) ++ [62]) ++ T
  = 60 :: flagtxt sub inv ++ nsp ns ++ E ++ 62 :: T.
Proof.
  intros. unfold flagtxt, nsp. destruct sub, inv, (ns =? 0); cbn [app];
    repeat rewrite <- app_assoc; cbn [app]; reflexivity.
Qed.

Lemma is_num_eq : forall r k, nodeid_is_num r k = true -> r = mk_nid 0 (INum k).
Proof.
  intros [ns id] k H. unfold nodeid_is_num in H. cbn in H. apply andb_true_iff in H as [H1 H2].
  destruct id; try discriminate. apply Z.eqb_eq in H1, H2. subst. reflexivity.
Qed.

Theorem parse_elem_canon : forall e w, printable e -> print_elem e = Ok w -> parse_elem w = Ok (canon e).
Proof.
  intros e w Hg Hp. destruct (good_name e Hg) as [bn [Hbn [Hne Hres]]].
  destruct Hg as [Hwf _]. destruct Hwf as [Hns [Htns [Htn _]]].
  pose proof (target_roundtrip (el_tgt e) Htns Htn) as Ht.
  unfold print_elem, print_reftype in Hp. rewrite Hbn in Hp.
  destruct e as [ref inv sub tq]. unfold canon. cbn [el_ref el_inv el_sub el_tgt] in *.
  assert (Hbr : parse_elem (([60] ++ (if sub then [] else [35]) ++ (if inv then [33] else [])
                 ++ (if nid_ns ref =? 0 then escape bn else show_num (nid_ns ref) ++ [58] ++ escape bn)
                 ++ [62]) ++ print_target tq) = Ok (mk_el (canon_ref ref) inv sub tq)).
  { rewrite bracket_text. unfold parse_elem.
    erewrite find_match_here.
    2:{ cbn [match_here]. change (60 =? 47) with false. change (60 =? 46) with false.
        change (60 =? 60) with true. cbv iota.
        rewrite alts_flags by (apply body_hdnf; exact Hne). apply body_match. exact Hne. }
    apply elem_of_caps_bracket; [exact Ht|]. apply ns_resolve; assumption. }
  destruct (sub && negb inv) eqn:Hs; [|cbn [is_nil negb] in Hp; inversion Hp; subst w; exact Hbr].
  destruct (nodeid_is_num ref HIERARCHICAL) eqn:H33.
  - apply andb_true_iff in Hs as [Hs1 Hs2]. apply negb_true_iff in Hs2. subst sub inv.
    apply is_num_eq in H33. subst ref. cbn [is_nil negb app] in Hp. inversion Hp; subst w.
    unfold parse_elem. cbn [app find_match match_here]. change (47 =? 47) with true. cbv iota.
    unfold elem_of_caps. cbn [cp_target cp_kind]. rewrite Ht. reflexivity.
  - destruct (nodeid_is_num ref AGGREGATES) eqn:H44; [|cbn [is_nil negb] in Hp; inversion Hp; subst w; exact Hbr].
    apply andb_true_iff in Hs as [Hs1 Hs2]. apply negb_true_iff in Hs2. subst sub inv.
    apply is_num_eq in H44. subst ref. cbn [is_nil negb app] in Hp. inversion Hp; subst w.
    unfold parse_elem. cbn [app find_match match_here]. change (46 =? 47) with false.
    change (46 =? 46) with true. cbv iota.
    unfold elem_of_caps. cbn [cp_target cp_kind]. rewrite Ht. reflexivity.
Qed.

Theorem parse_elem_print : forall e w, good e -> print_elem e = Ok w -> parse_elem w = Ok e.
Proof.
  intros e w Hg Hp. rewrite <- (canon_good e Hg).
  apply parse_elem_canon; [apply good_printable; exact Hg | exact Hp].
Qed.


Lemma element_roundtrip : forall e w,
  printable e -> print_elem e = Ok w -> parse_elem w = Ok (canon e) /\ (aliasing e = false -> canon e = e).
Proof.
  intros e w Hp Hw. split; [apply parse_elem_canon; assumption|].
  intro Ha. apply canon_good. destruct Hp as [H1 H2]. split; [exact H1 | split; [exact H2 | exact Ha]].
Qed.

(* ---- the tokeniser ---------------------------------------------------------------------------- *)
(* text made of plain characters (not & / . <) and of pairs & x *)
Inductive inert : str -> Prop :=
| inert_nil : inert []
| inert_plain : forall c r, c <> 38 -> is_sep c = false -> inert r -> inert (c :: r)
| inert_pair : forall x r, inert r -> inert (38 :: x :: r).

Lemma inert_app : forall a b, inert a -> inert b -> inert (a ++ b).
Proof. intros a b Ha Hb. induction Ha; cbn [app]; [exact Hb | apply inert_plain; assumption | apply inert_pair; assumption]. Qed.

Lemma inert_esc : forall s, inert (flat_map esc1 s).
Proof.
  induction s as [|x s IH]; cbn [flat_map]; [constructor|].
  unfold esc1. destruct (is_reserved x) eqn:Hr; cbn [app].
  - apply inert_pair. exact IH.
  - apply not_reserved in Hr. apply inert_plain; [lia | unfold is_sep; lia | exact IH].
Qed.

Lemma inert_digits : forall d, forallb is_digit d = true -> inert d.
Proof.
  induction d as [|x d IH]; intro H; [constructor|]. cbn [forallb] in H.
  apply andb_true_iff in H as [Hx Hd]. unfold is_digit in Hx.
  apply inert_plain; [lia | unfold is_sep; lia | apply IH; exact Hd].
Qed.

Section Tok.
  Variable pe : str -> outcome elem.

  Lemma tok_inert : forall body, inert body -> forall cs els t,
    ulen (t ++ body) <= MAX_TOKEN_LEN ->
    tok_loop pe (body ++ cs) els t false = tok_loop pe cs els (t ++ body) false.
  Proof.
    induction 1 as [|c r Hc Hs Hr IH|x r Hr IH]; intros cs els t Hlen.
    - rewrite app_nil_r. reflexivity.
    - cbn [app tok_loop]. destruct (c =? 38) eqn:E; [lia|]. rewrite Hs.
      replace (t ++ c :: r) with ((t ++ [c]) ++ r) in * by (rewrite <- app_assoc; reflexivity).
      assert (Hl : ulen (t ++ [c]) <= MAX_TOKEN_LEN).
      { rewrite ulen_app in Hlen. pose proof (ulen_nonneg r). lia. }
      destruct (MAX_TOKEN_LEN <? ulen (t ++ [c])) eqn:E2; [lia|].
      apply IH. exact Hlen.
    - cbn [app tok_loop]. change (38 =? 38) with true. cbv iota.
      replace (t ++ 38 :: x :: r) with (((t ++ [38]) ++ [x]) ++ r) in * by (rewrite <- !app_assoc; reflexivity).
      assert (Hl : ulen ((t ++ [38]) ++ [x]) <= MAX_TOKEN_LEN).
      { rewrite ulen_app in Hlen. pose proof (ulen_nonneg r). lia. }
      assert (Hl1 : ulen (t ++ [38]) <= MAX_TOKEN_LEN).
      { rewrite ulen_app in Hl. pose proof (ulen_nonneg [x]). lia. }
      destruct (MAX_TOKEN_LEN <? ulen (t ++ [38])) eqn:E1; [lia|].
      destruct (MAX_TOKEN_LEN <? ulen ((t ++ [38]) ++ [x])) eqn:E2; [lia|].
      apply IH. exact Hlen.
  Qed.

  (* the text of one element: a separator, then inert text; at most 256 bytes *)
  Definition elem_text (w : str) : Prop :=
    exists c body, w = c :: body /\ is_sep c = true /\ inert body /\ ulen w <= MAX_TOKEN_LEN.

  Lemma sep_not_amp : forall c, is_sep c = true -> (c =? 38) = false.
  Proof. intros c H. unfold is_sep in H. lia. Qed.

  Lemma tok_first : forall w cs els, elem_text w ->
    tok_loop pe (w ++ cs) els [] false = tok_loop pe cs els w false.
  Proof.
    intros w cs els [c [body [-> [Hs [Hi Hl]]]]].
    cbn [app tok_loop]. rewrite (sep_not_amp c Hs), Hs. cbn [is_nil].
    assert (H1 : ulen [c] <= MAX_TOKEN_LEN).
    { change (c :: body) with ([c] ++ body) in Hl. rewrite ulen_app in Hl. pose proof (ulen_nonneg body). lia. }
    destruct (MAX_TOKEN_LEN <? ulen [c]) eqn:E; [lia|].
    apply (tok_inert body Hi cs els [c]). exact Hl.
  Qed.

  Lemma tok_next : forall w cs els t e, elem_text w ->
    t <> [] -> Z.of_nat (length els) <> MAX_ELEMENTS -> pe t = Ok e ->
    tok_loop pe (w ++ cs) els t false = tok_loop pe cs (els ++ [e]) w false.
  Proof.
    intros w cs els t e [c [body [-> [Hs [Hi Hl]]]]] Ht Hn He.
    cbn [app tok_loop]. rewrite (sep_not_amp c Hs), Hs.
    destruct t as [|t0 t]; [contradiction|]. cbn [is_nil].
    destruct (Z.of_nat (length els) =? MAX_ELEMENTS) eqn:E0; [lia|]. rewrite He.
    assert (H1 : ulen [c] <= MAX_TOKEN_LEN).
    { change (c :: body) with ([c] ++ body) in Hl. rewrite ulen_app in Hl. pose proof (ulen_nonneg body). lia. }
    destruct (MAX_TOKEN_LEN <? ulen [c]) eqn:E; [lia|].
    apply (tok_inert body Hi cs (els ++ [e]) [c]). exact Hl.
  Qed.

  (* a sequence of element texts, each of which [pe] parses to the element it came from *)
  Variable text : elem -> str.
  Variable res : elem -> elem.       (* what [pe] makes of the text of an element *)

  Definition pend_tok (pend : option elem) : str := match pend with Some e => text e | None => [] end.
  Definition pend_el (pend : option elem) : list elem := match pend with Some e => [e] | None => [] end.

  Lemma tok_path : forall p els pend,
    Forall (fun e => elem_text (text e) /\ pe (text e) = Ok (res e)) p ->
    match pend with Some e => elem_text (text e) /\ pe (text e) = Ok (res e) | None => True end ->
    (length els + length (pend_el pend) + length p <= 32)%nat ->
    tok_loop pe (flat_map text p) els (pend_tok pend) false = Ok (els ++ map res (pend_el pend ++ p)).
  Proof.
    induction p as [|e p IH]; intros els pend Hp Hpend Hlen.
    - cbn [flat_map tok_loop]. unfold finish. destruct pend as [e0|]; cbn [pend_tok pend_el] in *.
      + destruct Hpend as [[c [body [Hw _]]] He]. rewrite Hw. cbn [is_nil]. rewrite <- Hw.
        cbn [length] in Hlen.
        destruct (Z.of_nat (length els) =? MAX_ELEMENTS) eqn:E; [unfold MAX_ELEMENTS in E; lia|].
        rewrite He. reflexivity.
      + cbn [is_nil app map]. rewrite app_nil_r. reflexivity.
    - cbn [flat_map]. inversion Hp as [|? ? [Htxt He] Hp']; subst.
      destruct pend as [e0|]; cbn [pend_tok pend_el] in *.
      + destruct Hpend as [Htxt0 He0].
        rewrite (tok_next (text e) (flat_map text p) els (text e0) (res e0) Htxt).
        * assert (H : tok_loop pe (flat_map text p) (els ++ [res e0]) (pend_tok (Some e)) false
                      = Ok ((els ++ [res e0]) ++ map res (pend_el (Some e) ++ p))).
          { apply IH; [exact Hp' | split; assumption |].
            rewrite app_length. cbn [length pend_el] in *. lia. }
          cbn [pend_tok pend_el] in H. rewrite H, <- app_assoc. reflexivity.
        * destruct Htxt0 as [c [body [Hw _]]]. rewrite Hw. discriminate.
        * unfold MAX_ELEMENTS. cbn [length] in Hlen. lia.
        * exact He0.
      + rewrite (tok_first (text e) (flat_map text p) els Htxt).
        assert (H : tok_loop pe (flat_map text p) els (pend_tok (Some e)) false
                    = Ok (els ++ map res (pend_el (Some e) ++ p))).
        { apply IH; [exact Hp' | split; assumption |]. cbn [length pend_el] in *. lia. }
        cbn [pend_tok pend_el] in H. rewrite H. reflexivity.
  Qed.
End Tok.

(* ---- shape and size of the printed text of one element ----------------------------------------- *)
Lemma inert_show_num : forall n, inert (show_num n).
Proof. intro n. apply inert_digits. apply show_num_digits. Qed.

Lemma inert_escape : forall s, inert (escape s).
Proof. intro s. rewrite escape_flat. apply inert_esc. Qed.

Lemma inert_target : forall q, inert (print_target q).
Proof.
  intros [ns [s|]]; unfold print_target; cbn [qn_name qn_ns]; [|constructor].
  apply inert_app; [apply inert_show_num|]. cbn [app].
  apply inert_plain; [lia | reflexivity | apply inert_escape].
Qed.

Lemma ulen_cons : forall c s, ulen (c :: s) = utf8_len c + ulen s.
Proof. reflexivity. Qed.

Lemma ulen_target : forall q, ulen (print_target q) = target_size q.
Proof.
  intros [ns [s|]]; unfold print_target, target_size; cbn [qn_name qn_ns]; [|reflexivity].
  rewrite ulen_app. cbn [app]. rewrite ulen_cons, ulen_show_num, ulen_escape. change (utf8_len 58) with 1. lia.
Qed.

Lemma print_elem_shape : forall e, printable e ->
  exists c body, print_elem e = Ok (c :: body) /\ is_sep c = true /\ inert body /\
                 ulen (c :: body) = elem_size e.
Proof.
  intros e Hg. destruct (good_name e Hg) as [bn [Hbn [Hne Hres]]].
  unfold print_elem, print_reftype, elem_size, reftype_size. rewrite Hbn.
  destruct e as [ref inv sub tq]. cbn [el_ref el_inv el_sub el_tgt].
  assert (Hbr : exists c body,
     Ok (([60] ++ (if sub then [] else [35]) ++ (if inv then [33] else [])
          ++ (if nid_ns ref =? 0 then escape bn else show_num (nid_ns ref) ++ [58] ++ escape bn)
          ++ [62]) ++ print_target tq) = Ok (c :: body) /\ is_sep c = true /\ inert body /\
     ulen (c :: body) = 2 + (if sub then 0 else 1) + (if inv then 1 else 0)
        + (if nid_ns ref =? 0 then 0 else num_size (nid_ns ref) + 1) + esc_size bn + target_size tq).
  { eexists 60, _. split; [cbn [app]; reflexivity|]. split; [reflexivity|]. split.
    - apply inert_app; [|apply inert_target].
      apply inert_app; [destruct sub; [constructor | apply inert_plain; [lia | reflexivity | constructor]]|].
      apply inert_app; [destruct inv; [apply inert_plain; [lia | reflexivity | constructor] | constructor]|].
      apply inert_app; [|apply inert_plain; [lia | reflexivity | constructor]].
      destruct (nid_ns ref =? 0); [apply inert_escape|].
      apply inert_app; [apply inert_show_num|]. cbn [app].
      apply inert_plain; [lia | reflexivity | apply inert_escape].
    - rewrite ulen_cons, !ulen_app, ulen_target. change (utf8_len 60) with 1.
      change (ulen [62]) with 1.
      destruct sub, inv, (nid_ns ref =? 0); cbn [app];
        rewrite ?ulen_app, ?ulen_cons, ?ulen_show_num, ?ulen_escape;
        change (ulen []) with 0; change (utf8_len 35) with 1; change (utf8_len 33) with 1;
        change (utf8_len 58) with 1; lia. }
  destruct (sub && negb inv) eqn:Hs; [|cbn [is_nil negb andb]; exact Hbr].
  destruct (nodeid_is_num ref HIERARCHICAL) eqn:H33.
  - cbn [is_nil negb andb orb app]. exists 47, (print_target tq).
    split; [reflexivity|]. split; [reflexivity|]. split; [apply inert_target|].
    rewrite ulen_cons, ulen_target. change (utf8_len 47) with 1. reflexivity.
  - destruct (nodeid_is_num ref AGGREGATES) eqn:H44; [|cbn [is_nil negb andb orb]; exact Hbr].
    cbn [is_nil negb andb orb app]. exists 46, (print_target tq).
    split; [reflexivity|]. split; [reflexivity|]. split; [apply inert_target|].
    rewrite ulen_cons, ulen_target. change (utf8_len 46) with 1. reflexivity.
Qed.

(* ---- the round trip ---------------------------------------------------------------------------- *)
Definition text (e : elem) : str := match print_elem e with Ok w => w | _ => [] end.

Lemma existsb_false_Forall : forall (A : Type) (f : A -> bool) l,
  existsb f l = false -> Forall (fun x => f x = false) l.
Proof.
  induction l as [|x l IH]; intro H; [constructor|]. cbn in H. apply orb_false_iff in H as [H1 H2].
  constructor; [exact H1 | apply IH; exact H2].
Qed.

Lemma valid_printable : forall p, valid (CPath p) -> existsb unprintable p = false -> Forall printable p.
Proof.
  intros p Hwf Hu. cbn [valid] in Hwf. apply existsb_false_Forall in Hu.
  rewrite Forall_forall in *. intros e He. split; auto.
Qed.

Lemma known_0 : forall p, known (CPath p) = 0 ->
  existsb unprintable p = false /\ existsb aliasing p = false.
Proof.
  intros p Hk. cbn [known] in Hk.
  destruct (existsb unprintable p); [discriminate|]. destruct (existsb aliasing p); [discriminate|].
  split; reflexivity.
Qed.

Lemma map_canon_id : forall p, Forall wf_elem p -> existsb unprintable p = false ->
  existsb aliasing p = false -> map canon p = p.
Proof.
  intros p Hwf Hu Ha. apply existsb_false_Forall in Hu, Ha.
  induction p as [|e p IH]; [reflexivity|].
  inversion Hwf; inversion Hu; inversion Ha; subst. cbn [map].
  rewrite canon_good by (split; [|split]; assumption). rewrite IH by assumption. reflexivity.
Qed.

Lemma within_limit : forall p, over_limit p = false ->
  (length p <= 32)%nat /\ Forall (fun e => elem_size e <= MAX_TOKEN_LEN) p.
Proof.
  intros p Hlim. unfold over_limit in Hlim. apply orb_false_iff in Hlim as [Hl1 Hl2].
  apply existsb_false_Forall in Hl2. split.
  - unfold MAX_ELEMENTS in Hl1. lia.
  - rewrite Forall_forall in *. intros e He. specialize (Hl2 e He). cbv beta in Hl2. lia.
Qed.

Lemma print_path_text : forall p, Forall printable p -> print_path p = Ok (flat_map text p).
Proof.
  induction p as [|e p IH]; intro H; [reflexivity|]. inversion H as [|? ? He Hp]; subst.
  cbn [print_path flat_map]. unfold text at 1.
  destruct (print_elem_shape e He) as [c [body [Hpr _]]]. rewrite Hpr, (IH Hp). reflexivity.
Qed.

(* every well-formed printable path within the limits parses back to its canonical form: the path
   itself, except that String ids spelling a standard name have become numeric ids *)
Theorem canonical_roundtrip : forall p,
  valid (CPath p) -> existsb unprintable p = false -> over_limit p = false ->
  exists s, print_path p = Ok s /\ parse s = Ok (map canon p).
Proof.
  intros p Hv Hu Hlim. pose proof (valid_printable p Hv Hu) as Hg.
  destruct (within_limit p Hlim) as [Hlen Hsz].
  exists (flat_map text p). split; [apply print_path_text; exact Hg|].
  unfold parse.
  assert (H := tok_path parse_elem text canon p [] None).
  cbn [pend_tok pend_el app length] in H. apply H; [|exact I|lia].
  rewrite Forall_forall in *. intros e He.
  destruct (print_elem_shape e (Hg e He)) as [c [body [Hpr [Hs [Hi Hl]]]]].
  unfold text. rewrite Hpr. split.
  - exists c, body. repeat split; try assumption. rewrite Hl. apply Hsz. exact He.
  - apply parse_elem_canon; [apply Hg; exact He | exact Hpr].
Qed.

Theorem roundtrip : forall p, valid (CPath p) -> known (CPath p) = 0 -> over_limit p = false ->
  exists s, print_path p = Ok s /\ parse s = Ok p.
Proof.
  intros p Hv Hk Hlim. destruct (known_0 p Hk) as [Hu Ha].
  destruct (canonical_roundtrip p Hv Hu Hlim) as [s [H1 H2]].
  exists s. split; [exact H1|]. rewrite H2, (map_canon_id p Hv Hu Ha). reflexivity.
Qed.

(* known class 2 is exactly the set of printable paths that come back different *)
Lemma canon_aliasing : forall e, aliasing e = true -> canon e <> e.
Proof.
  intros [[ns id] inv sub tq] Ha. unfold aliasing, canon, canon_ref in *.
  cbn [el_ref el_inv el_sub el_tgt nid_ns nid_id] in *.
  apply andb_true_iff in Ha as [Hns Ha]. destruct id as [k|[s|]|k]; try discriminate.
  rewrite Hns. unfold lookup_name.
  destruct (lookup_name_in name_table s) as [k|] eqn:Hl.
  - intro H. inversion H.
  - exfalso. clear Hns. revert Ha Hl. generalize name_table. induction l as [|[n k] l IH]; cbn; [discriminate|].
    destruct (str_eqb n s); [discriminate|]. cbn. exact IH.
Qed.

Theorem known_2_changes : forall p, known (CPath p) = 2 -> map canon p <> p.
Proof.
  intros p Hk. cbn [known] in Hk. destruct (existsb unprintable p); [discriminate|].
  destruct (existsb aliasing p) eqn:Ha; [|discriminate]. clear Hk.
  induction p as [|e p IH]; [discriminate|]. cbn [existsb] in Ha. cbn [map]. intro H. inversion H as [[H1 H2]].
  destruct (aliasing e) eqn:He.
  - exact (canon_aliasing e He H1).
  - cbn [orb] in Ha. exact (IH Ha H2).
Qed.

(* ---- the parser never panics -------------------------------------------------------------------- *)
Lemma target_name_total : forall s, target_name s <> Panic.
Proof.
  intro s. unfold target_name. destruct (take_nsidx s) as [[d r]|]; [|discriminate].
  destruct (parse_u16 d); discriminate.
Qed.

Definition caps_ok (c : caps) : Prop :=
  cp_kind c = 47 \/ cp_kind c = 46 \/
  (cp_name c <> None /\ In (cp_flags c) [None; Some [35]; Some [33]; Some [35; 33]]).

Lemma elem_of_caps_total : forall c, caps_ok c -> elem_of_caps c <> Panic.
Proof.
  intros [k fl ns nm tg] H. unfold elem_of_caps, caps_ok in *. cbn [cp_kind cp_flags cp_nsidx cp_name cp_target] in *.
  pose proof (target_name_total tg) as Ht. destruct (target_name tg) as [tn| |]; [|discriminate|contradiction].
  destruct H as [->|[->|[Hnm Hfl]]]; [discriminate | discriminate |].
  destruct (k =? 47); [discriminate|]. destruct (k =? 46); [discriminate|].
  destruct nm as [nm|]; [|contradiction].
  assert (Hr : forall X : outcome (option nodeid), X <> Panic ->
                 match X with Err => @Err elem | Panic => Panic | Ok None => Err
                         | Ok (Some id) => Ok (mk_el id true true tn) end <> Panic).
  { intros [[x|]| |] HX; try discriminate. contradiction. }
  assert (Hns : match ns with
                | Some d => if str_eqb d [48] || is_nil d then Ok (node_resolver 0 (unescape nm))
                            else match parse_u16 d with
                                 | Some n => Ok (node_resolver n (unescape nm))
                                 | None => Err
                                 end
                | None => Ok (node_resolver 0 (unescape nm))
                end <> Panic).
  { destruct ns as [d|]; [|discriminate]. destruct (str_eqb d [48] || is_nil d); [discriminate|].
    destruct (parse_u16 d); discriminate. }
  cbn [In] in Hfl. destruct Hfl as [<-|[<-|[<-|[<-|[]]]]];
    cbn [str_eqb Z.eqb Pos.eqb andb];
    (destruct (match ns with Some d => _ | None => _ end) as [[x|]| |]; [discriminate | discriminate | discriminate | contradiction]).
Qed.

Lemma first_some_In : forall (A B : Type) (f : A -> option B) l b,
  first_some f l = Some b -> exists a, In a l /\ f a = Some b.
Proof.
  induction l as [|a l IH]; intros b H; cbn in H; [discriminate|].
  destruct (f a) eqn:E.
  - inversion H; subst. exists a. split; [left; reflexivity | exact E].
  - destruct (IH b H) as [a' [Hin Hf]]. exists a'. split; [right; exact Hin | exact Hf].
Qed.

Lemma match_here_ok : forall s c, match_here s = Some c -> caps_ok c.
Proof.
  intros [|x t] c H; cbn [match_here] in H; [discriminate|].
  destruct (x =? 47); [inversion H; left; reflexivity|].
  destruct (x =? 46); [inversion H; right; left; reflexivity|].
  destruct (x =? 60); [|discriminate].
  apply first_some_In in H as [[fl w] [Hin Hm]]. right. right.
  unfold match_bracket in Hm. cbv beta iota in Hm.
  assert (Hm' : exists t1, match_after_flags fl w t1 = Some c).
  { destruct fl as [f|]; [|exists t; exact Hm].
    destruct (strip_prefix f t) as [t1|]; [exists t1; exact Hm | discriminate]. }
  clear Hm. destruct Hm' as [t1 Hm].
  unfold match_after_flags in Hm.
  assert (Hm' : exists ns t2, match take_name t2 with
                              | Some (nm, tg) => Some (mk_caps 60 fl ns (Some nm) tg)
                              | None => None end = Some c).
  { destruct w; [|exists None, t1; exact Hm].
    destruct (take_nsidx t1) as [[d r]|]; [exists (Some d), r; exact Hm | discriminate]. }
  clear Hm. destruct Hm' as [ns [t2 Hm]].
  destruct (take_name t2) as [[nm tg]|]; [|discriminate].
  inversion Hm; subst. cbn [cp_name cp_flags]. split; [discriminate|].
  unfold bracket_alts in Hin. cbn [In] in Hin.
  repeat (destruct Hin as [Hin|Hin]; [inversion Hin; subst; cbn [In]; tauto|]). contradiction.
Qed.

Lemma find_match_ok : forall s c, find_match s = Some c -> caps_ok c.
Proof.
  induction s as [|x t IH]; intros c H; cbn [find_match] in H.
  - destruct (match_here []) eqn:E; [|discriminate]. inversion H; subst. eapply match_here_ok; exact E.
  - destruct (match_here (x :: t)) eqn:E.
    + inversion H; subst. eapply match_here_ok; exact E.
    + apply IH. exact H.
Qed.

Lemma parse_elem_total : forall t, parse_elem t <> Panic.
Proof.
  intro t. unfold parse_elem. destruct (find_match t) as [c|] eqn:E; [|discriminate].
  apply elem_of_caps_total. eapply find_match_ok; exact E.
Qed.

Lemma finish_total : forall pe, (forall t, pe t <> Panic) -> forall els t, finish pe els t <> Panic.
Proof.
  intros pe Hpe els t. unfold finish. destruct (is_nil t); [discriminate|].
  destruct (Z.of_nat (length els) =? MAX_ELEMENTS); [discriminate|].
  specialize (Hpe t). destruct (pe t); [discriminate | discriminate | contradiction].
Qed.

Lemma tok_loop_total : forall pe, (forall t, pe t <> Panic) ->
  forall cs els t esc, tok_loop pe cs els t esc <> Panic.
Proof.
  intros pe Hpe. induction cs as [|c cs IH]; intros els t esc; cbn [tok_loop].
  - apply finish_total. exact Hpe.
  - destruct esc.
    + destruct (MAX_TOKEN_LEN <? ulen (t ++ [c])); [discriminate | apply IH].
    + destruct (c =? 38).
      * destruct (MAX_TOKEN_LEN <? ulen (t ++ [c])); [discriminate | apply IH].
      * destruct (is_sep c).
        -- destruct (is_nil t).
           ++ destruct (MAX_TOKEN_LEN <? ulen [c]); [discriminate | apply IH].
           ++ destruct (Z.of_nat (length els) =? MAX_ELEMENTS); [apply finish_total; exact Hpe|].
              specialize (Hpe t). destruct (pe t); [|discriminate|contradiction].
              destruct (MAX_TOKEN_LEN <? ulen [c]); [discriminate | apply IH].
        -- destruct (MAX_TOKEN_LEN <? ulen (t ++ [c])); [discriminate | apply IH].
Qed.

Theorem parse_total : forall s, parse s <> Panic.
Proof. intro s. unfold parse. apply tok_loop_total. exact parse_elem_total. Qed.

(* a successful parse never returns more than 32 elements *)
Lemma tok_loop_bounded : forall pe cs els t esc p,
  (length els <= 32)%nat -> tok_loop pe cs els t esc = Ok p -> (length p <= 32)%nat.
Proof.
  intros pe. assert (Hfin : forall els t p, (length els <= 32)%nat -> finish pe els t = Ok p -> (length p <= 32)%nat).
  { intros els t p Hle H. unfold finish in H. destruct (is_nil t); [inversion H; subst; exact Hle|].
    destruct (Z.of_nat (length els) =? MAX_ELEMENTS) eqn:E; [discriminate|].
    destruct (pe t); inversion H; subst. rewrite app_length. cbn [length]. unfold MAX_ELEMENTS in E. lia. }
  induction cs as [|c cs IH]; intros els t esc p Hle H; cbn [tok_loop] in H; [eapply Hfin; eassumption|].
  destruct esc.
  - destruct (MAX_TOKEN_LEN <? ulen (t ++ [c])); [discriminate | eapply IH; eassumption].
  - destruct (c =? 38).
    + destruct (MAX_TOKEN_LEN <? ulen (t ++ [c])); [discriminate | eapply IH; eassumption].
    + destruct (is_sep c).
      * destruct (is_nil t).
        -- destruct (MAX_TOKEN_LEN <? ulen [c]); [discriminate | eapply IH; eassumption].
        -- destruct (Z.of_nat (length els) =? MAX_ELEMENTS) eqn:E; [eapply Hfin; eassumption|].
           destruct (pe t); try discriminate.
           destruct (MAX_TOKEN_LEN <? ulen [c]); [discriminate|].
           eapply IH; [|eassumption]. rewrite app_length. cbn [length]. unfold MAX_ELEMENTS in E. lia.
      * destruct (MAX_TOKEN_LEN <? ulen (t ++ [c])); [discriminate | eapply IH; eassumption].
Qed.

Theorem parse_bounded : forall s p, parse s = Ok p -> (length p <= 32)%nat.
Proof. intros s p H. unfold parse in H. eapply tok_loop_bounded; [|exact H]. cbn. lia. Qed.


(* ---- beyond the limits the parser rejects --------------------------------------------------------- *)
Section Over.
  Variable pe : str -> outcome elem.

  Lemma tok_inert_overflow : forall body, inert body -> forall cs els t,
    ulen t <= MAX_TOKEN_LEN -> MAX_TOKEN_LEN < ulen (t ++ body) ->
    tok_loop pe (body ++ cs) els t false = Err.
  Proof.
    induction 1 as [|c r Hc Hs Hr IH|x r Hr IH]; intros cs els t Ht Hlen.
    - rewrite app_nil_r in Hlen. lia.
    - cbn [app tok_loop]. destruct (c =? 38) eqn:E; [lia|]. rewrite Hs.
      destruct (MAX_TOKEN_LEN <? ulen (t ++ [c])) eqn:E2; [reflexivity|].
      apply IH; [lia|]. rewrite <- app_assoc. exact Hlen.
    - cbn [app tok_loop]. change (38 =? 38) with true. cbv iota.
      destruct (MAX_TOKEN_LEN <? ulen (t ++ [38])) eqn:E1; [reflexivity|].
      destruct (MAX_TOKEN_LEN <? ulen ((t ++ [38]) ++ [x])) eqn:E2; [reflexivity|].
      apply IH; [lia|]. rewrite <- !app_assoc. exact Hlen.
  Qed.

  (* 32 elements collected and a non-empty token: the next separator (or the end) rejects *)
  Lemma tok_full : forall cs els t,
    t <> [] -> Z.of_nat (length els) = MAX_ELEMENTS ->
    match cs with [] => True | c :: _ => is_sep c = true end ->
    tok_loop pe cs els t false = Err.
  Proof.
    intros cs els t Ht Hn Hc.
    assert (Hf : finish pe els t = Err).
    { unfold finish. destruct t; [contradiction|]. cbn [is_nil]. rewrite Hn, Z.eqb_refl. reflexivity. }
    destruct cs as [|c cs]; cbn [tok_loop]; [exact Hf|].
    rewrite (sep_not_amp c Hc), Hc. destruct t; [contradiction|]. cbn [is_nil].
    rewrite Hn, Z.eqb_refl. exact Hf.
  Qed.

  Variable text : elem -> str.
  Variable res : elem -> elem.
  Variable size : elem -> Z.
  (* every element text starts with a separator followed by inert text, and has the stated size;
     those within the limit are parsed back by [pe] *)
  Definition shaped (e : elem) : Prop :=
    (exists c body, text e = c :: body /\ is_sep c = true /\ inert body /\ ulen (c :: body) = size e) /\
    (size e <= MAX_TOKEN_LEN -> pe (text e) = Ok (res e)).

  Lemma flat_map_text_head : forall p, Forall shaped p ->
    match flat_map text p with [] => True | c :: _ => is_sep c = true end.
  Proof.
    intros [|e p] H; [exact I|]. inversion H as [|? ? [[c [body [Hw [Hs _]]]] _] _]; subst.
    cbn [flat_map]. rewrite Hw. exact Hs.
  Qed.

  Lemma tok_over : forall p els pend,
    Forall shaped p ->
    match pend with Some e => shaped e /\ size e <= MAX_TOKEN_LEN | None => els = [] end ->
    (length els <= 32)%nat ->
    ((32 < length els + length (pend_el pend) + length p)%nat \/
     Exists (fun e => MAX_TOKEN_LEN < size e) p) ->
    tok_loop pe (flat_map text p) els (pend_tok text pend) false = Err.
  Proof.
    induction p as [|e p IH]; intros els pend Hp Hpend Hle Hover.
    - destruct Hover as [Hover|Hover]; [|inversion Hover].
      destruct pend as [e0|]; cbn [pend_el pend_tok length] in *; [|subst; cbn in Hover; lia].
      destruct Hpend as [[[c [body [Hw _]]] _] _].
      apply tok_full; [rewrite Hw; discriminate | unfold MAX_ELEMENTS; lia | exact I].
    - destruct (Nat.eq_dec (length els) 32) as [E32|E32].
      + destruct pend as [e0|]; cbn [pend_tok]; [|subst; cbn in E32; lia].
        destruct Hpend as [[[c [body [Hw _]]] _] _].
        apply tok_full; [rewrite Hw; discriminate | unfold MAX_ELEMENTS; lia |].
        apply flat_map_text_head. exact Hp.
      + inversion Hp as [|? ? He Hp']; subst. cbn [flat_map].
        destruct He as [[c [body [Hw [Hs [Hi Hl]]]]] Hpe].
        (* the state after the separator of e *)
        assert (Hstep : tok_loop pe ((c :: body) ++ flat_map text p) els (pend_tok text pend) false
                        = tok_loop pe (body ++ flat_map text p) (els ++ map res (pend_el pend)) [c] false).
        { cbn [app tok_loop]. rewrite (sep_not_amp c Hs), Hs.
          assert (H1 : (MAX_TOKEN_LEN <? ulen [c]) = false).
          { cbn [ulen fold_right]. pose proof (utf8_len_pos c). unfold MAX_TOKEN_LEN. lia. }
          destruct pend as [e0|]; cbn [pend_tok pend_el].
          - destruct Hpend as [[[c0 [body0 [Hw0 _]]] Hpe0] Hsz0]. rewrite Hw0. cbn [is_nil]. rewrite <- Hw0.
            destruct (Z.of_nat (length els) =? MAX_ELEMENTS) eqn:E; [unfold MAX_ELEMENTS in E; lia|].
            rewrite (Hpe0 Hsz0), H1. reflexivity.
          - cbn [is_nil]. rewrite H1, app_nil_r. reflexivity. }
        rewrite Hw, Hstep.
        assert (Hlen' : (length (els ++ map res (pend_el pend)) <= 32)%nat).
        { rewrite app_length, map_length. destruct pend; cbn [pend_el length]; lia. }
        destruct (Z_le_gt_dec (size e) MAX_TOKEN_LEN) as [Hfit|Hbig].
        * (* e fits: go on with e pending *)
          rewrite (tok_inert pe body Hi (flat_map text p) (els ++ map res (pend_el pend)) [c])
            by (cbn [app]; rewrite Hl; exact Hfit).
          cbn [app]. rewrite <- Hw.
          apply (IH (els ++ map res (pend_el pend)) (Some e)); [exact Hp' | | exact Hlen' |].
          -- split; [|exact Hfit]. split; [exists c, body; repeat split; assumption | exact Hpe].
          -- destruct Hover as [Hover|Hover].
             ++ left. rewrite app_length, map_length. cbn [pend_el length] in *. lia.
             ++ inversion Hover as [? ? Hb|? ? Hb]; subst; [lia | right; exact Hb].
        * (* e is too long *)
          apply tok_inert_overflow; [exact Hi | cbn [ulen fold_right]; pose proof (utf8_len_pos c); unfold MAX_TOKEN_LEN; lia |].
          cbn [app]. rewrite Hl. lia.
  Qed.
End Over.

Lemma existsb_Exists : forall (A : Type) (f : A -> bool) l, existsb f l = true -> Exists (fun x => f x = true) l.
Proof.
  induction l as [|x l IH]; intro H; cbn in H; [discriminate|].
  destruct (f x) eqn:E; [left; exact E | right; apply IH; exact H].
Qed.

(* a well-formed path outside the known classes that exceeds a limit of the parser (more than 32
   elements, or an element of more than 256 bytes of text) is printed, and its text is rejected *)
Theorem over_limit_rejected_printable : forall p,
  valid (CPath p) -> existsb unprintable p = false -> over_limit p = true ->
  exists s, print_path p = Ok s /\ parse s = Err.
Proof.
  intros p Hv Hu Hlim. pose proof (valid_printable p Hv Hu) as Hg.
  exists (flat_map text p). split; [apply print_path_text; exact Hg|].
  unfold parse.
  assert (H := tok_over parse_elem text canon elem_size p [] None).
  cbn [pend_tok pend_el app length] in H. apply H; [|reflexivity|lia|].
  - rewrite Forall_forall in *. intros e He.
    destruct (print_elem_shape e (Hg e He)) as [c [body [Hpr Hrest]]].
    unfold shaped, text. rewrite Hpr. split; [exists c, body; split; [reflexivity | exact Hrest]|].
    intros _. apply parse_elem_canon; [apply Hg; exact He | exact Hpr].
  - unfold over_limit in Hlim. apply orb_true_iff in Hlim as [Hl|Hl].
    + left. unfold MAX_ELEMENTS in Hl. lia.
    + right. apply existsb_Exists in Hl. eapply Exists_impl; [|exact Hl]. cbv beta. intros e He. lia.
Qed.

Theorem over_limit_rejected : forall p, valid (CPath p) -> known (CPath p) = 0 -> over_limit p = true ->
  exists s, print_path p = Ok s /\ parse s = Err.
Proof.
  intros p Hv Hk Hlim. destruct (known_0 p Hk) as [Hu _].
  apply over_limit_rejected_printable; assumption.
Qed.

(* ---- the oracle holds on the model's output ------------------------------------------------------ *)
Theorem oracle_holds : forall c, valid c -> known c = 0 -> oracle c (run c) = true.
Proof.
  intros [p|s] Hv Hk.
  - destruct (over_limit p) eqn:Hlim.
    + destruct (over_limit_rejected p Hv Hk Hlim) as [s [Hpr Hpa]].
      cbn [run oracle]. rewrite Hpr, Hpa, Hlim. cbn [enc_result].
      rewrite Nat2Z.id, skipn_length_app. cbn [andb]. rewrite orb_true_r, andb_true_r.
      rewrite app_length. lia.
    + destruct (roundtrip p Hv Hk Hlim) as [s [Hpr Hpa]].
      cbn [run oracle]. rewrite Hpr, Hpa. cbn [enc_result].
      rewrite Nat2Z.id, skipn_length_app, str_eqb_refl. cbn [orb]. rewrite andb_true_r.
      rewrite app_length. lia.
  - cbn [run oracle]. pose proof (parse_total s) as Ht.
    destruct (parse s) as [p| |]; [reflexivity | reflexivity | contradiction].
Qed.

(* ---- the printer panics exactly on class 1 ------------------------------------------------------- *)
Lemma print_elem_panic_iff : forall e, print_elem e = Panic <-> unprintable e = true.
Proof.
  intros [[ns id] inv sub tq]. unfold print_elem, print_reftype, unprintable, browse_name_of.
  cbn [el_ref el_inv el_sub el_tgt nid_ns nid_id].
  assert (Hn : forall bn : str,
    match (if negb (is_nil (if sub && negb inv then
                       if nodeid_is_num (mk_nid ns id) HIERARCHICAL then [47]
                       else if nodeid_is_num (mk_nid ns id) AGGREGATES then [46] else [] else []))
           then Ok (if sub && negb inv then
                       if nodeid_is_num (mk_nid ns id) HIERARCHICAL then [47]
                       else if nodeid_is_num (mk_nid ns id) AGGREGATES then [46] else [] else [])
           else Ok ([60] ++ (if sub then [] else [35]) ++ (if inv then [33] else [])
                    ++ (if ns =? 0 then escape bn else show_num ns ++ [58] ++ escape bn) ++ [62]))
    with Ok r => Ok (r ++ print_target tq) | Err => Err | Panic => @Panic str end <> Panic).
  { intro bn. destruct (negb _); discriminate. }
  destruct id as [k|[s|]|k].
  - destruct (ns =? 0) eqn:E; cbn [negb orb].
    + destruct (lookup_id k) as [bn|] eqn:Hl.
      * split; [intro H; exfalso; exact (Hn bn H)|]. intro H. apply negb_true_iff in H.
        apply lookup_id_in_none in H. unfold lookup_id in Hl. congruence.
      * split; [|reflexivity]. intros _. apply lookup_id_in_none in Hl. rewrite Hl. reflexivity.
    + split; reflexivity.
  - split; [intro H; exfalso; exact (Hn s H) | discriminate].
  - split; [intro H; exfalso; exact (Hn [] H) | discriminate].
  - split; reflexivity.
Qed.

Lemma print_elem_not_err : forall e, print_elem e <> Err.
Proof.
  intro e. unfold print_elem, print_reftype. destruct (browse_name_of (el_ref e)); [|discriminate].
  destruct (negb _); discriminate.
Qed.

Lemma print_path_panic_iff : forall p, print_path p = Panic <-> existsb unprintable p = true.
Proof.
  induction p as [|e p IH]; cbn [print_path existsb]; [split; discriminate|].
  pose proof (print_elem_panic_iff e) as He. pose proof (print_elem_not_err e) as Hne.
  destruct (print_elem e) as [w| |]; [|contradiction|].
  - destruct (unprintable e); [destruct He as [_ He]; specialize (He eq_refl); discriminate|].
    cbn [orb]. rewrite <- IH. destruct (print_path p); split; intro H; congruence.
  - destruct He as [He _]. rewrite (He eq_refl). split; reflexivity.
Qed.

Theorem print_panics_iff : forall p, print_path p = Panic <-> known (CPath p) = 1.
Proof.
  intro p. rewrite print_path_panic_iff. cbn [known]. destruct (existsb unprintable p).
  - split; reflexivity.
  - destruct (existsb aliasing p); split; discriminate.
Qed.

(* ---- known findings and the pre-fix code: witnesses ------------------------------------------- *)
Definition w_known1 : case := CPath [mk_el (mk_nid 3 (INum 77)) false true (mk_qn 0 (Some [97]))].
Definition w_known2 : case :=
  CPath [mk_el (mk_nid 0 (IStr (Some [72; 97; 115; 67; 104; 105; 108; 100]))) false true (mk_qn 0 (Some [97]))].

Lemma known_1_refuted : exists c, known c = 1 /\ oracle c (run c) = false.
Proof. exists w_known1. split; vm_compute; reflexivity. Qed.

Lemma known_2_refuted : exists c, known c = 2 /\ oracle c (run c) = false.
Proof. exists w_known2. split; vm_compute; reflexivity. Qed.

(* the four repaired defects, each on the pinned code's model: a valid path outside the known
   classes whose printed text the old parser does not read back as the path *)
Definition legacy_fails (p : list elem) : Prop :=
  valid (CPath p) /\ known (CPath p) = 0 /\ over_limit p = false /\
  exists s, print_path p = Ok s /\ Legacy.parse s <> Ok p /\ parse s = Ok p.

Ltac legacy_witness :=
  split; [repeat constructor; cbn; try lia; try discriminate|];
  split; [vm_compute; reflexivity|]; split; [vm_compute; reflexivity|];
  eexists; split; [vm_compute; reflexivity|]; split; [vm_compute; discriminate | vm_compute; reflexivity].

(* /10:foo : the target-name pattern took one character as the namespace index *)
Definition w_legacy_nsidx : list elem := [mk_el (mk_nid 0 (INum 33)) false true (mk_qn 10 (Some [102; 111; 111]))].
Lemma legacy_refuted_nsidx : legacy_fails w_legacy_nsidx.
Proof. unfold legacy_fails, w_legacy_nsidx. legacy_witness. Qed.

(* /2:a<newline>b : a dot did not match a newline *)
Definition w_legacy_newline : list elem := [mk_el (mk_nid 0 (INum 33)) false true (mk_qn 2 (Some [97; 10; 98]))].
Lemma legacy_refuted_newline : legacy_fails w_legacy_newline.
Proof. unfold legacy_fails, w_legacy_newline. legacy_witness. Qed.

(* <HasChild>2:a&>b : the reference type name ran to the last closing bracket *)
Definition w_legacy_greedy : list elem := [mk_el (mk_nid 0 (INum 34)) false true (mk_qn 2 (Some [97; 62; 98]))].
Lemma legacy_refuted_greedy : legacy_fails w_legacy_greedy.
Proof. unfold legacy_fails, w_legacy_greedy. legacy_witness. Qed.

(* <1:Connected&.To>1:Boiler : the reference type name was not unescaped *)
Definition w_legacy_unescape : list elem :=
  [mk_el (mk_nid 1 (IStr (Some [67; 111; 110; 110; 101; 99; 116; 101; 100; 46; 84; 111]))) false true
         (mk_qn 1 (Some [66; 111; 105; 108; 101; 114]))].
Lemma legacy_refuted_unescape : legacy_fails w_legacy_unescape.
Proof. unfold legacy_fails, w_legacy_unescape. legacy_witness. Qed.
