(* C42 — JSON encoding of built-in types round-trips.  Statements only. *)
From Coq Require Import List ZArith Bool.
Import ListNotations.
From OV Require Import C42.Text C42.Flt C42.Model C42.Proofs.
Open Scope Z_scope.

Theorem C42_legacy_refuted_xuri :
  valid w_xuri /\ known w_xuri = 0 /\ oracle w_xuri (Legacy.run w_xuri) = false /\ oracle w_xuri (run w_xuri) = true.
Proof. exact legacy_refuted_xuri. Qed.
Print Assumptions C42_legacy_refuted_xuri.
