(* C06 — proofs (work in progress) *)
From Coq Require Import List ZArith Bool Lia.
From OV Require Import C06.Types C06.Model.
Import ListNotations.
Open Scope Z_scope.

Lemma legacy_convert_wraps :
  run_with Legacy.cfg (mk_case Convert TUInt32 TInt32 0 0 [4000000000]) = [6; -294967296].
Proof. vm_compute. reflexivity. Qed.
