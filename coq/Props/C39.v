(* C39 — Event filters evaluate safely and with the specified operator semantics.  Statements only. *)
From Coq Require Import List ZArith.
From OV Require Import C39.Values C39.Like C39.Model C39.Proofs.
Import ListNotations.
Open Scope Z_scope.

Theorem C39_empty_clause : forall f, run (CFilter f None) = [1; 1].
Proof. exact empty_clause_true. Qed.
Print Assumptions C39_empty_clause.
