(* C28 — the reference index always matches the set of references.

   A case is a history of operations on one `References` value plus the small universe of node
   ids / reference type ids that is queried afterwards.  [run] is the model's observable output,
   [oracle] the property: the per-operation results and every query answer must be the ones
   determined by the SET of (source, type, target) triples that were added and not removed
   ([spec_step], a reference evaluator on a plain list of triples that knows nothing about the
   two maps). *)
From Coq Require Import List ZArith Bool.
Import ListNotations.
From OV Require Import C28.Refs.
Open Scope Z_scope.

Inductive op :=
| Ins (s t ty : Z)        (* insert_reference(source, target, type) *)
| Del (s t ty : Z)        (* delete_reference(source, target, type) *)
| DelNode (n : Z).        (* delete_node_references(node) *)

Record case := mk_case { c_univ : list Z; c_tys : list Z; c_ops : list op }.

(* ---- the model of a history ---------------------------------------------------------- *)
(* result of an operation: 0 for (), 0/1 for a bool, -2 for a panic (state unchanged) *)
Definition step (st : refs) (o : op) : Z * refs :=
  match o with
  | Ins s t ty => match insert_reference st s t ty with Ok st' => (0, st') | Panic => (-2, st) end
  | Del s t ty => let '(d, st') := delete_reference st s t ty in (Z.b2z d, st')
  | DelNode n => let '(d, st') := delete_node_references st n in (Z.b2z d, st')
  end.

Fixpoint exec (st : refs) (ops : list op) : list Z * refs :=
  match ops with
  | [] => ([], st)
  | o :: ops' => let '(r, st') := step st o in
                 let '(rs, st'') := exec st' ops' in (r :: rs, st'')
  end.

(* ---- canonical observation ------------------------------------------------------------- *)
(* all (type, node) pairs of the universe in lexicographic order *)
Definition pairs_enum (univ tys : list Z) : list ref :=
  flat_map (fun ty => map (fun t => (ty, t)) univ) tys.
Definition flat_pairs (l : list ref) : list Z := flat_map (fun p => [fst p; snd p]) l.
(* a set of pairs given by its membership test, as [count; ty1; n1; ty2; n2; ...] in order *)
Definition obs_set (univ tys : list Z) (m : ref -> bool) : list Z :=
  let sel := filter m (pairs_enum univ tys) in Z.of_nat (length sel) :: flat_pairs sel.

Definition obs_fwd (st : refs) (univ tys : list Z) : list Z :=
  flat_map (fun n => obs_set univ tys (fun p => mem_ref p (opt_list (find_references st n)))) univ.
Definition obs_inv (st : refs) (univ tys : list Z) : list Z :=
  flat_map (fun n => obs_set univ tys (fun p => mem_ref p (opt_list (find_inverse_references st n)))) univ.
Definition obs_has (st : refs) (univ tys : list Z) : list Z :=
  flat_map (fun s => flat_map (fun t => map (fun ty => Z.b2z (has_reference st s t ty)) tys) univ) univ.

(* raw content of the two maps (hook verif_dump): keys in universe order, forward buckets in
   Vec order, referenced-by sets in universe order *)
Definition dump_fwd (st : refs) (univ : list Z) : list Z :=
  flat_map (fun n => match get n (fwd st) with
                     | Some b => n :: Z.of_nat (length b) :: flat_pairs b
                     | None => [] end) univ.
Definition dump_rb (st : refs) (univ : list Z) : list Z :=
  flat_map (fun n => match get n (rb st) with
                     | Some l => n :: Z.of_nat (length l) :: filter (fun x => memZ x l) univ
                     | None => [] end) univ.

Definition queries (st : refs) (univ tys : list Z) : list Z :=
  obs_fwd st univ tys ++ obs_inv st univ tys ++ obs_has st univ tys.

Definition observe (c : case) (rs : list Z) (st : refs) : list Z :=
  rs ++ [-1] ++ queries st (c_univ c) (c_tys c)
     ++ [-7] ++ dump_fwd st (c_univ c) ++ [-8] ++ dump_rb st (c_univ c).

Definition run (c : case) : list Z :=
  let '(rs, st) := exec empty_refs (c_ops c) in observe c rs st.

(* ---- the specification: a set of triples ------------------------------------------------- *)
Definition triple := (Z * Z * Z)%type.            (* (source, type, target) *)
Definition src (x : triple) : Z := fst (fst x).
Definition typ (x : triple) : Z := snd (fst x).
Definition tgt (x : triple) : Z := snd x.
Definition triple_eqb (a b : triple) : bool :=
  (src a =? src b) && (typ a =? typ b) && (tgt a =? tgt b).
Definition mem3 (x : triple) (X : list triple) : bool := existsb (triple_eqb x) X.

Definition spec_step (X : list triple) (o : op) : Z * list triple :=
  match o with
  | Ins s t ty =>
      if s =? t then (-2, X)                                         (* rejected: not added *)
      else (0, if mem3 (s, ty, t) X then X else (s, ty, t) :: X)
  | Del s t ty =>
      (Z.b2z (mem3 (s, ty, t) X), filter (fun x => negb (triple_eqb (s, ty, t) x)) X)
  | DelNode n =>
      (Z.b2z (existsb (fun x => (src x =? n) || (tgt x =? n)) X),
       filter (fun x => negb (src x =? n) && negb (tgt x =? n)) X)
  end.

Fixpoint spec_exec (X : list triple) (ops : list op) : list Z * list triple :=
  match ops with
  | [] => ([], X)
  | o :: ops' => let '(r, X') := spec_step X o in
                 let '(rs, X'') := spec_exec X' ops' in (r :: rs, X'')
  end.

Definition spec_queries (X : list triple) (univ tys : list Z) : list Z :=
  flat_map (fun n => obs_set univ tys (fun p => mem3 (n, fst p, snd p) X)) univ
  ++ flat_map (fun n => obs_set univ tys (fun p => mem3 (snd p, fst p, n) X)) univ
  ++ flat_map (fun s => flat_map (fun t => map (fun ty => Z.b2z (mem3 (s, ty, t) X)) tys) univ) univ.

Definition spec_out (c : case) : list Z :=
  let '(rs, X) := spec_exec [] (c_ops c) in rs ++ [-1] ++ spec_queries X (c_univ c) (c_tys c).

Fixpoint prefix_eqb (p l : list Z) : bool :=
  match p, l with
  | [], _ => true
  | x :: p', y :: l' => (x =? y) && prefix_eqb p' l'
  | _ :: _, [] => false
  end.

(* the property: results and query answers are those of the set; the raw dump after the -7
   marker is compared between model and implementation only *)
Definition oracle (c : case) (out : list Z) : bool := prefix_eqb (spec_out c ++ [-7]) out.

Definition known (c : case) : Z := 0.

(* what the harness generates (needed for the correspondence only, not for the theorems):
   every id of the history lies in the universe, which is strictly ascending *)
Fixpoint ascending (l : list Z) : bool :=
  match l with
  | x :: ((y :: _) as l') => (x <? y) && ascending l'
  | _ => true
  end.
Definition op_in (univ tys : list Z) (o : op) : bool :=
  match o with
  | Ins s t ty | Del s t ty => memZ s univ && memZ t univ && memZ ty tys
  | DelNode n => memZ n univ
  end.
Definition wf_case (c : case) : bool :=
  ascending (c_univ c) && ascending (c_tys c) && forallb (op_in (c_univ c) (c_tys c)) (c_ops c).
Definition valid (c : case) : Prop := True.

(* ---- the code before the fix ------------------------------------------------------------ *)
Module Legacy.
  Definition step (st : refs) (o : op) : Z * refs :=
    match o with
    | Del s t ty => let '(d, st') := Refs.Legacy.delete_reference st s t ty in (Z.b2z d, st')
    | _ => step st o
    end.
  Fixpoint exec (st : refs) (ops : list op) : list Z * refs :=
    match ops with
    | [] => ([], st)
    | o :: ops' => let '(r, st') := step st o in
                   let '(rs, st'') := exec st' ops' in (r :: rs, st'')
    end.
  Definition run (c : case) : list Z :=
    let '(rs, st) := exec empty_refs (c_ops c) in observe c rs st.
End Legacy.
