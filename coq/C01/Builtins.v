(* C01/C02/C03 — the OPC UA built-in types as byte codecs: definitions only (no proofs).

   Rust sources: lib/src/types/{basic_types,string,byte_string,guid,date_time,status_code,node_id,
   expanded_node_id,qualified_name,localized_text,extension_object,diagnostic_info,data_value,
   variant,array,variant_type_id}.rs as committed (after the two pre-landed fixes; the code before
   them is in Module Legacy at the end). *)
From Coq Require Import List ZArith Bool Lia.
Import ListNotations.
From OV Require Import C01.Codec.
Open Scope Z_scope.

(* ---- value types ----------------------------------------------------------------------- *)
Inductive ident := INum (v : Z) | IStr (s : ustr) | IGuid (g : bytes) | IBStr (b : ustr).
Inductive nodeid := NId (ns : Z) (i : ident).
Inductive expnid := ENId (n : nodeid) (uri : ustr) (srv : Z).
Inductive eobody := EONone | EOBytes (b : ustr) | EOXml (s : ustr).
Inductive diag :=
  Diag (sym ns loc ltxt : option Z) (info : option ustr) (status : option Z) (inner : option diag).

(* every built-in except Variant and DataValue; floats are their IEEE bit patterns; a DateTime is
   its number of 100 ns ticks since 1601-01-01 (any chrono value truncated to 100 ns) *)
Inductive scalar :=
| SBool (b : bool) | SSByte (z : Z) | SByte (z : Z) | SI16 (z : Z) | SU16 (z : Z)
| SI32 (z : Z) | SU32 (z : Z) | SI64 (z : Z) | SU64 (z : Z) | SF32 (bits : Z) | SF64 (bits : Z)
| SStr (s : ustr) | SDate (t : Z) | SGuid (g : bytes) | SBStr (b : ustr) | SXml (s : ustr)
| SNode (n : nodeid) | SENode (e : expnid) | SStatus (z : Z) | SQName (ns : Z) (name : ustr)
| SLText (loc txt : ustr) | SExt (n : nodeid) (b : eobody) | SDiag (d : diag).

(* the rest of a DataValue: status, source timestamp + picoseconds, server timestamp + picoseconds *)
Record dvrest := mk_dvrest {
  dv_status : option Z; dv_src : option Z; dv_srcp : option Z; dv_srv : option Z; dv_srvp : option Z }.

(* Variant.  [VArray ty vals dims] is Variant::Array(Array{value_type, values, dimensions}) with
   [ty] the type's encoding mask 1..25. *)
Inductive variant :=
| VEmpty
| VS (s : scalar)
| VVar (v : variant)
| VDV (v : option variant) (r : dvrest)
| VArray (ty : Z) (vals : list variant) (dims : option (list Z)).

Definition datavalue := (option variant * dvrest)%type.

(* encoding mask / VariantTypeId of a scalar *)
Definition scalar_ty (s : scalar) : Z :=
  match s with
  | SBool _ => 1 | SSByte _ => 2 | SByte _ => 3 | SI16 _ => 4 | SU16 _ => 5 | SI32 _ => 6
  | SU32 _ => 7 | SI64 _ => 8 | SU64 _ => 9 | SF32 _ => 10 | SF64 _ => 11 | SStr _ => 12
  | SDate _ => 13 | SGuid _ => 14 | SBStr _ => 15 | SXml _ => 16 | SNode _ => 17 | SENode _ => 18
  | SStatus _ => 19 | SQName _ _ => 20 | SLText _ _ => 21 | SExt _ _ => 22 | SDiag _ => 25
  end.

(* ---- DateTime ----------------------------------------------------------------------------- *)
Definition END_TICKS : Z := 2650467743990000000.      (* 9999-12-31T23:59:59 *)
Definition I64MAX : Z := 2 ^ 63 - 1.
(* chrono's representable range (years -262143 .. 262142) in ns relative to 1601-01-01 *)
Definition CHRONO_MIN_NS : Z := -8322956841600000000000.
Definition CHRONO_MAX_NS : Z := 8221911350399999999999.

(* DateTime::checked_ticks *)
Definition norm_date (t : Z) : Z := if t <? 0 then 0 else if END_TICKS <? t then END_TICKS else t.
Definition enc_date (t : Z) : bytes :=
  enc_i 8 (if t <? 0 then 0 else if END_TICKS <? t then I64MAX else t).
(* DateTime::decode: From<i64>, then `- client_offset` (chrono panics outside its range), then
   truncation to 100 ns in From<DateTimeUtc> *)
Definition dec_date (off_ns : Z) : M Z :=
  v <- read_i 8 ;;
  let t := if v =? I64MAX then END_TICKS else v in
  let ns := t * 100 - off_ns in
  if (ns <? CHRONO_MIN_NS) || (CHRONO_MAX_NS <? ns) then panic 1 else ret (ns / 100).

(* ---- NodeId / ExpandedNodeId ---------------------------------------------------------------- *)
Definition enc_nodeid_flags (flags : Z) (n : nodeid) : bytes :=
  match n with
  | NId ns (INum v) =>
      if (ns =? 0) && (v <=? 255) then [flags; v]
      else if (ns <=? 255) && (v <=? 65535) then [flags + 1; ns] ++ enc_u 2 v
      else [flags + 2] ++ enc_u 2 ns ++ enc_u 4 v
  | NId ns (IStr s) => [flags + 3] ++ enc_u 2 ns ++ enc_ustr s
  | NId ns (IGuid g) => [flags + 4] ++ enc_u 2 ns ++ g
  | NId ns (IBStr b) => [flags + 5] ++ enc_u 2 ns ++ enc_ustr b
  end.
Definition enc_nodeid := enc_nodeid_flags 0.
Definition len_nodeid (n : nodeid) : Z :=
  match n with
  | NId ns (INum v) =>
      if (ns =? 0) && (v <=? 255) then 2 else if (ns <=? 255) && (v <=? 65535) then 4 else 7
  | NId ns (IStr s) => 3 + len_ustr s
  | NId ns (IGuid g) => 3 + 16
  | NId ns (IBStr b) => 3 + len_ustr b
  end.

Definition dec_nodeid_body (o : opts) (k : Z) : M nodeid :=
  if k =? 0 then v <- read_u 1 ;; ret (NId 0 (INum v))
  else if k =? 1 then ns <- read_u 1 ;; v <- read_u 2 ;; ret (NId ns (INum v))
  else if k =? 2 then ns <- read_u 2 ;; v <- read_u 4 ;; ret (NId ns (INum v))
  else if k =? 3 then ns <- read_u 2 ;; s <- dec_str o ;; ret (NId ns (IStr s))
  else if k =? 4 then ns <- read_u 2 ;; g <- take 16 ;; ret (NId ns (IGuid g))
  else if k =? 5 then ns <- read_u 2 ;; b <- dec_bstr o ;; ret (NId ns (IBStr b))
  else fail EInvalid.
Definition dec_nodeid (o : opts) : M nodeid := k <- read_u 1 ;; dec_nodeid_body o k.

Definition wf_guid (g : bytes) : Prop := Forall is_byte g /\ length g = 16%nat.
Definition wf_nodeid (n : nodeid) : Prop :=
  match n with
  | NId ns (INum v) => in_u 2 ns /\ in_u 4 v
  | NId ns (IStr s) => in_u 2 ns /\ wf_str s
  | NId ns (IGuid g) => in_u 2 ns /\ wf_guid g
  | NId ns (IBStr b) => in_u 2 ns /\ wf_bstr b
  end.
Definition chk_nodeid (o : opts) (n : nodeid) : option err :=
  match n with
  | NId _ (IStr s) => chk_ustr (max_str o) s
  | NId _ (IBStr b) => chk_ustr (max_bstr o) b
  | _ => None
  end.

Definition enc_expnid (e : expnid) : bytes :=
  match e with ENId n uri srv =>
    enc_nodeid_flags (bit (is_some uri) 7 + bit (negb (srv =? 0)) 6) n
    ++ (if is_some uri then enc_ustr uri else [])
    ++ (if srv =? 0 then [] else enc_u 4 srv)
  end.
Definition len_expnid (e : expnid) : Z :=
  match e with ENId n uri srv =>
    len_nodeid n + (if is_some uri then len_ustr uri else 0) + (if srv =? 0 then 0 else 4)
  end.
Definition dec_expnid (o : opts) : M expnid :=
  b <- read_u 1 ;;
  n <- dec_nodeid_body o (b mod 16) ;;
  uri <- (if Z.testbit b 7 then dec_str o else ret None) ;;
  srv <- (if Z.testbit b 6 then read_u 4 else ret 0) ;;
  ret (ENId n uri srv).
Definition wf_expnid (e : expnid) : Prop :=
  match e with ENId n uri srv => wf_nodeid n /\ wf_str uri /\ in_u 4 srv end.
Definition chk_expnid (o : opts) (e : expnid) : option err :=
  match e with ENId n uri srv => seq_chk (chk_nodeid o n) (chk_ustr (max_str o) uri) end.

(* ---- LocalizedText: null and empty parts are not encoded and decode as null ----------------- *)
Definition nonempty (s : ustr) : bool := match s with Some (_ :: _) => true | _ => false end.
Definition norm_part (s : ustr) : ustr := if nonempty s then s else None.
Definition enc_ltext (loc txt : ustr) : bytes :=
  [bit (nonempty loc) 0 + bit (nonempty txt) 1]
  ++ (if nonempty loc then enc_ustr loc else []) ++ (if nonempty txt then enc_ustr txt else []).
Definition len_ltext (loc txt : ustr) : Z :=
  1 + (if nonempty loc then len_ustr loc else 0) + (if nonempty txt then len_ustr txt else 0).
Definition dec_ltext (o : opts) : M scalar :=
  m <- read_u 1 ;;
  loc <- (if Z.testbit m 0 then dec_str o else ret None) ;;
  txt <- (if Z.testbit m 1 then dec_str o else ret None) ;;
  ret (SLText loc txt).

(* ---- ExtensionObject (body opaque) ------------------------------------------------------------ *)
Definition enc_ext (n : nodeid) (b : eobody) : bytes :=
  enc_nodeid n ++ match b with
                  | EONone => [0]
                  | EOBytes bs => 1 :: enc_ustr bs
                  | EOXml s => 2 :: enc_ustr s
                  end.
Definition len_ext (n : nodeid) (b : eobody) : Z :=
  len_nodeid n + match b with EONone => 1 | EOBytes bs => 1 + len_ustr bs | EOXml s => 1 + len_ustr s end.
Definition dec_ext (o : opts) (d : nat) : M scalar :=
  lock d (fun _ =>
    n <- dec_nodeid o ;;
    t <- read_u 1 ;;
    if t =? 0 then ret (SExt n EONone)
    else if t =? 1 then b <- dec_bstr o ;; ret (SExt n (EOBytes b))
    else if t =? 2 then s <- dec_str o ;; ret (SExt n (EOXml s))
    else fail EInvalid).
Definition wf_eobody (b : eobody) : Prop :=
  match b with EONone => True | EOBytes bs => wf_bstr bs | EOXml s => wf_str s end.
Definition chk_eobody (o : opts) (b : eobody) : option err :=
  match b with EONone => None | EOBytes bs => chk_ustr (max_bstr o) bs | EOXml s => chk_ustr (max_str o) s end.

(* ---- DiagnosticInfo --------------------------------------------------------------------------- *)
Fixpoint enc_diag (x : diag) : bytes :=
  match x with Diag sym ns loc ltxt info status inner =>
    [bit (is_some sym) 0 + bit (is_some ns) 1 + bit (is_some ltxt) 2 + bit (is_some loc) 3
     + bit (is_some info) 4 + bit (is_some status) 5 + bit (is_some inner) 6]
    ++ enc_opt (enc_i 4) sym ++ enc_opt (enc_i 4) ns ++ enc_opt (enc_i 4) loc
    ++ enc_opt (enc_i 4) ltxt ++ enc_opt enc_ustr info ++ enc_opt (enc_u 4) status
    ++ match inner with Some y => enc_diag y | None => [] end
  end.
Definition olen {A} (f : A -> Z) (x : option A) : Z := match x with Some a => f a | None => 0 end.
Fixpoint len_diag (x : diag) : Z :=
  match x with Diag sym ns loc ltxt info status inner =>
    1 + olen (fun _ => 4) sym + olen (fun _ => 4) ns + olen (fun _ => 4) loc
    + olen (fun _ => 4) ltxt + olen len_ustr info + olen (fun _ => 4) status
    + match inner with Some y => len_diag y | None => 0 end
  end.
Fixpoint dec_diag (o : opts) (d : nat) {struct d} : M diag :=
  match d with
  | O => fail EDepth
  | S d' => bump (
      m <- read_u 1 ;;
      sym <- dec_opt (Z.testbit m 0) (read_i 4) ;;
      ns <- dec_opt (Z.testbit m 1) (read_i 4) ;;
      loc <- dec_opt (Z.testbit m 3) (read_i 4) ;;
      ltxt <- dec_opt (Z.testbit m 2) (read_i 4) ;;
      info <- dec_opt (Z.testbit m 4) (dec_str o) ;;
      status <- dec_opt (Z.testbit m 5) (read_u 4) ;;
      inner <- dec_opt (Z.testbit m 6) (dec_diag o d') ;;
      ret (Diag sym ns loc ltxt info status inner))
  end.
Definition wf_oi32 (x : option Z) : Prop := match x with Some v => in_i 4 v | None => True end.
Fixpoint wf_diag (x : diag) : Prop :=
  match x with Diag sym ns loc ltxt info status inner =>
    wf_oi32 sym /\ wf_oi32 ns /\ wf_oi32 loc /\ wf_oi32 ltxt
    /\ match info with Some s => wf_str s | None => True end
    /\ match status with Some v => in_u 4 v | None => True end
    /\ match inner with Some y => wf_diag y | None => True end
  end.
(* first violation in decoding order: the depth lock of this level, the additional-info string,
   then the inner info *)
Fixpoint chk_diag (o : opts) (d : nat) (x : diag) : option err :=
  match d with
  | O => Some EDepth
  | S d' =>
    match x with Diag _ _ _ _ info _ inner =>
      seq_chk (match info with Some s => chk_ustr (max_str o) s | None => None end)
              (match inner with Some y => chk_diag o d' y | None => None end)
    end
  end.

(* ---- scalars ------------------------------------------------------------------------------------ *)
Definition enc_scalar (s : scalar) : bytes :=
  match s with
  | SBool b => enc_bool b
  | SSByte z => enc_i 1 z | SByte z => enc_u 1 z
  | SI16 z => enc_i 2 z | SU16 z => enc_u 2 z
  | SI32 z => enc_i 4 z | SU32 z => enc_u 4 z
  | SI64 z => enc_i 8 z | SU64 z => enc_u 8 z
  | SF32 b => enc_u 4 b | SF64 b => enc_u 8 b
  | SStr s => enc_ustr s
  | SDate t => enc_date t
  | SGuid g => g
  | SBStr b => enc_ustr b
  | SXml s => enc_ustr s
  | SNode n => enc_nodeid n
  | SENode e => enc_expnid e
  | SStatus z => enc_u 4 z
  | SQName ns name => enc_u 2 ns ++ enc_ustr name
  | SLText loc txt => enc_ltext loc txt
  | SExt n b => enc_ext n b
  | SDiag x => enc_diag x
  end.
Definition len_scalar (s : scalar) : Z :=
  match s with
  | SBool _ | SSByte _ | SByte _ => 1
  | SI16 _ | SU16 _ => 2
  | SI32 _ | SU32 _ | SF32 _ | SStatus _ => 4
  | SI64 _ | SU64 _ | SF64 _ | SDate _ => 8
  | SStr s | SBStr s | SXml s => len_ustr s
  | SGuid _ => 16
  | SNode n => len_nodeid n
  | SENode e => len_expnid e
  | SQName ns name => 2 + len_ustr name
  | SLText loc txt => len_ltext loc txt
  | SExt n b => len_ext n b
  | SDiag x => len_diag x
  end.

(* T::decode for the type with encoding mask [ty] (not 23, 24) *)
Definition dec_scalar (o : opts) (d : nat) (ty : Z) : M scalar :=
  if ty =? 1 then b <- read_bool ;; ret (SBool b)
  else if ty =? 2 then z <- read_i 1 ;; ret (SSByte z)
  else if ty =? 3 then z <- read_u 1 ;; ret (SByte z)
  else if ty =? 4 then z <- read_i 2 ;; ret (SI16 z)
  else if ty =? 5 then z <- read_u 2 ;; ret (SU16 z)
  else if ty =? 6 then z <- read_i 4 ;; ret (SI32 z)
  else if ty =? 7 then z <- read_u 4 ;; ret (SU32 z)
  else if ty =? 8 then z <- read_i 8 ;; ret (SI64 z)
  else if ty =? 9 then z <- read_u 8 ;; ret (SU64 z)
  else if ty =? 10 then z <- read_u 4 ;; ret (SF32 z)
  else if ty =? 11 then z <- read_u 8 ;; ret (SF64 z)
  else if ty =? 12 then s <- dec_str o ;; ret (SStr s)
  else if ty =? 13 then t <- dec_date (offset_ns o) ;; ret (SDate t)
  else if ty =? 14 then g <- take 16 ;; ret (SGuid g)
  else if ty =? 15 then b <- dec_bstr o ;; ret (SBStr b)
  else if ty =? 16 then s <- dec_str o ;; ret (SXml s)
  else if ty =? 17 then n <- dec_nodeid o ;; ret (SNode n)
  else if ty =? 18 then e <- dec_expnid o ;; ret (SENode e)
  else if ty =? 19 then z <- read_u 4 ;; ret (SStatus z)
  else if ty =? 20 then ns <- read_u 2 ;; name <- dec_str o ;; ret (SQName ns name)
  else if ty =? 21 then dec_ltext o
  else if ty =? 22 then dec_ext o d
  else if ty =? 25 then x <- dec_diag o d ;; ret (SDiag x)
  else fail EInvalid.

Definition wf_scalar (s : scalar) : Prop :=
  match s with
  | SBool _ => True
  | SSByte z => in_i 1 z | SByte z => in_u 1 z
  | SI16 z => in_i 2 z | SU16 z => in_u 2 z
  | SI32 z => in_i 4 z | SU32 z => in_u 4 z
  | SI64 z => in_i 8 z | SU64 z => in_u 8 z
  | SF32 b => in_u 4 b | SF64 b => in_u 8 b
  | SStr s => wf_str s
  | SDate t => in_i 8 t
  | SGuid g => wf_guid g
  | SBStr b => wf_bstr b
  | SXml s => wf_str s
  | SNode n => wf_nodeid n
  | SENode e => wf_expnid e
  | SStatus z => in_u 4 z
  | SQName ns name => in_u 2 ns /\ wf_str name
  | SLText loc txt => wf_str loc /\ wf_str txt
  | SExt n b => wf_nodeid n /\ wf_eobody b
  | SDiag x => wf_diag x
  end.
Definition chk_scalar (o : opts) (d : nat) (s : scalar) : option err :=
  match s with
  | SStr s | SXml s => chk_ustr (max_str o) s
  | SBStr b => chk_ustr (max_bstr o) b
  | SNode n => chk_nodeid o n
  | SENode e => chk_expnid o e
  | SQName _ name => chk_ustr (max_str o) name
  | SLText loc txt => seq_chk (chk_ustr (max_str o) (norm_part loc)) (chk_ustr (max_str o) (norm_part txt))
  | SExt n b => match d with O => Some EDepth | S _ => seq_chk (chk_nodeid o n) (chk_eobody o b) end
  | SDiag x => chk_diag o d x
  | _ => None
  end.
Definition norm_scalar (s : scalar) : scalar :=
  match s with
  | SDate t => SDate (norm_date t)
  | SLText loc txt => SLText (norm_part loc) (norm_part txt)
  | _ => s
  end.

(* ---- DataValue fields --------------------------------------------------------------------------- *)
Definition dv_mask (has_value : bool) (r : dvrest) : Z :=
  bit has_value 0 + bit (is_some (dv_status r)) 1
  + bit (is_some (dv_src r)) 2 + bit (is_some (dv_srv r)) 3
  + bit (is_some (dv_src r) && is_some (dv_srcp r)) 4
  + bit (is_some (dv_srv r) && is_some (dv_srvp r)) 5.
Definition enc_dvrest (r : dvrest) : bytes :=
  enc_opt (enc_u 4) (dv_status r)
  ++ match dv_src r with Some t => enc_date t ++ enc_opt (enc_u 2) (dv_srcp r) | None => [] end
  ++ match dv_srv r with Some t => enc_date t ++ enc_opt (enc_u 2) (dv_srvp r) | None => [] end.
Definition len_dvrest (r : dvrest) : Z :=
  olen (fun _ => 4) (dv_status r)
  + match dv_src r with Some _ => 8 + olen (fun _ => 2) (dv_srcp r) | None => 0 end
  + match dv_srv r with Some _ => 8 + olen (fun _ => 2) (dv_srvp r) | None => 0 end.
(* DataValue::decode after the depth lock; [mv] decodes the value *)
Definition dec_dv_fields (o : opts) (mv : M variant) : M datavalue :=
  m <- read_u 1 ;;
  v <- dec_opt (Z.testbit m 0) mv ;;
  status <- dec_opt (Z.testbit m 1) (read_u 4) ;;
  src <- dec_opt (Z.testbit m 2) (dec_date 0) ;;
  srcp <- dec_opt (Z.testbit m 4) (read_u 2) ;;
  srv <- dec_opt (Z.testbit m 3) (dec_date (offset_ns o)) ;;
  srvp <- dec_opt (Z.testbit m 5) (read_u 2) ;;
  ret (v, mk_dvrest status src (if is_some src then srcp else None)
                    srv (if is_some srv then srvp else None)).
Definition wf_dvrest (r : dvrest) : Prop :=
  match dv_status r with Some v => in_u 4 v | None => True end
  /\ match dv_src r with Some t => in_i 8 t | None => dv_srcp r = None end
  /\ match dv_srcp r with Some p => in_u 2 p | None => True end
  /\ match dv_srv r with Some t => in_i 8 t | None => dv_srvp r = None end
  /\ match dv_srvp r with Some p => in_u 2 p | None => True end.
Definition norm_dvrest (r : dvrest) : dvrest :=
  mk_dvrest (dv_status r) (option_map norm_date (dv_src r)) (dv_srcp r)
            (option_map norm_date (dv_srv r)) (dv_srvp r).

(* ---- Variant -------------------------------------------------------------------------------------- *)
Definition VARIANT_SIZE : Z := 32.      (* size_of::<Variant>(), checked by the harness *)

Definition known_ty (ty : Z) : bool := (1 <=? ty) && (ty <=? 25).
Definition type_of (v : variant) : Z :=
  match v with
  | VEmpty => 0 | VS s => scalar_ty s | VVar _ => 24 | VDV _ _ => 23 | VArray _ _ _ => 26
  end.

(* [enc_v true v] = Variant::encode, [enc_v false v] = Variant::encode_variant_value *)
Fixpoint enc_v (with_mask : bool) (v : variant) : bytes :=
  match v with
  | VArray ty vals dims =>
      if with_mask then
        let has_dims := is_some dims && negb (match vals with [] => true | _ => false end) in
        [ty + 128 + bit has_dims 6]
        ++ enc_i 4 (Z.of_nat (length vals))
        ++ concat (map (fun x => enc_v false x) vals)
        ++ (if has_dims then
              match dims with
              | Some ds => enc_i 4 (Z.of_nat (length ds)) ++ concat (map (enc_i 4) ds)
              | None => []
              end
            else [])
      else []   (* encode_variant_value fails on a nested array *)
  | _ =>
      (if with_mask then [type_of v] else [])
      ++ match v with
         | VEmpty => []
         | VS s => enc_scalar s
         | VVar w => enc_v true w
         | VDV ov r => [dv_mask (is_some ov) r]
                       ++ match ov with Some w => enc_v true w | None => [] end
                       ++ enc_dvrest r
         | VArray _ _ _ => []
         end
  end.
Definition enc_variant := enc_v true.
Definition enc_dv (x : datavalue) : bytes := enc_v false (VDV (fst x) (snd x)).

Fixpoint len_v (with_mask : bool) (v : variant) : Z :=
  match v with
  | VArray ty vals dims =>
      if with_mask then
        let has_dims := is_some dims && negb (match vals with [] => true | _ => false end) in
        1 + 4 + fold_right (fun x acc => len_v false x + acc) 0 vals
        + (if has_dims then match dims with Some ds => 4 + 4 * Z.of_nat (length ds) | None => 0 end
           else 0)
      else 0
  | _ =>
      (if with_mask then 1 else 0)
      + match v with
        | VEmpty => 0
        | VS s => len_scalar s
        | VVar w => len_v true w
        | VDV ov r => 1 + match ov with Some w => len_v true w | None => 0 end + len_dvrest r
        | VArray _ _ _ => 0
        end
  end.

Definition u32_product (ds : list Z) : option Z :=
  fold_left (fun acc d => match acc with
                          | Some a => if a * d <? 2 ^ 32 then Some (a * d) else None
                          | None => None end) ds (Some 1).

(* Variant::decode with [d] depth locks still available *)
Fixpoint dec_variant (o : opts) (d : nat) {struct d} : M variant :=
  m <- read_u 1 ;;
  let ty := m mod 64 in
  (* decode_variant_value with element mask ty *)
  let decv : M variant :=
    if ty =? 0 then ret VEmpty
    else if ty =? 24 then
      match d with O => fail EDepth
      | S d' => bump (w <- dec_variant o d' ;; ret (VVar w)) end
    else if ty =? 23 then
      match d with O => fail EDepth
      | S d' => bump (x <- dec_dv_fields o (dec_variant o d') ;; ret (VDV (fst x) (snd x))) end
    else if ty <=? 25 then s <- dec_scalar o d ty ;; ret (VS s)
    else ret VEmpty in
  if Z.testbit m 7 then
    len <- read_i 4 ;;
    if len <? -1 then fail ENeg
    else if len <=? 0 then
      (if known_ty ty then ret (VArray ty [] (Some [])) else fail EInvalid)
    else if max_arr o <? len then fail ELimit
    else
      _ <- alloc (len * VARIANT_SIZE) ;;
      vals <- dec_n (Z.to_nat len) decv ;;
      if 25 <? ty then fail EInvalid
      else if Z.testbit m 6 then
        dims <- dec_array o 4 (read_u 4) ;;
        match dims with
        | None => fail EInvalid
        | Some ds =>
            if existsb (fun x => x =? 0) ds then fail EInvalid
            else match u32_product ds with
                 | None => fail EInvalid
                 | Some p => if negb (p =? len) then fail EInvalid
                             else if ty =? 0 then fail EInvalid
                             else ret (VArray ty vals (Some ds))
                 end
        end
      else if ty =? 0 then fail EInvalid
      else ret (VArray ty vals None)
  else if Z.testbit m 6 then fail EInvalid
  else decv.

(* DataValue::decode *)
Definition dec_dv (o : opts) (d : nat) : M datavalue :=
  lock d (fun d' => dec_dv_fields o (dec_variant o d')).

(* elements of an array of type ty: the right constructor, never Empty or a nested array *)
Definition elem_ok (ty : Z) (v : variant) : Prop :=
  match v with
  | VS s => scalar_ty s = ty
  | VVar _ => ty = 24
  | VDV _ _ => ty = 23
  | _ => False
  end.

Fixpoint wf_variant (v : variant) : Prop :=
  match v with
  | VEmpty => True
  | VS s => wf_scalar s
  | VVar w => wf_variant w
  | VDV ov r => match ov with Some w => wf_variant w | None => True end /\ wf_dvrest r
  | VArray ty vals dims =>
      known_ty ty = true
      /\ Z.of_nat (length vals) < 2 ^ 31
      /\ (fix all (l : list variant) : Prop :=
            match l with [] => True | x :: r => (elem_ok ty x /\ wf_variant x) /\ all r end) vals
      /\ match dims with
         | None => True
         | Some ds => vals = [] \/
                      (Forall (fun x => 0 < x < 2 ^ 32) ds
                       /\ Z.of_nat (length ds) < 2 ^ 31
                       /\ u32_product ds = Some (Z.of_nat (length vals)))
         end
  end.

(* first limit / depth violation in decoding order *)
Fixpoint chk_variant (o : opts) (d : nat) (v : variant) {struct v} : option err :=
  match v with
  | VEmpty => None
  | VS s => chk_scalar o d s
  | VVar w => match d with O => Some EDepth | S d' => chk_variant o d' w end
  | VDV ov r =>
      match d with O => Some EDepth
      | S d' => match ov with Some w => chk_variant o d' w | None => None end end
  | VArray ty vals dims =>
      match vals with
      | [] => None
      | _ =>
        if max_arr o <? Z.of_nat (length vals) then Some ELimit
        else seq_chk
          ((fix first (l : list variant) : option err :=
              match l with [] => None
              | x :: r => match chk_variant o d x with Some e => Some e | None => first r end
              end) vals)
          (match dims with
           | Some ds => if max_arr o <? Z.of_nat (length ds) then Some ELimit else None
           | None => None end)
      end
  end.

Fixpoint norm_variant (v : variant) : variant :=
  match v with
  | VEmpty => VEmpty
  | VS s => VS (norm_scalar s)
  | VVar w => VVar (norm_variant w)
  | VDV ov r => VDV (option_map norm_variant ov) (norm_dvrest r)
  | VArray ty vals dims =>
      match vals with
      | [] => VArray ty [] (Some [])
      | _ => VArray ty (map norm_variant vals) dims
      end
  end.

Definition wf_dv (x : datavalue) : Prop := wf_variant (VDV (fst x) (snd x)).
Definition chk_dv (o : opts) (d : nat) (x : datavalue) := chk_variant o d (VDV (fst x) (snd x)).
Definition norm_dv (x : datavalue) : datavalue :=
  (option_map norm_variant (fst x), norm_dvrest (snd x)).

(* ---- the codec records ---------------------------------------------------------------------------- *)
(* a scalar of the type with encoding mask ty *)
Definition scalar_codec (ty : Z) : codec scalar :=
  {| enc := enc_scalar; dec := fun o d => dec_scalar o d ty; blen := len_scalar;
     wf := fun s => scalar_ty s = ty /\ wf_scalar s; chk := chk_scalar; norm := norm_scalar |}.
Definition variant_codec : codec variant :=
  {| enc := enc_variant; dec := dec_variant; blen := len_v true;
     wf := wf_variant; chk := chk_variant; norm := norm_variant |}.
Definition dv_codec : codec datavalue :=
  {| enc := enc_dv; dec := dec_dv; blen := fun x => len_v false (VDV (fst x) (snd x));
     wf := wf_dv; chk := chk_dv; norm := norm_dv |}.

(* ---- the code before the pre-landed fixes -------------------------------------------------------- *)
Module Legacy.
  (* before "fix: empty variant arrays with dimensions ...": the dimensions bit and list were
     written whenever dimensions was Some, also for an empty array *)
  Definition enc_array_variant (ty : Z) (vals : list variant) (dims : option (list Z)) : bytes :=
    [ty + 128 + bit (is_some dims) 6]
    ++ enc_i 4 (Z.of_nat (length vals))
    ++ concat (map (fun x => enc_v false x) vals)
    ++ match dims with
       | Some ds => enc_i 4 (Z.of_nat (length ds)) ++ concat (map (enc_i 4) ds)
       | None => []
       end.
  Definition enc_variant (v : variant) : bytes :=
    match v with VArray ty vals dims => enc_array_variant ty vals dims | _ => enc_v true v end.

  (* before "fix: DataValue and DiagnosticInfo decoding recursed without a depth check": no depth
     lock in either decoder, so the nesting depth (= native stack depth) is bounded only by the
     input length.  [fuel] is the input length; the instrumented depth counts the recursion. *)
  Fixpoint dec_diag (o : opts) (fuel : nat) {struct fuel} : M diag :=
    match fuel with
    | O => fail EEof
    | S f => bump (
        m <- read_u 1 ;;
        sym <- dec_opt (Z.testbit m 0) (read_i 4) ;;
        ns <- dec_opt (Z.testbit m 1) (read_i 4) ;;
        loc <- dec_opt (Z.testbit m 3) (read_i 4) ;;
        ltxt <- dec_opt (Z.testbit m 2) (read_i 4) ;;
        info <- dec_opt (Z.testbit m 4) (dec_str o) ;;
        status <- dec_opt (Z.testbit m 5) (read_u 4) ;;
        inner <- dec_opt (Z.testbit m 6) (dec_diag o f) ;;
        ret (Diag sym ns loc ltxt info status inner))
    end.
End Legacy.
