(* C31 — browse path translation finds exactly the matching nodes.  Statements only. *)
From Coq Require Import List ZArith.
From OV Require Import C31.Model C31.Proofs.
Open Scope Z_scope.

Theorem C31_placeholder : run = run_with false.
Proof. reflexivity. Qed.
Print Assumptions C31_placeholder.
