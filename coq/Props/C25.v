(* C25 — Data change filters report exactly the changes they describe.  Statements only. *)
From Coq Require Import List ZArith Bool Reals.
From Flocq Require Import IEEE754.Binary IEEE754.Bits.
Import ListNotations.
From OV Require Import C25.Model C25.Proofs C25.Reals.
Open Scope Z_scope.

(* [differs f s l]: sample s differs from the last reported sample l in the way filter f selects
   (status; status or value; status, value or server timestamp), where the value "moved" means
   not equal without a deadband and |a - b| > deadband (IEEE binary64 subtraction) with an
   absolute one.  [reports_ok] checks a report sequence against it, tracking the last REPORTED
   sample. *)

(* For every accepted filter, every trigger and EVERY history of sampled values without a NaN
   value (numeric of any integer type or double, non-numeric, missing; any status / timestamp
   changes): a sample is reported exactly when it differs from the last reported one. *)
Theorem C25_reports_exactly : forall f ss last, validate f = true -> 0 <= f_trigger f <= 2 ->
  no_nan ss -> last_no_nan last ->
  reports_ok f last ss (feed compare_value f last ss) = true.
Proof. intros f ss last Hv Ht. apply feed_ok; assumption. Qed.
Print Assumptions C25_reports_exactly.

(* one step, stated directly: report <-> differs *)
Theorem C25_step : forall f s l, validate f = true -> 0 <= f_trigger f <= 2 ->
  variant_nan (s_val s) = false -> variant_nan (s_val l) = false ->
  fst (check compare_value f (Some l) s) = differs f s l.
Proof. intros f s l Hv Ht Hs Hl. cbn [check fst]. apply compare_code; assumption. Qed.
Print Assumptions C25_step.

(* A filter the server accepts can report: the move from -MAX to +MAX is reported. *)
Theorem C25_accepted_can_report : forall f, validate f = true -> can_report f = true.
Proof. exact validate_can_report. Qed.
Print Assumptions C25_accepted_can_report.

(* and nothing the description covers with a finite deadband >= 0 is refused *)
Theorem C25_describable_accepted : forall f,
  f_dtype f = 0 \/ (f_dtype f = 1 /\ fge (of_bits (f_dval f)) fzero = true /\ ffinite (of_bits (f_dval f)) = true) ->
  validate f = true.
Proof. exact describable_accepted. Qed.
Print Assumptions C25_describable_accepted.

Theorem C25_oracle : forall c, valid c -> known c = 0 -> oracle c (run c) = true.
Proof. exact oracle_holds. Qed.
Print Assumptions C25_oracle.

(* known finding 1: a value that stays NaN is reported at every sample *)
Theorem C25_known_1_refuted : exists c, valid c /\ known c = 1 /\ oracle c (run c) = false.
Proof. exact known_1_refuted. Qed.
Print Assumptions C25_known_1_refuted.

(* the code before "fix: data change filters that can never report were accepted" *)
Theorem C25_legacy_refuted : exists c, valid c /\ known c = 0 /\ oracle c (legacy_run_all c) = false.
Proof. exact legacy_all_refuted. Qed.
Print Assumptions C25_legacy_refuted.

(* the code before "fix: an infinite absolute deadband was accepted ..." *)
Theorem C25_legacy_inf_refuted : exists c, valid c /\ known c = 0 /\ oracle c (legacy_run_inf c) = false.
Proof. exact legacy_inf_refuted. Qed.
Print Assumptions C25_legacy_inf_refuted.

(* the code before "fix: a deadband filter on a non-numeric value reported every sample" *)
Theorem C25_legacy_text_refuted : exists c, valid c /\ known c = 0 /\ oracle c (legacy_run_text c) = false.
Proof. exact legacy_text_refuted. Qed.
Print Assumptions C25_legacy_text_refuted.

(* The absolute deadband in the reals, for finite values and deadband: the code treats a value as
   unchanged exactly when the difference of the real values, rounded to binary64 (round to nearest
   even), is within the deadband ... *)
Theorem C25_deadband_real : forall x y d : f64,
  ffinite x = true -> ffinite y = true -> ffinite d = true ->
  (abs_compare x y d = true <-> (Rabs (rnd64 (B2R 53 1024 x - B2R 53 1024 y)) <= B2R 53 1024 d)%R).
Proof.
  intros x y d Hx Hy Hd. split; [apply real_of_abs_compare | apply abs_compare_of_real]; assumption.
Qed.
Print Assumptions C25_deadband_real.

(* ... so a report under an absolute deadband always means the real value moved by more than the
   deadband (no rounding artefact can cause a report). *)
Theorem C25_report_means_real_move : forall x y d : f64,
  ffinite x = true -> ffinite y = true -> ffinite d = true ->
  abs_compare x y d = false -> (B2R 53 1024 d < Rabs (B2R 53 1024 x - B2R 53 1024 y))%R.
Proof. exact report_means_real_move. Qed.
Print Assumptions C25_report_means_real_move.
