From Coq Require Import List ZArith Bool Lia.
Import ListNotations.
From OV Require Import C11.Model.
Open Scope Z_scope.

Lemma list_eqb_refl l : list_eqb l l = true.
Proof. induction l as [|x l IH]; cbn; [reflexivity|]. rewrite Z.eqb_refl. exact IH. Qed.

Lemma list_eqb_eq a : forall b, list_eqb a b = true -> a = b.
Proof.
  induction a as [|x a IH]; intros [|y b] H; cbn in H; try discriminate; [reflexivity|].
  apply andb_true_iff in H as [H1 H2]. apply Z.eqb_eq in H1. f_equal; auto.
Qed.

(* ------------------------------------------------------------------------------------------ *)
(* Part A                                                                                      *)

Lemma len_app a b : len (a ++ b) = len a + len b.
Proof. unfold len. rewrite app_length. lia. Qed.

Lemma len_nonneg a : 0 <= len a.
Proof. unfold len. lia. Qed.

Lemma firstn_app_le {A} (n : nat) (a b : list A) :
  (n <= length a)%nat -> firstn n (a ++ b) = firstn n a.
Proof.
  intro H. rewrite firstn_app. replace (n - length a)%nat with O by lia.
  cbn. apply app_nil_r.
Qed.

Lemma skipn_app_le {A} (n : nat) (a b : list A) :
  (n <= length a)%nat -> skipn n (a ++ b) = skipn n a ++ b.
Proof.
  intro H. rewrite skipn_app. replace (n - length a)%nat with O by lia. reflexivity.
Qed.

(* the header fields do not change when bytes are appended to a buffer of more than 8 bytes *)
Lemma header_stable b x : 8 < len b ->
  firstn 4 (b ++ x) = firstn 4 b /\ firstn 4 (skipn 4 (b ++ x)) = firstn 4 (skipn 4 b).
Proof.
  unfold len. intro H. split.
  - apply firstn_app_le. lia.
  - rewrite skipn_app_le by lia. apply firstn_app_le. rewrite skipn_length. lia.
Qed.

(* no frame can be decoded from zero bytes *)
Lemma decode_message_nil o ty : exists e, decode_message o ty [] = inl e.
Proof. destruct ty; cbn; eauto. Qed.

(* what decode looked at, when it produced a frame: a non-empty prefix *)
Lemma decode_got o b f r : decode o b = Got f r ->
  exists n, (0 < n <= length b)%nat /\ r = skipn n b.
Proof.
  unfold decode. destruct (len b <=? 8) eqn:H8; [discriminate|].
  set (ty := message_type (firstn 4 b)). set (size := u32le (firstn 4 (skipn 4 b))).
  destruct ((0 <? max_message_size o) && (max_message_size o <? size)); [discriminate|].
  destruct (size <=? len b) eqn:Hs; [|discriminate].
  destruct (decode_message o ty (firstn (Z.to_nat size) b)) as [e|f'] eqn:Hd; [discriminate|].
  intro H. inversion H; subst. exists (Z.to_nat size). split; [|reflexivity].
  apply Z.leb_le in Hs. unfold len in Hs. split; [|lia].
  destruct (Z.to_nat size) eqn:Hn; [|lia].
  cbn in Hd. destruct (decode_message_nil o ty) as [e He]. congruence.
Qed.

(* the key lemma: decode is prefix-stable *)
Lemma decode_got_app o b x f r : decode o b = Got f r -> decode o (b ++ x) = Got f (r ++ x).
Proof.
  unfold decode. destruct (len b <=? 8) eqn:H8; [discriminate|].
  apply Z.leb_gt in H8. destruct (header_stable b x H8) as [H1 H2].
  assert (Hl : (len (b ++ x) <=? 8) = false) by (apply Z.leb_gt; rewrite len_app; pose proof (len_nonneg x); lia).
  rewrite Hl, H1, H2.
  set (ty := message_type (firstn 4 b)). set (size := u32le (firstn 4 (skipn 4 b))).
  destruct ((0 <? max_message_size o) && (max_message_size o <? size)); [discriminate|].
  destruct (size <=? len b) eqn:Hs; [|discriminate].
  apply Z.leb_le in Hs.
  assert (Hs' : (size <=? len (b ++ x)) = true) by (apply Z.leb_le; rewrite len_app; pose proof (len_nonneg x); lia).
  rewrite Hs'. unfold len in Hs.
  rewrite firstn_app_le by lia. rewrite skipn_app_le by lia.
  destruct (decode_message o ty (firstn (Z.to_nat size) b)); [discriminate|].
  intro H. inversion H; subst. reflexivity.
Qed.

Lemma decode_fail_app o b x e : decode o b = Fail e -> decode o (b ++ x) = Fail e.
Proof.
  unfold decode. destruct (len b <=? 8) eqn:H8; [discriminate|].
  apply Z.leb_gt in H8. destruct (header_stable b x H8) as [H1 H2].
  assert (Hl : (len (b ++ x) <=? 8) = false) by (apply Z.leb_gt; rewrite len_app; pose proof (len_nonneg x); lia).
  rewrite Hl, H1, H2.
  set (ty := message_type (firstn 4 b)). set (size := u32le (firstn 4 (skipn 4 b))).
  destruct ((0 <? max_message_size o) && (max_message_size o <? size)); [auto|].
  destruct (size <=? len b) eqn:Hs; [|discriminate].
  apply Z.leb_le in Hs.
  assert (Hs' : (size <=? len (b ++ x)) = true) by (apply Z.leb_le; rewrite len_app; pose proof (len_nonneg x); lia).
  rewrite Hs'. unfold len in Hs.
  rewrite firstn_app_le by lia.
  destruct (decode_message o ty (firstn (Z.to_nat size) b)); [auto|discriminate].
Qed.

(* enough fuel is enough *)
Lemma drain_fuel o : forall f1 f2 b, (length b < f1)%nat -> (length b < f2)%nat ->
  drain f1 o b = drain f2 o b.
Proof.
  induction f1 as [|f1 IH]; intros f2 b H1 H2; [lia|].
  destruct f2 as [|f2]; [lia|]. cbn [drain].
  destruct (decode o b) as [|f r|e] eqn:Hd; try reflexivity.
  destruct (decode_got _ _ _ _ Hd) as (n & Hn & ->).
  rewrite (IH f2); [reflexivity| |]; rewrite skipn_length; lia.
Qed.

Lemma drain_all_unfold o b :
  drain_all o b = match decode o b with
                  | More => ([], inr b)
                  | Fail e => ([], inl e)
                  | Got f rest => let '(fs, st) := drain_all o rest in (f :: fs, st)
                  end.
Proof.
  unfold drain_all at 1. cbn [drain]. destruct (decode o b) as [|f r|e] eqn:Hd; try reflexivity.
  destruct (decode_got _ _ _ _ Hd) as (n & Hn & ->).
  unfold drain_all. rewrite (drain_fuel o (length b) (S (length (skipn n b)))); [reflexivity| |];
    rewrite skipn_length; lia.
Qed.

(* draining a buffer to which bytes are appended: the frames of the buffer, then the frames of
   (residue ++ appended bytes); an error is final *)
Lemma drain_app o x : forall n b, (length b <= n)%nat ->
  drain_all o (b ++ x) =
  match drain_all o b with
  | (fs, inl e) => (fs, inl e)
  | (fs, inr r) => let '(fs', st') := drain_all o (r ++ x) in (fs ++ fs', st')
  end.
Proof.
  induction n as [|n IH]; intros b Hb.
  - destruct b; [|cbn in Hb; lia].
    change (drain_all o []) with (@nil (list Z), @inr Z (list Z) []). cbn [app].
    destruct (drain_all o x); reflexivity.
  - rewrite (drain_all_unfold o b). destruct (decode o b) as [|f r|e] eqn:Hd.
    + destruct (drain_all o (b ++ x)); reflexivity.
    + rewrite (drain_all_unfold o (b ++ x)), (decode_got_app _ _ x _ _ Hd).
      destruct (decode_got _ _ _ _ Hd) as (k & Hk & ->).
      rewrite IH by (rewrite skipn_length; lia).
      destruct (drain_all o (skipn k b)) as [fs [e|r]]; [reflexivity|].
      destruct (drain_all o (r ++ x)); reflexivity.
    + rewrite (drain_all_unfold o (b ++ x)), (decode_fail_app _ _ x _ Hd). reflexivity.
Qed.

(* the residue a drain leaves is one the decoder is waiting on *)
Lemma drain_residue_more o : forall n b fs r, (length b <= n)%nat ->
  drain_all o b = (fs, inr r) -> decode o r = More.
Proof.
  induction n as [|n IH]; intros b fs r Hb; rewrite drain_all_unfold.
  - destruct b; [|cbn in Hb; lia]. cbn. intro H; inversion H; subst. reflexivity.
  - destruct (decode o b) as [|f r'|e] eqn:Hd.
    + intro H; inversion H; subst. exact Hd.
    + destruct (decode_got _ _ _ _ Hd) as (k & Hk & ->).
      destruct (drain_all o (skipn k b)) as [fs' st'] eqn:Hr. intro H; inversion H; subst.
      eapply IH; [|exact Hr]. rewrite skipn_length. lia.
    + discriminate.
Qed.

Lemma feed_error o segs : forall fs e, fold_left (feed o) segs (fs, inl e) = (fs, inl e).
Proof. induction segs as [|s segs IH]; intros; cbn; [reflexivity|]. apply IH. Qed.

Lemma feed_all_gen o : forall segs fs0 r0, decode o r0 = More ->
  fold_left (feed o) segs (fs0, inr r0) =
  let '(fs, st) := drain_all o (r0 ++ concat segs) in (fs0 ++ fs, st).
Proof.
  induction segs as [|seg segs IH]; intros fs0 r0 Hr.
  - cbn [fold_left concat]. rewrite app_nil_r, drain_all_unfold, Hr, app_nil_r. reflexivity.
  - cbn [fold_left concat]. unfold feed at 2. cbn [snd fst].
    rewrite app_assoc, (drain_app o (concat segs) (length (r0 ++ seg)) (r0 ++ seg)) by lia.
    destruct (drain_all o (r0 ++ seg)) as [fs1 [e|r1]] eqn:Hd.
    + apply feed_error.
    + rewrite IH by (eapply drain_residue_more; [|exact Hd]; apply le_n).
      destruct (drain_all o (r1 ++ concat segs)). rewrite app_assoc. reflexivity.
Qed.

(* THE theorem of part A *)
Theorem segments o segs : feed_all o segs = drain_all o (concat segs).
Proof.
  unfold feed_all. rewrite feed_all_gen by reflexivity. cbn [app].
  destruct (drain_all o (concat segs)). reflexivity.
Qed.

Corollary resegment o s1 s2 : concat s1 = concat s2 -> feed_all o s1 = feed_all o s2.
Proof. intro H. rewrite !segments, H. reflexivity. Qed.

(* frames delivered from a prefix of the stream are delivered identically from the whole stream *)
Corollary frames_prefix o b x : exists more, fst (drain_all o (b ++ x)) = fst (drain_all o b) ++ more.
Proof.
  rewrite (drain_app o x (length b) b) by lia.
  destruct (drain_all o b) as [fs [e|r]]; cbn [fst].
  - exists []. rewrite app_nil_r. reflexivity.
  - destruct (drain_all o (r ++ x)) as [fs' st']. exists fs'. reflexivity.
Qed.

(* the size refusal: a declared size above the maximum is an error as soon as 9 bytes are in,
   however many bytes follow *)
Lemma oversize_refused o b : 8 < len b -> 0 < max_message_size o ->
  max_message_size o < u32le (firstn 4 (skipn 4 b)) -> decode o b = Fail E_TOO_LARGE.
Proof.
  intros H8 Hm Hs. unfold decode.
  destruct (len b <=? 8) eqn:E; [apply Z.leb_le in E; lia|].
  replace (0 <? max_message_size o) with true by (symmetry; apply Z.ltb_lt; lia).
  replace (max_message_size o <? u32le (firstn 4 (skipn 4 b))) with true by (symmetry; apply Z.ltb_lt; lia).
  reflexivity.
Qed.

Lemma legacy_waits :
  let o := mk_cfg 100 16 in let b := [72; 69; 76; 70; 255; 255; 255; 255; 1; 1; 1] in
  Legacy.decode o b = More /\ decode o b = Fail E_TOO_LARGE.
Proof. vm_compute. split; reflexivity. Qed.

(* ------------------------------------------------------------------------------------------ *)
(* Part B                                                                                      *)

(* what the buffer still owes the writer: the unwritten part of the encoded chunk, then the queue *)
Definition owed (s : sbuf) : list Z :=
  match sb_st s with
  | Writing => []
  | Reading e => firstn (Z.to_nat (e - sb_pos s)) (skipn (Z.to_nat (sb_pos s)) (sb_buf s))
  end ++ concat (sb_queue s).

Definition inv (s : sbuf) : Prop :=
  match sb_st s with
  | Writing => sb_pos s = 0
  | Reading e => 0 <= sb_pos s <= e /\ e = len (sb_buf s)
  end.

Lemma is_prefix_refl l : is_prefix l l = true.
Proof. induction l as [|x l IH]; cbn; [reflexivity|]. rewrite Z.eqb_refl. exact IH. Qed.

Lemma is_prefix_app a b : is_prefix a (a ++ b) = true.
Proof. induction a as [|x a IH]; cbn; [reflexivity|]. rewrite Z.eqb_refl. exact IH. Qed.

Lemma is_prefix_nil l : is_prefix [] l = true.
Proof. destruct l; reflexivity. Qed.

Lemma is_prefix_cons_app p a b : is_prefix a b = true -> is_prefix (p ++ a) (p ++ b) = true.
Proof. induction p as [|x p IH]; cbn; [auto|]. intro H. rewrite Z.eqb_refl. auto. Qed.

(* the result of a run: the emitted bytes and how it ended *)
Definition good_end (mc : Z) (owed0 : list Z) (msgs : list (list (list Z))) (out : list Z) : Prop :=
  let '(acc, refused) := accepted mc msgs in
  let total := owed0 ++ all_chunks acc in
  (exists body, out = body ++ [END_IDLE] /\ refused = false /\ body = total) \/
  (exists body, out = body ++ [E_TOO_MANY_CHUNKS] /\ refused = true /\ body = total) \/
  (exists body, out = body ++ [END_WRITES] /\ is_prefix body total = true).

Lemma good_end_prepend mc p o msgs out :
  good_end mc o msgs out -> good_end mc (p ++ o) msgs (p ++ out).
Proof.
  unfold good_end. destruct (accepted mc msgs) as [acc refused].
  intros [(body & -> & Hr & ->)|[(body & -> & Hr & ->)|(body & -> & Hp)]].
  - left. exists (p ++ o ++ all_chunks acc). rewrite !app_assoc. auto.
  - right; left. exists (p ++ o ++ all_chunks acc). rewrite !app_assoc. auto.
  - right; right. exists (p ++ body). split; [rewrite app_assoc; reflexivity|].
    rewrite <- app_assoc. apply is_prefix_cons_app. exact Hp.
Qed.

Lemma firstn_skipn_split (l : list Z) (a b : nat) :
  firstn (a + b) l = firstn a l ++ firstn b (skipn a l).
Proof.
  revert l. induction a as [|a IH]; intros l; cbn; [reflexivity|].
  destruct l; cbn; [destruct b; reflexivity|]. f_equal. apply IH.
Qed.

Lemma skipn_skipn' (l : list Z) : forall a b, skipn a (skipn b l) = skipn (b + a) l.
Proof.
  intros a b. revert l. induction b as [|b IH]; intros l; [reflexivity|].
  destruct l; cbn [skipn plus]; [destruct a; reflexivity|]. apply IH.
Qed.

(* one writer call in the Reading state *)
Lemma read_into_reading s e k : sb_st s = Reading e -> inv s ->
  exists s' out, read_into s k = Ok (s', out) /\ inv s' /\ sb_max_chunks s' = sb_max_chunks s /\
                 owed s = out ++ owed s'.
Proof.
  intros Hst Hinv. unfold inv in Hinv. rewrite Hst in Hinv. destruct Hinv as [Hp He].
  unfold read_into. rewrite Hst.
  replace ((e <? sb_pos s) || (len (sb_buf s) <? e)) with false
    by (symmetry; apply orb_false_iff; split; apply Z.ltb_ge; lia).
  set (data := firstn (Z.to_nat (e - sb_pos s)) (skipn (Z.to_nat (sb_pos s)) (sb_buf s))).
  assert (Hdl : len data = e - sb_pos s).
  { unfold data, len. rewrite firstn_length, skipn_length. unfold len in He. lia. }
  set (written := Z.max 0 (Z.min k (len data))).
  assert (Hw : 0 <= written <= len data) by (unfold written; pose proof (len_nonneg data); lia).
  destruct (e =? sb_pos s + written) eqn:Hfin.
  - apply Z.eqb_eq in Hfin.
    eexists. eexists. split; [reflexivity|]. split; [reflexivity|]. split; [reflexivity|].
    unfold owed. rewrite Hst. cbn [sb_st sb_queue app]. fold data.
    rewrite firstn_all2 by (unfold len in *; lia). reflexivity.
  - apply Z.eqb_neq in Hfin.
    eexists. eexists. split; [reflexivity|]. split; [|split; [reflexivity|]].
    + unfold inv. cbn [sb_st sb_pos sb_buf]. lia.
    + unfold owed. rewrite Hst. cbn [sb_st sb_queue sb_pos sb_buf]. rewrite app_assoc. f_equal.
      fold data.
      assert (Hd : data = firstn (Z.to_nat written + Z.to_nat (e - (sb_pos s + written)))
                                 (skipn (Z.to_nat (sb_pos s)) (sb_buf s))).
      { unfold data. f_equal. lia. }
      rewrite Hd at 1. rewrite firstn_skipn_split. f_equal.
      * rewrite Hd. rewrite firstn_firstn. f_equal. lia.
      * rewrite skipn_skipn'. f_equal. f_equal. lia.
Qed.

Lemma accepted_cons mc m r :
  accepted mc (m :: r) = if over_limit mc m then ([], true)
                         else let '(a, refused) := accepted mc r in (m :: a, refused).
Proof. reflexivity. Qed.

(* a writer call (or running out of writer calls) when the buffer is in the Reading state *)
Lemma reading_step fuel s e msgs ks
  (IH : forall s' msgs' ks', inv s' -> (length ks' + length msgs' < fuel)%nat ->
        good_end (sb_max_chunks s') (owed s') msgs' (sb_run fuel s' msgs' ks')) :
  sb_st s = Reading e -> inv s -> (length ks + length msgs < S fuel)%nat ->
  good_end (sb_max_chunks s) (owed s) msgs
    (match ks with
     | [] => [END_WRITES]
     | k :: ks' => match read_into s k with
                   | Ok (s2, out) => out ++ sb_run fuel s2 msgs ks'
                   | Err e => [e]
                   | Panic => [END_PANIC]
                   end
     end).
Proof.
  intros Hst Hinv Hf. destruct ks as [|k ks'].
  - unfold good_end. destruct (accepted (sb_max_chunks s) msgs) as [acc refused].
    right; right. exists []. split; [reflexivity|]. apply is_prefix_nil.
  - destruct (read_into_reading s e k Hst Hinv) as (s2 & out & Hr & Hi2 & Hmc & Ho).
    rewrite Hr, Ho, <- Hmc. apply good_end_prepend. apply IH; [exact Hi2|]. cbn [length] in Hf. lia.
Qed.

(* the run, from any state satisfying the invariant *)
Lemma sb_run_good : forall fuel s msgs ks, inv s -> (length ks + length msgs < fuel)%nat ->
  good_end (sb_max_chunks s) (owed s) msgs (sb_run fuel s msgs ks).
Proof.
  induction fuel as [|fuel IH]; intros s msgs ks Hinv Hf; [lia|].
  cbn [sb_run].
  destruct (sb_st s) as [|e] eqn:Hst.
  - (* Writing: position 0, nothing to read *)
    pose proof Hinv as Hpos. unfold inv in Hpos. rewrite Hst in Hpos.
    assert (Hcr : can_read s = false).
    { unfold can_read, is_reading. rewrite Hst, Hpos. reflexivity. }
    unfold should_encode. rewrite Hcr. cbn [negb].
    destruct (sb_queue s) as [|c q] eqn:Hq.
    + (* idle: take the next message *)
      rewrite Hcr.
      destruct msgs as [|m msgs].
      * unfold good_end. cbn [accepted]. left. exists []. unfold owed. rewrite Hst, Hq. cbn. auto.
      * unfold sb_write, is_reading. rewrite Hst.
        unfold good_end. rewrite accepted_cons. unfold over_limit.
        destruct ((0 <? sb_max_chunks s) && (sb_max_chunks s <? Z.of_nat (length m))) eqn:Hov.
        -- right; left. exists []. unfold owed. rewrite Hst, Hq. cbn. auto.
        -- set (s2 := mk_sbuf (sb_queue s ++ m) Writing (sb_pos s) (sb_buf s) (sb_max_chunks s)).
           assert (Hi2 : inv s2) by (unfold inv, s2; cbn [sb_st sb_pos]; exact Hpos).
           assert (Hf2 : (length ks + length msgs < fuel)%nat) by (cbn [length] in Hf; lia).
           pose proof (IH s2 msgs ks Hi2 Hf2) as H2. unfold good_end in H2.
           cbn [sb_max_chunks s2] in H2. fold s2.
           destruct (accepted (sb_max_chunks s) msgs) as [acc refused].
           assert (Ho : owed s2 ++ all_chunks acc = owed s ++ all_chunks (m :: acc)).
           { unfold owed, s2. cbn [sb_st sb_queue]. rewrite Hst, Hq. cbn [app].
             unfold all_chunks. cbn [concat]. rewrite concat_app. reflexivity. }
           rewrite <- Ho. exact H2.
    + (* a chunk is queued and the buffer is free: encode it, then write *)
      unfold encode_next, is_reading. rewrite Hst, Hq.
      set (s1 := mk_sbuf q (Reading (len c)) (sb_pos s) c (sb_max_chunks s)).
      assert (Hc1 : can_read s1 = true) by reflexivity. rewrite Hc1.
      assert (Hi1 : inv s1).
      { unfold inv, s1. cbn [sb_st sb_pos sb_buf]. rewrite Hpos. pose proof (len_nonneg c). lia. }
      assert (Ho : owed s1 = owed s).
      { unfold owed, s1. cbn [sb_st sb_pos sb_buf sb_queue]. rewrite Hst, Hq, Hpos. cbn [app concat].
        rewrite Z.sub_0_r. change (Z.to_nat 0) with O. cbn [skipn].
        rewrite firstn_all2 by (unfold len; lia). reflexivity. }
      rewrite <- Ho. change (sb_max_chunks s) with (sb_max_chunks s1).
      apply (reading_step fuel s1 (len c) msgs ks IH); [reflexivity|exact Hi1|exact Hf].
  - (* Reading: keep writing *)
    assert (Hcr : can_read s = true) by (unfold can_read, is_reading; rewrite Hst; reflexivity).
    assert (Hse : should_encode s = false).
    { unfold should_encode. rewrite Hcr. destruct (sb_queue s); reflexivity. }
    rewrite Hse, Hcr.
    apply (reading_step fuel s e msgs ks IH); [exact Hst|exact Hinv|exact Hf].
Qed.

Lemma last_app_single (b : list Z) x d : last (b ++ [x]) d = x.
Proof. induction b as [|y b IH]; [reflexivity|]. cbn [app]. destruct (b ++ [x]) eqn:E; [destruct b; discriminate|]. cbn [last]. exact IH. Qed.

Lemma removelast_app_single (b : list Z) x : removelast (b ++ [x]) = b.
Proof. rewrite removelast_app by discriminate. cbn. apply app_nil_r. Qed.

(* the emitted bytes are the concatenation of the secured chunks of the accepted messages, in
   order — all of it when the run went idle (or stopped at a refused message), a prefix of it
   when the writer calls ran out — and there is no other way for a run to end *)
Theorem send_ends mc msgs ks :
  good_end mc [] msgs (sb_run (sb_fuel msgs ks) (sb_init mc) msgs ks).
Proof.
  apply (sb_run_good (sb_fuel msgs ks) (sb_init mc) msgs ks); [reflexivity|].
  unfold sb_fuel. lia.
Qed.

Theorem send_oracle mc msgs ks : oracle (Send mc msgs ks) (run (Send mc msgs ks)) = true.
Proof.
  pose proof (send_ends mc msgs ks) as H. unfold good_end in H. cbn [run oracle].
  destruct (accepted mc msgs) as [acc refused]. cbn [app] in H.
  destruct H as [(body & -> & Hr & ->)|[(body & -> & Hr & ->)|(body & -> & Hp)]];
    rewrite last_app_single, removelast_app_single.
  - cbn. rewrite Hr. apply list_eqb_refl.
  - cbn. rewrite Hr. apply list_eqb_refl.
  - cbn. exact Hp.
Qed.

Theorem send_no_panic mc msgs ks :
  ~ In END_PANIC (sb_run (sb_fuel msgs ks) (sb_init mc) msgs ks) \/
  exists m c, In m msgs /\ In c m /\ In END_PANIC c.
Proof.
  (* a panic marker in the output can only be a "byte" of a chunk *)
  pose proof (send_ends mc msgs ks) as H. unfold good_end in H.
  destruct (accepted mc msgs) as [acc refused] eqn:Ha. cbn [app] in H.
  assert (Hsub : forall x, In x (all_chunks acc) -> exists m c, In m msgs /\ In c m /\ In x c).
  { clear H. revert acc refused Ha. induction msgs as [|m msgs IH]; intros acc refused Ha x Hx.
    - cbn in Ha. inversion Ha; subst. destruct Hx.
    - rewrite accepted_cons in Ha. destruct (over_limit mc m).
      + inversion Ha; subst. destruct Hx.
      + destruct (accepted mc msgs) as [a r] eqn:Hr. inversion Ha; subst.
        unfold all_chunks in Hx. cbn [concat] in Hx. rewrite concat_app in Hx.
        apply in_app_or in Hx as [Hx|Hx].
        * apply in_concat in Hx as (c & Hc & Hxc). exists m, c. cbn; auto.
        * destruct (IH _ _ eq_refl x Hx) as (m' & c & Hm & Hc & Hxc). exists m', c. cbn; auto. }
  destruct (in_dec Z.eq_dec END_PANIC (sb_run (sb_fuel msgs ks) (sb_init mc) msgs ks)) as [Hin|Hnin];
    [|left; exact Hnin].
  right. apply Hsub.
  destruct H as [(body & E & _ & ->)|[(body & E & _ & ->)|(body & E & Hp)]]; rewrite E in Hin;
    apply in_app_or in Hin as [Hin|Hin]; try (cbn in Hin; destruct Hin as [Hin|[]]; discriminate);
    try exact Hin.
  (* prefix *)
  clear E. revert Hp Hin. generalize (all_chunks acc). induction body as [|y body IH]; intros l Hp Hin; [destruct Hin|].
  destruct l as [|z l]; [discriminate|]. cbn in Hp. apply andb_true_iff in Hp as [Hyz Hp].
  apply Z.eqb_eq in Hyz. subst. destruct Hin as [->|Hin]; [left; reflexivity|right; eauto].
Qed.

(* ------------------------------------------------------------------------------------------ *)
(* the oracle theorem                                                                          *)

(* every enumerated segmentation is a segmentation of the stream, and there is at least one *)
Lemma segmentations_concat : forall l sg, In sg (segmentations l) -> concat sg = l.
Proof.
  induction l as [|x r IH]; intros sg Hin.
  - cbn in Hin. destruct Hin as [<-|[]]. reflexivity.
  - cbn [segmentations] in Hin. destruct r as [|y r'].
    + cbn in Hin. destruct Hin as [<-|[]]. reflexivity.
    + apply in_flat_map in Hin as (sg0 & Hsg0 & Hin). specialize (IH sg0 Hsg0).
      destruct sg0 as [|s ss].
      * cbn in Hin. destruct Hin as [<-|[]]. cbn in IH. discriminate IH.
      * cbn in Hin. destruct Hin as [<-|[<-|[]]]; cbn [concat app] in *; rewrite IH; reflexivity.
Qed.

Lemma segmentations_nonempty : forall l, segmentations l <> [].
Proof.
  induction l as [|x r IH]; [discriminate|]. cbn [segmentations]. destruct r as [|y r']; [discriminate|].
  destruct (segmentations (y :: r')) as [|sg0 rest]; [contradiction|].
  cbn [flat_map]. destruct sg0; discriminate.
Qed.

Theorem all_segmentations_agree o stream :
  filter (fun r => negb (list_eqb r (render (drain_all o stream))))
         (map (fun sg => render (feed_all o sg)) (segmentations stream)) = [].
Proof.
  pose proof (segmentations_concat stream) as Hc. induction (segmentations stream) as [|sg l IH]; [reflexivity|].
  cbn [map filter]. rewrite segments, (Hc sg) by (left; reflexivity). rewrite list_eqb_refl. cbn [negb].
  apply IH. intros sg' Hin. apply Hc. right; exact Hin.
Qed.

Theorem oracle_holds c : valid c -> known c = 0 -> oracle c (run c) = true.
Proof.
  intros _ _. destruct c as [mms msl segs|mms msl stream|mc msgs ks]; [| |apply send_oracle].
  - cbn [run oracle]. rewrite segments, list_eqb_refl. reflexivity.
  - cbn [run oracle]. rewrite all_segmentations_agree. cbn [length Z.of_nat].
    set (ref := render (drain_all (mk_cfg mms msl) stream)).
    set (n := Z.of_nat (length (map (fun sg => render (feed_all (mk_cfg mms msl) sg)) (segmentations stream)))).
    replace (ref ++ [SEP; n; 0]) with ((ref ++ [SEP; n]) ++ [0]) by (rewrite <- app_assoc; reflexivity).
    rewrite last_app_single, removelast_app_single.
    replace (ref ++ [SEP; n]) with ((ref ++ [SEP]) ++ [n]) by (rewrite <- app_assoc; reflexivity).
    rewrite last_app_single. cbn [Z.eqb andb]. apply Z.ltb_lt. unfold n. rewrite map_length.
    pose proof (segmentations_nonempty stream). destruct (segmentations stream); [contradiction|cbn [length]; lia].
Qed.

Example valid_example :
  valid (Codec 64 16 [[77; 83]; [71; 70; 12; 0; 0; 0; 7]; [0; 0; 0; 69]]) /\
  run (Codec 64 16 [[77; 83]; [71; 70; 12; 0; 0; 0; 7]; [0; 0; 0; 69]]) =
  [SAME; FRAME; 4; 77; 83; 71; 70; 12; 0; 0; 0; 7; 0; 0; 0; RESIDUE; 1].
Proof. split; [cbn; repeat split; lia|vm_compute; reflexivity]. Qed.
