From Coq Require Import List ZArith Bool Lia Permutation.
Import ListNotations.
From OV Require C12.Model.
From OV Require Import C35.Model.
Open Scope Z_scope.

(* ================= list facts ================= *)
Notation cnt := (count_occ Z.eq_dec).

Lemma cnt_app l1 l2 x : cnt (l1 ++ l2) x = (cnt l1 x + cnt l2 x)%nat.
Proof. apply count_occ_app. Qed.

Lemma cnt_filter_split {A} (f : A -> Z) (g : A -> bool) l x :
  cnt (map f l) x = (cnt (map f (filter g l)) x + cnt (map f (filter (fun a => negb (g a)) l)) x)%nat.
Proof.
  induction l as [|a l IH]; [reflexivity|]. cbn [filter map].
  destruct (g a); cbn [negb map count_occ]; destruct (Z.eq_dec (f a) x); lia.
Qed.

Definition pend_ks (p : list (Z * entry)) : list Z := map (fun x => e_k (snd x)) p.
Definition q_ks (q : list (Z * Z * Z)) : list Z := map qk (filter has_cb q).
Definition ev_ks (evs : list event) : list Z := map (fun e => fst (fst e)) evs.
Definition open (s : st) : list Z := pend_ks (pending s) ++ q_ks (queue s).
Definition done_ks (s : st) : list Z := ev_ks (done s).

Lemma ev_ks_app a b : ev_ks (a ++ b) = ev_ks a ++ ev_ks b.
Proof. apply map_app. Qed.

Lemma find_remove_cnt rid p e x : find rid p = Some e ->
  cnt (pend_ks p) x = (cnt (pend_ks (remove rid p)) x + (if Z.eq_dec (e_k e) x then 1 else 0))%nat.
Proof.
  unfold pend_ks. induction p as [|[r e0] p IH]; [discriminate|]. cbn [find remove].
  destruct (r =? rid).
  - intros H; inversion H; subst. cbn [map snd count_occ]. destruct (Z.eq_dec (e_k e) x); lia.
  - intros H. cbn [map snd count_occ]. rewrite (IH H). destruct (Z.eq_dec (e_k e0) x); lia.
Qed.

Lemma update_ks rid e' p e : find rid p = Some e -> e_k e' = e_k e -> pend_ks (update rid e' p) = pend_ks p.
Proof.
  unfold pend_ks. induction p as [|[r e0] p IH]; [reflexivity|]. cbn [find update].
  destruct (r =? rid).
  - intros H Hk; inversion H; subst. cbn [map snd]. rewrite Hk. reflexivity.
  - intros H Hk. cbn [map snd]. rewrite IH; auto.
Qed.

Lemma timeouts_ks nw p : ev_ks (timeouts nw p) = pend_ks (filter (expired nw) p).
Proof. unfold ev_ks, timeouts, pend_ks. rewrite map_map. reflexivity. Qed.

Lemma close_events_ks status drop p q : ev_ks (close_events status drop p q) = pend_ks p ++ q_ks q.
Proof.
  unfold close_events, ev_ks, pend_ks, q_ks. rewrite map_app, !map_map. reflexivity.
Qed.

Lemma pump_close_events_ks status nw p newl q :
  ev_ks (pump_close_events status nw p newl q) = pend_ks p ++ (pend_ks newl ++ q_ks q).
Proof.
  unfold pump_close_events. rewrite ev_ks_app, close_events_ks. f_equal.
  unfold ev_ks, pend_ks. rewrite map_map. reflexivity.
Qed.

Lemma expire_cnt nw p x :
  cnt (pend_ks p) x = (cnt (ev_ks (timeouts nw p)) x + cnt (pend_ks (alive nw p)) x)%nat.
Proof. rewrite timeouts_ks. unfold pend_ks, alive. apply cnt_filter_split. Qed.

Section Facts.
  Variable dec : list chunk -> Z + Z.
  Variable max_inflight max_pending : Z.
  Notation step := (step dec max_inflight max_pending).
  Notation exec := (exec dec max_inflight max_pending).

  (* ---------- the ghost [done] is the log of all events; [submitted] of all labels ---------- *)
  Lemma step_done s o : done (fst (fst (step s o))) = done s ++ snd (step s o).
  Proof.
    destruct o as [t kind| |rid sq kind mid part n| |cls|t|status| |lim]; cbn [step].
    - destruct (closed s); cbn; [reflexivity|rewrite app_nil_r; reflexivity].
    - destruct (closed s); [cbn; rewrite app_nil_r; reflexivity|].
      destruct (max_inflight >? Z.of_nat (length (alive (now s) (pending s)))); [|reflexivity].
      destruct (queue s) as [|[[k t] kind] q']; [reflexivity|].
      destruct (kind =? 2); reflexivity.
    - destruct (closed s); [cbn; rewrite app_nil_r; reflexivity|].
      destruct (find rid (pending s)) as [e|]; [|cbn; rewrite app_nil_r; reflexivity].
      destruct (kind =? 0).
      + destruct ((0 <? max_pending) && (max_pending <? Z.of_nat (length (e_chunks e ++ [mk_chunk rid sq kind mid part n]))));
          cbn; [reflexivity|rewrite app_nil_r; reflexivity].
      + destruct (kind =? 1); [|reflexivity].
        destruct (C12.Model.receive (last_recv s) chan (map to12 (merge (e_chunks e ++ [mk_chunk rid sq kind mid part n]))));
          try reflexivity.
        destruct (dec (merge (e_chunks e ++ [mk_chunk rid sq kind mid part n]))); reflexivity.
    - destruct (closed s); [cbn; rewrite app_nil_r; reflexivity|reflexivity].
    - destruct (closed s); [cbn; rewrite app_nil_r; reflexivity|].
      destruct (cls =? 0); [cbn; rewrite app_nil_r; reflexivity|reflexivity].
    - cbn. rewrite app_nil_r. reflexivity.
    - destruct (closed s); [cbn; rewrite app_nil_r; reflexivity|reflexivity].
    - destruct (closed s); [cbn; rewrite app_nil_r; reflexivity|reflexivity].
    - destruct (closed s); [cbn; rewrite app_nil_r; reflexivity|reflexivity].
  Qed.

  (* ---------- the ledger invariant ---------- *)
  Record Inv (s : st) : Prop := {
    i_cnt : forall x, cnt (submitted s) x = (cnt (done_ks s) x + cnt (open s) x)%nat;
    i_lt : Forall (fun k => k < next_k s) (submitted s);
    i_nodup : NoDup (submitted s);
    i_closed : closed s = true -> pending s = [] /\ queue s = [] }.

  Lemma inv_init : Inv init.
  Proof. constructor; cbn; auto; try constructor; try discriminate. Qed.

  Lemma nodup_snoc (l : list Z) k : NoDup l -> Forall (fun x => x < k) l -> NoDup (l ++ [k]).
  Proof.
    intros Hn Hl. induction Hn as [|a l Ha Hn IH]; cbn; [repeat constructor; auto|].
    inversion Hl; subst. constructor; [|apply IH; assumption].
    intros Hin. apply in_app_or in Hin as [Hin|[Hin|[]]]; [contradiction|lia].
  Qed.

  Lemma forall_lt_snoc (l : list Z) k : Forall (fun x => x < k) l -> Forall (fun x => x < k + 1) (l ++ [k]).
  Proof.
    intros H. apply Forall_app. split; [eapply Forall_impl; [|exact H]; cbn; intros; lia|].
    constructor; [lia|constructor].
  Qed.

  Lemma forall_lt_weaken (l : list Z) k : Forall (fun x => x < k) l -> Forall (fun x => x < k + 1) l.
  Proof. intros H. eapply Forall_impl; [|exact H]. cbn; intros; lia. Qed.

  Ltac cnt_norm :=
    unfold done_ks, open in *; cbn [done pending queue submitted closed next_k set_closed with_pending scanned] in *;
    repeat rewrite ?ev_ks_app, ?cnt_app, ?close_events_ks in *; cbn [ev_ks pend_ks q_ks map filter count_occ fst snd] in *.

  Lemma q_ks_snoc q k t kind : q_ks (q ++ [(k, t, kind)]) = q_ks q ++ (if negb (kind =? 1) then [k] else []).
  Proof.
    unfold q_ks. rewrite filter_app, map_app. cbn [filter]. unfold has_cb at 2. cbn [snd].
    destruct (negb (kind =? 1)); reflexivity.
  Qed.

  Lemma q_ks_cons k t kind q : q_ks ((k, t, kind) :: q) = (if kind =? 1 then [] else [k]) ++ q_ks q.
  Proof. unfold q_ks. cbn [filter]. unfold has_cb at 1. cbn [snd]. destruct (kind =? 1); reflexivity. Qed.

  Lemma step_inv s o : Inv s -> Inv (fst (fst (step s o))).
  Proof.
    intros HI. pose proof HI as [Hc Hl Hn Hcl].
    destruct o as [t kind| |rid sq kind mid part n| |cls|t|status| |lim]; cbn [step].
    - (* Submit *)
      destruct (closed s) eqn:Ecl; cbn [fst].
      + destruct (Hcl eq_refl) as [Hp Hq].
        destruct (negb (kind =? 1)); constructor; cbn [submitted next_k closed pending queue done]; auto;
          try (apply nodup_snoc; assumption); try (apply forall_lt_snoc; assumption); try (apply forall_lt_weaken; assumption).
        * intros x. specialize (Hc x). cnt_norm. rewrite Hp, Hq in *. cbn in *. destruct (Z.eq_dec (next_k s) x); lia.
        * intros x. specialize (Hc x). cnt_norm. lia.
      + destruct (negb (kind =? 1)) eqn:Ek; constructor; cbn [submitted next_k closed pending queue done]; auto;
          try (apply nodup_snoc; assumption); try (apply forall_lt_snoc; assumption); try (apply forall_lt_weaken; assumption);
          try discriminate.
        * intros x. specialize (Hc x). unfold done_ks, open in *. cbn [done pending queue] in *.
          rewrite q_ks_snoc, Ek, !cnt_app in *. cbn [count_occ]. destruct (Z.eq_dec (next_k s) x); lia.
        * intros x. specialize (Hc x). unfold done_ks, open in *. cbn [done pending queue] in *.
          rewrite q_ks_snoc, Ek, app_nil_r. exact Hc.
    - (* Pump *)
      destruct (closed s) eqn:Ecl; [exact HI|].
      pose proof (fun x => expire_cnt (now s) (pending s) x) as He.
      destruct (max_inflight >? Z.of_nat (length (alive (now s) (pending s)))).
      2:{ constructor; cbn [fst with_pending submitted next_k closed pending queue done]; auto; try (intros; congruence).
          intros x. specialize (Hc x). specialize (He x). cnt_norm. lia. }
      destruct (queue s) as [|[[k t] kind] q'] eqn:Eq.
      { constructor; cbn [fst with_pending submitted next_k closed pending queue done]; auto; try (intros; congruence).
        intros x. specialize (Hc x). specialize (He x). cnt_norm. rewrite Eq in *. cnt_norm. lia. }
      assert (Hc' : forall x, cnt (submitted s) x =
                (cnt (ev_ks (done s)) x + (cnt (pend_ks (pending s)) x +
                 (cnt (if (kind =? 1)%Z then [] else [k]) x + cnt (q_ks q') x)))%nat).
      { intros x. specialize (Hc x). unfold done_ks, open in Hc. rewrite Eq, q_ks_cons, !cnt_app in Hc. exact Hc. }
      clear Hc.
      assert (Hnew : forall x, cnt (pend_ks (if (kind =? 1)%Z then [] else [(last_id s + 1, mk_entry k (now s + Z.max 0 t) [])])) x
                        = cnt (if (kind =? 1)%Z then [] else [k]) x).
      { intros x. destruct (kind =? 1); reflexivity. }
      destruct (kind =? 2) eqn:E2; cbn [fst].
      + constructor; cbn [set_closed submitted next_k closed pending queue done]; auto; try (intros; congruence).
        intros x. specialize (Hc' x). unfold done_ks, open. cbn [done pending queue set_closed].
        rewrite !ev_ks_app, !cnt_app, pump_close_events_ks, !cnt_app, Hnew. cbn [pend_ks q_ks map filter count_occ]. lia.
      + constructor; cbn [submitted next_k closed pending queue done]; auto; try (intros; congruence).
        intros x. specialize (Hc' x). specialize (He x). unfold done_ks, open. cbn [done pending queue].
        unfold pend_ks at 1. rewrite map_app. fold (pend_ks (alive (now s) (pending s))).
        fold (pend_ks (if (kind =? 1)%Z then [] else [(last_id s + 1, mk_entry k (now s + Z.max 0 t) [])])).
        rewrite !ev_ks_app, !cnt_app, Hnew. lia.
    - (* Chunk *)
      destruct (closed s) eqn:Ecl; [exact HI|].
      destruct (find rid (pending s)) as [e|] eqn:Ef; [|exact HI].
      pose proof (fun x => find_remove_cnt rid (pending s) e x Ef) as Hr.
      destruct (kind =? 0).
      + destruct ((0 <? max_pending) && (max_pending <? Z.of_nat (length (e_chunks e ++ [mk_chunk rid sq kind mid part n])))).
        * constructor; cbn [fst with_pending submitted next_k closed pending queue done]; auto; try (intros; congruence).
          intros x. specialize (Hc x). specialize (Hr x). cnt_norm. destruct (Z.eq_dec (e_k e) x); lia.
        * constructor; cbn [fst with_pending submitted next_k closed pending queue done]; auto; try (intros; congruence).
          intros x. specialize (Hc x). unfold done_ks, open in *. cbn [done pending queue with_pending] in *.
          rewrite app_nil_r. erewrite update_ks; [exact Hc|exact Ef|reflexivity].
      + destruct (kind =? 1).
        * assert (Hfail : forall lr status,
                    Inv (set_closed s lr (last_id s) (close_events status (Some rid) (pending s) (queue s)))).
          { intros lr status. constructor; cbn [set_closed submitted next_k closed pending queue done]; auto; try (intros; congruence).
            intros x. specialize (Hc x). cnt_norm. lia. }
          destruct (C12.Model.receive (last_recv s) chan (map to12 (merge (e_chunks e ++ [mk_chunk rid sq kind mid part n]))));
            cbn [fst]; try apply Hfail.
          destruct (dec (merge (e_chunks e ++ [mk_chunk rid sq kind mid part n]))); cbn [fst]; [|apply Hfail].
          constructor; cbn [with_pending submitted next_k closed pending queue done]; auto; try (intros; congruence).
          intros x. specialize (Hc x). specialize (Hr x). cnt_norm. destruct (Z.eq_dec (e_k e) x); lia.
        * constructor; cbn [fst with_pending submitted next_k closed pending queue done]; auto; try (intros; congruence).
          intros x. specialize (Hc x). specialize (Hr x). cnt_norm. destruct (Z.eq_dec (e_k e) x); lia.
    - (* AckMsg *)
      destruct (closed s) eqn:Ecl; [exact HI|].
      constructor; cbn [fst set_closed submitted next_k closed pending queue done]; auto; try (intros; congruence).
      intros x. specialize (Hc x). cnt_norm. lia.
    - (* ErrMsg *)
      destruct (closed s) eqn:Ecl; [exact HI|].
      destruct (cls =? 0); [exact HI|].
      constructor; cbn [fst set_closed submitted next_k closed pending queue done]; auto; try (intros; congruence).
      intros x. specialize (Hc x). cnt_norm. lia.
    - (* Advance *)
      constructor; cbn [fst submitted next_k closed pending queue done]; auto; try (intros; congruence).
    - (* Close *)
      destruct (closed s) eqn:Ecl; [exact HI|].
      constructor; cbn [fst set_closed submitted next_k closed pending queue done]; auto; try (intros; congruence).
      intros x. specialize (Hc x). cnt_norm. lia.
    - (* Scan *)
      destruct (closed s) eqn:Ecl; [exact HI|].
      pose proof (fun x => expire_cnt (now s) (pending s) x) as He.
      constructor; cbn [fst scanned submitted next_k closed pending queue done]; auto; try (intros; congruence).
      intros x. specialize (Hc x). specialize (He x). cnt_norm. lia.
    - (* Sleep *)
      destruct (closed s) eqn:Ecl; [exact HI|].
      pose proof (fun x => expire_cnt (now s) (pending s) x) as He.
      constructor; cbn [fst scanned submitted next_k closed pending queue done]; auto; try (intros; congruence).
      intros x. specialize (Hc x). specialize (He x). cnt_norm. lia.
  Qed.

  Lemma exec_snoc s ops o : exec s (ops ++ [o]) = fst (fst (step (exec s ops) o)).
  Proof. unfold exec. rewrite fold_left_app. reflexivity. Qed.

  Lemma exec_inv ops : forall s, Inv s -> Inv (exec s ops).
  Proof.
    induction ops as [|o ops IH]; intros s HI; [exact HI|].
    cbn [exec fold_left]. apply IH. apply step_inv. exact HI.
  Qed.

  Lemma reach_inv ops : Inv (exec init ops).
  Proof. apply exec_inv, inv_init. Qed.

  (* ---------- exactly once ---------- *)
  Lemma cnt_in (l : list Z) x : In x l <-> (0 < cnt l x)%nat.
  Proof. apply count_occ_In. Qed.

  Lemma nodup_cnt (l : list Z) x : NoDup l -> (cnt l x <= 1)%nat.
  Proof. intros H. rewrite (NoDup_count_occ Z.eq_dec) in H. apply H. Qed.

  (* never more than once, at any point of any schedule *)
  Lemma at_most_once ops k : (cnt (done_ks (exec init ops)) k <= 1)%nat.
  Proof.
    pose proof (reach_inv ops) as [Hc _ Hn _]. specialize (Hc k).
    pose proof (nodup_cnt _ k Hn). lia.
  Qed.

  (* only requests that were submitted complete *)
  Lemma only_submitted ops k : In k (done_ks (exec init ops)) -> In k (submitted (exec init ops)).
  Proof.
    pose proof (reach_inv ops) as [Hc _ _ _]. specialize (Hc k). rewrite !cnt_in. lia.
  Qed.

  (* a submitted request is, at any time, either completed (exactly once) or still open (exactly once) *)
  Lemma completed_or_open ops k : In k (submitted (exec init ops)) ->
    (cnt (done_ks (exec init ops)) k = 1 /\ cnt (open (exec init ops)) k = 0)%nat \/
    (cnt (done_ks (exec init ops)) k = 0 /\ cnt (open (exec init ops)) k = 1)%nat.
  Proof.
    pose proof (reach_inv ops) as [Hc _ Hn _]. specialize (Hc k). intros Hin.
    apply cnt_in in Hin. pose proof (nodup_cnt _ k Hn). lia.
  Qed.

  (* once the transport is closed, every submitted request has completed exactly once *)
  Lemma exactly_once_after_close ops k : closed (exec init ops) = true ->
    In k (submitted (exec init ops)) -> cnt (done_ks (exec init ops)) k = 1%nat.
  Proof.
    intros Hcl Hin. pose proof (reach_inv ops) as [Hc _ Hn Hclosed].
    destruct (Hclosed Hcl) as [Hp Hq]. specialize (Hc k). unfold open in Hc. rewrite Hp, Hq in Hc. cbn in Hc.
    apply cnt_in in Hin. pose proof (nodup_cnt _ k Hn). lia.
  Qed.

  Lemma permutation_after_close ops : closed (exec init ops) = true ->
    Permutation (submitted (exec init ops)) (done_ks (exec init ops)).
  Proof.
    intros Hcl. pose proof (reach_inv ops) as [Hc _ _ Hclosed].
    destruct (Hclosed Hcl) as [Hp Hq]. apply (Permutation_count_occ Z.eq_dec). intros x.
    specialize (Hc x). unfold open in Hc. rewrite Hp, Hq in Hc. cbn in Hc. lia.
  Qed.

  (* every request submitted once the transport is closed completes at once (BadConnectionClosed) *)
  Lemma submit_after_close s t kind : closed s = true -> kind <> 1 ->
    snd (step s (Submit t kind)) = [(next_k s, 1, 1)].
  Proof.
    intros Hcl Hk. cbn [step]. rewrite Hcl. cbn [snd].
    destruct (Z.eqb_spec kind 1); [contradiction|reflexivity].
  Qed.

  (* ---------- responses for unknown request ids are ignored ---------- *)
  Lemma unknown_ignored s rid sq kind mid part n : find rid (pending s) = None ->
    step s (Chunk rid sq kind mid part n) = (s, -1, []).
  Proof. intros H. cbn [step]. rewrite H. destruct (closed s); reflexivity. Qed.
End Facts.

(* ================= the oracle holds on the model ================= *)
Lemma take_events_flat evs r : take_events (length evs) (flat evs ++ r) = Some (evs, r).
Proof.
  induction evs as [|[[k t] v] evs IH]; [reflexivity|]. cbn [length flat take_events app]. rewrite IH. reflexivity.
Qed.

Lemma dec1_enc1 o id w evs cl r :
  dec1 o (enc1 o id w evs cl ++ r) =
  Some ({| o_id := match o with Pump => id | _ => -1 end; o_evs := evs;
           o_wake := match o with Scan | Sleep _ => w | _ => -1 end; o_closed := cl |}, r).
Proof.
  assert (Hlen : (Z.of_nat (length evs) <? 0) = false) by (apply Z.ltb_ge; lia).
  assert (Hcl : negb (b2z cl =? 0) = cl) by (destruct cl; reflexivity).
  unfold dec1, enc1.
  destruct o; cbn [app]; rewrite Hlen, Nat2Z.id, <- app_assoc, take_events_flat; cbn [app]; rewrite Hcl; reflexivity.
Qed.

Lemma ev_eqb_refl evs : ev_eqb evs evs = true.
Proof. induction evs as [|[[k t] v] evs IH]; [reflexivity|]. cbn. rewrite !Z.eqb_refl, IH. reflexivity. Qed.

Definition proj (x : Z * entry) : Z * (Z * Z * list Z) :=
  (fst x, (e_k (snd x), e_deadline (snd x), map k_mid (e_chunks (snd x)))).
Definition gin (p : list (Z * entry)) := map proj p.

Lemma gfind_gin rid p :
  gfind rid (gin p) = option_map (fun e => (e_k e, e_deadline e, map k_mid (e_chunks e))) (find rid p).
Proof.
  induction p as [|[r e] p IH]; [reflexivity|]. cbn [gin map proj fst snd gfind find].
  destruct (r =? rid); [reflexivity|exact IH].
Qed.

Lemma gremove_gin rid p : gremove rid (gin p) = gin (remove rid p).
Proof.
  induction p as [|[r e] p IH]; [reflexivity|]. cbn [gin map proj fst snd gremove remove].
  destruct (r =? rid); [reflexivity|]. cbn [map proj fst snd]. f_equal. exact IH.
Qed.

Lemma gupdate_gin rid e' p :
  gupdate rid (e_k e', e_deadline e', map k_mid (e_chunks e')) (gin p) = gin (update rid e' p).
Proof.
  induction p as [|[r e] p IH]; [reflexivity|]. cbn [gin map proj fst snd gupdate update].
  destruct (r =? rid); [reflexivity|]. cbn [map proj fst snd]. f_equal. exact IH.
Qed.

Lemma filter_gin (f : Z * entry -> bool) (g : Z * (Z * Z * list Z) -> bool) p :
  (forall x, g (proj x) = f x) -> filter g (gin p) = gin (filter f p).
Proof.
  intros H. induction p as [|x p IH]; [reflexivity|]. cbn [gin map filter]. rewrite H.
  destruct (f x); cbn [map]; [f_equal|]; exact IH.
Qed.

Lemma gexpired_proj nw x : gexpired nw (proj x) = expired nw x.
Proof. reflexivity. Qed.

Lemma timeouts_gin nw p : map (fun x => (gk x, 1, 2)) (gin (filter (expired nw) p)) = timeouts nw p.
Proof. unfold timeouts, gin. rewrite map_map. reflexivity. Qed.

Lemma req_status_nz status : req_status status <> 0.
Proof. unfold req_status. destruct (Z.eqb_spec status 0); lia. Qed.

(* the events of a close, entry by entry, against the specification's list of open requests *)
Definition vexp (rs m : Z) : Z := if m =? 1 then 1 else if m =? 2 then 2 else rs.
Definition good1 (rs : Z) (o : Z * Z) (e : event) : Prop :=
  fst (fst e) = fst o /\ snd (fst e) = 1 /\ snd e = vexp rs (snd o).
Definition good (rs : Z) := Forall2 (good1 rs).

Lemma good_close_ok rs st : rs <> 0 -> st = None \/ st = Some rs ->
  forall open evs, good rs open evs -> forall common, common = None \/ common = Some rs ->
  close_ok open evs st common = true.
Proof.
  intros Hnz Hst open evs H. induction H as [|[k m] [[k' t] v] open evs [A [B C]] _ IH]; intros common Hco; [reflexivity|].
  cbn in A, B, C. subst k' t v. cbn [close_ok]. rewrite !Z.eqb_refl. cbn [andb]. unfold vexp.
  destruct (m =? 1); [cbn; apply IH; exact Hco|].
  destruct (m =? 2); [cbn; apply IH; exact Hco|].
  destruct (Z.eqb_spec rs 0) as [E|_]; [contradiction|]. cbn [negb andb].
  destruct Hst as [->| ->].
  - destruct Hco as [->| ->]; [apply IH; right; reflexivity|]. rewrite Z.eqb_refl. apply IH. right; reflexivity.
  - rewrite Z.eqb_refl. apply IH. exact Hco.
Qed.

Lemma forall2_map {A B C} (R : B -> C -> Prop) (f : A -> B) (g : A -> C) l :
  (forall x, R (f x) (g x)) -> Forall2 R (map f l) (map g l).
Proof. intros H. induction l; cbn; constructor; auto. Qed.

Lemma good_queue rs q : good rs (open_q q) (map (fun x => (qk x, 1, rs)) (filter has_cb q)).
Proof. unfold good, open_q. apply forall2_map. intros x. repeat split. Qed.

Definition drop_mode (drop : option Z) (x : Z * entry) : Z :=
  match drop with Some r => if fst x =? r then 1 else 0 | None => 0 end.

Lemma good_close status drop p q :
  good (req_status status)
       (map (fun x => (gk x, match drop with Some r => if fst x =? r then 1 else 0 | None => 0 end)) (gin p) ++ open_q q)
       (close_events status drop p q).
Proof.
  unfold close_events. apply Forall2_app; [|apply good_queue].
  unfold gin. rewrite map_map. apply forall2_map. intros x. unfold good1, vexp. cbn [fst snd proj gk].
  repeat split. destruct drop as [r|]; [destruct (fst x =? r)|]; reflexivity.
Qed.

Lemma good_pump_close status nw p newl q :
  good (req_status status)
       (map (fun x => (gk x, if gexpired nw x then 2 else 0)) (gin p)
        ++ map (fun x => (gk x, 0)) (gin newl) ++ open_q q)
       (pump_close_events status nw p newl q).
Proof.
  unfold pump_close_events. apply Forall2_app.
  - unfold gin. rewrite map_map. apply forall2_map. intros x. unfold good1, vexp. cbn [fst snd proj gk].
    rewrite gexpired_proj. repeat split. destruct (expired nw x); reflexivity.
  - apply (good_close status None newl q).
Qed.

(* merge_chunks only selects among the chunks it was given *)
Lemma insert_in c l x : In x (insert c l) -> x = c \/ In x l.
Proof.
  induction l as [|d l IH]; cbn [insert].
  - intros [<-|[]]. left; reflexivity.
  - destruct (k_seq c <? k_seq d).
    + intros [<-|H]; [left; reflexivity|right; exact H].
    + intros [<-|H]; [right; left; reflexivity|]. apply IH in H as [->|H]; [left; reflexivity|right; right; exact H].
Qed.

Lemma sort_in l x : In x (sort l) -> In x l.
Proof.
  unfold sort. assert (H : forall acc, In x (fold_left (fun acc c => insert c acc) l acc) -> In x acc \/ In x l).
  { induction l as [|c l IH]; intros acc; cbn [fold_left]; [auto|].
    intros H. apply IH in H as [H|H]; [|right; right; exact H].
    apply insert_in in H as [->|H]; [right; left; reflexivity|left; exact H]. }
  intros Hin. apply H in Hin as [[]|Hin]. exact Hin.
Qed.

Lemma keep_run_in l : forall e x, In x (keep_run e l) -> In x l.
Proof.
  induction l as [|c l IH]; intros e x; cbn [keep_run]; [auto|].
  destruct (k_seq c =? e); [intros [<-|H]; [left; reflexivity|right; eapply IH; exact H]|].
  intros H. right. eapply IH; exact H.
Qed.

Lemma merge_in l x : In x (merge l) -> In x l.
Proof.
  unfold merge. destruct l as [|a [|b l]]; [intros []|auto|].
  destruct (sort (a :: b :: l)) as [|c0 s'] eqn:E; [intros []|].
  intros H. apply keep_run_in in H. rewrite <- E in H. apply sort_in in H. exact H.
Qed.

Lemma decode_parts_mid l m : decode_parts l = inl m -> In m (map k_mid l).
Proof.
  unfold decode_parts. destruct (negb (kinds_ok l)); [discriminate|]. destruct l as [|c0 l]; [discriminate|].
  destruct (negb (k_part c0 =? 0)); [discriminate|]. destruct (Z.of_nat (length (c0 :: l)) <? k_n c0); [discriminate|].
  intros H; inversion H. left; reflexivity.
Qed.

Lemma existsb_in m l : In m l -> existsb (Z.eqb m) l = true.
Proof. intros H. apply existsb_exists. exists m. split; [exact H|apply Z.eqb_refl]. Qed.

(* ================= the wake-up instant ================= *)
Lemma wake1_fold p : forall t, exists w, fold_left wake1 p (Some t) = Some w /\ w <= t /\
  Forall (fun x => w <= e_deadline (snd x)) p /\ (w = t \/ exists x, In x p /\ e_deadline (snd x) = w).
Proof.
  induction p as [|x p IH]; intros t.
  - exists t. cbn. repeat split; auto; lia.
  - cbn [fold_left wake1]. destruct (Z.gtb_spec t (e_deadline (snd x))) as [Hgt|Hle].
    + destruct (IH (e_deadline (snd x))) as (w & Hw & Hwt & Hall & Hin). exists w. split; [exact Hw|]. split; [lia|]. split.
      * constructor; [exact Hwt|exact Hall].
      * right. destruct Hin as [->|(y & Hy & Hd)];
          [exists x; split; [left; reflexivity|reflexivity]|exists y; split; [right; exact Hy|exact Hd]].
    + destruct (IH t) as (w & Hw & Hwt & Hall & Hin). exists w. split; [exact Hw|]. split; [lia|]. split.
      * constructor; [lia|exact Hall].
      * destruct Hin as [->|(y & Hy & Hd)]; [left; reflexivity|right; exists y; split; [right; exact Hy|exact Hd]].
Qed.

(* next_timeout's loop returns the minimum of the deadlines it has seen: not after any of them, and one of them *)
Lemma next_wake_spec p :
  match next_wake p with
  | None => p = []
  | Some w => Forall (fun x => w <= e_deadline (snd x)) p /\ exists x, In x p /\ e_deadline (snd x) = w
  end.
Proof.
  unfold next_wake. destruct p as [|x p]; [reflexivity|]. cbn [fold_left wake1].
  destruct (wake1_fold p (e_deadline (snd x))) as (w & -> & Hle & Hall & Hin). split.
  - constructor; assumption.
  - destruct Hin as [->|(y & Hy & Hd)]; [exists x; split; [left|]; reflexivity|exists y; split; [right; exact Hy|exact Hd]].
Qed.

Lemma alive_in nw p x : In x (alive nw p) <-> In x p /\ nw < e_deadline (snd x).
Proof.
  unfold alive. rewrite filter_In. unfold expired. destruct (Z.leb_spec (e_deadline (snd x)) nw); cbn [negb]; split; intros [A B]; split; auto; try lia; discriminate.
Qed.

Lemma next_wake_alive nw p :
  match next_wake (alive nw p) with
  | None => alive nw p = []
  | Some w => nw < w /\ Forall (fun x => w <= e_deadline (snd x)) (alive nw p) /\
              exists x, In x (alive nw p) /\ e_deadline (snd x) = w
  end.
Proof.
  pose proof (next_wake_spec (alive nw p)) as H. destruct (next_wake (alive nw p)) as [w|]; [|exact H].
  destruct H as [Hall (x & Hx & Hd)]. split; [|split; [exact Hall|exists x; split; assumption]].
  apply alive_in in Hx. lia.
Qed.

Definition wake_val (nw : Z) (w : option Z) : Z := match w with Some w => w - nw | None => -1 end.

Lemma wake_ok_model nw p : wake_ok nw (gin (alive nw p)) (wake_val nw (next_wake (alive nw p))) = true.
Proof.
  pose proof (next_wake_alive nw p) as H. destruct (next_wake (alive nw p)) as [w|]; cbn [wake_val].
  - destruct H as (Hlt & Hall & (x & Hx & Hd)). unfold wake_ok.
    destruct (gin (alive nw p)) as [|y l] eqn:E; [destruct (alive nw p); [destruct Hx|discriminate]|]. rewrite <- E.
    apply andb_true_iff. split; [apply andb_true_iff; split|].
    + apply Z.ltb_lt. lia.
    + apply forallb_forall. intros z Hz. unfold gin in Hz. apply in_map_iff in Hz as (z0 & <- & Hz0).
      rewrite Forall_forall in Hall. specialize (Hall _ Hz0). apply Z.leb_le. cbn. lia.
    + apply existsb_exists. exists (proj x). split; [apply in_map; exact Hx|]. apply Z.eqb_eq. cbn. lia.
  - rewrite H. reflexivity.
Qed.

Lemma slept_model nw lim p : slept nw lim (wake_val nw (next_wake (alive nw p))) = sleep_to nw lim (next_wake (alive nw p)).
Proof.
  pose proof (next_wake_alive nw p) as H. destruct (next_wake (alive nw p)) as [w|]; cbn [wake_val]; unfold slept, sleep_to.
  - destruct H as (Hlt & _). destruct (Z.ltb_spec (w - nw) 0); [lia|]. destruct (lim <? 0); [lia|]. f_equal. lia.
  - reflexivity.
Qed.

Lemma wake_open s o : closed s = false -> match o with Scan | Sleep _ => True | _ => False end ->
  wake s o = wake_val (now s) (next_wake (alive (now s) (pending s))).
Proof. intros Hc Ho. destruct o; try destruct Ho; cbn [wake]; rewrite Hc; reflexivity. Qed.

Record Rel (s : st) (g : led) : Prop := {
  r_q : g_q g = queue s;
  r_in : g_in g = gin (pending s);
  r_cl : g_closed g = closed s;
  r_now : g_now g = now s;
  r_k : g_k g = next_k s;
  r_id : g_maxid g = last_id s;
  r_pos : 0 <= last_id s }.

Lemma rel_init : Rel init led0.
Proof. constructor; cbn; auto; lia. Qed.

Lemma firstn_app_len {A} (a b : list A) : firstn (length a) (a ++ b) = a.
Proof. induction a; cbn; [reflexivity|f_equal; assumption]. Qed.
Lemma skipn_app_len {A} (a b : list A) : skipn (length a) (a ++ b) = b.
Proof. induction a; cbn; [reflexivity|assumption]. Qed.

Lemma close_ok_close status drop st p q g : g_in g = gin p -> g_q g = q ->
  st = None \/ st = Some (req_status status) ->
  close_ok (open_of g drop) (close_events status drop p q) st None = true.
Proof.
  intros Hin Hq Hst. unfold open_of. rewrite Hin, Hq.
  apply (good_close_ok (req_status status)); [apply req_status_nz|exact Hst|apply good_close|left; reflexivity].
Qed.

Section Oracle.
  Variable mi mp : Z.
  Notation stepc := (step decode_parts mi mp).

  Definition obs_of (s : st) (o : op) : ob :=
    let '(s', id, evs) := stepc s o in
    {| o_id := match o with Pump => id | _ => -1 end; o_evs := evs;
       o_wake := match o with Scan | Sleep _ => wake s o | _ => -1 end; o_closed := closed s' |}.

  Ltac rel_close HR :=
    constructor; cbn [closed_led set_closed g_q g_in g_closed g_now g_k g_maxid queue pending closed now next_k last_id gin map];
    auto; try lia.

  Lemma check_step s g o : Rel s g ->
    exists g', check1 g o (obs_of s o) = Some g' /\ Rel (fst (fst (stepc s o))) g'.
  Proof.
    intros HR. pose proof HR as [Rq Rin Rcl Rnow Rk Rid Rpos].
    unfold obs_of. destruct o as [t kind| |rid sq kind mid part n| |cls|t|status| |lim]; cbn [step check1].
    - (* Submit *)
      rewrite Rcl, Rk. destruct (closed s) eqn:Ecl; cbn [fst snd o_evs o_closed closed].
      + destruct (kind =? 1); cbn [negb]; rewrite ev_eqb_refl; cbn [andb];
          (eexists; split; [reflexivity|]; constructor; cbn; auto).
      + cbn [ev_eqb andb negb]. eexists; split; [reflexivity|]. constructor; cbn; auto. rewrite Rq. reflexivity.
    - (* Pump *)
      rewrite Rcl. destruct (closed s) eqn:Ecl.
      { cbn [fst snd o_evs o_closed o_id closed]. rewrite Ecl. cbn. eexists; split; [reflexivity|exact HR]. }
      rewrite Rin, Rnow, Rq, Rid.
      rewrite (filter_gin (expired (now s)) (gexpired (now s)) (pending s) (gexpired_proj (now s))).
      rewrite (filter_gin (fun x => negb (expired (now s) x)) (fun x => negb (gexpired (now s) x)) (pending s))
        by (intros x; rewrite gexpired_proj; reflexivity).
      rewrite timeouts_gin. fold (alive (now s) (pending s)).
      destruct (mi >? Z.of_nat (length (alive (now s) (pending s)))).
      2:{ cbn [fst snd o_evs o_closed o_id closed with_pending]. rewrite Ecl, ev_eqb_refl. cbn.
          eexists; split; [reflexivity|]. constructor; cbn; auto. }
      destruct (queue s) as [|[[k t] kind] q'] eqn:Eq.
      { cbn [fst snd o_evs o_closed o_id closed with_pending]. rewrite Ecl, ev_eqb_refl. cbn.
        eexists; split; [reflexivity|]. constructor; cbn; auto. }
      assert (Hid : (last_id s + 1 =? -1) = false) by (apply Z.eqb_neq; lia).
      assert (Hlt : (last_id s <? last_id s + 1) = true) by (apply Z.ltb_lt; lia).
      destruct (kind =? 2) eqn:E2.
      + cbn [fst snd o_evs o_closed o_id closed set_closed]. rewrite Hid, Hlt. cbn [andb].
        assert (Hg : close_ok (map (fun x => (gk x, if gexpired (now s) x then 2 else 0)) (gin (pending s))
                               ++ (if kind =? 1 then [] else [(k, 0)]) ++ open_q q')
                              (pump_close_events 11 (now s) (pending s)
                                 (if kind =? 1 then [] else [(last_id s + 1, mk_entry k (now s + Z.max 0 t) [])]) q')
                              None None = true).
        { apply (good_close_ok (req_status 11)); [apply req_status_nz|left; reflexivity| |left; reflexivity].
          pose proof (good_pump_close 11 (now s) (pending s)
                        (if kind =? 1 then [] else [(last_id s + 1, mk_entry k (now s + Z.max 0 t) [])]) q') as G.
          destruct (kind =? 1); exact G. }
        rewrite Hg. eexists; split; [reflexivity|]. rel_close HR.
      + cbn [fst snd o_evs o_closed o_id closed]. rewrite Hid, Hlt, ev_eqb_refl. cbn [andb].
        eexists; split; [reflexivity|]. constructor; cbn [g_q g_in g_closed g_now g_k g_maxid queue pending closed now next_k last_id]; auto; try lia.
        destruct (kind =? 1); [rewrite app_nil_r; reflexivity|]. unfold gin. rewrite map_app. reflexivity.
    - (* Chunk *)
      rewrite Rcl. destruct (closed s) eqn:Ecl.
      { cbn [fst snd o_evs o_closed closed]. rewrite Ecl. cbn. eexists; split; [reflexivity|exact HR]. }
      rewrite Rin, gfind_gin. destruct (find rid (pending s)) as [e|] eqn:Ef; cbn [option_map].
      2:{ cbn [fst snd o_evs o_closed closed]. rewrite Ecl. cbn. eexists; split; [reflexivity|exact HR]. }
      set (c := mk_chunk rid sq kind mid part n).
      destruct (kind =? 0) eqn:K0.
      + destruct ((0 <? mp) && (mp <? Z.of_nat (length (e_chunks e ++ [c])))).
        * cbn [fst snd o_evs o_closed closed with_pending]. rewrite Ecl, !Z.eqb_refl. cbn [andb orb].
          eexists; split; [reflexivity|]. constructor; cbn; auto. try rewrite Rin; apply gremove_gin.
        * cbn [fst snd o_evs o_closed closed with_pending]. rewrite Ecl.
          eexists; split; [reflexivity|]. constructor; cbn [g_q g_in g_closed g_now g_k g_maxid queue pending closed now next_k last_id with_pending]; auto.
          try rewrite Rin. rewrite <- (gupdate_gin rid (mk_entry (e_k e) (e_deadline e) (e_chunks e ++ [c]))).
          cbn [e_k e_deadline e_chunks]. rewrite map_app. reflexivity.
      + destruct (kind =? 1) eqn:K1.
        * assert (Hfail : forall lr status,
            exists g', (if closed (set_closed s lr (last_id s) (close_events status (Some rid) (pending s) (queue s)))
                        then (if true && close_ok (open_of g (Some rid)) (close_events status (Some rid) (pending s) (queue s)) None None
                              then Some (closed_led g (g_maxid g)) else None)
                        else None) = Some g' /\
                       Rel (set_closed s lr (last_id s) (close_events status (Some rid) (pending s) (queue s))) g' ).
          { intros lr status. cbn [closed set_closed].
            rewrite (close_ok_close status (Some rid) None (pending s) (queue s) g Rin Rq) by (left; reflexivity). cbn [andb].
            eexists; split; [reflexivity|]. rel_close HR. }
          destruct (C12.Model.receive (last_recv s) chan (map to12 (merge (e_chunks e ++ [c])))) as [x|code|].
          -- destruct (decode_parts (merge (e_chunks e ++ [c]))) as [m|status] eqn:Ed.
             ++ cbn [fst snd o_evs o_closed closed with_pending]. rewrite Ecl, !Z.eqb_refl. cbn [andb].
                assert (Hm : existsb (Z.eqb m) (map k_mid (e_chunks e) ++ [mid]) = true).
                { apply existsb_in. apply decode_parts_mid in Ed. apply in_map_iff in Ed as (ch & <- & Hch).
                  apply merge_in in Hch. change [mid] with (map k_mid [c]). rewrite <- map_app. apply in_map. exact Hch. }
                rewrite Hm. eexists; split; [reflexivity|]. constructor; cbn; auto. try rewrite Rin; apply gremove_gin.
             ++ cbn [fst snd o_evs o_closed]. destruct (Hfail x status) as (g' & H1 & H2). exists g'. split; assumption.
          -- cbn [fst snd o_evs o_closed]. destruct (Hfail (last_recv s) (status_of_validate code)) as (g' & H1 & H2). exists g'. split; assumption.
          -- cbn [fst snd o_evs o_closed]. destruct (Hfail (last_recv s) 99) as (g' & H1 & H2). exists g'. split; assumption.
        * cbn [fst snd o_evs o_closed closed with_pending]. rewrite Ecl, !Z.eqb_refl. cbn [negb andb orb].
          eexists; split; [reflexivity|]. constructor; cbn; auto. try rewrite Rin; apply gremove_gin.
    - (* AckMsg *)
      rewrite Rcl. destruct (closed s) eqn:Ecl.
      { cbn [fst snd o_evs o_closed closed]. rewrite Ecl. cbn. eexists; split; [reflexivity|exact HR]. }
      cbn [fst snd o_evs o_closed closed set_closed].
      change (Some 10) with (Some (req_status 10)).
      rewrite (close_ok_close 10 None _ (pending s) (queue s) g Rin Rq) by (right; reflexivity). cbn [andb].
      eexists; split; [reflexivity|]. rel_close HR.
    - (* ErrMsg *)
      rewrite Rcl. destruct (closed s) eqn:Ecl.
      { cbn [fst snd o_evs o_closed closed]. rewrite Ecl. cbn. eexists; split; [reflexivity|exact HR]. }
      destruct (cls =? 0) eqn:E0.
      { cbn [fst snd o_evs o_closed closed]. rewrite Ecl. cbn. eexists; split; [reflexivity|exact HR]. }
      cbn [fst snd o_evs o_closed closed set_closed].
      set (st := if cls =? 98 then 10 else cls).
      assert (Hrs : st = req_status st).
      { unfold req_status, st. destruct (cls =? 98); [reflexivity|]. rewrite E0. reflexivity. }
      replace (Some st) with (Some (req_status st)) by (rewrite <- Hrs; reflexivity).
      rewrite (close_ok_close st None _ (pending s) (queue s) g Rin Rq) by (right; reflexivity). cbn [andb].
      eexists; split; [reflexivity|]. rel_close HR.
    - (* Advance *)
      cbn [fst snd o_evs o_closed closed]. rewrite Rcl, eqb_reflx. cbn.
      eexists; split; [reflexivity|]. constructor; cbn; auto. rewrite Rnow. reflexivity.
    - (* Close *)
      rewrite Rcl. destruct (closed s) eqn:Ecl.
      { cbn [fst snd o_evs o_closed closed]. rewrite Ecl. cbn. eexists; split; [reflexivity|exact HR]. }
      cbn [fst snd o_evs o_closed closed set_closed].
      rewrite (close_ok_close status None _ (pending s) (queue s) g Rin Rq) by (right; reflexivity). cbn [andb].
      eexists; split; [reflexivity|]. rel_close HR.
    - (* Scan *)
      rewrite Rcl. destruct (closed s) eqn:Ecl.
      { cbn [fst snd o_evs o_closed o_wake closed wake]. rewrite Ecl. cbn. eexists; split; [reflexivity|exact HR]. }
      rewrite Rin, Rnow.
      rewrite (filter_gin (expired (now s)) (gexpired (now s)) (pending s) (gexpired_proj (now s))).
      rewrite (filter_gin (fun x => negb (expired (now s) x)) (fun x => negb (gexpired (now s) x)) (pending s))
        by (intros x; rewrite gexpired_proj; reflexivity).
      rewrite timeouts_gin. fold (alive (now s) (pending s)).
      cbn [fst snd o_evs o_closed o_wake closed scanned]. rewrite (wake_open s Scan Ecl I), Ecl, ev_eqb_refl, wake_ok_model.
      cbn [andb negb]. eexists; split; [reflexivity|]. constructor; cbn; auto.
    - (* Sleep *)
      rewrite Rcl. destruct (closed s) eqn:Ecl.
      { cbn [fst snd o_evs o_closed o_wake closed wake]. rewrite Ecl. cbn. eexists; split; [reflexivity|exact HR]. }
      rewrite Rin, Rnow.
      rewrite (filter_gin (expired (now s)) (gexpired (now s)) (pending s) (gexpired_proj (now s))).
      rewrite (filter_gin (fun x => negb (expired (now s) x)) (fun x => negb (gexpired (now s) x)) (pending s))
        by (intros x; rewrite gexpired_proj; reflexivity).
      rewrite timeouts_gin. fold (alive (now s) (pending s)).
      cbn [fst snd o_evs o_closed o_wake closed scanned]. rewrite (wake_open s (Sleep lim) Ecl I), Ecl, ev_eqb_refl, wake_ok_model.
      cbn [andb negb]. eexists; split; [reflexivity|]. constructor; cbn [g_q g_in g_closed g_now g_k g_maxid queue pending closed now next_k last_id scanned]; auto.
      apply slept_model.
  Qed.
End Oracle.

Lemma oracle_run c : forall ops s g, Rel s g -> oracle_from g ops (run_from c s ops) = true.
Proof.
  induction ops as [|o ops IH]; intros s g HR; [reflexivity|].
  cbn [run_from oracle_from].
  destruct (check_step (c_maxinfl c) (c_maxpend c) s g o HR) as (g' & Hck & HR').
  unfold obs_of in Hck. unfold stepw.
  destruct (step decode_parts (c_maxinfl c) (c_maxpend c) s o) as [[s' id] evs] eqn:Es.
  cbn [fst] in HR'. rewrite dec1_enc1.
  replace (match o with Scan | Sleep _ => wake s o | _ => -1 end) with (wake s o) in Hck by (destruct o; reflexivity).
  replace (match o with Scan | Sleep _ => wake s o | _ => -1 end) with (wake s o) by (destruct o; reflexivity).
  rewrite Hck. apply IH. exact HR'.
Qed.

Lemma oracle_holds c : valid c -> known c = 0 -> oracle c (run c) = true.
Proof. intros _ _. unfold oracle, run. apply oracle_run. exact rel_init. Qed.

(* ================= request ids: buckets, no reuse, provenance of responses ================= *)
Lemma find_in rid p e : find rid p = Some e -> In (rid, e) p.
Proof.
  induction p as [|[r e0] p IH]; [discriminate|]. cbn [find]. destruct (Z.eqb_spec r rid).
  - intros H; inversion H; subst. left; reflexivity.
  - intros H. right. apply IH. exact H.
Qed.

Lemma find_none_iff rid p : find rid p = None <-> ~ In rid (map fst p).
Proof.
  induction p as [|[r e0] p IH]; cbn [find map fst In]; [tauto|].
  destruct (Z.eqb_spec r rid); [split; [discriminate|intros H; exfalso; apply H; left; assumption]|].
  rewrite IH. tauto.
Qed.

Lemma remove_incl rid p x : In x (remove rid p) -> In x p.
Proof.
  induction p as [|[r e0] p IH]; cbn [remove]; [auto|]. destruct (r =? rid); [intros H; right; exact H|].
  intros [<-|H]; [left; reflexivity|right; apply IH; exact H].
Qed.

Lemma update_in rid e' p x : In x (update rid e' p) -> In x p \/ (x = (rid, e') /\ In rid (map fst p)).
Proof.
  induction p as [|[r e0] p IH]; cbn [update]; [auto|]. destruct (Z.eqb_spec r rid).
  - intros [<-|H]; [right; subst; split; [reflexivity|left; reflexivity]|left; right; exact H].
  - intros [<-|H]; [left; left; reflexivity|]. apply IH in H as [H|[H1 H2]]; [left; right; exact H|right; split; [exact H1|right; exact H2]].
Qed.

Lemma update_fst rid e' p : map fst (update rid e' p) = map fst p.
Proof.
  induction p as [|[r e0] p IH]; [reflexivity|]. cbn [update]. destruct (Z.eqb_spec r rid); cbn [map fst]; [subst; reflexivity|].
  f_equal. exact IH.
Qed.

Lemma nodup_fst_filter (f : Z * entry -> bool) p : NoDup (map fst p) -> NoDup (map fst (filter f p)).
Proof.
  induction p as [|x p IH]; cbn [map filter]; [auto|]. intros H. inversion H as [|? ? Hn Hd]; subst.
  destruct (f x); cbn [map]; [|apply IH; exact Hd]. constructor; [|apply IH; exact Hd].
  intros Hin. apply Hn. apply in_map_iff in Hin as (y & Hy & Hin). apply filter_In in Hin as [Hin _].
  apply in_map_iff. exists y. split; assumption.
Qed.

Lemma nodup_fst_remove rid p : NoDup (map fst p) -> NoDup (map fst (remove rid p)).
Proof.
  induction p as [|[r e0] p IH]; cbn [map remove fst]; [auto|]. intros H. inversion H as [|? ? Hn Hd]; subst.
  destruct (r =? rid); [exact Hd|]. cbn [map fst]. constructor; [|apply IH; exact Hd].
  intros Hin. apply Hn. apply in_map_iff in Hin as (y & Hy & Hin). apply remove_incl in Hin.
  apply in_map_iff. exists y. split; assumption.
Qed.

Lemma find_remove_none rid p : NoDup (map fst p) -> find rid (remove rid p) = None.
Proof.
  induction p as [|[r e0] p IH]; cbn [map remove fst]; [reflexivity|]. intros H. inversion H as [|? ? Hn Hd]; subst.
  destruct (Z.eqb_spec r rid).
  - subst. apply find_none_iff. exact Hn.
  - cbn [find]. destruct (Z.eqb_spec r rid); [contradiction|]. apply IH. exact Hd.
Qed.

Lemma find_filter_none rid (f : Z * entry -> bool) p : find rid p = None -> find rid (filter f p) = None.
Proof.
  rewrite !find_none_iff. intros H Hin. apply H. apply in_map_iff in Hin as (y & Hy & Hin).
  apply filter_In in Hin as [Hin _]. apply in_map_iff. exists y. split; assumption.
Qed.

Lemma find_filter_out rid e (f : Z * entry -> bool) p :
  NoDup (map fst p) -> In (rid, e) p -> f (rid, e) = false -> find rid (filter f p) = None.
Proof.
  intros Hn Hin Hf. apply find_none_iff. intros Hc. apply in_map_iff in Hc as ([r e'] & Hr & Hc). cbn in Hr. subst r.
  apply filter_In in Hc as [Hc Hfe].
  assert (e' = e).
  { clear Hf Hfe. induction p as [|[r e0] p IH]; [destruct Hin|]. cbn [map fst] in Hn. inversion Hn as [|? ? Hn1 Hn2]; subst.
    destruct Hin as [Hin|Hin]; destruct Hc as [Hc|Hc].
    - congruence.
    - inversion Hin; subst. exfalso. apply Hn1. apply in_map_iff. exists (rid, e'). split; [reflexivity|exact Hc].
    - inversion Hc; subst. exfalso. apply Hn1. apply in_map_iff. exists (rid, e). split; [reflexivity|exact Hin].
    - apply IH; assumption. }
  subst. congruence.
Qed.

Lemma find_app_none rid p id e : find rid p = None -> id <> rid -> find rid (p ++ [(id, e)]) = None.
Proof.
  rewrite !find_none_iff, map_app. intros H Hid Hin. apply in_app_or in Hin as [Hin|[Hin|[]]]; [contradiction|].
  cbn in Hin. contradiction.
Qed.

Lemma find_update_none rid r e' p : find rid p = None -> find rid (update r e' p) = None.
Proof. rewrite !find_none_iff, update_fst. auto. Qed.

Lemma find_remove_other rid r p : find rid p = None -> find rid (remove r p) = None.
Proof.
  rewrite !find_none_iff. intros H Hin. apply H. apply in_map_iff in Hin as (y & Hy & Hin).
  apply remove_incl in Hin. apply in_map_iff. exists y. split; assumption.
Qed.

Lemma ks_unique p x y : NoDup (pend_ks p) -> In x p -> In y p -> e_k (snd x) = e_k (snd y) -> x = y.
Proof.
  unfold pend_ks. induction p as [|z p IH]; [intros _ []|]. cbn [map]. intros Hn Hx Hy He.
  inversion Hn as [|? ? Hn1 Hn2]; subst. destruct Hx as [Hx|Hx]; destruct Hy as [Hy|Hy].
  - congruence.
  - subst z. exfalso. apply Hn1. rewrite He. apply in_map_iff. exists y. split; [reflexivity|exact Hy].
  - subst z. exfalso. apply Hn1. rewrite <- He. apply in_map_iff. exists x. split; [reflexivity|exact Hx].
  - apply IH; assumption.
Qed.

Section Facts2.
  Variable dec : list chunk -> Z + Z.
  Variable max_inflight max_pending : Z.
  Notation step := (step dec max_inflight max_pending).
  Notation exec := (exec dec max_inflight max_pending).

  Definition rid_ok (lid : Z) (x : Z * entry) : Prop :=
    fst x <= lid /\ Forall (fun c => k_rid c = fst x) (e_chunks (snd x)).

  Record Inv2 (s : st) : Prop := {
    j_ok : Forall (rid_ok (last_id s)) (pending s);
    j_nodup : NoDup (map fst (pending s)) }.

  Lemma inv2_init : Inv2 init.
  Proof. constructor; cbn; constructor. Qed.

  Lemma rid_ok_mono lid lid' p : lid <= lid' -> Forall (rid_ok lid) p -> Forall (rid_ok lid') p.
  Proof. intros Hl H. eapply Forall_impl; [|exact H]. intros x [A B]. split; [lia|exact B]. Qed.

  Lemma forall_filter {A} (P : A -> Prop) f l : Forall P l -> Forall P (filter f l).
  Proof. intros H. apply Forall_forall. intros x Hx. apply filter_In in Hx as [Hx _]. rewrite Forall_forall in H. auto. Qed.

  Lemma forall_remove (P : Z * entry -> Prop) rid l : Forall P l -> Forall P (remove rid l).
  Proof. intros H. apply Forall_forall. intros x Hx. apply remove_incl in Hx. rewrite Forall_forall in H. auto. Qed.

  Lemma nodup_fst_snoc lid p id e : Forall (rid_ok lid) p -> NoDup (map fst p) -> lid < id ->
    NoDup (map fst (p ++ [(id, e)])).
  Proof.
    intros Hok Hn Hid. rewrite map_app. cbn [map fst].
    induction p as [|x p IH]; cbn [map app]; [repeat constructor; auto|].
    inversion Hok as [|? ? [Hx _] Hok']; subst. inversion Hn as [|? ? Hn1 Hn2]; subst.
    constructor; [|apply IH; assumption].
    intros Hin. apply in_app_or in Hin as [Hin|[Hin|[]]]; [contradiction|]. lia.
  Qed.

  Lemma step_inv2 s o : Inv2 s -> Inv2 (fst (fst (step s o))).
  Proof.
    intros HJ. pose proof HJ as [Hok Hn].
    assert (Hnil : forall lr id evs, Inv2 (set_closed s lr id evs)) by (intros; constructor; cbn; constructor).
    destruct o as [t kind| |rid sq kind mid part n| |cls|t|status| |lim]; cbn [step].
    - destruct (closed s); cbn [fst]; constructor; cbn; assumption.
    - destruct (closed s); [exact HJ|].
      assert (Hok1 : Forall (rid_ok (last_id s)) (alive (now s) (pending s))) by (apply forall_filter; exact Hok).
      assert (Hn1 : NoDup (map fst (alive (now s) (pending s)))) by (apply nodup_fst_filter; exact Hn).
      destruct (max_inflight >? Z.of_nat (length (alive (now s) (pending s)))); [|constructor; cbn; assumption].
      destruct (queue s) as [|[[k t] kind] q']; [constructor; cbn; assumption|].
      destruct (kind =? 2); cbn [fst]; [apply Hnil|].
      constructor; cbn [pending last_id].
      + apply Forall_app. split; [apply (rid_ok_mono (last_id s)); [lia|exact Hok1]|].
        destruct (kind =? 1); [constructor|]. constructor; [|constructor]. split; cbn; [lia|constructor].
      + destruct (kind =? 1); [rewrite app_nil_r; exact Hn1|]. apply (nodup_fst_snoc (last_id s)); [exact Hok1|exact Hn1|lia].
    - destruct (closed s); [exact HJ|].
      destruct (find rid (pending s)) as [e|] eqn:Ef; [|exact HJ].
      assert (Hrm : forall lr evs, Inv2 (with_pending s (remove rid (pending s)) lr evs)).
      { intros. constructor; cbn; [apply forall_remove; exact Hok|apply nodup_fst_remove; exact Hn]. }
      destruct (kind =? 0) eqn:K0.
      + destruct ((0 <? max_pending) && (max_pending <? Z.of_nat (length (e_chunks e ++ [mk_chunk rid sq kind mid part n])))); cbn [fst]; [apply Hrm|].
        constructor; cbn [with_pending pending last_id]; [|rewrite update_fst; exact Hn].
        apply Forall_forall. intros x Hx. apply update_in in Hx as [Hx|[-> _]].
        * rewrite Forall_forall in Hok. apply Hok. exact Hx.
        * apply find_in in Ef. rewrite Forall_forall in Hok. destruct (Hok _ Ef) as [A B]. cbn in A, B.
          split; cbn [fst snd e_chunks]; [exact A|]. apply Forall_app. split; [exact B|]. constructor; [reflexivity|constructor].
      + destruct (kind =? 1); [|cbn [fst]; apply Hrm].
        destruct (C12.Model.receive (last_recv s) chan (map to12 (merge (e_chunks e ++ [mk_chunk rid sq kind mid part n]))));
          cbn [fst]; try apply Hnil.
        destruct (dec (merge (e_chunks e ++ [mk_chunk rid sq kind mid part n]))); cbn [fst]; [apply Hrm|apply Hnil].
    - destruct (closed s); [exact HJ|apply Hnil].
    - destruct (closed s); [exact HJ|]. destruct (cls =? 0); [exact HJ|apply Hnil].
    - constructor; cbn; assumption.
    - destruct (closed s); [exact HJ|apply Hnil].
    - destruct (closed s); [exact HJ|]. constructor; cbn [fst scanned pending last_id];
        [apply forall_filter; exact Hok|apply nodup_fst_filter; exact Hn].
    - destruct (closed s); [exact HJ|]. constructor; cbn [fst scanned pending last_id];
        [apply forall_filter; exact Hok|apply nodup_fst_filter; exact Hn].
  Qed.

  Lemma exec_inv2 ops : forall s, Inv2 s -> Inv2 (exec s ops).
  Proof.
    induction ops as [|o ops IH]; intros s HJ; [exact HJ|]. cbn [Model.exec fold_left]. apply IH, step_inv2, HJ.
  Qed.

  (* ---------- a response reaches only the request whose id its chunks carry ---------- *)
  Lemma timeouts_tag nw p k t v : In (k, t, v) (timeouts nw p) -> t = 1.
  Proof. unfold timeouts. intros H. apply in_map_iff in H as (x & Hx & _). inversion Hx. reflexivity. Qed.

  Lemma close_events_tag status drop p q k t v : In (k, t, v) (close_events status drop p q) -> t = 1.
  Proof.
    unfold close_events. intros H. apply in_app_or in H as [H|H]; apply in_map_iff in H as (x & Hx & _); inversion Hx; reflexivity.
  Qed.

  Lemma pump_close_events_tag status nw p newl q k t v : In (k, t, v) (pump_close_events status nw p newl q) -> t = 1.
  Proof.
    unfold pump_close_events. intros H. apply in_app_or in H as [H|H]; [|eapply close_events_tag; exact H].
    apply in_map_iff in H as (x & Hx & _); inversion Hx; reflexivity.
  Qed.

  Lemma response_provenance s o k m : Inv2 s -> In (k, 0, m) (snd (step s o)) ->
    exists rid sq kind mid part n e,
      o = Chunk rid sq kind mid part n /\ find rid (pending s) = Some e /\ e_k e = k /\
      let cs := merge (e_chunks e ++ [mk_chunk rid sq kind mid part n]) in
      dec cs = inl m /\ Forall (fun c => k_rid c = rid) cs.
  Proof.
    intros [Hok _] Hin.
    destruct o as [t kind| |rid sq kind mid part n| |cls|t|status| |lim]; cbn [step] in Hin.
    - destruct (closed s); cbn in Hin; [|destruct Hin]. destruct (negb (kind =? 1)); cbn in Hin; [|destruct Hin].
      destruct Hin as [Hin|[]]. inversion Hin.
    - destruct (closed s); [destruct Hin|].
      destruct (max_inflight >? Z.of_nat (length (alive (now s) (pending s)))); [|cbn in Hin; apply timeouts_tag in Hin; discriminate].
      destruct (queue s) as [|[[k0 t] kind] q']; [cbn in Hin; apply timeouts_tag in Hin; discriminate|].
      destruct (kind =? 2); cbn [snd] in Hin; [|apply timeouts_tag in Hin; discriminate].
      apply pump_close_events_tag in Hin. discriminate.
    - destruct (closed s); [destruct Hin|].
      destruct (find rid (pending s)) as [e|] eqn:Ef; [|destruct Hin].
      destruct (kind =? 0).
      { destruct ((0 <? max_pending) && (max_pending <? Z.of_nat (length (e_chunks e ++ [mk_chunk rid sq kind mid part n]))));
          cbn in Hin; [destruct Hin as [Hin|[]]; inversion Hin|destruct Hin]. }
      destruct (kind =? 1); [|cbn in Hin; destruct Hin as [Hin|[]]; inversion Hin].
      destruct (C12.Model.receive (last_recv s) chan (map to12 (merge (e_chunks e ++ [mk_chunk rid sq kind mid part n]))));
        try (cbn [snd] in Hin; apply close_events_tag in Hin; discriminate).
      destruct (dec (merge (e_chunks e ++ [mk_chunk rid sq kind mid part n]))) as [m'|st] eqn:Ed;
        [|cbn [snd] in Hin; apply close_events_tag in Hin; discriminate].
      cbn in Hin. destruct Hin as [Hin|[]]. inversion Hin; subst.
      exists rid, sq, kind, mid, part, n, e. repeat split; try assumption; try reflexivity.
      apply Forall_forall. intros c Hc. apply merge_in in Hc. apply in_app_or in Hc as [Hc|[<-|[]]]; [|reflexivity].
      apply find_in in Ef. rewrite Forall_forall in Hok. destruct (Hok _ Ef) as [_ B]. rewrite Forall_forall in B. exact (B _ Hc).
    - destruct (closed s); [destruct Hin|]. cbn [snd] in Hin. apply close_events_tag in Hin. discriminate.
    - destruct (closed s); [destruct Hin|]. destruct (cls =? 0); [destruct Hin|]. cbn [snd] in Hin. apply close_events_tag in Hin. discriminate.
    - destruct Hin.
    - destruct (closed s); [destruct Hin|]. cbn [snd] in Hin. apply close_events_tag in Hin. discriminate.
    - destruct (closed s); [destruct Hin|]. cbn [snd] in Hin. apply timeouts_tag in Hin. discriminate.
    - destruct (closed s); [destruct Hin|]. cbn [snd] in Hin. apply timeouts_tag in Hin. discriminate.
  Qed.

  (* ---------- request ids are never reused: an id that is not pending stays not pending ---------- *)
  Lemma gone_step s o rid : rid <= last_id s -> find rid (pending s) = None ->
    rid <= last_id (fst (fst (step s o))) /\ find rid (pending (fst (fst (step s o)))) = None.
  Proof.
    intros Hl Hf.
    destruct o as [t kind| |r sq kind mid part n| |cls|t|status| |lim]; cbn [step].
    - destruct (closed s); cbn; auto.
    - destruct (closed s); [auto|].
      pose proof (find_filter_none rid (fun x => negb (expired (now s) x)) (pending s) Hf) as Hf1. fold (alive (now s) (pending s)) in Hf1.
      destruct (max_inflight >? Z.of_nat (length (alive (now s) (pending s)))); [|cbn; auto].
      destruct (queue s) as [|[[k t] kind] q']; [cbn; auto|].
      destruct (kind =? 2); cbn [fst set_closed last_id pending find]; [split; [lia|reflexivity]|].
      split; [lia|]. destruct (kind =? 1); [rewrite app_nil_r; exact Hf1|]. apply find_app_none; [exact Hf1|lia].
    - destruct (closed s); [auto|]. destruct (find r (pending s)) as [e|]; [|auto].
      destruct (kind =? 0).
      { destruct ((0 <? max_pending) && (max_pending <? Z.of_nat (length (e_chunks e ++ [mk_chunk r sq kind mid part n]))));
          cbn; split; auto; [apply find_remove_other|apply find_update_none]; exact Hf. }
      destruct (kind =? 1); [|cbn; split; auto; apply find_remove_other; exact Hf].
      destruct (C12.Model.receive (last_recv s) chan (map to12 (merge (e_chunks e ++ [mk_chunk r sq kind mid part n]))));
        try (cbn; split; auto; fail).
      destruct (dec (merge (e_chunks e ++ [mk_chunk r sq kind mid part n]))); cbn; split; auto. apply find_remove_other; exact Hf.
    - destruct (closed s); cbn; auto.
    - destruct (closed s); [auto|]. destruct (cls =? 0); cbn; auto.
    - cbn; auto.
    - destruct (closed s); cbn; auto.
    - destruct (closed s); [auto|]. cbn [fst scanned pending last_id]. split; [exact Hl|].
      apply (find_filter_none rid (fun x => negb (expired (now s) x))). exact Hf.
    - destruct (closed s); [auto|]. cbn [fst scanned pending last_id]. split; [exact Hl|].
      apply (find_filter_none rid (fun x => negb (expired (now s) x))). exact Hf.
  Qed.

  Lemma gone_stays_gone ops : forall s rid, rid <= last_id s -> find rid (pending s) = None ->
    find rid (pending (exec s ops)) = None.
  Proof.
    induction ops as [|o ops IH]; intros s rid Hl Hf; [exact Hf|]. cbn [Model.exec fold_left].
    destruct (gone_step s o rid Hl Hf) as [Hl' Hf']. apply IH; assumption.
  Qed.

  (* ---------- a completed request's id is gone ---------- *)
  Lemma pend_ks_nodup s : Inv s -> NoDup (pend_ks (pending s)).
  Proof.
    intros [Hc _ Hn _]. apply (NoDup_count_occ Z.eq_dec). intros x. specialize (Hc x).
    rewrite (NoDup_count_occ Z.eq_dec) in Hn. specialize (Hn x). unfold open in Hc. rewrite cnt_app in Hc. lia.
  Qed.

  Lemma open_lt s k : Inv s -> In k (pend_ks (pending s)) -> k < next_k s.
  Proof.
    intros [Hc Hl _ _] Hin. specialize (Hc k). rewrite Forall_forall in Hl. apply Hl.
    apply (count_occ_In Z.eq_dec). apply (count_occ_In Z.eq_dec) in Hin. unfold open in Hc. rewrite cnt_app in Hc. lia.
  Qed.

  Lemma completion_removes s o rid e t v : Inv s -> Inv2 s ->
    In (rid, e) (pending s) -> In (e_k e, t, v) (snd (step s o)) ->
    rid <= last_id (fst (fst (step s o))) /\ find rid (pending (fst (fst (step s o)))) = None.
  Proof.
    intros HI [Hok Hn] Hin Hev. pose proof (pend_ks_nodup s HI) as Hkn.
    assert (Hrl : rid <= last_id s) by (rewrite Forall_forall in Hok; destruct (Hok _ Hin) as [A _]; exact A).
    destruct o as [t0 kind| |r sq kind mid part n| |cls|t0|status| |lim]; cbn [step] in *.
    - exfalso. assert (Hlt : e_k e < next_k s).
      { apply (open_lt s _ HI). unfold pend_ks. apply in_map_iff. exists (rid, e). split; [reflexivity|exact Hin]. }
      destruct (closed s); cbn in Hev; [|destruct Hev]. destruct (negb (kind =? 1)); cbn in Hev; [|destruct Hev].
      destruct Hev as [Hev|[]]. inversion Hev. lia.
    - destruct (closed s); [destruct Hev|].
      assert (Htev : In (e_k e, t, v) (timeouts (now s) (pending s)) -> find rid (alive (now s) (pending s)) = None).
      { intros H. unfold timeouts in H. apply in_map_iff in H as (x & Hx & Hxin). apply filter_In in Hxin as [Hxin Hexp].
        assert (x = (rid, e)) by (apply (ks_unique (pending s)); auto; cbn [snd]; congruence). subst x.
        apply (find_filter_out rid e); [exact Hn|exact Hin|]. rewrite Hexp. reflexivity. }
      destruct (max_inflight >? Z.of_nat (length (alive (now s) (pending s)))); [|cbn in *; split; [lia|auto]].
      destruct (queue s) as [|[[k t1] kind] q']; [cbn in *; split; [lia|auto]|].
      destruct (kind =? 2); cbn [fst snd set_closed last_id pending find] in *; [split; [lia|reflexivity]|].
      split; [lia|]. destruct (kind =? 1); [rewrite app_nil_r; auto|]. apply find_app_none; [auto|lia].
    - destruct (closed s); [destruct Hev|]. destruct (find r (pending s)) as [e'|] eqn:Ef; [|destruct Hev].
      assert (Hsame : e_k e' = e_k e -> find rid (remove r (pending s)) = None).
      { intros Hk. apply find_in in Ef.
        assert ((r, e') = (rid, e)) by (apply (ks_unique (pending s)); auto). inversion H; subst.
        apply find_remove_none. exact Hn. }
      destruct (kind =? 0).
      { destruct ((0 <? max_pending) && (max_pending <? Z.of_nat (length (e_chunks e' ++ [mk_chunk r sq kind mid part n]))));
          cbn in *; [|destruct Hev]. destruct Hev as [Hev|[]]. inversion Hev. split; [lia|]. apply Hsame. congruence. }
      destruct (kind =? 1).
      2:{ cbn in *. destruct Hev as [Hev|[]]. inversion Hev. split; [lia|]. apply Hsame. congruence. }
      destruct (C12.Model.receive (last_recv s) chan (map to12 (merge (e_chunks e' ++ [mk_chunk r sq kind mid part n]))));
        try (cbn; split; [lia|reflexivity]).
      destruct (dec (merge (e_chunks e' ++ [mk_chunk r sq kind mid part n]))); [|cbn; split; [lia|reflexivity]].
      cbn in *. destruct Hev as [Hev|[]]. inversion Hev. split; [lia|]. apply Hsame. congruence.
    - destruct (closed s); [destruct Hev|]. cbn. split; [lia|reflexivity].
    - destruct (closed s); [destruct Hev|]. destruct (cls =? 0); [destruct Hev|]. cbn. split; [lia|reflexivity].
    - destruct Hev.
    - destruct (closed s); [destruct Hev|]. cbn. split; [lia|reflexivity].
    - destruct (closed s); [destruct Hev|]. cbn [fst snd scanned pending last_id] in *. split; [lia|].
      unfold timeouts in Hev. apply in_map_iff in Hev as (x & Hx & Hxin). apply filter_In in Hxin as [Hxin Hexp].
      assert (x = (rid, e)) by (apply (ks_unique (pending s)); auto; cbn [snd]; congruence). subst x.
      apply (find_filter_out rid e); [exact Hn|exact Hin|]. rewrite Hexp. reflexivity.
    - destruct (closed s); [destruct Hev|]. cbn [fst snd scanned pending last_id] in *. split; [lia|].
      unfold timeouts in Hev. apply in_map_iff in Hev as (x & Hx & Hxin). apply filter_In in Hxin as [Hxin Hexp].
      assert (x = (rid, e)) by (apply (ks_unique (pending s)); auto; cbn [snd]; congruence). subst x.
      apply (find_filter_out rid e); [exact Hn|exact Hin|]. rewrite Hexp. reflexivity.
  Qed.

  (* once the request filed under an id has completed - response, timeout, abort, close - every later
     chunk carrying that id changes nothing and completes nothing, for ever *)
  Lemma completed_ids_ignored ops1 o ops2 rid e t v :
    let s := exec init ops1 in
    In (rid, e) (pending s) -> In (e_k e, t, v) (snd (step s o)) ->
    let s2 := exec (fst (fst (step s o))) ops2 in
    forall sq kind mid part n, step s2 (Chunk rid sq kind mid part n) = (s2, -1, []).
  Proof.
    intros s Hin Hev s2 sq kind mid part n.
    pose proof (exec_inv dec max_inflight max_pending ops1 init (inv_init)) as HI.
    pose proof (exec_inv2 ops1 init inv2_init) as HJ. fold s in HI, HJ.
    destruct (completion_removes s o rid e t v HI HJ Hin Hev) as [Hl Hf].
    apply unknown_ignored. apply gone_stays_gone; assumption.
  Qed.

  (* ---------- BadTimeout from the reaper: exactly the pending requests whose deadline has passed ---------- *)
  Lemma timeout_iff_deadline s k :
    In (k, 1, 2) (timeouts (now s) (pending s)) <->
    exists rid e, In (rid, e) (pending s) /\ e_k e = k /\ e_deadline e <= now s.
  Proof.
    unfold timeouts. rewrite in_map_iff. split.
    - intros ([rid e] & Hx & Hin). apply filter_In in Hin as [Hin Hexp]. inversion Hx; subst.
      exists rid, e. repeat split; auto. unfold expired in Hexp. cbn in Hexp. apply Z.leb_le. exact Hexp.
    - intros (rid & e & Hin & <- & Hd). exists (rid, e). split; [reflexivity|]. apply filter_In. split; [exact Hin|].
      unfold expired. cbn. apply Z.leb_le. exact Hd.
  Qed.

  Lemma pump_timeouts s k : closed s = false ->
    (In (k, 1, 2) (snd (step s Pump)) <-> In (k, 1, 2) (timeouts (now s) (pending s))).
  Proof.
    intros Hc. cbn [step]. rewrite Hc.
    destruct (max_inflight >? Z.of_nat (length (alive (now s) (pending s)))); [|reflexivity].
    destruct (queue s) as [|[[k0 t] kind] q']; [reflexivity|].
    destruct (kind =? 2); cbn [snd]; [|reflexivity].
    unfold pump_close_events, timeouts. rewrite in_app_iff, !in_map_iff. split.
    - intros [(x & Hx & Hin)|Hin].
      + exists x. destruct (expired (now s) x) eqn:E; [|inversion Hx].
        split; [exact Hx|]. apply filter_In. split; assumption.
      + exfalso. unfold close_events in Hin. apply in_app_or in Hin as [Hin|Hin];
          apply in_map_iff in Hin as (x & Hx & _); inversion Hx.
    - intros (x & Hx & Hin). apply filter_In in Hin as [Hin E]. left. exists x. rewrite E. split; assumption.
  Qed.
End Facts2.

Lemma legacy_merge_panics :
  Legacy.merge [mk_chunk 1001 4294967294 0 70 0 2; mk_chunk 1001 4294967295 1 70 1 2] = None /\
  merge [mk_chunk 1001 4294967294 0 70 0 2; mk_chunk 1001 4294967295 1 70 1 2]
  = [mk_chunk 1001 4294967294 0 70 0 2; mk_chunk 1001 4294967295 1 70 1 2].
Proof. vm_compute. split; reflexivity. Qed.

(* ================= a transport that sleeps only until the wake-up it was given ================= *)
(* histories in which no time passes unnoticed: time advances only inside Sleep, that is no further
   than the wake-up instant next_timeout returned *)
Definition timely (o : op) : Prop := match o with Advance t => t <= 0 | _ => True end.
(* the operations that begin with a call of next_timeout *)
Definition scans (o : op) : Prop := match o with Pump | Scan | Sleep _ => True | _ => False end.
(* no deadline has passed: every pending request's deadline is now or later *)
Definition Due (s : st) : Prop := Forall (fun x => now s <= e_deadline (snd x)) (pending s).

Lemma sleep_to_le nw lim p : Forall (fun x => sleep_to nw lim (next_wake (alive nw p)) <= e_deadline (snd x)) (alive nw p).
Proof.
  pose proof (next_wake_alive nw p) as H. destruct (next_wake (alive nw p)) as [w|]; [|rewrite H; constructor].
  destruct H as (_ & Hall & _). eapply Forall_impl; [|exact Hall]. cbn beta. intros x Hx. unfold sleep_to.
  destruct (lim <? 0); lia.
Qed.

Lemma sleep_to_ge nw lim p : nw <= sleep_to nw lim (next_wake (alive nw p)).
Proof.
  pose proof (next_wake_alive nw p) as H. unfold sleep_to. destruct (next_wake (alive nw p)) as [w|].
  - destruct H as (Hlt & _). destruct (Z.ltb_spec lim 0); lia.
  - destruct (Z.ltb_spec lim 0); lia.
Qed.

Lemma alive_due nw p : Forall (fun x => nw <= e_deadline (snd x)) (alive nw p).
Proof. apply Forall_forall. intros x Hx. apply alive_in in Hx. lia. Qed.

Section Facts3.
  Variable dec : list chunk -> Z + Z.
  Variable max_inflight max_pending : Z.
  Notation step := (step dec max_inflight max_pending).
  Notation exec := (exec dec max_inflight max_pending).

  Lemma due_init : Due init.
  Proof. constructor. Qed.

  Lemma step_due s o : timely o -> Due s -> Due (fst (fst (step s o))).
  Proof.
    unfold Due. intros Ht HD.
    assert (Hnil : forall lr id evs, Forall (fun x => now (set_closed s lr id evs) <= e_deadline (snd x)) (pending (set_closed s lr id evs)))
      by (intros; constructor).
    destruct o as [t kind| |rid sq kind mid part n| |cls|t|status| |lim]; cbn [step].
    - destruct (closed s); cbn [fst pending now]; exact HD.
    - destruct (closed s); [exact HD|].
      pose proof (alive_due (now s) (pending s)) as Ha.
      destruct (max_inflight >? Z.of_nat (length (alive (now s) (pending s)))); [|exact Ha].
      destruct (queue s) as [|[[k t] kind] q']; [exact Ha|].
      destruct (kind =? 2); cbn [fst]; [apply Hnil|]. cbn [pending now].
      apply Forall_app. split; [exact Ha|]. destruct (kind =? 1); constructor; [cbn; lia|constructor].
    - destruct (closed s); [exact HD|].
      destruct (find rid (pending s)) as [e|] eqn:Ef; [|exact HD].
      assert (Hrm : Forall (fun x => now s <= e_deadline (snd x)) (remove rid (pending s))) by (apply forall_remove; exact HD).
      destruct (kind =? 0).
      + destruct ((0 <? max_pending) && (max_pending <? Z.of_nat (length (e_chunks e ++ [mk_chunk rid sq kind mid part n]))));
          cbn [fst with_pending pending now]; [exact Hrm|].
        apply Forall_forall. intros x Hx. apply update_in in Hx as [Hx|[-> _]].
        * rewrite Forall_forall in HD. apply HD. exact Hx.
        * apply find_in in Ef. rewrite Forall_forall in HD. specialize (HD _ Ef). exact HD.
      + destruct (kind =? 1); [|exact Hrm].
        destruct (C12.Model.receive (last_recv s) chan (map to12 (merge (e_chunks e ++ [mk_chunk rid sq kind mid part n]))));
          cbn [fst]; try apply Hnil.
        destruct (dec (merge (e_chunks e ++ [mk_chunk rid sq kind mid part n]))); cbn [fst]; [exact Hrm|apply Hnil].
    - destruct (closed s); [exact HD|apply Hnil].
    - destruct (closed s); [exact HD|]. destruct (cls =? 0); [exact HD|apply Hnil].
    - cbn [timely] in Ht. cbn [fst pending now]. replace (now s + Z.max 0 t) with (now s) by lia. exact HD.
    - destruct (closed s); [exact HD|apply Hnil].
    - destruct (closed s); [exact HD|]. apply alive_due.
    - destruct (closed s); [exact HD|]. cbn [fst scanned pending now]. apply sleep_to_le.
  Qed.

  Lemma exec_due ops : forall s, Forall timely ops -> Due s -> Due (exec s ops).
  Proof.
    induction ops as [|o ops IH]; intros s Ht HD; [exact HD|]. inversion Ht; subst.
    cbn [Model.exec fold_left]. apply IH; [assumption|]. apply step_due; assumption.
  Qed.

  (* the clock never goes back *)
  Lemma step_now_mono s o : now s <= now (fst (fst (step s o))).
  Proof.
    destruct o as [t kind| |rid sq kind mid part n| |cls|t|status| |lim]; cbn [step].
    - destruct (closed s); cbn; lia.
    - destruct (closed s); [cbn; lia|].
      destruct (max_inflight >? Z.of_nat (length (alive (now s) (pending s)))); [|cbn; lia].
      destruct (queue s) as [|[[k t] kind] q']; [cbn; lia|]. destruct (kind =? 2); cbn; lia.
    - destruct (closed s); [cbn; lia|]. destruct (find rid (pending s)) as [e|]; [|cbn; lia].
      destruct (kind =? 0).
      { destruct ((0 <? max_pending) && (max_pending <? Z.of_nat (length (e_chunks e ++ [mk_chunk rid sq kind mid part n])))); cbn; lia. }
      destruct (kind =? 1); [|cbn; lia].
      destruct (C12.Model.receive (last_recv s) chan (map to12 (merge (e_chunks e ++ [mk_chunk rid sq kind mid part n])))); try (cbn; lia).
      destruct (dec (merge (e_chunks e ++ [mk_chunk rid sq kind mid part n]))); cbn; lia.
    - destruct (closed s); cbn; lia.
    - destruct (closed s); [cbn; lia|]. destruct (cls =? 0); cbn; lia.
    - cbn. lia.
    - destruct (closed s); cbn; lia.
    - destruct (closed s); cbn; lia.
    - destruct (closed s); [cbn; lia|]. cbn [fst scanned now]. apply sleep_to_ge.
  Qed.

  (* the events of an operation that scans contain the BadTimeout of exactly the expired requests *)
  Lemma scan_timeouts s o k : closed s = false -> scans o ->
    (In (k, 1, 2) (snd (step s o)) <-> In (k, 1, 2) (timeouts (now s) (pending s))).
  Proof.
    intros Hc Ho. destruct o; try destruct Ho.
    - apply pump_timeouts. exact Hc.
    - cbn [step]. rewrite Hc. reflexivity.
    - cbn [step]. rewrite Hc. reflexivity.
  Qed.

  (* in a state in which no deadline has passed, an operation that scans completes with BadTimeout
     exactly the pending requests whose deadline is this very instant *)
  Lemma timeout_on_time s o k : Due s -> closed s = false -> scans o ->
    (In (k, 1, 2) (snd (step s o)) <->
     exists rid e, In (rid, e) (pending s) /\ e_k e = k /\ e_deadline e = now s).
  Proof.
    intros HD Hc Ho. rewrite (scan_timeouts s o k Hc Ho), timeout_iff_deadline. split.
    - intros (rid & e & Hin & Hk & Hd). exists rid, e. repeat split; auto.
      unfold Due in HD. rewrite Forall_forall in HD. specialize (HD _ Hin). cbn in HD. lia.
    - intros (rid & e & Hin & Hk & Hd). exists rid, e. repeat split; auto. lia.
  Qed.

  (* ... and a response is delivered only to a request whose deadline has not passed *)
  Lemma response_in_time s o k m : Inv2 s -> Due s -> In (k, 0, m) (snd (step s o)) ->
    exists rid sq kind mid part n e,
      o = Chunk rid sq kind mid part n /\ find rid (pending s) = Some e /\ e_k e = k /\ now s <= e_deadline e.
  Proof.
    intros HJ HD Hin. destruct (response_provenance dec max_inflight max_pending s o k m HJ Hin)
      as (rid & sq & kind & mid & part & n & e & Ho & Hf & Hk & _).
    exists rid, sq, kind, mid, part, n, e. repeat split; auto.
    apply find_in in Hf. unfold Due in HD. rewrite Forall_forall in HD. exact (HD _ Hf).
  Qed.

  (* every submitted request, at any point of such a history: completed exactly once, or open exactly
     once - queued, or pending with its deadline not passed *)
  Lemma timely_ledger ops k : Forall timely ops -> In k (submitted (exec init ops)) ->
    (cnt (done_ks (exec init ops)) k = 1 /\ cnt (open (exec init ops)) k = 0)%nat \/
    ((cnt (done_ks (exec init ops)) k = 0 /\ cnt (open (exec init ops)) k = 1)%nat /\
     (In k (q_ks (queue (exec init ops))) \/
      exists rid e, In (rid, e) (pending (exec init ops)) /\ e_k e = k /\ now (exec init ops) <= e_deadline e)).
  Proof.
    intros Ht Hin. destruct (completed_or_open dec max_inflight max_pending ops k Hin) as [H|H]; [left; exact H|right].
    split; [exact H|]. destruct H as [_ H].
    assert (Hopen : In k (open (exec init ops))) by (apply cnt_in; lia).
    unfold open in Hopen. apply in_app_or in Hopen as [Hp|Hq]; [right|left; exact Hq].
    unfold pend_ks in Hp. apply in_map_iff in Hp as ([rid e] & Hk & Hx). exists rid, e. repeat split; auto.
    pose proof (exec_due ops init Ht due_init) as HD. unfold Due in HD. rewrite Forall_forall in HD. exact (HD _ Hx).
  Qed.

  (* ---------- an idle transport that sleeps until the wake-ups it is given completes everything ---------- *)
  Definition nap (s : st) : st := fst (fst (step s (Sleep (-1)))).
  Definition Ripe (s : st) : Prop :=
    pending s = [] \/ exists x, In x (pending s) /\ e_deadline (snd x) <= now s.

  Lemma nap_open s : closed s = false ->
    closed (nap s) = false /\ queue (nap s) = queue s /\ submitted (nap s) = submitted s /\
    pending (nap s) = alive (now s) (pending s) /\ Ripe (nap s).
  Proof.
    intros Hc. unfold nap, Ripe. cbn [step]. rewrite Hc. cbn [fst scanned closed queue submitted pending now].
    repeat split; auto.
    pose proof (next_wake_alive (now s) (pending s)) as H. destruct (next_wake (alive (now s) (pending s))) as [w|].
    - destruct H as (_ & _ & (x & Hx & Hd)). right. exists x. split; [exact Hx|]. cbn [sleep_to Z.ltb Z.compare]. lia.
    - left. exact H.
  Qed.

  Lemma filter_length_le {A} (f : A -> bool) l : (length (filter f l) <= length l)%nat.
  Proof. induction l as [|a l IH]; [cbn; lia|]. cbn [filter]. destruct (f a); cbn [length]; lia. Qed.

  Lemma filter_length_lt {A} (f : A -> bool) l x : In x l -> f x = false -> (length (filter f l) < length l)%nat.
  Proof.
    induction l as [|a l IH]; [intros []|]. intros [->|Hin] Hf; cbn [filter length].
    - rewrite Hf. pose proof (filter_length_le f l). lia.
    - specialize (IH Hin Hf). destruct (f a); cbn [length]; lia.
  Qed.

  Lemma exec_cons s o l : exec s (o :: l) = exec (fst (fst (step s o))) l.
  Proof. reflexivity. Qed.

  Lemma drain n : forall s, closed s = false -> Ripe s -> (length (pending s) <= n)%nat ->
    let s' := exec s (repeat (Sleep (-1)) n) in
    pending s' = [] /\ closed s' = false /\ queue s' = queue s /\ submitted s' = submitted s.
  Proof.
    induction n as [|n IH]; intros s Hc HR Hl.
    - cbn. repeat split; auto. destruct (pending s); [reflexivity|cbn in Hl; lia].
    - cbn [repeat]. rewrite exec_cons. fold (nap s). destruct (nap_open s Hc) as (Hc' & Hq & Hs & Hp & HR').
      assert (Hl' : (length (pending (nap s)) <= n)%nat).
      { rewrite Hp. destruct HR as [E|(x & Hx & Hd)]; [rewrite E; cbn; lia|].
        assert (length (alive (now s) (pending s)) < length (pending s))%nat; [|lia].
        apply (filter_length_lt _ _ x Hx). unfold expired. destruct (Z.leb_spec (e_deadline (snd x)) (now s)); [reflexivity|lia]. }
      destruct (IH (nap s) Hc' HR' Hl') as (A & B & C & D). cbv zeta. repeat split; auto; congruence.
  Qed.

  Lemma idle_drains s : closed s = false ->
    let s' := exec s (repeat (Sleep (-1)) (S (length (pending s)))) in
    pending s' = [] /\ closed s' = false /\ queue s' = queue s /\ submitted s' = submitted s.
  Proof.
    intros Hc. cbn [repeat]. rewrite exec_cons. fold (nap s). destruct (nap_open s Hc) as (Hc' & Hq & Hs & Hp & HR').
    assert (Hl : (length (pending (nap s)) <= length (pending s))%nat) by (rewrite Hp; apply filter_length_le).
    destruct (drain (length (pending s)) (nap s) Hc' HR' Hl) as (A & B & C & D). cbv zeta. repeat split; auto; congruence.
  Qed.
End Facts3.
