(* C37 — reconnect back-off (lib/src/client/retry.rs).

   Model of `ExponentialBackoff` as committed in /repo (after the fix: saturating
   arithmetic).  Durations are total nanoseconds in Z, 0 <= d <= DMAX where
   DMAX = Duration::MAX = (2^64-1) s + 999_999_999 ns.  u32 counters are Z with the
   saturation written in.  Every Rust operation that can panic is an explicit
   [Panic] outcome in [Legacy] (the pinned code before the fix). *)
From Coq Require Import List ZArith Bool Lia.
Import ListNotations.
Open Scope Z_scope.

Definition DMAX : Z := 2 ^ 64 * 10 ^ 9 - 1.
Definition U32MAX : Z := 2 ^ 32 - 1.

Record st := { max_sleep : Z; max_retries : option Z; cur : Z; count : Z }.

Definition limit_reached (s : st) : bool :=
  match max_retries s with Some m => m <=? count s | None => false end.

(* Duration::saturating_mul(2), u32::saturating_add(1) *)
Definition sat_mul2 (d : Z) : Z := Z.min DMAX (2 * d).
Definition sat_inc (c : Z) : Z := Z.min U32MAX (c + 1).

(* Iterator::next *)
Definition next (s : st) : option Z * st :=
  if limit_reached s then (None, s)
  else (Some (cur s),
        {| max_sleep := max_sleep s; max_retries := max_retries s;
           cur := Z.min (max_sleep s) (sat_mul2 (cur s));
           count := sat_inc (count s) |}).

Fixpoint take (n : nat) (s : st) : list Z :=
  match n with
  | O => []
  | S n' => let '(r, s') := next s in
            (match r with Some d => d | None => -1 end) :: take n' s'
  end.

(* the pinned code before the fix: `current_sleep * 2` and `retry_count += 1` panic on overflow
   (the second one in builds with overflow checks) *)
Module Legacy.
  Inductive outcome := Item (r : option Z) (s : st) | Panic.
  Definition next (s : st) : outcome :=
    if limit_reached s then Item None s
    else if DMAX <? 2 * cur s then Panic
    else if U32MAX <? count s + 1 then Panic
    else Item (Some (cur s))
              {| max_sleep := max_sleep s; max_retries := max_retries s;
                 cur := Z.min (max_sleep s) (2 * cur s); count := count s + 1 |}.
  Fixpoint take (n : nat) (s : st) : list Z :=
    match n with
    | O => []
    | S n' => match next s with
              | Panic => [-2]
              | Item r s' => (match r with Some d => d | None => -1 end) :: take n' s'
              end
    end.
End Legacy.

(* ---- correspondence interface ------------------------------------------------ *)
(* a case: policy (max sleep, optional retry limit, initial sleep), the number of delays already
   produced (hook `verif_backoff`), and how many calls of next() to observe *)
Record case := mk_case { c_max : Z; c_limit : option Z; c_init : Z; c_count0 : Z; c_n : Z }.

Definition init_state (c : case) : st :=
  {| max_sleep := c_max c; max_retries := c_limit c; cur := c_init c; count := c_count0 c |}.

(* output: one entry per call, the delay in ns, -1 for None, -2 for a panic (which ends the list) *)
Definition run (c : case) : list Z := take (Z.to_nat (c_n c)) (init_state c).

(* the specification, written independently of [next]: exact arithmetic, closed-form limit *)
Fixpoint delay (mx d0 : Z) (k : nat) : Z :=
  match k with O => d0 | S k' => Z.min mx (2 * delay mx d0 k') end.

Definition in_limit (c : case) (k : nat) : bool :=
  match c_limit c with Some m => c_count0 c + Z.of_nat k <? m | None => true end.

Definition spec_item (c : case) (k : nat) : Z :=
  if in_limit c k then delay (c_max c) (c_init c) k else -1.

Definition spec (c : case) : list Z := map (spec_item c) (seq 0 (Z.to_nat (c_n c))).

Fixpoint list_eqb (a b : list Z) : bool :=
  match a, b with
  | [], [] => true
  | x :: a', y :: b' => (x =? y) && list_eqb a' b'
  | _, _ => false
  end.

Definition oracle (c : case) (out : list Z) : bool := list_eqb out (spec c).

Definition known (c : case) : Z := 0.

Definition valid (c : case) : Prop :=
  0 <= c_max c <= DMAX /\ 0 <= c_init c <= DMAX /\ 0 <= c_count0 c <= U32MAX /\
  match c_limit c with Some m => 0 <= m <= U32MAX | None => True end.
