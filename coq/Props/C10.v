(* C10 — Memory held for an incomplete incoming message is bounded.  Statements only.

   [trace l s fs] is the model of the server's receive path (TcpCodec size check, process_chunk,
   process_final_chunk, validate_chunks; SecurityPolicy None) run on the frame history fs from
   state s under the limits l = (max_chunk_count, max_message_size), 0 meaning "no limit": one
   record (status, pending chunk count, pending bytes, codec buffer bytes) per frame processed.
   [within l p] says the pending list p respects both limits.  All theorems are for every limit
   pair, every reachable state and every frame history (induction). *)
From Coq Require Import List ZArith.
Import ListNotations.
From OV Require Import C10.Model C10.Proofs.
Open Scope Z_scope.

(* over any frame history, after every frame: |pending| <= max_chunk_count and total pending
   bytes <= max_message_size (each when non-zero) *)
Theorem C10_bounded : forall l, lim_ok l -> forall fs s, within l (pend s) ->
  forall r, In r (trace l s fs) ->
  (max_chunks l = 0 \/ rec_count r <= max_chunks l) /\ (max_size l = 0 \/ rec_bytes r <= max_size l).
Proof. exact bounded_everywhere. Qed.
Print Assumptions C10_bounded.

(* the invariant is inductive: one frame of any kind keeps the pending list within the limits *)
Theorem C10_step_invariant : forall l s f, lim_ok l -> within l (pend s) ->
  within l (pend (fst (step_gen true true l s f))).
Proof. exact step_within. Qed.
Print Assumptions C10_step_invariant.

(* a chunk that would exceed either limit gets an error and the connection is closed ... *)
Theorem C10_exceeding_is_refused : forall l s fin size seq dec, fin <> 2 ->
  (0 < max_chunks l /\ max_chunks l < pend_count (pend s) + 1) \/
  (0 < max_size l /\ max_size l < pend_bytes (pend s) + size) ->
  let '(s', status) := step_gen true true l s (Chunk fin size seq dec) in
  is_ok status = false /\ closed s' = true.
Proof. exact exceeding_is_refused. Qed.
Print Assumptions C10_exceeding_is_refused.

(* ... and nothing is processed after an error *)
Theorem C10_error_is_last : forall l fs s i r, nth_error (trace l s fs) i = Some r ->
  rec_status r <> S_OK -> length (trace l s fs) = S i.
Proof. intros l. exact (error_is_last true true l). Qed.
Print Assumptions C10_error_is_last.

(* a frame whose declared size (any value, up to u32::MAX and beyond) exceeds the maximum message
   size is refused by the codec as soon as its header is in, instead of being waited for; only the
   bytes that had already arrived are in the buffer, and the connection closes *)
Theorem C10_oversize_declared_refused : forall l s declared present,
  0 < max_size l -> max_size l < declared -> 8 < present ->
  step_gen true true l s (Partial declared present) =
  (mk_st (pend s) (last_seq s) true present, S_COMM).
Proof. exact oversize_declared_refused. Qed.
Print Assumptions C10_oversize_declared_refused.

Theorem C10_oracle : forall c, valid c -> known c = 0 -> oracle c (run c) = true.
Proof. intros c H _. apply oracle_trace. exact H. Qed.
Print Assumptions C10_oracle.

(* the code before "fix: server buffered an unbounded number of intermediate chunks":
   a fourth intermediate chunk is kept under a chunk limit of 3 ... *)
Theorem C10_legacy_transport_refuted :
  valid legacy_witness_transport /\
  render (Legacy.trace_transport (mk_lim 3 0) init (c_frames legacy_witness_transport)) =
    [0; 1; 40; 0;  0; 2; 80; 0;  0; 3; 120; 0;  0; 4; 160; 0;  -1; 0] /\
  oracle legacy_witness_transport
    (render (Legacy.trace_transport (mk_lim 3 0) init (c_frames legacy_witness_transport))) = false.
Proof. exact legacy_transport_refuted. Qed.
Print Assumptions C10_legacy_transport_refuted.

(* ... and in general n intermediate chunks leave n chunks pending, whatever max_chunk_count is *)
Theorem C10_legacy_unbounded : forall l sizes s,
  Forall (fun sz => HDR_SEC <= sz /\ (max_size l = 0 \/ sz <= max_size l)) sizes ->
  let fs := map (fun sz => Chunk 0 sz 0 false) sizes in
  let t := Legacy.trace_transport l s fs in
  length t = length sizes /\
  forall r, nth_error t (pred (length sizes)) = Some r -> (0 < length sizes)%nat ->
            rec_count r = pend_count (pend s) + Z.of_nat (length sizes).
Proof. exact legacy_unbounded. Qed.
Print Assumptions C10_legacy_unbounded.

(* the code before "fix: TCP codec waited to accumulate frames larger than the maximum message
   size": the header of a 1001-byte frame under a maximum of 1000 is waited on *)
Theorem C10_legacy_codec_refuted :
  valid legacy_witness_codec /\
  render (Legacy.trace_codec (mk_lim 5 1000) init (c_frames legacy_witness_codec)) = [1; 0; 0; 12; -1; 0] /\
  oracle legacy_witness_codec
    (render (Legacy.trace_codec (mk_lim 5 1000) init (c_frames legacy_witness_codec))) = false.
Proof. exact legacy_codec_refuted. Qed.
Print Assumptions C10_legacy_codec_refuted.
