(* C42 — JSON encoding of built-in types round-trips.  Statements only.

   Level: proof of the value <-> serde_json::Value tree mapping written in the repository (the
   hand-written and derived Serialize / Deserialize impls), for all values and unbounded nesting;
   the text layer (serde_json's printer / parser, number <-> decimal text) is an oracle, tied in by
   the correspondence run.  Partial in that sense only. *)
From Coq Require Import List ZArith Bool.
Import ListNotations.
From OV Require Import C42.Text C42.Flt C42.Model C42.TextLaws C42.DateLaws C42.StructLaws C42.Proofs C42.Oracle C42.Known2 C42.Canon.
Open Scope Z_scope.

(* Every in-scope built-in value (strings, byte strings, GUIDs, times with millisecond precision
   inside the OPC UA range, node ids with non-empty identifiers, expanded node ids, status codes,
   qualified names, localized texts, data values, variants nested to any depth, extension objects,
   diagnostic infos) outside the known classes has a JSON tree, and reading that tree gives the
   value back ([norm] replaces a NaN payload by the canonical NaN: JSON has only "NaN"). *)
Theorem C42_roundtrip : forall a, inscope a = true -> no_known a ->
  exists t, to_tree now a = Some t /\ of_tree now (fuel_for t) (kind a) t = Some (norm a).
Proof. exact value_rt. Qed.
Print Assumptions C42_roundtrip.

(* ... exactly the value when no NaN is inside *)
Theorem C42_roundtrip_exact : forall a, inscope a = true -> no_known a -> has_nan a = false ->
  exists t, to_tree now a = Some t /\ of_tree now (fuel_for t) (kind a) t = Some a.
Proof. exact value_rt_exact. Qed.
Print Assumptions C42_roundtrip_exact.

(* The known classes 1 and 2 described completely, so that nothing else can hide in them.
   EVERY in-scope value that holds no array — an ExpandedNodeId with a namespace uri AND a non-zero
   index included, at any nesting depth — has a JSON tree, and reading it gives the value back with
   exactly this change: the namespace index of every ExpandedNodeId that has a namespace uri is 0
   ([canon]; the JSON form has one Namespace field).  Outside class 2 [canon] is the identity. *)
Theorem C42_roundtrip_any : forall a, inscope a = true -> holds_array a = false ->
  exists t, to_tree now a = Some t /\ of_tree now (fuel_for t) (kind a) t = Some (norm (canon a)).
Proof. exact value_rt_any. Qed.
Print Assumptions C42_roundtrip_any.
Theorem C42_canon_is_identity_outside_class_2 : forall a, no_known a -> canon a = a.
Proof. exact canon_id. Qed.
Print Assumptions C42_canon_is_identity_outside_class_2.
Theorem C42_expanded_node_id_comes_back_canonical : forall x, xnodeid_ok x = true ->
  xnodeid_of now (Some (xnodeid_tree now x)) = Some (x_canon x).
Proof. exact xnodeid_rt_any. Qed.
Print Assumptions C42_expanded_node_id_comes_back_canonical.
(* ... and the serialiser panics on a value exactly when the value holds an array *)
Theorem C42_serialiser_panics_exactly_on_arrays : forall a, to_tree now a = None <-> holds_array a = true.
Proof. exact to_tree_panics_iff_array. Qed.
Print Assumptions C42_serialiser_panics_exactly_on_arrays.

(* Variant, by induction over the nesting: any amount of fuel above the depth works *)
Theorem C42_variant_any_depth : forall n v, (vdepth v <= n)%nat ->
  variant_ok v = true -> v_has_array v = false -> v_has_both v = false ->
  exists t, variant_tree now v = Some t /\ t <> TNull /\ variant_of now n (Some t) = Some (v_norm v).
Proof. exact variant_rt. Qed.
Print Assumptions C42_variant_any_depth.

(* null and empty (and any two different values of one type) never share a JSON form *)
Theorem C42_distinct_values_distinct_json : forall a b,
  inscope a = true -> inscope b = true -> no_known a -> no_known b -> kind a = kind b ->
  to_tree now a = to_tree now b -> norm a = norm b.
Proof. exact to_tree_injective. Qed.
Print Assumptions C42_distinct_values_distinct_json.

Theorem C42_null_is_not_empty :
  to_tree now (AString None) <> to_tree now (AString (Some [])) /\
  to_tree now (ABytes None) <> to_tree now (ABytes (Some [])) /\
  to_tree now (AVariant (VString None)) <> to_tree now (AVariant (VString (Some []))) /\
  to_tree now (AVariant (VXml None)) <> to_tree now (AVariant (VXml (Some []))) /\
  to_tree now (AVariant (VByteString None)) <> to_tree now (AVariant (VByteString (Some []))) /\
  to_tree now (ADiag (Diag None None None None None None None)) <>
    to_tree now (ADiag (Diag None None None None (Some None) None None)).
Proof. exact null_is_not_empty. Qed.
Print Assumptions C42_null_is_not_empty.

(* the text primitives the impls rely on, modelled in Gallina and proved to round-trip *)
Theorem C42_text_primitives :
  (forall z, I64MIN <= z <= I64MAX -> parse_int true I64MIN I64MAX (show_int z) = Some z) /\
  (forall z, 0 <= z <= U64MAX -> parse_int false 0 U64MAX (show_int z) = Some z) /\
  (forall bs, Forall byte bs -> b64_decode (b64_encode bs) = Some bs) /\
  (forall g, length g = 16%nat -> Forall byte g -> parse_guid (guid_text g) = Some g) /\
  (forall t, 0 <= t <= ENDTIMES_TICKS -> t mod TICKS_PER_MS = 0 -> parse_date (date_text t) = Some t).
Proof. exact text_primitives. Qed.
Print Assumptions C42_text_primitives.

(* outside the quantifier: a time with sub-millisecond digits loses them, a time outside
   [1601-01-01, 9999-12-31T23:59:59] is clipped to that range *)
Theorem C42_time_truncated_and_clipped : forall t, TICKS_Y1 <= t < TICKS_Y10000 ->
  parse_date (date_text t) =
  Some (let t' := t / TICKS_PER_MS * TICKS_PER_MS in
        if t' <? 0 then 0 else if ENDTIMES_TICKS <? t' then ENDTIMES_TICKS else t').
Proof. exact date_roundtrip_general. Qed.
Print Assumptions C42_time_truncated_and_clipped.

Theorem C42_oracle : forall c, valid c -> known c = 0 -> oracle c (run c) = true.
Proof. exact oracle_holds. Qed.
Print Assumptions C42_oracle.

(* known findings *)
Theorem C42_known_1_refuted : exists c, known c = 1 /\ valid c /\ oracle c (run c) = false.
Proof. exact known_1_refuted. Qed.
Print Assumptions C42_known_1_refuted.
Theorem C42_known_2_refuted : exists c, known c = 2 /\ valid c /\ oracle c (run c) = false.
Proof. exact known_2_refuted. Qed.
Print Assumptions C42_known_2_refuted.
Theorem C42_known_3_refuted : exists c, known c = 3 /\ valid c /\ oracle c (run c) = false.
Proof. exact known_3_refuted. Qed.
Print Assumptions C42_known_3_refuted.

(* the four repaired defects: the pre-fix code (Module Legacy) fails on an in-scope value outside
   every known class *)
Theorem C42_legacy_refuted_xuri : legacy_fails w_xuri.
Proof. exact legacy_refuted_xuri. Qed.
Print Assumptions C42_legacy_refuted_xuri.
Theorem C42_legacy_refuted_f32max : legacy_fails w_f32max.
Proof. exact legacy_refuted_f32max. Qed.
Print Assumptions C42_legacy_refuted_f32max.
Theorem C42_legacy_refuted_xmlnull : legacy_fails w_xmlnull.
Proof. exact legacy_refuted_xmlnull. Qed.
Print Assumptions C42_legacy_refuted_xmlnull.
Theorem C42_legacy_refuted_diagnull : legacy_fails w_diagnull.
Proof. exact legacy_refuted_diagnull. Qed.
Print Assumptions C42_legacy_refuted_diagnull.

(* the hypotheses are satisfiable by non-trivial values *)
Example C42_example_scope :
  let a := ADataValue (Some (VVariant (VXNodeId (XNodeId (NodeId 0 (IStr (Some [120]))) (Some [117]) 7))))
                      (DVRest (Some 2147549184) (Some 0) (Some 65535) (Some ENDTIMES_TICKS) None) in
  inscope a = true /\ no_known a /\ has_nan a = false /\ known (CVal a) = 0.
Proof. exact example_scope. Qed.
