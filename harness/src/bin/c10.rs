//! C10: memory held for an incomplete incoming message is bounded.
//! After a real HEL + OPN exchange (policy None) chunk frames are pushed through a real `TcpCodec`
//! into a socket-less server `TcpTransport` under configured limits; after every frame the number
//! and total size of the pending chunks (hook `verif_pending_chunks`) and the codec's buffered
//! bytes are read.
#[path = "../util.rs"]
mod util;
use util::*;
#[path = "../frame_common.rs"]
mod frame_common;
use frame_common::*;
use opcua::core::comms::chunker::Chunker;
use opcua::core::comms::message_chunk::{MessageChunkType, MessageIsFinalType};
use opcua::core::supported_message::SupportedMessage;
use opcua::server::comms::tcp_transport::VerifOutgoing;
use opcua::types::*;

#[derive(Clone, Debug)]
pub enum F { Chunk { fin: u8, size: usize, seq: u32, decodes: bool }, Partial { declared: u32, present: usize } }
pub struct Case { mc: usize, mms: usize, frames: Vec<F>, live: bool }
pub struct P;

thread_local! { static RIG: Rig = Rig::new("c10"); }

fn status_class(e: StatusCode) -> i128 {
    if e == StatusCode::BadTcpMessageTooLarge { 10 }
    else if e == StatusCode::BadDecodingError || e == StatusCode::BadUnexpectedError || e == StatusCode::BadServiceUnsupported { 11 }
    else if e == StatusCode::BadCommunicationError { 12 }
    else if e == StatusCode::BadSequenceNumberInvalid { 18 }
    else if e == StatusCode::BadSecurityChecksFailed { 19 }
    else { 29 }
}
const REQ: u32 = 7;
/// body of a GetEndpoints request (type id + fields) of exactly `len` bytes, if possible
fn request_body(cl: &Client, len: usize) -> Option<Vec<u8>> {
    let mk = |pad: usize| -> Vec<u8> {
        let m: SupportedMessage = GetEndpointsRequest { request_header: Client::header(3), endpoint_url: UAString::from("x".repeat(pad)), locale_ids: None, profile_uris: None }.into();
        let c = Chunker::encode(1, REQ, 0, 0, &cl.sc, &m).unwrap();
        c[0].data[24..].to_vec()
    };
    let base = mk(0).len();
    if len < base { None } else { let b = mk(len - base); assert_eq!(b.len(), len); Some(b) }
}
/// the bytes of every frame.  Bodies of a group of chunks ending in a final chunk that is declared
/// to decode are the pieces of one real request; everything else is 0xFF filler.
fn build(cl: &mut Client, c: &Case) -> Vec<Vec<u8>> {
    let n = c.frames.len();
    let mut bodies: Vec<Vec<u8>> = c.frames.iter().map(|f| match f { F::Chunk { size, .. } if *size >= 24 => vec![0xFF; size - 24], _ => vec![] }).collect();
    // mirror of the pending list to find the groups
    let mut pending: Vec<usize> = Vec::new();
    for i in 0..n {
        if let F::Chunk { fin, size, decodes, .. } = &c.frames[i] {
            if *fin == 2 { pending.clear(); continue; }
            if *size < 16 { break; }
            pending.push(i);
            if *fin == 1 {
                let ok = pending.iter().all(|j| matches!(c.frames[*j], F::Chunk { size, .. } if size >= 24));
                if *decodes && ok {
                    let total: usize = pending.iter().map(|j| bodies[*j].len()).sum();
                    if let Some(b) = request_body(cl, total) {
                        let mut at = 0;
                        for j in &pending { let l = bodies[*j].len(); bodies[*j] = b[at..at + l].to_vec(); at += l; }
                    }
                }
                pending.clear();
            }
        } else { break; }
    }
    (0..n).map(|i| match &c.frames[i] {
        F::Chunk { fin, size, seq, .. } => {
            let f = match fin { 0 => MessageIsFinalType::Intermediate, 1 => MessageIsFinalType::Final, _ => MessageIsFinalType::FinalError };
            if *size >= 24 { cl.raw_chunk(MessageChunkType::Message, f, *seq, REQ, &bodies[i]) }
            else {
                // shorter than the headers: chunk header + filler
                let mut v = b"MSG".to_vec(); v.push([b'C', b'F', b'A'][*fin as usize]);
                v.extend((*size as u32).to_le_bytes()); v.extend(cl.sc.secure_channel_id().to_le_bytes());
                v.extend(vec![0u8; size - 12]); v
            }
        }
        F::Partial { declared, present } => {
            let mut v = b"MSGF".to_vec(); v.extend(declared.to_le_bytes()); v.extend(cl.sc.secure_channel_id().to_le_bytes());
            v.resize(std::cmp::max(*present, 0), 0xEE); v.truncate(*present); v
        }
    }).collect()
}

fn run(c: &Case) -> Vec<i128> {
    RIG.with(|rig| {
        let mut conn = Conn::new(rig.transport(c.mms, c.mc));
        let mut cl = Client::new();
        // handshake
        let mut out = Vec::new();
        match conn.feed(&Client::hello(URL, 0, 65536, 65536)) { Step::Done(Ok(()), _) => {}, _ => return vec![-50] }
        match conn.feed(&cl.open(false, 0).1) {
            Step::Done(Ok(()), msgs) => for m in msgs { if let VerifOutgoing::Message(_, SupportedMessage::OpenSecureChannelResponse(r)) = m {
                cl.sc.set_secure_channel_id(r.security_token.channel_id); cl.sc.set_token_id(r.security_token.token_id); } },
            _ => return vec![-51],
        }
        let frames = build(&mut cl, c);
        let mut failed = false;
        let mut steps: Vec<(usize, i128, usize)> = Vec::new(); // (frame index, status, responses queued)
        for (i, (f, bytes)) in c.frames.iter().zip(frames.iter()).enumerate() {
            let step = match guarded(|| conn.feed(bytes)) { Ok(s) => s, Err(_) => { out.push(-2); break; } };
            let status = match &step { Step::NeedMore => 1, Step::Done(Ok(()), _) => 0, Step::Done(Err(e), _) => status_class(*e) };
            steps.push((i, status, match &step { Step::Done(_, m) => m.len(), _ => 0 }));
            let (n, b) = conn.t.verif_pending_chunks();
            out.extend([status, n as i128, b as i128, conn.buf.len() as i128]);
            if status > 1 { failed = true; }
            if status != 0 || matches!(f, F::Partial { .. }) { break; }
        }
        out.push(-1);
        out.push(if failed { 1 } else { 0 });
        if !failed { conn.t.finish_for_rig(); }
        // the same bytes against the real connection tasks over a loopback socket: a frame the
        // transport refused must make the server close the socket, an accepted request must be
        // answered, nothing else may be sent
        if c.live && !out.contains(&-2) {
            if let Some(mut lc) = LiveConn::connect(rig, c.mms, c.mc) {
                let mut cl2 = Client::new();
                let mut ok = lc.send(&Client::hello(URL, 0, 65536, 65536)) && lc.read_frame().map(|f| LiveConn::response_kind(&mut cl2, f)) == Some(1);
                ok = ok && lc.send(&cl2.open(false, 0).1) && lc.read_frame().map(|f| LiveConn::response_kind(&mut cl2, f)) == Some(2);
                let mut closed = false;
                for (i, status, nresp) in &steps {
                    if !ok { break; }
                    ok = lc.send(&frames[*i]);
                    for _ in 0..*nresp { ok = ok && lc.read_frame().is_some(); }
                    if *status > 1 { ok = ok && lc.expect_close(); closed = true; break; }
                }
                if ok && !closed { ok = lc.close_and_expect_close(); }
                lc.finish();
                if !ok { out.push(-98); }
            }
        }
        out
    })
}
trait FinishForRig { fn finish_for_rig(&mut self); }
impl FinishForRig for opcua::server::comms::tcp_transport::TcpTransport {
    fn finish_for_rig(&mut self) { use opcua::server::comms::transport::Transport; self.finish(StatusCode::Good); }
}

fn ch(fin: u8, size: usize, seq: u32, decodes: bool) -> F { F::Chunk { fin, size, seq, decodes } }

impl Property for P {
    type Case = Case;
    fn fixed(tier: &str) -> Vec<Case> {
        let mut v = vec![
            // a two-chunk and a one-chunk request, answered
            Case { mc: 5, mms: 1000, live: true, frames: vec![ch(0, 60, 2, true), ch(1, 80, 3, true), ch(1, 120, 4, true)] },
            // intermediate chunks for ever: the 4th exceeds a chunk limit of 3 (before the fix: buffered without end)
            Case { mc: 3, mms: 0, live: true, frames: (0..12).map(|i| ch(0, 40, 2 + i, false)).collect() },
            // exactly the limit is fine, final chunk as the third
            Case { mc: 3, mms: 0, live: true, frames: vec![ch(0, 60, 2, true), ch(0, 40, 3, true), ch(1, 60, 4, true), ch(0, 30, 5, false)] },
            // bytes: 4 x 120 = 480 > 400
            Case { mc: 0, mms: 400, live: true, frames: (0..8).map(|i| ch(0, 120, 2 + i, false)).collect() },
            // exactly the byte limit, then one more
            Case { mc: 0, mms: 400, live: true, frames: vec![ch(0, 200, 2, false), ch(0, 200, 3, false), ch(0, 24, 4, false)] },
            // no limits configured: nothing is refused
            Case { mc: 0, mms: 0, live: true, frames: (0..30).map(|i| ch(0, 30, 2 + i, false)).collect() },
            // abort discards, then a fresh message
            Case { mc: 2, mms: 0, live: true, frames: vec![ch(0, 40, 2, false), ch(0, 40, 3, false), ch(2, 30, 4, false), ch(0, 40, 5, true), ch(1, 90, 6, true)] },
            // declared frame size above the maximum, only the header present (before the fix: waited)
            Case { mc: 5, mms: 1000, live: true, frames: vec![F::Partial { declared: 1001, present: 12 }] },
            Case { mc: 5, mms: 1000, live: true, frames: vec![F::Partial { declared: u32::MAX, present: 9 }] },
            Case { mc: 5, mms: 1000, live: true, frames: vec![ch(0, 100, 2, false), F::Partial { declared: 1000, present: 500 }] },
            Case { mc: 5, mms: 0, live: true, frames: vec![F::Partial { declared: u32::MAX, present: 40 }] },
            Case { mc: 5, mms: 1000, live: true, frames: vec![F::Partial { declared: 5000, present: 8 }] },
            // a complete frame above the maximum
            Case { mc: 5, mms: 300, live: true, frames: vec![ch(0, 301, 2, false)] },
            // malformed chunks
            Case { mc: 5, mms: 1000, live: true, frames: vec![ch(0, 14, 2, false)] },
            Case { mc: 5, mms: 1000, live: true, frames: vec![ch(0, 20, 2, false), ch(1, 60, 3, false)] },
            Case { mc: 5, mms: 1000, live: true, frames: vec![ch(0, 40, 2, false), ch(1, 20, 3, false)] },
            Case { mc: 5, mms: 1000, live: true, frames: vec![ch(0, 60, 2, true), ch(1, 80, 4, true)] },     // gap in the sequence numbers
            Case { mc: 5, mms: 1000, live: true, frames: vec![ch(1, 100, 1, true)] },                          // replayed sequence number
            Case { mc: 5, mms: 1000, live: true, frames: vec![ch(1, 100, 9, true), ch(1, 100, 10, true), ch(1, 100, 10, true)] },
            Case { mc: 5, mms: 1000, live: true, frames: vec![ch(1, 100, 2, false), ch(1, 100, 3, true)] },    // body does not decode
            Case { mc: 1, mms: 0, live: true, frames: vec![ch(1, 100, 2, true), ch(0, 50, 3, true), ch(1, 50, 4, true)] },
        ];
        if tier == "thorough" {
            // every flag sequence of length <= 6 over {C, F, A}: 40-byte chunks under a chunk limit of 2,
            // and 100-byte chunks under limits of 3 chunks / 250 bytes (the byte limit bites first)
            for (mc, mms, size) in [(2usize, 0usize, 40usize), (3, 250, 100)] {
                for len in 1..=6u32 { for code in 0..3u32.pow(len) {
                    let mut k = code; let mut fr = Vec::new();
                    for i in 0..len { fr.push(ch((k % 3) as u8, size, 2 + i, false)); k /= 3; }
                    v.push(Case { mc, mms, frames: fr, live: false });
                } }
            }
        }
        v
    }
    fn gen(r: &mut Rng) -> Case {
        let mc = *r.pick(&[0usize, 1, 2, 3, 5, 8]);
        let mms = *r.pick(&[0usize, 200, 300, 500, 1000]);
        let n = 1 + r.below(16) as usize;
        let mut frames = Vec::new();
        let mut seq = 2u32;
        let style = r.below(4);
        let mut group_len = 0usize; let mut group_bytes = 0usize;
        for i in 0..n {
            if i == n - 1 && r.chance(1, 8) {
                let declared = match r.below(4) { 0 => u32::MAX, 1 => mms as u32 + 1, 2 => mms as u32, _ => 50 + r.below(3000) as u32 };
                let present = match r.below(3) { 0 => 8, 1 => 9 + r.below(4) as usize, _ => r.below(std::cmp::min(declared as u64, 400)) as usize };
                if (present as u32) < declared { frames.push(F::Partial { declared, present }); continue; }
            }
            let fin = match style { 0 => 0, 1 => if r.chance(1, 3) { 1 } else { 0 }, _ => *r.pick(&[0u8, 0, 0, 1, 1, 2]) };
            let size = match r.below(12) { 0 => 12 + r.below(12) as usize, 1 => mms.max(24) + r.below(2) as usize, _ => 24 + r.below(150) as usize };
            let s = if r.chance(1, 15) { (seq as i64 + r.range(-2, 2)).max(0) as u32 } else { seq };
            // a final chunk decodes when the group can hold a request and we want it to
            group_len += 1; group_bytes += size.saturating_sub(24);
            let decodes = fin == 1 && group_bytes >= 80 && !r.chance(1, 6);
            frames.push(ch(fin, size, s, decodes));
            if fin != 0 { group_len = 0; group_bytes = 0; }
            let _ = group_len;
            seq += 1;
        }
        Case { mc, mms, frames, live: r.chance(1, 10) }
    }
    fn exec(c: &Case) -> Out {
        let out = run(c);
        let last = if out.len() >= 6 { out[out.len() - 6] } else { -9 };
        let tag = format!("mc{}-mms{}-{}-{}", if c.mc == 0 { "off" } else { "on" }, if c.mms == 0 { "off" } else { "on" },
            match last { 0 => "ok", 1 => "waiting", 10 => "toolarge", 11 => "malformed", 12 => "comm", 18 => "seq", 19 => "security", _ => "other" },
            if c.frames.len() > 6 { "long" } else { "short" });
        let term = format!("(mk_case {} {} {})", c.mc, c.mms, coq_list(&c.frames, |f| match f {
            F::Chunk { fin, size, seq, decodes } => format!("(Chunk {} {} {} {})", fin, size, seq, coq_bool(*decodes)),
            F::Partial { declared, present } => format!("(Partial {} {})", declared, present),
        }));
        Out { tag, term, out }
    }
}
fn main() { run_main::<P>() }
