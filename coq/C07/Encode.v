(* Chunker::encode: partition, numbering, final flag; the body budget keeps every secured chunk
   within max_chunk_size; validate_chunks and decode accept what encode produced. *)
From Coq Require Import List ZArith Bool Lia.
Import ListNotations.
From OV Require Import C07.Chan C07.Lemmas C07.ChanProofs C07.RoundTrip.
Open Scope Z_scope.

Ltac Zify.zify_post_hook ::= Z.div_mod_to_equations.

(* ---------------- data.chunks(k) ---------------- *)
Lemma chunks_f_concat k : 1 <= k -> forall fuel l, (length l <= fuel)%nat -> concat (chunks_f fuel k l) = l.
Proof.
  intros Hk. induction fuel as [|f IH]; intros l Hl.
  - destruct l; [reflexivity|cbn in Hl; lia].
  - destruct l as [|x l']; [reflexivity|]. set (l := x :: l') in *.
    change (chunks_f (S f) k l) with (take k l :: chunks_f f k (drop k l)).
    cbn [concat]. rewrite IH; [apply take_drop|].
    assert (1 <= len l) by (unfold l; rewrite len_cons; pose proof (len_nonneg l'); lia).
    destruct (Z.le_gt_cases (len l) k).
    + rewrite drop_all by lia. cbn. lia.
    + assert (len (drop k l) = len l - k) by (apply len_drop; lia). unfold len in *. cbn [length] in *. lia.
Qed.
Lemma chunks_of_concat k l : 1 <= k -> concat (chunks_of k l) = l.
Proof. intro Hk. apply chunks_f_concat; [exact Hk|lia]. Qed.

Lemma chunks_f_parts k : 1 <= k -> forall fuel l, Forall (fun p => 1 <= len p <= k) (chunks_f fuel k l).
Proof.
  intros Hk. induction fuel as [|f IH]; intros l; [constructor|].
  destruct l as [|x l']; [constructor|]. set (l := x :: l').
  change (chunks_f (S f) k l) with (take k l :: chunks_f f k (drop k l)).
  constructor; [|apply IH].
  assert (1 <= len l) by (unfold l; rewrite len_cons; pose proof (len_nonneg l'); lia).
  destruct (Z.le_gt_cases (len l) k).
  - rewrite take_all by lia. lia.
  - rewrite len_take by lia. lia.
Qed.
Lemma chunks_of_parts k l : 1 <= k -> Forall (fun p => 1 <= len p <= k) (chunks_of k l).
Proof. intro Hk. apply chunks_f_parts. exact Hk. Qed.

Lemma chunks_of_nonempty k l : l <> [] -> chunks_of k l <> [].
Proof. unfold chunks_of. destruct l; [congruence|]. cbn. discriminate. Qed.

Lemma len_concat_ge (parts : list bytes) : Forall (fun p => 1 <= len p) parts -> Z.of_nat (length parts) <= len (concat parts).
Proof.
  induction 1 as [|p ps Hp _ IH]; cbn [concat length]; [rewrite len_nil; lia|].
  rewrite len_app. lia.
Qed.

(* ---------------- numbering ---------------- *)
Fixpoint mk_chunks (s : sender) (t : mtype) (seq req : Z) (parts : list bytes) : list bytes :=
  match parts with
  | [] => []
  | b :: rest => new_chunk s t (match rest with [] => 1 | _ => 0 end) seq req b :: mk_chunks s t (seq + 1) req rest
  end.

Lemma number_chunks_ok s t req : forall parts seq, 0 <= seq -> seq + Z.of_nat (length parts) <= U32 ->
  number_chunks s t seq req parts = Ok (mk_chunks s t seq req parts).
Proof.
  induction parts as [|b rest IH]; intros seq H0 H; [reflexivity|].
  cbn [number_chunks mk_chunks]. cbn [length] in H.
  destruct (Z.leb_spec U32 seq); [lia|]. rewrite IH by lia. reflexivity.
Qed.

Lemma mk_chunks_length s t seq req parts : length (mk_chunks s t seq req parts) = length parts.
Proof. revert seq. induction parts; intro seq; cbn; [reflexivity|]. rewrite IHparts. reflexivity. Qed.

(* the i-th chunk *)
Lemma mk_chunks_nth s t req : forall parts seq i b, nth_error parts i = Some b ->
  nth_error (mk_chunks s t seq req parts) i =
  Some (new_chunk s t (if Nat.eqb (S i) (length parts) then 1 else 0) (seq + Z.of_nat i) req b).
Proof.
  induction parts as [|p rest IH]; intros seq i b H; [destruct i; discriminate|].
  destruct i as [|i].
  - cbn in H. injection H as <-. cbn [mk_chunks nth_error length]. rewrite Z.add_0_r.
    destruct rest; reflexivity.
  - cbn [nth_error] in H. cbn [mk_chunks nth_error length]. rewrite (IH _ _ _ H).
    replace (seq + 1 + Z.of_nat i) with (seq + Z.of_nat (S i)) by lia. reflexivity.
Qed.

(* ---------------- the body budget ---------------- *)
Lemma sym_pad_bounds ss b : 1 <= sym_pad ss b <= 16.
Proof.
  unfold sym_pad. cbn zeta. destruct (Z.eqb_spec ((8 + b + ss + 1) mod 16) 0); [lia|].
  pose proof (Z.mod_pos_bound (8 + b + ss + 1) 16 ltac:(lia)). lia.
Qed.

Section Budget.
  Variable P : prims.
  Variable fx : fixes.
  Hypothesis Hfx1 : fx_pad_sign fx = true.
  Hypothesis Hfx2 : fx_budget fx = true.
  Hypothesis Hfx3 : fx_opn_budget fx = true.
  Variables (S : sender) (R : receiver).
  Hypothesis L : link P S R.
  Variable t : mtype.

  Lemma budget_ok max : src_min_chunk <= max ->
    exists k, body_budget fx S t max = Ok k /\ 1 <= k /\ forall b, 0 <= b <= k -> secured_size S t b <= max.
  Proof.
    intro Hmax. change src_min_chunk with 8196 in Hmax.
    pose proof (len_sh P S R L t 0 0 0 []) as Hsh.
    unfold body_budget. change src_min_chunk with 8196. change src_chunk_header with 12.
    destruct (Z.ltb_spec max 8196); [lia|].
    set (hs := 12 + len (sec_header S t)).
    destruct (lk_combo _ _ _ L) as [[Hn Hm]|[Hp Hm]].
    - (* policy None *)
      assert (Hpad : padding_size fx S t 1 (signature_size S t) = Some (0, 0)) by (unfold padding_size; rewrite Hn; reflexivity).
      assert (Hsig : signature_size S t = 0) by (unfold signature_size; rewrite Hn; destruct t; reflexivity).
      rewrite Hpad, Hsig. cbn [Z.ltb Z.compare andb]. rewrite !andb_false_r.
      destruct (Z.ltb_spec max (hs + 8 + 0 + 0)); [unfold hs in *; lia|].
      eexists. split; [reflexivity|]. split; [unfold hs; lia|].
      intros b Hb. unfold secured_size, secured. rewrite Hn. cbn [is_none negb andb]. fold hs. lia.
    - pose proof (is_none_S S Hp) as Hin. pose proof (secured_S P S R L Hp) as Hsec.
      pose proof (sym_sig_vals _ Hp) as [Hss Hblk].
      assert (Hd : t = OPN \/ t <> OPN) by (destruct t; [right|left|right]; congruence).
      destruct Hd as [Ht|Ht].
      + (* asymmetric *)
        destruct (lk_ks _ _ _ L) as [K1 K2].
        pose proof (rsa_geometry _ _ Hp K2) as (G1 & G2 & G3 & G4). pose proof (rsa_geometry _ _ Hp K1) as (G5 & _).
        set (rks := s_rks S) in *. set (sks := s_ks S) in *. set (pbs := rsa_plain_block (s_policy S) rks) in *.
        assert (Hsig : signature_size S t = sks) by (unfold signature_size; rewrite Ht, Hin; reflexivity).
        rewrite Hsig.
        set (mp := min_padding rks).
        assert (Hmp : mp = 1 \/ mp = 2) by (unfold mp, min_padding; destruct (rks <=? 256); lia).
        assert (Hpad : exists p, padding_size fx S t 1 sks = Some (p, mp) /\ 1 <= p).
        { unfold padding_size. rewrite Hin. cbn [orb].
          replace (mode_eqb (s_mode S) MNone) with false by (destruct Hm as [E|E]; rewrite E; reflexivity).
          rewrite Ht. fold rks pbs. destruct (Z.leb_spec pbs 0); [lia|]. fold mp.
          eexists. split; [reflexivity|].
          destruct ((8 + 1 + sks + mp) mod pbs =? 0); [lia|].
          pose proof (Z.mod_pos_bound (8 + 1 + sks + mp) pbs ltac:(lia)). lia. }
        destruct Hpad as (p & Hpad & Hp1). rewrite Hpad.
        replace (match t with OPN => negb (is_none (s_policy S)) | _ => false end) with true by (rewrite Ht, Hin; reflexivity).
        rewrite Hfx3. cbn [negb andb].
        destruct (Z.ltb_spec 0 p); [|lia]. fold rks pbs.
        rewrite Z.min_l by (unfold hs; lia).
        set (blocks := (max - hs) / rks).
        assert (Hb1 : blocks * rks <= max - hs < blocks * rks + rks).
        { unfold blocks. pose proof (Z.div_mod (max - hs) rks ltac:(lia)). pose proof (Z.mod_pos_bound (max - hs) rks ltac:(lia)). lia. }
        assert (Hb0 : 0 <= blocks) by (unfold blocks; apply Z.div_pos; unfold hs; lia).
        assert (Hroom : 2 * (max - hs - rks) < 3 * (blocks * pbs)) by nia.
        destruct (Z.leb_spec (blocks * pbs) (8 + sks + mp)); [unfold hs in *; lia|].
        eexists. split; [reflexivity|]. split; [lia|].
        intros b Hb. unfold secured_size. rewrite Hsec. rewrite Ht at 1. fold hs rks sks pbs.
        unfold asym_pad. fold pbs mp. cbn zeta.
        set (es := 8 + b + sks + mp).
        pose proof (padding_block pbs es ltac:(lia) ltac:(unfold es; lia)) as [E1 E2]. cbn zeta in E1, E2.
        set (ps := if es mod pbs =? 0 then 0 else pbs - es mod pbs) in *.
        replace (8 + b + (mp + ps) + sks) with (es + ps) by (unfold es; lia).
        unfold cipher_text_size. rewrite E1. cbn [Z.eqb].
        (* es + ps is a multiple of pbs below (blocks + 1) * pbs *)
        assert (Hq : es + ps = (es + ps) / pbs * pbs) by (pose proof (Z.div_mod (es + ps) pbs ltac:(lia)); lia).
        assert (Hlt : (es + ps) / pbs <= blocks) by nia.
        nia.
      + (* symmetric *)
        assert (Hsig : signature_size S t = src_sym_sig (s_policy S)) by (unfold signature_size; destruct t; congruence).
        rewrite Hsig. set (ss := src_sym_sig (s_policy S)) in *.
        assert (Hasym : (match t with OPN => negb (is_none (s_policy S)) | _ => false end) = false) by (destruct t; congruence).
        rewrite Hasym. cbn [andb].
        destruct Hm as [Hm|Hm].
        * assert (Hpad : padding_size fx S t 1 ss = Some (0, 0)).
          { unfold padding_size. rewrite Hin, Hm, Hfx1. destruct t; try congruence; reflexivity. }
          rewrite Hpad. cbn [Z.ltb Z.compare].
          destruct (Z.ltb_spec max (hs + 8 + 0 + ss)); [unfold hs in *; lia|].
          eexists. split; [reflexivity|]. split; [unfold hs; lia|].
          intros b Hb. unfold secured_size. rewrite Hsec, Hm. fold hs ss. destruct t; try congruence; lia.
        * assert (Hpad : exists p, padding_size fx S t 1 ss = Some (p, 1) /\ 1 <= p).
          { unfold padding_size. rewrite Hin, Hm. cbn [mode_eqb orb negb].
            replace (match t with OPN => false | _ => fx_pad_sign fx && false end) with false by (destruct t; rewrite ?andb_false_r; reflexivity).
            replace (match t with OPN => (rsa_plain_block (s_policy S) (s_rks S), s_rks S) | _ => (src_sym_block (s_policy S), ss) end)
              with (16, ss) by (destruct t; try congruence; rewrite Hblk; reflexivity).
            cbn [Z.leb Z.compare]. unfold min_padding. destruct (Z.leb_spec ss 256); [|lia].
            eexists. split; [reflexivity|]. destruct ((8 + 1 + ss + 1) mod 16 =? 0); [lia|].
            pose proof (Z.mod_pos_bound (8 + 1 + ss + 1) 16 ltac:(lia)). lia. }
          destruct Hpad as (p & Hpad & Hp1). rewrite Hpad. destruct (Z.ltb_spec 0 p); [|lia].
          rewrite Hfx2, Hblk.
          destruct (Z.ltb_spec max (hs + 8 + (1 + 16 - 1) + ss)); [unfold hs in *; lia|].
          eexists. split; [reflexivity|]. split; [unfold hs; lia|].
          intros b Hb. unfold secured_size. rewrite Hsec, Hm. fold hs ss. pose proof (sym_pad_bounds ss b).
          destruct t; try congruence; lia.
  Qed.
End Budget.

(* ---------------- validate_chunks and decode accept what encode produced ---------------- *)
Section Pipeline.
  Variable P : prims.
  Variable fx : fixes.
  Hypothesis Hfx1 : fx_pad_sign fx = true.
  Hypothesis Hfx2 : fx_budget fx = true.
  Hypothesis Hfx3 : fx_opn_budget fx = true.
  Variables (S : sender) (R : receiver).
  Hypothesis L : link P S R.
  Variable t : mtype.
  Variable req : Z.
  Hypothesis Hreq : 0 <= req < U32.

  Definition small (p : bytes) : Prop := len p <= 1073741824.

  Lemma fin_ok (rest : list bytes) : let f := match rest with [] => 1 | _ => 0 end in f = 0 \/ f = 1 \/ f = 2.
  Proof. destruct rest; cbn; lia. Qed.

  Lemma decode_bodies_mk : forall parts seq, 0 <= seq -> seq + Z.of_nat (length parts) <= U32 -> Forall small parts ->
    decode_bodies P R (mk_chunks S t seq req parts) = Ok (concat parts).
  Proof.
    induction parts as [|b rest IH]; intros seq H0 Hn Hs; [reflexivity|].
    cbn [length] in Hn. inversion Hs as [|? ? Hb Hrest]; subst.
    cbn [mk_chunks decode_bodies].
    rewrite (chunk_info_plain P S R L t _ seq req b (fin_ok rest) ltac:(lia) Hreq Hb).
    cbn [bind i_hdr h_final i_body].
    replace (match mk_chunks S t (seq + 1) req rest with [] => 1 | _ => 0 end) with (match rest with [] => 1 | _ => 0 end)
      by (destruct rest; reflexivity).
    rewrite Z.eqb_refl. cbn [negb]. rewrite IH by (try assumption; lia). reflexivity.
  Qed.

  Lemma validate_from_mk : forall parts first i req0, 0 <= first -> 0 <= i ->
    first + i + Z.of_nat (length parts) <= U32 -> (i = 0 \/ req0 = req) -> Forall small parts ->
    validate_from P fx R first i req0 (mk_chunks S t (first + i) req parts) = Ok tt.
  Proof.
    induction parts as [|b rest IH]; intros first i req0 H0 Hi Hn Hr Hs; [reflexivity|].
    cbn [length] in Hn. inversion Hs as [|? ? Hb Hrest]; subst.
    cbn [mk_chunks validate_from].
    rewrite (chunk_info_plain P S R L t _ (first + i) req b (fin_ok rest) ltac:(lia) Hreq Hb).
    cbn [bind i_hdr h_chan i_seq i_req].
    assert (Hc : negb (r_chan R =? 0) && negb (s_chan S =? r_chan R) = false).
    { destruct (lk_rchan _ _ _ L) as [E|E]; rewrite E; [rewrite Z.eqb_refl, andb_false_r|]; reflexivity. }
    rewrite Hc. destruct (Z.leb_spec U32 (first + i)); [lia|].
    rewrite Z.eqb_refl. cbn [negb].
    assert (Hq : negb (i =? 0) && negb (req =? req0) = false).
    { destruct Hr as [E|E]; [rewrite E; reflexivity|]. rewrite E, Z.eqb_refl, andb_false_r. reflexivity. }
    rewrite Hq. replace (first + i + 1) with (first + (i + 1)) by lia.
    apply IH; try assumption; try lia. right. destruct (Z.eqb_spec i 0); [reflexivity|].
    destruct Hr; [contradiction|assumption].
  Qed.

  Lemma validate_mk parts seq : parts <> [] -> 0 <= seq -> seq + Z.of_nat (length parts) < U32 -> Forall small parts ->
    validate_chunks P fx R seq (mk_chunks S t seq req parts) = Ok (seq + Z.of_nat (length parts) - 1).
  Proof.
    intros Hne H0 Hn Hs. destruct parts as [|b rest]; [congruence|].
    pose proof (validate_from_mk (b :: rest) seq 0 0 H0 ltac:(lia) ltac:(lia) (or_introl eq_refl) Hs) as Hv.
    rewrite Z.add_0_r in Hv.
    unfold validate_chunks. rewrite mk_chunks_length.
    remember (mk_chunks S t seq req (b :: rest)) as cs eqn:Ecs.
    cbn [mk_chunks] in Ecs. rewrite Ecs at 1.
    assert (Hb : small b) by (inversion Hs; assumption).
    cbn [length] in Hn.
    rewrite (chunk_info_plain P S R L t _ seq req b (fin_ok rest) ltac:(lia) Hreq Hb).
    cbn [bind i_seq]. destruct (Z.ltb_spec seq seq); [lia|].
    rewrite Hv. cbn [bind]. destruct (Z.leb_spec U32 (seq + Z.of_nat (length (b :: rest)))); [cbn [length] in *; lia|].
    reflexivity.
  Qed.

  (* Chunker::encode followed by validate_chunks and decode on the receiving side *)
  Theorem encode_ok seq max data :
    data <> [] -> len data <= 1073741824 -> 0 <= seq -> seq + len data < U32 -> (max = 0 \/ src_min_chunk <= max) ->
    exists parts,
      encode fx S t seq req max data = Ok (mk_chunks S t seq req parts) /\
      parts <> [] /\ concat parts = data /\ Forall small parts /\
      seq + Z.of_nat (length parts) < U32 /\
      (0 < max -> Forall (fun p => secured_size S t (len p) <= max) parts) /\
      validate_chunks P fx R seq (mk_chunks S t seq req parts) = Ok (seq + Z.of_nat (length parts) - 1) /\
      decode P R (mk_chunks S t seq req parts) = Ok data.
  Proof.
    intros Hne Hlen H0 Hseq Hmax.
    assert (Hdec : forall parts, parts <> [] -> 0 <= seq -> seq + Z.of_nat (length parts) < U32 -> Forall small parts ->
              decode P R (mk_chunks S t seq req parts) = Ok (concat parts)).
    { intros parts Hp _ Hn Hs. unfold decode. destruct parts as [|b rest]; [congruence|].
      remember (b :: rest) as ps. destruct (mk_chunks S t seq req ps) eqn:E.
      - subst ps. discriminate.
      - rewrite <- E. apply decode_bodies_mk; try assumption; lia. }
    destruct Hmax as [Hm|Hm].
    - (* no limit: one chunk *)
      exists [data]. unfold encode. rewrite Hm. cbn [Z.ltb Z.compare mk_chunks].
      assert (Hs : Forall small [data]) by (constructor; [exact Hlen|constructor]).
      assert (Hl1 : 1 <= len data) by (destruct data; [congruence|rewrite len_cons; pose proof (len_nonneg data); lia]).
      split; [reflexivity|]. split; [discriminate|]. split; [cbn; apply app_nil_r|]. split; [exact Hs|].
      split; [cbn [length]; lia|]. split; [intro; lia|]. split.
      + change [new_chunk S t 1 seq req data] with (mk_chunks S t seq req [data]).
        apply (validate_mk [data]); try assumption; try discriminate. cbn [length]. lia.
      + change [new_chunk S t 1 seq req data] with (mk_chunks S t seq req [data]).
        rewrite (Hdec [data]); try assumption; try discriminate; [cbn; rewrite app_nil_r; reflexivity|cbn [length]; lia].
    - destruct (budget_ok P fx Hfx1 Hfx2 Hfx3 S R L t max Hm) as (k & Hk & Hk1 & Hsz).
      exists (chunks_of k data). unfold encode. change src_min_chunk with 8196 in Hm.
      destruct (Z.ltb_spec 0 max); [|lia]. rewrite Hk.
      destruct (Z.eqb_spec k 0); [lia|].
      pose proof (chunks_of_parts k data Hk1) as Hparts. pose proof (chunks_of_concat k data Hk1) as Hcat.
      assert (Hn : Z.of_nat (length (chunks_of k data)) <= len data).
      { rewrite <- Hcat at 2. apply len_concat_ge. eapply Forall_impl; [|exact Hparts]. cbn. intros; lia. }
      assert (Hs : Forall small (chunks_of k data)).
      { rewrite Forall_forall. intros p Hin. unfold small.
        assert (len p <= len (concat (chunks_of k data))).
        { clear - Hin. induction (chunks_of k data) as [|q qs IH]; [contradiction|].
          cbn [concat]. rewrite len_app. destruct Hin as [->|Hin]; [pose proof (len_nonneg (concat qs)); lia|].
          specialize (IH Hin). pose proof (len_nonneg q). lia. }
        rewrite Hcat in *. lia. }
      rewrite number_chunks_ok by lia.
      split; [reflexivity|]. split; [apply chunks_of_nonempty; exact Hne|]. split; [exact Hcat|]. split; [exact Hs|].
      split; [lia|]. split.
      { intros _. eapply Forall_impl; [|exact Hparts]. cbn. intros p Hp. apply Hsz. pose proof (len_nonneg p). lia. }
      split.
      + apply validate_mk; try assumption; [apply chunks_of_nonempty; exact Hne|lia].
      + rewrite Hdec; try assumption; [rewrite Hcat; reflexivity|apply chunks_of_nonempty; exact Hne|lia].
  Qed.
End Pipeline.

(* ---------------- the whole path ---------------- *)
Theorem end_to_end (P : prims) (fx : fixes) :
  fx_pad_sign fx = true -> fx_budget fx = true -> fx_opn_budget fx = true ->
  forall (S : sender) (R : receiver), link P S R ->
  forall (t : mtype) (req seq max : Z) (data : bytes),
  0 <= req < U32 -> data <> [] -> len data <= 1073741824 -> 0 <= seq -> seq + len data < U32 ->
  (max = 0 \/ src_min_chunk <= max) ->
  exists parts,
    let cs := mk_chunks S t seq req parts in
    encode fx S t seq req max data = Ok cs /\ parts <> [] /\ concat parts = data /\
    (* the i-th chunk: sequence number, request id, final flag, and its trip through the channel *)
    (forall i b, nth_error parts i = Some b ->
       let plain := new_chunk S t (if Nat.eqb (Datatypes.S i) (length parts) then 1 else 0) (seq + Z.of_nat i) req b in
       nth_error cs i = Some plain /\
       exists sec, apply_security P fx S t plain = Ok sec /\
                   recv P fx R sec = (Ok plain, r_policy R) /\
                   (0 < max -> len sec <= max)) /\
    (* the received chunks are accepted and reassemble to the message *)
    validate_chunks P fx R seq cs = Ok (seq + Z.of_nat (length parts) - 1) /\
    decode P R cs = Ok data.
Proof.
  intros F1 F2 F3 S R L t req seq max data Hreq Hne Hlen H0 Hseq Hmax.
  destruct (encode_ok P fx F1 F2 F3 S R L t req Hreq seq max data Hne Hlen H0 Hseq Hmax)
    as (parts & Henc & Hpne & Hcat & Hsm & Hn & Hsz & Hval & Hdec).
  exists parts. cbn zeta. repeat split; try assumption.
  - apply mk_chunks_nth. exact H.
  - rename H into Hnth.
    assert (Hb : small b) by (rewrite Forall_forall in Hsm; apply Hsm; eapply nth_error_In; exact Hnth).
    assert (Hfin : let f := if Nat.eqb (Datatypes.S i) (length parts) then 1 else 0 in f = 0 \/ f = 1 \/ f = 2)
      by (cbn zeta; destruct (Nat.eqb (Datatypes.S i) (length parts)); lia).
    destruct (recv_send P fx F1 S R L t _ (seq + Z.of_nat i) req b Hfin Hb) as (sec & Ha & Hr & Hl).
    exists sec. repeat split; try assumption.
    intro Hm. rewrite Hl. specialize (Hsz Hm). rewrite Forall_forall in Hsz. apply Hsz. eapply nth_error_In; exact Hnth.
Qed.

(* ---------------- the server's MessageWriter ---------------- *)
(* MessageWriter::write delegates to Chunker::encode with the send buffer size negotiated for the
   connection: everything end_to_end says holds of what the writer emits, in particular every
   secured chunk is at most the negotiated size *)
Theorem writer_ok (P : prims) (fx : fixes) :
  fx_pad_sign fx = true -> fx_budget fx = true -> fx_opn_budget fx = true ->
  forall (S : sender) (R : receiver), link P S R ->
  forall (t : mtype) (req last negotiated : Z) (data : bytes),
  0 <= req < U32 -> data <> [] -> len data <= 1073741824 -> 0 <= last -> last + 1 + len data < U32 ->
  src_min_chunk <= negotiated ->
  exists parts,
    let cs := mk_chunks S t (last + 1) req parts in
    writer_chunks true fx S t last req negotiated data = Ok cs /\ parts <> [] /\ concat parts = data /\
    (forall i b, nth_error parts i = Some b ->
       let plain := new_chunk S t (if Nat.eqb (Datatypes.S i) (length parts) then 1 else 0) (last + 1 + Z.of_nat i) req b in
       nth_error cs i = Some plain /\
       exists sec, apply_security P fx S t plain = Ok sec /\
                   recv P fx R sec = (Ok plain, r_policy R) /\
                   len sec <= negotiated) /\
    validate_chunks P fx R (last + 1) cs = Ok (last + 1 + Z.of_nat (length parts) - 1) /\
    decode P R cs = Ok data.
Proof.
  intros F1 F2 F3 S R L t req last negotiated data Hreq Hne Hlen H0 Hseq Hneg.
  destruct (end_to_end P fx F1 F2 F3 S R L t req (last + 1) negotiated data Hreq Hne Hlen ltac:(lia) Hseq (or_intror Hneg))
    as (parts & Henc & Hp & Hcat & Hch & Hval & Hdec).
  exists parts. cbn zeta in *. unfold writer_chunks. repeat split; try assumption.
  - apply (Hch i b H).
  - destruct (Hch i b H) as (_ & sec & Ha & Hr & Hl). exists sec. repeat split; try assumption.
    apply Hl. change src_min_chunk with 8196 in Hneg. lia.
Qed.
