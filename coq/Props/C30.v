(* C30 — Browsing in pages returns the full result exactly once.  Statements only.
   Vocabulary (coq/C30/Model.v): [exec s ops] runs Browse / BrowseNext / release / address-space
   modifications on a session; [init_st false c] is the state of the repaired code on the address
   space fragment of case c; [full_of g d] is the unpaged reference list of node g under the
   browse description d (direction, reference-type filter with subtypes, node-class mask);
   [browse_pages fuel s d k] browses with page size k and follows the continuation points with
   BrowseNext until none remains; [next_r s ids] are the results of a BrowseNext; [Res 2 0 None]
   is BadContinuationPointInvalid. *)
From Coq Require Import List ZArith.
Import ListNotations.
From OV Require Import C30.Model C30.Proofs C30.OracleProofs.
Open Scope Z_scope.

(* In every reachable state, for every node, direction, reference-type filter, node-class mask
   and requested page size (any Z: 0 and values above 255 mean 255), the pages returned by Browse
   followed by BrowseNext until no continuation point remains are, concatenated, exactly the
   unpaged list: same references, same order, same multiplicity.  Proved by induction on the
   number of references still to deliver. *)
Theorem C30_pages_concat : forall c ops d k g fuel,
  let s := exec (init_st false c) ops in
  nth_hub (hubs s) (d_hub d) = Some g -> (length (full_of g d) <= fuel)%nat ->
  concat (snd (browse_pages fuel s d k)) = full_of g d.
Proof. exact pages_concat_reachable. Qed.
Print Assumptions C30_pages_concat.

(* A continuation point can be used once: after a BrowseNext with it, it is refused for ever,
   whatever happens in between. *)
Theorem C30_used_once : forall c ops id ops',
  let s := exec (init_st false c) ops in
  id < next_id s ->
  let s1 := exec (fst (next_r s [id])) ops' in
  next_r s1 [id] = (expire s1, [Res 2 0 None]).
Proof. exact used_once. Qed.
Print Assumptions C30_used_once.

(* It is invalid after release ... *)
Theorem C30_released_invalid : forall c ops l id ops',
  let s := exec (init_st false c) ops in
  In id l -> id < next_id s ->
  let s1 := exec (release_r s l) ops' in
  next_r s1 [id] = (expire s1, [Res 2 0 None]).
Proof. exact released_invalid. Qed.
Print Assumptions C30_released_invalid.

(* ... and after the address space changed: a node inserted anywhere, or any change of the
   references of a browsed node (added reference, deleted reference, deleted target node)
   invalidates every continuation point issued before, for ever. *)
Theorem C30_modified_invalid : forall c ops o id ops',
  let s := exec (init_st false c) ops in
  (o = AddNode \/ hubs (fst (step s o)) <> hubs s) ->
  id < next_id s ->
  let s1 := exec (fst (step s o)) ops' in
  next_r s1 [id] = (expire s1, [Res 2 0 None]).
Proof. exact modified_invalid. Qed.
Print Assumptions C30_modified_invalid.

(* The session keeps at most 20 continuation points, in any reachable state. *)
Theorem C30_bounded : forall b c ops, (length (store (exec (init_st b c) ops)) <= 20)%nat.
Proof. exact bounded. Qed.
Print Assumptions C30_bounded.

(* reference_description_to_browse_result never panics (no usize underflow, no slice out of range)
   in any reachable state, for any request. *)
Theorem C30_no_panic : forall b c ops,
  let s := exec (init_st b c) ops in
  (forall l, ~ In Panic (snd (next_r s l))) /\ (forall k ds, ~ In Panic (snd (browse_r k s ds))).
Proof. exact no_panic. Qed.
Print Assumptions C30_no_panic.

(* The code before the fix (delete / delete_reference did not touch last_modified) violates the
   property: a continuation point survives the deletion of a reference of the browsed node. *)
Theorem C30_legacy_refuted : exists c, valid c /\ oracle c (Legacy.run c) = false.
Proof. exact legacy_refuted. Qed.
Print Assumptions C30_legacy_refuted.

(* The executable oracle (a ledger of the references still owed per live continuation point, at
   most 20, emptied by every modification) holds of the model for every valid case. *)
Theorem C30_oracle : forall c, valid c -> known c = 0 -> oracle c (run c) = true.
Proof. intros c Hv _. apply oracle_holds. exact Hv. Qed.
Print Assumptions C30_oracle.
