(* C42 — the round trip of EVERY in-scope value that holds no array, known finding 2 included:
   what comes back is the value with the namespace index of every ExpandedNodeId that has a
   namespace uri set to 0 (and NaN payloads canonical); nothing else is lost, at any nesting depth. *)
From Coq Require Import List ZArith Bool Lia.
From OV Require Import C42.Text C42.Flt C42.Model C42.TextLaws C42.DateLaws C42.StructLaws C42.Proofs C42.Oracle C42.Known2.
Import ListNotations.
Open Scope Z_scope.

Fixpoint v_canon (v : variant) : variant :=
  match v with
  | VXNodeId x => VXNodeId (x_canon x)
  | VDataValue (Some v') r => VDataValue (Some (v_canon v')) r
  | VVariant v' => VVariant (v_canon v')
  | _ => v
  end.
Definition canon (a : value) : value :=
  match a with
  | AXNodeId x => AXNodeId (x_canon x)
  | ADataValue (Some v) r => ADataValue (Some (v_canon v)) r
  | AVariant v => AVariant (v_canon v)
  | _ => a
  end.

Lemma x_canon_tree x : xnodeid_tree now (x_canon x) = xnodeid_tree now x.
Proof. destruct x as [[ns i] [u|] srv]; reflexivity. Qed.
Lemma x_canon_ok x : xnodeid_ok x = true -> xnodeid_ok (x_canon x) = true.
Proof.
  destruct x as [[ns i] [u|] srv]; cbn [x_canon]; [|exact (fun H => H)].
  cbn [xnodeid_ok nodeid_ok]. intro H. apply andb_true_iff in H as [H Hs]. apply andb_true_iff in H as [_ Hi].
  rewrite Hi, Hs. reflexivity.
Qed.
Lemma x_canon_both x : x_both (x_canon x) = false.
Proof. destruct x as [[ns i] [u|] srv]; reflexivity. Qed.

Fixpoint v_canon_tree (v : variant) : variant_tree now (v_canon v) = variant_tree now v.
Proof.
  destruct v as [ | | | | | | | | | | | | | | | | | | x | | | | | [v'|] r | v' | | ];
    cbn [v_canon variant_tree]; try reflexivity.
  - rewrite x_canon_tree. reflexivity.
  - rewrite (v_canon_tree v'). reflexivity.
  - rewrite (v_canon_tree v'). reflexivity.
Qed.
Fixpoint v_canon_ok (v : variant) : variant_ok v = true -> variant_ok (v_canon v) = true.
Proof.
  destruct v as [ | | | | | | | | | | | | | | | | | | x | | | | | [v'|] r | v' | | ];
    cbn [v_canon variant_ok]; try exact (fun H => H).
  - apply x_canon_ok.
  - intro H. apply andb_true_iff in H as [H1 H2]. rewrite (v_canon_ok v' H1), H2. reflexivity.
  - apply v_canon_ok.
Qed.
Fixpoint v_canon_both (v : variant) : v_has_both (v_canon v) = false.
Proof.
  destruct v as [ | | | | | | | | | | | | | | | | | | x | | | | | [v'|] r | v' | | ];
    cbn [v_canon v_has_both]; try reflexivity.
  - apply x_canon_both.
  - apply v_canon_both.
  - apply v_canon_both.
Qed.
Fixpoint v_canon_array (v : variant) : v_has_array (v_canon v) = v_has_array v.
Proof.
  destruct v as [ | | | | | | | | | | | | | | | | | | x | | | | | [v'|] r | v' | | ];
    cbn [v_canon v_has_array]; try reflexivity; apply v_canon_array.
Qed.
Fixpoint v_canon_id (v : variant) : v_has_both v = false -> v_canon v = v.
Proof.
  destruct v as [ | | | | | | | | | | | | | | | | | | x | | | | | [v'|] r | v' | | ];
    cbn [v_canon v_has_both]; try reflexivity; intro H.
  - rewrite x_canon_id by exact H. reflexivity.
  - rewrite (v_canon_id v' H). reflexivity.
  - rewrite (v_canon_id v' H). reflexivity.
Qed.

Lemma canon_tree a : to_tree now (canon a) = to_tree now a.
Proof.
  destruct a as [ | | | | | x | | | | [v|] r | v | | ]; cbn [canon to_tree]; try reflexivity.
  - rewrite x_canon_tree. reflexivity.
  - rewrite v_canon_tree. reflexivity.
  - apply v_canon_tree.
Qed.
Lemma canon_kind a : kind (canon a) = kind a.
Proof. destruct a as [ | | | | | x | | | | [v|] r | v | | ]; reflexivity. Qed.
Lemma canon_inscope a : inscope a = true -> inscope (canon a) = true.
Proof.
  destruct a as [ | | | | | x | | | | [v|] r | v | | ]; cbn [canon inscope]; try exact (fun H => H).
  - apply x_canon_ok.
  - cbn [variant_ok]. intro H. apply andb_true_iff in H as [H1 H2]. rewrite (v_canon_ok v H1), H2. reflexivity.
  - apply v_canon_ok.
Qed.
Lemma canon_no_known a : holds_array a = false -> no_known (canon a).
Proof.
  destruct a as [ | | | | | x | | | | [v|] r | v | | ]; cbn [canon no_known holds_array]; intro H; try exact I.
  - apply x_canon_both.
  - split; [rewrite v_canon_array; exact H | apply v_canon_both].
  - split; [rewrite v_canon_array; exact H | apply v_canon_both].
Qed.
Lemma canon_id a : no_known a -> canon a = a.
Proof.
  destruct a as [ | | | | | x | | | | [v|] r | v | | ]; cbn [canon no_known]; intro H; try reflexivity.
  - rewrite x_canon_id by exact H. reflexivity.
  - destruct H as [_ H]. rewrite v_canon_id by exact H. reflexivity.
  - destruct H as [_ H]. rewrite v_canon_id by exact H. reflexivity.
Qed.

Theorem value_rt_any a : inscope a = true -> holds_array a = false ->
  exists t, to_tree now a = Some t /\ of_tree now (fuel_for t) (kind a) t = Some (norm (canon a)).
Proof.
  intros Hin Harr.
  destruct (value_rt (canon a) (canon_inscope a Hin) (canon_no_known a Harr)) as (t & Ht & Hof).
  exists t. rewrite canon_tree in Ht. rewrite canon_kind in Hof. split; assumption.
Qed.
