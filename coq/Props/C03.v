(* C03 — Configured decoding limits are enforced exactly.  Statements only. *)
From Coq Require Import List ZArith.
Import ListNotations.
From OV Require Import C01.Codec C01.Builtins C01.Types C01.Model C03.Model C03.Proofs C03.OracleProofs.
Open Scope Z_scope.

(* Strings and byte strings (utf8 = true / false; limit = max_string_length / max_byte_string_length),
   for every limit and every declared length L, whatever bytes follow: *)
Theorem C03_string_over_limit : forall limit utf8 L bs, in_i 4 L -> 0 <= limit -> limit < L ->
  Codec.run (dec_ustr limit utf8) (enc_i 4 L ++ bs) = Err ELimit.
Proof. exact ustr_over. Qed.
Print Assumptions C03_string_over_limit.

Theorem C03_string_negative : forall limit utf8 L bs, in_i 4 L -> L < -1 ->
  Codec.run (dec_ustr limit utf8) (enc_i 4 L ++ bs) = Err ENeg.
Proof. exact ustr_negative. Qed.
Print Assumptions C03_string_negative.

Theorem C03_string_within_limit : forall limit utf8 items rest,
  Z.of_nat (length items) <= limit -> Z.of_nat (length items) < 2 ^ 31 ->
  (utf8 = true -> utf8_valid items = true) ->
  Codec.run (dec_ustr limit utf8) (enc_i 4 (Z.of_nat (length items)) ++ items ++ rest) = Ok (Some items, rest).
Proof. exact ustr_within. Qed.
Print Assumptions C03_string_within_limit.

Theorem C03_array_over_limit : forall A o esize (m : M A) L bs, in_i 4 L -> 0 <= max_arr o -> max_arr o < L ->
  Codec.run (dec_array o esize m) (enc_i 4 L ++ bs) = Err ELimit.
Proof. intros A. exact (@array_over A). Qed.
Print Assumptions C03_array_over_limit.

Theorem C03_array_negative : forall A o esize (m : M A) L bs, in_i 4 L -> L < -1 ->
  Codec.run (dec_array o esize m) (enc_i 4 L ++ bs) = Err ENeg.
Proof. intros A. exact (@array_negative A). Qed.
Print Assumptions C03_array_negative.

(* A chunk whose declared size exceeds max_message_size (> 0) is rejected whatever follows the
   header, and nothing was allocated (instrumentation st0): the body is never looked at. *)
Theorem C03_chunk_too_large : forall o mt fin size ch body,
  (mt = 0 \/ mt = 1 \/ mt = 2) -> (fin = 0 \/ fin = 1 \/ fin = 2) -> in_u 4 size -> in_u 4 ch ->
  0 < max_msg o < size ->
  dec_chunk o (chunk_header_bytes mt fin size ch ++ body) = (Err ELimit, st0).
Proof. exact chunk_too_large. Qed.
Print Assumptions C03_chunk_too_large.

(* Regardless of where it is nested: a well-formed value of any type (Variant, DataValue, arrays,
   generated structures ...) in which every string, byte string and array is within its limit (and
   the nesting within the depth) is accepted; if any of them, at any position, exceeds its limit the
   value is rejected. *)
Theorem C03_nested_limits : forall t v o rest, wf_ty t v -> plain o ->
  (fits_ty t o (depth0 o) v = true ->
     Codec.run (dec_ty t o (depth0 o)) (enc_ty t v ++ rest) = Ok (norm_ty t v, rest)) /\
  (fits_ty t o (depth0 o) v = false ->
     exists e, Codec.run (dec_ty t o (depth0 o)) (enc_ty t v ++ rest) = Err e).
Proof. exact nested_limits. Qed.
Print Assumptions C03_nested_limits.

(* ... and the error is the limit error when the first violation in decoding order is a length *)
Theorem C03_nested_limit_error : forall t v o d rest, wf_ty t v -> offset_ns o = 0 ->
  chk_ty t o d v = Some ELimit -> Codec.run (dec_ty t o d) (enc_ty t v ++ rest) = Err ELimit.
Proof. exact nested_limit_error. Qed.
Print Assumptions C03_nested_limit_error.

(* The length of a Variant array is bounded by max_array_length for EVERY element type: m is any mask
   byte with the array bit (element type m mod 64, dimensions bit or not), whatever follows the length
   and whatever max_string_length / max_byte_string_length are (they do not occur) *)
Theorem C03_variant_array_over_limit : forall o d m L payload,
  is_byte m -> Z.testbit m 7 = true -> in_i 4 L -> 0 < L -> max_arr o < L ->
  Codec.run (dec_variant o d) (m :: enc_i 4 L ++ payload) = Err ELimit.
Proof. exact varr_over. Qed.
Print Assumptions C03_variant_array_over_limit.

Theorem C03_variant_array_negative : forall o d m L payload,
  is_byte m -> Z.testbit m 7 = true -> in_i 4 L -> L < -1 ->
  Codec.run (dec_variant o d) (m :: enc_i 4 L ++ payload) = Err ENeg.
Proof. exact varr_neg. Qed.
Print Assumptions C03_variant_array_negative.

(* ... and a well-formed non-empty Variant array of any element type whose elements and dimension list
   are themselves within the limits is accepted iff its total length is within max_array_length *)
Theorem C03_variant_array_accept_iff : forall o d ty vals dims rest,
  offset_ns o = 0 -> wf_variant (VArray ty vals dims) -> vals <> [] ->
  chk_list (chk_variant o d) vals = None ->
  (match dims with Some ds => Z.of_nat (length ds) <= max_arr o | None => True end) ->
  Codec.run (dec_variant o d) (enc_variant (VArray ty vals dims) ++ rest) =
  if Z.of_nat (length vals) <=? max_arr o then Ok (norm_variant (VArray ty vals dims), rest) else Err ELimit.
Proof. exact varr_accept_iff. Qed.
Print Assumptions C03_variant_array_accept_iff.

(* The oracle holds on the model, for every case: values, chunks, and the raw length fields in all 23
   nesting contexts, the Variant array length fields of every element type at 5 nestings (each context prefix is evaluated symbolically: after it the decoder continues as
   the string / byte string / array decoder on the remaining bytes, C03.Contexts) *)
Theorem C03_oracle : forall c, valid c -> known c = 0 -> oracle c (C03.Model.run c) = true.
Proof. exact C03.OracleProofs.oracle_holds. Qed.
Print Assumptions C03_oracle.
