//! C24: monitored item notification queue (server/subscriptions/monitored_item.rs) through the
//! `VerifMonitoredItem` hook: real `MonitoredItem::new`, `enqueue_notification_message`, `modify`,
//! `all_notifications`.
#[path = "../util.rs"]
mod util;
use util::*;
use opcua::server::address_space::AddressSpace;
use opcua::server::prelude::*;
use opcua::server::state::ServerState;
use opcua::server::subscriptions::monitored_item::{Notification, VerifMonitoredItem};
use opcua::sync::RwLock;
use std::sync::{Arc, OnceLock};

#[derive(Clone, Debug)]
pub enum Op {
    Enq(u32),
    /// requested queue size, discard oldest, filter kind (0 none, 1 absolute deadband, 2 unsupported
    /// filter object -> refused before anything changes, 3 percent deadband -> refused after the resize)
    Modify(u32, bool, u8),
    Drain,
}
pub struct Case { max: usize, size0: u32, disc0: bool, ops: Vec<Op> }
pub struct P;

struct World { state: Arc<RwLock<ServerState>>, space: AddressSpace }
fn world() -> &'static World {
    static W: OnceLock<World> = OnceLock::new();
    W.get_or_init(|| {
        let dir = std::env::temp_dir().join(format!("verif-c24-{}", std::process::id()));
        let server = ServerBuilder::new_anonymous("verif").pki_dir(dir).create_sample_keypair(false).server().unwrap();
        World { state: server.server_state(), space: AddressSpace::new() }
    })
}

fn filter(kind: u8) -> ExtensionObject {
    let dcf = |deadband_type: u32, deadband_value: f64| {
        ExtensionObject::from_encodable(
            ObjectId::DataChangeFilter_Encoding_DefaultBinary,
            &DataChangeFilter { trigger: DataChangeTrigger::StatusValue, deadband_type, deadband_value },
        )
    };
    match kind {
        0 => ExtensionObject::null(),
        1 => dcf(DeadbandType::Absolute as u32, 1.0),
        2 => ExtensionObject::from_encodable(ObjectId::ReadValueId_Encoding_DefaultBinary, &ReadValueId::from(NodeId::new(1, 1))),
        _ => dcf(DeadbandType::Percent as u32, 10.0),
    }
}

fn params(size: u32, disc: bool, kind: u8) -> MonitoringParameters {
    MonitoringParameters { client_handle: 7, sampling_interval: 100.0, filter: filter(kind), queue_size: size, discard_oldest: disc }
}

fn entry(n: &Notification, out: &mut Vec<i128>) {
    match n {
        Notification::MonitoredItemNotification(m) => {
            let v = match m.value.value { Some(Variant::UInt32(v)) => v as i128, _ => -7 };
            out.push(v);
            out.push(m.value.status().bits() as i128);
        }
        _ => { out.push(-8); out.push(-8); }
    }
}

fn snapshot(item: &VerifMonitoredItem, out: &mut Vec<i128>) {
    out.push(item.queue_size() as i128);
    out.push(item.discard_oldest() as i128);
    out.push(item.queue_overflow() as i128);
    let q = item.queue_snapshot();
    out.push(q.len() as i128);
    for n in &q { entry(n, out); }
}

fn op_term(o: &Op) -> String {
    match o {
        Op::Enq(v) => format!("Enq {}", v),
        Op::Modify(s, d, k) => format!("Modify {} {} {}", s, coq_bool(*d), k),
        Op::Drain => "Drain".to_string(),
    }
}

fn gen_ops(r: &mut Rng, n: usize, max: u64, next: &mut u32) -> Vec<Op> {
    // profile: mostly enqueue; modify sizes cluster around the small values where the queue is full
    let p_mod = 1 + r.below(4);
    let p_drain = r.below(3);
    (0..n).map(|_| {
        let k = r.below(10);
        if k < p_mod {
            let size = match r.below(8) {
                0 => 0, 1 => 1, 2 => max as u32, 3 => max as u32 + 1 + r.below(5) as u32, 4 => u32::MAX - r.below(2) as u32,
                _ => r.below(max + 2) as u32,
            };
            let kind = match r.below(8) { 0 => 1, 1 => 2, 2 => 3, _ => 0 };
            Op::Modify(size, r.chance(1, 2), kind)
        } else if k < p_mod + p_drain {
            Op::Drain
        } else {
            *next += 1;
            // values are mostly the sample number (order is then visible), sometimes arbitrary
            Op::Enq(if r.chance(1, 8) { r.next() as u32 } else { *next })
        }
    }).collect()
}

impl Property for P {
    type Case = Case;
    fn fixed(tier: &str) -> Vec<Case> {
        use Op::*;
        let enq = |a: u32, b: u32| (a..=b).map(Enq).collect::<Vec<_>>();
        let mut v = vec![
            // the repository's own test sequence: size 3, discard oldest, five values
            Case { max: 10, size0: 3, disc0: true, ops: [enq(1, 5), vec![Drain]].concat() },
            Case { max: 10, size0: 3, disc0: false, ops: [enq(1, 5), vec![Drain]].concat() },
            // size 1: never an overflow bit
            Case { max: 10, size0: 1, disc0: true, ops: [enq(1, 3), vec![Drain]].concat() },
            Case { max: 10, size0: 0, disc0: false, ops: [enq(1, 3), vec![Drain]].concat() },
            // shrinking a non-empty queue: `queue_size - len` underflowed before the fix
            Case { max: 10, size0: 5, disc0: true, ops: [enq(1, 5), vec![Modify(2, true, 0), Drain]].concat() },
            Case { max: 10, size0: 5, disc0: false, ops: [enq(1, 4), vec![Modify(3, false, 0), Enq(9), Drain]].concat() },
            Case { max: 10, size0: 4, disc0: true, ops: [enq(1, 4), vec![Modify(0, true, 0), Enq(9), Enq(10), Drain]].concat() },
            // growing, above the server maximum, u32::MAX
            Case { max: 6, size0: 2, disc0: true, ops: [enq(1, 3), vec![Modify(100, true, 0)], enq(4, 10), vec![Drain]].concat() },
            Case { max: 6, size0: 2, disc0: false, ops: [enq(1, 3), vec![Modify(u32::MAX, false, 1)], enq(4, 10), vec![Drain, Drain]].concat() },
            // same size, policy flips
            Case { max: 10, size0: 3, disc0: true, ops: [enq(1, 4), vec![Modify(3, false, 0)], enq(5, 6), vec![Modify(3, true, 0)], enq(7, 8)].concat() },
            // refused modify requests: unsupported filter (nothing changes), percent deadband (resized, then refused)
            Case { max: 10, size0: 4, disc0: true, ops: [enq(1, 4), vec![Modify(2, false, 2), Enq(5), Modify(2, false, 3), Enq(6), Drain]].concat() },
            Case { max: 1, size0: 9, disc0: true, ops: [enq(1, 3), vec![Modify(7, false, 0)], enq(4, 5)].concat() },
            Case { max: 10, size0: 3, disc0: true, ops: vec![Drain, Modify(1, true, 0), Drain] },
            // a configured server maximum of 0 (ServerConfig::is_valid accepts it): the revised size was 0
            // and the queue then grew without bound
            Case { max: 0, size0: 5, disc0: true, ops: enq(1, 4) },
            Case { max: 0, size0: 1, disc0: false, ops: [enq(1, 2), vec![Modify(3, false, 0)], enq(3, 5)].concat() },
        ];
        if tier == "thorough" {
            // every (size0, new size, policy, fill) for sizes up to 5: fill, shrink/grow, two more samples
            for s0 in 0..=5u32 { for s1 in 0..=5u32 { for d in [false, true] { for fill in 0..=6u32 {
                v.push(Case { max: 5, size0: s0, disc0: d, ops: [enq(1, fill), vec![Modify(s1, d, 0), Enq(100), Enq(101), Drain]].concat() });
            }}}}
        }
        v
    }
    fn gen(r: &mut Rng) -> Case {
        let max = match r.below(6) { 0 => 1, 1 => 2, 2 => 10, _ => 1 + r.below(12) };
        let size0 = match r.below(6) { 0 => 0, 1 => max as u32 + r.below(3) as u32, _ => r.below(max + 1) as u32 };
        let n = 1 + r.below(40) as usize;
        let mut next = 0;
        Case { max: max as usize, size0, disc0: r.chance(1, 2), ops: gen_ops(r, n, max, &mut next) }
    }
    fn exec(c: &Case) -> Out {
        let w = world();
        let space = &w.space;
        let mut out: Vec<i128> = Vec::new();
        let now = chrono::Utc::now();
        let mut st = w.state.write();
        st.max_monitored_item_queue_size = c.max;
        let st = &*st;
        let req = MonitoredItemCreateRequest {
            item_to_monitor: ReadValueId::from(NodeId::new(1, 1)),
            monitoring_mode: MonitoringMode::Reporting,
            requested_parameters: params(c.size0, c.disc0, 0),
        };
        let (mut n_mod, mut n_shrink, mut n_full) = (0, 0, 0);
        match guarded(|| VerifMonitoredItem::new(&now, 1, TimestampsToReturn::Both, st, &req)) {
            Err(_) => out.push(-2),
            Ok(Err(_)) => out.push(-3),
            Ok(Ok(mut item)) => {
                snapshot(&item, &mut out);
                for o in &c.ops {
                    let len = item.queue_snapshot().len();
                    let r = guarded(|| match o {
                        Op::Enq(v) => {
                            item.enqueue(MonitoredItemNotification { client_handle: 7, value: DataValue { value: Some(Variant::UInt32(*v)), status: None, source_timestamp: None, source_picoseconds: None, server_timestamp: None, server_picoseconds: None } });
                            vec![0]
                        }
                        Op::Modify(s, d, k) => {
                            let m = MonitoredItemModifyRequest { monitored_item_id: 1, requested_parameters: params(*s, *d, *k) };
                            match item.modify(st, space, TimestampsToReturn::Both, &m) { Ok(_) => vec![0], Err(_) => vec![1] }
                        }
                        Op::Drain => match item.all_notifications() {
                            None => vec![-1],
                            Some(ns) => { let mut o = vec![ns.len() as i128]; for n in &ns { entry(n, &mut o); } o }
                        },
                    });
                    match o {
                        Op::Enq(_) => if len == item.queue_size() { n_full += 1 },
                        Op::Modify(..) => { n_mod += 1; if item.queue_size() < len { n_shrink += 1 } }
                        _ => {}
                    }
                    match r {
                        Err(_) => { out.push(-2); break; }
                        Ok(o) => { out.extend(o); snapshot(&item, &mut out); }
                    }
                }
            }
        }
        let tag = format!("{}{}{}", if n_full > 0 { "overflowing" } else { "no-overflow" },
            if n_shrink > 0 { "+shrink-nonempty" } else if n_mod > 0 { "+modify" } else { "" },
            if c.max == 1 { "+max1" } else { "" });
        let term = format!("(mk_case {} {} {} {})", c.max, c.size0, coq_bool(c.disc0), coq_list(&c.ops, op_term));
        Out { tag, term, out }
    }
}
fn main() { run_main::<P>() }
