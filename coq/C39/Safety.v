(* C39 — no panic and termination of where-clause evaluation, for every content filter. *)
From Coq Require Import List ZArith Bool Lia Arith.
From OV Require Import C39.Values C39.Like C39.Model.
Import ListNotations.
Open Scope Z_scope.

(* an outcome that is neither a panic nor fuel exhaustion *)
Definition clean {A} (r : res A) : Prop := r <> RPanic /\ r <> RFuel.

Lemma clean_ok {A} (a : A) : clean (ROk a).
Proof. split; discriminate. Qed.
Lemma clean_err {A} e : clean (@RErr A e).
Proof. split; discriminate. Qed.
Lemma clean_unmod {A} : clean (@RUnmod A).
Proof. split; discriminate. Qed.
#[global] Hint Resolve clean_ok clean_err clean_unmod : c39.

Lemma clean_bind {A B} (r : res A) (k : A -> res B) :
  clean r -> (forall a, clean (k a)) -> clean (bind r k).
Proof.
  intros [Hp Hf] Hk. destruct r; cbn; auto with c39; contradiction.
Qed.

Lemma compare_values_fixed : forall a b, compare_values cfg_fixed a b <> None.
Proof.
  intros a b. destruct a, b; cbn; try discriminate;
  match goal with |- context [ity_eqb ?x ?y] => destruct (ity_eqb x y); discriminate | _ => idtac end;
  match goal with |- context [value_eqb ?x ?y] => destruct (value_eqb x y); discriminate | _ => idtac end.
  all: try (destruct b; discriminate).
Qed.

Lemma cmp_vals_clean : forall v1 v2, clean (cmp_vals cfg_fixed v1 v2).
Proof.
  intros v1 v2. unfold cmp_vals. destruct (convert_pair v1 v2) as [a b].
  destruct (is_poison a || is_poison b); auto with c39.
  pose proof (compare_values_fixed a b) as H.
  destruct (compare_values cfg_fixed a b); [auto with c39 | contradiction].
Qed.

Lemma bit_vals_clean : forall isand v1 v2, clean (bit_vals cfg_fixed isand v1 v2).
Proof.
  intros isand v1 v2. unfold bit_vals. destruct (convert_pair v1 v2) as [a b].
  destruct (is_poison a || is_poison b); auto with c39.
  destruct a; auto with c39. destruct b; cbn; auto with c39.
  destruct (ity_eqb t t0); auto with c39.
Qed.

Lemma like_vals_clean : forall g v1 v2, clean (like_vals g v1 v2).
Proof.
  intros g v1 v2. unfold like_vals.
  destruct (convert v1 TString); auto with c39.
  destruct (convert v2 TString); auto with c39.
  destruct (like_model (fix_like g) s0 s); auto with c39.
Qed.

Section OpsSafe.
  Variable vo : operand -> outcome.
  Hypothesis vo_clean : forall o, clean (vo o).

  Lemma operand_at_clean {B} ops n (k : operand -> res B) :
    (forall o, clean (k o)) -> clean (operand_at cfg_fixed ops n k).
  Proof.
    intros Hk. unfold operand_at. destruct (nth_error ops n); cbn; auto with c39.
  Qed.

  Lemma compare_operands_clean o1 o2 : clean (compare_operands cfg_fixed vo o1 o2).
  Proof.
    unfold compare_operands. apply clean_bind; [apply vo_clean|]. intros v1.
    apply clean_bind; [apply vo_clean|]. intros v2. apply cmp_vals_clean.
  Qed.

  Lemma cmp_op_clean ops o0 accept : clean (cmp_op cfg_fixed vo ops o0 accept).
  Proof.
    unfold cmp_op. apply operand_at_clean. intros o1.
    apply clean_bind; [apply compare_operands_clean|]. intros r. unfold bool_res. auto with c39.
  Qed.

  Lemma in_list_any_clean o0 l : clean (in_list_any cfg_fixed vo o0 l).
  Proof.
    induction l as [|o l IH]; cbn; [unfold bool_res; auto with c39|].
    pose proof (compare_operands_clean o0 o) as [Hp Hf].
    destruct (compare_operands cfg_fixed vo o0 o); try contradiction; auto with c39.
    destruct (cmpres_eqb a CEq); [unfold bool_res; auto with c39 | exact IH].
  Qed.

  Lemma eval_op_clean op ops : ops <> [] -> clean (eval_op cfg_fixed vo op ops).
  Proof.
    intros Hne. destruct ops as [|o0 rest]; [contradiction|].
    unfold eval_op.
    destruct op; try apply cmp_op_clean; try apply in_list_any_clean; auto with c39;
      repeat first
        [ apply clean_bind; [first [apply vo_clean | apply compare_operands_clean] | intros ?]
        | apply operand_at_clean; intros ?
        | apply bit_vals_clean | apply like_vals_clean
        | match goal with |- clean (if ?b then _ else _) => destruct b end
        | unfold bool_res; solve [auto with c39] ].
  Qed.
End OpsSafe.

(* ---- the used set bounds the depth ------------------------------------------------------------- *)
Section Fuel.
  Variable fields : list value.
  Variable els : list element.

  (* the in-range indices not yet on the path *)
  Definition free_idx (used : list Z) : list Z :=
    filter (fun i => negb (mem i used)) (map Z.of_nat (seq 0 (length els))).
  Definition free (used : list Z) : nat := length (free_idx used).

  Lemma mem_true_iff c l : mem c l = true <-> In c l.
  Proof.
    unfold mem. rewrite existsb_exists. split.
    - intros [x [Hin Heq]]. apply Z.eqb_eq in Heq. subst. exact Hin.
    - intros Hin. exists c. split; [exact Hin | apply Z.eqb_refl].
  Qed.

  Lemma filter_length_lt {X} (f g : X -> bool) (l : list X) (x : X) :
    (forall y, g y = true -> f y = true) -> In x l -> f x = true -> g x = false ->
    (length (filter g l) < length (filter f l))%nat.
  Proof.
    intros Himp. induction l as [|y l IH]; intros Hin Hf Hg; [destruct Hin|].
    assert (Hle : forall l', (length (filter g l') <= length (filter f l'))%nat).
    { induction l' as [|z l' IH']; cbn; [lia|].
      destruct (g z) eqn:Hgz.
      - rewrite (Himp z Hgz). cbn. lia.
      - destruct (f z); cbn; lia. }
    cbn. destruct Hin as [->|Hin].
    - rewrite Hf, Hg. cbn. specialize (Hle l). lia.
    - specialize (IH Hin Hf Hg). destruct (g y) eqn:Hgy.
      + rewrite (Himp y Hgy). cbn. lia.
      + destruct (f y); cbn; lia.
  Qed.

  Lemma free_cons_lt i used :
    0 <= i < Z.of_nat (length els) -> mem i used = false -> (free (i :: used) < free used)%nat.
  Proof.
    intros Hr Hm. unfold free, free_idx.
    apply filter_length_lt with (x := i).
    - intros y Hy. apply negb_true_iff in Hy. apply negb_true_iff.
      unfold mem in *. cbn [existsb] in Hy. apply orb_false_iff in Hy. tauto.
    - apply in_map_iff. exists (Z.to_nat i). split; [lia|]. apply in_seq. lia.
    - rewrite Hm. reflexivity.
    - unfold mem. cbn [existsb]. rewrite Z.eqb_refl. reflexivity.
  Qed.

  Lemma filter_len_le {X} (f : X -> bool) (l : list X) : (length (filter f l) <= length l)%nat.
  Proof. induction l as [|y l IH]; cbn; [lia|]. destruct (f y); cbn; lia. Qed.

  Lemma free_le used : (free used <= length els)%nat.
  Proof.
    unfold free, free_idx. etransitivity; [apply filter_len_le|].
    rewrite map_length, seq_length. lia.
  Qed.

  Lemma free_zero_lt used : (0 < length els)%nat -> mem 0 used = true -> (free used < length els)%nat.
  Proof.
    intros Hlen Hm. unfold free, free_idx.
    replace (length els) with (length (filter (fun _ : Z => true) (map Z.of_nat (seq 0 (length els))))) at 2.
    2:{ assert (H : forall l : list Z, filter (fun _ => true) l = l) by (induction l; cbn; congruence).
        rewrite H, map_length, seq_length. reflexivity. }
    apply filter_length_lt with (x := 0).
    - reflexivity.
    - apply in_map_iff. exists 0%nat. split; [reflexivity|]. apply in_seq. lia.
    - reflexivity.
    - rewrite Hm. reflexivity.
  Qed.

  (* no panic, and no fuel exhaustion as long as the fuel exceeds the number of free indices *)
  Lemma evaluate_clean : forall fuel used e,
    (free used < fuel)%nat -> clean (evaluate cfg_fixed fields els fuel used e).
  Proof.
    induction fuel as [|fuel IH]; intros used e Hfree; [lia|].
    cbn [evaluate].
    destruct (el_ops e) as [ops|]; [|auto with c39].
    destruct ops as [|o0 rest]; [auto with c39|].
    destruct (existsb is_bad (o0 :: rest)); [auto with c39|].
    apply eval_op_clean; [|discriminate].
    intros o. destruct o; cbn; auto with c39.
    destruct (mem i used) eqn:Hm; [auto with c39|].
    destruct ((0 <=? i) && (i <? nels els)) eqn:Hr; [|auto with c39].
    apply andb_true_iff in Hr as [H0 H1]. apply Z.leb_le in H0. apply Z.ltb_lt in H1. unfold nels in H1.
    destruct (nth_error els (Z.to_nat i)) eqn:Hn.
    - apply IH. pose proof (free_cons_lt i used (conj H0 H1) Hm). lia.
    - exfalso. apply nth_error_None in Hn. lia.
  Qed.
End Fuel.

(* evaluate_where_clause: neither a panic nor out of fuel, for every cfg_fixed clause *)
Theorem where_clause_clean : forall fields els, clean (evaluate_where_clause cfg_fixed fields els).
Proof.
  intros fields els. unfold evaluate_where_clause.
  destruct els as [l|]; [|auto with c39]. destruct l as [|e0 rest]; [auto with c39|].
  apply evaluate_clean. pose proof (free_le (e0 :: rest) [0]). lia.
Qed.

(* the nesting never exceeds the number of elements: fuel = number of elements is already enough *)
Theorem depth_bounded_by_elements : forall fields els e fuel,
  els <> [] -> (length els <= fuel)%nat -> evaluate cfg_fixed fields els fuel [0] e <> RFuel.
Proof.
  intros fields els e fuel Hne Hfuel.
  apply (evaluate_clean fields els fuel [0] e).
  assert (Hlen : (0 < length els)%nat) by (destruct els; [contradiction | cbn; lia]).
  pose proof (free_zero_lt els [0] Hlen eq_refl). lia.
Qed.

Lemma canon_not_panic : forall r : outcome, clean r -> canon r <> [-2] /\ canon r <> [-5].
Proof.
  intros r [Hp Hf]. destruct r; cbn; try contradiction.
  - destruct a; cbn; split; try discriminate; destruct b; discriminate.
  - split; discriminate.
  - split; discriminate.
Qed.

Lemma like_text_head : forall pat, run (CLikeText pat) = [0] \/ exists t, run (CLikeText pat) = 1 :: t.
Proof.
  intros pat. unfold run, run_cfg. cbn [fix_like cfg_fixed].
  destruct (like_to_regex_fixed pat); [right; eexists; reflexivity | left; reflexivity].
Qed.

Theorem run_no_panic : forall c, run c <> [-2] /\ run c <> [-5].
Proof.
  intros c. destruct c as [f e | pat s | pat | n k].
  - unfold run, run_cfg. cbn [filter_of]. apply canon_not_panic, where_clause_clean.
  - unfold run, run_cfg. cbn [fix_like cfg_fixed].
    destruct (like_to_regex_fixed pat); [|split; discriminate].
    destruct (re_parse l); try (split; discriminate).
  - destruct (like_text_head pat) as [H | [t H]]; rewrite H; split; discriminate.
  - unfold run, run_cfg. cbn [filter_of]. apply canon_not_panic, where_clause_clean.
Qed.
