From Coq Require Import List ZArith Bool Lia.
Import ListNotations.
From OV Require Import C11.Model.
Open Scope Z_scope.

Lemma list_eqb_refl l : list_eqb l l = true.
Proof. induction l as [|x l IH]; cbn; [reflexivity|]. rewrite Z.eqb_refl. exact IH. Qed.
