(* C06 — comparisons through operator.rs between an integer operand and a Float / Double operand:
   the integer is converted with round-to-nearest, which is monotone and leaves the (representable)
   other operand where it is, so the order of the two NUMBERS is never inverted; it can only
   collapse to "equal". *)
From Coq Require Import List ZArith Bool Lia Reals Lra.
From Flocq Require Import Core IEEE754.BinarySingleNaN.
From OV Require Import C06.Model C06.Spec C06.IntFacts C06.FloatFacts C06.Proofs C06.Compare C06.CompareProofs.
Import ListNotations.
Open Scope Z_scope.

Section Mono.
  Context (prec emax : Z) {Hp : Prec_gt_0 prec} {Hm : Prec_lt_emax prec emax}.
  Hypothesis Hemax : 64 < emax.
  Notation bf := (binary_float prec emax).
  Notation fexp := (FLT_exp (3 - emax - prec) prec).

  Lemma rnd_fix : forall f : bf, round radix2 fexp ZnearestE (B2R f) = B2R f.
  Proof.
    intros f. apply round_generic; [apply valid_rnd_N|]. apply generic_format_B2R.
  Qed.

  Lemma of_Z_cmp : forall n (f : bf), Z.abs n <= 2 ^ 64 -> is_finite f = true ->
    ((IZR n < B2R f)%R ->
       (Bcompare (f_of_Z prec emax n) f = Some Lt \/ Bcompare (f_of_Z prec emax n) f = Some Eq) /\
       (Bcompare f (f_of_Z prec emax n) = Some Gt \/ Bcompare f (f_of_Z prec emax n) = Some Eq)) /\
    ((B2R f < IZR n)%R ->
       (Bcompare (f_of_Z prec emax n) f = Some Gt \/ Bcompare (f_of_Z prec emax n) f = Some Eq) /\
       (Bcompare f (f_of_Z prec emax n) = Some Lt \/ Bcompare f (f_of_Z prec emax n) = Some Eq)) /\
    (IZR n = B2R f ->
       Bcompare (f_of_Z prec emax n) f = Some Eq /\ Bcompare f (f_of_Z prec emax n) = Some Eq).
  Proof.
    intros n f Hn Hf.
    destruct (@f_of_Z_correct prec emax Hp Hm Hemax n Hn) as [HR HF].
    rewrite !Bcompare_correct by assumption. rewrite HR.
    pose proof (rnd_fix f) as Hy.
    assert (Hv : Valid_exp fexp) by (apply FLT_exp_valid; exact Hp).
    split; [|split].
    - intros Hlt.
      assert (Hle : (round radix2 fexp ZnearestE (IZR n) <= B2R f)%R).
      { rewrite <- Hy. apply round_le; [exact Hv | apply valid_rnd_N | lra]. }
      split.
      + destruct (Rcompare_spec (round radix2 fexp ZnearestE (IZR n)) (B2R f)); [left; reflexivity | right; reflexivity | lra].
      + destruct (Rcompare_spec (B2R f) (round radix2 fexp ZnearestE (IZR n))); [lra | right; reflexivity | left; reflexivity].
    - intros Hgt.
      assert (Hle : (B2R f <= round radix2 fexp ZnearestE (IZR n))%R).
      { rewrite <- Hy. apply round_le; [exact Hv | apply valid_rnd_N | lra]. }
      split.
      + destruct (Rcompare_spec (round radix2 fexp ZnearestE (IZR n)) (B2R f)); [lra | right; reflexivity | left; reflexivity].
      + destruct (Rcompare_spec (B2R f) (round radix2 fexp ZnearestE (IZR n))); [left; reflexivity | right; reflexivity | lra].
    - intros Heq. rewrite Heq, Hy. rewrite Rcompare_Eq by reflexivity. split; reflexivity.
  Qed.
End Mono.

Lemma int_abs_64 : forall t s b n, int_ty t = Some (s, b) -> in_range s b n = true -> Z.abs n <= 2 ^ 64.
Proof.
  intros t s b n Ht Hn. apply in_range_iff in Hn.
  pose proof (range_in_64 s b (int_ty_bits _ _ _ Ht)) as H. lia.
Qed.

(* what operator.rs computes for an integer against a Double / Float, in either order *)
Lemma compare_int_f64 : forall t s b n (f : f64), int_ty t = Some (s, b) ->
  compare gen_cfg t TDouble (VInt n) (VF64 f) = cmp_of (Bcompare (f_of_Z 53 1024 n) f) /\
  compare gen_cfg TDouble t (VF64 f) (VInt n) = cmp_of (Bcompare f (f_of_Z 53 1024 n)).
Proof. intros t s b n f Ht. destruct t; cbn in Ht; try discriminate; split; reflexivity. Qed.

Lemma compare_int_f32 : forall t s b n (f : f32), int_ty t = Some (s, b) ->
  compare gen_cfg t TFloat (VInt n) (VF32 f) = cmp_of (Bcompare (f_of_Z 24 128 n) f) /\
  compare gen_cfg TFloat t (VF32 f) (VInt n) = cmp_of (Bcompare f (f_of_Z 24 128 n)).
Proof. intros t s b n f Ht. destruct t; cbn in Ht; try discriminate; split; reflexivity. Qed.

Definition not_gt (c : cmp) : Prop := c = CLt \/ c = CEq.
Definition not_lt (c : cmp) : Prop := c = CGt \/ c = CEq.

Theorem compare_int_double_monotone : forall t s b n (f : f64),
  int_ty t = Some (s, b) -> in_range s b n = true -> is_finite f = true ->
  ((IZR n < B2R f)%R -> not_gt (compare gen_cfg t TDouble (VInt n) (VF64 f)) /\ not_lt (compare gen_cfg TDouble t (VF64 f) (VInt n))) /\
  ((B2R f < IZR n)%R -> not_lt (compare gen_cfg t TDouble (VInt n) (VF64 f)) /\ not_gt (compare gen_cfg TDouble t (VF64 f) (VInt n))) /\
  (IZR n = B2R f -> compare gen_cfg t TDouble (VInt n) (VF64 f) = CEq /\ compare gen_cfg TDouble t (VF64 f) (VInt n) = CEq).
Proof.
  intros t s b n f Ht Hn Hf.
  destruct (compare_int_f64 t s b n f Ht) as [E1 E2]. rewrite E1, E2.
  destruct (of_Z_cmp 53 1024 ltac:(lia) n f (int_abs_64 _ _ _ _ Ht Hn) Hf) as (A & B & C).
  unfold not_gt, not_lt. split; [|split].
  - intros H. destruct (A H) as [[-> | ->] [-> | ->]]; cbn; tauto.
  - intros H. destruct (B H) as [[-> | ->] [-> | ->]]; cbn; tauto.
  - intros H. destruct (C H) as [-> ->]. cbn. tauto.
Qed.

Theorem compare_int_float_monotone : forall t s b n (f : f32),
  int_ty t = Some (s, b) -> in_range s b n = true -> is_finite f = true ->
  ((IZR n < B2R f)%R -> not_gt (compare gen_cfg t TFloat (VInt n) (VF32 f)) /\ not_lt (compare gen_cfg TFloat t (VF32 f) (VInt n))) /\
  ((B2R f < IZR n)%R -> not_lt (compare gen_cfg t TFloat (VInt n) (VF32 f)) /\ not_gt (compare gen_cfg TFloat t (VF32 f) (VInt n))) /\
  (IZR n = B2R f -> compare gen_cfg t TFloat (VInt n) (VF32 f) = CEq /\ compare gen_cfg TFloat t (VF32 f) (VInt n) = CEq).
Proof.
  intros t s b n f Ht Hn Hf.
  destruct (compare_int_f32 t s b n f Ht) as [E1 E2]. rewrite E1, E2.
  destruct (of_Z_cmp 24 128 ltac:(lia) n f (int_abs_64 _ _ _ _ Ht Hn) Hf) as (A & B & C).
  unfold not_gt, not_lt. split; [|split].
  - intros H. destruct (A H) as [[-> | ->] [-> | ->]]; cbn; tauto.
  - intros H. destruct (B H) as [[-> | ->] [-> | ->]]; cbn; tauto.
  - intros H. destruct (C H) as [-> ->]. cbn. tauto.
Qed.
