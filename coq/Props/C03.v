(* C03 — Configured decoding limits are enforced exactly.  Statements only. *)
From Coq Require Import List ZArith.
From OV Require Import C01.Codec C01.Builtins C01.Types C03.Proofs.
Open Scope Z_scope.

(* Strings and byte strings (utf8 = true / false; limit = max_string_length / max_byte_string_length),
   for every limit and every declared length L, whatever bytes follow: *)
Theorem C03_string_over_limit : forall limit utf8 L bs, in_i 4 L -> 0 <= limit -> limit < L ->
  run (dec_ustr limit utf8) (enc_i 4 L ++ bs) = Err ELimit.
Proof. exact ustr_over. Qed.
Print Assumptions C03_string_over_limit.

Theorem C03_string_negative : forall limit utf8 L bs, in_i 4 L -> L < -1 ->
  run (dec_ustr limit utf8) (enc_i 4 L ++ bs) = Err ENeg.
Proof. exact ustr_negative. Qed.
Print Assumptions C03_string_negative.

Theorem C03_string_within_limit : forall limit utf8 items rest,
  Z.of_nat (length items) <= limit -> Z.of_nat (length items) < 2 ^ 31 ->
  (utf8 = true -> utf8_valid items = true) ->
  run (dec_ustr limit utf8) (enc_i 4 (Z.of_nat (length items)) ++ items ++ rest) = Ok (Some items, rest).
Proof. exact ustr_within. Qed.
Print Assumptions C03_string_within_limit.

Theorem C03_array_over_limit : forall A o esize (m : M A) L bs, in_i 4 L -> 0 <= max_arr o -> max_arr o < L ->
  run (dec_array o esize m) (enc_i 4 L ++ bs) = Err ELimit.
Proof. intros A. exact (@array_over A). Qed.
Print Assumptions C03_array_over_limit.

Theorem C03_array_negative : forall A o esize (m : M A) L bs, in_i 4 L -> L < -1 ->
  run (dec_array o esize m) (enc_i 4 L ++ bs) = Err ENeg.
Proof. intros A. exact (@array_negative A). Qed.
Print Assumptions C03_array_negative.

(* A chunk whose declared size exceeds max_message_size (> 0) is rejected whatever follows the
   header, and nothing was allocated (instrumentation st0): the body is never looked at. *)
Theorem C03_chunk_too_large : forall o mt fin size ch body,
  (mt = 0 \/ mt = 1 \/ mt = 2) -> (fin = 0 \/ fin = 1 \/ fin = 2) -> in_u 4 size -> in_u 4 ch ->
  0 < max_msg o < size ->
  dec_chunk o (chunk_header_bytes mt fin size ch ++ body) = (Err ELimit, st0).
Proof. exact chunk_too_large. Qed.
Print Assumptions C03_chunk_too_large.
