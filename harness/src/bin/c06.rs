//! C06: implicit Variant conversion (`Variant::convert`) and explicit cast (`Variant::cast`)
//! on the real `opcua::types::Variant`, for every numeric source/target pair.
//!
//! A case is `(mk_case op src tgt lo n extra)`: the `n` consecutive payloads `lo, lo+1, ..` followed by
//! the listed payloads `extra`, all of source type `src` (integers: the value; Float/Double: the IEEE bit
//! pattern; Boolean: 0/1; StatusCode: the bits), are converted (`op = Convert`) or cast (`op = Cast`)
//! to `tgt`.  Per payload the result is a pair (type code, payload) of the returned Variant, (-1, 0) for
//! `Variant::Empty`, (-2, 0) for a panic; NaN results are canonicalised to the quiet NaN with an empty
//! payload.  The canonical output is the run-length encoding of the pairs (type code, d) as triples
//! `[count; type code; d]`, where d = result - source payload for results of an integer type from a non-float source.
#[path = "../util.rs"]
mod util;
use opcua::server::address_space::types::AddressSpace;
use opcua::server::events::event_filter;
use opcua::types::operand::Operand;
use opcua::types::service_types::{ContentFilter, ContentFilterElement, FilterOperator};
use opcua::types::{NodeId, Variant, VariantTypeId};
use util::*;

#[derive(Clone, Copy, PartialEq, Debug)]
pub enum T { Boolean, SByte, Byte, Int16, UInt16, Int32, UInt32, Int64, UInt64, Float, Double, StatusCode }
use T::*;

pub const SRC: [T; 12] = [Boolean, SByte, Byte, Int16, UInt16, Int32, UInt32, Int64, UInt64, Float, Double, StatusCode];
pub const TGT: [T; 11] = [Boolean, SByte, Byte, Int16, UInt16, Int32, UInt32, Int64, UInt64, Float, Double];
pub const INTS: [T; 8] = [SByte, Byte, Int16, UInt16, Int32, UInt32, Int64, UInt64];

impl T {
    fn name(self) -> &'static str {
        match self {
            Boolean => "TBoolean", SByte => "TSByte", Byte => "TByte", Int16 => "TInt16", UInt16 => "TUInt16",
            Int32 => "TInt32", UInt32 => "TUInt32", Int64 => "TInt64", UInt64 => "TUInt64", Float => "TFloat",
            Double => "TDouble", StatusCode => "TStatusCode",
        }
    }
    fn id(self) -> VariantTypeId {
        match self {
            Boolean => VariantTypeId::Boolean, SByte => VariantTypeId::SByte, Byte => VariantTypeId::Byte,
            Int16 => VariantTypeId::Int16, UInt16 => VariantTypeId::UInt16, Int32 => VariantTypeId::Int32,
            UInt32 => VariantTypeId::UInt32, Int64 => VariantTypeId::Int64, UInt64 => VariantTypeId::UInt64,
            Float => VariantTypeId::Float, Double => VariantTypeId::Double, StatusCode => VariantTypeId::StatusCode,
        }
    }
    /// payload range (for floats: the range of bit patterns)
    fn range(self) -> (i128, i128) {
        match self {
            Boolean => (0, 1), SByte => (i8::MIN as i128, i8::MAX as i128), Byte => (0, u8::MAX as i128),
            Int16 => (i16::MIN as i128, i16::MAX as i128), UInt16 => (0, u16::MAX as i128),
            Int32 => (i32::MIN as i128, i32::MAX as i128), UInt32 => (0, u32::MAX as i128),
            Int64 => (i64::MIN as i128, i64::MAX as i128), UInt64 => (0, u64::MAX as i128),
            Float => (0, u32::MAX as i128), Double => (0, u64::MAX as i128), StatusCode => (0, u32::MAX as i128),
        }
    }
    fn is_float(self) -> bool { self == Float || self == Double }
    fn is_int(self) -> bool { INTS.contains(&self) }
}

/// OPC UA built-in type numbers, used as the type code of an output
fn code(v: &Variant) -> (i128, i128) {
    match v {
        Variant::Empty => (-1, 0),
        Variant::Boolean(b) => (1, *b as i128),
        Variant::SByte(x) => (2, *x as i128),
        Variant::Byte(x) => (3, *x as i128),
        Variant::Int16(x) => (4, *x as i128),
        Variant::UInt16(x) => (5, *x as i128),
        Variant::Int32(x) => (6, *x as i128),
        Variant::UInt32(x) => (7, *x as i128),
        Variant::Int64(x) => (8, *x as i128),
        Variant::UInt64(x) => (9, *x as i128),
        Variant::Float(x) => (10, if x.is_nan() { 0x7fc0_0000 } else { x.to_bits() as i128 }),
        Variant::Double(x) => (11, if x.is_nan() { 0x7ff8_0000_0000_0000 } else { x.to_bits() as i128 }),
        Variant::StatusCode(s) => (19, s.bits() as i128),
        _ => (-3, 0), // a type the model does not describe (never produced for the generated pairs)
    }
}

fn mk(t: T, p: i128) -> Variant {
    match t {
        Boolean => Variant::Boolean(p != 0),
        SByte => Variant::SByte(p as i8), Byte => Variant::Byte(p as u8),
        Int16 => Variant::Int16(p as i16), UInt16 => Variant::UInt16(p as u16),
        Int32 => Variant::Int32(p as i32), UInt32 => Variant::UInt32(p as u32),
        Int64 => Variant::Int64(p as i64), UInt64 => Variant::UInt64(p as u64),
        Float => Variant::Float(f32::from_bits(p as u32)),
        Double => Variant::Double(f64::from_bits(p as u64)),
        StatusCode => Variant::StatusCode(opcua::types::StatusCode::from_bits_truncate(p as u32)),
    }
}

#[derive(Clone, Debug)]
pub struct Conv { cast: bool, src: T, tgt: T, lo: i128, n: u32, extra: Vec<i128> }
/// one comparison through the event filter operators: (type, payload) of both literal operands
#[derive(Clone, Copy, Debug)]
pub struct Item { t1: T, p1: i128, t2: T, p2: i128 }
#[derive(Clone, Debug)]
pub enum Case { Conv(Conv), Cmp(Vec<Item>) }
pub struct P;

pub const NUM: [T; 10] = [SByte, Byte, Int16, UInt16, Int32, UInt32, Int64, UInt64, Float, Double];

thread_local! { static SPACE: AddressSpace = AddressSpace::new(); }
/// eq, gt, lt, gte, lte of two literals, evaluated by the real where-clause evaluator (operator.rs):
/// 0 / 1 per operator, -2 for a panic, -5 for an error status or a non-Boolean result
fn five(a: &Variant, b: &Variant) -> Vec<i128> {
    let ops = [FilterOperator::Equals, FilterOperator::GreaterThan, FilterOperator::LessThan,
               FilterOperator::GreaterThanOrEqual, FilterOperator::LessThanOrEqual];
    SPACE.with(|space| ops.iter().map(|op| {
        let f = ContentFilter { elements: Some(vec![ContentFilterElement {
            filter_operator: *op,
            filter_operands: Some(vec![(&Operand::literal(a.clone())).into(), (&Operand::literal(b.clone())).into()]),
        }]) };
        match guarded(|| event_filter::verif_evaluate_where_clause(&NodeId::null(), &f, space)) {
            Ok(Ok(Variant::Boolean(r))) => r as i128,
            Ok(_) => -5,
            Err(_) => -2,
        }
    }).collect())
}
/// the 64-bit pattern `bits` read as a payload of type `t` (truncated to the width of the type)
fn reinterpret(t: T, bits: u64) -> i128 {
    match t {
        SByte => bits as i8 as i128, Byte => bits as u8 as i128, Int16 => bits as i16 as i128, UInt16 => bits as u16 as i128,
        Int32 => bits as i32 as i128, UInt32 => bits as u32 as i128, Int64 => bits as i64 as i128, UInt64 => bits as i128,
        Float => (bits as i64 as f32).to_bits() as i128, Double => (bits as i64 as f64).to_bits() as i128,
        _ => 0,
    }
}
/// the number `x` as a payload of type `t`, if it is in range (floats: rounded)
fn as_payload(t: T, x: i128) -> Option<i128> {
    match t {
        Float => Some((x as f32).to_bits() as i128), Double => Some((x as f64).to_bits() as i128),
        _ => { let (lo, hi) = t.range(); if x >= lo && x <= hi { Some(x) } else { None } }
    }
}
fn cmp_points() -> Vec<i128> {
    let mut v = vec![0i128, 1, -1, 2, 5, 100, -100];
    for t in INTS { let (lo, hi) = t.range(); for d in -1..=1 { v.push(lo + d); v.push(hi + d); } }
    for k in [24u32, 53] { for d in -1..=2 { v.push((1i128 << k) + d); v.push(-(1i128 << k) - d); } }
    v.sort(); v.dedup(); v
}
/// a history of comparisons around one 64-bit pattern: the pattern under every pair of types (so the same
/// bits are seen as different numbers one after the other), in both orders, then against its neighbours
fn cmp_history(r: &mut Rng) -> Vec<Item> {
    let bits: u64 = match r.below(6) {
        0 => *r.pick(&[0u64, 1, u64::MAX, 1 << 63, (1 << 63) - 1, 1 << 31, (1 << 31) - 1, 1 << 32, (1 << 32) - 1, 0xffff_ffff_8000_0000, 0x80, 0x7f, 0xff, 0x8000, 0xffff, 0xffff_ffff_ffff_ff80,
                       (1 << 24) + 1, (1 << 53) + 1, (1u64 << 63) + (1 << 10)]),
        1 => r.next() >> r.below(64),
        2 => (r.next() >> r.below(64)).wrapping_neg(),
        3 => (1u64 << r.below(64)).wrapping_add(r.below(5)).wrapping_sub(2),
        _ => r.next(),
    };
    // one type stays on one side while the same bits come by under every numeric type on the other
    // side (so the operand that is converted has the same bit pattern, but not the same number, several
    // times in a row), each pair in both orders
    let w = *r.pick(&NUM);
    let wbits = match r.below(3) { 0 => bits, 1 => bits.wrapping_add(1), _ => r.next() >> r.below(64) };
    let pw = reinterpret(w, wbits);
    let mut v = Vec::new();
    for t2 in NUM {
        let p2 = reinterpret(t2, bits);
        v.push(Item { t1: w, p1: pw, t2, p2 });
        if r.chance(1, 2) { v.push(Item { t1: t2, p1: p2, t2: w, p2: pw }); }
    }
    v
}
fn rand_item(r: &mut Rng) -> Item {
    let t1 = *r.pick(&NUM); let t2 = *r.pick(&NUM);
    let p1 = actual(t1, rand_payload(r, t1, t2));
    let p2 = if r.chance(1, 3) {
        // the same number (or a neighbour) under the other type, when it exists there
        let x = if t1.is_float() { None } else { Some(p1 + r.range(-1, 1) as i128) };
        x.and_then(|x| as_payload(t2, x)).unwrap_or_else(|| actual(t2, rand_payload(r, t2, t1)))
    } else { actual(t2, rand_payload(r, t2, t1)) };
    Item { t1, p1, t2, p2 }
}

/// the payload a Variant of type `t` built from `p` really carries (StatusCode drops unknown bits)
fn actual(t: T, p: i128) -> i128 {
    if t == StatusCode { opcua::types::StatusCode::from_bits_truncate(p as u32).bits() as i128 } else { p }
}
fn one(cast: bool, src: T, tgt: T, p: i128) -> Case { Case::Conv(Conv { cast, src, tgt, lo: 0, n: 0, extra: vec![actual(src, p)] }) }
fn range(cast: bool, src: T, tgt: T, lo: i128, n: u32) -> Case { Case::Conv(Conv { cast, src, tgt, lo, n, extra: vec![] }) }

/// interesting integers: extremes of every integer type and their neighbours, powers of two
fn int_points() -> Vec<i128> {
    let mut v: Vec<i128> = vec![0, 1, -1, 2, -2, 3, 5, 23, 80, 100, -100];
    for t in INTS { let (lo, hi) = t.range(); for d in -2..=2 { v.push(lo + d); v.push(hi + d); } }
    for k in [7u32, 8, 15, 16, 23, 24, 25, 31, 32, 33, 52, 53, 54, 62, 63, 64] {
        for d in -2..=2 { v.push((1i128 << k) + d); v.push(-(1i128 << k) + d); }
    }
    // integers that are ties between adjacent f32 / f64 values (round-to-even must be visible)
    for (k, h) in [(24u32, 1i128), (25, 2), (53, 1), (54, 2), (40, 1 << 16), (63, 1 << 10), (63, 1 << 39)] {
        for j in 0..4 { v.push((1i128 << k) + h * (2 * j + 1)); v.push(-((1i128 << k) + h * (2 * j + 1))); }
    }
    v.sort(); v.dedup(); v
}

/// interesting doubles (as f64 values; the f32 list is derived by rounding and by neighbours)
fn f64_points(bounds_of: &[T]) -> Vec<f64> {
    let mut v: Vec<f64> = vec![0.0, -0.0, 0.5, -0.5, 0.49999999999999994, -0.49999999999999994, 1.5, -1.5, 2.5, -2.5,
        -1.6, 1.6, 1.4, -1.4, 1e30, -1e30, 1e300, -1e300, f64::NAN, f64::INFINITY, f64::NEG_INFINITY,
        f64::MIN_POSITIVE, -f64::MIN_POSITIVE, f64::from_bits(1), f64::from_bits(0x8000_0000_0000_0001),
        f64::from_bits(0x000f_ffff_ffff_ffff), f64::MAX, f64::MIN, f32::MAX as f64, f32::MIN as f64,
        (f32::MAX as f64) * 1.0000001, 3.4028235677973366e38 /* rounds to f32 inf: MAX + half ulp */,
        3.4028235677973362e38, f32::MIN_POSITIVE as f64, 1e-46, 7e-46,
        4503599627370495.5, 4503599627370496.5, 9007199254740991.0, 9007199254740992.0, 9007199254740993.0];
    for t in bounds_of {
        let (lo, hi) = t.range();
        for b in [lo as f64, hi as f64, (hi + 1) as f64] {
            for d in [-1.5, -1.0, -0.5, -0.25, 0.0, 0.25, 0.5, 1.0, 1.5] { v.push(b + d); }
            let bits = b.to_bits();
            for d in 1..=2u64 { v.push(f64::from_bits(bits + d)); if bits & 0x7fff_ffff_ffff_ffff >= d { v.push(f64::from_bits(bits - d)); } }
        }
    }
    v.push(f64::from_bits(0x7ff0_0000_0000_0001)); // signalling NaN
    v.push(f64::from_bits(0xfff8_0000_0000_1234)); // negative NaN with payload
    v
}
fn f32_points(bounds_of: &[T]) -> Vec<f32> {
    let mut v: Vec<f32> = vec![f32::from_bits(1), f32::from_bits(0x8000_0001), f32::from_bits(0x007f_ffff), f32::MIN_POSITIVE,
        f32::MAX, f32::MIN, f32::from_bits(0x7f80_0001), f32::from_bits(0xffc0_0123), 0.49999997, -0.49999997,
        8388607.5, 8388608.5, -8388607.5, 16777216.0, 16777218.0];
    for d in f64_points(bounds_of) {
        let f = d as f32;
        v.push(f);
        let b = f.to_bits();
        if f.is_finite() { v.push(f32::from_bits(b + 1)); if b & 0x7fff_ffff > 0 { v.push(f32::from_bits(b - 1)); } }
    }
    v
}

/// boundary payloads of `src`; in the quick tier a float source gets the bounds of the target type only
/// (all integer types' bounds in the thorough tier), an integer source the points near the bounds of
/// source and target and the float-precision ties
fn src_points(src: T, tgt: T, tier: &str) -> Vec<i128> {
    let (lo, hi) = src.range();
    let one = [tgt];
    let bounds_of: &[T] = if tier == "thorough" { &INTS } else if tgt.is_int() { &one } else { &[] };
    let mut v: Vec<i128> = match src {
        Float => f32_points(bounds_of).iter().map(|f| f.to_bits() as i128).collect(),
        Double => f64_points(bounds_of).iter().map(|f| f.to_bits() as i128).collect(),
        StatusCode => vec![0, 0x8000_0000, 0x8001_0000, 0x80ab_0000, 0x4000_0000, 0x40bc_0000, 0x8073_0000, 0xffff_ffff, 0x0000_ffff],
        _ => {
            let (tlo, thi) = if tgt.is_int() { tgt.range() } else { (lo, hi) };
            let near = |p: i128, b: i128| (p - b).abs() <= 2;
            int_points().into_iter().filter(|p| *p >= lo && *p <= hi)
                .filter(|p| tier == "thorough" || !tgt.is_int() || p.abs() <= 3 || near(*p, lo) || near(*p, hi) || near(*p, tlo) || near(*p, thi)
                            || [23, 80, 100, -100].contains(p))
                .collect()
        }
    };
    v.retain(|p| *p >= lo && *p <= hi);
    let mut v: Vec<i128> = v.into_iter().map(|p| actual(src, p)).collect();
    v.sort(); v.dedup(); v
}

fn rand_payload(r: &mut Rng, src: T, tgt: T) -> i128 {
    let (lo, hi) = src.range();
    let clamp = |x: i128| x.max(lo).min(hi);
    match src {
        Boolean => r.below(2) as i128,
        StatusCode => {
            match r.below(3) { 0 => (r.below(0x400) as i128) << 16 | 0x8000_0000, 1 => (r.below(0x10000) as i128) << 16, _ => r.next() as u32 as i128 }
        }
        Float | Double => {
            // as an f64 value first, then rounded to f32 for Float sources
            let (tlo, thi) = if tgt.is_int() { tgt.range() } else { (i64::MIN as i128, u64::MAX as i128) };
            let d: f64 = match r.below(10) {
                0 => f64::from_bits(r.next()),                                   // any bit pattern
                1 => { let k = r.range(-4, 70) as i32; let m = 1.0 + (r.below(1 << 20) as f64) / (1u64 << 20) as f64;
                       let s = if r.chance(1, 2) { -1.0 } else { 1.0 }; s * m * (2f64).powi(k) }
                2 => { let i = r.range(-100000, 100000) as f64; i + 0.5 }         // exact ties
                3 => { let b = *r.pick(&[tlo, thi, thi + 1]) as f64; b + *r.pick(&[-1.5, -1.0, -0.5, 0.0, 0.5, 1.0, 1.5]) }
                4 => { let b = *r.pick(&[tlo, thi, thi + 1]) as f64; let bits = b.to_bits();
                       f64::from_bits(bits.wrapping_add(r.below(5)).wrapping_sub(2)) }
                5 => { let i = (r.next() >> r.below(64)) as f64; let s = if r.chance(1, 2) { -1.0 } else { 1.0 };
                       s * (i + *r.pick(&[0.0, 0.5, 0.25, 0.75, 0.499999])) }
                6 => { let span = (thi - tlo) as f64; tlo as f64 + span * ((r.below(1 << 30) as f64) / (1u64 << 30) as f64) }
                7 => f64::from_bits(r.below(1 << 53)),                            // subnormals and tiny values
                8 => *r.pick(&[f64::NAN, f64::INFINITY, f64::NEG_INFINITY, 0.0, -0.0]),
                _ => (r.range(-70000, 70000) as f64) / 8.0,
            };
            if src == Double { d.to_bits() as i128 } else {
                let f = d as f32;
                let b = f.to_bits();
                let b = if r.chance(1, 4) { b.wrapping_add(r.below(3) as u32).wrapping_sub(1) } else { b };
                b as i128
            }
        }
        _ => {
            let (tlo, thi) = if tgt.is_int() { tgt.range() } else { (lo, hi) };
            match r.below(8) {
                0 => clamp(*r.pick(&[tlo, thi]) + r.range(-3, 3) as i128),
                1 => clamp(*r.pick(&[lo, hi]) + r.range(-3, 3) as i128),
                2 => { let k = r.below(65) as u32; let s = if r.chance(1, 2) { -1 } else { 1 }; clamp(s * ((1i128 << k) + r.range(-2, 2) as i128)) }
                3 => clamp(r.range(-300, 300) as i128),
                4 => { // near a tie of the float formats
                    let p = *r.pick(&[24u32, 53]);
                    let k = p + r.below(64 - p as u64) as u32;       // bit length k + 1 exceeds the precision
                    let sh = k + 1 - p;                               // low bits the format drops
                    let base = (1i128 << k) | ((r.next() as i128 & ((1i128 << k) - 1)) >> sh << sh);
                    let s = if r.chance(1, 2) { -1 } else { 1 };
                    clamp(s * (base + (1i128 << (sh - 1)) + r.range(-1, 1) as i128)) }
                _ => { let x = (r.next() >> r.below(64)) as i128; clamp(if lo < 0 && r.chance(1, 2) { -x } else { x }) }
            }
        }
    }
}

impl Property for P {
    type Case = Case;
    fn fixed(tier: &str) -> Vec<Case> {
        let mut v = vec![
            // witnesses of the defects repaired by the two fix commits
            one(false, UInt32, Int32, 4_000_000_000),                 // wrapped to -294967296
            one(false, Byte, SByte, 200), one(false, UInt16, Int16, 40000), one(false, UInt64, Int64, u64::MAX as i128),
            one(true, Double, Int32, (-1.6f64).to_bits() as i128),    // trunc(v + 0.5) gave -1
            one(true, Double, Int32, f64::NAN.to_bits() as i128),     // gave 0
            one(true, Double, UInt64, (1e30f64).to_bits() as i128),   // gave u64::MAX
            one(true, Float, Int64, (-2.5f32).to_bits() as i128),
            // explicit cast UInt64 -> Int32 had no arm at all
            one(true, UInt64, Int32, 5), one(true, UInt64, Int32, i32::MAX as i128), one(true, UInt64, Int32, i32::MAX as i128 + 1),
        ];
        // every pair, both operations, on the boundary values of the source type
        for cast in [false, true] {
            for src in SRC {
                for tgt in TGT {
                    let pts = src_points(src, tgt, tier);
                    for ch in pts.chunks(64) { v.push(Case::Conv(Conv { cast, src, tgt, lo: 0, n: 0, extra: ch.to_vec() })); }
                }
            }
        }
        // comparisons through operator.rs: every ordered pair of numeric types on the boundary numbers of
        // both types (the same number under both types where it exists, and its neighbours)
        let pts = cmp_points();
        for t1 in NUM {
            for t2 in NUM {
                let mut items = Vec::new();
                for x in &pts {
                    if let Some(p1) = as_payload(t1, *x) {
                        for d in [0i128, 1, -1] {
                            if let Some(p2) = as_payload(t2, *x + d) { if items.len() < 60 || tier == "thorough" { items.push(Item { t1, p1, t2, p2 }); } }
                        }
                    }
                }
                // out of the other type's range on either side
                let (lo2, hi2) = if t2.is_float() { t1.range() } else { t2.range() };
                for x in [lo2 - 1, hi2 + 1, lo2, hi2] { if let Some(p1) = as_payload(t1, x) { if let Some(p2) = as_payload(t2, 0) { items.push(Item { t1, p1, t2, p2 }); } } }
                if t1.is_float() { for b in [f64::NAN, f64::INFINITY, f64::NEG_INFINITY, -0.0, 0.5, 1e30] {
                    let p1 = if t1 == Float { (b as f32).to_bits() as i128 } else { b.to_bits() as i128 };
                    for y in [0i128, 1, -1] { if let Some(p2) = as_payload(t2, y) { items.push(Item { t1, p1, t2, p2 }); items.push(Item { t1: t2, p1: p2, t2: t1, p2: p1 }); } }
                } }
                for ch in items.chunks(40) { v.push(Case::Cmp(ch.to_vec())); }
            }
        }
        // the same bits under different types, one after the other
        v.push(Case::Cmp(vec![Item { t1: Int64, p1: 7, t2: Int32, p2: -1 }, Item { t1: Int64, p1: 7, t2: UInt64, p2: u64::MAX as i128 },
                              Item { t1: UInt64, p1: 7, t2: Int32, p2: -1 }, Item { t1: UInt64, p1: 7, t2: UInt32, p2: u32::MAX as i128 },
                              Item { t1: UInt64, p1: 1 << 63, t2: Int32, p2: 1 }, Item { t1: Int32, p1: 2, t2: Double, p2: (1.6f64).to_bits() as i128 },
                              Item { t1: Double, p1: (1.6f64).to_bits() as i128, t2: Int32, p2: 2 }, Item { t1: Int32, p1: -1, t2: UInt64, p2: 5 }, Item { t1: Int32, p1: 0, t2: UInt64, p2: u64::MAX as i128 }]));
        if tier == "thorough" {
            // exhaustive: all 8-bit sources (one range per pair and operation)
            for cast in [false, true] {
                for src in [SByte, Byte] {
                    for tgt in TGT { v.push(range(cast, src, tgt, src.range().0, 256)); }
                }
            }
            // exhaustive: all 16-bit sources, in ranges of consecutive values (the run-length encoded
            // output of a range is short unless the results are floats)
            for cast in [false, true] {
                for src in [Int16, UInt16] {
                    for tgt in TGT {
                        let (lo, _) = src.range();
                        let size: i128 = if tgt.is_float() { 512 } else { 8192 };
                        for b in 0..(65536 / size) { v.push(range(cast, src, tgt, lo + size * b, size as u32)); }
                    }
                }
            }
        }
        v
    }
    fn gen(r: &mut Rng) -> Case {
        if r.chance(1, 4) {
            return if r.chance(1, 2) { Case::Cmp(cmp_history(r)) } else { let k = 1 + r.below(8); Case::Cmp((0..k).map(|_| rand_item(r)).collect()) };
        }
        let cast = r.chance(1, 2);
        let src = *r.pick(&SRC);
        let tgt = *r.pick(&TGT);
        if (src == Int16 || src == UInt16) && r.chance(1, 3) {
            // a shard of the exhaustive 16-bit enumeration
            return range(cast, src, tgt, src.range().0 + 64 * r.below(1024) as i128, 64);
        }
        if (src == SByte || src == Byte) && r.chance(1, 2) {
            // a shard of the exhaustive 8-bit enumeration
            return range(cast, src, tgt, src.range().0 + 64 * r.below(4) as i128, 64);
        }
        if r.chance(1, 2) {
            // several independent payloads for the same pair
            let k = 2 + r.below(7);
            let extra = (0..k).map(|_| actual(src, rand_payload(r, src, tgt))).collect();
            return Case::Conv(Conv { cast, src, tgt, lo: 0, n: 0, extra });
        }
        let p = rand_payload(r, src, tgt);
        if src.is_float() && r.chance(1, 6) {
            // a run of adjacent bit patterns around the value
            let (_, hi) = src.range();
            let lo = (p - 4).max(0).min(hi - 8);
            return range(cast, src, tgt, lo, 8);
        }
        one(cast, src, tgt, p)
    }
    fn exec(c: &Case) -> Out {
        let c = match c {
            Case::Conv(c) => c,
            Case::Cmp(items) => {
                let mut out = Vec::new();
                let (mut any_err, mut any_ok, mut mixed) = (false, false, false);
                for i in items {
                    let a = mk(i.t1, i.p1); let b = mk(i.t2, i.p2);
                    let r = five(&a, &b);
                    // the same comparison again: the answer may not depend on what was compared before
                    let again = five(&a, &b);
                    if r.iter().all(|x| *x == 0) { any_err = true } else { any_ok = true }
                    if i.t1 != i.t2 { mixed = true }
                    out.extend(r.iter().cloned());
                    if again != r { out.push(-4); }
                }
                let term = format!("(CCmp {})", coq_list(items, |i: &Item| format!("(mk_item {} {} {} {})", i.t1.name(), z(i.p1), i.t2.name(), z(i.p2))));
                let fl = items.iter().any(|i| i.t1.is_float() || i.t2.is_float());
                let tag = format!("compare-{}{}{}", if fl { "float" } else { "int" }, if mixed { "-mixedtypes" } else { "" },
                                  match (any_ok, any_err) { (true, true) => "-some-allfalse", (true, false) => "", _ => "-allfalse" });
                return Out { tag, term, out };
            }
        };
        let ps: Vec<i128> = (0..c.n as i128).map(|i| c.lo + i).chain(c.extra.iter().cloned()).collect();
        // run-length encoding of the pairs (type code, d): d = result - source payload for integer results
        let mut runs: Vec<(i128, i128, i128)> = Vec::new();
        let mut some = false;
        let mut none = false;
        for p in &ps {
            let v = mk(c.src, *p);
            let r = guarded(|| if c.cast { v.cast(c.tgt.id()) } else { v.convert(c.tgt.id()) });
            let (t, w) = match r { Ok(r) => code(&r), Err(_) => (-2, 0) };
            if t == -1 { none = true } else { some = true }
            let d = if (2..=9).contains(&t) && !c.src.is_float() { w - *p } else { w };
            match runs.last_mut() {
                Some(last) if last.1 == t && last.2 == d => last.0 += 1,
                _ => runs.push((1, t, d)),
            }
        }
        let out: Vec<i128> = runs.iter().flat_map(|r| [r.0, r.1, r.2]).collect();
        let kind = |t: T| if t.is_float() { "float" } else if t.is_int() { "int" } else if t == Boolean { "bool" } else { "status" };
        let tag = format!("{}-{}-to-{}{}{}", if c.cast { "cast" } else { "convert" }, kind(c.src), kind(c.tgt),
            if c.n > 1 { "-range" } else if ps.len() > 1 { "-list" } else { "" },
            match (some, none) { (true, true) => "-mixed", (true, false) => "-some", _ => "-none" });
        let term = format!("(CConv (mk_case {} {} {} {} {} {}))", if c.cast { "Cast" } else { "Convert" }, c.src.name(), c.tgt.name(), z(c.lo), z(c.n as i128), zlist(c.extra.iter().cloned()));
        Out { tag, term, out }
    }
}
fn main() { run_main::<P>() }
