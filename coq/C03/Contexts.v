(* C03 — symbolic evaluation of the decoders on the fixed prefixes of the 20 nesting contexts:
   after the prefix the decoder is at the length field, i.e. it continues as the string / byte
   string / array decoder on the remaining bytes, and its result is only wrapped. *)
From Coq Require Import List ZArith Bool Lia.
Import ListNotations.
From OV Require Import C01.Codec C01.CodecProofs C01.Builtins C01.BuiltinsProofs C01.VariantProofs
  C01.Types C01.TypesProofs C01.Model C03.Model.
Open Scope Z_scope.
Local Notation run := Codec.run.

Definition omap {A B} (f : A -> B) (r : outcome (A * bytes)) : outcome (B * bytes) :=
  match r with Ok (a, rest) => Ok (f a, rest) | Err e => Err e | Panic p => Panic p end.

Lemma run_bind_omap {A B} (m : M A) (f : A -> B) bs : run (x <- m ;; ret (f x)) bs = omap f (run m bs).
Proof. rewrite run_bind. destruct (run m bs) as [[a r]|e|p]; reflexivity. Qed.

(* reads on explicit cons cells, unconditional *)
Lemma run_u1 b rest : run (read_u 1) (b :: rest) = Ok (b, rest).
Proof.
  unfold read_u. rewrite run_bind. change (b :: rest) with ([b] ++ rest).
  rewrite (run_take_n 1) by reflexivity. rewrite run_ret. cbn [le_dec]. f_equal. f_equal. lia.
Qed.
Lemma run_u2 a b rest : run (read_u 2) (a :: b :: rest) = Ok (a + 256 * b, rest).
Proof.
  unfold read_u. rewrite run_bind. change (a :: b :: rest) with ([a; b] ++ rest).
  rewrite (run_take_n 2) by reflexivity. rewrite run_ret. cbn [le_dec]. f_equal. f_equal. lia.
Qed.
Lemma run_i4 a b c d rest :
  run (read_i 4) (a :: b :: c :: d :: rest) = Ok (signed 4 (a + 256 * (b + 256 * (c + 256 * d))), rest).
Proof.
  unfold read_i. rewrite run_bind. change (a :: b :: c :: d :: rest) with ([a; b; c; d] ++ rest).
  rewrite (run_take_n 4) by reflexivity. rewrite run_ret. cbn [le_dec]. f_equal. f_equal. f_equal. lia.
Qed.

(* compute closed boolean / arithmetic tests *)
Ltac closed_bool t :=
  let v := eval vm_compute in t in
  match v with true => change t with true | false => change t with false end.
Ltac closed_z t :=
  let v := eval vm_compute in t in
  match v with Z0 => change t with v | Zpos _ => change t with v | Zneg _ => change t with v end.
Ltac compute_closed :=
  repeat match goal with
  | |- context [Z.testbit ?a ?b] => closed_bool (Z.testbit a b)
  | |- context [?a mod 64] => closed_z (a mod 64)
  | |- context [?a mod 16] => closed_z (a mod 16)
  | |- context [signed 4 ?a] => closed_z (signed 4 a)
  | |- context [?a =? ?b] => closed_bool (a =? b)
  | |- context [?a <=? ?b] => closed_bool (a <=? b)
  | |- context [?a <? ?b] => closed_bool (a <? b)
  | |- context [known_ty ?a] => closed_bool (known_ty a)
  end.
Ltac ev1 :=
  first
  [ rewrite run_bind_omap
  | rewrite run_bind
  | rewrite run_ret | rewrite run_fail | rewrite run_bump | rewrite run_alloc | rewrite run_lock
  | rewrite run_u1 | rewrite run_u2 | rewrite run_i4
  | rewrite dec_variant_eq; cbv zeta
  | progress compute_closed
  | progress cbn [app dec_opt is_some fst snd negb andb orb omap] ].
Ltac ev := repeat ev1.

Definition same_shape {A B} (r1 : outcome (A * bytes)) (r2 : outcome (B * bytes)) : Prop :=
  match r1, r2 with
  | Ok (_, x), Ok (_, y) => x = y
  | Err _, Err _ => True
  | Panic _, Panic _ => True
  | _, _ => False
  end.
Definition rejected {A} (r : outcome (A * bytes)) : Prop := exists e, r = Err e.

Ltac fin := match goal with |- same_shape _ (Codec.run ?m ?bs) => destruct (Codec.run m bs) as [[?x ?r]|?e|?p]; cbn [omap]; ev; cbn [omap same_shape]; auto end.
Ltac unf := unfold dec_value, dec_scalar, dec_nodeid, dec_nodeid_body, dec_expnid, dec_ltext, dec_ext, dec_dv,
                   dec_dv_fields, dec_array, dec_str, dec_bstr, esize, esize_scalar.

(* string-like contexts: after the prefix the decoder is dec_ustr *)
Section Str.
  Variable o : opts.
  Notation S := (dec_ustr (max_str o) true).
  Notation Bs := (dec_ustr (max_bstr o) false).

  Lemma ctx1 d bs : same_shape (run (dec_ty (TS 12) o d) bs) (run S bs).
  Proof. cbn [dec_ty]. unfold dec_scalar, dec_str. ev. fin. Qed.
  Lemma ctx2 d bs : same_shape (run (dec_ty (TS 15) o d) bs) (run Bs bs).
  Proof. cbn [dec_ty]. unfold dec_scalar, dec_bstr. ev. fin. Qed.
  Lemma ctx3 d bs : same_shape (run (dec_ty TVar o d) (12 :: bs)) (run S bs).
  Proof. cbn [dec_ty]. ev. unfold dec_value, dec_scalar, dec_str. ev. fin. Qed.
  Lemma ctx4 d bs : same_shape (run (dec_ty TVar o d) (15 :: bs)) (run Bs bs).
  Proof. cbn [dec_ty]. ev. unfold dec_value, dec_scalar, dec_bstr. ev. fin. Qed.
  Lemma ctx9 d bs : same_shape (run (dec_ty (TS 17) o d) (3 :: 0 :: 0 :: bs)) (run S bs).
  Proof. cbn [dec_ty]. unfold dec_scalar. ev. unfold dec_nodeid. ev. unfold dec_nodeid_body, dec_str. ev. fin. Qed.
  Lemma ctx19 d bs : same_shape (run (dec_ty (TS 17) o d) (5 :: 0 :: 0 :: bs)) (run Bs bs).
  Proof. cbn [dec_ty]. unfold dec_scalar. ev. unfold dec_nodeid. ev. unfold dec_nodeid_body, dec_bstr. ev. fin. Qed.
  Lemma ctx13 d bs : same_shape (run (dec_ty (TS 21) o d) (2 :: bs)) (run S bs).
  Proof. cbn [dec_ty]. unfold dec_scalar. ev. unfold dec_ltext, dec_str. ev. fin. Qed.
  Lemma ctx14 d bs : same_shape (run (dec_ty (TS 20) o d) (0 :: 0 :: bs)) (run S bs).
  Proof. cbn [dec_ty]. unfold dec_scalar, dec_str. ev. fin. Qed.
  Lemma ctx16 d bs : same_shape (run (dec_ty (TS 18) o d) (128 :: 0 :: bs)) (run S bs).
  Proof. cbn [dec_ty]. unfold dec_scalar. ev. unfold dec_expnid. ev. unfold dec_nodeid_body, dec_str. ev. fin. Qed.
  Lemma ctx15 d bs : same_shape (run (dec_ty (TS 25) o (Datatypes.S d)) (16 :: bs)) (run S bs).
  Proof. cbn [dec_ty]. unfold dec_scalar. ev. cbn [dec_diag]. unfold dec_str. ev. fin. Qed.
  Lemma ctx15_bad bs : rejected (run (dec_ty (TS 25) o O) (16 :: bs)).
  Proof. cbn [dec_ty]. unfold dec_scalar. ev. cbn [dec_diag]. ev. eexists; reflexivity. Qed.
  Lemma ctx11 d bs : same_shape (run (dec_ty (TS 22) o (Datatypes.S d)) (0 :: 0 :: 2 :: bs)) (run S bs).
  Proof. cbn [dec_ty]. unfold dec_scalar. ev. unfold dec_ext. ev. unfold dec_nodeid. ev. unfold dec_nodeid_body, dec_str. ev. fin. Qed.
  Lemma ctx11_bad bs : rejected (run (dec_ty (TS 22) o O) (0 :: 0 :: 2 :: bs)).
  Proof. cbn [dec_ty]. unfold dec_scalar. ev. unfold dec_ext. ev. eexists; reflexivity. Qed.
  Lemma ctx12 d bs : same_shape (run (dec_ty (TS 22) o (Datatypes.S d)) (0 :: 0 :: 1 :: bs)) (run Bs bs).
  Proof. cbn [dec_ty]. unfold dec_scalar. ev. unfold dec_ext. ev. unfold dec_nodeid. ev. unfold dec_nodeid_body, dec_bstr. ev. fin. Qed.
  Lemma ctx12_bad bs : rejected (run (dec_ty (TS 22) o O) (0 :: 0 :: 1 :: bs)).
  Proof. cbn [dec_ty]. unfold dec_scalar. ev. unfold dec_ext. ev. eexists; reflexivity. Qed.
  Lemma ctx10 d bs : same_shape (run (dec_ty TDV o (Datatypes.S d)) (1 :: 12 :: bs)) (run S bs).
  Proof. cbn [dec_ty]. ev. unfold dec_dv. ev. unfold dec_dv_fields. ev. unfold dec_value, dec_scalar, dec_str. ev. fin. Qed.
  Lemma ctx10_bad bs : rejected (run (dec_ty TDV o O) (1 :: 12 :: bs)).
  Proof. cbn [dec_ty]. ev. unfold dec_dv. ev. eexists; reflexivity. Qed.
  Lemma ctx21 d bs : same_shape (run (dec_ty (TS 16) o d) bs) (run S bs).
  Proof. cbn [dec_ty]. unfold dec_scalar, dec_str. ev. fin. Qed.
  Lemma ctx22 d bs : same_shape (run (dec_ty (TS 21) o d) (1 :: bs)) (run S bs).
  Proof. cbn [dec_ty]. unfold dec_scalar. ev. unfold dec_ltext, dec_str. ev. fin. Qed.
  Lemma ctx23 d bs : same_shape (run (dec_ty TVar o d) (16 :: bs)) (run S bs).
  Proof. cbn [dec_ty]. ev. unfold dec_value, dec_scalar, dec_str. ev. fin. Qed.

  (* the prefix declares an array of one element *)
  Ltac one := change (Z.to_nat 1) with 1%nat; cbn [dec_n].
  Lemma ctx8 d bs : (max_arr o <? 1) = false ->
    same_shape (run (dec_ty (TArr (TS 12)) o d) (1 :: 0 :: 0 :: 0 :: bs)) (run S bs).
  Proof. intros Ha. cbn [dec_ty]. unfold dec_array. ev. rewrite Ha. ev. one. unfold dec_scalar, dec_str. ev. fin. Qed.
  Lemma ctx8_bad d bs : (max_arr o <? 1) = true ->
    rejected (run (dec_ty (TArr (TS 12)) o d) (1 :: 0 :: 0 :: 0 :: bs)).
  Proof. intros Ha. cbn [dec_ty]. unfold dec_array. ev. rewrite Ha. ev. eexists; reflexivity. Qed.
  Lemma ctx17 d bs : (max_arr o <? 1) = false ->
    same_shape (run (dec_ty TVar o d) (140 :: 1 :: 0 :: 0 :: 0 :: bs)) (run S bs).
  Proof. intros Ha. cbn [dec_ty]. ev. rewrite Ha. ev. one. unfold dec_value, dec_scalar, dec_str. ev. fin. Qed.
  Lemma ctx17_bad d bs : (max_arr o <? 1) = true ->
    rejected (run (dec_ty TVar o d) (140 :: 1 :: 0 :: 0 :: 0 :: bs)).
  Proof. intros Ha. cbn [dec_ty]. ev. rewrite Ha. ev. eexists; reflexivity. Qed.
  Lemma ctx18 d bs : (max_arr o <? 1) = false ->
    same_shape (run (dec_ty TVar o (Datatypes.S (Datatypes.S d))) (24 :: 23 :: 1 :: 143 :: 1 :: 0 :: 0 :: 0 :: bs)) (run Bs bs).
  Proof.
    intros Ha. cbn [dec_ty]. ev. unfold dec_value at 1. ev. unfold dec_value at 1. ev. unfold dec_dv_fields. ev.
    rewrite Ha. ev. one. unfold dec_value, dec_scalar, dec_bstr. ev. fin.
  Qed.
  Lemma ctx18_bad d bs : (d < 2)%nat \/ (max_arr o <? 1) = true ->
    rejected (run (dec_ty TVar o d) (24 :: 23 :: 1 :: 143 :: 1 :: 0 :: 0 :: 0 :: bs)).
  Proof.
    intros H. cbn [dec_ty]. ev. unfold dec_value at 1. ev.
    destruct d as [|[|d]]; [eexists; reflexivity| |].
    - ev. unfold dec_value at 1. ev. eexists; reflexivity.
    - destruct H as [H|Ha]; [lia|]. ev. unfold dec_value at 1. ev. unfold dec_dv_fields. ev. rewrite Ha. ev.
      eexists; reflexivity.
  Qed.
End Str.
