(* C27 — proofs.  The scheduling theorems are proved for Subscriptions::tick with ANY
   per-subscription tick function that keeps a subscription's id and priority ([stick], a
   section variable); they are then instantiated with the model of Subscription::tick. *)
From Coq Require Import List ZArith Bool Lia Permutation Sorted.
Import ListNotations.
From OV Require Import C21.SysLemmas C27.Model.
Open Scope Z_scope.

(* ----------------------------------------------------------------- lists of priorities *)
Lemma ni_cons2 a b l : non_increasing (a :: b :: l) = (b <=? a) && non_increasing (b :: l).
Proof. reflexivity. Qed.
Lemma tr_cons2 a b l :
  two_runs (a :: b :: l) = if b <=? a then two_runs (b :: l) else non_increasing (b :: l).
Proof. reflexivity. Qed.

Lemma non_increasing_app a b :
  non_increasing a = true -> non_increasing b = true ->
  (forall x y, In x a -> In y b -> y <= x) -> non_increasing (a ++ b) = true.
Proof.
  induction a as [|x a IH]; intros Ha Hb Hab; [exact Hb|].
  destruct a as [|x' a'].
  - cbn [app]. destruct b as [|y b']; [reflexivity|].
    rewrite ni_cons2, Hb.
    assert (y <= x) by (apply Hab; left; reflexivity).
    destruct (Z.leb_spec y x); [reflexivity|lia].
  - rewrite ni_cons2 in Ha. apply andb_true_iff in Ha as [H1 H2].
    change ((x :: x' :: a') ++ b) with (x :: x' :: (a' ++ b)). rewrite ni_cons2, H1. cbn [andb].
    apply (IH H2 Hb). intros u v Hu Hv. apply Hab; [right; exact Hu | exact Hv].
Qed.

Lemma non_increasing_const x l : (forall y, In y l -> y = x) -> non_increasing l = true.
Proof.
  induction l as [|a l IH]; intros H; [reflexivity|].
  destruct l as [|b l']; [reflexivity|].
  rewrite ni_cons2, IH by (intros y Hy; apply H; right; exact Hy).
  rewrite (H a) by (left; reflexivity). rewrite (H b) by (right; left; reflexivity).
  rewrite Z.leb_refl. reflexivity.
Qed.

Lemma two_runs_of_non_increasing l : non_increasing l = true -> two_runs l = true.
Proof.
  induction l as [|a l IH]; [reflexivity|]. destruct l as [|b l']; [reflexivity|].
  rewrite ni_cons2, tr_cons2. intros H. apply andb_true_iff in H as [H1 H2].
  rewrite H1. apply IH. exact H2.
Qed.

Lemma two_runs_app a b :
  non_increasing a = true -> non_increasing b = true -> two_runs (a ++ b) = true.
Proof.
  induction a as [|x a IH]; intros Ha Hb; [apply two_runs_of_non_increasing; exact Hb|].
  destruct a as [|x' a'].
  - cbn [app]. destruct b as [|y b']; [reflexivity|]. rewrite tr_cons2.
    destruct (y <=? x); [apply two_runs_of_non_increasing; exact Hb | exact Hb].
  - rewrite ni_cons2 in Ha. apply andb_true_iff in Ha as [H1 H2].
    change ((x :: x' :: a') ++ b) with (x :: x' :: (a' ++ b)). rewrite tr_cons2, H1.
    apply (IH H2 Hb).
Qed.

(* ------------------------------------------------------------- the stable priority sort *)
Definition desc (a b : Z * Z) : Prop := snd b <= snd a.

Lemma ins_prio_sorted x l : StronglySorted desc l -> StronglySorted desc (ins_prio x l).
Proof.
  induction l as [|y r IH]; intros Hs; cbn [ins_prio].
  - constructor; constructor.
  - inversion Hs as [|y' r' Hr Hall]; subst.
    destruct (Z.ltb_spec (snd x) (snd y)) as [Hlt|Hge].
    + constructor; [apply IH; exact Hr|].
      eapply Permutation_Forall; [symmetry; apply ins_prio_perm|].
      constructor; [unfold desc; lia | exact Hall].
    + constructor; [exact Hs|].
      constructor; [unfold desc; lia|].
      eapply Forall_impl; [|exact Hall]. unfold desc. intros a Ha. lia.
Qed.

Lemma sorted_pairs_sorted subs : StronglySorted desc (sorted_pairs subs).
Proof.
  unfold sorted_pairs. induction subs as [|s r IH]; cbn [map fold_right]; [constructor|].
  apply ins_prio_sorted. exact IH.
Qed.

Lemma prio_order_sorted (P : Z -> Z) subs :
  (forall s, In s subs -> s_prio s = P (s_id s)) ->
  StronglySorted (fun a b => P b <= P a) (prio_order subs).
Proof.
  intros HP. unfold prio_order. fold (sorted_pairs subs).
  assert (Hall : Forall (fun e => snd e = P (fst e)) (sorted_pairs subs)).
  { eapply Permutation_Forall; [symmetry; apply sorted_pairs_perm|].
    apply Forall_forall. intros e He. apply in_map_iff in He as (s & E & Hs). subst e.
    cbn [fst snd]. apply HP. exact Hs. }
  pose proof (sorted_pairs_sorted subs) as Hs.
  induction Hs as [|e l Hl IH Hfa]; cbn [map]; [constructor|].
  inversion Hall as [|e' l' He Hl']; subst.
  constructor; [apply IH; exact Hl'|].
  apply Forall_forall. intros i Hi. apply in_map_iff in Hi as (e' & E & He'). subst i.
  rewrite Forall_forall in Hfa, Hl'. specialize (Hfa e' He'). unfold desc in Hfa.
  rewrite <- (Hl' e' He'), <- He. exact Hfa.
Qed.

(* pair_up_spec, tick_ids_cons, tick_ids_no_reqs, after_step*, tick_ids_frame, tick_ids_subs:
   see C21/SysLemmas.v (shared with C21) *)
Lemma transmit_subs : forall tx rt, resp_subs (snd (transmit tx rt)) = tx_ids tx.
Proof.
  induction tx as [|[[id q] m] r IH]; intros rt; [reflexivity|].
  cbn [transmit]. destruct (transmit r _) as [rt2 rs] eqn:E. cbn [snd resp_subs flat_map tx_ids map fst app].
  f_equal. specialize (IH (rt_insert (id, m_seq m) m rt)). rewrite E in IH. exact IH.
Qed.

Section Scheduling.
Variable stick : sub -> list Z -> Z -> bool -> bool -> option sub.
Hypothesis stick_static : forall s vars now timer rq s',
  stick s vars now timer rq = Some s' -> s_id s' = s_id s /\ s_prio s' = s_prio s.
Variables (vars : list Z) (now : Z) (timer : bool).

(* the scheduling theorem for one round: the subscriptions are visited in the order [idl],
   which is sorted by non-increasing priority P *)
Lemma tick_ids_prio (P : Z -> Z) : forall idl subs reqs subs' reqs' tx,
  StronglySorted (fun a b => P b <= P a) idl -> NoDup idl -> NoDup (ids subs) ->
  tick_ids_g stick idl subs reqs vars now timer = Some (subs', reqs', tx) ->
  (forall i, In i (tx_ids tx) -> In i idl) /\
  non_increasing (map P (tx_ids tx)) = true /\
  (forall i s', In i (tx_ids tx) -> In s' subs' -> In (s_id s') idl -> P i < P (s_id s') ->
                s_notifs s' = []).
Proof.
  induction idl as [|id r IH]; intros subs reqs subs' reqs' tx Hsort Hnd Hnds H.
  - cbn in H. inversion H; subst. repeat split; [intros i []|intros i s' []].
  - inversion Hsort as [|a l Hsr Hall]; subst. inversion Hnd as [|a l Hnotin Hndr]; subst.
    apply tick_ids_cons in H as (s & s1 & tx1 & reqs1 & ns & tx2 & Hf & Hs & Hp & Hr & ->).
    pose proof (stick_static _ _ _ _ _ _ Hs) as [Hid Hpr].
    pose proof (find_sub_some _ _ _ Hf) as [Hin Hsid].
    fold (after_step id s1 ns subs) in Hr.
    pose proof (after_step_nodup id s1 ns subs Hnds) as Hnd1.
    destruct (IH _ _ _ _ _ Hsr Hndr Hnd1 Hr) as (A & B & C).
    destruct (pair_up_spec _ _ _ _ _ _ Hp) as (P1 & P2 & P3).
    rewrite Forall_forall in Hall.
    unfold tx_ids in *. rewrite map_app. repeat split.
    + intros i Hi. apply in_app_iff in Hi as [Hi|Hi]; [left; symmetry; apply P1; exact Hi | right; apply A; exact Hi].
    + rewrite map_app. apply non_increasing_app.
      * apply (non_increasing_const (P id)). intros y Hy. apply in_map_iff in Hy as (i & <- & Hi).
        f_equal. apply P1. exact Hi.
      * exact B.
      * intros x y Hx Hy. apply in_map_iff in Hx as (i & <- & Hi). apply in_map_iff in Hy as (j & <- & Hj).
        rewrite (P1 i Hi). apply Hall. apply A. exact Hj.
    + intros i s' Hi Hs' Hidl Hlt. apply in_app_iff in Hi as [Hi|Hi].
      * (* answered subscription is the head: every other id of the order has priority <= *)
        rewrite (P1 i Hi) in Hlt. destruct Hidl as [E|Hidl]; [rewrite <- E in Hlt; lia|].
        specialize (Hall _ Hidl). cbn in Hall. lia.
      * destruct Hidl as [E|Hidl]; [|apply (C i s' Hi Hs' Hidl Hlt)].
        (* the head subscription was visited before [i] was answered: requests were left
           after its turn, so its queue was drained, and nobody touched it afterwards *)
        assert (Hreq : reqs1 <> []).
        { intros ->. apply tick_ids_no_reqs in Hr as [-> _]. destruct Hi. }
        specialize (P2 Hreq). subst ns.
        pose proof (tick_ids_subs stick stick_static _ _ _ _ _ _ _ _ _ Hr) as (N1 & _ & _).
        pose proof (find_sub_in subs' s' (N1 Hnd1) Hs') as Hfs'.
        rewrite <- E in Hfs'.
        rewrite (tick_ids_frame stick stick_static _ _ _ _ _ _ _ _ _ id Hr Hnotin) in Hfs'.
        unfold after_step in Hfs'. destruct (_ && _).
        -- rewrite find_remove_same in Hfs' by exact Hnds. discriminate.
        -- assert (Hid2 : s_id (set_notifs s1 []) = id) by (cbn; congruence).
           rewrite <- Hid2 in Hfs' at 1. rewrite find_replace_same in Hfs'.
           ++ inversion Hfs'. reflexivity.
           ++ rewrite Hid2. unfold ids. rewrite <- Hsid. apply in_map. exact Hin.
Qed.

End Scheduling.

(* Subscriptions::tick as a whole *)
Section Rounds.
Variable stick : sub -> list Z -> Z -> bool -> bool -> option sub.
Hypothesis stick_static : forall s vars now timer rq s',
  stick s vars now timer rq = Some s' -> s_id s' = s_id s /\ s_prio s' = s_prio s.

Lemma sys_tick_prio (P : Z -> Z) y timer y' rs :
  NoDup (ids (y_subs y)) -> (forall s, In s (y_subs y) -> s_prio s = P (s_id s)) ->
  sys_tick_g prio_order stick y timer = Some (y', rs) ->
  non_increasing (map P (resp_subs rs)) = true /\
  (forall i s', In i (resp_subs rs) -> In s' (y_subs y') -> P i < P (s_id s') -> s_notifs s' = []) /\
  NoDup (ids (y_subs y')) /\ y_nextsub y' = y_nextsub y /\
  (forall s', In s' (y_subs y') -> exists s, In s (y_subs y) /\ s_id s' = s_id s /\ s_prio s' = s_prio s).
Proof.
  intros Hnd HP. unfold sys_tick_g, bind.
  destruct (tick_ids_g stick _ _ _ _ _ _) as [[[subs reqs] tx]|] eqn:E; [|discriminate].
  destruct (transmit tx (y_retrans y)) as [rt rs'] eqn:Et. intros H; inversion H; subst. clear H.
  cbn [y_subs y_nextsub set_retrans set_reqs set_subs].
  pose proof (transmit_subs tx (y_retrans y)) as Hrs. rewrite Et in Hrs. cbn [snd] in Hrs. rewrite Hrs.
  pose proof (prio_order_perm (y_subs y)) as Hperm.
  assert (Hnd' : NoDup (prio_order (y_subs y))).
  { eapply Permutation_NoDup; [symmetry; exact Hperm | exact Hnd]. }
  destruct (tick_ids_prio stick stick_static _ _ _ P _ _ _ _ _ _
              (prio_order_sorted P _ HP) Hnd' Hnd E) as (A & B & C).
  destruct (tick_ids_subs stick stick_static _ _ _ _ _ _ _ _ _ E) as (N1 & N2 & N3).
  repeat split; auto.
  intros i s' Hi Hs' Hlt. apply (C i s' Hi Hs'); [|exact Hlt].
  eapply Permutation_in; [symmetry; exact Hperm|]. apply N2. unfold ids. apply in_map. exact Hs'.
Qed.
End Rounds.

Lemma sub_tick_keeps s vars now timer rq s' :
  sub_tick s vars now timer rq = Some s' -> s_id s' = s_id s /\ s_prio s' = s_prio s.
Proof. intros H. apply sub_tick_static in H. destruct H as (H1 & H2 & _). auto. Qed.

(* --------------------------------------------------------------- invariant of a history *)
Lemma create_prios_app a b : create_prios (a ++ b) = create_prios a ++ create_prios b.
Proof.
  induction a as [|o a IH]; [reflexivity|]. destruct o; cbn [app create_prios]; rewrite ?IH; reflexivity.
Qed.

(* after the operations [pre] of case c *)
Definition Inv (c : case) (pre : list op) (y : sys) : Prop :=
  NoDup (ids (y_subs y)) /\
  y_nextsub y = 1 + len (create_prios pre) /\
  (forall s, In s (y_subs y) -> 1 <= s_id s < y_nextsub y /\ s_prio s = prio_of c (s_id s)).

(* a system change that keeps next id and only keeps / drops / statically-equal-replaces subs *)
Definition sub_step (y y' : sys) : Prop :=
  (NoDup (ids (y_subs y)) -> NoDup (ids (y_subs y'))) /\ y_nextsub y' = y_nextsub y /\
  (forall s', In s' (y_subs y') -> exists s, In s (y_subs y) /\ s_id s' = s_id s /\ s_prio s' = s_prio s).

Lemma sub_step_refl y : sub_step y y.
Proof. repeat split; auto. intros s' H. exists s'. auto. Qed.

Lemma sub_step_eq y y' : y_subs y' = y_subs y -> y_nextsub y' = y_nextsub y -> sub_step y y'.
Proof. intros E1 E2. unfold sub_step. rewrite E1, E2. repeat split; auto. intros s' H. exists s'. auto. Qed.

Lemma sub_step_trans a b c : sub_step a b -> sub_step b c -> sub_step a c.
Proof.
  intros (A1 & A2 & A3) (B1 & B2 & B3). repeat split; [auto | congruence |].
  intros s' Hs'. destruct (B3 s' Hs') as (s1 & H1 & E1 & E2). destruct (A3 s1 H1) as (s0 & H0 & F1 & F2).
  exists s0. repeat split; [exact H0 | congruence | congruence].
Qed.

Lemma Inv_sub_step c pre o y y' :
  Inv c pre y -> sub_step y y' -> create_prios [o] = [] -> Inv c (pre ++ [o]) y'.
Proof.
  intros (I1 & I2 & I3) (S1 & S2 & S3) Ho. unfold Inv. rewrite create_prios_app, Ho, app_nil_r.
  split; [auto|]. split; [congruence|].
  intros s H. destruct (S3 s H) as (s0 & H0 & E1 & E2). destruct (I3 s0 H0) as (J1 & J2).
  rewrite S2, E1, E2. split; [lia | exact J2].
Qed.

Lemma sub_step_only_subs y subs :
  (NoDup (ids (y_subs y)) -> NoDup (ids subs)) ->
  (forall s', In s' subs -> exists s, In s (y_subs y) /\ s_id s' = s_id s /\ s_prio s' = s_prio s) ->
  sub_step y (set_subs y subs).
Proof. intros H1 H2. repeat split; assumption. Qed.

Lemma replace_sub_step y s s' :
  find_sub (s_id s) (y_subs y) = Some s -> s_id s' = s_id s -> s_prio s' = s_prio s ->
  sub_step y (set_subs y (replace_sub s' (y_subs y))).
Proof.
  intros Hf E1 E2. apply sub_step_only_subs.
  - rewrite ids_replace. auto.
  - intros x Hx. apply in_replace_sub in Hx as [->|Hx].
    + exists s. apply find_sub_some in Hf as [Hin _]. auto.
    + exists x. auto.
Qed.

Lemma remove_sub_step y id : sub_step y (set_subs y (remove_sub id (y_subs y))).
Proof.
  apply sub_step_only_subs; [apply nodup_remove|].
  intros x Hx. exists x. split; [eapply in_remove_sub; exact Hx | auto].
Qed.

Lemma sys_tick_sub_step y timer y' rs : sys_tick y timer = Some (y', rs) -> sub_step y y'.
Proof.
  unfold sys_tick, sys_tick_g, bind.
  destruct (tick_ids_g sub_tick _ _ _ _ _ _) as [[[subs reqs] tx]|] eqn:E; [|discriminate].
  destruct (transmit tx (y_retrans y)) as [rt rs'] eqn:Et. intros H; inversion H; subst.
  destruct (tick_ids_subs sub_tick sub_tick_keeps _ _ _ _ _ _ _ _ _ E) as (N1 & N2 & N3).
  repeat split; assumption.
Qed.

Lemma expire_sub_step y : sub_step y (fst (expire y)).
Proof. apply sub_step_eq; reflexivity. Qed.

(* ------------------------------------------------------------ the oracle on one operation *)
Lemma none_starved_intro c answered (subs : list sub) :
  (forall i s', In i answered -> In s' subs -> prio_of c i < prio_of c (s_id s') -> s_notifs s' = []) ->
  none_starved c answered (map (fun s => (s_id s, s_state s, len (s_notifs s))) subs) = true.
Proof.
  intros H. unfold none_starved. apply forallb_forall. intros i Hi. apply forallb_forall.
  intros t Ht. apply in_map_iff in Ht as (s' & <- & Hs').
  destruct (Z.ltb_spec (prio_of c i) (prio_of c (s_id s'))) as [Hlt|Hge]; [|reflexivity].
  rewrite (H i s' Hi Hs' Hlt). reflexivity.
Qed.

Lemma resp_subs_app a b : resp_subs (a ++ b) = resp_subs a ++ resp_subs b.
Proof. unfold resp_subs. apply flat_map_app. Qed.

Lemma resp_subs_faults (f : req -> resp) l :
  (forall q, exists rid st, f q = RFault rid st) -> resp_subs (map f l) = [].
Proof.
  intros Hf. induction l as [|q l IH]; [reflexivity|]. cbn [map resp_subs flat_map].
  destruct (Hf q) as (rid & st & ->). exact IH.
Qed.

Lemma expire_subs y : resp_subs (snd (expire y)) = [].
Proof. unfold expire. cbn [snd]. apply resp_subs_faults. intros q. eauto. Qed.

Definition P_of (c : case) : Z -> Z := prio_of c.

Lemma tick_round c y timer y' rs :
  NoDup (ids (y_subs y)) -> (forall s, In s (y_subs y) -> s_prio s = prio_of c (s_id s)) ->
  sys_tick y timer = Some (y', rs) ->
  non_increasing (map (prio_of c) (resp_subs rs)) = true /\
  none_starved c (resp_subs rs) (sn_subs (snapshot y')) = true.
Proof.
  intros Hnd HP H.
  destruct (sys_tick_prio sub_tick sub_tick_keeps (prio_of c) _ _ _ _ Hnd HP H) as (A & B & _).
  split; [exact A|]. unfold snapshot. cbn [sn_subs]. apply none_starved_intro. exact B.
Qed.

Lemma NoDup_app_intro_single {A} (l : list A) x : NoDup l -> ~ In x l -> NoDup (l ++ [x]).
Proof.
  intros Hl Hx. eapply Permutation_NoDup; [apply Permutation_cons_append|]. constructor; assumption.
Qed.

Lemma step_ok c pre o suf y opix y1 st m rs :
  c_ops c = pre ++ o :: suf -> Inv c pre y -> step y opix o = Some (y1, st, m, rs) ->
  Inv c (pre ++ [o]) y1 /\ check_op c o (snapshot y) (mk_opres st m rs (snapshot y1)) = true.
Proof.
  intros Hc HI Hstep. pose proof HI as (I1 & I2 & I3).
  assert (HP : forall s, In s (y_subs y) -> s_prio s = prio_of c (s_id s)) by (intros s Hs; apply I3; exact Hs).
  unfold step, step_g in Hstep. destruct o; unfold check_op; cbn [o_resps o_snap].
  - (* OWrite *)
    destruct (_ || _); inversion Hstep; subst; (split; [|reflexivity]);
    (eapply Inv_sub_step; [exact HI | (apply sub_step_eq; reflexivity) | reflexivity]).
  - (* OTick *)
    destruct (expire (set_now y (y_now y + dt))) as [ye rs1] eqn:Ee. unfold bind in Hstep.
    destruct (sys_tick ye true) as [[y2 rs2]|] eqn:Et; [|discriminate].
    cbn [fst snd] in Hstep. injection Hstep as <- <- <- <-.
    assert (Hye : y_subs ye = y_subs y /\ y_nextsub ye = y_nextsub y).
    { unfold expire in Ee. inversion Ee. split; reflexivity. }
    destruct Hye as [Hs Hn].
    assert (Hrs1 : resp_subs rs1 = []).
    { pose proof (expire_subs (set_now y (y_now y + dt))) as H. rewrite Ee in H. exact H. }
    split.
    + eapply Inv_sub_step; [exact HI | | reflexivity].
      apply sys_tick_sub_step in Et. destruct Et as (T1 & T2 & T3). rewrite Hs, Hn in *.
      repeat split; assumption.
    + rewrite resp_subs_app, Hrs1. cbn [app]. apply andb_true_iff.
      apply (tick_round c ye true y2 rs2); [rewrite Hs; exact I1 | rewrite Hs; exact HP | exact Et].
  - (* OPublish *)
    unfold publish_g in Hstep. unfold bind in Hstep. cbn [y_subs y_reqs set_now set_nextrid y_nextrid] in Hstep.
    set (y0 := set_nextrid (set_now y (y_now y + dt)) (y_nextrid y + 1)) in *.
    assert (Hqf : queue_full (snapshot y) = (len (y_subs y) * 2 <=? len (y_reqs y))).
    { unfold queue_full, snapshot. cbn [sn_subs sn_reqs]. unfold len. rewrite !map_length.
      f_equal. lia. }
    destruct (is_nil (y_subs y)) eqn:Enil.
    { inversion Hstep; subst. split.
      - eapply Inv_sub_step; [exact HI | (apply sub_step_eq; reflexivity) | reflexivity].
      - cbn. destruct (queue_full _); reflexivity. }
    destruct (len (y_subs y) * 2 <=? len (y_reqs y)) eqn:Efull.
    + (* two rounds *)
      rewrite Hqf.
      destruct (sys_tick y0 false) as [[ya rsa]|] eqn:Eta; [|discriminate].
      assert (Hsa : sub_step y ya).
      { apply sys_tick_sub_step in Eta. destruct Eta as (T1 & T2 & T3). repeat split; assumption. }
      pose proof (tick_round c y0 false ya rsa I1 HP Eta) as [Ra _].
      destruct (len (y_subs y) * 2 <=? len (y_reqs ya)).
      * injection Hstep as <- <- <- <-. split.
        -- eapply Inv_sub_step; [exact HI | exact Hsa | reflexivity].
        -- apply two_runs_of_non_increasing. exact Ra.
      * destruct (process_acks (y_subs ya) acks (y_retrans ya)) as [results rt] eqn:Ea.
        set (yb := set_reqs (set_retrans ya rt) _) in *.
        destruct (sys_tick yb false) as [[yc rsc]|] eqn:Etc; [|discriminate].
        cbn [fst snd] in Hstep. injection Hstep as <- <- <- <-.
        assert (Hia : Inv c (pre ++ [OPublish dt hint acks]) ya)
          by (eapply Inv_sub_step; [exact HI | exact Hsa | reflexivity]).
        destruct Hia as (J1 & J2 & J3).
        assert (HPb : forall s, In s (y_subs yb) -> s_prio s = prio_of c (s_id s)) by (intros s Hs; apply J3; exact Hs).
        pose proof (tick_round c yb false yc rsc J1 HPb Etc) as [Rc _].
        split.
        -- apply sys_tick_sub_step in Etc.
           eapply Inv_sub_step; [exact HI | | reflexivity].
           eapply sub_step_trans; [exact Hsa|]. destruct Etc as (T1 & T2 & T3). repeat split; assumption.
        -- rewrite resp_subs_app, map_app. apply two_runs_app; assumption.
    + (* one round *)
      rewrite Hqf. change (y_reqs y0) with (y_reqs y) in Hstep. rewrite Efull in Hstep.
      destruct (process_acks (y_subs y0) acks (y_retrans y0)) as [results rt] eqn:Ea.
      set (yb := set_reqs (set_retrans y0 rt) _) in *.
      destruct (sys_tick yb false) as [[yc rsc]|] eqn:Etc; [|discriminate].
      cbn [fst snd app] in Hstep. injection Hstep as <- <- <- <-.
      split.
      * apply sys_tick_sub_step in Etc. eapply Inv_sub_step; [exact HI | | reflexivity].
        destruct Etc as (T1 & T2 & T3). repeat split; assumption.
      * apply andb_true_iff. apply (tick_round c yb false yc rsc I1 HP Etc).
  - (* OCreateSub *)
    inversion Hstep; subst. clear Hstep. split; [|reflexivity].
    unfold Inv. cbn [y_subs y_nextsub set_nextsub set_subs]. rewrite create_prios_app. cbn [create_prios].
    assert (Hn : 1 <= y_nextsub y) by (rewrite I2; unfold len; lia).
    unfold ids. rewrite map_app. cbn [map s_id]. repeat split.
    + apply NoDup_app_intro_single. { exact I1. }
      intros Hin. apply in_map_iff in Hin as (s & E & Hs). destruct (I3 s Hs) as [? _]. lia.
    + rewrite I2. unfold len. rewrite app_length, Nat2Z.inj_add. cbn [length]. lia.
    + apply in_app_iff in H as [H|[<-|[]]]; [destruct (I3 s H); lia | cbn [s_id]; lia].
    + apply in_app_iff in H as [H|[<-|[]]]; [destruct (I3 s H); lia | cbn [s_id]; lia].
    + apply in_app_iff in H as [H|[<-|[]]]; [apply I3; exact H|]. cbn [s_id s_prio].
      unfold prio_of. rewrite Hc, create_prios_app. cbn [create_prios].
      rewrite I2. unfold len. replace (1 + Z.of_nat (length (create_prios pre)) - 1) with (Z.of_nat (length (create_prios pre))) by lia.
      rewrite Nat2Z.id, app_nth2 by lia. rewrite Nat.sub_diag. reflexivity.
  - (* ODeleteSub *)
    destruct (has_sub sub (y_subs y)); inversion Hstep; subst; (split; [|reflexivity]);
    (eapply Inv_sub_step; [exact HI | | reflexivity]); [apply remove_sub_step | (apply sub_step_eq; reflexivity)].
  - (* OCreateItem *)
    destruct (find_sub sub (y_subs y)) as [s|] eqn:Ef.
    + pose proof (find_sub_some _ _ _ Ef) as [_ Hid]. rewrite <- Hid in Ef.
      destruct (_ || _); inversion Hstep; subst; (split; [|reflexivity]);
      (eapply Inv_sub_step; [exact HI | | reflexivity]); (eapply replace_sub_step; [exact Ef | reflexivity | reflexivity]).
    + inversion Hstep; subst. split; [|reflexivity].
      eapply Inv_sub_step; [exact HI | (apply sub_step_eq; reflexivity) | reflexivity].
  - (* ODeleteItem *)
    destruct (find_sub sub (y_subs y)) as [s|] eqn:Ef.
    + pose proof (find_sub_some _ _ _ Ef) as [_ Hid]. rewrite <- Hid in Ef.
      destruct (existsb _ _); inversion Hstep; subst; (split; [|reflexivity]);
      (eapply Inv_sub_step; [exact HI | | reflexivity]); (eapply replace_sub_step; [exact Ef | reflexivity | reflexivity]).
    + inversion Hstep; subst. split; [|reflexivity].
      eapply Inv_sub_step; [exact HI | (apply sub_step_eq; reflexivity) | reflexivity].
  - (* ORepublish *)
    destruct (find_sub sub (y_subs y)) as [s|] eqn:Ef.
    + pose proof (find_sub_some _ _ _ Ef) as [_ Hid]. rewrite <- Hid in Ef.
      destruct (rt_find _ _); inversion Hstep; subst; (split; [|reflexivity]);
      (eapply Inv_sub_step; [exact HI | | reflexivity]);
      [eapply replace_sub_step; [exact Ef | reflexivity | reflexivity] | (apply sub_step_eq; reflexivity)].
    + inversion Hstep; subst. split; [|reflexivity].
      eapply Inv_sub_step; [exact HI | (apply sub_step_eq; reflexivity) | reflexivity].
  - (* OSetPublishing *)
    destruct (find_sub sub (y_subs y)) as [s|] eqn:Ef.
    + pose proof (find_sub_some _ _ _ Ef) as [_ Hid]. rewrite <- Hid in Ef.
      inversion Hstep; subst; (split; [|reflexivity]);
      (eapply Inv_sub_step; [exact HI | | reflexivity]); (eapply replace_sub_step; [exact Ef | reflexivity | reflexivity]).
    + inversion Hstep; subst. split; [|reflexivity].
      eapply Inv_sub_step; [exact HI | (apply sub_step_eq; reflexivity) | reflexivity].
Qed.

Lemma run_ops_ok c : forall suf pre y opix,
  c_ops c = pre ++ suf -> Inv c pre y ->
  check_trace c suf (snapshot y) (fst (run_ops y opix suf)) = true.
Proof.
  induction suf as [|o suf IH]; intros pre y opix Hc HI; [reflexivity|].
  unfold run_ops in *. cbn [run_ops_g].
  destruct (step_g sys_tick y opix o) as [[[[y1 st] m] rs]|] eqn:Es; [|reflexivity].
  destruct (run_ops_g sys_tick y1 (opix + 1) suf) as [tr p] eqn:Er. cbn [fst check_trace o_snap].
  destruct (step_ok c pre o suf y opix y1 st m rs Hc HI Es) as [HI1 Hck]. rewrite Hck. cbn [andb].
  specialize (IH (pre ++ [o]) y1 (opix + 1)). rewrite Er in IH. cbn [fst] in IH.
  apply IH; [rewrite <- app_assoc; exact Hc | exact HI1].
Qed.

Lemma init_inv c : Inv c [] (init c).
Proof. unfold Inv, init. cbn. split; [constructor|]. split; [reflexivity|]. intros s []. Qed.

Theorem oracle_holds c : oracle c (run c) = true.
Proof.
  unfold oracle, run. rewrite decode_enc. destruct (run_ev c) as [tr p] eqn:E.
  pose proof (run_ops_ok c (c_ops c) [] (init c) 0 eq_refl (init_inv c)) as H.
  unfold run_ev in E. rewrite E in H. exact H.
Qed.

(* ------------------------------------------------------- the round theorem, self-contained *)
(* priority of a subscription id in a state *)
Definition prio_in (y : sys) (id : Z) : Z :=
  match find_sub id (y_subs y) with Some s => s_prio s | None => 0 end.

Theorem round_served_by_priority
  (stick : sub -> list Z -> Z -> bool -> bool -> option sub)
  (stick_static : forall s vars now timer rq s',
     stick s vars now timer rq = Some s' -> s_id s' = s_id s /\ s_prio s' = s_prio s)
  y timer y' rs :
  NoDup (ids (y_subs y)) ->
  sys_tick_g prio_order stick y timer = Some (y', rs) ->
  non_increasing (map (prio_in y) (resp_subs rs)) = true /\
  (forall i s', In i (resp_subs rs) -> In s' (y_subs y') -> prio_in y i < s_prio s' -> s_notifs s' = []).
Proof.
  intros Hnd H.
  assert (HP : forall s, In s (y_subs y) -> s_prio s = prio_in y (s_id s)).
  { intros s Hs. unfold prio_in. rewrite (find_sub_in _ _ Hnd Hs). reflexivity. }
  destruct (sys_tick_prio stick stick_static (prio_in y) _ _ _ _ Hnd HP H) as (A & B & _ & _ & C).
  split; [exact A|]. intros i s' Hi Hs' Hlt. apply (B i s' Hi Hs').
  destruct (C s' Hs') as (s0 & H0 & E1 & E2). rewrite E1, <- (HP s0 H0), <- E2. exact Hlt.
Qed.

(* the distinct-id premise holds in every state a history can reach *)
Fixpoint run_state (y : sys) (opix : Z) (ops : list op) : option sys :=
  match ops with
  | [] => Some y
  | o :: r => match step y opix o with
              | Some (y1, _, _, _) => run_state y1 (opix + 1) r
              | None => None
              end
  end.

Lemma run_state_inv c : forall ops pre rest y opix y',
  c_ops c = pre ++ ops ++ rest -> Inv c pre y -> run_state y opix ops = Some y' ->
  Inv c (pre ++ ops) y'.
Proof.
  induction ops as [|o ops IH]; intros pre rest y opix y' Hc HI H.
  - cbn in H. inversion H; subst. rewrite app_nil_r. exact HI.
  - cbn [run_state] in H. destruct (step y opix o) as [[[[y1 st] m] rs]|] eqn:Es; [|discriminate].
    destruct (step_ok c pre o (ops ++ rest) y opix y1 st m rs Hc HI Es) as [HI1 _].
    replace (pre ++ o :: ops) with ((pre ++ [o]) ++ ops) by (rewrite <- app_assoc; reflexivity).
    apply (IH (pre ++ [o]) rest y1 (opix + 1) y'); [rewrite <- app_assoc; exact Hc | exact HI1 | exact H].
Qed.

Theorem reachable_distinct_ids c k y' :
  run_state (init c) 0 (firstn k (c_ops c)) = Some y' -> NoDup (ids (y_subs y')).
Proof.
  intros H.
  assert (Hc : c_ops c = [] ++ firstn k (c_ops c) ++ skipn k (c_ops c)) by (cbn [app]; symmetry; apply firstn_skipn).
  destruct (run_state_inv c _ _ _ _ _ _ Hc (init_inv c) H) as [Hnd _]. exact Hnd.
Qed.

(* non-vacuity *)
Example witness_two_priorities_ready :
  let y := mk_sys 2000 [0] [mk_req 1 2000 0 []]
             [mk_sub 1 1000 1000 3 1 [] 3 990 3 true true 2 1 2 1000 [mk_msg 1 1000 1 [(2, 0, 0)]];
              mk_sub 2 1000 1000 3 200 [] 3 990 3 true true 2 1 2 1000 [mk_msg 1 1000 1 [(3, 0, 0)]]]
             [] 3 2 in
  NoDup (ids (y_subs y)) /\
  option_map (fun r => resp_subs (snd r)) (sys_tick y false) = Some [2].
Proof. split; [repeat constructor; cbn; intuition lia | vm_compute; reflexivity]. Qed.

(* the design-round witness: priorities 1 and 200 both have data, one request *)
Definition witness : case :=
  mk_case 1 [OCreateSub 1 1000 3 1000 true; OCreateSub 200 1000 3 1000 true;
             OCreateItem 1 0 2 (-1) 4 true; OCreateItem 2 0 2 (-1) 4 true;
             OTick 0; OTick 1000; OPublish 0 0 []; OWrite 0 5; OTick 1000; OTick 1000].

Lemma legacy_refuted : oracle witness (Legacy.run witness) = false.
Proof. vm_compute. reflexivity. Qed.
Example witness_ok : oracle witness (run witness) = true.
Proof. vm_compute. reflexivity. Qed.
