(* Executable primitives shared by the C07 / C08 / C09 correspondence models: a checksum, tags
   derived from it, and the real HMAC (Gallina SHA-1 / SHA-256 of C13). *)
From Coq Require Import List ZArith NArith Bool.
Import ListNotations.
From OV Require Import C07.Chan.
From OV Require Import C13.Sha.
Open Scope Z_scope.

(* ---------------- executable primitives ---------------- *)
(* Adler-32 style checksum *)
Fixpoint adler (s1 s2 : Z) (l : bytes) : Z * Z :=
  match l with
  | [] => (s1, s2)
  | b :: t => let s1' := (s1 + b) mod 65521 in adler s1' ((s2 + s1') mod 65521) t
  end.
Definition checksum (l : bytes) : Z * Z := adler 1 0 l.
(* an [n]-byte tag derived from the checksum *)
Definition toy_tag (n : Z) (l : bytes) : bytes :=
  let '(a, b) := checksum l in
  take n ([a mod 256; a / 256; b mod 256; b / 256] ++ rep (n - 4) 0).

Definition hmac_real (p : policy) (k d : bytes) : bytes :=
  map Z.of_N ((if src_sym_hash p =? 1 then hmac_sha1 else hmac_sha256) (map Z.to_N k) (map Z.to_N d)).
Definition toy_mac (p : policy) (k d : bytes) : bytes := toy_tag (src_sym_sig p) (k ++ d).

Definition ascii (l : bytes) : bool := forallb (fun b => b <? 128) l.
