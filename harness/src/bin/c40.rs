//! C40: republish and acknowledgement see the same retained notifications.  Drives the real
//! session/subscription machinery (see ../subs2.rs).  The random generator is guided by a
//! simulation on the real code: it knows which (subscription, sequence number) keys are
//! retained, were acknowledged or evicted, and aims acknowledgements / republish requests at
//! all of these classes.
#[path = "../util.rs"]
mod util;
#[path = "../subs2.rs"]
mod subs2;
use subs2::*;
use util::*;

pub struct P;

fn sub(prio: i64, life: i64) -> Op { Op::CreateSub { prio, interval: 1000, kac: 2, life, enabled: true } }
fn item(sub: i64, var: i64) -> Op { Op::CreateItem { sub, var, mode: 2, samp: -1, qsize: 2, discard_oldest: true } }
fn tick(dt: i64) -> Op { Op::Tick { dt } }
fn publ(acks: Vec<(i64, i64)>) -> Op { Op::Publish { dt: 0, hint: 0, acks } }
fn wr(v: i64, x: i64) -> Op { Op::Write { v, x } }
fn rep(sub: i64, seq: i64) -> Op { Op::Republish { sub, seq } }

impl Property for P {
    type Case = Case;
    fn fixed(tier: &str) -> Vec<Case> {
        let mut v = vec![
            // send two notifications, republish both, acknowledge the first, republish again,
            // acknowledge it a second time (unknown now) and an unknown subscription
            Case { nvars: 1, ops: vec![sub(0, 100), item(1, 0), tick(0), publ(vec![]), tick(1000), wr(0, 1), publ(vec![]), tick(1000),
                rep(1, 1), rep(1, 2), rep(1, 3), rep(2, 1), publ(vec![(1, 1)]), tick(1000), rep(1, 1), rep(1, 2),
                publ(vec![(1, 1), (9, 1), (1, 2), (1, 2)]), wr(0, 2), tick(1000), tick(1000)] },
            // eviction: one subscription, bound 4: six unacknowledged notifications
            Case { nvars: 1, ops: vec![sub(0, 100), item(1, 0), tick(0),
                publ(vec![]), tick(1000), wr(0, 1), publ(vec![]), tick(1000), wr(0, 2), publ(vec![]), tick(1000), wr(0, 3), publ(vec![]), tick(1000),
                wr(0, 4), publ(vec![]), tick(1000), wr(0, 5), publ(vec![]), tick(1000), rep(1, 1), rep(1, 2), rep(1, 3), rep(1, 6), publ(vec![(1, 1), (1, 6)]), tick(1000)] },
            // subscription deleted: republish answers BadSubscriptionIdInvalid, the next tick purges
            Case { nvars: 1, ops: vec![sub(0, 100), sub(1, 100), item(1, 0), item(2, 0), tick(0), publ(vec![]), publ(vec![]), tick(1000),
                rep(1, 1), rep(2, 1), Op::DeleteSub { sub: 1 }, rep(1, 1), rep(2, 1), publ(vec![(1, 1), (2, 1)]), tick(1000), rep(2, 1)] },
            // subscription expires (lifetime 6, no requests): status change, removal, purge
            Case { nvars: 1, ops: vec![sub(0, 6), item(1, 0), tick(0), publ(vec![]), tick(1000), tick(1000), tick(1000), tick(1000), tick(1000), tick(1000), tick(1000),
                rep(1, 1), publ(vec![]), rep(1, 1), rep(1, 2), tick(1000), rep(1, 2)] },
            // acknowledgement in a request that is refused (queue full): not processed
            Case { nvars: 1, ops: vec![sub(0, 100), item(1, 0), tick(0), publ(vec![]), tick(1000), publ(vec![]), publ(vec![]), publ(vec![(1, 1)]), rep(1, 1), tick(1000)] },
        ];
        // immediate eviction: subscription 2 holds 8 unacknowledged notifications (the bound for
        // two subscriptions), then subscription 1 sends (1,2): the smallest key is the new one,
        // it is purged in the same tick and the republish right after is BadMessageNotAvailable
        {
            let mut ops = vec![sub(0, 100), sub(0, 100), item(1, 1), item(2, 0), tick(0), publ(vec![]), publ(vec![]), tick(1000), publ(vec![(1, 1)])];
            for x in 1..8 { ops.push(wr(0, x)); ops.push(publ(vec![])); ops.push(tick(1000)); }
            ops.extend(vec![wr(1, 5), publ(vec![]), tick(1000), rep(1, 2), rep(2, 8), rep(2, 1)]);
            v.push(Case { nvars: 2, ops });
        }
        if tier == "thorough" {
            // acknowledge every subset of three retained notifications
            for mask in 0..8 {
                let mut acks = vec![];
                for b in 0..3 { if mask & (1 << b) != 0 { acks.push((1, 1 + b as i64)); } }
                v.push(Case { nvars: 1, ops: vec![sub(0, 100), item(1, 0), tick(0), publ(vec![]), tick(1000), wr(0, 1), publ(vec![]), tick(1000), wr(0, 2), publ(vec![]), tick(1000),
                    publ(acks), rep(1, 1), rep(1, 2), rep(1, 3), tick(1000)] });
            }
        }
        v
    }
    fn gen(r: &mut Rng) -> Case {
        let nsubs = 1 + r.below(3) as i64;
        let nvars = 1 + r.below(2) as i64;
        let mut ops: Vec<Op> = Vec::new();
        let mut w = World::new(nvars);
        let mut ever: Vec<(i64, i64)> = Vec::new();
        let mut push = |ops: &mut Vec<Op>, w: &mut World, ever: &mut Vec<(i64, i64)>, o: Op| -> bool {
            let ok = w.apply(ops.len(), &o);
            ops.push(o);
            for k in w.retained() { if !ever.contains(&k) { ever.push(k); } }
            ok
        };
        for _ in 0..nsubs {
            let life = if r.chance(1, 6) { 6 + r.below(4) as i64 } else { 60 };
            push(&mut ops, &mut w, &mut ever, Op::CreateSub { prio: r.below(4) as i64, interval: 1000, kac: 1 + r.below(2) as i64, life, enabled: !r.chance(1, 10) });
        }
        for s in 1..=nsubs {
            for _ in 0..(1 + r.below(2)) {
                push(&mut ops, &mut w, &mut ever, Op::CreateItem { sub: s, var: r.below(nvars as u64) as i64, mode: 2, samp: *r.pick(&[-1i64, -1, 500]), qsize: 1 + r.below(3) as i64, discard_oldest: r.chance(1, 2) });
            }
        }
        push(&mut ops, &mut w, &mut ever, tick(0));
        let hoard = r.chance(1, 3);   // rarely acknowledge: the queue reaches its bound and evicts
        let n = 10 + r.below(30) + if hoard { 15 } else { 0 };
        let mut x = 1;
        let mut next_sub = nsubs + 1;
        for _ in 0..n {
            let retained = w.retained();
            let live = w.live_subs();
            let pick_key = |r: &mut Rng| -> (i64, i64) {
                match r.below(10) {
                    0..=4 if !retained.is_empty() => *r.pick(&retained),
                    5..=6 if !ever.is_empty() => *r.pick(&ever),          // acknowledged / evicted / still there
                    7 => (1 + r.below(next_sub as u64) as i64, 1 + r.below(12) as i64),
                    8 if !live.is_empty() => (*r.pick(&live), 1 + r.below(20) as i64),
                    _ => (r.below(6) as i64, r.below(8) as i64),
                }
            };
            let o = match if hoard { r.below(16) } else { r.below(20) } {
                0..=3 => { x += 1; wr(r.below(nvars as u64) as i64, x) }
                4..=8 => tick(*r.pick(&[1000i64, 1000, 1000, 500, 2000])),
                9..=13 => { let k = if hoard && !r.chance(1, 5) { 0 } else { r.below(4) }; let mut acks = vec![]; for _ in 0..k { acks.push(pick_key(r)); }
                            if r.chance(1, 8) && !acks.is_empty() { let d = acks[0]; acks.push(d); }
                            Op::Publish { dt: *r.pick(&[0i64, 0, 100]), hint: 0, acks } }
                14..=17 => { let k = pick_key(r); rep(k.0, k.1) }
                18 => if r.chance(1, 2) { Op::DeleteSub { sub: 1 + r.below(next_sub as u64) as i64 } } else { next_sub += 1; Op::CreateSub { prio: 0, interval: 1000, kac: 2, life: 60, enabled: true } },
                _ => { x += 1; wr(0, x) }
            };
            if !push(&mut ops, &mut w, &mut ever, o) { break; }
        }
        Case { nvars, ops }
    }
    fn exec(c: &Case) -> Out {
        let out = exec_case(c);
        // classify by what the history exercised (from the case and a re-simulation)
        let mut w = World::new(c.nvars);
        let (mut good, mut unknown, mut rep_ok, mut rep_gone, mut evicted) = (0, 0, 0, 0, 0);
        let mut ever: Vec<(i64, i64)> = Vec::new();
        let mut acked: Vec<(i64, i64)> = Vec::new();
        for (k, o) in c.ops.iter().enumerate() {
            let before = w.retained();
            let live = w.live_subs();
            match o {
                Op::Publish { acks, .. } => for a in acks { if before.contains(a) && live.contains(&a.0) { good += 1; acked.push(*a); } else { unknown += 1; } },
                Op::Republish { sub, seq } => if before.contains(&(*sub, *seq)) && live.contains(sub) { rep_ok += 1 } else if ever.contains(&(*sub, *seq)) { rep_gone += 1 },
                _ => {}
            }
            if !w.apply(k, o) { break; }
            let after = w.retained();
            for a in &after { if !ever.contains(a) { ever.push(*a); } }
            for b in &before { if !after.contains(b) && !acked.contains(b) && w.live_subs().contains(&b.0) { evicted += 1; } }
        }
        let cl = |n: i32| if n == 0 { "0" } else if n < 3 { "1-2" } else { "3+" };
        let tag = format!("ack{}-unk{}-rep{}-gone{}{}{}", cl(good), cl(unknown), cl(rep_ok), cl(rep_gone),
            if evicted > 0 { "-evict" } else { "" }, if out.last() == Some(&-2) { "-panic" } else { "" });
        let tag = if good + unknown + rep_ok + rep_gone == 0 { format!("trivial-{}", tag) } else { tag };
        Out { tag, term: case_term(c), out }
    }
}
fn main() { run_main::<P>() }
