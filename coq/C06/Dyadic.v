(* C06 — the oracle's exact arithmetic on dyadic rationals m * 2^e means what it says in R. *)
From Coq Require Import List ZArith Bool Lia Reals Lra.
From Flocq Require Import Core.
From OV Require Import C06.Model.
Open Scope Z_scope.

Definition dy2R (d : dy) : R := (IZR (fst d) * bpow radix2 (snd d))%R.

Lemma IZR_pow2 : forall k, 0 <= k -> IZR (2 ^ k) = bpow radix2 k.
Proof. intros k Hk. apply (IZR_Zpower radix2 k Hk). Qed.

Lemma dy_scale : forall m e e', e' <= e ->
  (IZR (m * 2 ^ (e - e')) * bpow radix2 e' = IZR m * bpow radix2 e)%R.
Proof.
  intros m e e' H. rewrite mult_IZR, IZR_pow2 by lia. rewrite Rmult_assoc, <- bpow_plus.
  f_equal. f_equal. lia.
Qed.

Lemma dy_l_correct : forall a b, (IZR (dy_l a b) * bpow radix2 (Z.min (snd a) (snd b)) = dy2R a)%R.
Proof. intros a b. unfold dy_l, dy2R. apply dy_scale. lia. Qed.
Lemma dy_r_correct : forall a b, (IZR (dy_r a b) * bpow radix2 (Z.min (snd a) (snd b)) = dy2R b)%R.
Proof. intros a b. unfold dy_r, dy2R. apply dy_scale. lia. Qed.

Lemma dy_le_correct : forall a b, dy_le a b = true <-> (dy2R a <= dy2R b)%R.
Proof.
  intros a b. unfold dy_le. rewrite Z.leb_le.
  rewrite <- (dy_l_correct a b), <- (dy_r_correct a b).
  pose proof (bpow_gt_0 radix2 (Z.min (snd a) (snd b))) as Hp.
  split; intros H.
  - apply Rmult_le_compat_r; [lra|]. apply IZR_le. exact H.
  - apply le_IZR. apply Rmult_le_reg_r with (1 := Hp). exact H.
Qed.

Lemma dy_eq_correct : forall a b, dy_eq a b = true <-> dy2R a = dy2R b.
Proof.
  intros a b. unfold dy_eq. rewrite Z.eqb_eq.
  rewrite <- (dy_l_correct a b), <- (dy_r_correct a b).
  pose proof (bpow_gt_0 radix2 (Z.min (snd a) (snd b))) as Hp.
  split; intros H.
  - rewrite H. reflexivity.
  - apply eq_IZR. apply Rmult_eq_reg_r with (1 := H). lra.
Qed.

Lemma dy_dist_correct : forall a b, dy2R (dy_dist a b) = Rabs (dy2R a - dy2R b).
Proof.
  intros a b. unfold dy_dist, dy2R at 1. cbn [fst snd].
  rewrite <- (dy_l_correct a b), <- (dy_r_correct a b).
  pose proof (bpow_gt_0 radix2 (Z.min (snd a) (snd b))) as Hp.
  rewrite abs_IZR, minus_IZR. rewrite <- Rmult_minus_distr_r. rewrite Rabs_mult.
  rewrite (Rabs_pos_eq (bpow _ _)) by lra. reflexivity.
Qed.

Lemma dy_abs_correct : forall a, dy2R (dy_abs a) = Rabs (dy2R a).
Proof.
  intros a. unfold dy_abs, dy2R. cbn [fst snd]. rewrite abs_IZR, Rabs_mult.
  rewrite (Rabs_pos_eq (bpow _ _)); [reflexivity|]. apply bpow_ge_0.
Qed.

Lemma dy2R_int : forall w, dy2R (w, 0) = IZR w.
Proof. intros w. unfold dy2R. cbn. ring. Qed.

Lemma dy2R_half : dy2R (1, -1) = (/ 2)%R.
Proof. unfold dy2R. cbn. lra. Qed.

Lemma dy_floor_correct : forall a, dy_floor a = Zfloor (dy2R a).
Proof.
  intros [m e]. unfold dy_floor, dy2R. cbn [fst snd].
  destruct (0 <=? e) eqn:He.
  - apply Z.leb_le in He. rewrite <- IZR_pow2 by lia. rewrite <- mult_IZR. rewrite Zfloor_IZR. reflexivity.
  - apply Z.leb_gt in He.
    assert (Hk : 0 < 2 ^ (- e)) by (apply Z.pow_pos_nonneg; lia).
    replace (bpow radix2 e) with (/ IZR (2 ^ (- e)))%R.
    + symmetry. apply Zfloor_div. lia.
    + rewrite IZR_pow2 by lia. rewrite <- bpow_opp. f_equal. lia.
Qed.
