(* C22 — proofs about update_state alone: it is the state table; it is total on live counters. *)
From Coq Require Import List ZArith Bool Lia.
From OV Require Import C22.Model.
Import ListNotations.
Open Scope Z_scope.

(* ------------------------------------------------------------------------------------ *)
(* tactics                                                                               *)
(* ------------------------------------------------------------------------------------ *)
Ltac bcase :=
  match goal with
  | |- context [if ?b then _ else _] =>
      match b with
      | context [?v] => is_var v; match type of v with bool => destruct v end
      end
  end.

Ltac zcase :=
  match goal with
  | |- context [?a =? ?b] => destruct (Z.eqb_spec a b)
  | |- context [?a <? ?b] => destruct (Z.ltb_spec a b)
  | |- context [?a <=? ?b] => destruct (Z.leb_spec a b)
  end.

Ltac unfold_us :=
  unfold update_state, update_state_gen, with_timer, reset_life, reset_kac, set_life, set_kac,
    set_st, set_first;
  cbn [st life kac first enabled maxlife maxkac recv na mn rq te].

(* ------------------------------------------------------------------------------------ *)
(* update_state is the state table                                                       *)
(* ------------------------------------------------------------------------------------ *)
Lemma update_state_eq_table : forall s p, update_state s p = table_eval s p.
Proof.
  intros [x lf kc f en ml mk] [r a m q t].
  unfold_us.
  unfold table_eval, table, first_match, apply_row, nodata, data, always, never, is_st, sstate_eqb,
    reset_life, reset_kac, set_life, set_kac, set_st, set_first.
  cbn [st life kac first enabled maxlife maxkac recv na mn rq te rs_nr rs_state rs_guard
       rs_reset_life rs_timer rs_kac rs_first rs_next rs_action].
  generalize (lf =? 1) as b1, (lf =? 0) as b0, (ml =? 0) as m0, (kc =? 1) as k1, (1 <? kc) as kg.
  intros.
  destruct x; cbn; repeat (bcase; cbn; try reflexivity).
Qed.

(* ------------------------------------------------------------------------------------ *)
(* update_state never panics on a live counter and keeps it live                         *)
(* ------------------------------------------------------------------------------------ *)
Lemma update_state_total : forall s p,
  1 <= life s -> 2 <= maxlife s -> recv p && te p = false ->
  exists row a s', update_state s p = Res row a s' /\
    1 <= life s' /\ maxlife s' = maxlife s /\ maxkac s' = maxkac s /\ enabled s' = enabled s.
Proof.
  intros [x lf kc f en ml mk] [r a m q t] Hl Hm Hrt.
  cbn [st life kac first enabled maxlife maxkac recv na mn rq te] in *.
  unfold_us. rewrite Hrt.
  destruct x; cbn [is_active andb];
    repeat (first [ bcase | zcase ];
            cbn [andb orb negb st life kac first enabled maxlife maxkac] in *; try discriminate; try lia);
    try (do 3 eexists; split; [reflexivity | cbn; repeat split; lia]).
Qed.

