(* C09: the receive path of the channel model never reaches a panic site, for all bytes, channel
   states and primitives (generic in the primitives under three length laws). *)
From Coq Require Import List ZArith Bool Lia.
Import ListNotations.
From OV Require Import C07.Chan C07.Lemmas C07.ChanProofs.
Open Scope Z_scope.

Ltac Zify.zify_post_hook ::= Z.div_mod_to_equations.

Definition total {A} (r : res A) : Prop := match r with Panic _ => False | _ => True end.

Lemma total_bind {A B} (r : res A) (f : A -> res B) :
  total r -> (forall a, r = Ok a -> total (f a)) -> total (bind r f).
Proof. destruct r; cbn; intros H1 H2; [apply H2; reflexivity|exact I|contradiction]. Qed.

(* all the C09 guards are in place *)
Definition guarded_fixes (fx : fixes) : Prop :=
  fx_rsa_block fx = true /\ fx_null_cert fx = true /\ fx_own_cert fx = true /\ fx_no_keys fx = true /\
  fx_aes_block fx = true /\ fx_size_sig fx = true /\ fx_padding fx = true /\ fx_seq fx = true.

(* ---------------- parsers ---------------- *)
Lemma parse_hdr_total b : total (parse_hdr b).
Proof.
  unfold parse_hdr.
  do 12 (destruct b as [|? b]; [exact I|]).
  destruct (mtype_of _ _ _); [|exact I]. destruct (final_of _); exact I.
Qed.
Lemma parse_hdr_len b h rest : parse_hdr b = Ok (h, rest) -> len b = 12 + len rest.
Proof.
  unfold parse_hdr. do 12 (destruct b as [|? b]; [discriminate|]).
  destruct (mtype_of _ _ _); [|discriminate]. destruct (final_of _); [|discriminate].
  intro H. injection H as _ <-. rewrite !len_cons. lia.
Qed.

Lemma parse_bstr_total lim b : total (parse_bstr lim b).
Proof.
  unfold parse_bstr. do 4 (destruct b as [|? b]; [exact I|]).
  repeat match goal with |- total (if ?c then _ else _) => destruct c end; exact I.
Qed.
Lemma parse_bstr_len lim b o rest : parse_bstr lim b = Ok (o, rest) ->
  len b = 4 + (match o with Some x => len x | None => 0 end) + len rest.
Proof.
  unfold parse_bstr. do 4 (destruct b as [|? b]; [discriminate|]).
  set (u := rd32 _ _ _ _).
  destruct (u =? U32 - 1). { intro H. injection H as <- <-. rewrite !len_cons. lia. }
  destruct (Z.leb_spec 2147483648 u) as [Hu|Hu]; [discriminate|].
  destruct (lim <? u) eqn:E; [discriminate|].
  destruct (Z.ltb_spec (len b) u) as [Hlb|Hlb]; [discriminate|].
  intro Hq. injection Hq as <- <-. rewrite !len_cons.
  destruct (Z.le_gt_cases 0 u).
  - rewrite len_take, len_drop by lia. lia.
  - rewrite take_nonpos, drop_nonpos by lia. rewrite len_nil. lia.
Qed.

Lemma parse_sym_total b : total (parse_sym b).
Proof. unfold parse_sym. do 4 (destruct b as [|? b]; [exact I|]). exact I. Qed.
Lemma parse_sym_len b sh rest : parse_sym b = Ok (sh, rest) -> len b = 4 + len rest.
Proof.
  unfold parse_sym. do 4 (destruct b as [|? b]; [discriminate|]). intro H. injection H as _ <-.
  rewrite !len_cons. lia.
Qed.

Lemma parse_asym_total P lm b : total (parse_asym P lm b).
Proof.
  unfold parse_asym. apply total_bind; [apply parse_bstr_total|]. intros [uri b1] _.
  destruct (negb _); [exact I|].
  apply total_bind; [apply parse_bstr_total|]. intros [cert b2] _.
  apply total_bind; [apply parse_bstr_total|]. intros [thumb b3] _.
  destruct (match cert with Some c => _ | None => false end); [exact I|].
  destruct (_ && _); exact I.
Qed.
(* the bytes behind an asymmetric security header start after the certificate *)
Lemma parse_asym_len P lm b uri cert thumb rest :
  parse_asym P lm b = Ok (Asym uri cert thumb, rest) ->
  len b >= 12 + (match cert with Some c => len c | None => 0 end) + len rest.
Proof.
  unfold parse_asym.
  destruct (parse_bstr (lim_string lm) b) as [[u b1]| |] eqn:E1; cbn [bind]; try discriminate.
  destruct (negb _); [discriminate|].
  destruct (parse_bstr (lim_bstring lm) b1) as [[c b2]| |] eqn:E2; cbn [bind]; try discriminate.
  destruct (parse_bstr (lim_bstring lm) b2) as [[th b3]| |] eqn:E3; cbn [bind]; try discriminate.
  destruct (match c with Some c0 => _ | None => false end); [discriminate|].
  destruct (_ && _); [discriminate|].
  intro H. injection H as <- <- <- <-.
  apply parse_bstr_len in E1, E2, E3.
  assert (0 <= match u with Some x => len x | None => 0 end) by (destruct u; [apply len_nonneg|lia]).
  assert (0 <= match th with Some x => len x | None => 0 end) by (destruct th; [apply len_nonneg|lia]).
  lia.
Qed.
Lemma parse_asym_shape P lm b sh rest : parse_asym P lm b = Ok (sh, rest) -> exists u c t, sh = Asym u c t.
Proof.
  unfold parse_asym.
  destruct (parse_bstr (lim_string lm) b) as [[u b1]| |]; cbn [bind]; try discriminate.
  destruct (negb _); [discriminate|].
  destruct (parse_bstr (lim_bstring lm) b1) as [[c b2]| |]; cbn [bind]; try discriminate.
  destruct (parse_bstr (lim_bstring lm) b2) as [[th b3]| |]; cbn [bind]; try discriminate.
  destruct (match c with Some c0 => _ | None => false end); [discriminate|].
  destruct (_ && _); [discriminate|].
  intro H. injection H as <- _. eauto.
Qed.

Lemma chunk_info_total P lm d : total (chunk_info P lm d).
Proof.
  unfold chunk_info. apply total_bind; [apply parse_hdr_total|]. intros [h b0] _.
  apply total_bind.
  - destruct (h_type h).
    + pose proof (parse_sym_total b0). destruct (parse_sym b0); try exact I. contradiction.
    + pose proof (parse_asym_total P lm b0) as T. destruct (parse_asym P lm b0) as [[sh b1]| |]; try exact I; [|contradiction].
      destruct sh; [exact I|]. destruct uri as [u|]; [|exact I]. destruct (policy_of_uri u); exact I.
    + pose proof (parse_sym_total b0). destruct (parse_sym b0); try exact I. contradiction.
  - intros [sh b1] _. do 8 (destruct b1 as [|? b1]; [exact I|]). exact I.
Qed.

(* the reassembly part of Chunker::decode (chunk_info, final flags, concatenation of the bodies) *)
Lemma decode_bodies_total P r : forall cs, total (decode_bodies P r cs).
Proof.
  induction cs as [|c rest IH]; [exact I|]. cbn [decode_bodies].
  apply total_bind; [apply chunk_info_total|]. intros inf _. destruct (negb _); [exact I|].
  apply total_bind; [exact IH|]. intros; exact I.
Qed.
Lemma decode_total P r cs : cs <> [] -> total (decode P r cs).
Proof. intro H. unfold decode. destruct cs; [congruence|]. apply decode_bodies_total. Qed.

(* ---------------- verify_padding ---------------- *)
Lemma verify_padding_total fx d ks pe : fx_padding fx = true -> pe <= len d -> total (verify_padding fx d ks pe).
Proof.
  intros Hf Hpe. unfold verify_padding. rewrite Hf.
  destruct (256 <? ks).
  - destruct (pe <? 2); [exact I|]. destruct (Z.ltb_spec (len d) pe); [lia|].
    destruct (_ <? _); [exact I|]. destruct (all_eqb _ _); exact I.
  - destruct (pe <? 1); [exact I|]. destruct (Z.ltb_spec (len d) pe); [lia|].
    destruct (_ <? _); [exact I|]. destruct (all_eqb _ _); exact I.
Qed.

(* ---------------- the RSA block loop ---------------- *)
Section Prims.
  Variable P : prims.
  Variable fx : fixes.
  Hypothesis G : guarded_fixes fx.
  (* an RSA block decrypts to at most as many bytes as the block *)
  Hypothesis Hrsa : forall k p blk pt, p_rsa_dec P k p blk = Some pt -> len pt <= len blk.

  Lemma rsa_decrypt_f_total key ks pol : 0 < ks -> forall fuel src, (length src <= fuel)%nat -> len src mod ks = 0 ->
    total (rsa_decrypt_f P fx fuel key ks pol src) /\
    forall pt, rsa_decrypt_f P fx fuel key ks pol src = Ok pt -> len pt <= len src.
  Proof.
    intro Hks. induction fuel as [|f IH]; intros src Hf Hm.
    - destruct src; [|cbn in Hf; lia]. cbn. split; [exact I|]. intros pt H. injection H as <-. lia.
    - destruct src as [|x src']. { cbn. split; [exact I|]. intros pt H. injection H as <-. lia. }
      set (src := x :: src') in *.
      assert (Hl : 1 <= len src) by (unfold src; rewrite len_cons; pose proof (len_nonneg src'); lia).
      assert (Hge : ks <= len src).
      { destruct (Z.le_gt_cases ks (len src)); [assumption|]. rewrite Z.mod_small in Hm by lia. lia. }
      change (rsa_decrypt_f P fx (S f) key ks pol src) with
        (if len src <? ks then Panic P_RSA_BLOCK
         else match p_rsa_dec P key pol (take ks src) with
              | None => Err E_SEC
              | Some blk => do rest <- rsa_decrypt_f P fx f key ks pol (drop ks src); Ok (blk ++ rest)
              end).
      destruct (Z.ltb_spec (len src) ks); [lia|].
      destruct (p_rsa_dec P key pol (take ks src)) as [blk|] eqn:Eb; [|split; [exact I|discriminate]].
      assert (Hd : len (drop ks src) = len src - ks) by (apply len_drop; lia).
      assert (Hm' : len (drop ks src) mod ks = 0).
      { rewrite Hd. replace (len src - ks) with (len src + (-1) * ks) by lia. rewrite Z.mod_add by lia. exact Hm. }
      assert (Hf' : (length (drop ks src) <= f)%nat) by (unfold len in *; cbn [length] in *; lia).
      destruct (IH (drop ks src) Hf' Hm') as [T Hlen].
      split.
      + destruct (rsa_decrypt_f P fx f key ks pol (drop ks src)); cbn; [exact I|exact I|contradiction].
      + intros pt Hq. destruct (rsa_decrypt_f P fx f key ks pol (drop ks src)) as [rest| |]; cbn in Hq; try discriminate.
        injection Hq as <-. rewrite len_app. specialize (Hlen rest eq_refl).
        apply Hrsa in Eb. rewrite len_take in Eb by lia. lia.
  Qed.

  Lemma rsa_decrypt_total key ks pol src :
    total (rsa_decrypt P fx key ks pol src) /\ forall pt, rsa_decrypt P fx key ks pol src = Ok pt -> len pt <= len src.
  Proof.
    destruct G as (G1 & _). unfold rsa_decrypt. rewrite G1. cbn [andb].
    destruct (Z.leb_spec ks 0); cbn [orb]; [split; [exact I|discriminate]|].
    destruct (Z.eqb_spec (len src mod ks) 0) as [E|E]; cbn [negb]; [|split; [exact I|discriminate]].
    apply rsa_decrypt_f_total; try assumption; lia.
  Qed.

  (* a certificate is longer than the RSA key it carries *)
  Hypothesis Hcert : forall c k ks, p_cert_key P c = Some (k, ks) -> 0 < ks < len c.
  (* AES-CBC without padding preserves the length *)
  Hypothesis Haes : forall k c, len (p_aes_dec P k c) = len c.

  (* ---------------- asymmetric_decrypt_and_verify ---------------- *)
  Lemma recv_asym_total r src b1 off pol cert thumb :
    0 <= off -> len src = off + len b1 -> (match cert with Some c => len c | None => 0 end) <= off ->
    total (recv_asym P fx r src b1 off pol cert thumb).
  Proof.
    intros H0 Hlen Hc. destruct G as (G1 & G2 & G3 & G4 & G5 & G6 & G7 & G8).
    unfold recv_asym. rewrite G2, G3.
    destruct cert as [c|]; [|exact I].
    destruct (p_cert_key P c) as [[vkey vks]|] eqn:Ek; [|exact I].
    destruct (r_thumb r); [|exact I]. destruct (negb _); [exact I|].
    destruct (r_pkey r) as [[okey oks]|]; [|exact I].
    destruct (rsa_decrypt_total okey oks pol b1) as [T Hl].
    apply total_bind; [exact T|]. intros plain Hp. specialize (Hl plain Hp).
    apply Hcert in Ek.
    destruct (Z.ltb_spec (off + len plain) vks); [pose proof (len_nonneg plain); lia|].
    destruct (negb _); [exact I|].
    apply total_bind; [|intros; exact I].
    apply verify_padding_total; [exact G7|].
    rewrite !len_app, len_take, len_rep by (pose proof (len_nonneg b1); lia). lia.
  Qed.

  (* ---------------- symmetric_decrypt_and_verify ---------------- *)
  Lemma recv_sym_total r src b1 off msize :
    0 <= off -> len src = off + len b1 -> msize = len src -> total (recv_sym P fx r src b1 off msize).
  Proof.
    intros H0 Hlen Hm. destruct G as (G1 & G2 & G3 & G4 & G5 & G6 & G7 & G8).
    unfold recv_sym. rewrite G4, G5, G6.
    destruct (secured _ _); [|exact I].
    assert (Hss : 0 <= src_sym_sig (r_policy r)) by (destruct (r_policy r); cbn; lia).
    destruct (Z.ltb_spec msize (src_sym_sig (r_policy r))); [exact I|].
    destruct (r_verkey r) as [[vk dk]|]; [|exact I].
    assert (Hall : forall dst, len dst = msize ->
      total (if negb ((msize - off) mod 16 =? 0) then Err E_SEC else
             if negb (bytes_eqb (p_mac P (r_policy r) vk (take (msize - src_sym_sig (r_policy r)) dst)) (drop (msize - src_sym_sig (r_policy r)) dst)) then Err E_SEC else
             if fx_pad_sign fx then
               if msize <? src_sym_sig (r_policy r) + off + 1 then Err E_SEC else
               if msize - src_sym_sig (r_policy r) <? off + (nth (Z.to_nat (msize - src_sym_sig (r_policy r) - 1)) dst 0 + 1) then Err E_SEC else
               do start <- verify_padding fx dst (src_sym_sig (r_policy r)) (msize - src_sym_sig (r_policy r));
               Ok (take start (set_size dst start))
             else Ok (take (msize - src_sym_sig (r_policy r)) (set_size dst (msize - src_sym_sig (r_policy r)))))).
    { intros dst Hd. destruct (negb _); [exact I|]. destruct (negb _); [exact I|].
      destruct (fx_pad_sign fx); [|exact I]. destruct (_ <? _); [exact I|]. destruct (_ <? _); [exact I|].
      apply total_bind; [|intros; exact I]. apply verify_padding_total; [exact G7|lia]. }
    destruct (r_mode r).
    - apply Hall. rewrite len_app, Haes, len_take by (pose proof (len_nonneg b1); lia). lia.
    - destruct (bytes_eqb _ _); exact I.
    - apply Hall. rewrite len_app, Haes, len_take by (pose proof (len_nonneg b1); lia). lia.
    - apply Hall. rewrite len_app, Haes, len_take by (pose proof (len_nonneg b1); lia). lia.
  Qed.

  (* ---------------- verify_and_remove_security ---------------- *)
  Theorem recv_total r src : total (fst (recv P fx r src)).
  Proof.
    unfold recv. pose proof (parse_hdr_total src) as T0.
    destruct (parse_hdr src) as [[h b0]| |] eqn:E0; cbn [fst]; try exact I; [|contradiction].
    apply parse_hdr_len in E0.
    assert (T1 : total (match h_type h with OPN => parse_asym P (r_limits r) b0 | _ => parse_sym b0 end))
      by (destruct (h_type h); [apply parse_sym_total|apply parse_asym_total|apply parse_sym_total]).
    destruct (match h_type h with OPN => parse_asym P (r_limits r) b0 | _ => parse_sym b0 end) as [[sh b1]| |] eqn:E1;
      cbn [fst]; try exact I; [|contradiction].
    destruct (Z.eqb_spec (h_size h) (len src)) as [Es|Es]; cbn [negb fst]; [|exact I].
    pose proof (len_nonneg b1) as Hb1.
    destruct sh as [tok|uri cert thumb].
    - (* symmetric header *)
      cbn [fst]. assert (Hl : len b0 = 4 + len b1).
      { destruct (h_type h); try (apply parse_sym_len in E1; exact E1).
        apply parse_asym_shape in E1. destruct E1 as (? & ? & ? & ?). discriminate. }
      apply recv_sym_total; lia.
    - (* asymmetric header *)
      assert (Hl : len b0 >= 12 + (match cert with Some c => len c | None => 0 end) + len b1).
      { destruct (h_type h); try (unfold parse_sym in E1; do 4 (destruct b0 as [|? b0]; [discriminate|]); discriminate).
        apply parse_asym_len in E1. exact E1. }
      destruct (policy_of_uri _) as [pol|]; cbn [fst]; [|exact I].
      destruct (is_none pol); cbn [fst]; [exact I|].
      assert (0 <= match cert with Some c => len c | None => 0 end) by (destruct cert; [apply len_nonneg|lia]).
      apply recv_asym_total; lia.
  Qed.

  (* ---------------- validate_chunks ---------------- *)
  Lemma validate_from_total r : forall cs first i req0, total (validate_from P fx r first i req0 cs).
  Proof.
    destruct G as (G1 & G2 & G3 & G4 & G5 & G6 & G7 & G8).
    induction cs as [|c rest IH]; intros first i req0; [exact I|].
    cbn [validate_from]. apply total_bind; [apply chunk_info_total|]. intros inf _.
    destruct (_ && _); [exact I|]. rewrite G8. destruct (_ <=? _); [exact I|].
    destruct (negb _); [exact I|]. destruct (_ && _); [exact I|]. apply IH.
  Qed.
  Theorem validate_chunks_total r start cs : cs <> [] -> total (validate_chunks P fx r start cs).
  Proof.
    destruct G as (G1 & G2 & G3 & G4 & G5 & G6 & G7 & G8).
    intro Hne. unfold validate_chunks. destruct cs as [|c0 rest]; [congruence|].
    apply total_bind; [apply chunk_info_total|]. intros inf _.
    destruct (_ <? _); [exact I|].
    apply total_bind; [apply validate_from_total|]. intros _ _.
    rewrite G8. destruct (_ <=? _); exact I.
  Qed.
End Prims.
