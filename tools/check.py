#!/usr/bin/env python3
"""Driver for one property check:  ./check Cxx [--tier quick|thorough] [--seed N] [--replay FILE]

Steps (DESIGN.md section 4):
 1. regenerate coq/Gen/*.v from /repo's current source (translators listed in props/Cxx.json)
 2. build coq/Props/Cxx.vo (all proofs of the property), audit axioms / Admitted
 3. build the Rust harness against /repo's working tree (--cfg locka99_opcua_verif)
 4. run corpus + generated cases through the implementation (harness) and the model
    (coqc, vm_compute), apply the property oracle to the implementation's output
 5. decide, print KNOWN-FINDING / VIOLATION lines, rewrite evidence/Cxx.json
"""
import sys, os, json, re, subprocess, time, hashlib, glob, shutil
from concurrent.futures import ThreadPoolExecutor

V = os.path.dirname(os.path.dirname(os.path.abspath(__file__)))
COQ = os.path.join(V, "coq")
CASES = os.path.join(COQ, "Cases")
HARNESS = os.path.join(V, "harness")
TARGET = os.environ.get("CARGO_TARGET_DIR", os.path.join(V, ".cache", "target"))
# /repo unless VERIF_REPO points at another checkout (scratch worktrees used while developing)
REPO = os.environ.get("VERIF_REPO", "/repo")
os.environ["VERIF_REPO"] = REPO

ALLOWED_AXIOMS = {
    # the standard library's own axioms (Flocq / Reals / Program / Equations users); named in evidence
    "ClassicalDedekindReals.sig_forall_dec", "ClassicalDedekindReals.sig_not_dec",
    "FunctionalExtensionality.functional_extensionality_dep", "Classical_Prop.classic",
    "functional_extensionality_dep", "classic", "sig_forall_dec", "sig_not_dec",
    "Eqdep.Eq_rect_eq.eq_rect_eq", "eq_rect_eq", "JMeq.JMeq_eq", "JMeq_eq",
    "ProofIrrelevance.proof_irrelevance", "proof_irrelevance",
    "PropExtensionality.propositional_extensionality", "propositional_extensionality",
}
FORBIDDEN = re.compile(r"\b(Admitted|admit|Axiom|Axioms|Parameter|Parameters|Conjecture|Conjectures|"
                       r"Admit Obligations|Unset Guard Checking|Unset Positivity Checking|"
                       r"Unset Universe Checking|bypass_check|type-in-type|impredicative-set|"
                       r"Hypothesis|Hypotheses|Variable|Variables)\b")


def sh(cmd, cwd=None, timeout=None, env=None):
    e = dict(os.environ)
    e.setdefault("CARGO_NET_OFFLINE", "true")
    if env:
        e.update(env)
    try:
        p = subprocess.run(cmd, cwd=cwd, shell=isinstance(cmd, str), stdout=subprocess.PIPE,
                           stderr=subprocess.STDOUT, timeout=timeout, env=e)
        return p.returncode, p.stdout.decode("utf-8", "replace")
    except subprocess.TimeoutExpired as ex:
        out = ex.stdout.decode("utf-8", "replace") if ex.stdout else ""
        return 124, out + "\n[timeout]"


def write_if_changed(path, content):
    try:
        if open(path).read() == content:
            return False
    except FileNotFoundError:
        pass
    os.makedirs(os.path.dirname(path), exist_ok=True)
    with open(path, "w") as f:
        f.write(content)
    return True


def strip_comments(src):
    # remove (nested) Coq comments and string literals so the audit only sees code
    out, depth, i, n = [], 0, 0, len(src)
    instr = False
    while i < n:
        if not instr and src.startswith("(*", i):
            depth += 1; i += 2; continue
        if not instr and depth and src.startswith("*)", i):
            depth -= 1; i += 2; continue
        ch = src[i]
        if depth == 0:
            if ch == '"':
                instr = not instr
                out.append(' ')
            elif not instr:
                out.append(ch)
        i += 1
    return "".join(out)


def coq_files():
    fs = []
    for root, dirs, files in os.walk(COQ):
        if os.path.basename(root) == "Cases":
            dirs[:] = []
            continue
        for f in files:
            if f.endswith(".v"):
                fs.append(os.path.relpath(os.path.join(root, f), COQ))
    return sorted(fs)


def audit_sources(files):
    """Forbidden vernacular anywhere in the development: returns list of (file, line, word)."""
    bad = []
    for f in files:
        src = strip_comments(open(os.path.join(COQ, f)).read())
        # Section-local Variable/Hypothesis are allowed: only flag them outside sections
        depth = 0
        for ln, line in enumerate(src.split("\n"), 1):
            s = line.strip()
            if re.match(r"Section\s+\w+\s*\.", s):
                depth += 1
            for m in FORBIDDEN.finditer(line):
                w = m.group(1)
                if w in ("Variable", "Variables", "Hypothesis", "Hypotheses") and depth > 0:
                    continue
                if w == "admit" and "Admit" in line:
                    continue
                bad.append((f, ln, w))
            if re.match(r"End\s+\w+\s*\.", s) and depth > 0:
                depth -= 1
    return bad


def ensure_makefile():
    files = coq_files()
    proj = "-Q . OV\n-arg -w -arg -notation-overridden,-deprecated-hint-without-locality,-deprecated-instance-without-locality,-ambiguous-paths\n" + "\n".join(files) + "\n"
    changed = write_if_changed(os.path.join(COQ, "_CoqProject"), proj)
    if changed or not os.path.exists(os.path.join(COQ, "Makefile")):
        rc, out = sh("coq_makefile -f _CoqProject -o Makefile", cwd=COQ, timeout=120)
        if rc != 0:
            raise RuntimeError("coq_makefile failed:\n" + out)
    return files


def run_translators(meta, log):
    """Regenerate coq/Gen/*.v from /repo's current source.  Returns list of (name, ok, msg)."""
    res = []
    for t in meta.get("translators", []):
        script = os.path.join(V, "tools", "translate", t)
        rc, out = sh([sys.executable, script], cwd=V, timeout=300)
        res.append((t, rc == 0, out.strip()[-2000:]))
        log.append("translator %s rc=%d %s" % (t, rc, out.strip()[-300:]))
    return res


def sources_key(files):
    h = hashlib.sha256()
    for f in files:
        h.update(f.encode()); h.update(b"\0")
        h.update(open(os.path.join(COQ, f), "rb").read()); h.update(b"\0")
    return h.hexdigest()


def build_props(pid, meta, log, jobs=16):
    """Build Props/<pid>.vo (always recompiling that file, to capture Print Assumptions), unless an
    identical set of Coq sources (hand-written and regenerated) was already checked successfully."""
    r = {"ok": False, "theorems": [], "assumptions": {}, "reason": "", "checker_cmd": ""}
    files = ensure_makefile()
    key = sources_key(files)
    cpath = os.path.join(V, ".cache", "props", pid + ".json")
    model_vo0 = os.path.join(COQ, meta["model_module"].replace(".", "/") + ".vo")
    try:
        c = json.load(open(cpath))
        if c.get("key") == key and c["result"].get("ok") and os.path.exists(model_vo0) and os.path.exists(os.path.join(COQ, "Base", "Verdict.vo")) \
           and os.path.exists(os.path.join(COQ, "Props", pid + ".vo")):
            log.append("proofs: sources unchanged since the last successful build (sha256 %s), result reused" % key[:12])
            return c["result"]
    except Exception:
        pass
    r = _build_props(pid, meta, log, jobs, files)
    if r.get("ok"):
        os.makedirs(os.path.dirname(cpath), exist_ok=True)
        json.dump({"key": key, "result": r}, open(cpath, "w"))
    return r


def _build_props(pid, meta, log, jobs, files):
    r = {"ok": False, "theorems": [], "assumptions": {}, "reason": "", "checker_cmd": ""}
    bad = audit_sources(files)
    if bad:
        r["reason"] = "forbidden vernacular: " + ", ".join("%s:%d:%s" % b for b in bad[:5])
        return r
    target = "Props/%s.vo" % pid
    vfile = os.path.join(COQ, "Props", pid + ".v")
    if not os.path.exists(vfile):
        r["reason"] = "missing Props/%s.v" % pid
        return r
    for ext in (".vo", ".vok", ".vos", ".glob"):
        try:
            os.remove(os.path.join(COQ, "Props", pid + ext))
        except FileNotFoundError:
            pass
    # the model and the verdict machinery are built first and separately, so the model still runs
    # (for the failing-input search) when a proof is broken
    model_vo = meta["model_module"].replace(".", "/") + ".vo"
    rc0, out0 = sh("timeout 1800 make -j%d Base/Verdict.vo %s" % (jobs, model_vo), cwd=COQ, timeout=1830)
    if rc0 != 0:
        r["reason"] = "model does not compile"
        r["error"] = out0[-1500:]
        return r
    cmd = "timeout %d make -j%d %s" % (meta.get("coq_timeout", 2400), jobs, target)
    r["checker_cmd"] = "cd /verif/coq && coq_makefile -f _CoqProject -o Makefile && " + cmd
    t0 = time.time()
    rc, out = sh(cmd, cwd=COQ, timeout=meta.get("coq_timeout", 2400) + 30)
    log.append("make %s rc=%d (%.1fs)" % (target, rc, time.time() - t0))
    r["output_tail"] = out[-3000:]
    src = strip_comments(open(vfile).read())
    thms = re.findall(r"^\s*(?:Theorem|Lemma|Corollary)\s+([A-Za-z0-9_']+)", src, re.M)
    r["theorems"] = thms
    if rc != 0:
        m = re.search(r'File "([^"]+)", line (\d+)', out)
        r["reason"] = "coq build failed" + (" at %s:%s" % (m.group(1), m.group(2)) if m else "")
        r["error"] = out[-1500:]
        return r
    # Print Assumptions output: blocks "Closed under the global context" or "Axioms:\n name : type"
    closed = len(re.findall(r"Closed under the global context", out))
    ax_blocks = re.findall(r"Axioms:\n((?:.+\n?)+?)(?=\n\S|\Z|Closed under|Axioms:)", out)
    axioms = set()
    for b in re.findall(r"Axioms:\s*\n((?:[^\n]*\n)*?)(?=(?:Closed under)|(?:Axioms:)|\Z)", out):
        for line in b.split("\n"):
            m = re.match(r"^([A-Za-z_][\w.']*)\s*:", line)
            if m:
                axioms.add(m.group(1))
    n_pa = len(re.findall(r"^\s*Print Assumptions\s+", src, re.M))
    r["print_assumptions"] = n_pa
    r["closed"] = closed
    r["axioms"] = sorted(axioms)
    notallowed = [a for a in axioms if a not in ALLOWED_AXIOMS and a.split(".")[-1] not in ALLOWED_AXIOMS]
    if notallowed:
        r["reason"] = "axioms outside the allow-list: " + ", ".join(notallowed)
        return r
    if n_pa < len(thms):
        r["reason"] = "a theorem in Props/%s.v has no Print Assumptions" % pid
        return r
    n_blocks = closed + len(re.findall(r"^Axioms:", out, re.M))
    if n_blocks < n_pa:
        r["reason"] = "Print Assumptions output missing (%d of %d)" % (n_blocks, n_pa)
        return r
    r["ok"] = True
    return r


def cargo_cfg():
    c = "--config 'build.target-dir=\"%s\"'" % TARGET
    if REPO != "/repo":
        c += " --config 'paths=[\"%s/lib\"]'" % REPO
    return c


def build_harness(pid, log):
    t0 = time.time()
    try:
        if open(os.path.join(REPO, "Cargo.lock")).read() != open(os.path.join(HARNESS, "Cargo.lock")).read():
            shutil.copyfile(os.path.join(REPO, "Cargo.lock"), os.path.join(HARNESS, "Cargo.lock"))
    except FileNotFoundError:
        shutil.copyfile(os.path.join(REPO, "Cargo.lock"), os.path.join(HARNESS, "Cargo.lock"))
    rc, out = sh("cargo build --offline -q %s --bin %s 2>&1" % (cargo_cfg(), pid.lower()), cwd=HARNESS, timeout=3600)
    out = "\n".join(l for l in out.split("\n") if "unused" not in l)
    m = re.search(r"^error.*(?:\n.*){0,12}", out, re.M)
    if m:
        out = m.group(0)
    log.append("cargo build rc=%d (%.1fs)" % (rc, time.time() - t0))
    return rc == 0, out[-3000:]


def parse_case_lines(text):
    """harness output lines: CASE\t<tag>\t<coq case term>\t<impl output: coq list Z>"""
    cases = []
    for line in text.split("\n"):
        if line.startswith("CASE\t"):
            parts = line.split("\t")
            if len(parts) >= 5:
                cases.append((parts[1], parts[2], parts[3], parts[4]))
    return cases


def run_harness(pid, seed, n, tier, ids=None, timeout=3000):
    cmd = [os.path.join(TARGET, "debug", pid.lower()), "--seed", str(seed), "--n", str(n), "--tier", tier]
    if ids:
        cmd += ["--ids", ids]
    rc, out = sh(cmd, cwd=V, timeout=timeout, env={"RUST_BACKTRACE": "0"})
    return rc, out


def eval_shard(args):
    pid, k, mod, chunk, base_index = args
    name = "%s_%d" % (pid, k)
    path = os.path.join(CASES, name + ".v")
    body = ["From Coq Require Import List ZArith String Ascii.", "Import ListNotations.",
            "From OV Require Import Base.Verdict %s." % mod,
            "Open Scope Z_scope.",
            "Definition cs : list (case * list Z) := ["]
    body.append(";\n".join("  (%s, %s)" % (c[1], c[2]) for c in chunk))
    body.append("].")
    body.append("Definition vs := Eval vm_compute in (verdicts run oracle known cs).")
    body.append('Set Printing Width 1000000.')
    body.append('Set Printing Depth 1000000.')
    body.append("Print vs.")
    with open(path, "w") as f:
        f.write("\n".join(body) + "\n")
    # the time limits are generous on purpose: they only guard against a hung process; a busy machine
    # must not turn into an alarm (a shard that ran out of time is tried once more, alone)
    rc, out = sh("timeout 1800 coqc -noglob -Q . OV Cases/%s.v" % name, cwd=COQ, timeout=1830)
    if rc == 124:
        rc, out = sh("timeout 3600 coqc -noglob -Q . OV Cases/%s.v" % name, cwd=COQ, timeout=3630)
    res = {"rc": rc, "out": out, "verdicts": [], "outs": {}}
    if rc != 0:
        return res
    flat = " ".join(out.split())
    m = re.search(r"vs = (\[.*\]) : list \(Z \* \(Z \* Z\) \* list Z\)", flat)
    if not m:
        res["rc"] = 99
        return res
    for mm in re.finditer(r"\((-?\d+), \((-?\d+), (-?\d+)\), (\[[^\]]*\])\)", m.group(1)):
        i = base_index + int(mm.group(1))
        res["verdicts"].append((i, int(mm.group(2)), int(mm.group(3))))
        res["outs"][i] = mm.group(4)
    return res


def evaluate(pid, mod, cases, shard=400, workers=16):
    os.makedirs(CASES, exist_ok=True)
    for f in glob.glob(os.path.join(CASES, pid + "_*")):
        os.remove(f)
    jobs = []
    for k, i in enumerate(range(0, len(cases), shard)):
        jobs.append((pid, k, mod, cases[i:i + shard], i))
    verdicts, outs, errors = [], {}, []
    with ThreadPoolExecutor(max_workers=workers) as ex:
        for r in ex.map(eval_shard, jobs):
            if r["rc"] != 0:
                errors.append(r["out"][-1500:])
            verdicts += r["verdicts"]
            outs.update(r["outs"])
    return verdicts, outs, errors


def load_known():
    ks = []
    p = os.path.join(V, "known_findings.jsonl")
    if os.path.exists(p):
        for line in open(p):
            line = line.strip()
            if line and not line.startswith("#") and not line.startswith("fixed:"):
                try:
                    ks.append(json.loads(line))
                except Exception:
                    pass
    return ks


def main():
    import argparse
    ap = argparse.ArgumentParser()
    ap.add_argument("pid")
    ap.add_argument("--tier", default=os.environ.get("VERIF_TIER", "quick"))
    ap.add_argument("--seed", type=int, default=int(os.environ.get("VERIF_SEED", "1") or 1))
    ap.add_argument("--replay")
    a = ap.parse_args()
    pid, tier, seed = a.pid, a.tier, a.seed
    if tier not in ("quick", "thorough"):
        tier = "quick"
    t0 = time.time()
    meta = json.load(open(os.path.join(V, "props", pid + ".json")))
    log = []
    mod = meta["model_module"]            # e.g. "C37.Model"
    n = meta.get("n_" + tier, 500 if tier == "quick" else 5000)
    known_entries = [k for k in load_known() if k.get("property") == pid]
    ev_path = os.path.join(V, "evidence", pid + ".json")
    os.makedirs(os.path.dirname(ev_path), exist_ok=True)
    os.makedirs(os.path.join(V, "replays"), exist_ok=True)

    violation = None          # (replay_path, suffix)
    known_hit = {}
    broken = []               # reasons the property is no longer shown to hold

    # 1. translators
    tr = run_translators(meta, log)
    for name, ok, msg in tr:
        if not ok:
            broken.append({"kind": "translator", "name": name, "detail": msg[-500:]})

    # 2. proofs
    pr = build_props(pid, meta, log)
    if not pr["ok"]:
        broken.append({"kind": "theorem", "name": "Props/%s.v" % pid, "detail": pr["reason"],
                       "error": pr.get("error", "")[-1200:]})

    # 2b. thorough tier: re-check the compiled proofs of this property and everything they depend on
    # with the independent checker, and read the axioms it reports
    coqchk = None
    if tier == "thorough" and pr["ok"] and not a.replay:
        t1 = time.time()
        rc, out = sh("timeout 3000 coqchk -silent -o -Q . OV OV.Props.%s" % pid, cwd=COQ, timeout=3030)
        m = re.search(r"\* Axioms:(.*?)\n\s*\n\* Constants/Inductives relying on type-in-type:(.*?)\n\s*\n\* Constants/Inductives relying on unsafe \(co\)fixpoints:(.*?)\n\s*\n\* Inductives whose positivity is assumed:(.*?)\n", out, re.S)
        coqchk = {"rc": rc, "wall_s": round(time.time() - t1, 1)}
        if rc != 0 or not m:
            broken.append({"kind": "coqchk", "name": "coqchk OV.Props.%s" % pid, "detail": out[-1200:]})
        else:
            axs = [x.strip() for x in m.group(1).replace("<none>", "").split("\n") if x.strip()]
            coqchk["axioms"] = axs
            bad = [x for x in axs if x.split(" ")[0].split(".")[-1] not in ALLOWED_AXIOMS and x.split(" ")[0] not in ALLOWED_AXIOMS]
            unsafe = [g.strip() for g in (m.group(2), m.group(3), m.group(4)) if g.strip() and g.strip() != "<none>"]
            if bad or unsafe:
                broken.append({"kind": "coqchk", "name": "coqchk OV.Props.%s" % pid, "detail": "axioms outside the allow-list or unsafe constructs: %s %s" % (bad, unsafe)})
        log.append("coqchk rc=%d (%.1fs)" % (rc, time.time() - t1))

    # 3. harness
    ok, hout = build_harness(pid, log)
    cases, verdicts, outs, eval_errors = [], [], {}, []
    tags = {}
    if not ok:
        broken.append({"kind": "harness-build", "name": "cargo build", "detail": hout[-1500:]})
    else:
        if a.replay:
            rp = json.load(open(a.replay))
            tmpc = os.path.join(V, ".cache", "replay_%s.txt" % pid)
            with open(tmpc, "w") as f:
                for c in rp.get("cases", []) + rp.get("correspondence_disagreements", []):
                    f.write(c["id"] + "\n")
            rc, out = run_harness(pid, seed, 0, tier, ids=tmpc)
        else:
            rc, out = run_harness(pid, seed, n, tier)
        cases = parse_case_lines(out)
        log.append("harness rc=%d cases=%d" % (rc, len(cases)))
        if rc != 0 or not cases:
            broken.append({"kind": "harness-run", "name": "vh %s" % pid, "detail": out[-1500:]})
        # dedupe on the case term
        seen, uniq = set(), []
        for c in cases:
            if c[1] not in seen:
                seen.add(c[1]); uniq.append(c)
        n_eval = len(cases)
        cases = uniq
        for c in cases:
            tags[c[0]] = tags.get(c[0], 0) + 1
        # 4. model + oracle inside Coq
        if cases:
            verdicts, outs, eval_errors = evaluate(pid, mod, cases, shard=meta.get("shard", 400))
            for e in eval_errors:
                broken.append({"kind": "model-eval", "name": "coqc Cases/%s_*.v" % pid, "detail": e[-1200:]})

    # classify
    mism = [v for v in verdicts if v[1] in (1, 4)]
    viol = [v for v in verdicts if v[1] == 2]
    knownv = [v for v in verdicts if v[1] in (3, 4)]
    for v in knownv:
        known_hit.setdefault(v[2], []).append(v[0])

    def case_rec(i):
        return {"index": i, "tag": cases[i][0], "case": cases[i][1], "impl_output": cases[i][2],
                "model_output": outs.get(i), "id": cases[i][3]}

    replay_path = os.path.join(V, "replays", "%s-%s-%d.json" % (pid, tier, seed))
    if os.path.exists(replay_path) and not a.replay:
        os.remove(replay_path)
    if viol:
        viol.sort(key=lambda v: len(cases[v[0]][1]))
        rec = {"property": pid, "kind": "oracle-fails-on-implementation", "seed": seed, "tier": tier,
               "cases": [case_rec(v[0]) for v in viol[:5]],
               "explanation": "the property oracle (Coq: %s.oracle) is false on the implementation's output for these cases; replay with ./check %s --replay <this file>" % (mod, pid)}
        json.dump(rec, open(replay_path, "w"), indent=1)
        violation = (replay_path, "")
    elif mism or broken:
        # the property is no longer shown to hold: search harder for a failing input
        found = None
        if ok and not a.replay:
            rc, out = run_harness(pid, seed + 7919, n * meta.get("search_factor", 8), tier)
            c2 = parse_case_lines(out)
            seen = set(c[1] for c in cases)
            c2 = [c for c in c2 if c[1] not in seen]
            if c2 and not any(b["kind"] == "model-eval" for b in broken):
                v2, o2, e2 = evaluate(pid + "s", mod, c2, shard=meta.get("shard", 400))
                bad = [v for v in v2 if v[1] == 2]
                if bad:
                    bad.sort(key=lambda v: len(c2[v[0]][1]))
                    i = bad[0][0]
                    found = {"index": i, "tag": c2[i][0], "case": c2[i][1], "impl_output": c2[i][2],
                             "model_output": o2.get(i), "id": c2[i][3]}
        rec = {"property": pid, "seed": seed, "tier": tier,
               "no_longer_checks": broken,
               "translator_output": [{"name": t[0], "output": t[2][-3000:]} for t in tr],
               "correspondence_disagreements": [case_rec(v[0]) for v in mism[:5]]}
        if found:
            rec["kind"] = "oracle-fails-on-implementation (found by widened search)"
            rec["cases"] = [found]
            json.dump(rec, open(replay_path, "w"), indent=1)
            violation = (replay_path, "")
        else:
            rec["kind"] = "proof-or-correspondence-broken"
            rec["explanation"] = ("no input was found on which the property oracle fails, but the property is no longer shown to hold: "
                                  + "; ".join("%s %s" % (b["kind"], b["name"]) for b in broken)
                                  + ("; model and implementation disagree on %d case(s)" % len(mism) if mism else ""))
            json.dump(rec, open(replay_path, "w"), indent=1)
            violation = (replay_path, " no-failing-input-found")

    # known findings
    id_by_class = {}
    for k in known_entries:
        id_by_class[int(k.get("class", 0))] = k
    for cls, idxs in sorted(known_hit.items()):
        k = id_by_class.get(cls)
        if k is None:
            # a class the model knows but the committed file does not list: that is an unlisted violation
            rec = {"property": pid, "kind": "unlisted-known-class", "class": cls, "cases": [case_rec(i) for i in idxs[:3]]}
            json.dump(rec, open(replay_path, "w"), indent=1)
            violation = violation or (replay_path, "")
        else:
            print("KNOWN-FINDING: property=%s %s %s (reproduced on %d case(s), e.g. %s)" %
                  (pid, k.get("id", "class%d" % cls), k.get("what", ""), len(idxs), cases[idxs[0]][1][:120]))

    nontrivial = sum(cnt for t, cnt in tags.items() if not t.startswith("trivial"))
    samples = [{"tag": c[0], "case": c[1][:400], "impl_output": c[2][:400]} for c in cases[:: max(1, len(cases) // 5)][:6]]
    trusted = meta.get("trusted_base", []) + [
        "Coq 8.16.1 kernel incl. vm_compute (no native_compute)",
        "axioms reported by Print Assumptions: " + (", ".join(pr.get("axioms", [])) or "none (closed under the global context)"),
        "hand-written Gallina model %s tied to /repo by the correspondence run (Rust harness vh, canonical list Z outputs)" % mod,
    ]
    ev = {
        "property_id": pid, "tier": tier, "seed": seed, "level": meta.get("level", "proof"),
        "coverage": {
            "obligations": len(pr.get("theorems", [])) + len(tr),
            "discharged": (len(pr.get("theorems", [])) if pr["ok"] else 0) + sum(1 for t in tr if t[1]),
            "checker_cmd": pr.get("checker_cmd", ""),
            "trusted_base": trusted,
            "theorems": pr.get("theorems", []),
            "axioms": pr.get("axioms", []),
            "evaluations": n_eval if ok and cases else 0,
            "distinct_nontrivial": nontrivial,
            "rule": meta.get("rule", "cases generated by the harness from VERIF_SEED; distinct = distinct case term; non-trivial = tag not starting with 'trivial'"),
            "samples": samples,
            "input_distribution": tags,
            "correspondence": {"cases_compared": len(cases), "disagreements": len(mism),
                               "oracle_failures_unknown": len(viol),
                               "oracle_failures_known": sum(len(v) for v in known_hit.values())},
            "translators": [{"name": t[0], "ok": t[1]} for t in tr],
            "coqchk": coqchk,
            "known_findings_reproduced": sorted(known_hit.keys()),
            "explanation": meta.get("explanation", ""),
            "log": log,
        },
        "assumptions": meta.get("assumptions", []),
        "wall_s": round(time.time() - t0, 2),
        "violations": 1 if violation else 0,
    }
    json.dump(ev, open(ev_path, "w"), indent=1)
    if violation:
        print("VIOLATION property=%s replay=%s%s" % (pid, violation[0], violation[1]))
        sys.exit(1)
    print("OK property=%s tier=%s theorems=%d cases=%d wall=%.1fs" % (pid, tier, len(pr.get("theorems", [])), len(cases), time.time() - t0))
    sys.exit(0)


if __name__ == "__main__":
    main()
