From Coq Require Import List ZArith Bool Lia.
Import ListNotations.
From OV Require Import C30.Model.
Open Scope Z_scope.

Lemma eff_k_pos : forall k, (0 < eff_k k)%nat.
Proof.
  intro k. unfold eff_k, MAX_REFS.
  destruct (k =? 0) eqn:E0; [lia|].
  destruct (255 <? k) eqn:E1; [lia|].
  apply Z.eqb_neq in E0. apply Z.ltb_ge in E1.
  destruct (Z_lt_le_dec k 0); [|lia].
  (* negative k: Z.to_nat gives 0 — excluded by validity in the theorems; here k is any Z *)
Abort.
