(* C26 — client timestamps and wall-clock jumps cannot crash subscription processing.

   Model of the three time computations
     Subscriptions::expire_stale_publish_requests            (subscriptions.rs)
     Subscription::test_and_set_publishing_interval_elapsed  (subscription.rs)
     MonitoredItem::tick, sampling interval test             (monitored_item.rs)
   as they are after "fix: subscription time arithmetic panicked on future timestamps and
   backwards clock steps", embedded in the model of Subscriptions / Subscription of C22 (one
   subscription; its monitored item watches a node that is not in the address space used for
   ticking, so it is sampled but never produces a notification).

   chrono semantics: `a.signed_duration_since(b)` is the signed difference; `.to_std()` fails
   exactly on a negative difference; `.unwrap()` on that failure is the [Panic] of [Legacy];
   `.unwrap_or_default()` makes it the zero duration.  Times are nanoseconds since 1601-01-01
   (the OPC UA epoch) in Z; a request header timestamp is an i64 number of 100 ns ticks.
   No proofs in this file. *)
From Coq Require Import List ZArith Bool Lia.
From OV Require C22.Model.
Import ListNotations.
Open Scope Z_scope.

Module S := OV.C22.Model.

Definition I64MAX : Z := 2 ^ 63 - 1.
Definition I64MIN : Z := - 2 ^ 63.
Definition U32MAX : Z := 2 ^ 32 - 1.
(* 9999-12-31 23:59:59, what DateTime::from(i64::MAX) becomes *)
Definition ENDTIMES_NS : Z := 265046774399000000000.

(* DateTime::from(i64) followed by as_chrono() *)
Definition ts_ns (ticks : Z) : Z := if ticks =? I64MAX then ENDTIMES_NS else ticks * 100.

(* `publish_request_timeout as u64` of an i64 *)
Definition u64_of_i64 (x : Z) : Z := if x <? 0 then x + 2 ^ 64 else x.

(* the timeout of a request in ms: its timeout hint when that is set and below the server's
   publish request timeout, else the server's *)
Definition timeout_ms (prt hint : Z) : Z :=
  if (0 <? hint) && (hint <? prt) then hint else u64_of_i64 prt.

(* now.signed_duration_since(t).to_std().unwrap_or_default(), in ns *)
Definition elapsed (now t : Z) : Z := Z.max 0 (now - t).

(* a queued publish request: request id, header timestamp (ticks), timeout hint *)
Record req := mk_req { r_id : Z; r_ts : Z; r_hint : Z }.

Definition expired (prt now : Z) (r : req) : bool :=
  timeout_ms prt (r_hint r) * 1000000 <? elapsed now (ts_ns (r_ts r)).

(* duration_from_ms of an interval given in eighths of a millisecond, in ns *)
Definition ns_of_8 (i8 : Z) : Z := i8 * 125 * 1000.

(* MonitoredItem::tick: is the item sampled? [el]: publishing interval elapsed on this tick *)
Definition sampled (samp8 now lst : Z) (el : bool) : bool :=
  if samp8 <? 0 then el
  else if samp8 =? 0 then true
  else ns_of_8 samp8 <=? elapsed now lst.

(* ---- the world ------------------------------------------------------------------------ *)
(* requests oldest first (the code pushes at the front and pops at the back) *)
Record world := mk_world { ws : option S.subq; item_last : Z; reqs : list req }.

Definition is_nil {A} (l : list A) : bool := match l with [] => true | _ => false end.

(* pair queued notifications with queued requests, oldest first: responses (id, kind) flattened *)
Fixpoint drain (q : list Z) (rs : list req) : list Z * list Z * list req :=
  match q, rs with
  | k :: q', r :: rs' => let '(out, q'', rs'') := drain q' rs' in (r_id r :: k :: out, q'', rs'')
  | _, _ => ([], q, rs)
  end.

(* publishing_interval_elapsed as Subscription::tick computes it before anything else *)
Definition tick_elapsed (ivl now : Z) (is_recv : bool) (x : S.subq) : bool :=
  if is_recv then false
  else if S.sstate_eqb (S.st (S.sb x)) S.Creating then true
  else fst (S.interval_test ivl now (S.last x)).

Definition items_ticked (x : S.subq) : bool :=
  negb (S.sstate_eqb (S.st (S.sb x)) S.Closed) && negb (S.sstate_eqb (S.st (S.sb x)) S.Creating).

(* Subscriptions::tick; None = panic *)
Definition subs_tick (ivl8 samp8 now : Z) (is_recv : bool) (w : world) : option (world * list Z) :=
  match ws w with
  | None => Some (w, [])
  | Some x =>
      let ivl := ns_of_8 ivl8 in
      match S.sub_tick_gen true true ivl now is_recv (negb (is_nil (reqs w))) x with
      | None => None
      | Some x' =>
          let il := if items_ticked x && sampled samp8 now (item_last w) (tick_elapsed ivl now is_recv x)
                    then now else item_last w in
          let '(out, rest, rs') := drain (S.nq x') (reqs w) in
          let x'' := S.mk_subq (S.sb x') rest (S.last x') in
          Some (mk_world (if S.ready_to_remove x'' then None else Some x'') il rs', out)
      end
  end.

(* expire_stale_publish_requests: (id, 8) per expired request, oldest first *)
Fixpoint expired_ids (prt now : Z) (rs : list req) : list Z :=
  match rs with
  | [] => []
  | r :: rs' => if expired prt now r then r_id r :: 8 :: expired_ids prt now rs' else expired_ids prt now rs'
  end.

Definition expire (prt now : Z) (w : world) : world * list Z :=
  (mk_world (ws w) (item_last w) (filter (fun r => negb (expired prt now r)) (reqs w)),
   expired_ids prt now (reqs w)).

Definition max_publish_requests (w : world) : Z := match ws w with Some _ => 2 | None => 0 end.

Inductive op :=
| Enq (ts hint now : Z)      (* a publish request with this header arrives at [now] *)
| Expire (now : Z)           (* expire_stale_publish_requests(now) *)
| Tick (now : Z).            (* tick(now, TickTimerFired) *)

(* operation number [i] is the request id of an [Enq] *)
Definition step (prt ivl8 samp8 : Z) (i : Z) (o : op) (w : world) : option (world * list Z) :=
  match o with
  | Tick now => subs_tick ivl8 samp8 now false w
  | Expire now => Some (expire prt now w)
  | Enq ts hint now =>
      let mx := max_publish_requests w in
      let first_tick :=
        if mx <=? Z.of_nat (length (reqs w)) then subs_tick ivl8 samp8 now true w else Some (w, []) in
      match first_tick with
      | None => None
      | Some (w1, r1) =>
          if mx <=? Z.of_nat (length (reqs w1)) then Some (w1, r1 ++ [0; 5])
          else match subs_tick ivl8 samp8 now true
                       (mk_world (ws w1) (item_last w1) (reqs w1 ++ [mk_req i ts hint])) with
               | None => None
               | Some (w2, r2) => Some (w2, r1 ++ r2)
               end
      end
  end.

Definition snapshot (w : world) : list Z :=
  match ws w with
  | Some x => [1; S.state_nr (S.st (S.sb x)); S.life (S.sb x); S.kac (S.sb x); S.b2z (S.first (S.sb x));
               Z.of_nat (length (S.nq x)); Z.of_nat (length (reqs w)); S.last x;
               if S.sstate_eqb (S.st (S.sb x)) S.Closed then -1 else item_last w]
  | None => [0; Z.of_nat (length (reqs w))]
  end.

Record obs := mk_obs { o_pre : list Z; o_snap : list Z }.

Fixpoint trace (prt ivl8 samp8 : Z) (i : Z) (w : world) (ops : list op) : list obs * bool :=
  match ops with
  | [] => ([], false)
  | o :: r =>
      match step prt ivl8 samp8 i o w with
      | None => ([], true)
      | Some (w', pre) =>
          let '(t, pn) := trace prt ivl8 samp8 (i + 1) w' r in
          (mk_obs pre (snapshot w') :: t, pn)
      end
  end.

Definition encode_obs (o : obs) : list Z := o_pre o ++ (-9) :: o_snap o.
Definition encode (t : list obs * bool) : list Z :=
  concat (map encode_obs (fst t)) ++ (if snd t then [-2] else []).

(* the subscription (created at time [t0], which also is the item's creation time) *)
Definition init_world (k l t0 : Z) : world :=
  mk_world (Some (S.mk_subq (S.mk_sub S.Creating l k false true l k) [] t0)) t0 [].

(* ---- correspondence interface ----------------------------------------------------------- *)
Inductive case :=
| Hist (prt k l ivl8 samp8 t0 : Z) (ops : list op)
  (* the real data path (an item on a variable that exists) under the same kind of history; only
     "does not panic" is observed: one 0 per operation *)
| Smoke (prt k l ivl8 samp8 t0 : Z) (ops : list op).

Definition run (c : case) : list Z :=
  match c with
  | Hist prt k l ivl8 samp8 t0 ops => encode (trace prt ivl8 samp8 0 (init_world k l t0) ops)
  | Smoke _ _ _ _ _ _ ops => map (fun _ => 0) ops
  end.

(* ---- the property ------------------------------------------------------------------------- *)
Fixpoint mem (x : Z) (l : list Z) : bool :=
  match l with [] => false | y :: l' => (x =? y) || mem x l' end.

Fixpoint list_eqb (a b : list Z) : bool :=
  match a, b with
  | [], [] => true
  | x :: a', y :: b' => (x =? y) && list_eqb a' b'
  | _, _ => false
  end.

Fixpoint split9 (l : list Z) : option (list Z * list Z) :=
  match l with
  | [] => None
  | x :: l' => if x =? -9 then Some ([], l')
               else match split9 l' with Some (a, b) => Some (x :: a, b) | None => None end
  end.

Fixpoint parse (fuel : nat) (l : list Z) : option (list obs) :=
  match fuel with
  | O => None
  | S fuel' =>
      match l with
      | [] => Some []
      | _ =>
        match split9 l with
        | None => None
        | Some (pre, rest) =>
            match rest with
            | 1 :: a :: b :: c :: d :: e :: f :: g :: h :: rest' =>
                match parse fuel' rest' with
                | Some t => Some (mk_obs pre [1; a; b; c; d; e; f; g; h] :: t) | None => None end
            | 0 :: a :: rest' =>
                match parse fuel' rest' with
                | Some t => Some (mk_obs pre [0; a] :: t) | None => None end
            | _ => None
            end
        end
      end
  end.

(* the request with id [i] of a history: its header timestamp (ticks) and timeout hint *)
Definition request_of (ops : list op) (i : Z) : option (Z * Z) :=
  if i <? 0 then None
  else match nth_error ops (Z.to_nat i) with
       | Some (Enq ts hint _) => Some (ts, hint)
       | _ => None
       end.

(* "its timeout has elapsed since its timestamp", exact arithmetic *)
Definition timed_out (prt : Z) (ops : list op) (now id : Z) : bool :=
  match request_of ops id with
  | Some (ts, hint) =>
      (if (0 <? hint) && (hint <? prt) then hint else u64_of_i64 prt) * 1000000 <? now - ts_ns ts
  | None => false
  end.

(* responses are (id, kind) pairs; kind 8 is the BadTimeout service fault of a publish request *)
Fixpoint timeouts_ok (prt : Z) (ops : list op) (now : option Z) (pre : list Z) : bool :=
  match pre with
  | [] => true
  | id :: kind :: pre' =>
      (if kind =? 8 then match now with Some n => timed_out prt ops n id | None => false end else true)
      && timeouts_ok prt ops now pre'
  | _ => false
  end.

Fixpoint check (prt : Z) (all : list op) (ops : list op) (t : list obs) : bool :=
  match ops, t with
  | [], [] => true
  | o :: ops', b :: t' =>
      timeouts_ok prt all (match o with Expire n => Some n | _ => None end) (o_pre b)
      && check prt all ops' t'
  | _, _ => false
  end.

Definition oracle (c : case) (out : list Z) : bool :=
  match c with
  | Hist prt k l ivl8 samp8 t0 ops =>
      (* a panic marker or a missing observation does not parse *)
      match parse (S (length out)) out with
      | None => false
      | Some t => check prt ops ops t
      end
  | Smoke _ _ _ _ _ _ ops => list_eqb out (map (fun _ => 0) ops)
  end.

Definition known (c : case) : Z := 0.

Definition op_ok (o : op) : Prop :=
  match o with
  | Enq ts hint now => I64MIN <= ts <= I64MAX /\ 0 <= hint <= U32MAX
  | _ => True
  end.

(* the keep-alive / lifetime counts and the publishing interval are revised ones (C23); times are
   arbitrary *)
Definition valid (c : case) : Prop :=
  match c with
  | Hist prt k l ivl8 samp8 t0 ops => 1 <= k /\ 3 * k <= l /\ 1 <= ivl8 /\ I64MIN <= prt <= I64MAX
  | Smoke _ _ _ _ _ _ _ => True
  end.

(* ---- vocabulary of the theorem statements ---------------------------------------------- *)
(* a list of (request id, kind) pairs whose members satisfy P *)
Inductive pairs (P : Z -> Z -> Prop) : list Z -> Prop :=
| pairs_nil : pairs P []
| pairs_cons : forall i k l, P i k -> pairs P l -> pairs P (i :: k :: l).

(* what a response to operation [o] may be: a keep-alive (1) or status change (2) for a request,
   the refusal of a publish request (5), or the BadTimeout fault (8) -- the latter only from an
   [Expire n] and only for a request that has timed out at [n] *)
Definition resp_ok (prt : Z) (all : list op) (o : op) (i k : Z) : Prop :=
  0 <= i /\
  (k = 1 \/ k = 2 \/ k = 5 \/
   (k = 8 /\ exists n, o = Expire n /\ timed_out prt all n i = true)).

(* ---- the code before the repair --------------------------------------------------------- *)
Module Legacy.
  Inductive outcome (A : Type) := Ok (a : A) | Panic.
  Arguments Ok {A}. Arguments Panic {A}.
  (* now.signed_duration_since(t).to_std().unwrap() *)
  Definition elapsed (now t : Z) : outcome Z := if now - t <? 0 then Panic else Ok (now - t).
  Definition expired (prt now : Z) (r : req) : outcome bool :=
    match elapsed now (ts_ns (r_ts r)) with
    | Panic => Panic
    | Ok e => Ok (timeout_ms prt (r_hint r) * 1000000 <? e)
    end.
  Definition interval_test (ivl now lst : Z) : outcome (bool * Z) :=
    match elapsed now lst with
    | Panic => Panic
    | Ok e => Ok (if ivl <=? e then (true, now) else (false, lst))
    end.
  Definition sampled (samp8 now lst : Z) (el : bool) : outcome bool :=
    if samp8 <? 0 then Ok el
    else if samp8 =? 0 then Ok true
    else match elapsed now lst with Panic => Panic | Ok e => Ok (ns_of_8 samp8 <=? e) end.
End Legacy.
