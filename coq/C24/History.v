(* C24 — closed forms over whole sample histories (fold of enqueue). *)
From Coq Require Import List ZArith Bool Lia.
Import ListNotations.
From OV Require Import C24.Model C24.Proofs.
Open Scope Z_scope.

Section Hist.
  Context {A : Type}.
  Definition glastn {X} (n : nat) (l : list X) : list X := skipn (length l - n) l.

  Lemma glastn_length {X} n (l : list X) : length (glastn n l) = Nat.min n (length l).
  Proof. unfold glastn. rewrite skipn_length. lia. Qed.

  Lemma skipn_skipn' {X} x y (l : list X) : skipn x (skipn y l) = skipn (y + x) l.
  Proof. revert l. induction y as [|y IH]; intros l; [reflexivity|]. destruct l; [destruct x; reflexivity|]. cbn. apply IH. Qed.

  Lemma glastn_snoc {X} n (l : list X) a : (1 <= n)%nat ->
    glastn n (glastn n l ++ [a]) = glastn n (l ++ [a]).
  Proof.
    intros Hn. destruct (Nat.le_gt_cases (length l) n) as [H|H].
    - replace (glastn n l) with l; [reflexivity|]. unfold glastn.
      replace (length l - n)%nat with O by lia. reflexivity.
    - unfold glastn. rewrite !app_length, skipn_length. cbn [length].
      replace (length l - (length l - n) + 1 - n)%nat with 1%nat by lia.
      rewrite !skipn_app, skipn_skipn', skipn_length.
      replace (1 - (length l - (length l - n)))%nat with O by lia.
      replace (length l + 1 - n - length l)%nat with O by lia.
      cbn [skipn]. f_equal. f_equal. lia.
  Qed.

  Lemma vals_lastn n (l : list (A * bool)) : vals (lastn n l) = glastn n (vals l).
  Proof. unfold lastn, glastn, vals. rewrite map_length. apply vals_skipn. Qed.

  (* a history of samples only *)
  Definition feed_samples (s : st A) (l : list A) : st A := fold_left enqueue l s.

  Lemma feed_samples_inv mx l : forall s, inv mx s -> inv mx (feed_samples s l).
  Proof.
    unfold feed_samples. induction l as [|a l IH]; intros s Hi; cbn [fold_left]; [exact Hi|].
    apply IH. apply enqueue_inv. exact Hi.
  Qed.

  Lemma feed_samples_keeps l : forall s, size (feed_samples s l) = size s /\ disc (feed_samples s l) = disc s.
  Proof.
    unfold feed_samples. induction l as [|a l IH]; intros s; cbn [fold_left]; [split; reflexivity|].
    destruct (IH (enqueue s a)) as [H1 H2]. rewrite H1, H2. split; reflexivity.
  Qed.

  (* discard-oldest: after any number of samples the queue holds exactly the newest `size` of
     everything it was given (previous content followed by the samples) *)
  Theorem discard_oldest_keeps_newest mx (s : st A) l : inv mx s -> disc s = true ->
    vals (q (feed_samples s l)) = glastn (Z.to_nat (size s)) (vals (q s) ++ l).
  Proof.
    intros Hi Hd. induction l as [|a l IH] using rev_ind.
    - cbn. rewrite app_nil_r. destruct Hi as [[H1 _] Hl]. unfold glastn, vals, len in *.
      rewrite map_length. replace (length (q s) - Z.to_nat (size s))%nat with O by lia. reflexivity.
    - unfold feed_samples in *. rewrite fold_left_app. cbn [fold_left].
      pose proof (feed_samples_inv mx l s Hi) as Hi'. destruct (feed_samples_keeps l s) as [Hs Hdd].
      unfold feed_samples in *.
      rewrite (enqueue_spec mx) by exact Hi'. unfold spec_enqueue; cbn [q]. rewrite Hdd, Hd, Hs.
      rewrite vals_lastn, vals_app, IH. cbn [vals map fst]. rewrite app_assoc.
      apply glastn_snoc. destruct Hi as [[H1 _] _]. lia.
  Qed.
  Lemma glastn1_snoc {X} (l : list X) a : glastn 1 (l ++ [a]) = [a].
  Proof.
    unfold glastn. rewrite app_length. cbn [length].
    replace (length l + 1 - 1)%nat with (length l) by lia.
    rewrite skipn_app, skipn_all, Nat.sub_diag. reflexivity.
  Qed.

  Lemma firstn_firstn_app {X} n (l : list X) r : (n <= length l)%nat ->
    firstn n (firstn n l ++ r) = firstn n l.
  Proof.
    intros H. rewrite firstn_app, firstn_firstn, Nat.min_id, firstn_length.
    replace (n - Nat.min n (length l))%nat with O by lia. cbn. apply app_nil_r.
  Qed.

  (* keep-oldest (discard_oldest = false), from an empty queue: the first size-1 samples stay, the
     last slot holds the newest sample *)
  Theorem keep_oldest_replaces_newest mx (s : st A) l : inv mx s -> disc s = false -> q s = [] ->
    vals (q (feed_samples s l)) =
      if (length l <=? Z.to_nat (size s))%nat then l
      else firstn (Z.to_nat (size s) - 1) l ++ glastn 1 l.
  Proof.
    intros Hi Hd Hq. pose proof Hi as [[H1 _] _]. set (n := Z.to_nat (size s)).
    assert (Hn : (1 <= n)%nat) by (unfold n; lia).
    induction l as [|a l IH] using rev_ind.
    - cbn. rewrite Hq. reflexivity.
    - unfold feed_samples in *. rewrite fold_left_app. cbn [fold_left].
      pose proof (feed_samples_inv mx l s Hi) as Hi'. destruct (feed_samples_keeps l s) as [Hs Hdd].
      unfold feed_samples in *.
      rewrite (enqueue_spec mx) by exact Hi'. unfold spec_enqueue; cbn [q]. rewrite Hdd, Hd, Hs.
      fold n. rewrite vals_app, vals_firstn, IH. cbn [vals map fst].
      rewrite app_length. cbn [length].
      destruct (Nat.leb_spec (length l + 1) n) as [Ha|Ha].
      + destruct (Nat.leb_spec (length l) n) as [Hb|Hb]; [|lia].
        rewrite firstn_all2 by lia. reflexivity.
      + rewrite glastn1_snoc. f_equal.
        rewrite firstn_app. replace (n - 1 - length l)%nat with O by lia. cbn [firstn]. rewrite app_nil_r.
        destruct (Nat.leb_spec (length l) n) as [Hb|Hb]; [reflexivity|].
        apply firstn_firstn_app. lia.
  Qed.
End Hist.
