(* C06 — integer side: `as` between integer types, try_from, the `v < 0` guard and
   cast_to_integer! on integer sources. *)
From Coq Require Import List ZArith Bool Lia.
From OV Require Import C06.Model C06.Spec.
Import ListNotations.
Open Scope Z_scope.

Lemma ty_eqb_eq : forall a b, ty_eqb a b = true <-> a = b.
Proof.
  intros a b. unfold ty_eqb. rewrite Z.eqb_eq. split; [|intros ->; reflexivity].
  destruct a, b; cbn; intros H; try reflexivity; discriminate H.
Qed.

Lemma ty_eqb_refl : forall a, ty_eqb a a = true.
Proof. intros a. apply ty_eqb_eq. reflexivity. Qed.

Lemma pow2_split : forall b, 0 < b -> 2 ^ b = 2 * 2 ^ (b - 1).
Proof. intros b Hb. replace b with (Z.succ (b - 1)) at 1 by lia. apply Z.pow_succ_r. lia. Qed.

Lemma in_range_iff : forall s b n, in_range s b n = true <-> pmin s b <= n <= pmax s b.
Proof. intros s b n. unfold in_range. rewrite andb_true_iff, !Z.leb_le. tauto. Qed.

Lemma wrap_id : forall s b n, 0 < b -> in_range s b n = true -> wrap s b n = n.
Proof.
  intros s b n Hb H. apply in_range_iff in H. unfold wrap, pmin, pmax in *.
  pose proof (pow2_split b Hb) as E. assert (0 < 2 ^ (b - 1)) by (apply Z.pow_pos_nonneg; lia).
  destruct s.
  - rewrite Z.mod_small by lia. lia.
  - apply Z.mod_small. lia.
Qed.

(* the eight integer types: widths and how their ranges sit inside i64 / u64 *)
Lemma int_ty_In : forall t s b, int_ty t = Some (s, b) -> In (s, b) int_types.
Proof. intros t s b H. destruct t; cbn in H; try discriminate; injection H as <- <-; cbn; tauto. Qed.

Lemma int_types_bits : forall s b, In (s, b) int_types -> 0 < b <= 64.
Proof. intros s b H. cbn in H. repeat (destruct H as [[= <- <-] | H]; [lia|]). contradiction. Qed.

Lemma range_in_64 : forall s b, 0 < b <= 64 ->
  - 2 ^ 63 <= pmin s b <= 0 /\ 0 <= pmax s b < 2 ^ 64.
Proof.
  intros s b Hb. unfold pmin, pmax.
  assert (0 < 2 ^ (b - 1)) by (apply Z.pow_pos_nonneg; lia).
  assert (2 ^ (b - 1) <= 2 ^ 63) by (apply Z.pow_le_mono_r; lia).
  assert (2 ^ b <= 2 ^ 64) by (apply Z.pow_le_mono_r; lia).
  pose proof (pow2_split b ltac:(lia)).
  destruct s; lia.
Qed.

Lemma wrap_0 : forall s b, 0 < b -> wrap s b 0 = 0.
Proof.
  intros s b Hb. apply wrap_id; [exact Hb|]. apply in_range_iff.
  unfold pmin, pmax. assert (0 < 2 ^ (b - 1)) by (apply Z.pow_pos_nonneg; lia).
  pose proof (pow2_split b Hb). destruct s; lia.
Qed.

(* cast_to_integer!(v, from, to) on an integer v is the exact range test *)
Lemma int_macro_int : forall cfg n sf bf ts tb tgt,
  c_int_neg cfg = OLt -> c_int_lo cfg = OGe -> c_int_hi cfg = OLe ->
  0 < bf <= 64 -> 0 < tb <= 64 -> in_range sf bf n = true ->
  int_macro cfg (VInt n) (PInt sf bf) (PInt ts tb) tgt =
  if in_range ts tb n then Res tgt (VInt n) else Empty.
Proof.
  intros cfg n sf bf ts tb tgt E1 E2 E3 Hbf Htb Hn.
  unfold int_macro. rewrite E1, E2, E3.
  cbn [as_cast val_cmp zcmp as_Z]. rewrite (wrap_0 sf bf) by lia.
  apply in_range_iff in Hn.
  destruct (range_in_64 sf bf Hbf) as [Hs1 Hs2]. destruct (range_in_64 ts tb Htb) as [Ht1 Ht2].
  assert (W1 : wrap true 64 (pmin ts tb) = pmin ts tb).
  { apply wrap_id; [lia|]. apply in_range_iff. change (pmin true 64) with (- 2 ^ 63). change (pmax true 64) with (2 ^ 63 - 1). lia. }
  assert (W2 : wrap false 64 (pmax ts tb) = pmax ts tb).
  { apply wrap_id; [lia|]. apply in_range_iff. change (pmin false 64) with 0. change (pmax false 64) with (2 ^ 64 - 1). lia. }
  rewrite W1, W2.
  destruct (n <? 0) eqn:Hneg.
  - apply Z.ltb_lt in Hneg.
    assert (W3 : wrap true 64 n = n).
    { apply wrap_id; [lia|]. apply in_range_iff. change (pmin true 64) with (- 2 ^ 63). change (pmax true 64) with (2 ^ 63 - 1). lia. }
    rewrite W3.
    destruct (in_range ts tb n) eqn:Hr.
    + apply in_range_iff in Hr.
      replace (pmin ts tb =? 0) with false by (symmetry; apply Z.eqb_neq; lia).
      replace (pmin ts tb <=? n) with true by (symmetry; apply Z.leb_le; lia).
      cbn [negb andb]. rewrite wrap_id; [reflexivity | lia | apply in_range_iff; exact Hr].
    + assert (Hr' : ~ (pmin ts tb <= n <= pmax ts tb)) by (rewrite <- in_range_iff; congruence).
      destruct (pmin ts tb =? 0) eqn:Hz; cbn [negb andb]; [reflexivity|].
      replace (pmin ts tb <=? n) with false by (symmetry; apply Z.leb_gt; lia). reflexivity.
  - apply Z.ltb_ge in Hneg.
    assert (W3 : wrap false 64 n = n).
    { apply wrap_id; [lia|]. apply in_range_iff. change (pmin false 64) with 0. change (pmax false 64) with (2 ^ 64 - 1). lia. }
    rewrite W3.
    destruct (in_range ts tb n) eqn:Hr.
    + apply in_range_iff in Hr.
      replace (n <=? pmax ts tb) with true by (symmetry; apply Z.leb_le; lia).
      rewrite wrap_id; [reflexivity | lia | apply in_range_iff; exact Hr].
    + assert (Hr' : ~ (pmin ts tb <= n <= pmax ts tb)) by (rewrite <- in_range_iff; congruence).
      replace (n <=? pmax ts tb) with false by (symmetry; apply Z.leb_gt; lia). reflexivity.
Qed.
