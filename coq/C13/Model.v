(* C13 — channel keys are derived per the specification and agree on both ends
   (crypto/hash.rs p_sha, crypto/security_policy.rs prf / make_secure_channel_keys,
    core/comms/secure_channel.rs derive_keys).

   [p_sha_impl] is the loop of hash.rs as written; [prf]/[make_keys]/[derive_keys] follow the
   source, reading the per-policy tables and the slice arguments from Gen/C13Tables.v, which is
   regenerated from the source on every run.  The specification side ([P_hash], [spec_*]) is
   RFC 5246 section 5 and the Part 6 / Part 7 key-length table, written by hand. *)
From Coq Require Import List ZArith NArith Bool.
Import ListNotations.
From OV Require Export C13.Policy.
From OV Require Import C13.Sha Gen.C13Tables.

(* ---------- generic in the MAC ---------- *)
Section PSha.
  Variable hm : list byte -> list byte -> list byte.     (* HMAC key msg *)

  (* hash.rs p_sha: while result.len() < length { a_next = hmac(secret, a_last);
     result.extend(hmac(secret, a_next ++ seed)); a_last = a_next }; truncate *)
  Fixpoint p_sha_loop (fuel : nat) (secret seed : list byte) (len : nat)
           (result a_last : list byte) : list byte :=
    match fuel with
    | O => result
    | S f =>
        if Nat.ltb (length result) len then
          let a_next := hm secret a_last in
          p_sha_loop f secret seed len (result ++ hm secret (a_next ++ seed)) a_next
        else result
    end.
  Definition p_sha_impl (secret seed : list byte) (len : nat) : list byte :=
    firstn len (p_sha_loop (S len) secret seed len [] seed).

  (* security_policy.rs prf: result = p_sha(.., offset + length); result[offset..offset+length] *)
  Definition prf (secret seed : list byte) (len off : nat) : list byte :=
    firstn len (skipn off (p_sha_impl secret seed (off + len))).

  (* RFC 5246 section 5:  A(0) = seed, A(i) = HMAC(secret, A(i-1)),
     P_hash(secret, seed) = HMAC(secret, A(1) + seed) + HMAC(secret, A(2) + seed) + ...  *)
  Fixpoint A (secret seed : list byte) (i : nat) : list byte :=
    match i with O => seed | S j => hm secret (A secret seed j) end.
  Definition P_block (secret seed : list byte) (i : nat) : list byte :=
    hm secret (A secret seed (S i) ++ seed).
  (* the first n blocks of the stream *)
  Definition P_hash (secret seed : list byte) (n : nat) : list byte :=
    flat_map (P_block secret seed) (seq 0 n).
End PSha.

Definition mac_of (h : hash_alg) : list byte -> list byte -> list byte :=
  match h with HSha1 => hmac_sha1 | HSha256 => hmac_sha256 end.
Definition mac_len (h : hash_alg) : nat := match h with HSha1 => 20 | HSha256 => 32 end.

(* ---------- the code: make_secure_channel_keys and derive_keys ---------- *)
Definition src_sig_len (p : policy) : nat := Z.to_nat (src_sig_bits p / src_sig_div p).
Definition src_len (p : policy) (which : Z) : nat :=
  if Z.eqb which 0 then src_sig_len p
  else if Z.eqb which 1 then Z.to_nat (src_enc_len p) else Z.to_nat (src_blk_len p).

Definition key_set := (list byte * list byte * list byte)%type.     (* signing key, encryption key, IV *)

Definition slice (p : policy) (secret seed : list byte) (s : Z * list Z) : list byte :=
  prf (mac_of (src_hash p)) secret seed (src_len p (fst s))
      (fold_left Nat.add (map (src_len p) (snd s)) O).

Definition make_keys (p : policy) (secret seed : list byte) : key_set :=
  match map (slice p secret seed) src_slices with
  | [a; b; c] => (a, b, c)
  | _ => ([], [], [])
  end.

Record channel_keys := { local_keys : key_set; remote_keys : key_set }.
(* SecureChannel::derive_keys: remote = make(local_nonce, remote_nonce), local = make(remote_nonce, local_nonce) *)
Definition derive_keys (p : policy) (local_nonce remote_nonce : list byte) : channel_keys :=
  {| remote_keys := make_keys p local_nonce remote_nonce;
     local_keys := make_keys p remote_nonce local_nonce |}.

(* ---------- the specification: Part 6 6.7.5 with the Part 7 lengths ---------- *)
Definition spec_sig_len (p : policy) : nat :=
  match p with Basic128Rsa15 => 16 | Basic256 => 24 | _ => 32 end.
Definition spec_enc_len (p : policy) : nat :=
  match p with Basic128Rsa15 | Aes128Sha256RsaOaep => 16 | _ => 32 end.
Definition spec_blk_len (p : policy) : nat := 16.
Definition spec_hash (p : policy) : hash_alg :=
  match p with Basic128Rsa15 | Basic256 => HSha1 | _ => HSha256 end.

(* keys securing messages SENT by the party whose own nonce is [own], the peer's being [peer]:
   PRF(secret = peer nonce, seed = own nonce), consecutive slices of the P_hash stream *)
Definition spec_keys (p : policy) (own peer : list byte) : key_set :=
  let h := spec_hash p in
  let s := spec_sig_len p in let e := spec_enc_len p in let b := spec_blk_len p in
  let n := S (Nat.div (s + e + b) (mac_len h)) in
  let stream := P_hash (mac_of h) peer own n in
  (firstn s stream, firstn e (skipn s stream), firstn b (skipn (s + e) stream)).

(* ---------- hash.rs hmac_vec: the key handed to OpenSSL ---------- *)
(* `let key = if key.is_empty() { &[0u8][..] } else { key }` (fix: HMAC / P_SHA key derivation
   panicked on an empty secret).  [mac_impl] is the MAC the code computes; Proofs.v shows it is
   the RFC 2104 HMAC of the ORIGINAL key for every key, the empty one included. *)
Definition hmac_vec_key (key : list byte) : list byte :=
  match key with [] => [0%N] | _ => key end.
Definition mac_impl (h : hash_alg) (key msg : list byte) : list byte := mac_of h (hmac_vec_key key) msg.
Definition slice_impl (p : policy) (secret seed : list byte) (s : Z * list Z) : list byte :=
  prf (mac_impl (src_hash p)) secret seed (src_len p (fst s))
      (fold_left Nat.add (map (src_len p) (snd s)) O).
Definition make_keys_impl (p : policy) (secret seed : list byte) : key_set :=
  match map (slice_impl p secret seed) src_slices with
  | [a; b; c] => (a, b, c)
  | _ => ([], [], [])
  end.

(* ---------- SecureChannel as a state machine (core/comms/secure_channel.rs) ---------- *)
(* The fields that take part in key derivation.  A channel lives through several
   OpenSecureChannel exchanges (issue, then renewals): each one sets the policy and both nonces
   again and calls derive_keys again on the SAME object. *)
Record chan := mk_chan {
  ch_policy : policy;
  ch_local : list byte;                 (* local_nonce *)
  ch_remote : list byte;                (* remote_nonce *)
  ch_lkeys : option key_set;            (* local_keys *)
  ch_rkeys : option key_set             (* remote_keys *)
}.
(* SecureChannel::new followed by set_security_policy(p) (a new channel has policy None, with
   which nothing here can be called without the "Invalid policy" panic) *)
Definition chan_new (p : policy) : chan := mk_chan p [] [] None None.
Definition set_policy (p : policy) (c : chan) : chan :=
  mk_chan p (ch_local c) (ch_remote c) (ch_lkeys c) (ch_rkeys c).
(* set_local_nonce / set_remote_nonce: clear, then extend *)
Definition set_local (n : list byte) (c : chan) : chan :=
  mk_chan (ch_policy c) n (ch_remote c) (ch_lkeys c) (ch_rkeys c).
Definition set_remote (n : list byte) (c : chan) : chan :=
  mk_chan (ch_policy c) (ch_local c) n (ch_lkeys c) (ch_rkeys c).
Definition src_nonce_length (p : policy) : nat := Z.to_nat (src_nonce_len p).
(* set_remote_nonce_from_byte_string for a policy other than None: a null byte string or one of
   another length than secure_channel_nonce_length() is BadNonceInvalid and changes nothing.
   Status 0 = Ok, 1 = Err *)
Definition set_remote_bs (n : option (list byte)) (c : chan) : Z * chan :=
  match n with
  | Some v => if Nat.eqb (length v) (src_nonce_length (ch_policy c)) then (0%Z, set_remote v c) else (1%Z, c)
  | None => (1%Z, c)
  end.
(* derive_keys on the channel: both key sets are replaced *)
Definition chan_derive (c : chan) : chan :=
  mk_chan (ch_policy c) (ch_local c) (ch_remote c)
          (Some (make_keys_impl (ch_policy c) (ch_remote c) (ch_local c)))
          (Some (make_keys_impl (ch_policy c) (ch_local c) (ch_remote c))).
(* the keys the channel USES: signing_key() / encryption_keys() read local_keys,
   verification_key() / decryption_keys() read remote_keys (each unwraps: only defined when both
   are present).  Result: (keys that secure outgoing messages, keys that verify incoming ones) *)
Definition chan_used (c : chan) : option (key_set * key_set) :=
  match ch_lkeys c, ch_rkeys c with
  | Some (ls, le, li), Some (rs, re, ri) => Some ((ls, le, li), (rs, re, ri))
  | _, _ => None
  end.

(* ---------- correspondence interface ---------- *)
Open Scope Z_scope.
(* One OpenSecureChannel exchange on a client-role and a server-role channel: the policy, the
   client's and the server's nonce, and how the peer's nonce reaches each side:
   0 = set_remote_nonce, 1 = set_remote_nonce_from_byte_string, 2 = the same with a null string *)
Record round := mk_round { r_policy : policy; r_client_nonce : list Z; r_server_nonce : list Z; r_mode : Z }.
(* a history of exchanges on ONE pair of channels *)
Record case := mk_case { c_rounds : list round }.

Definition to_bytes (l : list Z) : list byte := map Z.to_N l.
Definition of_bytes (l : list byte) : list Z := map Z.of_N l.
Definition enc_set (k : key_set) : list Z :=
  let '(a, b, c) := k in
  [Z.of_nat (length a); Z.of_nat (length b); Z.of_nat (length c)] ++ of_bytes a ++ of_bytes b ++ of_bytes c.
Definition enc_opt (k : option key_set) : list Z := match k with Some k => enc_set k | None => [-1] end.
Definition enc_used (u : option (key_set * key_set)) : list Z :=
  match u with Some (a, b) => enc_set a ++ enc_set b | None => [-1] end.
(* what is observed of a channel: stored local keys, stored remote keys (hook verif_derived_keys),
   and the keys the accessors hand to the signing / encrypting code (hook verif_used_keys) *)
Definition obs_chan (c : chan) : list Z := enc_opt (ch_lkeys c) ++ enc_opt (ch_rkeys c) ++ enc_used (chan_used c).

Definition peer_nonce_in (mode : Z) (n : list byte) (c : chan) : Z * chan :=
  if mode =? 0 then (0, set_remote n c)
  else if mode =? 1 then set_remote_bs (Some n) c
  else set_remote_bs None c.

(* one exchange: policy, own nonce, peer nonce, and - as open_secure_channel does - derive_keys
   only when the peer nonce was accepted *)
Definition side_step (p : policy) (mode : Z) (own peer : list byte) (c : chan) : Z * chan :=
  let c1 := set_local own (set_policy p c) in
  let '(st, c2) := peer_nonce_in mode peer c1 in
  (st, if st =? 0 then chan_derive c2 else c2).

Fixpoint run_rounds (client server : chan) (rs : list round) : list Z :=
  match rs with
  | [] => []
  | r :: rs' =>
    let cn := to_bytes (r_client_nonce r) in let sn := to_bytes (r_server_nonce r) in
    let '(stc, c') := side_step (r_policy r) (r_mode r) cn sn client in
    let '(sts, s') := side_step (r_policy r) (r_mode r) sn cn server in
    [stc; sts] ++ obs_chan c' ++ obs_chan s' ++ run_rounds c' s' rs'
  end.

(* the two channels after a history *)
Fixpoint end_state (client server : chan) (rs : list round) : chan * chan :=
  match rs with
  | [] => (client, server)
  | r :: rs' =>
    let cn := to_bytes (r_client_nonce r) in let sn := to_bytes (r_server_nonce r) in
    end_state (snd (side_step (r_policy r) (r_mode r) cn sn client))
              (snd (side_step (r_policy r) (r_mode r) sn cn server)) rs'
  end.

Definition first_policy (rs : list round) : policy :=
  match rs with r :: _ => r_policy r | [] => Basic128Rsa15 end.
Definition run (c : case) : list Z :=
  run_rounds (chan_new (first_policy (c_rounds c))) (chan_new (first_policy (c_rounds c))) (c_rounds c).

(* ---------- the property on a history, written on the Part 6 table and not on the channel ---------- *)
Definition spec_nonce_length (p : policy) : nat := match p with Basic128Rsa15 => 16 | _ => 32 end%nat.
(* does a side take the peer's nonce *)
Definition accepts (p : policy) (mode : Z) (peer : list Z) : bool :=
  (mode =? 0) || ((mode =? 1) && Nat.eqb (length peer) (spec_nonce_length p)).
(* (keys that secure what this side sends, keys that verify what it receives), stored and used *)
Definition enc_side (k : option (key_set * key_set)) : list Z :=
  match k with
  | Some (l, r) => enc_set l ++ enc_set r ++ enc_set l ++ enc_set r
  | None => [-1; -1; -1]
  end.
(* After every exchange whose peer nonce a side accepted, that side holds exactly the keys of
   Part 6 table 33 for THIS exchange's policy and nonces - whatever happened on the channel
   before - and uses its own (client/server) keys to secure and the peer's to verify; a rejected
   nonce leaves the keys as they were. *)
Fixpoint spec_rounds (kc ks : option (key_set * key_set)) (rs : list round) : list Z :=
  match rs with
  | [] => []
  | r :: rs' =>
    let p := r_policy r in
    let cn := to_bytes (r_client_nonce r) in let sn := to_bytes (r_server_nonce r) in
    let client := spec_keys p cn sn in       (* secures what the client sends *)
    let server := spec_keys p sn cn in       (* secures what the server sends *)
    let ac := accepts p (r_mode r) (r_server_nonce r) in
    let asv := accepts p (r_mode r) (r_client_nonce r) in
    let kc' := if ac then Some (client, server) else kc in
    let ks' := if asv then Some (server, client) else ks in
    [if ac then 0 else 1; if asv then 0 else 1] ++ enc_side kc' ++ enc_side ks' ++ spec_rounds kc' ks' rs'
  end.
Definition spec (c : case) : list Z := spec_rounds None None (c_rounds c).

Fixpoint list_eqb (a b : list Z) : bool :=
  match a, b with
  | [], [] => true
  | x :: a', y :: b' => (x =? y) && list_eqb a' b'
  | _, _ => false
  end.

Definition oracle (c : case) (out : list Z) : bool := list_eqb out (spec c).
Definition known (c : case) : Z := 0.
Definition valid (c : case) : Prop :=
  Forall (fun r => Forall (fun b => 0 <= b < 256) (r_client_nonce r) /\ Forall (fun b => 0 <= b < 256) (r_server_nonce r))
         (c_rounds c).
