(* C07 proofs (in progress) *)
From Coq Require Import List ZArith Bool Lia.
Import ListNotations.
From OV Require Import C07.Model.
Open Scope Z_scope.

Lemma oracle_example : True. Proof. exact I. Qed.
