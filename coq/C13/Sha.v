(* SHA-1, SHA-256 (FIPS 180-4) and HMAC (RFC 2104) over byte lists, executable under vm_compute.
   Bytes and 32-bit words are N.  No proofs here. *)
From Coq Require Import List NArith.
Import ListNotations.
Open Scope N_scope.

Definition byte := N.

Definition w32 (x : N) : N := N.land x 4294967295.
Definition add32 (a b : N) : N := w32 (a + b).
Definition rotr (n x : N) : N := N.lor (N.shiftr x n) (w32 (N.shiftl x (32 - n))).
Definition rotl (n x : N) : N := rotr (32 - n) x.
Definition not32 (x : N) : N := N.lxor x 4294967295.

(* big-endian conversions *)
Definition be32_of_bytes (a b c d : byte) : N :=
  N.lor (N.shiftl a 24) (N.lor (N.shiftl b 16) (N.lor (N.shiftl c 8) d)).
Definition bytes_of_be32 (w : N) : list byte :=
  [N.land (N.shiftr w 24) 255; N.land (N.shiftr w 16) 255; N.land (N.shiftr w 8) 255; N.land w 255].
Definition bytes_of_be64 (w : N) : list byte :=
  bytes_of_be32 (N.shiftr w 32) ++ bytes_of_be32 (w32 w).

Fixpoint words_of_bytes (l : list byte) : list N :=
  match l with
  | a :: b :: c :: d :: l' => be32_of_bytes a b c d :: words_of_bytes l'
  | _ => []
  end.

(* message padding: 0x80, zeros to 56 mod 64, 64-bit big-endian bit length *)
Definition pad (msg : list byte) : list byte :=
  let len := N.of_nat (length msg) in
  let k := (119 - (len mod 64)) mod 64 in      (* number of zero bytes *)
  msg ++ [128] ++ repeat 0 (N.to_nat k) ++ bytes_of_be64 (8 * len).

Fixpoint chunks64 (fuel : nat) (l : list byte) : list (list byte) :=
  match fuel with
  | O => []
  | S f => match l with
           | [] => []
           | _ => firstn 64 l :: chunks64 f (skipn 64 l)
           end
  end.
Definition blocks (msg : list byte) : list (list N) :=
  let p := pad msg in map words_of_bytes (chunks64 (S (Nat.div (length p) 64)) p).

(* ---------------- SHA-256 ---------------- *)
Definition K256 : list N :=
 [1116352408;1899447441;3049323471;3921009573;961987163;1508970993;2453635748;2870763221;
  3624381080;310598401;607225278;1426881987;1925078388;2162078206;2614888103;3248222580;
  3835390401;4022224774;264347078;604807628;770255983;1249150122;1555081692;1996064986;
  2554220882;2821834349;2952996808;3210313671;3336571891;3584528711;113926993;338241895;
  666307205;773529912;1294757372;1396182291;1695183700;1986661051;2177026350;2456956037;
  2730485921;2820302411;3259730800;3345764771;3516065817;3600352804;4094571909;275423344;
  430227734;506948616;659060556;883997877;958139571;1322822218;1537002063;1747873779;
  1955562222;2024104815;2227730452;2361852424;2428436474;2756734187;3204031479;3329325298].
Definition H256_0 : list N :=
 [1779033703;3144134277;1013904242;2773480762;1359893119;2600822924;528734635;1541459225].

Definition s0 x := N.lxor (rotr 7 x) (N.lxor (rotr 18 x) (N.shiftr x 3)).
Definition s1 x := N.lxor (rotr 17 x) (N.lxor (rotr 19 x) (N.shiftr x 10)).
Definition S0 x := N.lxor (rotr 2 x) (N.lxor (rotr 13 x) (rotr 22 x)).
Definition S1 x := N.lxor (rotr 6 x) (N.lxor (rotr 11 x) (rotr 25 x)).
Definition Ch x y z := N.lxor (N.land x y) (N.land (not32 x) z).
Definition Maj x y z := N.lxor (N.land x y) (N.lxor (N.land x z) (N.land y z)).

(* message schedule: [recent] holds the last 16 words, newest first *)
Fixpoint sched256 (n : nat) (recent : list N) : list N :=
  match n with
  | O => []
  | S n' =>
      let w := add32 (add32 (s1 (nth 1 recent 0)) (nth 6 recent 0))
                     (add32 (s0 (nth 14 recent 0)) (nth 15 recent 0)) in
      w :: sched256 n' (w :: firstn 15 recent)
  end.
Definition W256 (blk : list N) : list N := blk ++ sched256 48 (rev blk).

Definition round256 (st : list N) (kw : N * N) : list N :=
  match st with
  | [a; b; c; d; e; f; g; h] =>
      let t1 := add32 (add32 (add32 h (S1 e)) (add32 (Ch e f g) (fst kw))) (snd kw) in
      let t2 := add32 (S0 a) (Maj a b c) in
      [add32 t1 t2; a; b; c; add32 d t1; e; f; g]
  | _ => st
  end.

Definition compress256 (h : list N) (blk : list N) : list N :=
  let r := fold_left round256 (combine K256 (W256 blk)) h in
  map (fun p => add32 (fst p) (snd p)) (combine h r).

Definition sha256 (msg : list byte) : list byte :=
  flat_map bytes_of_be32 (fold_left compress256 (blocks msg) H256_0).

(* ---------------- SHA-1 ---------------- *)
Definition H1_0 : list N := [1732584193; 4023233417; 2562383102; 271733878; 3285377520].

Fixpoint sched1 (n : nat) (recent : list N) : list N :=
  match n with
  | O => []
  | S n' =>
      let w := rotl 1 (N.lxor (N.lxor (nth 2 recent 0) (nth 7 recent 0))
                              (N.lxor (nth 13 recent 0) (nth 15 recent 0))) in
      w :: sched1 n' (w :: firstn 15 recent)
  end.
Definition W1 (blk : list N) : list N := blk ++ sched1 64 (rev blk).

Definition f1 (t : nat) (b c d : N) : N :=
  if Nat.ltb t 20 then N.lor (N.land b c) (N.land (not32 b) d)
  else if Nat.ltb t 40 then N.lxor b (N.lxor c d)
  else if Nat.ltb t 60 then N.lor (N.land b c) (N.lor (N.land b d) (N.land c d))
  else N.lxor b (N.lxor c d).
Definition k1 (t : nat) : N :=
  if Nat.ltb t 20 then 1518500249 else if Nat.ltb t 40 then 1859775393
  else if Nat.ltb t 60 then 2400959708 else 3395469782.

Definition round1 (st : list N) (tw : nat * N) : list N :=
  match st with
  | [a; b; c; d; e] =>
      let t := fst tw in
      let tmp := add32 (add32 (rotl 5 a) (f1 t b c d)) (add32 (add32 e (snd tw)) (k1 t)) in
      [tmp; a; rotl 30 b; c; d]
  | _ => st
  end.

Definition compress1 (h : list N) (blk : list N) : list N :=
  let r := fold_left round1 (combine (seq 0 80) (W1 blk)) h in
  map (fun p => add32 (fst p) (snd p)) (combine h r).

Definition sha1 (msg : list byte) : list byte :=
  flat_map bytes_of_be32 (fold_left compress1 (blocks msg) H1_0).

(* ---------------- HMAC (RFC 2104), block size 64 for both hashes ---------------- *)
Definition hmac_key (h : list byte -> list byte) (key : list byte) : list byte :=
  let k := if Nat.ltb 64 (length key) then h key else key in
  k ++ repeat 0 (64 - length k).

Definition hmac (h : list byte -> list byte) (key msg : list byte) : list byte :=
  let k := hmac_key h key in
  h (map (N.lxor 92) k ++ h (map (N.lxor 54) k ++ msg)).

Definition hmac_sha1 := hmac sha1.
Definition hmac_sha256 := hmac sha256.
