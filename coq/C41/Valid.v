(* C41 — Config::is_valid of ClientConfig (client/config.rs) and ServerConfig (server/config.rs), with
   ClientUserToken::is_valid, ServerUserToken::is_valid, ServerEndpoint::is_valid,
   SecurityPolicy::from_str and MessageSecurityMode::from(&str) as far as they decide validity.
   Branch for branch over the generic values of C41/Schema.v; a field is found by its Rust name
   in the schema extracted from the source.  No proofs here. *)
From Coq Require Import List ZArith Bool String.
From OV Require Import C41.Schema Gen.C41Schema.
Import ListNotations.
Open Scope list_scope.
Open Scope Z_scope.

Fixpoint field_index (fs : list field) (name : string) : option nat :=
  match fs with
  | [] => None
  | f :: r => if String.eqb (f_name f) name then Some O else option_map S (field_index r name)
  end.
Definition getf (n name : string) (v : val) : option val :=
  match v, lookup cfg_schema n with
  | VR vs, Some fs => match field_index fs name with Some i => nth_error vs i | None => None end
  | _, _ => None
  end.
Definition get_s n f v : option str := match getf n f v with Some (VS s) => Some s | _ => None end.
Definition get_z n f v : option Z := match getf n f v with Some (VZ z) => Some z | _ => None end.
Definition get_o n f v : option (option val) := match getf n f v with Some (VO o) => Some o | _ => None end.
Definition get_m n f v : option (list (str * val)) := match getf n f v with Some (VM m) => Some m | _ => None end.
Definition get_l n f v : option (list val) := match getf n f v with Some (VL l) => Some l | _ => None end.

Definition is_empty (s : str) : bool := match s with [] => true | _ => false end.
Definition is_nil {A} (l : list A) : bool := match l with [] => true | _ => false end.
Definition is_some {A} (o : option A) : bool := match o with Some _ => true | None => false end.
Definition has_key (k : str) (m : list (str * val)) : bool := existsb (fun kv : str * val => str_eqb k (fst kv)) m.

Definition ANON : str := zs "ANONYMOUS".

(* SecurityPolicy::from_str(s) != Unknown: the short names and the uris *)
Definition POLICY_NAMES : list str :=
  map zs ["None"; "Basic128Rsa15"; "Basic256"; "Basic256Sha256"; "Aes128-Sha256-RsaOaep"; "Aes256-Sha256-RsaPss";
          "http://opcfoundation.org/UA/SecurityPolicy#None";
          "http://opcfoundation.org/UA/SecurityPolicy#Basic128Rsa15";
          "http://opcfoundation.org/UA/SecurityPolicy#Basic256";
          "http://opcfoundation.org/UA/SecurityPolicy#Basic256Sha256";
          "http://opcfoundation.org/UA/SecurityPolicy#Aes128_Sha256_RsaOaep";
          "http://opcfoundation.org/UA/SecurityPolicy#Aes256_Sha256_RsaPss"]%string.
Definition policy_known (s : str) : bool := existsb (str_eqb s) POLICY_NAMES.
Definition policy_none (s : str) : bool :=
  str_eqb s (zs "None") || str_eqb s (zs "http://opcfoundation.org/UA/SecurityPolicy#None").
(* MessageSecurityMode::from(s) != Invalid *)
Definition mode_known (s : str) : bool := existsb (str_eqb s) (map zs ["None"; "Sign"; "SignAndEncrypt"]%string).
Definition mode_none (s : str) : bool := str_eqb s (zs "None").

(* ---- client ------------------------------------------------------------------------------------------ *)
Definition CT := "C.ClientUserToken"%string.
Definition CE := "C.ClientEndpoint"%string.
Definition CC := "C.ClientConfig"%string.

(* ClientUserToken::is_valid: a name, and either a password or both a certificate path and a key path *)
Definition client_token_valid (t : val) : bool :=
  match get_s CT "user" t, get_o CT "password" t, get_o CT "cert_path" t, get_o CT "private_key_path" t with
  | Some u, Some p, Some c, Some k =>
      negb (is_empty u) &&
      (if is_some p then negb (is_some c || is_some k) else is_some c && is_some k)
  | _, _, _, _ => false
  end.
Definition client_endpoint_valid (e : val) : bool :=
  match get_s CE "security_policy" e, get_s CE "security_mode" e with
  | Some p, Some m => policy_known p && mode_known m
  | _, _ => false
  end.
Definition client_valid (v : val) : bool :=
  match get_s CC "application_name" v, get_s CC "application_uri" v, get_m CC "user_tokens" v,
        get_m CC "endpoints" v, get_s CC "default_endpoint" v, get_z CC "session_retry_limit" v with
  | Some name, Some uri, Some toks, Some eps, Some de, Some lim =>
      negb (is_empty name) && negb (is_empty uri) &&
      negb (has_key ANON toks) && negb (has_key [] toks) &&
      forallb (fun kv : str * val => client_token_valid (snd kv)) toks &&
      (is_nil eps ||
       (negb (has_key [] eps) && (is_empty de || has_key de eps) &&
        forallb (fun kv : str * val => client_endpoint_valid (snd kv)) eps)) &&
      negb ((lim <? 0) && negb (lim =? -1))
  | _, _, _, _, _, _ => false
  end.

(* ---- server ------------------------------------------------------------------------------------------ *)
Definition ST := "S.ServerUserToken"%string.
Definition SE := "S.ServerEndpoint"%string.
Definition SL := "S.Limits"%string.
Definition SC := "S.ServerConfig"%string.

(* ServerUserToken::is_valid(id): not the reserved id, a name, exactly one of password / certificate *)
Definition server_token_valid (id : str) (t : val) : bool :=
  match get_s ST "user" t, get_o ST "pass" t, get_o ST "x509" t with
  | Some u, Some p, Some x => negb (str_eqb id ANON) && negb (is_empty u) && xorb (is_some p) (is_some x)
  | _, _, _ => false
  end.
(* ServerEndpoint::is_valid(id, user_tokens) *)
Definition server_endpoint_valid (toks : list (str * val)) (e : val) : bool :=
  match get_l SE "user_token_ids" e, get_o SE "password_security_policy" e,
        get_s SE "security_policy" e, get_s SE "security_mode" e with
  | Some ids, Some psp, Some p, Some m =>
      forallb (fun i => match i with VS s => str_eqb s ANON || has_key s toks | _ => false end) ids &&
      match psp with Some (VS s) => policy_known s | Some _ => false | None => true end &&
      policy_known p && mode_known m && Bool.eqb (policy_none p) (mode_none m)
  | _, _, _, _ => false
  end.
Definition nonzero (o : option Z) : bool := match o with Some z => negb (z =? 0) | None => false end.
Definition server_valid (v : val) : bool :=
  match get_m SC "endpoints" v, get_m SC "user_tokens" v, get_o SC "default_endpoint" v,
        getf SC "limits" v, get_l SC "discovery_urls" v with
  | Some eps, Some toks, Some de, Some lim, Some urls =>
      negb (is_nil eps) &&
      forallb (fun kv : str * val => server_endpoint_valid toks (snd kv)) eps &&
      match de with Some (VS d) => has_key d eps | Some _ => false | None => true end &&
      forallb (fun kv : str * val => server_token_valid (fst kv) (snd kv)) toks &&
      nonzero (get_z SL "max_array_length" lim) && nonzero (get_z SL "max_string_length" lim) &&
      nonzero (get_z SL "max_byte_string_length" lim) &&
      negb (is_nil urls)
  | _, _, _, _, _ => false
  end.

(* kind 0 = ClientConfig, otherwise ServerConfig *)
Definition is_valid_m (kind : Z) (v : val) : bool := if kind =? 0 then client_valid v else server_valid v.
