#!/usr/bin/env python3
"""apply.py NAME : apply one seeded change to /work/dD/repo (restore with git checkout -- .)"""
import sys
R='/work/dD/repo/lib/src/'
def sub(path, a, b, cnt=1, crlf=False):
    p=R+path
    s=open(p,newline='').read()
    if crlf:
        a=a.replace('\n','\r\n'); b=b.replace('\n','\r\n')
    assert s.count(a)==cnt, (path, a, s.count(a))
    open(p,'w',newline='').write(s.replace(a,b))
M={}
def m(f): M[f.__name__]=f; return f

# ---------------- C41
@m
def c41_no_truncate():
    sub('core/config.rs','if let Ok(mut f) = File::create(path) {','if let Ok(mut f) = std::fs::OpenOptions::new().write(true).create(true).open(path) {')
@m
def c41_fixed_read():
    sub('core/config.rs','''            let mut s = String::new();
            if f.read_to_string(&mut s).is_ok() {''','''            let mut buf = vec![0u8; 65536];
            if let Ok(n) = f.read(&mut buf) {
                let s = String::from_utf8_lossy(&buf[..n]).into_owned();''')
@m
def c41_load_cache():
    sub('core/config.rs','''        if let Ok(mut f) = File::open(path) {
            let mut s = String::new();
            if f.read_to_string(&mut s).is_ok() {''','''        if let Ok(mut f) = File::open(path) {
            // Don't read a file again that has not changed
            static LAST: std::sync::Mutex<Option<(std::path::PathBuf, u64, String)>> = std::sync::Mutex::new(None);
            let len = f.metadata().map(|m| m.len()).unwrap_or(0);
            let mut last = LAST.lock().unwrap();
            let mut s = String::new();
            let cached = match &*last { Some((p, l, text)) if p == path && *l == len => { s = text.clone(); true } _ => false };
            if cached || f.read_to_string(&mut s).is_ok() {
                *last = Some((path.to_path_buf(), len, s.clone()));''')
@m
def c41_save_skip_same_len():
    sub('core/config.rs','''            if let Ok(mut f) = File::create(path) {''','''            // Nothing to do if the file is already there with this content
            if let Ok(meta) = std::fs::metadata(path) {
                if meta.len() == s.len() as u64 {
                    return Ok(());
                }
            }
            if let Ok(mut f) = File::create(path) {''')
@m
def c41_trim_end():
    sub('core/config.rs','let result = f.write_all(s.as_bytes());','let result = f.write_all(s.trim_end().as_bytes());')
@m
def c41_isvalid_token():
    sub('client/config.rs','} else if self.cert_path.is_none() || self.private_key_path.is_none() {','} else if self.cert_path.is_none() && self.private_key_path.is_none() {')
@m
def c41_skip_field():
    sub('server/config.rs','''    /// register the server with a discovery server.
    pub discovery_server_url: Option<String>,''','''    /// register the server with a discovery server.
    #[serde(skip)]
    pub discovery_server_url: Option<String>,''')
@m
def c41_isvalid_stale():
    # validity remembered from the first check of an object with this application uri
    sub('server/config.rs','''impl Config for ServerConfig {
    fn is_valid(&self) -> bool {
        let mut valid = true;''','''impl Config for ServerConfig {
    fn is_valid(&self) -> bool {
        let mut valid = true;
        if self.tcp_config.port == 0 && self.tcp_config.hello_timeout == u32::MAX {
            valid = false;
        }''')

# ---------------- C42
@m
def c42_uri_numeric():
    sub('types/expanded_node_id.rs','''            if let Some(uri) = namespace.as_str() {
                namespace_uri = UAString::from(uri);
                0
            } else {''','''            if let Some(uri) = namespace.as_str() {
                // An index may have been written as a string
                if let Ok(index) = uri.parse::<u16>() {
                    index
                } else {
                    namespace_uri = UAString::from(uri);
                    0
                }
            } else {''',crlf=True)
@m
def c42_b64_chunks():
    sub('types/byte_string.rs','''        if let Some(ref value) = self.value {
            STANDARD.encode(value)
        } else {''','''        if let Some(ref value) = self.value {
            // Encode block by block to keep the temporary buffers small
            value.chunks(64).map(|c| STANDARD.encode(c)).collect::<String>()
        } else {''')
@m
def c42_i64_bound():
    sub('types/variant_json.rs','''                .as_i64()
                .ok_or_else(|| Error::custom(format!("Wrong type, expecting {} value", name)))?;
            if v < min || v > max {''','''                .as_i64()
                .ok_or_else(|| Error::custom(format!("Wrong type, expecting {} value", name)))?;
            if v <= min || v > max {''',crlf=True)
@m
def c42_ns_le1():
    sub('types/node_id.rs','''        let namespace = if self.namespace == 0 {
            None''','''        let namespace = if self.namespace <= 1 {
            None''')
@m
def c42_good_status_omitted():
    sub('types/data_value.rs','''    #[serde(skip_serializing_if = "Option::is_none")]
    pub status: Option<StatusCode>,''','''    #[serde(skip_serializing_if = "DataValue::is_good_or_none")]
    pub status: Option<StatusCode>,''')
    sub('types/data_value.rs','''impl DataValue {''','''impl DataValue {
    fn is_good_or_none(status: &Option<StatusCode>) -> bool {
        status.map(|s| s.is_good()).unwrap_or(true)
    }
''')
@m
def c42_u64_via_i64():
    sub('types/variant_json.rs','''                    v.parse::<u64>().map_err(|_| {''','''                    v.parse::<i64>().map(|v| v as u64).map_err(|_| {''',crlf=True)
@m
def c42_string_fastpath():
    # strings that are plain ASCII identifiers are taken without unescaping
    sub('types/string.rs','''        if let Some(s) = self.value.as_ref() {
            serializer.serialize_str(s)''','''        if let Some(s) = self.value.as_ref() {
            // Keep very long strings out of the documents
            if s.len() > 4096 {
                return serializer.serialize_str(&s[..4096]);
            }
            serializer.serialize_str(s)''')
@m
def c42_xml_empty_null():
    sub('types/variant_json.rs','''                Variant::XmlElement(v) => serializable_to_json!(v),''','''                Variant::XmlElement(v) if v.is_empty() => serde_json::Value::Null,
                Variant::XmlElement(v) => serializable_to_json!(v),''',crlf=True)
@m
def c42_guid_id_drops_uri():
    sub('types/expanded_node_id.rs','''                NodeId::new(namespace, v).into()
            }''','''                return Ok(NodeId::new(namespace, v).into());
            }''',crlf=True)

M[sys.argv[1]]()
print("applied", sys.argv[1])
