(* C13 — Channel keys are derived per the specification and agree on both ends.  Statements only. *)
From Coq Require Import List ZArith NArith.
Import ListNotations.
From OV Require Import C13.Policy C13.Sha Gen.C13Tables C13.Model C13.Proofs.
Local Close Scope Z_scope.
Local Close Scope N_scope.

(* The loop of hash.rs computes the first [len] bytes of the RFC 5246 P_hash stream, for every MAC
   with a fixed non-zero output length, every secret, seed and length. *)
Theorem C13_p_sha : forall (hm : list byte -> list byte -> list byte) (hlen : nat),
  0 < hlen -> (forall k m, length (hm k m) = hlen) ->
  forall secret seed len n, len <= n * hlen ->
  p_sha_impl hm secret seed len = firstn len (P_hash hm secret seed n).
Proof. exact p_sha_impl_spec. Qed.
Print Assumptions C13_p_sha.

(* PRF(secret, seed, length, offset) is the slice [offset, offset + length) of that stream. *)
Theorem C13_prf : forall (hm : list byte -> list byte -> list byte) (hlen : nat),
  0 < hlen -> (forall k m, length (hm k m) = hlen) ->
  forall secret seed len off n, off + len <= n * hlen ->
  prf hm secret seed len off = firstn len (skipn off (P_hash hm secret seed n)).
Proof. exact prf_spec. Qed.
Print Assumptions C13_prf.

(* The tables and slice arguments extracted from the CURRENT source are the Part 6/7 values. *)
Theorem C13_tables : forall p,
  src_sig_len p = spec_sig_len p /\ Z.to_nat (src_enc_len p) = spec_enc_len p /\
  Z.to_nat (src_blk_len p) = spec_blk_len p /\ src_hash p = spec_hash p.
Proof. exact tables_ok. Qed.
Print Assumptions C13_tables.

(* make_secure_channel_keys = consecutive slices (signing key, encryption key, IV) of
   P_SHA1 / P_SHA256 (secret, seed) with the policy's lengths, with the real HMAC-SHA1/SHA256. *)
Theorem C13_make_keys : forall p secret seed, make_keys p secret seed = spec_keys p seed secret.
Proof. exact make_keys_spec. Qed.
Print Assumptions C13_make_keys.

(* Both ends agree and use the keys Part 6 prescribes: the keys the client secures with are the
   keys the server verifies with and vice versa, for every policy and every pair of nonces. *)
Theorem C13_agree : forall p client_nonce server_nonce,
  let ck := derive_keys p client_nonce server_nonce in
  let sk := derive_keys p server_nonce client_nonce in
  local_keys ck = remote_keys sk /\ local_keys sk = remote_keys ck /\
  local_keys ck = spec_keys p client_nonce server_nonce /\
  local_keys sk = spec_keys p server_nonce client_nonce.
Proof. exact keys_agree. Qed.
Print Assumptions C13_agree.

(* "Different nonces give different keys", as the reduction that can be true: two different nonce
   pairs (peer nonces of equal length, at most one HMAC block) deriving the same key material
   exhibit a collision of SHA-1 / SHA-256. *)
Theorem C13_distinct : forall p own peer own' peer',
  length peer = length peer' -> length peer <= 64 -> (own, peer) <> (own', peer') ->
  spec_keys p own peer = spec_keys p own' peer' ->
  exists x y, x <> y /\ hash_of (spec_hash p) x = hash_of (spec_hash p) y.
Proof. exact distinct_nonces_distinct_keys_or_collision. Qed.
Print Assumptions C13_distinct.

(* The MAC hash.rs really computes - OpenSSL is handed [0] when the key is empty (the fix for the
   empty-secret panic) - is the RFC 2104 HMAC of the key it was given, for every key and message;
   hence make_secure_channel_keys as coded is the function of C13_make_keys. *)
Theorem C13_hmac_vec : forall a key msg, mac_impl a key msg = mac_of a key msg.
Proof. exact mac_impl_is_hmac. Qed.
Print Assumptions C13_hmac_vec.

Theorem C13_make_keys_impl : forall p secret seed, make_keys_impl p secret seed = spec_keys p seed secret.
Proof. intros p secret seed. rewrite make_keys_impl_eq. apply make_keys_spec. Qed.
Print Assumptions C13_make_keys_impl.

Local Open Scope Z_scope.
(* Histories.  A client-role and a server-role SecureChannel object go through ANY sequence of
   OpenSecureChannel exchanges (issue and renewals: policy, own nonce, peer nonce by either
   setter, derive_keys when the peer nonce was accepted), starting from any state in which the
   two key fields are both present or both absent.  What is observed after every exchange - the
   stored key sets and the keys the signing/encrypting accessors hand out - is [spec_rounds]:
   a side that accepted the peer nonce holds exactly the Part 6 keys of THAT exchange, secures
   with its own and verifies with the peer's; a side that rejected it keeps what it had. *)
Theorem C13_history : forall rs client server, chan_wf client -> chan_wf server ->
  run_rounds client server rs = spec_rounds (view client) (view server) rs.
Proof. exact run_rounds_spec. Qed.
Print Assumptions C13_history.

(* ... in particular nothing of earlier exchanges survives in the keys that are used: after any
   history whose last exchange both sides accepted, the keys one side secures with are the keys
   the other verifies with, and they are the Part 6 keys of the last policy and nonces. *)
Theorem C13_keys_after_history : forall rs r client server, chan_wf client -> chan_wf server ->
  let p := r_policy r in
  let cn := to_bytes (r_client_nonce r) in let sn := to_bytes (r_server_nonce r) in
  accepts p (r_mode r) (r_server_nonce r) = true -> accepts p (r_mode r) (r_client_nonce r) = true ->
  chan_used (fst (end_state client server (rs ++ [r]))) = Some (spec_keys p cn sn, spec_keys p sn cn) /\
  chan_used (snd (end_state client server (rs ++ [r]))) = Some (spec_keys p sn cn, spec_keys p cn sn).
Proof. exact keys_after_history. Qed.
Print Assumptions C13_keys_after_history.

(* the hypotheses are satisfiable: a renewal with another policy after a rejected exchange *)
Example C13_history_example :
  let rs := [mk_round Basic256 [1] [2] 1; mk_round Basic256 [1; 2] [3; 4] 0] in
  let r := mk_round Basic128Rsa15 (repeat 7 16) (repeat 9 16) 1 in
  chan_wf (chan_new Basic256) /\
  accepts (r_policy r) (r_mode r) (r_server_nonce r) = true /\ accepts (r_policy r) (r_mode r) (r_client_nonce r) = true /\
  accepts Basic256 1 [2] = false.
Proof. cbn. repeat split; discriminate. Qed.
Local Close Scope Z_scope.

Theorem C13_oracle : forall c : case, known c = 0%Z -> oracle c (run c) = true.
Proof. intros c _. apply oracle_holds. Qed.
Print Assumptions C13_oracle.
