(* C41 — what a reload gives when skipped fields are NOT at their default: the original with every
   #[serde(skip)] field reset to None, at any depth.  Generic in the schema. *)
From Coq Require Import List ZArith Bool String Lia.
From OV Require Import C41.Schema C41.SchemaProofs.
Import ListNotations.
Open Scope Z_scope.

Section Erase.
Variable sch : schema.

Fixpoint erase_fields (rec : ty -> val -> val) (fs : list field) (vs : list val) : list val :=
  match fs, vs with
  | f :: fs', x :: vs' => (if f_skip f then VO None else rec (f_ty f) x) :: erase_fields rec fs' vs'
  | _, _ => vs
  end.

(* the value with every skipped field (at any depth) set to None *)
Fixpoint erase (fuel : nat) (t : ty) (v : val) {struct fuel} : val :=
  match fuel with O => v | S fuel' =>
  match t, v with
  | TOpt t', VO (Some x) => VO (Some (erase fuel' t' x))
  | TVec t', VL l => VL (map (erase fuel' t') l)
  | TMapS t', VM m => VM (map (fun kv : str * val => (fst kv, erase fuel' t' (snd kv))) m)
  | TStruct n, VR vs =>
      match lookup sch n with Some fs => VR (erase_fields (erase fuel') fs vs) | None => v end
  | _, _ => v
  end end.

Lemma wt_string_strict fuel x : wt sch true fuel TString x = wt sch false fuel TString x.
Proof. destruct fuel; [reflexivity|]. destruct x; reflexivity. Qed.

Lemma is_none_erase fuel t x : is_none (erase fuel t x) = is_none x.
Proof.
  destruct fuel; [reflexivity|].
  destruct t; destruct x; cbn [erase]; try reflexivity.
  - destruct o; reflexivity.
  - destruct (lookup sch n); reflexivity.
Qed.

Lemma erase_fields_length rec : forall fs vs, List.length (erase_fields rec fs vs) = List.length vs.
Proof.
  induction fs as [|f fs IH]; intros [|x vs]; cbn [erase_fields List.length]; try reflexivity.
  rewrite IH. reflexivity.
Qed.

(* ---- the erased value is well-formed in the strict sense ------------------------------------------------ *)
Lemma erase_wt : forall fuel t v, wt sch false fuel t v = true -> wt sch true fuel t (erase fuel t v) = true.
Proof.
  induction fuel as [|fuel IH]; intros t v Hwt; [discriminate|].
  destruct t; destruct v; cbn [wt] in Hwt; try discriminate Hwt; cbn [erase]; cbn [wt]; try exact Hwt.
  - (* Option *) destruct o as [x|]; cbn [wt]; [apply IH; exact Hwt | reflexivity].
  - (* Vec *) rewrite forallb_forall in Hwt. apply forallb_forall. intros x Hin.
    apply in_map_iff in Hin as (x0 & <- & Hin). apply IH. apply Hwt. exact Hin.
  - (* BTreeMap *) apply andb_true_iff in Hwt as [Hwt Hs]. apply andb_true_iff. split.
    + rewrite forallb_forall in Hwt. apply forallb_forall. intros kv Hin.
      apply in_map_iff in Hin as ([k x] & <- & Hin). cbn [fst snd]. apply IH. apply (Hwt (k, x) Hin).
    + rewrite map_map. cbn [fst]. exact Hs.
  - (* BTreeSet *) apply andb_true_iff in Hwt as [Hwt Hs]. apply andb_true_iff. split; [|exact Hs].
    rewrite forallb_forall in Hwt. apply forallb_forall. intros x Hin. rewrite wt_string_strict. apply Hwt. exact Hin.
  - (* struct *) rename fs into vs. destruct (lookup sch n) as [fs|] eqn:Elk; [|discriminate].
    apply andb_true_iff in Hwt as [Hlen Hwt]. apply andb_true_iff. split.
    + rewrite erase_fields_length. exact Hlen.
    + clear Hlen Elk. revert vs Hwt. induction fs as [|f fs IHfs]; intros [|x vs] Hwt; cbn [erase_fields combine forallb] in *; try reflexivity.
      apply andb_true_iff in Hwt as [Hf Hr]. apply andb_true_iff. split; [|apply IHfs; exact Hr].
      unfold wt_field in *. destruct (f_skip f); [reflexivity|]. apply IH. exact Hf.
Qed.

(* ---- it is written exactly as the original is ---------------------------------------------------------- *)
Lemma all_some_map_ext {A B} (f : A -> option B) (g : A -> A) : forall l,
  (forall x, In x l -> f (g x) = f x) -> all_some f (map g l) = all_some f l.
Proof.
  induction l as [|x l IH]; intro H; [reflexivity|]. cbn [map all_some].
  rewrite (H x (or_introl eq_refl)), (IH (fun x0 Hin => H x0 (or_intror Hin))). reflexivity.
Qed.

Lemma erase_ser : forall fuel t v, wt sch false fuel t v = true ->
  ser sch fuel t (erase fuel t v) = ser sch fuel t v.
Proof.
  induction fuel as [|fuel IH]; intros t v Hwt; [reflexivity|].
  destruct t; destruct v; cbn [wt] in Hwt; try discriminate Hwt; cbn [erase]; try reflexivity.
  - (* Option *) destruct o as [x|]; [|reflexivity]. cbn [ser]. apply IH. exact Hwt.
  - (* Vec *) cbn [ser]. rewrite all_some_map_ext; [reflexivity|].
    intros x Hin. apply IH. rewrite forallb_forall in Hwt. apply Hwt. exact Hin.
  - (* BTreeMap *) apply andb_true_iff in Hwt as [Hwt _]. cbn [ser]. rewrite all_some_map_ext; [reflexivity|].
    intros [k x] Hin. unfold ser_kv. cbn [fst snd]. rewrite IH; [reflexivity|].
    rewrite forallb_forall in Hwt. apply (Hwt (k, x) Hin).
  - (* struct *) rename fs into vs. destruct (lookup sch n) as [fs|] eqn:Elk; [|reflexivity].
    cbn [ser]. rewrite Elk. rewrite erase_fields_length. apply andb_true_iff in Hwt as [Hlen Hwt].
    destruct (negb (List.length fs =? List.length vs)%nat); [reflexivity|].
    replace (all_some (ser_field (ser sch fuel)) (combine fs (erase_fields (erase fuel) fs vs)))
      with (all_some (ser_field (ser sch fuel)) (combine fs vs)); [reflexivity|].
    clear Hlen Elk. revert vs Hwt. induction fs as [|f fs IHfs]; intros [|x vs] Hwt; cbn [erase_fields combine forallb all_some] in *; try reflexivity.
    apply andb_true_iff in Hwt as [Hf Hr]. rewrite <- (IHfs vs Hr).
    replace (ser_field (ser sch fuel) (f, if f_skip f then VO None else erase fuel (f_ty f) x))
      with (ser_field (ser sch fuel) (f, x)); [reflexivity|].
    unfold ser_field, wt_field in *. destruct (f_skip f); [reflexivity|]. cbn [orb].
    rewrite is_none_erase, IH by exact Hf. reflexivity.
Qed.

(* ---- so the file reads back as the erased value --------------------------------------------------------- *)
Theorem reload_is_erase : schema_ok sch = true -> forall fuel t v y, ty_ok t = true ->
  wt sch false fuel t v = true -> ser sch fuel t v = Some y -> de sch fuel t y = Some (erase fuel t v).
Proof.
  intros Hok fuel t v y Hty Hwt Hs.
  apply (roundtrip sch Hok fuel t (erase fuel t v) y Hty (erase_wt fuel t v Hwt)).
  rewrite erase_ser by exact Hwt. exact Hs.
Qed.

(* a value whose skipped fields are at their default is its own erasure *)
Lemma erase_strict : forall fuel t v, wt sch true fuel t v = true -> erase fuel t v = v.
Proof.
  induction fuel as [|fuel IH]; intros t v Hwt; [reflexivity|].
  destruct t; destruct v; cbn [wt] in Hwt; try discriminate Hwt; cbn [erase]; try reflexivity.
  - destruct o as [x|]; [|reflexivity]. rewrite IH by exact Hwt. reflexivity.
  - f_equal. rewrite forallb_forall in Hwt. rewrite <- (map_id l) at 2. apply map_ext_in. intros x Hin. apply IH. apply Hwt. exact Hin.
  - apply andb_true_iff in Hwt as [Hwt _]. f_equal. rewrite forallb_forall in Hwt.
    rewrite <- (map_id m) at 2. apply map_ext_in. intros [k x] Hin. cbn [fst snd]. rewrite IH; [reflexivity|]. apply (Hwt (k, x) Hin).
  - rename fs into vs. destruct (lookup sch n) as [fs|] eqn:Elk; [|reflexivity].
    apply andb_true_iff in Hwt as [_ Hwt]. f_equal.
    clear Elk. revert vs Hwt. induction fs as [|f fs IHfs]; intros [|x vs] Hwt; cbn [erase_fields combine forallb] in *; try reflexivity.
    apply andb_true_iff in Hwt as [Hf Hr]. rewrite (IHfs vs Hr). f_equal.
    unfold wt_field in Hf. destruct (f_skip f).
    + destruct x as [| | | | | |[?|]| | |]; try discriminate Hf. reflexivity.
    + apply IH. exact Hf.
Qed.

End Erase.
