(* C39 — Event filters evaluate safely and with the specified operator semantics.  Statements only.

   [run] is the model of event_filter::evaluate_where_clause / operator::evaluate as committed
   (after the seven fixes); every content filter is a case, because validate_where_clause never
   rejects a clause.  Output markers: [-2] panic, [-5] recursion fuel exhausted, [-9] outside the
   modelled fragment (only a String -> Float/Double conversion with an exponent beyond +-400). *)
From Coq Require Import List ZArith Bool.
From OV Require Import C39.Values C39.Like C39.Model C39.Safety C39.LikeProofs C39.LikeTotal C39.RefProofs C39.Proofs.
Import ListNotations.
Open Scope Z_scope.

(* (1) Safety.  For EVERY clause (any operand counts, any element indices, loops, attribute
   operands, undecodable operands, any values) and every event, evaluation neither panics nor
   runs out of the recursion budget. *)
Theorem C39_no_panic : forall c, run c <> [-2] /\ run c <> [-5].
Proof. exact run_no_panic. Qed.
Print Assumptions C39_no_panic.

Theorem C39_where_clause_safe : forall fields els,
  evaluate_where_clause cfg_fixed fields els <> RPanic /\ evaluate_where_clause cfg_fixed fields els <> RFuel.
Proof. exact where_clause_clean. Qed.
Print Assumptions C39_where_clause_safe.

(* termination: the `used_elements` set bounds the nesting of `evaluate` by the number of
   elements of the clause, whatever the element operands refer to *)
Theorem C39_depth_bounded : forall fields els e fuel,
  els <> [] -> (length els <= fuel)%nat -> evaluate cfg_fixed fields els fuel [0] e <> RFuel.
Proof. exact depth_bounded_by_elements. Qed.
Print Assumptions C39_depth_bounded.

(* (2) Semantics.  If the clause unfolds into an expression tree with Part 4 operand counts (no
   loop, no index outside the clause, no attribute operand) and the reference evaluator defines
   its value — comparisons after implicit conversion by precedence, Between, InList, the three-valued
   And/Or/Not tables, bitwise operators, LIKE — then the evaluator returns exactly that value,
   unless the evaluation meets the LIKE wildcard `_` (known finding 1). *)
Theorem C39_reference : forall fields els v,
  reference fields els = Some v -> known_filter fields els = 0 ->
  evaluate_where_clause cfg_fixed fields els = ROk v.
Proof. exact reference_agrees. Qed.
Print Assumptions C39_reference.

(* what is assumed of Variant::convert (C06): wherever the precedence table sends an integer to
   another integer type, the conversion table has an arm; the arm moves the value iff it fits *)
Theorem C39_conversion_table_complete : forall s d,
  tyid_eqb (TInt s) (TInt d) = false -> precedence (TInt d) <= precedence (TInt s) -> int_arm s d = true.
Proof. exact int_arm_complete. Qed.
Print Assumptions C39_conversion_table_complete.

Theorem C39_convert_pair_is_reference : forall v1 v2, convert_pair v1 v2 = ref_common v1 v2.
Proof. exact common_agree. Qed.
Print Assumptions C39_convert_pair_is_reference.

(* (3) LIKE.  For every well-formed pattern p (characters, %, lists with ranges, negated lists)
   without `_`, written in concrete syntax, and every string s: translating with like_to_regex,
   reading the emitted text with the regex subset and matching = the LIKE specification. *)
Theorem C39_like : forall p s,
  like_wf p = true -> has_one p = false ->
  like_model true (like_print p) s = Some (like_spec p s).
Proof. exact like_fixed_is_spec. Qed.
Print Assumptions C39_like.

(* whatever the pattern (malformed, with _, any characters), the text the repaired translation emits
   is a valid regular expression of the modelled subset: the LIKE model is total, and the regex
   crate is only ever given ^, literal or escaped characters, `.*`, `?`, simple classes and $ *)
Theorem C39_like_total : forall pat t,
  like_to_regex_fixed pat = Some t -> exists anchored items, re_parse t = RParsed anchored items.
Proof. exact like_fixed_total. Qed.
Print Assumptions C39_like_total.

(* And / Or / Not are the three-valued tables of Part 4 (null = Empty) *)
Theorem C39_truth_tables : forall a b,
  and_vals a b = tri_value (tri_and (tri a) (tri b)) /\
  or_vals a b = tri_value (tri_or (tri a) (tri b)) /\
  not_val a = tri_value (tri_not (tri a)).
Proof. intros a b. repeat split; [apply and_agree | apply or_agree | apply not_agree]. Qed.
Print Assumptions C39_truth_tables.

(* the property oracle holds on the model's output for every case outside the known class *)
Theorem C39_oracle : forall c, valid c -> known c = 0 -> oracle c (run c) = true.
Proof. exact oracle_holds. Qed.
Print Assumptions C39_oracle.

(* known finding 1: `_` becomes `?` *)
Theorem C39_known_1_refuted : exists c, valid c /\ known c = 1 /\ oracle c (run c) = false.
Proof. exact known_1_refuted. Qed.
Print Assumptions C39_known_1_refuted.

(* the pinned code, one refutation per fix (the configuration with only that fix switched off) *)
Theorem C39_legacy_refuted_count : run_cfg cfg_no_count w_count = [-2] /\ run_cfg cfg_no_count w_between = [-2].
Proof. exact legacy_refuted_count. Qed.
Print Assumptions C39_legacy_refuted_count.

Theorem C39_legacy_refuted_index : run_cfg cfg_no_index w_index = [-2].
Proof. exact legacy_refuted_index. Qed.
Print Assumptions C39_legacy_refuted_index.

Theorem C39_legacy_refuted_attr : run_cfg cfg_no_attr w_attr = [-2].
Proof. exact legacy_refuted_attr. Qed.
Print Assumptions C39_legacy_refuted_attr.

Theorem C39_legacy_refuted_conv :
  run_cfg cfg_no_conv w_conv = [-2] /\ run_cfg cfg_no_conv w_conv2 = [-2] /\ run_cfg cfg_no_conv w_conv3 = [-2].
Proof. exact legacy_refuted_conv. Qed.
Print Assumptions C39_legacy_refuted_conv.

Theorem C39_legacy_refuted_nan : known w_nan = 0 /\ oracle w_nan (run_cfg cfg_no_nan w_nan) = false.
Proof. exact legacy_refuted_nan. Qed.
Print Assumptions C39_legacy_refuted_nan.

Theorem C39_legacy_refuted_eq : known w_eq = 0 /\ oracle w_eq (run_cfg cfg_no_eq w_eq) = false.
Proof. exact legacy_refuted_eq. Qed.
Print Assumptions C39_legacy_refuted_eq.

Theorem C39_legacy_refuted_like :
  known w_like = 0 /\ oracle w_like (run_cfg cfg_no_like w_like) = false /\
  known w_like_nl = 0 /\ oracle w_like_nl (run_cfg cfg_no_like w_like_nl) = false.
Proof. exact legacy_refuted_like. Qed.
Print Assumptions C39_legacy_refuted_like.

Theorem C39_legacy_refuted :
  Legacy.run w_count = [-2] /\ Legacy.run w_index = [-2] /\ Legacy.run w_attr = [-2] /\ Legacy.run w_conv = [-2] /\
  oracle w_nan (Legacy.run w_nan) = false /\ oracle w_eq (Legacy.run w_eq) = false /\
  oracle w_like (Legacy.run w_like) = false.
Proof. exact legacy_refuted_all. Qed.
Print Assumptions C39_legacy_refuted.

(* the pre-landed "fix: implicit unsigned to signed conversions wrapped" (C06), as far as a
   comparison sees it: with the wrapping conversion Equals(Byte 200, SByte -56) was TRUE *)
Theorem C39_legacy_refuted_wrap :
  Legacy.equals_wrapping (VInt Byte 200) (VInt SByte (-56)) = Some true /\
  ref_op Equals [VInt Byte 200; VInt SByte (-56)] = Some (VBool false) /\
  Legacy.equals_wrapping (VInt UInt64 18446744073709551615) (VInt Int64 (-1)) = Some true /\
  ref_op Equals [VInt UInt64 18446744073709551615; VInt Int64 (-1)] = Some (VBool false).
Proof. exact legacy_refuted_wrap. Qed.
Print Assumptions C39_legacy_refuted_wrap.
