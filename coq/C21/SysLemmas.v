(* Lemmas about the shared system model C21/Sys.v used by C21, C27 and C40:
   A. decoding inverts the canonical encoding;
   B. the subscription map (list in ascending id) under find / replace / remove;
   C. what a subscription tick cannot change (id, priority, ...). *)
From Coq Require Import List ZArith Bool Lia Permutation Sorted.
Import ListNotations.
From OV Require Import C21.Sys.
Open Scope Z_scope.

(* ------------------------------------------------------------------ A. decode (encode t) = t *)
Section Parsers.
Context {A : Type} (f : A -> list Z) (p : parser A).
Hypothesis p_f : forall a rest, p (f a ++ rest) = Some (a, rest).

Lemma p_rep_enc : forall l rest, p_rep (length l) p (flat_map f l ++ rest) = Some (l, rest).
Proof.
  induction l as [|a l IH]; intros rest; cbn [length p_rep flat_map]; [reflexivity|].
  rewrite <- app_assoc, p_f, IH. reflexivity.
Qed.

Lemma p_list_enc : forall l rest, p_list p (enc_list f l ++ rest) = Some (l, rest).
Proof.
  intros l rest. unfold enc_list, p_list, len. cbn [app].
  destruct (Z.ltb_spec (Z.of_nat (length l)) 0) as [H|H]; [lia|].
  rewrite Nat2Z.id. apply p_rep_enc.
Qed.
End Parsers.

Lemma p_z_enc a rest : p_z (enc_z a ++ rest) = Some (a, rest).
Proof. reflexivity. Qed.
Lemma p_datum_enc a rest : p_datum (enc_datum a ++ rest) = Some (a, rest).
Proof. destruct a as [[x y] z]. reflexivity. Qed.
Lemma p_sub3_enc a rest : p_datum (enc_sub3 a ++ rest) = Some (a, rest).
Proof. destruct a as [[x y] z]. reflexivity. Qed.
Lemma p_key_enc a rest : p_key (enc_key a ++ rest) = Some (a, rest).
Proof. destruct a as [x y]. reflexivity. Qed.

Lemma p_msg_enc m rest : p_msg (enc_msg m ++ rest) = Some (m, rest).
Proof.
  destruct m as [s t k d]. unfold enc_msg, p_msg. cbn [m_seq m_time m_kind m_data app].
  rewrite (p_list_enc enc_datum p_datum p_datum_enc). reflexivity.
Qed.

Lemma p_resp_enc r rest : p_resp (enc_resp r ++ rest) = Some (r, rest).
Proof.
  destruct r as [rid sub more avail results m | rid st]; [|reflexivity].
  unfold enc_resp, p_resp. cbn [app].
  rewrite <- !app_assoc.
  rewrite (p_list_enc enc_z p_z p_z_enc), (p_list_enc enc_z p_z p_z_enc), p_msg_enc. reflexivity.
Qed.

Lemma p_snap_enc s rest : p_snap (enc_snap s ++ rest) = Some (s, rest).
Proof.
  destruct s as [subs keys reqs pd]. unfold enc_snap, p_snap. cbn [sn_subs sn_keys sn_reqs sn_pdata].
  rewrite <- !app_assoc.
  rewrite (p_list_enc enc_sub3 p_datum p_sub3_enc), (p_list_enc enc_key p_key p_key_enc),
          (p_list_enc enc_z p_z p_z_enc), (p_list_enc enc_z p_z p_z_enc). reflexivity.
Qed.

Lemma p_opres_enc o rest : p_opres (enc_opres o ++ rest) = Some (o, rest).
Proof.
  destruct o as [st om rs sn]. unfold enc_opres, p_opres. cbn [o_status o_msg o_resps o_snap app].
  destruct om as [m|]; cbn [app]; rewrite <- ?app_assoc.
  - rewrite p_msg_enc, (p_list_enc enc_resp p_resp p_resp_enc), p_snap_enc. reflexivity.
  - cbn [app]. rewrite (p_list_enc enc_resp p_resp p_resp_enc), p_snap_enc. reflexivity.
Qed.

Lemma enc_opres_shape o : exists r, enc_opres o = 7 :: o_status o :: r.
Proof. unfold enc_opres. eexists. reflexivity. Qed.

Lemma p_trace_enc : forall tr p fuel,
  (length (enc_trace (tr, p)) <= fuel)%nat -> p_trace fuel (enc_trace (tr, p)) = Some (tr, p).
Proof.
  induction tr as [|o tr IH]; intros p fuel Hf.
  - unfold enc_trace; cbn [fst snd flat_map app]. destruct p; destruct fuel; reflexivity.
  - unfold enc_trace in *. cbn [fst snd flat_map] in *. rewrite <- app_assoc in *.
    destruct (enc_opres_shape o) as [r Hr].
    destruct fuel as [|fuel].
    + rewrite Hr in Hf. cbn in Hf. lia.
    + assert (Hstep : p_trace (S fuel) (enc_opres o ++ flat_map enc_opres tr ++ (if p then [-2] else []))
               = match p_opres (enc_opres o ++ flat_map enc_opres tr ++ (if p then [-2] else [])) with
                 | Some (o', r') => match p_trace fuel r' with
                                    | Some (tr', p') => Some (o' :: tr', p')
                                    | None => None
                                    end
                 | None => None
                 end).
      { rewrite Hr. reflexivity. }
      rewrite Hstep, p_opres_enc.
      rewrite (IH p fuel); [reflexivity|].
      rewrite Hr in Hf. cbn [app length] in Hf. rewrite !app_length in *. cbn [fst snd]. lia.
Qed.

Theorem decode_enc t : decode (enc_trace t) = Some t.
Proof. destruct t as [tr p]. unfold decode. apply p_trace_enc. lia. Qed.

(* ------------------------------------------------------------- B. the subscription map *)
Definition ids (subs : list sub) : list Z := map s_id subs.

Lemma find_sub_some id subs s : find_sub id subs = Some s -> In s subs /\ s_id s = id.
Proof.
  induction subs as [|a r IH]; cbn [find_sub]; [discriminate|].
  destruct (Z.eqb_spec (s_id a) id) as [E|E]; intros H.
  - inversion H; subst. split; [left; reflexivity | reflexivity].
  - destruct (IH H) as [H1 H2]. split; [right; exact H1 | exact H2].
Qed.

Lemma find_sub_none id subs : find_sub id subs = None <-> ~ In id (ids subs).
Proof.
  induction subs as [|a r IH]; cbn [find_sub ids map]; [split; [intros _ []|reflexivity]|].
  destruct (Z.eqb_spec (s_id a) id) as [E|E]; split; intros H.
  - discriminate.
  - exfalso. apply H. left. exact E.
  - intros [H1|H1]; [congruence|]. apply IH in H. exact (H H1).
  - apply IH. intros H1. apply H. right. exact H1.
Qed.

Lemma find_sub_in subs s : NoDup (ids subs) -> In s subs -> find_sub (s_id s) subs = Some s.
Proof.
  induction subs as [|a r IH]; intros Hnd Hin; [destruct Hin|].
  cbn [find_sub]. cbn [ids map] in Hnd. inversion Hnd as [|x l Hx Hl]; subst.
  destruct Hin as [E|Hin].
  - subst. rewrite Z.eqb_refl. reflexivity.
  - destruct (Z.eqb_spec (s_id a) (s_id s)) as [E|E].
    + exfalso. apply Hx. rewrite E. apply in_map. exact Hin.
    + apply IH; assumption.
Qed.

Lemma ids_replace s' subs : ids (replace_sub s' subs) = ids subs.
Proof.
  induction subs as [|a r IH]; cbn [replace_sub ids map]; [reflexivity|].
  destruct (Z.eqb_spec (s_id a) (s_id s')) as [E|E]; cbn [map].
  - rewrite E. reflexivity.
  - f_equal. exact IH.
Qed.

Lemma find_replace_same s' subs :
  In (s_id s') (ids subs) -> find_sub (s_id s') (replace_sub s' subs) = Some s'.
Proof.
  induction subs as [|a r IH]; cbn [replace_sub ids map find_sub]; [intros []|].
  destruct (Z.eqb_spec (s_id a) (s_id s')) as [E|E]; intros H; cbn [find_sub].
  - rewrite Z.eqb_refl. reflexivity.
  - destruct (Z.eqb_spec (s_id a) (s_id s')); [contradiction|].
    apply IH. destruct H; [contradiction|assumption].
Qed.

Lemma find_replace_other id s' subs :
  id <> s_id s' -> find_sub id (replace_sub s' subs) = find_sub id subs.
Proof.
  intros Hne. induction subs as [|a r IH]; cbn [replace_sub find_sub]; [reflexivity|].
  destruct (Z.eqb_spec (s_id a) (s_id s')) as [E|E]; cbn [find_sub].
  - destruct (Z.eqb_spec (s_id s') id); [congruence|].
    destruct (Z.eqb_spec (s_id a) id); [congruence|]. reflexivity.
  - destruct (Z.eqb_spec (s_id a) id); [reflexivity|]. exact IH.
Qed.

Lemma find_remove_other id id' subs :
  id <> id' -> find_sub id (remove_sub id' subs) = find_sub id subs.
Proof.
  intros Hne. induction subs as [|a r IH]; cbn [remove_sub find_sub]; [reflexivity|].
  destruct (Z.eqb_spec (s_id a) id') as [E|E]; cbn [find_sub].
  - destruct (Z.eqb_spec (s_id a) id); [congruence|]. reflexivity.
  - destruct (Z.eqb_spec (s_id a) id); [reflexivity|]. exact IH.
Qed.

Lemma in_remove_sub s id subs : In s (remove_sub id subs) -> In s subs.
Proof.
  induction subs as [|a r IH]; cbn [remove_sub]; [intros []|].
  destruct (s_id a =? id); intros H; [right; exact H|].
  destruct H as [H|H]; [left; exact H | right; apply IH; exact H].
Qed.

Lemma ids_remove_incl id subs x : In x (ids (remove_sub id subs)) -> In x (ids subs).
Proof.
  unfold ids. intros H. apply in_map_iff in H as (s & E & Hs).
  apply in_map_iff. exists s. split; [exact E | eapply in_remove_sub; exact Hs].
Qed.

Lemma nodup_remove id subs : NoDup (ids subs) -> NoDup (ids (remove_sub id subs)).
Proof.
  induction subs as [|a r IH]; cbn [remove_sub ids map]; intros H; [constructor|].
  inversion H as [|x l Hx Hl]; subst.
  destruct (s_id a =? id); [exact Hl|].
  cbn [map]. constructor; [|apply IH; exact Hl].
  intros Hin. apply Hx. eapply ids_remove_incl. exact Hin.
Qed.

Lemma find_remove_same id subs : NoDup (ids subs) -> find_sub id (remove_sub id subs) = None.
Proof.
  induction subs as [|a r IH]; cbn [remove_sub ids map]; intros H; [reflexivity|].
  inversion H as [|x l Hx Hl]; subst.
  destruct (Z.eqb_spec (s_id a) id) as [E|E].
  - apply find_sub_none. rewrite <- E. exact Hx.
  - cbn [find_sub]. destruct (Z.eqb_spec (s_id a) id); [contradiction|]. apply IH. exact Hl.
Qed.

Lemma in_replace_sub s s' subs : In s (replace_sub s' subs) -> s = s' \/ In s subs.
Proof.
  induction subs as [|a r IH]; cbn [replace_sub]; [intros []|].
  destruct (s_id a =? s_id s'); intros [H|H].
  - left. symmetry. exact H.
  - right. right. exact H.
  - right. left. exact H.
  - destruct (IH H) as [H1|H1]; [left; exact H1 | right; right; exact H1].
Qed.

(* ------------------------------------------- C. what a subscription tick leaves unchanged *)
(* the static part of a subscription *)
Definition same_static (s s' : sub) : Prop :=
  s_id s' = s_id s /\ s_prio s' = s_prio s /\ s_interval s' = s_interval s /\
  s_maxlife s' = s_maxlife s /\ s_maxka s' = s_maxka s /\ s_enabled s' = s_enabled s.

Lemma same_static_refl s : same_static s s.
Proof. repeat split. Qed.
Lemma same_static_trans a b c : same_static a b -> same_static b c -> same_static a c.
Proof. unfold same_static. intuition congruence. Qed.

Ltac static_setter := unfold same_static; cbn; repeat split; reflexivity.

Lemma start_timer_static s s' : start_timer s = Some s' -> same_static s s'.
Proof. unfold start_timer. destruct (s_life s <=? 0); [discriminate|]. intros H; inversion H. static_setter. Qed.

Lemma enqueue_static s m s' : enqueue s m = Some s' -> same_static s s'.
Proof. unfold enqueue. destruct (m_seq m =? _); [|discriminate]. intros H; inversion H. static_setter. Qed.

Lemma enqueue_fresh_static s now k s' : enqueue_fresh s now k = Some s' -> same_static s s'.
Proof.
  unfold enqueue_fresh. intros H. apply enqueue_static in H.
  eapply same_static_trans; [|exact H]. static_setter.
Qed.

Lemma update_state_static s timer na more rq pie a s' :
  update_state s timer na more rq pie = Some (a, s') -> same_static s s'.
Proof.
  unfold update_state.
  repeat match goal with
  | |- context [if ?b then _ else _] => destruct b
  end;
  try (intros H; inversion H; subst; static_setter);
  unfold bind;
  repeat match goal with
  | |- context [start_timer ?x] =>
      let E := fresh "E" in destruct (start_timer x) eqn:E; [apply start_timer_static in E|discriminate]
  end;
  intros H; inversion H; subst;
  (eapply same_static_trans; [|eapply same_static_trans; [eassumption|]]); static_setter.
Qed.

Lemma handle_result_static s now a notif s' :
  handle_result s now a notif = Some s' -> same_static s s'.
Proof.
  unfold handle_result. destruct a; destruct notif as [n|];
  try (intros H; inversion H; subst; apply same_static_refl); try discriminate.
  - destruct (s_enabled s); [apply enqueue_static|]. intros H; inversion H. static_setter.
  - intros H. apply enqueue_fresh_static in H. eapply same_static_trans; [|exact H]. static_setter.
  - apply enqueue_fresh_static.
  - apply enqueue_static.
  - intros H. apply enqueue_fresh_static in H. eapply same_static_trans; [|exact H]. static_setter.
  - intros H. apply enqueue_fresh_static in H. eapply same_static_trans; [|exact H]. static_setter.
Qed.

Lemma tick_items_static s vars now pie : same_static s (snd (tick_items s vars now pie)).
Proof.
  unfold tick_items. destruct (tick_items_loop _ _ _ _) as [its d].
  destruct d; cbn [snd]; static_setter.
Qed.

Lemma sub_tick_static s vars now timer rq s' :
  sub_tick s vars now timer rq = Some s' -> same_static s s'.
Proof.
  unfold sub_tick, sub_tick_g, bind.
  set (pre := if timer then _ else _).
  assert (Hpre : forall pie s1, pre = Some (pie, s1) -> same_static s s1).
  { subst pre. intros pie s1. destruct timer.
    - destruct (s_state s =? 1); [intros H; inversion H; apply same_static_refl|].
      destruct (s_interval s <=? 0); [discriminate|].
      destruct (s_interval s <=? _); intros H; inversion H; [static_setter | apply same_static_refl].
    - intros H; inversion H. apply same_static_refl. }
  destruct pre as [[pie s1]|]; [|discriminate].
  specialize (Hpre pie s1 eq_refl).
  set (tk := if (s_state s1 =? 0) || (s_state s1 =? 1) then _ else _).
  assert (Htk : same_static s1 (snd tk)).
  { subst tk. destruct ((s_state s1 =? 0) || (s_state s1 =? 1)); [apply same_static_refl|].
    apply tick_items_static. }
  destruct tk as [notif s2]. cbn [snd] in Htk.
  destruct (_ || _ || rq).
  - destruct (update_state s2 timer _ _ rq pie) as [[a s3]|] eqn:E; [|discriminate].
    cbn [fst snd]. intros H. apply handle_result_static in H. apply update_state_static in E.
    eapply same_static_trans; [exact Hpre|]. eapply same_static_trans; [exact Htk|].
    eapply same_static_trans; eassumption.
  - intros H; inversion H; subst. eapply same_static_trans; eassumption.
Qed.

(* ------------------------------------------------ D. the loop of Subscriptions::tick *)
Definition tx_ids (tx : list (Z * req * msg)) : list Z := map (fun e => fst (fst e)) tx.

Lemma pair_up_spec id : forall reqs ns tx r m,
  pair_up id reqs ns = (tx, r, m) ->
  (forall i, In i (tx_ids tx) -> i = id) /\ (r <> [] -> m = []) /\ (reqs = [] -> tx = [] /\ r = []).
Proof.
  induction reqs as [|q reqs IH]; intros ns tx r m H.
  - cbn [pair_up] in H. inversion H; subst. repeat split; try reflexivity; [intros i []|congruence].
  - destruct ns as [|n ns]; cbn [pair_up] in H.
    + inversion H; subst. repeat split; try discriminate; intros i [].
    + destruct (pair_up id reqs ns) as [[tx1 r1] m1] eqn:E. inversion H; subst.
      destruct (IH _ _ _ _ E) as (H1 & H2 & _). repeat split; try discriminate; [|exact H2].
      intros i [Hi|Hi]; [cbn in Hi; congruence | apply H1; exact Hi].
Qed.


Section Scheduling.
Variable stick : sub -> list Z -> Z -> bool -> bool -> option sub.
Hypothesis stick_static : forall s vars now timer rq s',
  stick s vars now timer rq = Some s' -> s_id s' = s_id s /\ s_prio s' = s_prio s.
Variables (vars : list Z) (now : Z) (timer : bool).

Notation tick_ids' := (fun idl subs reqs => tick_ids_g stick idl subs reqs vars now timer).

(* one step of the loop, opened up *)
Lemma tick_ids_cons id r subs reqs subs' reqs' tx :
  tick_ids_g stick (id :: r) subs reqs vars now timer = Some (subs', reqs', tx) ->
  exists s s1 tx1 reqs1 ns tx2,
    find_sub id subs = Some s /\ stick s vars now timer (negb (is_nil reqs)) = Some s1 /\
    pair_up id reqs (s_notifs s1) = (tx1, reqs1, ns) /\
    tick_ids_g stick r (if (s_state (set_notifs s1 ns) =? 0) && is_nil ns
                        then remove_sub id subs else replace_sub (set_notifs s1 ns) subs)
               reqs1 vars now timer = Some (subs', reqs', tx2) /\
    tx = tx1 ++ tx2.
Proof.
  cbn [tick_ids_g]. unfold bind.
  destruct (find_sub id subs) as [s|] eqn:Ef; [|discriminate].
  destruct (stick s vars now timer _) as [s1|] eqn:Es; [|discriminate].
  destruct (pair_up id reqs (s_notifs s1)) as [[tx1 reqs1] ns] eqn:Ep.
  destruct (tick_ids_g stick r _ reqs1 vars now timer) as [[[subs2 reqs2] tx2]|] eqn:Er; [|discriminate].
  intros H; inversion H; subst.
  exists s, s1, tx1, reqs1, ns, tx2. repeat split; assumption.
Qed.

Lemma tick_ids_no_reqs : forall idl subs subs' reqs' tx,
  tick_ids_g stick idl subs [] vars now timer = Some (subs', reqs', tx) -> tx = [] /\ reqs' = [].
Proof.
  induction idl as [|id r IH]; intros subs subs' reqs' tx H.
  - cbn in H. inversion H. split; reflexivity.
  - apply tick_ids_cons in H as (s & s1 & tx1 & reqs1 & ns & tx2 & _ & _ & Hp & Hr & ->).
    destruct (pair_up_spec _ _ _ _ _ _ Hp) as (_ & _ & H3). destruct (H3 eq_refl) as [-> ->].
    apply IH in Hr as [-> ->]. split; reflexivity.
Qed.

(* the subscription list after one loop step *)
Definition after_step (id : Z) (s1 : sub) (ns : list msg) (subs : list sub) : list sub :=
  if (s_state (set_notifs s1 ns) =? 0) && is_nil ns
  then remove_sub id subs else replace_sub (set_notifs s1 ns) subs.

Lemma after_step_other id s1 ns subs j :
  s_id s1 = id -> j <> id -> find_sub j (after_step id s1 ns subs) = find_sub j subs.
Proof.
  intros Hid Hne. unfold after_step. destruct (_ && _).
  - apply find_remove_other. exact Hne.
  - apply find_replace_other. cbn. congruence.
Qed.

Lemma after_step_ids id s1 ns subs x :
  s_id s1 = id -> In x (ids (after_step id s1 ns subs)) -> In x (ids subs).
Proof.
  intros Hid. unfold after_step. destruct (_ && _).
  - apply ids_remove_incl.
  - rewrite ids_replace. auto.
Qed.

Lemma after_step_nodup id s1 ns subs :
  NoDup (ids subs) -> NoDup (ids (after_step id s1 ns subs)).
Proof.
  unfold after_step. destruct (_ && _); [apply nodup_remove|]. rewrite ids_replace. auto.
Qed.

Lemma after_step_in id s1 ns subs s' :
  In s' (after_step id s1 ns subs) -> s' = set_notifs s1 ns \/ In s' subs.
Proof.
  unfold after_step. destruct (_ && _).
  - intros H. right. eapply in_remove_sub. exact H.
  - apply in_replace_sub.
Qed.

Lemma tick_ids_frame : forall idl subs reqs subs' reqs' tx j,
  tick_ids_g stick idl subs reqs vars now timer = Some (subs', reqs', tx) ->
  ~ In j idl -> find_sub j subs' = find_sub j subs.
Proof.
  induction idl as [|id r IH]; intros subs reqs subs' reqs' tx j H Hj.
  - cbn in H. inversion H. reflexivity.
  - apply tick_ids_cons in H as (s & s1 & tx1 & reqs1 & ns & tx2 & Hf & Hs & Hp & Hr & ->).
    apply stick_static in Hs as [Hid _]. apply find_sub_some in Hf as [_ Hsid].
    rewrite (IH _ _ _ _ _ j Hr) by (intros Hin; apply Hj; right; exact Hin).
    fold (after_step id s1 ns subs). apply after_step_other; [congruence|].
    intros E. apply Hj. left. symmetry. exact E.
Qed.

Lemma tick_ids_subs : forall idl subs reqs subs' reqs' tx,
  tick_ids_g stick idl subs reqs vars now timer = Some (subs', reqs', tx) ->
  (NoDup (ids subs) -> NoDup (ids subs')) /\
  (forall x, In x (ids subs') -> In x (ids subs)) /\
  (forall s', In s' subs' -> exists s, In s subs /\ s_id s' = s_id s /\ s_prio s' = s_prio s).
Proof.
  induction idl as [|id r IH]; intros subs reqs subs' reqs' tx H.
  - cbn in H. inversion H; subst. repeat split; auto. intros s' Hs'. exists s'. auto.
  - apply tick_ids_cons in H as (s & s1 & tx1 & reqs1 & ns & tx2 & Hf & Hs & Hp & Hr & ->).
    apply stick_static in Hs as [Hid Hpr]. apply find_sub_some in Hf as [Hin Hsid].
    fold (after_step id s1 ns subs) in Hr.
    destruct (IH _ _ _ _ _ Hr) as (I1 & I2 & I3). repeat split.
    + intros Hnd. apply I1. apply after_step_nodup. exact Hnd.
    + intros x Hx. eapply after_step_ids; [|apply I2; exact Hx]. congruence.
    + intros s' Hs'. destruct (I3 s' Hs') as (s0 & Hs0 & E1 & E2).
      apply after_step_in in Hs0 as [->|Hs0].
      * exists s. cbn in E1, E2. repeat split; [exact Hin | congruence | congruence].
      * exists s0. auto.
Qed.

End Scheduling.

(* ------------------------------------------------ E. the priority order is a permutation *)
Lemma ins_prio_perm x l : Permutation (ins_prio x l) (x :: l).
Proof.
  induction l as [|y r IH]; cbn [ins_prio]; [reflexivity|].
  destruct (snd x <? snd y); [|reflexivity].
  rewrite IH. apply perm_swap.
Qed.

Definition sorted_pairs (subs : list sub) : list (Z * Z) :=
  fold_right ins_prio [] (map (fun s => (s_id s, s_prio s)) subs).

Lemma sorted_pairs_perm subs :
  Permutation (sorted_pairs subs) (map (fun s => (s_id s, s_prio s)) subs).
Proof.
  unfold sorted_pairs. induction subs as [|s r IH]; cbn [map fold_right]; [reflexivity|].
  rewrite ins_prio_perm. constructor. exact IH.
Qed.

Lemma prio_order_perm subs : Permutation (prio_order subs) (ids subs).
Proof.
  unfold prio_order, ids. fold (sorted_pairs subs).
  rewrite (sorted_pairs_perm subs). rewrite map_map. cbn [fst]. reflexivity.
Qed.

