//! C33: no well-formed request from an authenticated client crashes the server.
//! A live loopback server (clients may modify the address space) is driven by the real client
//! session with structure-aware random requests of every supported service, in short sequences,
//! followed by a pause long enough for the subscription timer to tick.  A panic anywhere in the
//! process is counted by the panic hook; afterwards the server must still answer a Read.
#[path = "../util.rs"]
mod util;
use util::*;
use opcua::client::{ClientBuilder, IdentityToken, Session};
use opcua::core::supported_message::SupportedMessage;
use opcua::server::prelude::*;
use opcua::sync::RwLock;
use std::sync::atomic::{AtomicU64, Ordering};
use std::sync::{Arc, OnceLock};
use std::time::Duration;

static PANICS: AtomicU64 = AtomicU64::new(0);

pub struct Case { seed: u64, kinds: Vec<u8> }
pub struct P;

const NKINDS: u8 = 35;

struct Live { rt: tokio::runtime::Runtime, port: u16, _server: Arc<RwLock<Server>> }

fn live() -> &'static Live {
    static L: OnceLock<Live> = OnceLock::new();
    L.get_or_init(|| {
        std::panic::set_hook(Box::new(|_| { PANICS.fetch_add(1, Ordering::SeqCst); }));
        let port = 44000 + (std::process::id() % 15000) as u16;
        let ids = vec![ANONYMOUS_USER_TOKEN_ID.to_string()];
        let server = ServerBuilder::new()
            .application_name("verif").application_uri("urn:verif")
            .discovery_urls(vec![format!("opc.tcp://127.0.0.1:{}/", port)])
            .create_sample_keypair(false).pki_dir(format!("/tmp/verif-c33-pki-{}", std::process::id()))
            .discovery_server_url(None).host_and_port("127.0.0.1", port)
            .clients_can_modify_address_space()
            .endpoint("none", ServerEndpoint::new_none("/", &ids))
            .server().unwrap();
        {
            let address_space = server.address_space();
            let mut a = address_space.write();
            let ns = a.register_namespace("urn:verif").unwrap_or(2);
            let folder = a.add_folder("Sample", "Sample", &NodeId::objects_folder_id()).unwrap();
            for i in 0..4 {
                let id = NodeId::new(ns, format!("v{}", i));
                VariableBuilder::new(&id, format!("v{}", i), format!("v{}", i)).data_type(DataTypeId::Int32).value(i as i32).writable().organized_by(&folder).insert(&mut a);
            }
            VariableBuilder::new(&NodeId::new(ns, "s"), "s", "s").data_type(DataTypeId::String).value("aé€x").writable().organized_by(&folder).insert(&mut a);
            VariableBuilder::new(&NodeId::new(ns, "arr"), "arr", "arr").data_type(DataTypeId::Int32).value(vec![1i32, 2, 3, 4]).writable().organized_by(&folder).insert(&mut a);
            VariableBuilder::new(&NodeId::new(ns, "b"), "b", "b").data_type(DataTypeId::ByteString).value(ByteString::from(vec![1u8, 2, 3])).writable().organized_by(&folder).insert(&mut a);
        }
        let rt = tokio::runtime::Builder::new_multi_thread().worker_threads(4).enable_all().build().unwrap();
        let server = Arc::new(RwLock::new(server));
        let s2 = server.clone();
        rt.spawn(async move { Server::new_server_task(s2).await; });
        std::thread::sleep(Duration::from_millis(500));
        Live { rt, port, _server: server }
    })
}

// ---------- generators ----------
fn node(r: &mut Rng) -> NodeId {
    match r.below(14) {
        0 => NodeId::null(),
        1 => ObjectId::RootFolder.into(),
        2 => ObjectId::ObjectsFolder.into(),
        3 => ObjectId::Server.into(),
        4 => NodeId::new(2, format!("v{}", r.below(5))),
        5 => NodeId::new(2, "s"),
        6 => NodeId::new(2, "arr"),
        7 => NodeId::new(2, "b"),
        8 => NodeId::new(r.below(5) as u16, r.below(100000) as u32),
        9 => NodeId::new(r.below(70000) as u16, format!("n{}", r.below(6))),
        10 => VariableId::Server_ServerStatus_State.into(),
        11 => rtnode(r),
        12 => NodeId::new(2, Guid::null()),
        _ => NodeId::new(1 + r.below(3) as u16, ByteString::from(r.bytes(3))),
    }
}
/// reference TYPE nodes (sources and targets of HasSubtype references a client may add: cycles in the type tree)
fn rtnode(r: &mut Rng) -> NodeId {
    (*r.pick(&[ReferenceTypeId::HasComponent, ReferenceTypeId::HasNotifier, ReferenceTypeId::HasEventSource, ReferenceTypeId::HasOrderedComponent,
               ReferenceTypeId::HasChild, ReferenceTypeId::Aggregates, ReferenceTypeId::HasProperty, ReferenceTypeId::Organizes,
               ReferenceTypeId::HierarchicalReferences, ReferenceTypeId::NonHierarchicalReferences, ReferenceTypeId::HasTypeDefinition])).into()
}
fn reftype(r: &mut Rng) -> NodeId {
    match r.below(8) {
        0 => NodeId::null(),
        1 => ReferenceTypeId::HasComponent.into(),
        2 => ReferenceTypeId::Organizes.into(),
        3 => ReferenceTypeId::HierarchicalReferences.into(),
        4 => ReferenceTypeId::HasSubtype.into(),
        5 => ReferenceTypeId::HasProperty.into(),
        6 => ReferenceTypeId::Aggregates.into(),
        _ => node(r),
    }
}
fn enode(r: &mut Rng) -> ExpandedNodeId {
    let mut e: ExpandedNodeId = node(r).into();
    if r.chance(1, 6) { e.server_index = r.below(3) as u32; }
    if r.chance(1, 8) { e.namespace_uri = UAString::from("urn:x"); }
    e
}
fn qname(r: &mut Rng) -> QualifiedName {
    let names = ["", "v0", "Sample", "a b", "x/y", "n&m", "é", "<t>", "Objects", "1:2", "#!"];
    if r.chance(1, 10) { QualifiedName::null() } else { QualifiedName::new(r.below(4) as u16, *r.pick(&names)) }
}
fn range(r: &mut Rng) -> UAString {
    let rs = ["", "0", "1", "0:1", "1:2", "2:1", "0:100", "5", "1:1", "0,1", "a", "-1", "0:1,0:1", "4294967295", "1:4294967296"];
    if r.chance(1, 2) { UAString::null() } else { UAString::from(*r.pick(&rs)) }
}
fn variant(r: &mut Rng) -> Variant {
    match r.below(16) {
        0 => Variant::Empty, 1 => Variant::Boolean(r.chance(1, 2)), 2 => Variant::Int32(r.next() as i32), 3 => Variant::UInt32(r.next() as u32),
        4 => Variant::Double(f64::from_bits(r.next())), 5 => Variant::Double(r.range(-5, 5) as f64), 6 => Variant::String(UAString::from(*r.pick(&["", "a", "aé€", "%", "a_b", "[x]"]))),
        7 => Variant::String(UAString::null()), 8 => Variant::from(vec![r.next() as i32, 2, 3]), 9 => Variant::ByteString(ByteString::from(r.bytes(4))),
        10 => Variant::Int64(r.next() as i64), 11 => Variant::UInt64(r.next()), 12 => Variant::Byte(r.next() as u8), 13 => Variant::NodeId(Box::new(node(r))),
        14 => Variant::Float(f32::from_bits(r.next() as u32)), _ => Variant::from(Vec::<i32>::new()),
    }
}
fn attr(r: &mut Rng) -> u32 { if r.chance(1, 2) { 13 } else { r.below(30) as u32 } }
fn rvid(r: &mut Rng) -> ReadValueId { ReadValueId { node_id: node(r), attribute_id: attr(r), index_range: range(r), data_encoding: if r.chance(1, 10) { qname(r) } else { QualifiedName::null() } } }
fn sub_id(r: &mut Rng, subs: &[u32]) -> u32 { if !subs.is_empty() && r.chance(4, 5) { *r.pick(subs) } else { r.below(5) as u32 } }
fn eo<T: BinaryEncoder<T>>(id: ObjectId, v: &T) -> ExtensionObject { ExtensionObject::from_encodable(id, v) }

/// a select clause / attribute operand: any type definition node and a path of 1..3 names that exist somewhere
/// in the standard address space as children of every node class (variables, objects, METHODS, TYPES), or not at all
fn simple_operand(r: &mut Rng) -> SimpleAttributeOperand {
    let tdef: NodeId = match r.below(8) {
        0 | 1 | 2 => ObjectTypeId::BaseEventType.into(),
        3 => ObjectId::Server.into(),
        4 => ObjectTypeId::BaseObjectType.into(),
        5 => ObjectId::ObjectsFolder.into(),
        6 => ObjectTypeId::ServerType.into(),
        _ => node(r),
    };
    let names = ["Message", "Severity", "EventId", "Nope", "GetMonitoredItems", "ResendData", "ServerCapabilities", "ServerStatus", "NamespaceArray",
                 "AuditEventType", "SystemEventType", "BaseModelChangeEventType", "Server", "Objects", "Types", "State", "BuildInfo", "v0", "Sample", ""];
    if r.chance(1, 2) {
        // a child that exists under the type definition node, of every node class: variable, object, method, type
        let pairs: [(NodeId, &str); 14] = [(ObjectId::Server.into(), "GetMonitoredItems"), (ObjectId::Server.into(), "ServerCapabilities"), (ObjectId::Server.into(), "ServerStatus"),
            (ObjectId::Server.into(), "NamespaceArray"), (ObjectTypeId::ServerType.into(), "GetMonitoredItems"), (ObjectTypeId::ServerType.into(), "ServerStatus"),
            (ObjectTypeId::BaseEventType.into(), "AuditEventType"), (ObjectTypeId::BaseEventType.into(), "SystemEventType"), (ObjectTypeId::BaseEventType.into(), "Message"),
            (ObjectTypeId::BaseObjectType.into(), "BaseEventType"), (ObjectTypeId::BaseObjectType.into(), "FolderType"), (ObjectId::ObjectsFolder.into(), "Server"),
            (ObjectId::TypesFolder.into(), "ObjectTypes"), (ObjectId::RootFolder.into(), "Types")];
        let (t, n) = r.pick(&pairs).clone();
        return SimpleAttributeOperand { type_definition_id: t, browse_path: Some(vec![QualifiedName::new(0, n)]),
            attribute_id: *r.pick(&[13u32, 1, 2, 4]), index_range: UAString::null() };
    }
    let n = 1 + r.below(3);
    let path: Vec<QualifiedName> = (0..n).map(|_| if r.chance(1, 12) { qname(r) } else { QualifiedName::new(0, *r.pick(&names)) }).collect();
    SimpleAttributeOperand { type_definition_id: tdef, browse_path: if r.chance(1, 12) { None } else { Some(path) },
        attribute_id: attr(r), index_range: if r.chance(3, 4) { UAString::null() } else { range(r) } }
}

fn operand(r: &mut Rng) -> ExtensionObject {
    match r.below(6) {
        0 => eo(ObjectId::ElementOperand_Encoding_DefaultBinary, &ElementOperand { index: r.below(6) as u32 }),
        1 | 2 => eo(ObjectId::LiteralOperand_Encoding_DefaultBinary, &LiteralOperand { value: variant(r) }),
        3 => if r.chance(1, 2) { eo(ObjectId::SimpleAttributeOperand_Encoding_DefaultBinary, &simple_operand(r)) } else {
             eo(ObjectId::SimpleAttributeOperand_Encoding_DefaultBinary, &SimpleAttributeOperand { type_definition_id: ObjectTypeId::BaseEventType.into(),
                browse_path: Some(vec![QualifiedName::new(0, *r.pick(&["Message", "Severity", "EventId", "Nope"]))]), attribute_id: attr(r), index_range: range(r) }) },
        4 => eo(ObjectId::AttributeOperand_Encoding_DefaultBinary, &AttributeOperand { node_id: node(r), alias: UAString::null(), browse_path: RelativePath { elements: None }, attribute_id: attr(r), index_range: range(r) }),
        _ => if r.chance(1, 2) { ExtensionObject::null() } else { eo(ObjectId::ReadRequest_Encoding_DefaultBinary, &ElementOperand { index: 0 }) },
    }
}
fn filter(r: &mut Rng) -> ExtensionObject {
    match r.below(5) {
        0 | 1 => ExtensionObject::null(),
        2 => eo(ObjectId::DataChangeFilter_Encoding_DefaultBinary, &DataChangeFilter { trigger: *r.pick(&[DataChangeTrigger::Status, DataChangeTrigger::StatusValue, DataChangeTrigger::StatusValueTimestamp]),
                deadband_type: r.below(4) as u32, deadband_value: if r.chance(1, 4) { f64::from_bits(r.next()) } else { r.range(-2, 5) as f64 } }),
        _ => {
            let ops = [FilterOperator::Equals, FilterOperator::IsNull, FilterOperator::GreaterThan, FilterOperator::LessThan, FilterOperator::GreaterThanOrEqual, FilterOperator::LessThanOrEqual,
                       FilterOperator::Like, FilterOperator::Not, FilterOperator::Between, FilterOperator::InList, FilterOperator::And, FilterOperator::Or, FilterOperator::Cast,
                       FilterOperator::InView, FilterOperator::OfType, FilterOperator::RelatedTo, FilterOperator::BitwiseAnd, FilterOperator::BitwiseOr];
            let n = r.below(4);
            let elements: Vec<ContentFilterElement> = (0..n).map(|_| { let k = r.below(4); ContentFilterElement { filter_operator: *r.pick(&ops),
                filter_operands: if r.chance(1, 8) { None } else { Some((0..k).map(|_| operand(r)).collect()) } } }).collect();
            eo(ObjectId::EventFilter_Encoding_DefaultBinary, &EventFilter {
                select_clauses: if r.chance(1, 6) { None } else if r.chance(1, 3) { Some(vec![SimpleAttributeOperand { type_definition_id: ObjectTypeId::BaseEventType.into(), browse_path: Some(vec![QualifiedName::new(0, "Message")]), attribute_id: 13, index_range: UAString::null() }]) }
                    else { let k = 1 + r.below(4); Some((0..k).map(|_| simple_operand(r)).collect()) },
                where_clause: ContentFilter { elements: if elements.is_empty() && r.chance(1, 2) { None } else { Some(elements) } } })
        }
    }
}
fn params(r: &mut Rng) -> MonitoringParameters {
    MonitoringParameters { client_handle: r.below(10) as u32, sampling_interval: *r.pick(&[-1.0, 0.0, 50.0, 1e9, f64::NAN, f64::INFINITY, -5.0]), filter: filter(r), queue_size: *r.pick(&[0u32, 1, 2, 10, u32::MAX]), discard_oldest: r.chance(1, 2) }
}
fn node_attrs(r: &mut Rng, class: NodeClass) -> ExtensionObject {
    let mask = if r.chance(1, 3) { r.next() as u32 } else { 0x3fffff };
    match class {
        NodeClass::Object => eo(ObjectId::ObjectAttributes_Encoding_DefaultBinary, &ObjectAttributes { specified_attributes: mask, display_name: LocalizedText::from("d"), description: LocalizedText::from("x"), write_mask: 0, user_write_mask: 0, event_notifier: r.next() as u8 }),
        NodeClass::Variable => eo(ObjectId::VariableAttributes_Encoding_DefaultBinary, &VariableAttributes { specified_attributes: mask, display_name: LocalizedText::from("d"), description: LocalizedText::from("x"), write_mask: 0, user_write_mask: 0,
            value: variant(r), data_type: DataTypeId::Int32.into(), value_rank: r.range(-3, 2) as i32, array_dimensions: if r.chance(1, 2) { None } else { Some(vec![r.below(3) as u32]) }, access_level: r.next() as u8, user_access_level: r.next() as u8, minimum_sampling_interval: 0.0, historizing: false }),
        _ => if r.chance(1, 2) { ExtensionObject::null() } else { eo(ObjectId::ObjectAttributes_Encoding_DefaultBinary, &ObjectAttributes { specified_attributes: mask, display_name: LocalizedText::from("d"), description: LocalizedText::null(), write_mask: 0, user_write_mask: 0, event_notifier: 0 }) },
    }
}

fn request(kind: u8, r: &mut Rng, h: RequestHeader, subs: &[u32]) -> SupportedMessage {
    let n = r.below(3) as usize;
    let some = |r: &mut Rng| r.chance(9, 10);
    match kind {
        0 => ReadRequest { request_header: h, max_age: *r.pick(&[0.0, 1.0, -1.0, f64::NAN]), timestamps_to_return: *r.pick(&[TimestampsToReturn::Both, TimestampsToReturn::Neither, TimestampsToReturn::Source, TimestampsToReturn::Invalid]),
                           nodes_to_read: if some(r) { Some((0..=n).map(|_| rvid(r)).collect()) } else { None } }.into(),
        1 => WriteRequest { request_header: h, nodes_to_write: if some(r) { Some((0..=n).map(|_| WriteValue { node_id: node(r), attribute_id: attr(r), index_range: range(r), value: DataValue::new_now(variant(r)) }).collect()) } else { None } }.into(),
        2 => BrowseRequest { request_header: h, view: ViewDescription { view_id: if r.chance(1, 8) { node(r) } else { NodeId::null() }, timestamp: DateTime::null(), view_version: 0 }, requested_max_references_per_node: *r.pick(&[0u32, 1, 2, 1000]),
                             nodes_to_browse: if some(r) { Some((0..=n).map(|_| BrowseDescription { node_id: node(r), browse_direction: *r.pick(&[BrowseDirection::Forward, BrowseDirection::Inverse, BrowseDirection::Both, BrowseDirection::Invalid]),
                                 reference_type_id: reftype(r), include_subtypes: r.chance(1, 2), node_class_mask: if r.chance(1, 2) { 0 } else { r.next() as u32 }, result_mask: r.next() as u32 & 0x3f }).collect()) } else { None } }.into(),
        3 => BrowseNextRequest { request_header: h, release_continuation_points: r.chance(1, 2), continuation_points: if some(r) { Some((0..=n).map(|_| { let k = r.below(9) as usize; ByteString::from(r.bytes(k)) }).collect()) } else { None } }.into(),
        4 => TranslateBrowsePathsToNodeIdsRequest { request_header: h, browse_paths: if some(r) { Some((0..=n).map(|_| BrowsePath { starting_node: node(r), relative_path: RelativePath { elements: if r.chance(1, 8) { None } else {
                 Some((0..r.below(4)).map(|_| RelativePathElement { reference_type_id: reftype(r), is_inverse: r.chance(1, 3), include_subtypes: r.chance(1, 2), target_name: qname(r) }).collect()) } } }).collect()) } else { None } }.into(),
        5 => RegisterNodesRequest { request_header: h, nodes_to_register: if some(r) { Some((0..=n).map(|_| node(r)).collect()) } else { None } }.into(),
        6 => UnregisterNodesRequest { request_header: h, nodes_to_unregister: if some(r) { Some((0..=n).map(|_| node(r)).collect()) } else { None } }.into(),
        7 => AddNodesRequest { request_header: h, nodes_to_add: if some(r) { Some((0..=n).map(|_| {
                 if r.chance(2, 3) {
                     // mostly valid: under an existing folder, standard reference type, fresh / null / odd-namespace id
                     let class = *r.pick(&[NodeClass::Object, NodeClass::Variable]);
                     let id: ExpandedNodeId = match r.below(5) { 0 => NodeId::null().into(), 1 => NodeId::new(2, format!("new{}", r.below(50))).into(), 2 => NodeId::new(r.below(6) as u16, r.below(1000) as u32 + 5000).into(),
                         3 => NodeId::new(2, format!("v{}", r.below(5))).into(), _ => NodeId::new(2, r.below(100000) as u32).into() };
                     AddNodesItem { parent_node_id: if r.chance(1, 2) { NodeId::objects_folder_id().into() } else { NodeId::new(2, format!("new{}", r.below(50))).into() },
                         reference_type_id: if r.chance(1, 2) { ReferenceTypeId::Organizes.into() } else { ReferenceTypeId::HasComponent.into() }, requested_new_node_id: id,
                         browse_name: QualifiedName::new(r.below(4) as u16, format!("bn{}", r.below(8))), node_class: class, node_attributes: node_attrs(r, class),
                         type_definition: if class == NodeClass::Object { ObjectTypeId::BaseObjectType.into() } else { VariableTypeId::BaseDataVariableType.into() } }
                 } else {
                 let class = *r.pick(&[NodeClass::Object, NodeClass::Variable, NodeClass::Method, NodeClass::ObjectType, NodeClass::VariableType, NodeClass::ReferenceType, NodeClass::DataType, NodeClass::View, NodeClass::Unspecified]);
                 AddNodesItem { parent_node_id: enode(r), reference_type_id: reftype(r), requested_new_node_id: enode(r), browse_name: qname(r), node_class: class, node_attributes: node_attrs(r, class),
                     type_definition: if r.chance(1, 2) { ObjectTypeId::BaseObjectType.into() } else { enode(r) } } } }).collect()) } else { None } }.into(),
        8 if r.chance(1, 4) => AddReferencesRequest { request_header: h, references_to_add: Some((0..=n).map(|_| AddReferencesItem { source_node_id: rtnode(r), reference_type_id: ReferenceTypeId::HasSubtype.into(),
                 is_forward: r.chance(3, 4), target_server_uri: UAString::null(), target_node_id: rtnode(r).into(), target_node_class: NodeClass::ReferenceType }).collect()) }.into(),
        8 => AddReferencesRequest { request_header: h, references_to_add: if some(r) { Some((0..=n).map(|_| { let s = if r.chance(1, 2) { NodeId::new(2, format!("v{}", r.below(4))) } else { node(r) }; AddReferencesItem { source_node_id: s.clone(), reference_type_id: reftype(r), is_forward: r.chance(1, 2),
                 target_server_uri: if r.chance(1, 10) { UAString::from("urn:o") } else { UAString::null() }, target_node_id: if r.chance(1, 5) { s.into() } else if r.chance(1, 2) { NodeId::new(2, format!("v{}", r.below(4))).into() } else { enode(r) },
                 target_node_class: *r.pick(&[NodeClass::Object, NodeClass::Variable, NodeClass::Unspecified, NodeClass::ReferenceType]) } }).collect()) } else { None } }.into(),
        9 => DeleteNodesRequest { request_header: h, nodes_to_delete: if some(r) { Some((0..=n).map(|_| DeleteNodesItem { node_id: node(r), delete_target_references: r.chance(1, 2) }).collect()) } else { None } }.into(),
        10 => DeleteReferencesRequest { request_header: h, references_to_delete: if some(r) { Some((0..=n).map(|_| DeleteReferencesItem { source_node_id: node(r), reference_type_id: reftype(r), is_forward: r.chance(1, 2), target_node_id: enode(r), delete_bidirectional: r.chance(1, 2) }).collect()) } else { None } }.into(),
        11 => CreateSubscriptionRequest { request_header: h, requested_publishing_interval: *r.pick(&[0.0, 50.0, 100.0, -1.0, f64::NAN, 1e12]), requested_lifetime_count: *r.pick(&[0u32, 3, 10, u32::MAX]),
                  requested_max_keep_alive_count: *r.pick(&[0u32, 1, 3, u32::MAX]), max_notifications_per_publish: *r.pick(&[0u32, 1, 100]), publishing_enabled: r.chance(3, 4), priority: r.next() as u8 }.into(),
        12 => ModifySubscriptionRequest { request_header: h, subscription_id: sub_id(r, subs), requested_publishing_interval: *r.pick(&[0.0, 50.0, f64::NAN, f64::INFINITY]), requested_lifetime_count: *r.pick(&[0u32, 3, u32::MAX]),
                  requested_max_keep_alive_count: *r.pick(&[0u32, 1, u32::MAX]), max_notifications_per_publish: 0, priority: r.next() as u8 }.into(),
        13 => SetPublishingModeRequest { request_header: h, publishing_enabled: r.chance(1, 2), subscription_ids: if some(r) { Some((0..=n).map(|_| sub_id(r, subs)).collect()) } else { None } }.into(),
        14 => DeleteSubscriptionsRequest { request_header: h, subscription_ids: if some(r) { Some((0..=n).map(|_| sub_id(r, subs)).collect()) } else { None } }.into(),
        15 => CreateMonitoredItemsRequest { request_header: h, subscription_id: sub_id(r, subs), timestamps_to_return: *r.pick(&[TimestampsToReturn::Both, TimestampsToReturn::Invalid]),
                  items_to_create: if some(r) { Some((0..=n + 1).map(|_| MonitoredItemCreateRequest { item_to_monitor: rvid(r), monitoring_mode: *r.pick(&[MonitoringMode::Reporting, MonitoringMode::Sampling, MonitoringMode::Disabled]), requested_parameters: params(r) }).collect()) } else { None } }.into(),
        16 => ModifyMonitoredItemsRequest { request_header: h, subscription_id: sub_id(r, subs), timestamps_to_return: TimestampsToReturn::Both,
                  items_to_modify: if some(r) { Some((0..=n).map(|_| MonitoredItemModifyRequest { monitored_item_id: r.below(8) as u32, requested_parameters: params(r) }).collect()) } else { None } }.into(),
        17 => SetMonitoringModeRequest { request_header: h, subscription_id: sub_id(r, subs), monitoring_mode: *r.pick(&[MonitoringMode::Reporting, MonitoringMode::Sampling, MonitoringMode::Disabled]), monitored_item_ids: if some(r) { Some((0..=n).map(|_| r.below(8) as u32).collect()) } else { None } }.into(),
        18 => SetTriggeringRequest { request_header: h, subscription_id: sub_id(r, subs), triggering_item_id: r.below(8) as u32, links_to_add: if r.chance(3, 4) { Some((0..=n).map(|_| r.below(8) as u32).collect()) } else { None },
                  links_to_remove: if r.chance(1, 2) { Some((0..=n).map(|_| r.below(8) as u32).collect()) } else { None } }.into(),
        19 => DeleteMonitoredItemsRequest { request_header: h, subscription_id: sub_id(r, subs), monitored_item_ids: if some(r) { Some((0..=n).map(|_| r.below(8) as u32).collect()) } else { None } }.into(),
        20 => PublishRequest { request_header: h, subscription_acknowledgements: if r.chance(1, 2) { None } else { Some((0..=n).map(|_| SubscriptionAcknowledgement { subscription_id: sub_id(r, subs), sequence_number: r.below(5) as u32 }).collect()) } }.into(),
        21 => RepublishRequest { request_header: h, subscription_id: sub_id(r, subs), retransmit_sequence_number: r.below(5) as u32 }.into(),
        22 => CallRequest { request_header: h, methods_to_call: if some(r) { Some((0..=n).map(|_| CallMethodRequest { object_id: if r.chance(2, 3) { ObjectId::Server.into() } else { node(r) },
                  method_id: match r.below(4) { 0 => MethodId::Server_ResendData.into(), 1 => MethodId::Server_GetMonitoredItems.into(), _ => node(r) },
                  input_arguments: match r.below(4) { 0 => None, 1 => Some(vec![Variant::UInt32(sub_id(r, subs))]), 2 => Some(vec![variant(r)]), _ => Some(vec![variant(r), variant(r)]) } }).collect()) } else { None } }.into(),
        23 => HistoryReadRequest { request_header: h, history_read_details: if r.chance(1, 2) { ExtensionObject::null() } else { eo(ObjectId::ReadRawModifiedDetails_Encoding_DefaultBinary, &ReadRawModifiedDetails { is_read_modified: false, start_time: DateTime::null(), end_time: DateTime::now(), num_values_per_node: 10, return_bounds: false }) },
                  timestamps_to_return: TimestampsToReturn::Both, release_continuation_points: r.chance(1, 2), nodes_to_read: if some(r) { Some((0..=n).map(|_| HistoryReadValueId { node_id: node(r), index_range: range(r), data_encoding: QualifiedName::null(), continuation_point: ByteString::null() }).collect()) } else { None } }.into(),
        24 => HistoryUpdateRequest { request_header: h, history_update_details: if some(r) { Some((0..=n).map(|_| if r.chance(1, 2) { ExtensionObject::null() } else { operand(r) }).collect()) } else { None } }.into(),
        25 => TransferSubscriptionsRequest { request_header: h, subscription_ids: if some(r) { Some((0..=n).map(|_| sub_id(r, subs)).collect()) } else { None }, send_initial_values: r.chance(1, 2) }.into(),
        26 => CancelRequest { request_header: h, request_handle: r.below(10) as u32 }.into(),
        27 => GetEndpointsRequest { request_header: h, endpoint_url: UAString::from(*r.pick(&["", "opc.tcp://127.0.0.1:4855/", "x", "opc.tcp://h:1/é"])), locale_ids: if r.chance(1, 2) { None } else { Some(vec![UAString::from("en"), UAString::null()]) },
                  profile_uris: if r.chance(1, 2) { None } else { Some(vec![UAString::from("http://opcfoundation.org/UA-Profile/Transport/uatcp-uasc-uabinary"), UAString::from("x")]) } }.into(),
        28 => FindServersRequest { request_header: h, endpoint_url: UAString::from(*r.pick(&["", "opc.tcp://127.0.0.1:4855/", "::"])), locale_ids: None, server_uris: if r.chance(1, 2) { None } else { Some(vec![UAString::from("urn:verif"), UAString::null()]) } }.into(),
        29 => CreateSessionRequest { request_header: h, client_description: ApplicationDescription { application_uri: UAString::from("urn:c"), product_uri: UAString::null(), application_name: LocalizedText::from("c"),
                  application_type: ApplicationType::Client, gateway_server_uri: UAString::null(), discovery_profile_uri: UAString::null(), discovery_urls: None },
                  server_uri: UAString::null(), endpoint_url: UAString::from(*r.pick(&["opc.tcp://127.0.0.1:4855/", "", "opc.tcp://other:1/"])), session_name: UAString::from("s"),
                  client_nonce: ByteString::from(r.bytes(32)), client_certificate: if r.chance(1, 2) { ByteString::null() } else { ByteString::from(r.bytes(40)) },
                  requested_session_timeout: *r.pick(&[0.0, 1000.0, -1.0, f64::NAN, 1e300]), max_response_message_size: *r.pick(&[0u32, 1, 65536]) }.into(),
        30 => ActivateSessionRequest { request_header: h, client_signature: SignatureData { algorithm: UAString::null(), signature: if r.chance(1, 2) { ByteString::null() } else { ByteString::from(r.bytes(8)) } },
                  client_software_certificates: None, locale_ids: if r.chance(1, 2) { None } else { Some(vec![UAString::from("en")]) },
                  user_identity_token: match r.below(4) {
                      0 => ExtensionObject::null(),
                      1 => eo(ObjectId::AnonymousIdentityToken_Encoding_DefaultBinary, &AnonymousIdentityToken { policy_id: UAString::from(*r.pick(&["anonymous", "x", ""])) }),
                      2 => eo(ObjectId::UserNameIdentityToken_Encoding_DefaultBinary, &UserNameIdentityToken { policy_id: UAString::from(*r.pick(&["userpass_none", "x"])), user_name: UAString::from("u"),
                              password: ByteString::from(r.bytes(5)), encryption_algorithm: if r.chance(1, 2) { UAString::null() } else { UAString::from("http://www.w3.org/2001/04/xmlenc#rsa-oaep") } }),
                      _ => eo(ObjectId::X509IdentityToken_Encoding_DefaultBinary, &X509IdentityToken { policy_id: UAString::from("x509"), certificate_data: ByteString::from(r.bytes(20)) }),
                  },
                  user_token_signature: SignatureData { algorithm: UAString::null(), signature: ByteString::null() } }.into(),
        31 => QueryFirstRequest { request_header: h, view: ViewDescription { view_id: NodeId::null(), timestamp: DateTime::null(), view_version: 0 },
                  node_types: if r.chance(1, 2) { None } else { Some(vec![NodeTypeDescription { type_definition_node: enode(r), include_sub_types: true, data_to_return: None }]) },
                  filter: ContentFilter { elements: None }, max_data_sets_to_return: 0, max_references_to_return: 0 }.into(),
        32 => QueryNextRequest { request_header: h, release_continuation_point: r.chance(1, 2), continuation_point: ByteString::from(r.bytes(4)) }.into(),
        33 => RegisterServerRequest { request_header: h, server: RegisteredServer { server_uri: UAString::from("urn:r"), product_uri: UAString::null(), server_names: if r.chance(1, 2) { None } else { Some(vec![LocalizedText::from("n")]) },
                  server_type: ApplicationType::Server, gateway_server_uri: UAString::null(), discovery_urls: if r.chance(1, 2) { None } else { Some(vec![UAString::from("opc.tcp://x:1")]) }, semaphore_file_path: UAString::null(), is_online: r.chance(1, 2) } }.into(),
        _ => CloseSessionRequest { request_header: h, delete_subscriptions: r.chance(1, 2) }.into(),
    }
}

async fn run_case(session: Arc<Session>, c: &Case) -> (i128, i128) {
    let mut r = Rng::new(c.seed);
    let mut subs: Vec<u32> = Vec::new();
    let mut timeouts = 0;
    for k in &c.kinds {
        let h = session.verif_request_header();
        let req = request(*k, &mut r, h, &subs);
        match tokio::time::timeout(Duration::from_millis(if *k == 20 { 250 } else { 3000 }), session.verif_send(req)).await {
            Ok(Ok(SupportedMessage::CreateSubscriptionResponse(resp))) => subs.push(resp.subscription_id),
            Ok(_) => {}
            Err(_) => timeouts += 1,
        }
    }
    // let the subscription timer tick on what the sequence created
    tokio::time::sleep(Duration::from_millis(160)).await;
    let _ = session;
    (1, timeouts)
}

impl Property for P {
    type Case = Case;
    fn fixed(_tier: &str) -> Vec<Case> {
        // one case per service, and the sequences behind the defects found so far
        let mut v: Vec<Case> = (0..NKINDS).map(|k| Case { seed: 1000 + k as u64, kinds: vec![k, k, k] }).collect();
        v.push(Case { seed: 7, kinds: vec![11, 15, 15, 16, 20, 22, 14] });
        v.push(Case { seed: 8, kinds: vec![7, 7, 8, 8, 9, 10, 7, 9] });
        v.push(Case { seed: 9, kinds: vec![11, 15, 18, 17, 19, 12, 13, 21, 25] });
        // references between reference types (HasSubtype cycles), then browsing and path translation with subtypes
        for sd in 20..32u64 { v.push(Case { seed: sd, kinds: vec![8, 8, 8, 8, 2, 2, 4, 2, 8, 2, 4, 2] }); }
        v
    }
    fn gen(r: &mut Rng) -> Case {
        let n = 1 + r.below(8);
        // bias towards stateful sequences: create a subscription first in half of the cases
        let mut kinds: Vec<u8> = if r.chance(1, 2) { vec![11, 15] } else { vec![] };
        for _ in 0..n { kinds.push(r.below(NKINDS as u64) as u8); }
        Case { seed: r.next(), kinds }
    }
    fn exec(c: &Case) -> Out {
        let l = live();
        let before = PANICS.load(Ordering::SeqCst);
        let port = l.port;
        let res = l.rt.block_on(async {
            let mut client = ClientBuilder::new().application_name("verifc").application_uri("urn:verifc")
                .pki_dir(format!("/tmp/verif-c33-pkic-{}", std::process::id())).create_sample_keypair(false).trust_server_certs(true)
                .session_retry_limit(0).client().unwrap();
            let endpoint: EndpointDescription = (format!("opc.tcp://127.0.0.1:{}/", port).as_str(), "None", MessageSecurityMode::None, UserTokenPolicy::anonymous()).into();
            let (session, event_loop) = match tokio::time::timeout(Duration::from_secs(15), client.new_session_from_endpoint(endpoint, IdentityToken::Anonymous)).await { Ok(Ok(x)) => x, _ => return (1, -1) };
            let handle = event_loop.spawn();
            if tokio::time::timeout(Duration::from_secs(15), session.wait_for_connection()).await.is_err() { return (1, -1); }
            let out = run_case(session.clone(), c).await;
            let _ = tokio::time::timeout(Duration::from_secs(2), session.disconnect()).await;
            handle.abort();
            out
        });
        // the server must still serve: a fresh connection reads the server state variable
        // (three patient attempts, so that a busy machine is not mistaken for a dead server)
        let mut alive = 0;
        for _ in 0..3 {
            let ok = l.rt.block_on(async {
                let mut client = ClientBuilder::new().application_name("verifp").application_uri("urn:verifp")
                    .pki_dir(format!("/tmp/verif-c33-pkic-{}", std::process::id())).create_sample_keypair(false).trust_server_certs(true)
                    .session_retry_limit(0).client().unwrap();
                let endpoint: EndpointDescription = (format!("opc.tcp://127.0.0.1:{}/", port).as_str(), "None", MessageSecurityMode::None, UserTokenPolicy::anonymous()).into();
                let (session, event_loop) = match tokio::time::timeout(Duration::from_secs(15), client.new_session_from_endpoint(endpoint, IdentityToken::Anonymous)).await { Ok(Ok(x)) => x, _ => return false };
                let handle = event_loop.spawn();
                if tokio::time::timeout(Duration::from_secs(15), session.wait_for_connection()).await.is_err() { handle.abort(); return false; }
                let h = session.verif_request_header();
                let probe = ReadRequest { request_header: h, max_age: 0.0, timestamps_to_return: TimestampsToReturn::Neither, nodes_to_read: Some(vec![ReadValueId::from(NodeId::from(&VariableId::Server_ServerStatus_State))]) };
                // "keeps serving" includes requests that need the address space write lock: a request left spinning
                // under a read lock would let the read through and block this write for ever
                let hw = session.verif_request_header();
                let wprobe = WriteRequest { request_header: hw, nodes_to_write: Some(vec![WriteValue { node_id: NodeId::new(2, "v3"), attribute_id: AttributeId::Value as u32, index_range: UAString::null(), value: Variant::Int32(7).into() }]) };
                let okw = matches!(tokio::time::timeout(Duration::from_secs(20), session.verif_send(wprobe)).await, Ok(Ok(SupportedMessage::WriteResponse(_))));
                let ok = okw && matches!(tokio::time::timeout(Duration::from_secs(15), session.verif_send(probe)).await, Ok(Ok(SupportedMessage::ReadResponse(_))));
                let _ = tokio::time::timeout(Duration::from_secs(2), session.disconnect()).await;
                handle.abort();
                ok
            });
            if ok { alive = 1; break; }
        }
        let res = (alive, res.1);
        let panics = (PANICS.load(Ordering::SeqCst) - before) as i128;
        let tag = format!("len{}{}", c.kinds.len().min(9), if c.kinds.contains(&11) { "-sub" } else { "" });
        let term = format!("(mk_case {} {})", c.seed % 1_000_000_007, zlist(c.kinds.iter().map(|k| *k as i128)));
        Out { tag, term, out: vec![panics, res.0] }
    }
}
fn main() { run_main::<P>() }
