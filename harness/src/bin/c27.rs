//! C27: higher-priority subscriptions are served first.  Drives the real session/subscription
//! machinery (see ../subs2.rs) through HISTORIES on one `Subscriptions` instance: several
//! subscriptions of different priorities, data pending on several of them, a scarce supply of
//! publish requests, and — between the scheduling rounds — the operations that change who should
//! be served first: ModifySubscription (the real service: `Subscriptions::get_mut` ->
//! `Subscription::set_priority`), create / delete subscription, set publishing mode.
//! The Coq side is coq/C27/Model.v (`hop`, `case`, `run`).
#[path = "../util.rs"]
mod util;
#[path = "../subs2.rs"]
mod subs2;
use opcua::core::supported_message::SupportedMessage;
use opcua::server::services::subscription::verif as svc;
use opcua::types::service_types::ModifySubscriptionRequest;
use opcua::types::RequestHeader;
use subs2::*;
use util::*;

pub struct P;

#[derive(Clone, Debug)]
pub enum HOp {
    /// an operation of the shared set (coq: `HOp o`)
    Base(Op),
    /// ModifySubscription (coq: `HModifySub sub prio interval kac life`)
    Modify { sub: i64, prio: i64, interval: i64, kac: i64, life: i64 },
}
pub struct HCase { pub nvars: i64, pub ops: Vec<HOp> }

fn hop_term(h: &HOp) -> String {
    let zz = |v: i64| z(v as i128);
    match h {
        HOp::Base(o) => format!("HOp ({})", op_term(o)),
        HOp::Modify { sub, prio, interval, kac, life } =>
            format!("HModifySub {} {} {} {} {}", zz(*sub), zz(*prio), zz(*interval), zz(*kac), zz(*life)),
    }
}
fn hcase_term(c: &HCase) -> String { format!("(mk_hist {} {})", z(c.nvars as i128), coq_list(&c.ops, hop_term)) }

fn u32c(v: i64) -> u32 { v.clamp(0, u32::MAX as i64) as u32 }

/// the ModifySubscription service on the world's session; observation: status class, the revised
/// values (publishing interval ms, lifetime count, keep-alive count) in the message slot
fn modify(w: &mut World, sub: i64, prio: i64, interval: i64, kac: i64, life: i64, out: &mut Vec<i128>) {
    let request = ModifySubscriptionRequest {
        request_header: RequestHeader::dummy(),
        subscription_id: u32c(sub),
        requested_publishing_interval: interval as f64,
        requested_lifetime_count: u32c(life),
        requested_max_keep_alive_count: u32c(kac),
        max_notifications_per_publish: 0,
        priority: prio.clamp(0, 255) as u8,
    };
    let (status, slot) = match svc::modify_subscription(World::server_state_handle(), w.session_handle(), &request) {
        SupportedMessage::ModifySubscriptionResponse(r) => {
            let iv = r.revised_publishing_interval;
            let iv = if iv.is_finite() && iv.fract() == 0.0 { iv as i128 } else { -1 };
            (0, Some([iv, r.revised_lifetime_count as i128, r.revised_max_keep_alive_count as i128]))
        }
        SupportedMessage::ServiceFault(f) => (class(f.response_header.service_result), None),
        _ => (98, None),
    };
    w.observe_external(status, slot, out);
}

/// Runs the whole history on one world; a panic in the real code ends the output with -2.
fn exec_hist(c: &HCase) -> Vec<i128> {
    let mut out = Vec::new();
    let mut w = World::new(c.nvars);
    for (k, h) in c.ops.iter().enumerate() {
        let mut part = Vec::new();
        let r = guarded(|| match h {
            HOp::Base(o) => w.step_observed(k, o, &mut part),
            HOp::Modify { sub, prio, interval, kac, life } => modify(&mut w, *sub, *prio, *interval, *kac, *life, &mut part),
        });
        match r {
            Ok(()) => out.extend(part),
            Err(_) => { out.push(-2); break; }
        }
    }
    out
}

fn b(o: Op) -> HOp { HOp::Base(o) }
fn sub(prio: i64) -> HOp { b(Op::CreateSub { prio, interval: 1000, kac: 3, life: 1000, enabled: true }) }
fn item(sub: i64, var: i64) -> HOp { b(Op::CreateItem { sub, var, mode: 2, samp: -1, qsize: 4, discard_oldest: true }) }
fn tick(dt: i64) -> HOp { b(Op::Tick { dt }) }
fn publ() -> HOp { b(Op::Publish { dt: 0, hint: 0, acks: vec![] }) }
fn wr(v: i64, x: i64) -> HOp { b(Op::Write { v, x }) }
fn del(sub: i64) -> HOp { b(Op::DeleteSub { sub }) }
fn setpub(sub: i64, enabled: bool) -> HOp { b(Op::SetPublishing { sub, enabled }) }
/// ModifySubscription that keeps the timing parameters of `sub()` and changes the priority
fn modp(sub: i64, prio: i64) -> HOp { HOp::Modify { sub, prio, interval: 1000, kac: 3, life: 1000 } }

impl Property for P {
    type Case = HCase;
    fn fixed(tier: &str) -> Vec<HCase> {
        let mut v = vec![
            // the design-round witness: priorities 1 and 200 both have data, one request queued:
            // before the fix the priority-1 subscription was answered
            HCase { nvars: 1, ops: vec![sub(1), sub(200), item(1, 0), item(2, 0), tick(0), tick(1000), publ(), wr(0, 5), tick(1000), tick(1000)] },
            // two requests, three subscriptions with data
            HCase { nvars: 2, ops: vec![sub(5), sub(9), sub(7), item(1, 0), item(2, 1), item(3, 0), tick(0), tick(1000), wr(0, 1), wr(1, 2), tick(1000), publ(), publ(), tick(1000), publ(), publ(), publ(), tick(1000)] },
            // requests arrive after the data: served from the Late state in priority order
            HCase { nvars: 1, ops: vec![sub(3), sub(4), item(1, 0), item(2, 0), tick(0), tick(1000), tick(1000), publ(), publ(), publ()] },
            // equal priorities: map order
            HCase { nvars: 1, ops: vec![sub(7), sub(7), item(1, 0), item(2, 0), tick(0), tick(1000), publ(), tick(1000)] },
            // priority raised between two rounds: A 10, B 200, C 100 all have data; the first
            // request goes to B, then A becomes 250: the second request must go to A, the third to C
            HCase { nvars: 1, ops: vec![sub(10), sub(200), sub(100), item(1, 0), item(2, 0), item(3, 0), tick(0), tick(1000), publ(), modp(1, 250), publ(), publ()] },
            // priority lowered between two rounds: B 200 -> 5 after a round; then C, A, B
            HCase { nvars: 1, ops: vec![sub(10), sub(200), sub(100), item(1, 0), item(2, 0), item(3, 0), tick(0), tick(1000), tick(1000), modp(2, 5), publ(), publ(), publ()] },
            // changed to the priority of another subscription, then above it; new data every round
            HCase { nvars: 1, ops: vec![sub(50), sub(60), item(1, 0), item(2, 0), tick(0), tick(1000), publ(), modp(1, 60), wr(0, 1), tick(1000), publ(), modp(1, 61), wr(0, 2), tick(1000), publ(), publ(), publ()] },
            // a subscription created after several rounds with the highest priority; later the
            // highest one is deleted
            HCase { nvars: 1, ops: vec![sub(20), sub(30), item(1, 0), item(2, 0), tick(0), tick(1000), publ(), tick(1000), sub(90), item(3, 0), tick(0), wr(0, 3), tick(1000), tick(1000), publ(), del(3), wr(0, 4), tick(1000), publ(), publ()] },
            // publishing disabled on the highest priority, re-enabled later
            HCase { nvars: 1, ops: vec![sub(20), sub(30), item(1, 0), item(2, 0), tick(0), tick(1000), publ(), setpub(2, false), wr(0, 1), tick(1000), publ(), setpub(2, true), wr(0, 2), tick(1000), publ(), publ()] },
            // ModifySubscription of an unknown and of a deleted subscription; revised values
            // (keep-alive 0 -> default, lifetime below 3 x keep-alive, interval below the minimum)
            HCase { nvars: 1, ops: vec![sub(20), sub(30), item(1, 0), item(2, 0), tick(0), modp(7, 99), del(2), modp(2, 250), HOp::Modify { sub: 1, prio: 3, interval: 10, kac: 0, life: 0 }, tick(100), publ(), wr(0, 1), tick(100), tick(100)] },
            // two priority swaps back and forth with a round after each
            HCase { nvars: 2, ops: vec![sub(1), sub(2), item(1, 0), item(2, 1), tick(0), tick(1000), publ(), modp(1, 3), wr(0, 1), wr(1, 1), tick(1000), publ(), modp(2, 4), wr(0, 2), wr(1, 2), tick(1000), publ(), modp(1, 0), wr(0, 3), wr(1, 3), tick(1000), publ(), publ(), publ(), publ()] },
        ];
        if tier == "thorough" {
            // every order of three distinct priorities, 0..3 requests before the data tick
            let prios = [[1, 2, 3], [1, 3, 2], [2, 1, 3], [2, 3, 1], [3, 1, 2], [3, 2, 1]];
            for p in prios.iter() { for nreq in 0..4 {
                let mut ops = vec![sub(p[0]), sub(p[1]), sub(p[2]), item(1, 0), item(2, 0), item(3, 0), tick(0)];
                for _ in 0..nreq { ops.push(publ()); }
                ops.push(tick(1000)); ops.push(wr(0, 9)); ops.push(tick(1000)); ops.push(publ()); ops.push(tick(1000));
                v.push(HCase { nvars: 1, ops });
            } }
            // every order of three priorities, a round, then each subscription moved to the top /
            // to the bottom / onto another's priority, and one request per round afterwards
            for p in prios.iter() { for who in 1..=3i64 { for &np in &[9i64, 0, 2] {
                let mut ops = vec![sub(p[0] * 2), sub(p[1] * 2), sub(p[2] * 2), item(1, 0), item(2, 0), item(3, 0), tick(0), tick(1000), publ()];
                ops.push(modp(who, np));
                ops.push(wr(0, 7)); ops.push(tick(1000));
                ops.push(publ()); ops.push(publ()); ops.push(publ());
                v.push(HCase { nvars: 1, ops });
            } } }
        }
        v
    }
    fn gen(r: &mut Rng) -> HCase {
        // what the generator knows about the subscriptions it created (index = id - 1)
        struct S { prio: i64, interval: i64, kac: i64, life: i64 }
        let nvars = 1 + r.below(3) as i64;
        let mut ops: Vec<HOp> = Vec::new();
        let mut subs: Vec<S> = Vec::new();
        let intervals = [1000i64, 1000, 1000, 500, 2000];
        fn fresh_prio(r: &mut Rng, subs: &[S]) -> i64 {
            // distinct priorities most of the time
            let mut p = r.below(256) as i64;
            if r.chance(5, 6) { while subs.iter().any(|s| s.prio == p) { p = r.below(256) as i64; } }
            p
        }
        fn add_items(r: &mut Rng, ops: &mut Vec<HOp>, s: i64, nvars: i64) {
            let n = if r.chance(1, 8) { 0 } else { 1 + r.below(2) };
            for _ in 0..n {
                ops.push(b(Op::CreateItem { sub: s, var: r.below(nvars as u64) as i64, mode: if r.chance(1, 10) { r.below(2) as i64 } else { 2 },
                    samp: *r.pick(&[-1i64, -1, -1, 100, 500, 1000]), qsize: 1 + r.below(4) as i64, discard_oldest: r.chance(1, 2) }));
            }
        }
        let n0 = 2 + r.below(3) as usize;
        for _ in 0..n0 {
            let s = S { prio: fresh_prio(r, &subs), interval: *r.pick(&intervals), kac: 1 + r.below(4) as i64, life: 30 + r.below(100) as i64 };
            ops.push(b(Op::CreateSub { prio: s.prio, interval: s.interval, kac: s.kac, life: s.life, enabled: !r.chance(1, 12) }));
            subs.push(s);
        }
        for s in 1..=n0 as i64 { add_items(r, &mut ops, s, nvars); }
        ops.push(tick(0));
        let n = 8 + r.below(22);
        let mut x = 1;
        for _ in 0..n {
            match r.below(20) {
                0..=3 => { ops.push(wr(r.below(nvars as u64) as i64, x)); x += 1; }
                4..=7 => ops.push(tick(*r.pick(&[1000i64, 1000, 1000, 500, 100, 2000]))),
                8..=10 => { let k = 1 + r.below(3); for _ in 0..k { ops.push(b(Op::Publish { dt: *r.pick(&[0i64, 0, 100]), hint: 0, acks: vec![] })); } }
                11..=14 => {
                    // ModifySubscription: mostly of an existing id, mostly changing the ranking
                    let id = if r.chance(1, 15) { subs.len() as i64 + 1 } else { 1 + r.below(subs.len() as u64) as i64 };
                    let others: Vec<i64> = subs.iter().enumerate().filter(|(k, _)| *k as i64 + 1 != id).map(|(_, s)| s.prio).collect();
                    let hi = others.iter().copied().max().unwrap_or(100);
                    let lo = others.iter().copied().min().unwrap_or(100);
                    let prio = match r.below(10) {
                        0..=3 => (hi + 1 + r.below(3) as i64).min(255),      // above everybody else
                        4..=5 => (lo - 1 - r.below(3) as i64).max(0),        // below everybody else
                        6..=7 => *r.pick(&others),                           // onto another's priority
                        _ => r.below(256) as i64,
                    };
                    let (mut interval, mut kac, mut life) = match subs.get(id as usize - 1) { Some(s) => (s.interval, s.kac, s.life), None => (1000, 3, 100) };
                    if r.chance(1, 4) {
                        interval = *r.pick(&[1000i64, 500, 2000, 50, 100]);
                        kac = *r.pick(&[0i64, 1, 2, 3, 5]);
                        life = *r.pick(&[0i64, 5, 30, 100, 100000]);
                    }
                    ops.push(HOp::Modify { sub: id, prio, interval, kac, life });
                    if let Some(s) = subs.get_mut(id as usize - 1) {
                        // what the service revises them to (only used to re-send plausible values)
                        s.prio = prio; s.interval = interval.max(100);
                        s.kac = if kac == 0 { 10 } else { kac };
                        s.life = life.max(3 * s.kac).min(90000);
                    }
                }
                15 => {
                    // a subscription created after rounds have run
                    if subs.len() < 6 {
                        let s = S { prio: fresh_prio(r, &subs), interval: *r.pick(&intervals), kac: 1 + r.below(4) as i64, life: 30 + r.below(100) as i64 };
                        ops.push(b(Op::CreateSub { prio: s.prio, interval: s.interval, kac: s.kac, life: s.life, enabled: true }));
                        subs.push(s);
                        add_items(r, &mut ops, subs.len() as i64, nvars);
                        ops.push(tick(0));
                    } else { ops.push(tick(1000)); }
                }
                16 => ops.push(del(1 + r.below(subs.len() as u64) as i64)),
                17 => ops.push(setpub(1 + r.below(subs.len() as u64) as i64, r.chance(1, 2))),
                _ => {
                    // new data for everybody, one interval, a single request
                    for v in 0..nvars { ops.push(wr(v, x)); x += 1; }
                    ops.push(tick(1000));
                    ops.push(publ());
                }
            }
        }
        HCase { nvars, ops }
    }
    fn exec(c: &HCase) -> Out {
        let out = exec_hist(c);
        let nsubs = c.ops.iter().filter(|o| matches!(o, HOp::Base(Op::CreateSub { .. }))).count();
        let nreq = c.ops.iter().filter(|o| matches!(o, HOp::Base(Op::Publish { .. }))).count();
        let nmod = c.ops.iter().filter(|o| matches!(o, HOp::Modify { .. })).count();
        let tag = format!("subs{}-mod{}-req{}{}", nsubs,
            if nmod == 0 { "0" } else if nmod < 3 { "1..2" } else { "3+" },
            if nreq == 0 { "0" } else if nreq < 4 { "1..3" } else { "4+" },
            if out.last() == Some(&-2) { "-panic" } else { "" });
        Out { tag, term: hcase_term(c), out }
    }
}
fn main() { run_main::<P>() }
