//! C32: attribute Read / Write through the real `AttributeService` (hooks
//! `server::services::verif_asvc::{read, write}`) against a real `AddressSpace` holding one
//! variable (node 1), one object (node 2) and the HasSubtype references between data types given
//! by the case.  Node 3 does not exist.
//!
//! Values: `VEmpty`, `VNum ty n` (Boolean 1 as 0/1, Byte 3, Int32 6, UInt32 7), `VStr (Some utf8-bytes)`,
//! `VBs (Some bytes)`, `VArr elemtype [scalars]`.  Index ranges are strings given as byte lists
//! (`None` = null string).  Output: per Read `status, value` (value only for the Value attribute;
//! `-1` = no value), per Write `status`; `-2` = panic.
#[path = "../util.rs"]
mod util;
use util::*;

use opcua::core::supported_message::SupportedMessage;
use opcua::server::address_space::types::*;
use opcua::server::address_space::{AccessLevel, AddressSpace, EventNotifier, UserAccessLevel};
use opcua::server::prelude::{ReferenceDirection, ServerBuilder};
use opcua::server::services::verif_asvc;
use opcua::server::session::Session;
use opcua::server::state::ServerState;
use opcua::sync::RwLock;
use opcua::types::*;
use std::sync::{Arc, OnceLock};

#[derive(Clone, Debug, PartialEq)]
pub enum Val { Empty, Num(i128, i128), Str(Option<String>), Bs(Option<Vec<u8>>), Arr(i128, Vec<Val>) }
#[derive(Clone, Debug)]
pub enum Op {
    Read { node: i128, attr: i128, range: Option<String>, enc: i128 },
    Write { node: i128, attr: i128, range: Option<String>, value: Option<Val> },
}
#[derive(Clone, Debug)]
pub struct Case { subs: Vec<(i128, i128)>, al: i128, ual: i128, dtype: i128, rank: i128, wmask: i128, init: Val, ops: Vec<Op> }
pub struct P;

fn vtype(t: i128) -> VariantTypeId {
    match t { 1 => VariantTypeId::Boolean, 3 => VariantTypeId::Byte, 6 => VariantTypeId::Int32, 7 => VariantTypeId::UInt32, 12 => VariantTypeId::String, _ => VariantTypeId::ByteString }
}
fn variant(v: &Val) -> Variant {
    match v {
        Val::Empty => Variant::Empty,
        Val::Num(1, n) => Variant::Boolean(*n != 0),
        Val::Num(3, n) => Variant::Byte(*n as u8),
        Val::Num(7, n) => Variant::UInt32(*n as u32),
        Val::Num(_, n) => Variant::Int32(*n as i32),
        Val::Str(None) => Variant::String(UAString::null()),
        Val::Str(Some(s)) => Variant::String(UAString::from(s.as_str())),
        Val::Bs(None) => Variant::ByteString(ByteString::null()),
        Val::Bs(Some(b)) => Variant::ByteString(ByteString::from(b.clone())),
        Val::Arr(t, vs) => Variant::from((vtype(*t), vs.iter().map(variant).collect::<Vec<_>>())),
    }
}
/// canonical encoding of a value (same as `enc_value` in the model)
fn enc(v: &Variant, out: &mut Vec<i128>) {
    match v {
        Variant::Empty => out.push(0),
        Variant::Boolean(b) => out.extend([1, 1, *b as i128]),
        Variant::Byte(b) => out.extend([1, 3, *b as i128]),
        Variant::Int32(b) => out.extend([1, 6, *b as i128]),
        Variant::UInt32(b) => out.extend([1, 7, *b as i128]),
        Variant::String(s) => match s.value() {
            None => out.extend([2, -1]),
            Some(s) => { out.extend([2, s.len() as i128]); out.extend(s.bytes().map(|b| b as i128)); }
        },
        Variant::ByteString(s) => match &s.value {
            None => out.extend([3, -1]),
            Some(s) => { out.extend([3, s.len() as i128]); out.extend(s.iter().map(|b| *b as i128)); }
        },
        Variant::Array(a) => {
            let t = match a.value_type { VariantTypeId::Boolean => 1, VariantTypeId::Byte => 3, VariantTypeId::Int32 => 6, VariantTypeId::UInt32 => 7, VariantTypeId::String => 12, VariantTypeId::ByteString => 15, _ => -1 };
            out.extend([4, t, a.values.len() as i128]);
            for x in &a.values { enc(x, out); }
        }
        _ => out.push(-9),
    }
}
fn coq_val(v: &Val) -> String {
    match v {
        Val::Empty => "VEmpty".into(),
        Val::Num(t, n) => format!("(VNum {} {})", z(*t), z(*n)),
        Val::Str(s) => format!("(VStr {})", coq_opt(s, |s| zbytes(s.as_bytes()))),
        Val::Bs(s) => format!("(VBs {})", coq_opt(s, |s| zbytes(s))),
        Val::Arr(t, vs) => format!("(VArr {} {})", z(*t), coq_list(vs, coq_val)),
    }
}
fn status(s: StatusCode) -> i128 {
    let t: &[StatusCode] = &[StatusCode::Good, StatusCode::BadNodeIdUnknown, StatusCode::BadAttributeIdInvalid, StatusCode::BadIndexRangeInvalid,
        StatusCode::BadNotReadable, StatusCode::BadIndexRangeNoData, StatusCode::BadDataEncodingInvalid, StatusCode::BadNotWritable,
        StatusCode::BadWriteNotSupported, StatusCode::BadTypeMismatch];
    for (i, c) in t.iter().enumerate() { if s == *c { return i as i128; } }
    if s.is_good() { 98 } else { 99 }
}
fn state() -> Arc<RwLock<ServerState>> {
    static S: OnceLock<Arc<RwLock<ServerState>>> = OnceLock::new();
    S.get_or_init(|| {
        let a = ServerBuilder::new_sample().pki_dir("/tmp/verif-asvc-pki").server().unwrap();
        let r = a.server_state();
        std::mem::forget(a);
        r
    }).clone()
}
fn nid(k: i128) -> NodeId { NodeId::new(1, k as u32) }
fn ustr(s: &Option<String>) -> UAString { match s { None => UAString::null(), Some(s) => UAString::from(s.as_str()) } }
fn encoding(e: i128) -> QualifiedName {
    match e { 0 => QualifiedName::null(), 1 => QualifiedName::new(0, "Default Binary"), 2 => QualifiedName::new(0, "Default XML"), _ => QualifiedName::new(1, "Default Binary") }
}

impl Property for P {
    type Case = Case;
    fn fixed(tier: &str) -> Vec<Case> { fixed_cases(tier) }
    fn gen(r: &mut Rng) -> Case { gen_case(r) }

    fn exec(c: &Case) -> Out {
        if std::env::var("VERIF_DEBUG").is_ok() { eprintln!("{:?}", c); }
        let server_state = state();
        let session = Arc::new(RwLock::new(Session::new(server_state.clone())));
        let mut space = AddressSpace::default();
        let mut var = Variable::new_data_value(&nid(1), "v", "v", NodeId::new(0, c.dtype as u32), Some(c.rank as i32), None, variant(&c.init));
        var.set_access_level(AccessLevel::from_bits_truncate(c.al as u8));
        var.set_user_access_level(UserAccessLevel::from_bits_truncate(c.ual as u8));
        if c.wmask >= 0 { var.set_write_mask(WriteMask::from_bits_truncate(c.wmask as u32)); }
        let none = None::<&[(&NodeId, &NodeId, ReferenceDirection)]>;
        let _ = space.insert(var, none);
        let _ = space.insert(Object::new(&nid(2), "o", "o", EventNotifier::empty()), none);
        for (p, ch) in &c.subs { space.insert_reference(&NodeId::new(0, *p as u32), &NodeId::new(0, *ch as u32), ReferenceTypeId::HasSubtype); }
        let space = Arc::new(RwLock::new(space));

        let mut out: Vec<i128> = Vec::new();
        let (mut n_wok, mut n_rok) = (0, 0);
        for op in &c.ops {
            match op {
                Op::Read { node, attr, range, enc: e } => {
                    let res = guarded(|| verif_asvc::read(server_state.clone(), session.clone(), space.clone(), &ReadRequest {
                        request_header: RequestHeader::dummy(), max_age: 0.0, timestamps_to_return: TimestampsToReturn::Neither,
                        nodes_to_read: Some(vec![ReadValueId { node_id: nid(*node), attribute_id: *attr as u32, index_range: ustr(range), data_encoding: encoding(*e) }]) }));
                    match res {
                        Ok(SupportedMessage::ReadResponse(r)) => {
                            let dv = &r.results.as_ref().unwrap()[0];
                            let st = status(dv.status.unwrap_or(StatusCode::Good));
                            out.push(st);
                            if st == 0 { n_rok += 1; }
                            if *attr == 13 {
                                match &dv.value { None => out.push(-1), Some(v) => enc(v, &mut out) }
                            }
                        }
                        Ok(_) => out.push(-3),
                        Err(m) => { if std::env::var("VERIF_DEBUG").is_ok() { eprintln!("panic: {}", m); } out.push(-2) }
                    }
                }
                Op::Write { node, attr, range, value } => {
                    let res = guarded(|| verif_asvc::write(server_state.clone(), session.clone(), space.clone(), &WriteRequest {
                        request_header: RequestHeader::dummy(),
                        nodes_to_write: Some(vec![WriteValue { node_id: nid(*node), attribute_id: *attr as u32, index_range: ustr(range),
                            value: DataValue { value: value.as_ref().map(variant), status: None, source_timestamp: None, source_picoseconds: None, server_timestamp: None, server_picoseconds: None } }]) }));
                    match res {
                        Ok(SupportedMessage::WriteResponse(r)) => { let st = status(r.results.as_ref().unwrap()[0]); if st == 0 { n_wok += 1; } out.push(st) }
                        Ok(_) => out.push(-3),
                        Err(m) => { if std::env::var("VERIF_DEBUG").is_ok() { eprintln!("panic: {}", m); } out.push(-2) }
                    }
                }
            }
        }
        let non_ascii = |v: &Val| matches!(v, Val::Str(Some(s)) if !s.is_ascii());
        let tag = format!("{}{}{}{}", if n_wok > 0 { "wok" } else { "wnone" }, if n_rok > 0 { "-rok" } else { "" },
            if non_ascii(&c.init) || c.ops.iter().any(|o| matches!(o, Op::Write { value: Some(v), .. } if non_ascii(v))) { "-utf8" } else { "" },
            if c.ops.iter().any(|o| matches!(o, Op::Read { range: Some(s), .. } | Op::Write { range: Some(s), .. } if !s.is_empty())) { "-range" } else { "" });
        let rng = |s: &Option<String>| coq_opt(s, |s| zbytes(s.as_bytes()));
        let term = format!("(mk_case {} {} {} {} {} {} {} {})", coq_list(&c.subs, |e| format!("({}, {})", z(e.0), z(e.1))), z(c.al), z(c.ual), z(c.dtype), z(c.rank), z(c.wmask), coq_val(&c.init),
            coq_list(&c.ops, |o| match o {
                Op::Read { node, attr, range, enc } => format!("(Read {} {} {} {})", z(*node), z(*attr), rng(range), z(*enc)),
                Op::Write { node, attr, range, value } => format!("(Write {} {} {} {})", z(*node), z(*attr), rng(range), coq_opt(value, coq_val)),
            }));
        Out { tag, term, out }
    }
}

// ---- cases ---------------------------------------------------------------------------------
/// the standard data type hierarchy restricted to the ids used here (parent, child)
const STD: &[(i128, i128)] = &[(24, 26), (26, 27), (26, 28), (27, 6), (28, 3), (28, 7), (24, 1), (24, 12), (24, 15)];
/// ids in an order that every generated HasSubtype edge respects (no cycles: `is_subtype` recurses)
const ORDER: &[i128] = &[24, 26, 27, 28, 1, 3, 6, 7, 12, 15];

fn rd(range: &str) -> Op { Op::Read { node: 1, attr: 13, range: Some(range.into()), enc: 0 } }
fn wr(range: &str, v: Val) -> Op { Op::Write { node: 1, attr: 13, range: Some(range.into()), value: Some(v) } }
fn s(x: &str) -> Val { Val::Str(Some(x.into())) }
fn ints(v: &[i128]) -> Val { Val::Arr(6, v.iter().map(|n| Val::Num(6, *n)).collect()) }
fn case(al: i128, ual: i128, dtype: i128, rank: i128, init: Val, ops: Vec<Op>) -> Case { Case { subs: STD.to_vec(), al, ual, dtype, rank, wmask: -1, init, ops } }
fn wa(attr: i128, v: Val) -> Op { Op::Write { node: 1, attr, range: None, value: Some(v) } }
const ALL_BITS: i128 = 0x3ff_ffff;

fn fixed_cases(_tier: &str) -> Vec<Case> {
    vec![
        // a range that splits a UTF-8 character (panicked before the fix), and ones that do not
        case(3, 3, 12, -1, s("a\u{e9}"), vec![rd("0"), rd("1"), rd("2"), rd("0:1"), rd("0:2"), rd("1:2"), rd("1:9"), rd("3"), rd("")]),
        case(3, 3, 12, -1, s("\u{20ac}x\u{1f600}"), vec![rd("0:2"), rd("0:3"), rd("1:3"), rd("3"), rd("4:7"), rd("4:6"), rd("7"), rd("8")]),
        // write then read, scalar
        case(3, 3, 6, -1, Val::Num(6, 5), vec![rd(""), wr("", Val::Num(6, -7)), rd(""), wr("", Val::Num(3, 1)), rd(""), wr("", s("x")), wr("", Val::Empty), rd("")]),
        // not writable / not readable by the user
        case(3, 1, 6, -1, Val::Num(6, 5), vec![wr("", Val::Num(6, 1)), rd("")]),
        case(3, 2, 6, -1, Val::Num(6, 5), vec![wr("", Val::Num(6, 1)), rd("")]),
        case(0, 3, 6, -1, Val::Num(6, 5), vec![wr("", Val::Num(6, 1)), rd("")]),
        // arrays with ranges
        case(3, 3, 6, 1, ints(&[10, 11, 12, 13, 14]), vec![rd("1"), rd("1:3"), rd("3:9"), rd("5"), rd("5:6"), wr("1", ints(&[21])), rd(""), wr("2:3", ints(&[32, 33, 34])), rd(""),
            wr("3:9", ints(&[43, 44, 45])), rd(""), wr("5", ints(&[1])), wr("0", ints(&[])), wr("0", Val::Num(6, 1)), wr("0", Val::Arr(3, vec![Val::Num(3, 1)])), wr("0:1,0:1", ints(&[1])), rd("0:1,2")]),
        // subtype: Number variable takes Int32 and Byte, not String
        case(3, 3, 26, -1, Val::Num(6, 5), vec![wr("", Val::Num(3, 200)), rd(""), wr("", s("x")), wr("", Val::Num(1, 1)), rd("")]),
        // byte string into a byte array variable
        case(3, 3, 3, 1, Val::Arr(3, vec![Val::Num(3, 1), Val::Num(3, 2)]), vec![wr("", Val::Bs(Some(vec![7, 8, 9]))), rd(""), rd("1:2"), wr("", Val::Bs(None)), rd(""), wr("0", Val::Bs(Some(vec![5])))]),
        case(3, 3, 3, -1, Val::Num(3, 1), vec![wr("", Val::Bs(Some(vec![7]))), rd("")]),
        // byte string ranges
        case(3, 3, 15, -1, Val::Bs(Some(vec![1, 2, 3, 4])), vec![rd("0"), rd("1:2"), rd("2:99"), rd("4"), wr("0", Val::Bs(Some(vec![9])))]),
        case(3, 3, 15, -1, Val::Bs(None), vec![rd("0"), rd("")]),
        case(3, 3, 12, -1, Val::Str(None), vec![rd("0"), rd(""), wr("", s("")), rd("0"), rd("")]),
        // malformed ranges
        case(3, 3, 6, 1, ints(&[1, 2, 3]), vec![rd(" "), rd("1:1"), rd("2:1"), rd("1:"), rd(":1"), rd("01234567890"), rd("4294967296"), rd("0:4294967296"), rd("4294967295"), rd("0:4294967295"),
            rd("\u{663}"), rd("1,"), rd("0,1,2,3,4,5,6,7,8,9,10"), rd("0,1,2,3,4,5,6,7,8,9"), wr(" ", ints(&[1])), wr("2:1", ints(&[1]))]),
        // the initial value of a byte array variable given as a byte string is stored as a byte array
        case(3, 3, 3, 1, Val::Bs(Some(vec![1, 2, 3])), vec![rd(""), rd("1"), rd("0:1")]),
        case(3, 3, 3, -1, Val::Bs(Some(vec![1, 2, 3])), vec![rd(""), rd("1")]),
        // attribute writes under a write mask: the user access level is taken away and given back
        Case { wmask: ALL_BITS, ..case(3, 3, 6, -1, Val::Num(6, 5), vec![wr("", Val::Num(6, 1)), wa(18, Val::Num(3, 1)), wr("", Val::Num(6, 2)), rd(""),
            wa(18, Val::Num(3, 2)), rd(""), wr("", Val::Num(6, 3)), wa(18, Val::Num(3, 255)), rd(""), wa(18, Val::Num(6, 3)), wa(18, Val::Num(3, 0)), rd(""),
            Op::Read { node: 1, attr: 18, range: None, enc: 0 }])},
        // the write mask itself, rank, dimensions, other attributes and value types
        Case { wmask: 1 << 20, ..case(3, 3, 3, -1, Val::Num(3, 5), vec![wa(18, Val::Num(3, 1)), Op::Read { node: 1, attr: 6, range: None, enc: 0 }, wa(6, Val::Num(7, (1 << 16) | (1 << 19) | (1 << 1))), wa(6, Val::Num(7, 0)),
            wa(18, Val::Num(3, 3)), wa(15, Val::Num(6, 1)), wr("", Val::Bs(Some(vec![1, 2]))), rd(""), Op::Read { node: 1, attr: 16, range: None, enc: 0 },
            wa(16, Val::Arr(7, vec![Val::Num(7, 2)])), Op::Read { node: 1, attr: 16, range: None, enc: 0 }, wa(16, Val::Arr(6, vec![Val::Num(6, 2)])), wa(16, Val::Arr(7, vec![]))])},
        Case { wmask: ALL_BITS, ..case(3, 3, 6, -1, Val::Num(6, 5), vec![wa(17, Val::Num(3, 0)), wa(17, Val::Num(6, 0)), wa(20, Val::Num(1, 1)), wa(20, Val::Num(3, 1)), wa(2, Val::Num(6, 1)), wa(2, Val::Num(6, 77)),
            wa(1, Val::Num(6, 1)), wa(3, s("x")), wa(4, s("x")), wa(5, s("x")), wa(7, Val::Num(7, 5)), wa(7, Val::Num(6, 5)), wa(14, Val::Num(6, 1)), wa(19, Val::Num(6, 1)), wa(8, Val::Num(1, 1)), wa(12, Val::Num(3, 1)),
            wa(21, Val::Num(1, 1)), wa(25, Val::Num(1, 1)), wa(27, Val::Num(7, 1)), Op::Write { node: 1, attr: 18, range: Some("".into()), value: Some(Val::Num(3, 1)) },
            Op::Write { node: 1, attr: 18, range: None, value: None }, Op::Write { node: 2, attr: 12, range: None, value: Some(Val::Num(3, 1)) }, rd("")])},
        Case { wmask: 0, ..case(3, 3, 6, -1, Val::Num(6, 5), vec![wa(18, Val::Num(3, 1)), Op::Read { node: 1, attr: 6, range: None, enc: 0 }])},
        // other nodes and attributes
        case(3, 3, 6, -1, Val::Num(6, 5), vec![
            Op::Read { node: 3, attr: 13, range: None, enc: 0 }, Op::Read { node: 2, attr: 13, range: None, enc: 0 }, Op::Read { node: 1, attr: 0, range: None, enc: 0 },
            Op::Read { node: 1, attr: 28, range: None, enc: 0 }, Op::Read { node: 1, attr: 17, range: Some("0".into()), enc: 0 }, Op::Read { node: 1, attr: 13, range: None, enc: 2 },
            Op::Read { node: 1, attr: 13, range: None, enc: 1 }, Op::Read { node: 1, attr: 16, range: None, enc: 0 }, Op::Read { node: 2, attr: 12, range: None, enc: 0 },
            Op::Write { node: 3, attr: 13, range: None, value: Some(Val::Num(6, 1)) }, Op::Write { node: 2, attr: 13, range: None, value: Some(Val::Num(6, 1)) },
            Op::Write { node: 1, attr: 17, range: None, value: Some(Val::Num(3, 3)) }, Op::Write { node: 1, attr: 99, range: None, value: Some(Val::Num(3, 3)) },
            Op::Write { node: 1, attr: 13, range: None, value: None }, Op::Write { node: 1, attr: 13, range: Some("".into()), value: Some(Val::Num(6, 2)) }]),
    ]
}

fn gen_scalar(r: &mut Rng, t: i128) -> Val {
    match t {
        1 => Val::Num(1, r.below(2) as i128),
        3 => Val::Num(3, r.below(256) as i128),
        6 => Val::Num(6, *r.pick(&[0i128, 1, -1, 2, i32::MAX as i128, i32::MIN as i128])),
        7 => Val::Num(7, *r.pick(&[0i128, 1, 2, 1 << 16, (1 << 16) | (1 << 19) | (1 << 20) | 2, 0x3ff_ffff, u32::MAX as i128])),
        12 => if r.chance(1, 10) { Val::Str(None) } else {
            let n = r.below(6);
            Val::Str(Some((0..n).map(|_| *r.pick(&['a', 'b', '\u{e9}', '\u{20ac}', '\u{1f600}', '0', ':'])).collect()))
        },
        _ => if r.chance(1, 10) { Val::Bs(None) } else { { let n = r.below(6) as usize; Val::Bs(Some(r.bytes(n))) } },
    }
}
fn gen_val(r: &mut Rng, prefer: i128) -> Val {
    let t = if r.chance(2, 3) && [1, 3, 6, 7, 12, 15].contains(&prefer) { prefer } else { *r.pick(&[1i128, 3, 6, 7, 12, 15]) };
    match r.below(10) {
        0 => Val::Empty,
        1..=5 => gen_scalar(r, t),
        _ => { let n = if r.chance(1, 8) { 0 } else { 1 + r.below(5) }; Val::Arr(t, (0..n).map(|_| gen_scalar(r, t)).collect()) }
    }
}
fn gen_range(r: &mut Rng) -> Option<String> {
    Some(match r.below(12) {
        0 => return None,
        1 | 2 => String::new(),
        3..=5 => format!("{}", r.below(7)),
        6..=8 => { let a = r.below(6); format!("{}:{}", a, a + 1 + r.below(5)) }
        9 => format!("{}:{}", r.below(4), *r.pick(&[4294967295u64, 4294967296, 99])),
        10 => { let n = 1 + r.below(4); (0..n).map(|_| (*r.pick(&["0", "1", "9", ":", ",", " ", "a", "\u{663}", "00", "4294967296"])).to_string()).collect::<Vec<_>>().join("") }
        _ => format!("{},{}", r.below(3), r.below(3)),
    })
}

fn gen_case(r: &mut Rng) -> Case {
    let mut subs: Vec<(i128, i128)> = STD.iter().filter(|_| r.chance(7, 8)).cloned().collect();
    for _ in 0..r.below(3) {
        let a = r.below(ORDER.len() as u64 - 1) as usize;
        let b2 = a + 1 + r.below((ORDER.len() - a - 1) as u64) as usize;
        if !subs.contains(&(ORDER[a], ORDER[b2])) { subs.push((ORDER[a], ORDER[b2])); }
    }
    let dtype = *r.pick(&[1i128, 3, 6, 7, 12, 15, 24, 26, 27, 28, 3, 6, 12, 99]); // a null data type makes VariableBuilder::build panic
    let rank = *r.pick(&[-1i128, -1, 1, 1, -2, -3, 0, 2]);
    let lvl = |r: &mut Rng| -> i128 { *r.pick(&[3i128, 3, 3, 1, 2, 0, 255, 12]) };
    let (al, ual) = (lvl(r), lvl(r));
    let init = gen_val(r, dtype);
    let mut ops = Vec::new();
    for _ in 0..2 + r.below(9) {
        let node = if r.chance(1, 12) { 2 + r.below(2) as i128 } else { 1 };
        let attr = if r.chance(1, 8) { r.below(30) as i128 } else { 13 };
        if r.chance(1, 2) {
            ops.push(Op::Read { node, attr, range: gen_range(r), enc: if r.chance(1, 10) { 1 + r.below(3) as i128 } else { 0 } });
        } else if r.chance(1, 4) {
            // a write to another attribute, mostly with the value type that attribute takes
            let a = *r.pick(&[18i128, 18, 18, 15, 15, 6, 6, 16, 17, 20, 2, 7, 14, 1, 8, 25]);
            let v = if r.chance(1, 6) { gen_val(r, dtype) } else { match a {
                18 | 17 => Val::Num(3, *r.pick(&[0i128, 1, 2, 3, 255])),
                15 | 2 => Val::Num(6, *r.pick(&[-1i128, 1, -2, -3, 0, 2])),
                6 | 7 => gen_scalar(r, 7),
                16 => { let n = r.below(3); Val::Arr(7, (0..n).map(|_| gen_scalar(r, 7)).collect()) }
                20 => Val::Num(1, r.below(2) as i128),
                _ => gen_val(r, dtype) } };
            ops.push(Op::Write { node: if r.chance(1, 15) { 2 } else { 1 }, attr: a, range: if r.chance(1, 8) { Some(String::new()) } else { None }, value: if r.chance(1, 20) { None } else { Some(v) } });
        } else {
            let range = if r.chance(1, 2) { if r.chance(1, 2) { None } else { Some(String::new()) } } else { gen_range(r) };
            ops.push(Op::Write { node, attr, range, value: if r.chance(1, 15) { None } else { Some(gen_val(r, dtype)) } });
        }
    }
    let wmask = match r.below(6) { 0 | 1 => -1, 2 => 0, 3 => 0x3ff_ffff, 4 => (1 << 16) | (1 << 20), _ => *r.pick(&[1i128 << 16, 1 << 19, (1 << 19) | (1 << 1) | 1, 1 << 20, u32::MAX as i128]) };
    Case { subs, al, ual, dtype, rank, wmask, init, ops }
}

fn main() { run_main::<P>() }
