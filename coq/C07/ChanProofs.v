(* Theorems about the channel model (Chan.v), generic in the external primitives. *)
From Coq Require Import List ZArith Bool Lia.
Import ListNotations.
From OV Require Import C07.Chan C07.Lemmas.
Open Scope Z_scope.

Ltac Zify.zify_post_hook ::= Z.div_mod_to_equations.

(* ================= closed forms for the size of a secured chunk ================= *)
(* total padding of a symmetric SignAndEncrypt chunk (AES block 16, one padding-size byte) *)
Definition sym_pad (ss bodylen : Z) : Z :=
  let es := 8 + bodylen + ss + 1 in 1 + (if es mod 16 =? 0 then 0 else 16 - es mod 16).
(* total padding of an asymmetric chunk encrypted to a key of [rks] bytes *)
Definition asym_pad (p : policy) (rks sks bodylen : Z) : Z :=
  let pbs := rsa_plain_block p rks in
  let mp := min_padding rks in
  let es := 8 + bodylen + sks + mp in mp + (if es mod pbs =? 0 then 0 else pbs - es mod pbs).
(* the size on the wire of a chunk with [bodylen] body bytes *)
Definition secured_size (S : sender) (t : mtype) (bodylen : Z) : Z :=
  let hs := 12 + len (sec_header S t) in
  if secured (s_policy S) (s_mode S) then
    match t with
    | OPN => hs + cipher_text_size (rsa_plain_block (s_policy S) (s_rks S)) (s_rks S)
                    (8 + bodylen + asym_pad (s_policy S) (s_rks S) (s_ks S) bodylen + s_ks S)
    | _ => hs + 8 + bodylen + src_sym_sig (s_policy S) +
           (match s_mode S with MSignEnc => sym_pad (src_sym_sig (s_policy S)) bodylen | _ => 0 end)
    end
  else hs + 8 + bodylen.

(* ================= padding arithmetic ================= *)
(* the padding makes sequence header + body + padding + signature a whole number of blocks,
   and is between the minimum padding and minimum padding + block - 1 *)
Lemma padding_block pbs es : 0 < pbs -> 0 <= es ->
  let ps := if es mod pbs =? 0 then 0 else pbs - es mod pbs in
  (es + ps) mod pbs = 0 /\ 0 <= ps <= pbs - 1.
Proof.
  intros Hp He. cbn zeta. destruct (Z.eqb_spec (es mod pbs) 0) as [E|E].
  - rewrite Z.add_0_r. split; [exact E|lia].
  - pose proof (Z.mod_pos_bound es pbs Hp) as Hb. split; [|lia].
    replace (es + (pbs - es mod pbs)) with (pbs * (es / pbs + 1)) by (pose proof (Z.div_mod es pbs); lia).
    rewrite Z.mul_comm. apply Z.mod_mul. lia.
Qed.

Lemma len_padding_bytes p mp : 0 <= p -> (mp = 1 \/ (mp = 2 /\ 2 <= p) \/ p = 0) -> len (padding_bytes p mp) = p.
Proof.
  intros Hp Hm. unfold padding_bytes. destruct (Z.leb_spec p 0); [rewrite len_nil; lia|].
  destruct (Z.eqb_spec mp 1).
  - apply len_rep. lia.
  - rewrite len_app, len_rep, len_cons, len_nil by lia. lia.
Qed.

(* ================= verify_padding strips what add_space_for_padding_and_signature wrote ================= *)
Lemma slice_app_mid (a m b : bytes) s e : len a = s -> s + len m = e -> slice s e (a ++ m ++ b) = m.
Proof.
  intros Ha Hm. unfold slice. rewrite drop_app_exact by exact Ha. apply take_app_exact. lia.
Qed.

Lemma nth_last_rep (a b : bytes) p v : 1 <= p ->
  nth (Z.to_nat (len a + p - 1)) (a ++ rep p v ++ b) 0 = v.
Proof.
  intro Hp. pose proof (len_nonneg a).
  replace p with ((p - 1) + 1) at 2 by lia. rewrite rep_succ by lia.
  replace (rep (p - 1) v) with (rep_nat (Z.to_nat (p - 1)) v) by reflexivity.
  rewrite <- rep_snoc_nat. rewrite <- app_assoc. rewrite app_assoc. cbn [app].
  apply nth_app_exact. rewrite len_app. change (rep_nat (Z.to_nat (p - 1)) v) with (rep (p - 1) v).
  rewrite len_rep by lia. lia.
Qed.

Lemma verify_padding_one fx a b p ks :
  ks <= 256 -> 1 <= p <= 256 ->
  verify_padding fx (a ++ padding_bytes p 1 ++ b) ks (len a + p) = Ok (len a).
Proof.
  intros Hk Hp. pose proof (len_nonneg a) as Ha. unfold verify_padding.
  destruct (Z.ltb_spec 256 ks); [lia|].
  destruct (Z.ltb_spec (len a + p) 1); [lia|].
  assert (Hpb : padding_bytes p 1 = rep p ((p - 1) mod 256)).
  { unfold padding_bytes. destruct (Z.leb_spec p 0); [lia|]. reflexivity. }
  rewrite Hpb. rewrite Z.mod_small by lia.
  rewrite !len_app, len_rep by lia.
  destruct (Z.ltb_spec (len a + (p + len b)) (len a + p)); [pose proof (len_nonneg b); lia|].
  (* the last padding byte *)
  assert (Hn : nth (Z.to_nat (len a + p - 1)) (a ++ rep p (p - 1) ++ b) 0 = p - 1).
  { replace p with ((p - 1) + 1) at 2 by lia. rewrite rep_succ by lia.
    replace (rep (p - 1) (p - 1)) with (rep_nat (Z.to_nat (p - 1)) (p - 1)) by reflexivity.
    rewrite <- rep_snoc_nat. rewrite <- app_assoc. rewrite app_assoc. cbn [app].
    apply nth_app_exact. rewrite len_app. change (rep_nat (Z.to_nat (p - 1)) (p - 1)) with (rep (p - 1) (p - 1)).
    rewrite len_rep by lia. lia. }
  rewrite Hn.
  destruct (Z.ltb_spec (len a + p) (p - 1 + 1)); [lia|].
  replace (len a + p - (p - 1) - 1) with (len a) by lia.
  rewrite (slice_app_mid a (rep p (p - 1)) b) by (rewrite ?len_rep; lia).
  rewrite all_eqb_rep. reflexivity.
Qed.

Lemma verify_padding_two fx a b p ks :
  256 < ks -> 2 <= p <= 65537 ->
  verify_padding fx (a ++ padding_bytes p 2 ++ b) ks (len a + p) = Ok (len a).
Proof.
  intros Hk Hp. pose proof (len_nonneg a) as Ha. unfold verify_padding.
  destruct (Z.ltb_spec 256 ks); [|lia].
  destruct (Z.ltb_spec (len a + p) 2); [lia|].
  set (pb := (p - 2) mod 256). set (xb := ((p - 2) / 256) mod 256).
  assert (Hpb : padding_bytes p 2 = rep (p - 1) pb ++ [xb]).
  { unfold padding_bytes. destruct (Z.leb_spec p 0); [lia|]. reflexivity. }
  rewrite Hpb. rewrite !len_app, len_rep, len_cons, len_nil by lia.
  destruct (Z.ltb_spec (len a + (p - 1 + (1 + 0) + len b)) (len a + p)); [pose proof (len_nonneg b); lia|].
  assert (Hx : nth (Z.to_nat (len a + p - 1)) (a ++ (rep (p - 1) pb ++ [xb]) ++ b) 0 = xb).
  { rewrite <- !app_assoc. rewrite app_assoc. cbn [app]. apply nth_app_exact. rewrite len_app, len_rep by lia. lia. }
  assert (Hb : nth (Z.to_nat (len a + p - 2)) (a ++ (rep (p - 1) pb ++ [xb]) ++ b) 0 = pb).
  { replace (p - 1) with ((p - 2) + 1) by lia. rewrite rep_succ by lia.
    replace (rep (p - 2) pb) with (rep_nat (Z.to_nat (p - 2)) pb) by reflexivity.
    rewrite <- rep_snoc_nat. rewrite <- !app_assoc. rewrite app_assoc. cbn [app]. apply nth_app_exact.
    rewrite len_app. change (rep_nat (Z.to_nat (p - 2)) pb) with (rep (p - 2) pb). rewrite len_rep by lia. lia. }
  rewrite Hx, Hb.
  assert (Hps : xb * 256 + pb = p - 2).
  { unfold xb, pb. rewrite (Z.mod_small ((p - 2) / 256)) by lia. lia. }
  rewrite Hps.
  destruct (Z.ltb_spec (len a + p) (p - 2 + 2)); [lia|].
  replace (len a + p - (p - 2) - 2) with (len a) by lia.
  rewrite <- app_assoc.
  rewrite (slice_app_mid a (rep (p - 1) pb) ([xb] ++ b)) by (rewrite ?len_rep; lia).
  rewrite all_eqb_rep. reflexivity.
Qed.

(* ================= the RSA block loops ================= *)
Section Rsa.
  Variable P : prims.
  Variable fx : fixes.
  Variables (key : Z) (pol : policy) (pbs ks : Z).
  Hypothesis Hpbs : 0 < pbs.
  Hypothesis Hks : 0 < ks.
  Hypothesis Henc_len : forall blk, len blk <= pbs -> len (p_rsa_enc P key pol blk) = ks.
  Hypothesis Hdec : forall blk, len blk <= pbs -> p_rsa_dec P key pol (p_rsa_enc P key pol blk) = Some blk.

  Lemma len_take_min (l : bytes) n : 0 <= n -> len (take n l) <= n.
  Proof.
    intro H. destruct (Z.le_gt_cases n (len l)).
    - rewrite len_take by lia. lia.
    - rewrite take_all by lia. lia.
  Qed.

  Lemma rsa_encrypt_f_cons f x l :
    rsa_encrypt_f P (S f) key pol pbs (x :: l) =
    p_rsa_enc P key pol (take pbs (x :: l)) ++ rsa_encrypt_f P f key pol pbs (drop pbs (x :: l)).
  Proof. reflexivity. Qed.
  Lemma rsa_decrypt_f_nonnil f src : src <> [] ->
    rsa_decrypt_f P fx (S f) key ks pol src =
    if len src <? ks then Panic P_RSA_BLOCK
    else match p_rsa_dec P key pol (take ks src) with
         | None => Err E_SEC
         | Some blk => do rest <- rsa_decrypt_f P fx f key ks pol (drop ks src); Ok (blk ++ rest)
         end.
  Proof. destruct src; [congruence|reflexivity]. Qed.

  Lemma rsa_encrypt_f_len : forall fuel src, (length src <= fuel)%nat ->
    len (rsa_encrypt_f P fuel key pol pbs src) = cipher_text_size pbs ks (len src).
  Proof.
    induction fuel as [|f IH]; intros src Hf.
    - destruct src; [|cbn in Hf; lia]. cbn. unfold cipher_text_size. rewrite len_nil. reflexivity.
    - destruct src as [|x src']; [cbn; unfold cipher_text_size; rewrite len_nil; reflexivity|].
      rewrite rsa_encrypt_f_cons. set (src := x :: src') in *.
      assert (Hl : 1 <= len src) by (unfold src; rewrite len_cons; pose proof (len_nonneg src'); lia).
      rewrite len_app, Henc_len by (apply len_take_min; lia).
      destruct (Z.le_gt_cases (len src) pbs) as [Hle|Hgt].
      + rewrite drop_all by lia.
        replace (rsa_encrypt_f P f key pol pbs []) with (@nil Z) by (destruct f; reflexivity).
        rewrite len_nil. unfold cipher_text_size.
        destruct (Z.eqb_spec (len src mod pbs) 0) as [E|E].
        * assert (E1 : len src = pbs).
          { destruct (Z.eq_dec (len src) pbs) as [E2|E2]; [exact E2|]. rewrite Z.mod_small in E by lia. lia. }
          rewrite E1, Z.div_same by lia. lia.
        * assert (len src < pbs) by (destruct (Z.eq_dec (len src) pbs) as [E2|E2]; [rewrite E2, Z.mod_same in E by lia; lia|lia]).
          rewrite Z.div_small by lia. lia.
      + rewrite IH.
        2:{ assert (len (drop pbs src) = len src - pbs) by (apply len_drop; lia). unfold len in *. cbn [length] in *. lia. }
        rewrite len_drop by lia. unfold cipher_text_size.
        assert (Hm : len src mod pbs = (len src - pbs) mod pbs).
        { replace (len src) with ((len src - pbs) + 1 * pbs) at 1 by lia. apply Z.mod_add. lia. }
        assert (Hd : len src / pbs = (len src - pbs) / pbs + 1).
        { replace (len src) with ((len src - pbs) + 1 * pbs) at 1 by lia. apply Z.div_add. lia. }
        rewrite Hm, Hd. destruct (Z.eqb_spec ((len src - pbs) mod pbs) 0); lia.
  Qed.

  Lemma rsa_encrypt_len src : len (rsa_encrypt P key pol pbs src) = cipher_text_size pbs ks (len src).
  Proof. apply rsa_encrypt_f_len. lia. Qed.

  Lemma rsa_roundtrip_f : forall fuel src fuel2, (length src <= fuel)%nat ->
    (length (rsa_encrypt_f P fuel key pol pbs src) <= fuel2)%nat ->
    rsa_decrypt_f P fx fuel2 key ks pol (rsa_encrypt_f P fuel key pol pbs src) = Ok src.
  Proof.
    induction fuel as [|f IH]; intros src fuel2 Hf Hf2.
    - destruct src; [|cbn in Hf; lia]. cbn. destruct fuel2; reflexivity.
    - destruct src as [|x src']; [cbn; destruct fuel2; reflexivity|].
      rewrite rsa_encrypt_f_cons in *. set (src := x :: src') in *.
      assert (Hl : 1 <= len src) by (unfold src; rewrite len_cons; pose proof (len_nonneg src'); lia).
      assert (Hb : len (take pbs src) <= pbs) by (apply len_take_min; lia).
      pose proof (Henc_len _ Hb) as He.
      set (c := p_rsa_enc P key pol (take pbs src)) in *.
      assert (Hc : c <> []) by (intro E; rewrite E, len_nil in He; lia).
      destruct fuel2 as [|f2].
      { rewrite app_length in Hf2. destruct c; [congruence|cbn in Hf2; lia]. }
      rewrite rsa_decrypt_f_nonnil by (destruct c; [congruence|discriminate]).
      rewrite len_app. destruct (Z.ltb_spec (len c + len (rsa_encrypt_f P f key pol pbs (drop pbs src))) ks).
      { pose proof (len_nonneg (rsa_encrypt_f P f key pol pbs (drop pbs src))). lia. }
      rewrite take_app_exact by exact He. unfold c at 1. rewrite Hdec by exact Hb.
      rewrite drop_app_exact by exact He.
      rewrite IH.
      + cbn [bind]. rewrite take_drop. reflexivity.
      + destruct (Z.le_gt_cases (len src) pbs).
        * rewrite drop_all by lia. cbn. lia.
        * assert (len (drop pbs src) = len src - pbs) by (apply len_drop; lia). unfold len in *. cbn [length] in *. lia.
      + rewrite app_length in Hf2. assert (1 <= length c)%nat by (destruct c; [congruence|cbn; lia]). lia.
  Qed.

  Lemma rsa_roundtrip src :
    rsa_decrypt P fx key ks pol (rsa_encrypt P key pol pbs src) = Ok src.
  Proof.
    unfold rsa_decrypt. rewrite rsa_encrypt_len.
    assert (Hm : cipher_text_size pbs ks (len src) mod ks = 0).
    { unfold cipher_text_size. apply Z.mod_mul. lia. }
    rewrite Hm. cbn [Z.eqb negb]. rewrite orb_false_r.
    destruct (Z.leb_spec ks 0); [lia|]. rewrite andb_false_r.
    unfold rsa_encrypt. apply rsa_roundtrip_f; lia.
  Qed.
End Rsa.
