From Coq Require Import List ZArith Bool Lia.
Import ListNotations.
From OV Require Import C17.Model.
Open Scope Z_scope.

(* ================= DER values are prefix-free ================= *)
Lemma firstn_app_le {X} (n : nat) (a b : list X) : (n <= length a)%nat -> firstn n (a ++ b) = firstn n a.
Proof. intro H. rewrite firstn_app. replace (n - length a)%nat with 0%nat by lia. cbn. apply app_nil_r. Qed.

Lemma der_total_app l m n : der_total l = Some n -> der_total (l ++ m) = Some n.
Proof.
  destruct l as [|t [|len0 rest]]; cbn [der_total app]; try discriminate.
  destruct (len0 <? 128); [trivial|].
  destruct (Nat.leb (Z.to_nat (len0 - 128)) (length rest)) eqn:E; [|discriminate].
  apply Nat.leb_le in E. intro H.
  rewrite app_length. destruct (Nat.leb_spec (Z.to_nat (len0 - 128)) (length rest + length m)); [|lia].
  rewrite firstn_app_le by exact E. exact H.
Qed.

Lemma der_wf_prefix a l : der_wf a = true -> der_wf (a ++ l) = true -> l = [].
Proof.
  unfold der_wf. destruct (der_total a) as [n|] eqn:E; [|discriminate].
  rewrite (der_total_app a l n E). intros H1 H2.
  apply Z.eqb_eq in H1, H2. rewrite app_length in H2.
  destruct l; [reflexivity|]. cbn [length] in H2. lia.
Qed.

(* the data that is signed, DER(cert) ++ nonce, determines both parts *)
Theorem concat_injective cert nonce cert' nonce' :
  der_wf cert = true -> der_wf cert' = true ->
  cert ++ nonce = cert' ++ nonce' -> cert = cert' /\ nonce = nonce'.
Proof.
  intros Ha Hb H. apply app_eq_app in H as [l [[H1 H2]|[H1 H2]]].
  - subst cert. assert (l = []) by (apply (der_wf_prefix cert'); assumption). subst l.
    rewrite app_nil_r. cbn in H2. split; [reflexivity | symmetry; exact H2].
  - subst cert'. assert (l = []) by (apply (der_wf_prefix cert); assumption). subst l.
    rewrite app_nil_r. cbn in H2. split; [reflexivity | exact H2].
Qed.

(* ================= byte-level model with the signature scheme as an oracle ================= *)
Section Bytes.
  Variable key pubkey : Type.
  Variable pub : key -> pubkey.
  Variable sign : alg -> key -> list Z -> list Z.              (* may be randomised: any output of it *)
  Variable verify : alg -> pubkey -> list Z -> list Z -> bool.
  (* the only law assumed of the primitive *)
  Hypothesis sign_verifies : forall a k d, verify a (pub k) d (sign a k d) = true.

  (* create_signature_data (policy not None, certificate and nonce not null) *)
  Definition create (p : policy) (k : key) (cert nonce : list Z) : list Z :=
    sign (alg_of p) k (cert ++ nonce).
  (* verify_signature_data *)
  Definition verify_data (p : policy) (signature : list Z) (signing_pub : pubkey) (cert nonce : list Z) : bool :=
    verify (alg_of p) signing_pub (cert ++ nonce) signature.

  (* completeness: for every signing policy, key, certificate and nonce *)
  Theorem completeness p k cert nonce :
    verify_data p (create p k cert nonce) (pub k) cert nonce = true.
  Proof. unfold verify_data, create. apply sign_verifies. Qed.

  (* soundness as coverage + reduction: if verification accepts for an expected (certificate,
     nonce) different from the pair that was signed, the run exhibits a valid signature on data
     the key holder never signed in this exchange — whatever the primitive is. *)
  Theorem soundness_reduction p k cert nonce cert' nonce' signature :
    der_wf cert = true -> der_wf cert' = true ->
    (cert', nonce') <> (cert, nonce) ->
    verify_data p signature (pub k) cert' nonce' = true ->
    exists d, d <> cert ++ nonce /\ verify (alg_of p) (pub k) d signature = true.
  Proof.
    intros Ha Hb Hne Hv. exists (cert' ++ nonce'). split; [|exact Hv].
    intro E. apply concat_injective in E; [|assumption|assumption]. destruct E; subst. apply Hne. reflexivity.
  Qed.

  (* coverage: the verdict depends on nothing but (algorithm, public key, DER(cert) ++ nonce,
     signature): every byte of the certificate, the nonce and the signature is an input of the
     primitive's check *)
  Theorem coverage p s pk cert nonce :
    verify_data p s pk cert nonce = verify (alg_of p) pk (cert ++ nonce) s.
  Proof. reflexivity. Qed.
End Bytes.

(* ================= the ideal-scheme model satisfies the oracle ================= *)
Theorem oracle_holds c : valid c = true -> oracle c (run c) = true.
Proof.
  intro Hv. unfold oracle, run. rewrite Hv. cbn [andb].
  destruct (all_match c); reflexivity.
Qed.

Example der_example : der_wf [48; 130; 1; 2] = false /\ der_total [48; 130; 1; 2; 9] = Some 262 /\ der_wf [48; 3; 1; 2; 3] = true.
Proof. repeat split. Qed.
