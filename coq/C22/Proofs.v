(* C22 — proofs: the oracle holds on every valid case; the pre-repair code is refuted. *)
From Coq Require Import List ZArith Bool Lia.
From OV Require Import C22.Model C22.ProofsTable C22.ProofsTrace C22.ProofsExpiry C22.ProofsAlive C22.ProofsWindow.
Import ListNotations.
Open Scope Z_scope.

Lemma list_eqb_refl : forall l, list_eqb l l = true.
Proof. induction l as [|x l IH]; cbn; [reflexivity|]. rewrite Z.eqb_refl. exact IH. Qed.

Theorem oracle_holds : forall c, valid c -> known c = 0 -> oracle c (run c) = true.
Proof.
  intros [k l en ivl ops | stn l k f en ml mk r a m q t] Hv _.
  - destruct Hv as (Hk & Hl & Hivl).
    unfold run, run_gen, oracle.
    assert (Hl2 : 2 <= l) by lia.
    destruct (trace_total ivl ops 0 (init_world k l en) Hivl (G_init k l en Hl2)) as (Hp & Hlen & Hwf).
    unfold encode. rewrite Hp. rewrite app_nil_r.
    rewrite parse_encode; [| assumption | pose proof (encode_length (fst (trace_gen true true ivl 0 (init_world k l en) ops))); lia].
    rewrite Hlen. rewrite Nat.eqb_refl. cbn [andb].
    rewrite expiry_holds by assumption. rewrite andb_true_r.
    destruct en; cbn [andb]; [|reflexivity].
    destruct (avail ops) eqn:Hav; [|reflexivity].
    apply alive_holds; assumption.
  - unfold run, run_gen, oracle. fold update_state. rewrite update_state_eq_table. apply list_eqb_refl.
Qed.

(* ---- the code before the repairs ------------------------------------------------------- *)
(* as pinned (before "fix: keep-alive rows 14/15"): kac 3, life 9, requests always available: one
   keep-alive, then silence for ever *)
Lemma legacy_refuted :
  let c := Hist 3 9 true 1000 (requests_history 1000 12) in
  valid c /\ oracle c (Legacy.run c) = false.
Proof. split; [cbn; lia | vm_compute; reflexivity]. Qed.

(* after that repair, before the repair of row 9: kac 1, life 3: closed at the third interval *)
Lemma legacy9_refuted :
  let c := Hist 1 3 true 1000 (requests_history 1000 5) in
  valid c /\ oracle c (Legacy9.run c) = false.
Proof. split; [cbn; lia | vm_compute; reflexivity]. Qed.

(* ---- the first half of the statement in explicit form ------------------------------------- *)
Theorem keepalive_holds : forall k l ivl ops, 1 <= k -> 3 * k <= l -> 1 <= ivl -> avail ops = true ->
  let t := fst (trace_gen true true ivl 0 (init_world k l true) ops) in
  let fl := flags ivl ops in
  (* never closed, no BadTimeout status change *)
  (forall o, In o t -> (exists s, snap_state o = Some s /\ s <> 0) /\ timeout_of o = false) /\
  (* a keep-alive no later than the first elapsed publishing interval *)
  (forall i, nth i fl false = true -> exists p, (p <= i)%nat /\ nth p (map ka_of t) false = true) /\
  (* any kac+1 elapsed publishing intervals contain a keep-alive *)
  (forall i m, k < count_true (firstn m (skipn i fl)) ->
     exists p, (i <= p < i + m)%nat /\ nth p (map ka_of t) false = true).
Proof.
  intros k l ivl ops Hk Hl Hivl Hav t fl.
  pose proof (alive_holds k l ivl ops Hk Hl Hivl Hav) as H. fold t fl in H.
  split; [|split].
  - intros o Hin. exact (check_alive_never_closed k fl t 0 false H o Hin).
  - intros i Hi. exact (check_alive_first k fl t 0 H i Hi).
  - intros i m Hm. exact (check_alive_window k fl t ltac:(lia) H i m Hm).
Qed.

Theorem no_panic : forall k l en ivl ops, 1 <= k -> 3 * k <= l -> 1 <= ivl ->
  snd (trace_gen true true ivl 0 (init_world k l en) ops) = false /\
  length (fst (trace_gen true true ivl 0 (init_world k l en) ops)) = length ops.
Proof.
  intros k l en ivl ops Hk Hl Hivl.
  destruct (trace_total ivl ops 0 (init_world k l en) Hivl (G_init k l en ltac:(lia))) as (A & B & _).
  split; assumption.
Qed.

(* the hypotheses are satisfiable by non-trivial cases *)
Example keepalive_example :
  let ops := requests_history 1000 12 in
  avail ops = true /\ count_true (flags 1000 ops) = 12 /\
  map ka_of (fst (trace_gen true true 1000 0 (init_world 3 9 true) ops)) =
    [false; false; false; true; false; false; false; false; false; false; false; true; false;
     false; false; false; false; true; false; false; false; false; false; true; false; false].
Proof. vm_compute. repeat split. Qed.

Example expiry_example :
  states_of (fst (trace_gen true true 1000 0 (init_world 1 3 true) (idle_history 1000 5))) = [2; 3; 3; 0; 0; 0].
Proof. vm_compute. reflexivity. Qed.

Example table_example :
  update_state (mk_sub KeepAlive 5 1 true true 9 3) (mk_params false false false true true) =
    Res 15 AKeepAlive (mk_sub KeepAlive 8 3 true true 9 3).
Proof. vm_compute. reflexivity. Qed.

Example schedule_example :
  map (ka_schedule 3) [1; 2; 3; 4; 5; 6; 7; 8; 9; 10; 11] =
    [true; false; false; false; true; false; false; true; false; false; true] /\
  map (ka_schedule 1) [1; 2; 3; 4; 5] = [true; false; true; true; true].
Proof. vm_compute. split; reflexivity. Qed.
