(* C27 — Higher-priority subscriptions are served first.  Statements only.

   Model: the shared subscription system model C21/Sys.v plus the ModifySubscription service
   (C27/Model.v: [hop], [hstep_g]); C27's observation and oracle are in C27/Model.v.
   [sys_tick_g prio_order stick] is Subscriptions::tick with the priority sort of the code and an
   arbitrary per-subscription tick function [stick].  A history ([case]) is an operation list on
   ONE Subscriptions instance: writes, timer ticks, publish requests, create / delete of
   subscriptions and items, republish, set publishing mode and ModifySubscription (which changes
   a priority between two scheduling rounds). *)
From Coq Require Import List ZArith.
Import ListNotations.
From OV Require Import C21.SysLemmas C27.Model C27.Proofs.
Open Scope Z_scope.

(* One scheduling round, for EVERY state with distinct subscription ids, every request queue,
   and every behaviour of the individual subscriptions (any function that keeps id and
   priority): (a) the publish responses of the round come in non-increasing priority, and
   (b) whenever a subscription i was answered, no subscription that outranks i is left with a
   notification ready (its queue was drained before i was served). *)
Theorem C27_round :
  forall (stick : sub -> list Z -> Z -> bool -> bool -> option sub),
  (forall s vars now timer rq s',
     stick s vars now timer rq = Some s' -> s_id s' = s_id s /\ s_prio s' = s_prio s) ->
  forall y timer y' rs,
  NoDup (ids (y_subs y)) ->
  sys_tick_g prio_order stick y timer = Some (y', rs) ->
  non_increasing (map (prio_in y) (resp_subs rs)) = true /\
  (forall i s', In i (resp_subs rs) -> In s' (y_subs y') -> prio_in y i < s_prio s' ->
                s_notifs s' = []).
Proof. exact round_served_by_priority. Qed.
Print Assumptions C27_round.

(* The model of Subscription::tick is such a function ... *)
Theorem C27_subscription_tick_keeps_priority : forall s vars now timer rq s',
  sub_tick s vars now timer rq = Some s' -> s_id s' = s_id s /\ s_prio s' = s_prio s.
Proof. exact sub_tick_keeps. Qed.
Print Assumptions C27_subscription_tick_keeps_priority.

(* ... and every state reached by any history (any prefix of any operation list: writes, ticks,
   publish requests, create/delete of items and subscriptions, republish, publishing mode,
   ModifySubscription) has distinct subscription ids, so C27_round applies to every round of
   every history. *)
Theorem C27_reachable : forall c k y',
  run_state (hinit c) 0 (firstn k (h_ops c)) = Some y' -> NoDup (ids (y_subs y')).
Proof. exact reachable_distinct_ids. Qed.
Print Assumptions C27_reachable.

(* In every state reached by any history, the priority every live subscription is scheduled with
   is the one the client requested LAST — in its CreateSubscription or in a later
   ModifySubscription ([prio_at], a fold over the operations alone).  By induction over the
   history. *)
Theorem C27_priority_follows_requests : forall c k y',
  run_state (hinit c) 0 (firstn k (h_ops c)) = Some y' ->
  forall s, In s (y_subs y') -> s_prio s = prio_at (firstn k (h_ops c)) (s_id s).
Proof. exact reachable_priorities. Qed.
Print Assumptions C27_priority_follows_requests.

(* Every scheduling round of every history: a round started after any prefix of any history (on
   the subscriptions of the state reached, whatever clock, request queue and retransmission queue
   the round finds) answers in non-increasing order of the priorities requested last, and an
   answered subscription means that no live subscription with a higher requested priority keeps a
   notification. *)
Theorem C27_history_round : forall c k y y2 timer y' rs,
  run_state (hinit c) 0 (firstn k (h_ops c)) = Some y ->
  y_subs y2 = y_subs y ->
  sys_tick y2 timer = Some (y', rs) ->
  let P := prio_at (firstn k (h_ops c)) in
  non_increasing (map P (resp_subs rs)) = true /\
  (forall i s', In i (resp_subs rs) -> In s' (y_subs y') -> P i < P (s_id s') -> s_notifs s' = []).
Proof. exact history_round. Qed.
Print Assumptions C27_history_round.

(* The oracle used in the correspondence run (priorities as requested last in the case at the
   time of each operation, pending counts and responses as observed after every operation) holds
   on the model's output for every history. *)
Theorem C27_oracle : forall c, valid c -> known c = 0 -> oracle c (run c) = true.
Proof. intros c _ _. apply oracle_holds. Qed.
Print Assumptions C27_oracle.

(* The code before "fix: subscriptions were served in ascending priority order": with
   priorities 1 and 200 both ready and one request, the priority-1 subscription is answered. *)
Theorem C27_legacy_refuted : exists c, valid c /\ oracle c (Legacy.run c) = false.
Proof. exists witness. split; [exact I | exact legacy_refuted]. Qed.
Print Assumptions C27_legacy_refuted.

(* The oracle sees priorities changed between rounds: a server that leaves the old priority in
   place on ModifySubscription (A 10 -> 250 while A and C (100) have data and one request is
   queued: it answers C) is rejected, the model (answers A) is accepted. *)
Theorem C27_stale_priority_refuted :
  exists c, valid c /\ oracle c (NoPrioChange.run c) = false /\ oracle c (run c) = true.
Proof.
  exists witness_modify. split; [exact I|]. split.
  - exact (proj2 no_prio_change_refuted).
  - exact (proj2 witness_modify_order).
Qed.
Print Assumptions C27_stale_priority_refuted.
