(* C42 — round-trip lemmas for the non-recursive built-ins: what each writer produces, its reader
   takes back (code after the four repairs, cfg = now). *)
From Coq Require Import List ZArith Bool Lia.
From OV Require Import C42.Text C42.Flt C42.Model C42.TextLaws C42.DateLaws.
Import ListNotations.
Open Scope Z_scope.

(* ---- booleans to propositions --------------------------------------------------------------- *)
Lemma in_range_iff lo hi z : in_range lo hi z = true <-> lo <= z <= hi.
Proof. unfold in_range. rewrite andb_true_iff, !Z.leb_le. tauto. Qed.

Lemma in_range_true lo hi z : lo <= z <= hi -> (lo <=? z) && (z <=? hi) = true.
Proof. intro. apply andb_true_iff; split; apply Z.leb_le; lia. Qed.

Lemma bytes_ok_Forall l : bytes_ok l = true -> Forall byte l.
Proof.
  unfold bytes_ok. intro H. apply Forall_forall. intros x Hx.
  rewrite forallb_forall in H. apply in_range_iff. auto.
Qed.

(* ---- field lookup ---------------------------------------------------------------------------- *)
Fixpoint oget (k : str) (l : list (str * option tree)) : option tree :=
  match l with
  | [] => None
  | (k', Some t) :: r => if str_eqb k k' then Some t else oget k r
  | (_, None) :: r => oget k r
  end.

Lemma get_fields k l : get k (fields l) = oget k l.
Proof.
  induction l as [|[k' [t|]] r IH]; cbn [fields get oget]; [reflexivity| |exact IH].
  rewrite IH. reflexivity.
Qed.
Lemma oget_ne k k' o r : str_eqb k k' = false -> oget k ((k', o) :: r) = oget k r.
Proof. intro H. destruct o; cbn [oget]; [rewrite H|]; reflexivity. Qed.
Lemma oget_eq k k' o r : str_eqb k k' = true ->
  oget k ((k', o) :: r) = match o with Some t => Some t | None => oget k r end.
Proof. intro H. destruct o; cbn [oget]; [rewrite H|]; reflexivity. Qed.
Lemma oget_nil k : oget k [] = None.
Proof. reflexivity. Qed.
Lemma get_ne k k' t r : str_eqb k k' = false -> get k ((k', t) :: r) = get k r.
Proof. intro H. cbn [get]. rewrite H. reflexivity. Qed.
Lemma get_eq k k' t r : str_eqb k k' = true -> get k ((k', t) :: r) = Some t.
Proof. intro H. cbn [get]. rewrite H. reflexivity. Qed.
Lemma get_nil k : get k [] = None.
Proof. reflexivity. Qed.
Lemma omatch_id (o : option tree) : match o with Some t => Some t | None => None end = o.
Proof. destruct o; reflexivity. Qed.

Ltac getk :=
  repeat first
    [ rewrite get_fields
    | rewrite oget_nil
    | rewrite get_nil
    | rewrite oget_ne by reflexivity
    | rewrite oget_eq by reflexivity
    | rewrite get_ne by reflexivity
    | rewrite get_eq by reflexivity
    | rewrite omatch_id ].

(* ---- leaves ------------------------------------------------------------------------------------ *)
Lemma ustr_rt s : ustr_of (Some (ustr_tree s)) = Some s.
Proof. destruct s; reflexivity. Qed.
Lemma bstr_rt b : bstr_ok b = true -> bstr_of (Some (bstr_tree b)) = Some b.
Proof.
  destruct b as [x|]; [|reflexivity]. cbn [bstr_ok bstr_tree bstr_of]. intro H.
  rewrite b64_roundtrip by (apply bytes_ok_Forall; exact H). reflexivity.
Qed.
Lemma guid_rt g : guid_ok g = true -> parse_guid (guid_text g) = Some g.
Proof.
  unfold guid_ok. intro H. apply andb_true_iff in H as [Hl Hb].
  apply guid_roundtrip; [|apply bytes_ok_Forall; exact Hb].
  apply Z.eqb_eq in Hl. unfold zlen in Hl. lia.
Qed.
Lemma date_rt t : date_ok t = true -> parse_date (date_text t) = Some t.
Proof.
  unfold date_ok. intro H. apply andb_true_iff in H as [Hr Hm].
  apply in_range_iff in Hr. apply Z.eqb_eq in Hm. apply date_roundtrip; assumption.
Qed.
Lemma int_rt lo hi z : in_range lo hi z = true -> int_of lo hi (Some (tint z)) = Some z.
Proof. intro H. unfold int_of, tint. unfold in_range in H. rewrite H. reflexivity. Qed.

Lemma opt_value_nonnull t : t <> TNull -> opt_value (Some t) = Some t.
Proof. destruct t; [congruence | reflexivity ..]. Qed.

Lemma opt_of_otree {A} (g : option tree -> option A) (f : A -> tree) (o : option A) :
  (forall a, o = Some a -> f a <> TNull /\ g (Some (f a)) = Some a) ->
  opt_of g (otree f o) = Some o.
Proof.
  intro H. destruct o as [a|]; [|reflexivity].
  destruct (H a eq_refl) as [Hn Hg]. unfold otree, option_map, opt_of.
  destruct (f a) eqn:E; try congruence; rewrite Hg; reflexivity.
Qed.

Lemma opt_int lo hi o : oz_ok lo hi o = true -> opt_of (int_of lo hi) (otree tint o) = Some o.
Proof.
  intro H. apply opt_of_otree. intros a ->. split; [discriminate|]. apply int_rt. exact H.
Qed.
Lemma opt_status o : oz_ok 0 U32MAX o = true -> opt_of status_of (otree tint o) = Some o.
Proof. apply opt_int. Qed.
Lemma opt_date o : odate_ok o = true -> opt_of date_of (otree date_tree o) = Some o.
Proof.
  intro H. apply opt_of_otree. intros a ->. split; [discriminate|].
  cbn [date_tree date_of]. apply date_rt. exact H.
Qed.

(* ---- NodeId / ExpandedNodeId --------------------------------------------------------------------- *)
Lemma ident_rt i : ident_ok i = true ->
  let '(ty, id) := ident_parts i in
  ident_of ty id = Some i /\ (forall z, ty = Some z -> in_range 0 U32MAX z = true).
Proof.
  destruct i as [n | [[|c s]|] | g | [[|x r]|]]; cbn [ident_ok ident_parts]; intro H; try discriminate.
  - split; [|discriminate]. apply in_range_iff in H. unfold U32MAX in H.
    unfold ident_of, as_u64, tint, U64MAX. rewrite in_range_true by lia.
    do 2 f_equal. apply Z.mod_small. lia.
  - split; [reflexivity|]. intros z [= <-]. reflexivity.
  - split; [|intros z [= <-]; reflexivity].
    unfold ident_of, as_str. pose proof (guid_text_nonempty g) as Hne.
    destruct (guid_text g) eqn:E; [congruence|]. rewrite <- E, guid_rt by exact H. reflexivity.
  - split; [|intros z [= <-]; reflexivity].
    unfold ident_of, as_str.
    pose proof (b64_encode_nonempty (x :: r) ltac:(discriminate)) as Hne.
    destruct (b64_encode (x :: r)) eqn:E; [congruence|].
    rewrite <- E, b64_roundtrip by (apply bytes_ok_Forall; exact H). reflexivity.
Qed.

Lemma nodeid_tree_nonnull n : nodeid_tree n <> TNull.
Proof. destruct n as [ns i]. unfold nodeid_tree. destruct (ident_parts i). discriminate. Qed.

Lemma opt_ty ty : (forall z, ty = Some z -> in_range 0 U32MAX z = true) ->
  opt_of (int_of 0 U32MAX) (otree tint ty) = Some ty.
Proof. intro H. apply opt_int. destruct ty; [apply H; reflexivity | reflexivity]. Qed.

Lemma ns_index_rt ns : in_range 0 U16MAX ns = true -> ns_index_of (tint ns) = Some ns.
Proof.
  intro H. apply in_range_iff in H. unfold U16MAX in H.
  unfold ns_index_of, as_u64, tint, U64MAX, U16MAX. rewrite in_range_true by lia.
  replace (65535 <? ns) with false by (symmetry; apply Z.ltb_ge; lia). reflexivity.
Qed.

Lemma nodeid_rt n : nodeid_ok n = true -> nodeid_of (Some (nodeid_tree n)) = Some n.
Proof.
  destruct n as [ns i]. cbn [nodeid_ok]. intro H. apply andb_true_iff in H as [Hns Hi].
  pose proof (ident_rt i Hi) as Hid. unfold nodeid_tree. destruct (ident_parts i) as [ty id].
  destruct Hid as [Hid Hty]. unfold nodeid_of. getk.
  rewrite opt_ty by exact Hty.
  destruct (ns =? 0) eqn:E.
  - apply Z.eqb_eq in E. subst ns. cbn [opt_value]. rewrite Hid. reflexivity.
  - cbn [opt_value tint]. change (TNum (NInt ns)) with (tint ns). rewrite ns_index_rt by exact Hns.
    rewrite Hid. reflexivity.
Qed.

Lemma xnodeid_rt x : xnodeid_ok x = true -> x_both x = false ->
  xnodeid_of now (Some (xnodeid_tree now x)) = Some x.
Proof.
  destruct x as [[ns i] uri srv]. cbn [xnodeid_ok nodeid_ok x_both]. intros H Hb.
  apply andb_true_iff in H as [H Hsrv]. apply andb_true_iff in H as [Hns Hi].
  pose proof (ident_rt i Hi) as Hid. unfold xnodeid_tree. destruct (ident_parts i) as [ty id].
  destruct Hid as [Hid Hty]. unfold xnodeid_of. cbn [fix_xuri now]. getk.
  rewrite opt_ty by exact Hty.
  assert (Hs : match opt_value (if srv =? 0 then None else Some (tint srv)) with
               | Some t => do n <- as_u64 t; if U32MAX <? n then None else Some n
               | None => Some 0 end = Some srv).
  { apply in_range_iff in Hsrv. unfold U32MAX in *. destruct (srv =? 0) eqn:E.
    - apply Z.eqb_eq in E. subst. reflexivity.
    - cbn [opt_value tint as_u64]. unfold U64MAX. rewrite in_range_true by lia.
      replace (4294967295 <? srv) with false by (symmetry; apply Z.ltb_ge; lia). reflexivity. }
  destruct uri as [u|].
  - (* a namespace uri: the index is 0 *)
    destruct (ns =? 0) eqn:E; [|discriminate Hb]. apply Z.eqb_eq in E. subst ns.
    cbn [opt_value as_str]. rewrite Hs, Hid. reflexivity.
  - destruct (ns =? 0) eqn:E.
    + apply Z.eqb_eq in E. subst ns. cbn [opt_value]. rewrite Hs, Hid. reflexivity.
    + cbn [opt_value tint as_str]. change (TNum (NInt ns)) with (tint ns).
      rewrite ns_index_rt by exact Hns. rewrite Hs, Hid. reflexivity.
Qed.

Lemma xnodeid_tree_nonnull c x : xnodeid_tree c x <> TNull.
Proof. destruct x as [[ns i] uri srv]. unfold xnodeid_tree. destruct (ident_parts i). discriminate. Qed.

(* ---- QualifiedName, LocalizedText, ExtensionObject ------------------------------------------------ *)
Lemma qname_rt q : qname_ok q = true -> qname_of (Some (qname_tree q)) = Some q.
Proof.
  destruct q as [ns name]. cbn [qname_ok qname_tree]. intro H. unfold qname_of. getk.
  rewrite int_rt by exact H. rewrite ustr_rt. reflexivity.
Qed.
Lemma ltext_rt l : ltext_of (Some (ltext_tree l)) = Some l.
Proof. destruct l as [a b]. cbn [ltext_tree]. unfold ltext_of. getk. rewrite !ustr_rt. reflexivity. Qed.

Lemma eobody_rt b : match b with EOBytes x => bstr_ok x | _ => true end = true ->
  eobody_of (Some (eobody_tree b)) = Some b.
Proof.
  destruct b as [|x|s]; cbn [eobody_tree]; intro H.
  - reflexivity.
  - unfold eobody_of. change (str_eqb kByteString kNone) with false.
    change (str_eqb kByteString kByteString) with true. cbv iota. rewrite bstr_rt by exact H. reflexivity.
  - unfold eobody_of. change (str_eqb kXmlElement kNone) with false.
    change (str_eqb kXmlElement kByteString) with false.
    change (str_eqb kXmlElement kXmlElement) with true. cbv iota. rewrite ustr_rt. reflexivity.
Qed.
Lemma extobj_rt e : extobj_ok e = true -> extobj_of (Some (extobj_tree e)) = Some e.
Proof.
  destruct e as [n b]. cbn [extobj_ok extobj_tree]. intro H. apply andb_true_iff in H as [Hn Hb].
  unfold extobj_of. getk. rewrite nodeid_rt by exact Hn. rewrite eobody_rt by exact Hb. reflexivity.
Qed.

(* ---- DataValue fields ----------------------------------------------------------------------------- *)
Lemma dvrest_rt value r : dvrest_ok r = true ->
  match dv_tree value r with
  | TObj fs => dvrest_of fs = Some r /\ get kValue fs = value
  | _ => False
  end.
Proof.
  destruct r as [status sts sps vts vps]. cbn [dvrest_ok dv_tree]. intro H.
  repeat (apply andb_true_iff in H as [H ?]).
  split.
  - unfold dvrest_of. getk.
    rewrite opt_status by assumption. rewrite !opt_date by assumption. rewrite !opt_int by assumption.
    reflexivity.
  - getk. reflexivity.
Qed.

(* ---- DiagnosticInfo ---------------------------------------------------------------------------------- *)
Fixpoint ddepth (d : diag) : nat :=
  let '(Diag _ _ _ _ _ _ inner) := d in
  match inner with Some d' => S (ddepth d') | None => 1%nat end.

Lemma diag_tree_nonnull d : diag_tree d <> TNull.
Proof. destruct d. cbn [diag_tree]. discriminate. Qed.

Lemma diag_rt : forall n d, (ddepth d <= n)%nat -> diag_ok d = true ->
  diag_of now n (Some (diag_tree d)) = Some d.
Proof.
  induction n as [|n IH]; intros d Hd Hok.
  - destruct d as [? ? ? ? ? ? [?|]]; cbn [ddepth] in Hd; lia.
  - destruct d as [sym ns loc lt info isc inner]. cbn [diag_ok] in Hok.
    repeat (apply andb_true_iff in Hok as [Hok ?]).
    cbn [diag_tree diag_of]. cbn [fix_diag now]. getk.
    rewrite !opt_int by assumption. rewrite opt_status by assumption.
    assert (Hinfo : match otree ustr_tree info with
                    | None => Some None
                    | Some t => do s <- ustr_of (Some t); Some (Some s)
                    end = Some info).
    { destruct info as [s|]; [|reflexivity]. cbn [otree option_map]. rewrite ustr_rt. reflexivity. }
    rewrite Hinfo.
    destruct inner as [d'|].
    + cbn [ddepth] in Hd.
      assert (Hi : opt_of (diag_of now n) (Some (diag_tree d')) = Some (Some d')).
      { unfold opt_of. pose proof (diag_tree_nonnull d') as Hnn.
        destruct (diag_tree d') eqn:E; try congruence; rewrite <- E; rewrite IH by (assumption || lia); reflexivity. }
      rewrite Hi. reflexivity.
    + reflexivity.
Qed.
