(* C08 — statements only (in progress) *)
From Coq Require Import List ZArith.
From OV Require Import C07.Chan C08.Model C08.Proofs.
Open Scope Z_scope.
Theorem C08_placeholder : True. Proof. exact I. Qed.
Print Assumptions C08_placeholder.
