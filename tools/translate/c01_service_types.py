#!/usr/bin/env python3
"""Translate lib/src/types/service_types/*.rs (+ request_header.rs, response_header.rs) into type
descriptors for the codec model.

For every struct it checks that the struct declaration, byte_len(), encode(), the `let`s of
decode() and the constructor at the end of decode() list the same fields in the same order, that
array fields (Option<Vec<T>>) use byte_len_array / write_array / read_array and scalar fields use
.byte_len() / .encode() / T::decode with T the declared type, and that there is nothing else in
those bodies.  For every enum it checks that the discriminants are exactly the values decode()
accepts, and takes the width from byte_len().  Any deviation is a translator failure (exit 1).

Outputs (written only when changed):
  coq/Gen/C01ServiceTypes.v         T_<Name> : ty   for every type, all_structs
  harness/src/codec_structs_gen.rs  dispatch table and descriptors for the harness
"""
import os, re, sys, glob

V = os.path.dirname(os.path.dirname(os.path.dirname(os.path.abspath(__file__))))
REPO = os.environ.get("VERIF_REPO", "/repo")
TYPES = os.path.join(REPO, "lib", "src", "types")
ST = os.path.join(TYPES, "service_types")

BUILTIN = {"bool": 1, "i8": 2, "u8": 3, "i16": 4, "u16": 5, "i32": 6, "u32": 7, "i64": 8, "u64": 9,
           "f32": 10, "f64": 11, "UAString": 12, "DateTime": 13, "Guid": 14, "ByteString": 15,
           "XmlElement": 16, "NodeId": 17, "ExpandedNodeId": 18, "StatusCode": 19, "QualifiedName": 20,
           "LocalizedText": 21, "ExtensionObject": 22, "DiagnosticInfo": 25}
errors = []


def err(msg):
    errors.append(msg)


def write_if_changed(path, content):
    try:
        if open(path).read() == content:
            return
    except FileNotFoundError:
        pass
    os.makedirs(os.path.dirname(path), exist_ok=True)
    with open(path, "w") as f:
        f.write(content)


def strip_comments(src):
    src = re.sub(r"//[^\n]*", "", src)
    return src


def body_of(src, start_pat):
    """text between the braces of the first item matching start_pat"""
    m = re.search(start_pat, src)
    if not m:
        return None
    i = src.index("{", m.end() - 1) if src[m.end() - 1] != "{" else m.end() - 1
    depth, j = 0, i
    while j < len(src):
        if src[j] == "{":
            depth += 1
        elif src[j] == "}":
            depth -= 1
            if depth == 0:
                return src[i + 1:j]
        j += 1
    return None


def norm_ws(s):
    s = re.sub(r"\s+", " ", s).strip()
    s = re.sub(r"\s*\.\s*", ".", s)
    s = re.sub(r"\(\s+", "(", s)
    s = re.sub(r",?\s+\)", ")", s)
    s = re.sub(r"=\s+", "= ", s)
    return s


def statements(body):
    return [norm_ws(x) for x in body.split(";") if norm_ws(x)]


# ---- aliases, enums, flag sets ------------------------------------------------------------------------
aliases = {}
for m in re.finditer(r"pub type (\w+) = (\w+);", strip_comments(open(os.path.join(TYPES, "data_types.rs")).read())):
    aliases[m.group(1)] = m.group(2)


def resolve_alias(t):
    seen = set()
    while t in aliases and t not in seen:
        seen.add(t)
        t = aliases[t]
    return t


enums = {}    # name -> ("enum", width, [values]) | ("flags", width, allbits)
esrc = strip_comments(open(os.path.join(ST, "enums.rs")).read())


def int_of(s):
    return int(s.replace("_", ""), 0)


for m in re.finditer(r"pub enum (\w+) \{(.*?)\n\}", esrc, re.S):
    name, body = m.group(1), m.group(2)
    vals = [int_of(x) for x in re.findall(r"\w+ = (-?[\w]+),", body)]
    impl = body_of(esrc, r"impl BinaryEncoder<%s>\s+for %s\s*\{" % (name, name))
    if impl is None:
        err("enum %s: no BinaryEncoder impl" % name); continue
    bl = body_of(impl, r"fn byte_len\(&self\) -> usize \{")
    width = int(norm_ws(bl)) if bl and norm_ws(bl).isdigit() else None
    enc = norm_ws(body_of(impl, r"fn encode<S: Write>\([^)]*\) -> EncodingResult<usize> \{") or "")
    dec = body_of(impl, r"fn decode<S: Read>\([^)]*\) -> EncodingResult<Self> \{") or ""
    reader = {1: ("write_u8(stream, *self as u8)", "read_u8(stream)?"), 4: ("write_i32(stream, *self as i32)", "read_i32(stream)?")}.get(width)
    if reader is None or enc != reader[0] or ("let value = " + reader[1]) not in norm_ws(dec):
        err("enum %s: unexpected byte_len/encode/decode shape (width %s)" % (name, width)); continue
    accepted = [int_of(x) for x in re.findall(r"(-?\d+) => Ok\(Self::\w+\)", dec)]
    if sorted(accepted) != sorted(vals) or len(set(vals)) != len(vals):
        err("enum %s: discriminants %s but decode accepts %s" % (name, vals, accepted)); continue
    dm = re.search(r"\bv => \{.*?Ok\(Self::(\w+)\)", dec, re.S)
    if re.search(r"\bv => \{[^;]*;\s*Err\(StatusCode::\w+\)", dec, re.S):
        enums[name] = ("enum", width, vals)
    elif dm:
        # an unknown value decodes to a designated member
        dflt = int_of(re.search(r"\b%s = (-?\w+)," % dm.group(1), body).group(1))
        enums[name] = ("enumd", width, vals, dflt)
    else:
        err("enum %s: no fallback arm" % name); continue

for m in re.finditer(r"pub struct (\w+): (i16|i32|u32|u8|u16) \{(.*?)\n    \}", esrc, re.S):
    name, base, body = m.group(1), m.group(2), m.group(3)
    bits = 0
    for c in re.findall(r"const \w+ = (-?\w+);", body):
        bits |= int_of(c)
    impl = body_of(esrc, r"impl BinaryEncoder<%s>\s+for %s\s*\{" % (name, name))
    width = {"i16": 2, "i32": 4, "u8": 1, "u16": 2, "u32": 4}.get(base)
    bl = norm_ws(body_of(impl, r"fn byte_len\(&self\) -> usize \{") or "") if impl else ""
    enc = norm_ws(body_of(impl, r"fn encode<S: Write>\([^)]*\) -> EncodingResult<usize> \{") or "") if impl else ""
    dec = norm_ws(body_of(impl, r"fn decode<S: Read>\([^)]*\) -> EncodingResult<Self> \{") or "") if impl else ""
    if width is None or bl != str(width) or enc != "write_%s(stream, self.bits())" % base \
            or dec != "Ok(%s::from_bits_truncate(%s::decode(stream, decoding_options)?))" % (name, base):
        err("flags %s: unexpected shape: %r %r %r" % (name, bl, enc, dec)); continue
    enums[name] = ("flags", width, bits)

# DiagnosticBits (types/diagnostic_info.rs), used by RequestHeader through .bits() / from_bits_truncate(u32)
dsrc = strip_comments(open(os.path.join(TYPES, "diagnostic_info.rs")).read())
m = re.search(r"pub struct DiagnosticBits: u32 \{(.*?)\n    \}", dsrc, re.S)
bits = 0
for c in re.findall(r"const \w+ = (\w+);", m.group(1)):
    bits |= int_of(c)
enums["DiagnosticBits"] = ("flags", 4, bits)

# ---- structs ---------------------------------------------------------------------------------------------
structs = {}   # name -> [(field, type, is_array)]
files = sorted(glob.glob(os.path.join(ST, "*.rs")))
files = [f for f in files if os.path.basename(f) not in ("mod.rs", "enums.rs", "impls.rs")]
files += [os.path.join(TYPES, "request_header.rs"), os.path.join(TYPES, "response_header.rs")]


def parse_struct(path):
    src = strip_comments(open(path).read())
    m = re.search(r"pub struct (\w+) \{(.*?)\}", src, re.S)
    if not m:
        err("%s: no struct" % path); return
    name = m.group(1)
    fields = []
    for fm in re.finditer(r"pub (\w+): ([^,\n]+),", m.group(2)):
        t = fm.group(2).strip()
        am = re.fullmatch(r"Option<Vec<(\w+)>>", t)
        fields.append((fm.group(1), resolve_alias(am.group(1) if am else t), bool(am)))
    if len(fields) != len(re.findall(r"\bpub \w+:", m.group(2))):
        err("%s: unparsed field declaration" % name); return
    impl = body_of(src, r"impl BinaryEncoder<%s>\s+for %s\s*\{" % (name, name))
    if impl is None:
        err("%s: no BinaryEncoder impl" % name); return
    bl = statements(body_of(impl, r"fn byte_len\(&self\) -> usize \{") or "")
    enc = statements(body_of(impl, r"fn encode<S: Write>\([^)]*\) -> EncodingResult<usize> \{") or "")
    dec_body = body_of(impl, r"fn decode<S: Read>\([^)]*\) -> EncodingResult<Self> \{") or ""
    # byte_len
    got = []
    if not fields:
        if bl != ["0"]:
            err("%s: byte_len of an empty struct is %r" % (name, bl))
    else:
        if bl[0] not in ("let mut size = 0", "let mut size: usize = 0") or bl[-1] != "size":
            err("%s: byte_len frame %r" % (name, bl))
        for s in bl[1:-1]:
            m1 = re.fullmatch(r"size \+= self\.(\w+)(\.bits\(\))?\.byte_len\(\)", s)
            m2 = re.fullmatch(r"size \+= byte_len_array\(&self\.(\w+)\)", s)
            if m1:
                got.append((m1.group(1), False))
            elif m2:
                got.append((m2.group(1), True))
            else:
                err("%s: byte_len statement %r" % (name, s))
        if got != [(f, a) for f, _, a in fields]:
            err("%s: byte_len lists %s, struct has %s" % (name, got, [(f, a) for f, _, a in fields]))
    # encode
    got = []
    if not fields:
        if enc != ["Ok(0)"]:
            err("%s: encode of an empty struct is %r" % (name, enc))
    else:
        tail = [x for x in enc if x in ("Ok(size)", "assert_eq!(size, self.byte_len())")]
        if enc[0] not in ("let mut size = 0", "let mut size: usize = 0") or enc[-1] != "Ok(size)":
            err("%s: encode frame %r" % (name, enc))
        for s in enc[1:]:
            if s in ("Ok(size)", "assert_eq!(size, self.byte_len())"):
                continue
            m1 = re.fullmatch(r"size \+= self\.(\w+)(\.bits\(\))?\.encode\(stream\)\?", s)
            m2 = re.fullmatch(r"size \+= write_array\(stream, &self\.(\w+)\)\?", s)
            if m1:
                got.append((m1.group(1), False))
            elif m2:
                got.append((m2.group(1), True))
            else:
                err("%s: encode statement %r" % (name, s))
        if got != [(f, a) for f, _, a in fields]:
            err("%s: encode lists %s, struct has %s" % (name, got, [(f, a) for f, _, a in fields]))
    # decode
    cm = re.search(r"Ok\(%s \{(.*?)\}\)" % name, dec_body, re.S)
    if not cm:
        err("%s: decode has no constructor" % name); return
    ctor = [x.strip() for x in cm.group(1).split(",") if x.strip()]
    lets = statements(dec_body[:cm.start()])
    got = []
    for s in lets:
        m1 = re.fullmatch(r"let (\w+) = (\w+)::decode\(stream, decoding_options\)\?", s)
        m2 = re.fullmatch(r"let (\w+): Option<Vec<(\w+)>> = read_array\(stream, decoding_options\)\?", s)
        m3 = re.fullmatch(r"let (\w+) = (\w+)::from_bits_truncate\((\w+)::decode\(stream, decoding_options\)\?\)", s)
        if m1:
            got.append((m1.group(1), resolve_alias(m1.group(2)), False))
        elif m2:
            got.append((m2.group(1), resolve_alias(m2.group(2)), True))
        elif m3 and m3.group(2) == "DiagnosticBits" and m3.group(3) == "u32":
            got.append((m3.group(1), "DiagnosticBits", False))
        else:
            err("%s: decode statement %r" % (name, s))
    if got != fields:
        err("%s: decode reads %s, struct has %s" % (name, got, fields))
    if ctor != [f for f, _, _ in fields]:
        err("%s: constructor lists %s, struct has %s" % (name, ctor, [f for f, _, _ in fields]))
    structs[name] = fields
    base = os.path.basename(path)
    rust_path[name] = ("opcua::types::%s::%s" % (base[:-3], name)) if base in ("request_header.rs", "response_header.rs") \
        else "opcua::types::service_types::%s" % name


rust_path = {}
for f in files:
    parse_struct(f)

# ---- resolve to descriptors, in dependency order ------------------------------------------------------------
order, state = [], {}


def visit(name, stack):
    if state.get(name) == 2:
        return
    if state.get(name) == 1:
        err("recursive structure: %s" % " -> ".join(stack + [name])); return
    state[name] = 1
    for _, t, _ in structs[name]:
        if t in structs:
            visit(t, stack + [name])
    state[name] = 2
    order.append(name)


for n in sorted(structs):
    visit(n, [])


def coq_ty(t):
    if t in BUILTIN:
        return "(TS %d)" % BUILTIN[t]
    if t == "Variant":
        return "TVar"
    if t == "DataValue":
        return "TDV"
    if t in enums or t in structs:
        return "T_" + t
    err("unknown field type %s" % t)
    return "TVar"


def rust_desc(t):
    if t in BUILTIN:
        return "D::S(%d)" % BUILTIN[t]
    if t == "Variant":
        return "D::Var"
    if t == "DataValue":
        return "D::DV"
    if t in enums:
        k = enums[t]
        if k[0] in ("enum", "enumd"):
            return "D::Enum(%d, vec![%s], %s)" % (k[1], ", ".join(str(v) for v in k[2]), "true" if k[0] == "enumd" else "false")
        return "D::Flags(%d, %d)" % (k[1], k[2])
    if t in structs:
        return "desc_%s()" % t
    return "D::Var"


coq = ["(* GENERATED by tools/translate/c01_service_types.py from lib/src/types/service_types/*.rs,",
       "   request_header.rs, response_header.rs.  Do not edit. *)",
       "From Coq Require Import List ZArith.", "Import ListNotations.",
       "From OV Require Import C01.Codec C01.Builtins C01.Types.", "Open Scope Z_scope.", ""]
for n in sorted(enums):
    k = enums[n]
    if k[0] == "enum":
        coq.append("Definition T_%s : ty := TEnum %d [%s]." % (n, k[1], "; ".join(("(%d)" % v) if v < 0 else str(v) for v in k[2])))
    elif k[0] == "enumd":
        coq.append("Definition T_%s : ty := TEnumD %d [%s] %d." % (n, k[1], "; ".join(("(%d)" % v) if v < 0 else str(v) for v in k[2]), k[3]))
    else:
        coq.append("Definition T_%s : ty := TFlags %d %d." % (n, k[1], k[2]))
coq.append("")
for n in order:
    fs = ["(TArr %s)" % coq_ty(t) if a else coq_ty(t) for _, t, a in structs[n]]
    coq.append("Definition T_%s : ty := TStruct [%s]." % (n, "; ".join(fs)))
coq.append("")
coq.append("Definition all_structs : list ty := [%s]." % "; ".join("T_" + n for n in order))
coq.append("Definition all_enums : list ty := [%s]." % "; ".join("T_" + n for n in sorted(enums)))
coq.append("")

rs = ["// GENERATED by tools/translate/c01_service_types.py.  Do not edit.",
      "pub const NAMES: [&str; %d] = [%s];" % (len(order), ", ".join('"%s"' % n for n in order)), ""]
for n in order:
    fs = ["D::Arr(Box::new(%s))" % rust_desc(t) if a else rust_desc(t) for _, t, a in structs[n]]
    rs.append("pub fn desc_%s() -> D { D::Struct(vec![%s]) }" % (n, ", ".join(fs)))
rs.append("")
rs.append("pub fn desc(idx: usize) -> D { match idx { %s _ => D::Struct(vec![]) } }" %
          " ".join("%d => desc_%s()," % (i, n) for i, n in enumerate(order)))
rs.append("pub fn roundtrip(idx: usize, o: &HOpts, bs: &[u8]) -> Vec<i128> { match idx { %s _ => vec![] } }" %
          " ".join("%d => rt::<%s>(o, bs)," % (i, rust_path[n]) for i, n in enumerate(order)))
rs.append("pub fn observe(idx: usize, ro: &opcua::types::DecodingOptions, s: &mut dyn std::io::Read) -> bool { match idx { %s _ => false } }" %
          " ".join("%d => obs::<%s>(ro, s)," % (i, rust_path[n]) for i, n in enumerate(order)))
rs.append("")

if errors:
    for e in errors[:40]:
        print("TRANSLATOR-ERROR:", e)
    sys.exit(1)
write_if_changed(os.path.join(V, "coq", "Gen", "C01ServiceTypes.v"), "\n".join(coq))
write_if_changed(os.path.join(V, "harness", "src", "codec_structs_gen.rs"), "\n".join(rs))
print("translated %d structs, %d enums / flag sets; all field lists consistent" % (len(order), len(enums)))
