From Coq Require Import List ZArith Bool Lia.
Import ListNotations.
From OV Require Import C18.Model.
Open Scope Z_scope.

(* The domain is finite except for the key length, which only matters through two comparisons.
   The proof is by case analysis on every component; the key length is split on the two
   comparisons of [valid_keylength]. *)
Theorem oracle1_holds : forall c, oracle1 c (run1 c) = true.
Proof.
  intros [rd td ir t tu sk ct p kb tv h u].
  unfold oracle1, run1, validate_or_reject, validate, spec_accept, valid_keylength. cbn [rej_dir tru_dir in_rej tru trust_unknown skip_verify check_time pol key_bits tm host uri].
  destruct (fst (min_max p) <=? kb) eqn:E1; destruct (kb <=? snd (min_max p)) eqn:E2;
  destruct rd, td, ir, t, tu, sk, ct, tv, h, u; reflexivity.
Qed.

(* the statement's clauses, separately *)
Theorem accepted_iff c : status (validate_or_reject c) = Good <-> spec_accept c = true.
Proof.
  destruct c as [rd td ir t tu sk ct p kb tv h u].
  unfold validate_or_reject, validate, spec_accept, valid_keylength. cbn [rej_dir tru_dir in_rej tru trust_unknown skip_verify check_time pol key_bits tm host uri].
  destruct (fst (min_max p) <=? kb) eqn:E1; destruct (kb <=? snd (min_max p)) eqn:E2;
  destruct rd, td, ir, t, tu, sk, ct, tv, h, u; cbn; split; intro H; try reflexivity; try discriminate.
Qed.

Theorem unknown_untrusted_is_rejected c :
  rej_dir c = true -> tru_dir c = true -> in_rej c = false -> tru c = TAbsent -> trust_unknown c = false ->
  put_rejected (validate_or_reject c) = true /\ status (validate_or_reject c) = BadCertificateUntrusted.
Proof.
  destruct c as [rd td ir t tu sk ct p kb tv h u]. cbn [rej_dir tru_dir in_rej tru trust_unknown].
  intros -> -> -> -> ->. split; reflexivity.
Qed.

Theorem accepted_never_rejected c :
  status (validate_or_reject c) = Good -> put_rejected (validate_or_reject c) = false /\ in_rej c = false.
Proof.
  destruct c as [rd td ir t tu sk ct p kb tv h u].
  unfold validate_or_reject, validate, valid_keylength. cbn [rej_dir tru_dir in_rej tru trust_unknown skip_verify check_time pol key_bits tm host uri].
  destruct (fst (min_max p) <=? kb) eqn:E1; destruct (kb <=? snd (min_max p)) eqn:E2;
  destruct rd, td, ir, t, tu, sk, ct, tv, h, u; cbn; intro H; try discriminate; split; reflexivity.
Qed.

Theorem oracle_holds : forall c : case, oracle c (run c) = true.
Proof.
  induction c as [|s c IH]; [reflexivity|].
  pose proof (oracle1_holds s) as H1. unfold run. cbn [flat_map]. unfold run1 at 1. unfold run1 in H1.
  cbn [app oracle]. rewrite H1. exact IH.
Qed.

Example accept_example :
  spec_accept (mk_case true true false TSame false false true Basic256Sha256 2048 TimeValid NMatch NMatch) = true.
Proof. reflexivity. Qed.
Example reject_example :
  run [mk_case true true false TAbsent false false true Basic256Sha256 2048 TimeValid NMatch NMatch] = [BadCertificateUntrusted; 1; 0].
Proof. reflexivity. Qed.
