(* C01 — Binary encoding round-trips every valid value exactly.  Statements only. *)
From Coq Require Import List ZArith.
From OV Require Import C01.Codec C01.CodecProofs C01.Builtins C01.Types C01.Model.
Open Scope Z_scope.

(* The codec law (length, bytes, round trip within the limits, rejection beyond them) is preserved
   by products, arrays, field lists, changes of representation and tagged sums. *)
Theorem C01_combinators :
  (forall A B (ca : codec A) (cb : codec B), codec_ok ca -> codec_ok cb -> codec_ok (c_pair ca cb)) /\
  (forall A esize (c : codec A), codec_ok c -> codec_ok (c_array esize c)) /\
  (forall A (cs : list (codec A)), Forall codec_ok cs -> codec_ok (c_struct cs)) /\
  (forall A B inj proj dflt (c : codec A), codec_ok c -> codec_ok (@c_map A B inj proj dflt c)) /\
  (forall A tag payload, (forall t c, payload t = Some c -> codec_ok c) -> codec_ok (@c_sum A tag payload)).
Proof.
  split; [|split; [|split; [|split]]]; intros.
  - apply c_pair_ok; assumption.
  - apply c_array_ok; assumption.
  - apply c_struct_ok; assumption.
  - apply c_map_ok; assumption.
  - apply c_sum_ok; assumption.
Qed.
Print Assumptions C01_combinators.
